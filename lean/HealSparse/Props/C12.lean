/-
  C12 — scalar operators, masking and type conversion act on exactly the valid pixels.
  Property theorems only (helpers in HealSparse/Lemmas).
-/
import HealSparse.Lemmas.Core
import HealSparse.Lemmas.Coverage
import HealSparse.Lemmas.Valid
import HealSparse.Model.ScalarOps
import HealSparse.Props.C04
import HealSparse.Props.C02
import HealSparse.Lemmas.ScalarOps
import HealSparse.Lemmas.ApiScalar
namespace HS
namespace C12

variable {V : Type} [DecidableEq V]

/-- A scalar operator changes exactly the valid pixels, to `f value`; invalid pixels
    (covered or not) keep their value; the layout and the coverage mask are unchanged.
    Holds for the in-place and the copying form alike (both compute `scalarOp`). -/
theorem scalarOp_spec (c : Cfg) (vc : VCfg V) (s : State V) (f : V → V) (h : Inv c vc s)
    (hv : vc.valid vc.sentinel = false) :
    Inv c vc (scalarOp vc s f) ∧
    (∀ p, p < c.npix → abs c vc (scalarOp vc s f) p
        = if vc.valid (abs c vc s p) then f (abs c vc s p) else abs c vc s p) ∧
    (∀ k, covered c (scalarOp vc s f) k = covered c s k) := by
  have hg : (fun x => if vc.valid x then f x else x) vc.sentinel = vc.sentinel := by
    simp [hv]
  rw [scalarOp_eq]
  refine ⟨inv_mapCells c vc vc s _ h hg, ?_, fun k => mapCells_covered c s _ k⟩
  intro p hp
  exact abs_mapCells c vc vc s _ h p hp

/-- `apply_mask` never raises on a well-formed map, invalidates exactly the valid pixels
    whose mask value is bad, changes nothing else, and keeps layout and coverage. -/
theorem applyMask_spec (c : Cfg) (vc : VCfg V) (s : State V) (bad : Nat → Bool) (h : Inv c vc s)
    (hv : vc.valid vc.sentinel = false) :
    ∃ s', applyMask c vc s bad = some s' ∧ Inv c vc s' ∧
      (∀ p, p < c.npix → abs c vc s' p
          = if vc.valid (abs c vc s p) && bad p then vc.sentinel else abs c vc s p) ∧
      (∀ k, covered c s' k = covered c s k) := by
  refine ⟨_, h.applyMask_eq hv bad, ?_, ?_, fun k => withScatter_covered c s _ _ k⟩
  · exact inv_withScatter c vc s _ _ h (h.badPixels_covered hv bad)
  · intro p hp
    rw [abs_withScatter c vc s _ _ h (h.badPixels_covered hv bad) p hp, denseFold_const]
    have hmem := h.mem_badPixels hv bad p
    cases hc : covered c s (p >>> c.shift) with
    | false =>
      rw [h.abs_uncovered hp hc, hv]
      simp
    | true =>
      simp only [if_true]
      by_cases hb : vc.valid (abs c vc s p) = true ∧ bad p = true
      · rw [if_pos (hmem.2 ⟨hp, hb.1, hb.2⟩)]
        simp [hb.1, hb.2]
      · rw [if_neg (fun hm => hb (hmem.1 hm).2)]
        rw [if_neg (by simpa using hb)]

/-- valid set after apply_mask = valid ∧ ¬ bad -/
theorem applyMask_valid (c : Cfg) (vc : VCfg V) (s s' : State V) (bad : Nat → Bool) (h : Inv c vc s)
    (hv : vc.valid vc.sentinel = false) (hs' : applyMask c vc s bad = some s')
    (p : Nat) (hp : p < c.npix) :
    vc.valid (abs c vc s' p) = (vc.valid (abs c vc s p) && !bad p) := by
  obtain ⟨s'', hs'', _, habs, _⟩ := applyMask_spec c vc s bad h hv
  rw [hs'] at hs''
  cases hs''
  rw [habs p hp]
  cases hval : vc.valid (abs c vc s p) <;> cases hb : bad p <;> simp [hval, hv]

/-- `astype`: values converted on valid pixels, the new sentinel elsewhere; the result is a
    well-formed map over the new cell type with the same coverage. -/
theorem astype_spec {V' : Type} [DecidableEq V'] (c : Cfg) (vc : VCfg V) (vc' : VCfg V') (s : State V)
    (conv : V → V') (h : Inv c vc s) (hv : vc.valid vc.sentinel = false) :
    Inv c vc' (astypeMap vc s conv vc'.sentinel) ∧
    (∀ p, p < c.npix → abs c vc' (astypeMap vc s conv vc'.sentinel) p
        = if vc.valid (abs c vc s p) then conv (abs c vc s p) else vc'.sentinel) ∧
    (∀ k, covered c (astypeMap vc s conv vc'.sentinel) k = covered c s k) := by
  have hg : (fun x => if vc.valid x then conv x else vc'.sentinel) vc.sentinel = vc'.sentinel := by
    simp [hv]
  rw [astypeMap_eq]
  refine ⟨inv_mapCells c vc vc' s _ h hg, ?_, fun k => mapCells_covered c s _ k⟩
  intro p hp
  exact abs_mapCells c vc vc' s _ h p hp

/-- `astype` preserves the valid set **provided no converted value coincides with the new
    sentinel** (a converted value equal to the new sentinel cannot be represented as valid;
    the hypothesis is necessary and stated, not hidden). -/
theorem astype_valid_preserved {V' : Type} [DecidableEq V'] (c : Cfg) (vc : VCfg V) (vc' : VCfg V')
    (s : State V) (conv : V → V') (h : Inv c vc s) (hv : vc.valid vc.sentinel = false)
    (hv' : vc'.valid vc'.sentinel = false)
    (hconv : ∀ x, vc.valid x = true → vc'.valid (conv x) = true) (p : Nat) (hp : p < c.npix) :
    vc'.valid (abs c vc' (astypeMap vc s conv vc'.sentinel) p) = vc.valid (abs c vc s p) := by
  rw [(astype_spec c vc vc' s conv h hv).2.1 p hp]
  cases hval : vc.valid (abs c vc s p) with
  | true => simpa using hconv _ hval
  | false => simpa using hv'

/-- `as_bit_packed_map`: a well-formed boolean map, True exactly on the valid pixels, same coverage. -/
theorem asBitPacked_spec (c : Cfg) (vc : VCfg V) (s : State V) (h : Inv c vc s)
    (hv : vc.valid vc.sentinel = false) :
    Inv c (⟨false, fun b => b⟩ : VCfg Bool) (asBitPacked c vc s) ∧
    (∀ p, p < c.npix → abs c (⟨false, fun b => b⟩ : VCfg Bool) (asBitPacked c vc s) p
        = vc.valid (abs c vc s p)) ∧
    (∀ k, covered c (asBitPacked c vc s) k = covered c s k) := by
  refine ⟨?_, ?_, fun k => rfl⟩
  · refine inv_of_cov_eq (s' := asBitPacked c vc s) (vw := (⟨false, fun b => b⟩ : VCfg Bool)) h rfl
      h.asBitPacked_size ?_
    intro i hi
    rw [h.asBitPacked_get hv (Nat.lt_of_lt_of_le hi h.nfine_le_size)]
    have : rd s.sp i vc.sentinel = vc.sentinel := by
      unfold rd; rw [h.2.2.1 i hi]; rfl
    rw [this, hv]
  · intro p hp
    show rd (asBitPacked c vc s).sp (idxOf c s p) false = vc.valid (rd s.sp (idxOf c s p) vc.sentinel)
    unfold rd
    rw [h.asBitPacked_get hv (h.idxOf_lt_size hp)]
    rfl

/-- non-vacuity: a map with a valid, an invalid-covered and uncovered pixels -/
example : (scalarOp (V := Int) ⟨-1, fun x => x != -1⟩ ⟨#[2, -2], #[-1, -1, 5, -1]⟩ (· * 3)).sp
    = #[-1, -1, 15, -1] := by decide +kernel

end C12
end HS

/-! ## API level (campaign E5)

The theorems above are about the generic core (`scalarOp`, `applyMask`, `astypeMap`,
`asBitPacked`) on any state satisfying `Inv`.  The theorems below are about the API functions
themselves — `apiScalarOp` (`_apply_operation`: `+ - * / ** & | ^` with a constant or a bit list),
`apiApplyMask`, `apiAstype`, `apiAsBitPacked` of Model/Api.lean, argument validation, dtype and
sentinel rules and error behaviour included — for every well-formed map object, and about what
the protocol driver stores (`opSop`).  Helper definitions (`sopError`, `sopCell`, `maskError`,
`maskBad`, `astypeSrc`, the flat-form equations `api…_eq`) are in Lemmas/ApiScalar.lean.

Hypotheses (the weakest that work):
  * scalar operators: `m.WF` only (the call's own kind checks make the blank cell invalid);
  * `apply_mask`, `astype`, `as_bit_packed_map`: `m.WF ∧ m.BlankInvalid` (`BlankInvalid` follows
    from `KindOk`, hence from `MapObj.Ok`; it is automatic for numeric maps and wide masks);
    NOTHING is assumed of the mask map.
`inexact` = the exact model declines to predict an IEEE-rounded result: no claim is made. -/
namespace HS
namespace C12

open ApiScalar WFApi ApiRanges

/-! ### (1) scalar operators -/

/-- **scalar operators at the API level act on exactly the valid pixels.**  For a well-formed
    map (`WF` alone: the kind checks of the call itself make the blank cell invalid), if
    `m <op> k` (in place or copying) succeeds with storage `st`, then the stored object
    `m.withSt st` is well formed, has the coverage mask of `m`, the call has passed the
    validation `sopError`, and for every sky pixel `p`:
    * `p` valid in `m`: the new value is the numpy operation at the map's dtype,
      `sopCell kind op k (old value)` (`scalarCell dt op k` for a numeric map, the byte-wise
      bit operation for a wide mask);
    * `p` not valid in `m` (covered or not): the cell is unchanged (it holds the blank). -/
theorem api_scalarOp_spec {m : MapObj} {op : String} {k : Scalar} {st : State Val}
    (h : m.WF) (hr : apiScalarOp m op k = .ok st) :
    (m.withSt st).WF ∧ apiCovMask (m.withSt st) = apiCovMask m ∧
    sopError m.kind op k = none ∧
    ∀ p, p < m.npix →
      (m.vc.valid (m.abs p) = true →
        sopCell m.kind op k (m.abs p) = some ((m.withSt st).abs p)) ∧
      (m.vc.valid (m.abs p) = false → (m.withSt st).abs p = m.abs p) := by
  obtain ⟨hE, hany, rfl⟩ := apiScalarOp_ok_st hr
  have hv : m.BlankInvalid := by
    rcases sopError_none_kind hE with ⟨n, hn⟩ | ⟨dt, hd, _⟩
    · exact MapObj.blankInvalid_of_wide hn
    · exact MapObj.blankInvalid_of_plain hd
  obtain ⟨hinv, habs, hcov⟩ := scalarOp_spec m.c m.vc m.st
    (fun x => (sopCell m.kind op k x).getD x) h.2 hv
  refine ⟨⟨h.1, hinv⟩, apiCovMask_congr rfl rfl hcov, hE, fun p hp => ?_⟩
  have hab : (m.withSt (scalarOp m.vc m.st fun x => (sopCell m.kind op k x).getD x)).abs p
      = if m.vc.valid (m.abs p) then (sopCell m.kind op k (m.abs p)).getD (m.abs p) else m.abs p :=
    habs p hp
  constructor
  · intro hval
    rw [hab, hval]
    simp only [if_true]
    have hnone := List.any_eq_false.1 hany (m.abs p)
      (List.mem_filter.2 ⟨abs_mem_sp h.2 hp, hval⟩)
    cases hc : sopCell m.kind op k (m.abs p) with
    | none => rw [hc] at hnone; exact absurd rfl hnone
    | some y => rfl
  · intro hval
    rw [hab, hval]
    simp

/-- **validation errors of the scalar operators, exactly**: an error other than `inexact` is
    raised iff it is the one `sopError` names — a function of the map's KIND, the operator and
    the operand only (no hypothesis on the map; the storage is never looked at) -/
theorem api_scalarOp_validation_iff (m : MapObj) (op : String) (k : Scalar) {e : Err}
    (he : e ≠ .inexact) : apiScalarOp m op k = .error e ↔ sopError m.kind op k = some e := by
  rw [apiScalarOp_eq]
  cases hE : sopError m.kind op k with
  | some e' => simp
  | none =>
    simp only
    split
    · simp only [reduceCtorEq, iff_false]
      intro h
      cases h
      exact he rfl
    · simp

/-- `NotImplementedError` of `m <op> k`, exactly -/
theorem api_scalarOp_notImpl_iff (m : MapObj) (op : String) (k : Scalar) :
    apiScalarOp m op k = .error .notImpl ↔
      (∃ fs pr, m.kind = .recd fs pr) ∨ m.kind.isBool = true ∨
      (intOnlyOp op = true ∧ m.kind.isIntegerMap = false) ∨
      (intOnlyOp op = false ∧ ∃ n, m.kind = .wide n) ∨
      ((∃ l, k = .bits l) ∧ ¬ ∃ n, m.kind = .wide n) ∨
      ((∃ n, m.kind = .wide n) ∧ ¬ ∃ l, k = .bits l) ∨
      (intOnlyOp op = true ∧ ∃ q, k = .flt q) := by
  rw [api_scalarOp_validation_iff m op k (by decide), sopError_notImpl_iff]

/-- `ValueError` of `m <op> k`, exactly: a wide mask with an empty bit list or a bit position
    `≥ maxbits`; an integer map raised to a negative integer power -/
theorem api_scalarOp_value_iff (m : MapObj) (op : String) (k : Scalar) :
    apiScalarOp m op k = .error .value ↔
      (∃ n l, m.kind = .wide n ∧ k = .bits l ∧ intOnlyOp op = true ∧ (l = [] ∨ ∃ b ∈ l, 8 * n ≤ b)) ∨
      (∃ b sg, m.kind = .plain (.int b sg) ∧
        ∃ q, k = .int q ∧ wrapInt b sg q = q ∧ op = "pow" ∧ q < 0) := by
  rw [api_scalarOp_validation_iff m op k (by decide), sopError_value_iff]

/-- `TypeError` / `OverflowError` of `m <op> k`, exactly: on an integer map, a real constant
    (with `+ - * / **`), a Python integer outside the dtype's range, or true division -/
theorem api_scalarOp_type_iff (m : MapObj) (op : String) (k : Scalar) :
    apiScalarOp m op k = .error .type ↔
      ∃ b sg, m.kind = .plain (.int b sg) ∧
        ((intOnlyOp op = false ∧ ∃ q, k = .flt q) ∨
         (∃ q, k = .int q ∧ (wrapInt b sg q ≠ q ∨ op = "div"))) := by
  rw [api_scalarOp_validation_iff m op k (by decide), sopError_type_iff]

/-- no other error class is ever raised -/
theorem api_scalarOp_error_classes {m : MapObj} {op : String} {k : Scalar} {e : Err}
    (h : apiScalarOp m op k = .error e) :
    e = .notImpl ∨ e = .value ∨ e = .type ∨ e = .inexact := by
  by_cases he : e = .inexact
  · exact Or.inr (Or.inr (Or.inr he))
  · have := (api_scalarOp_validation_iff m op k he).1 h
    rcases sopError_range m.kind op k with h' | h' | h' | h' <;> rw [h'] at this <;> cases this <;> simp

/-- **`inexact` (the model declines to predict IEEE rounding — no claim is made about the
    library there), exactly**: the call passes validation and some VALID PIXEL has no exactly
    representable result -/
theorem api_scalarOp_inexact_iff {m : MapObj} (h : m.WF) (op : String) (k : Scalar) :
    apiScalarOp m op k = .error .inexact ↔
      sopError m.kind op k = none ∧
      ∃ p, p < m.npix ∧ m.vc.valid (m.abs p) = true ∧ sopCell m.kind op k (m.abs p) = none := by
  rw [apiScalarOp_eq]
  cases hE : sopError m.kind op k with
  | some e =>
    have := sopError_ne_inexact m.kind op k
    rw [hE] at this
    simp only [reduceCtorEq, false_and, iff_false]
    intro h'
    cases h'
    exact this rfl
  | none =>
    have hv : m.BlankInvalid := by
      rcases sopError_none_kind hE with ⟨n, hn⟩ | ⟨dt, hd, _⟩
      · exact MapObj.blankInvalid_of_wide hn
      · exact MapObj.blankInvalid_of_plain hd
    simp only [true_and]
    have hiff := any_valid_iff h.2 hv (fun x => (sopCell m.kind op k x).isNone)
    split
    · rename_i hany
      simp only [true_iff]
      obtain ⟨p, hp, hval, hq⟩ := hiff.1 hany
      exact ⟨p, hp, hval, Option.isNone_iff_eq_none.1 hq⟩
    · rename_i hany
      simp only [reduceCtorEq, false_iff]
      rintro ⟨p, hp, hval, hq⟩
      exact hany (hiff.2 ⟨p, hp, hval, Option.isNone_iff_eq_none.2 hq⟩)

/-- **success, exactly**: the call passes validation and every valid pixel has an exact result -/
theorem api_scalarOp_ok_iff {m : MapObj} (h : m.WF) (op : String) (k : Scalar) :
    (∃ st, apiScalarOp m op k = .ok st) ↔
      sopError m.kind op k = none ∧
      ∀ p, p < m.npix → m.vc.valid (m.abs p) = true → (sopCell m.kind op k (m.abs p)).isSome = true := by
  constructor
  · rintro ⟨st, hr⟩
    obtain ⟨_, _, hE, hpix⟩ := api_scalarOp_spec h hr
    refine ⟨hE, fun p hp hval => ?_⟩
    rw [(hpix p hp).1 hval]
    rfl
  · rintro ⟨hE, hall⟩
    cases hr : apiScalarOp m op k with
    | ok st => exact ⟨st, rfl⟩
    | error e =>
      exfalso
      by_cases he : e = .inexact
      · subst he
        obtain ⟨_, p, hp, hval, hnone⟩ := (api_scalarOp_inexact_iff h op k).1 hr
        have := hall p hp hval
        rw [hnone] at this
        cases this
      · have := (api_scalarOp_validation_iff m op k he).1 hr
        rw [hE] at this
        cases this

/-- **the valid set after a scalar operator**: a pixel is valid afterwards iff it was valid
    before AND the result of the operation is itself a valid cell — i.e. (numeric maps) differs
    from the sentinel, (wide masks) has a bit left.  A result equal to the sentinel silently
    turns the pixel invalid (the library's documented representation of "no value"); no pixel
    ever becomes valid. -/
theorem api_scalarOp_valid {m : MapObj} {op : String} {k : Scalar} {st : State Val}
    (h : m.WF) (hr : apiScalarOp m op k = .ok st) (p : Nat) (hp : p < m.npix) :
    (m.withSt st).vc.valid ((m.withSt st).abs p) = true ↔
      m.vc.valid (m.abs p) = true ∧
        ∃ y, sopCell m.kind op k (m.abs p) = some y ∧ m.vc.valid y = true := by
  obtain ⟨_, _, _, hpix⟩ := api_scalarOp_spec h hr
  obtain ⟨h1, h2⟩ := hpix p hp
  show m.vc.valid ((m.withSt st).abs p) = true ↔ _
  cases hval : m.vc.valid (m.abs p) with
  | true =>
    have := h1 hval
    rw [this]
    simp
  | false =>
    rw [h2 hval, hval]
    simp

/-- the sentinel collision, spelled out for a numeric map: a valid pixel whose result is the
    sentinel reads the sentinel afterwards and is no longer valid -/
theorem api_scalarOp_collision {m : MapObj} {op : String} {k : Scalar} {st : State Val} {dt : DT}
    (h : m.WF) (hk : m.kind = .plain dt) (hr : apiScalarOp m op k = .ok st) (p : Nat)
    (hp : p < m.npix) (hval : m.vc.valid (m.abs p) = true)
    (hc : sopCell m.kind op k (m.abs p) = some m.sent) :
    (m.withSt st).abs p = m.sent ∧ (m.withSt st).vc.valid ((m.withSt st).abs p) = false := by
  obtain ⟨_, _, _, hpix⟩ := api_scalarOp_spec h hr
  have habs : (m.withSt st).abs p = m.sent := by
    have := (hpix p hp).1 hval
    rw [hc] at this
    exact (Option.some.inj this).symm
  refine ⟨habs, ?_⟩
  show m.vc.valid ((m.withSt st).abs p) = false
  have hb := MapObj.blankInvalid_of_plain hk
  unfold MapObj.BlankInvalid at hb
  have hs : m.vc.sentinel = m.sent := by unfold MapObj.vc; rw [hk]; rfl
  rw [hs] at hb
  rw [habs]
  exact hb

/-! ### (2) in place = copying: what the protocol driver `sop` stores -/

/-- **`sop` in place, on a map that owns its storage**: answers `ok`, and the operand's name now
    reads `m.withSt st` (the cells of `api_scalarOp_spec`, cache reset) -/
theorem sop_inplace {w : World} {a : Args} {n : String} {rest : List String} {m : MapObj}
    {k : Scalar} {st : State Val} (hpos : a.pos = n :: rest) (hget : w.get? n = some m)
    (hk : sopArg a = some k) (hown : m.view = none) (hip : a.flag "inplace" = true)
    (hr : apiScalarOp m (a.getD "op" "add") k = .ok st) :
    (opSop w a).2 = "ok" ∧ (opSop w a).1.get? n = some (m.withSt st) := by
  rw [opSop_eq w a n rest m k hpos hget hk, hr]
  simp only [hip, ↓reduceIte, true_and]
  rw [World.put_eq_bind (show (m.withSt st).view = none from hown), get?_bind_self,
    withSt_view_none hown]

/-- **`sop` copying**: answers `ok`, the `r=` name reads the SAME object `m.withSt st` (owning its
    storage), and the operand, if it owns its storage and has another name, is untouched —
    cache included -/
theorem sop_copy {w : World} {a : Args} {n : String} {rest : List String} {m : MapObj}
    {k : Scalar} {st : State Val} (hpos : a.pos = n :: rest) (hget : w.get? n = some m)
    (hk : sopArg a = some k) (hip : a.flag "inplace" = false)
    (hr : apiScalarOp m (a.getD "op" "add") k = .ok st) :
    (opSop w a).2 = "ok" ∧
    (opSop w a).1.get? (a.getD "r" "tmp") = some { m.withSt st with view := none } ∧
    (m.view = none → a.getD "r" "tmp" ≠ n → (opSop w a).1.get? n = some m) := by
  rw [opSop_eq w a n rest m k hpos hget hk, hr]
  simp only [hip, Bool.false_eq_true, ↓reduceIte, true_and]
  exact ⟨get?_bind_self _ _ _, fun hown hne => get?_bind_ne hne hget hown⟩

/-- **in place = copying** (one operand, one operator, one constant; two protocol lines that
    differ in the `inplace` flag): both answer the same line; on success the operand's name after
    the in-place call and the `r=` name after the copying call read the SAME object — same
    resolution, kind, sentinel, coverage index and cells, cold cache; on an error neither call
    changes any map of the world (`SameMaps`: only `n_valid` caches may be reset) -/
theorem sop_inplace_eq_copy {w : World} (hw : w.Good) {aI aC : Args} {n : String}
    {restI restC : List String} {m : MapObj} {k : Scalar}
    (hposI : aI.pos = n :: restI) (hposC : aC.pos = n :: restC) (hget : w.get? n = some m)
    (hown : m.view = none) (hkI : sopArg aI = some k) (hkC : sopArg aC = some k)
    (hop : aI.getD "op" "add" = aC.getD "op" "add")
    (hI : aI.flag "inplace" = true) (hC : aC.flag "inplace" = false) :
    (opSop w aI).2 = (opSop w aC).2 ∧
    ((opSop w aI).2 = "ok" →
      (opSop w aI).1.get? n = (opSop w aC).1.get? (aC.getD "r" "tmp") ∧
      ∃ st, apiScalarOp m (aC.getD "op" "add") k = .ok st ∧
        (opSop w aI).1.get? n = some (m.withSt st)) ∧
    ((opSop w aI).2 ≠ "ok" → SameMaps (opSop w aI).1 w ∧ SameMaps (opSop w aC).1 w) := by
  cases hr : apiScalarOp m (aC.getD "op" "add") k with
  | ok st =>
    obtain ⟨i1, i2⟩ := sop_inplace hposI hget hkI hown hI (by rw [hop]; exact hr)
    obtain ⟨c1, c2, _⟩ := sop_copy hposC hget hkC hC hr
    refine ⟨by rw [i1, c1], fun _ => ⟨?_, st, rfl, i2⟩, fun hne => absurd i1 hne⟩
    rw [i2, c2, withSt_view_none hown]
  | error e =>
    have eI : (opSop w aI).2 = errLine e := by
      rw [opSop_eq w aI n restI m k hposI hget hkI, hop, hr]
    have eC : (opSop w aC).2 = errLine e := by
      rw [opSop_eq w aC n restC m k hposC hget hkC, hr]
    have hne : errLine e ≠ "ok" := errLine_ne_ok e
    refine ⟨by rw [eI, eC], fun hok => absurd (eI ▸ hok) hne, fun _ => ⟨?_, ?_⟩⟩
    · exact opSop_not_ok hw aI (by rw [eI]; exact hne)
    · exact opSop_not_ok hw aC (by rw [eC]; exact hne)

/-- **which failing in-place calls reset the operand's `n_valid` cache**: the four checks that
    precede `self._n_valid = None` in the source (a record map, a boolean map, an integer-only
    operator on a non-integer map, another operator on a wide mask — all `NotImplementedError`)
    leave the object untouched; every later failure (`bit list` / constant type checks, the
    numpy casting, overflow and negative-power errors, `inexact`) has already reset it.
    The copying form never touches the operand. -/
theorem sop_error_world {w : World} {a : Args} {n : String} {rest : List String} {m : MapObj}
    {k : Scalar} {e : Err} (hpos : a.pos = n :: rest) (hget : w.get? n = some m)
    (hk : sopArg a = some k) (hr : apiScalarOp m (a.getD "op" "add") k = .error e) :
    (opSop w a).2 = errLine e ∧
    (opSop w a).1 =
      if a.flag "inplace" = true ∧ sopEarly m.kind (a.getD "op" "add") = false
      then w.put n { m with cache := none } else w := by
  rw [opSop_eq w a n rest m k hpos hget hk, hr]
  refine ⟨rfl, ?_⟩
  simp only
  cases a.flag "inplace" <;> cases sopEarly m.kind (a.getD "op" "add") <;> simp

/-! ### (3) `apply_mask` -/

/-- **`apply_mask` at the API level.**  For a well-formed map whose blank cell is invalid
    (`KindOk` gives that; automatic for numeric maps and wide masks) and ANY mask object —
    nothing is required of the mask map: not well-formedness, not its coverage, not even its
    resolution — if `m.apply_mask(mask, mask_bits, mask_bit_arr)` succeeds with storage `st`:
    the stored object is well formed, the coverage mask is unchanged, the mask passed the
    validation `maskError`, every valid pixel of `m` is a pixel number of the mask map, and
    for every sky pixel `p` of `m`: the cell becomes the blank iff `p` is valid in `m` AND the
    mask map's value at pixel NUMBER `p` is bad (`maskBad`); every other cell is unchanged. -/
theorem api_applyMask_spec {m mask : MapObj} {mb : Option Int} {ba : Option (List Nat)}
    {st : State Val} (h : m.WF) (hv : m.BlankInvalid) (hr : apiApplyMask m mask mb ba = .ok st) :
    (m.withSt st).WF ∧ apiCovMask (m.withSt st) = apiCovMask m ∧
    maskError mask mb ba = none ∧
    (∀ p, p < m.npix → m.vc.valid (m.abs p) = true → p < mask.npix) ∧
    ∀ p, p < m.npix → (m.withSt st).abs p =
      if m.vc.valid (m.abs p) && maskBad mask mb ba p then m.kind.blank m.sent else m.abs p := by
  obtain ⟨hE, hlt, ham⟩ := apiApplyMask_ok_st h hv hr
  obtain ⟨s', hs', hinv, habs, hcov⟩ := applyMask_spec m.c m.vc m.st (maskBad mask mb ba) h.2 hv
  rw [ham] at hs'
  cases hs'
  exact ⟨⟨h.1, hinv⟩, apiCovMask_congr rfl rfl hcov, hE, hlt, habs⟩

/-- **the valid set after `apply_mask`** = valid before ∧ not bad in the mask -/
theorem api_applyMask_valid {m mask : MapObj} {mb : Option Int} {ba : Option (List Nat)}
    {st : State Val} (h : m.WF) (hv : m.BlankInvalid) (hr : apiApplyMask m mask mb ba = .ok st)
    (p : Nat) (hp : p < m.npix) :
    (m.withSt st).vc.valid ((m.withSt st).abs p) = (m.vc.valid (m.abs p) && !maskBad mask mb ba p) := by
  obtain ⟨_, _, ham⟩ := apiApplyMask_ok_st h hv hr
  exact applyMask_valid m.c m.vc m.st st (maskBad mask mb ba) h.2 hv ham p hp

/-- **errors of `apply_mask`, exactly**: the validation error `maskError` names (a function of
    the mask's kind and the two bit arguments only), or `IndexError` when the mask passes
    validation and some VALID pixel of `m` is not a pixel number of the mask map (possible only
    for a mask of coarser resolution) -/
theorem api_applyMask_error_iff {m : MapObj} (h : m.WF) (hv : m.BlankInvalid) (mask : MapObj)
    (mb : Option Int) (ba : Option (List Nat)) (e : Err) :
    apiApplyMask m mask mb ba = .error e ↔
      maskError mask mb ba = some e ∨
      (e = .index ∧ maskError mask mb ba = none ∧
        ∃ p, p < m.npix ∧ m.vc.valid (m.abs p) = true ∧ mask.npix ≤ p) := by
  rw [apiApplyMask_eq]
  cases hE : maskError mask mb ba with
  | some e' =>
    simp only [Except.error.injEq, Option.some.injEq, reduceCtorEq, and_false, false_and, or_false]
  | none =>
    obtain ⟨s', hs', _⟩ := applyMask_spec m.c m.vc m.st (maskBad mask mb ba) h.2 hv
    rw [h.2.validPixels_eq hv, hs']
    simp only [reduceCtorEq, false_or, true_and]
    split
    · rename_i hany
      rw [List.any_eq_true] at hany
      obtain ⟨q, hq, hbad⟩ := hany
      obtain ⟨p, hp, rfl⟩ := List.mem_map.1 hq
      obtain ⟨hp1, hp2⟩ := (h.2.mem_validCells_map hv p).1 hp
      simp only [Int.toNat_natCast, ge_iff_le, Bool.or_eq_true, decide_eq_true_eq] at hbad
      have hle : mask.npix ≤ p := by
        rcases hbad with hneg | hle
        · omega
        · exact hle
      constructor
      · intro he
        cases he
        exact ⟨rfl, p, hp1, hp2, hle⟩
      · rintro ⟨rfl, _⟩
        rfl
    · rename_i hany
      simp only [reduceCtorEq, false_iff]
      rintro ⟨_, p, hp, hval, hle⟩
      apply hany
      rw [List.any_eq_true]
      refine ⟨((p : Nat) : Int), List.mem_map.2 ⟨p, (h.2.mem_validCells_map hv p).2 ⟨hp, hval⟩, rfl⟩, ?_⟩
      simp only [Int.toNat_natCast, ge_iff_le, Bool.or_eq_true, decide_eq_true_eq]
      exact Or.inr hle

/-- **success of `apply_mask`, exactly** -/
theorem api_applyMask_ok_iff {m : MapObj} (h : m.WF) (hv : m.BlankInvalid) (mask : MapObj)
    (mb : Option Int) (ba : Option (List Nat)) :
    (∃ st, apiApplyMask m mask mb ba = .ok st) ↔
      maskError mask mb ba = none ∧
      ∀ p, p < m.npix → m.vc.valid (m.abs p) = true → p < mask.npix := by
  constructor
  · rintro ⟨st, hr⟩
    obtain ⟨hE, hlt, _⟩ := apiApplyMask_ok_st h hv hr
    exact ⟨hE, hlt⟩
  · rintro ⟨hE, hlt⟩
    cases hr : apiApplyMask m mask mb ba with
    | ok st => exact ⟨st, rfl⟩
    | error e =>
      exfalso
      rcases (api_applyMask_error_iff h hv mask mb ba e).1 hr with h1 | ⟨_, _, p, hp, hval, hle⟩
      · rw [hE] at h1; cases h1
      · exact absurd (hlt p hp hval) (by omega)

/-! #### what the mask map says where it has no value

`apply_mask` reads the mask through `get_values_pix`, so a pixel the mask map does not cover — or
covers but never set — reads as the mask's BLANK cell, which for a signed integer mask with its
default sentinel (`-2^(b-1)`) is not `0`.  A first version of this section PROVED that such a mask
blanked every valid pixel of the map outside its own valid set (`api_applyMask_signed_mask`,
counterexample: the int32 mask below) — a genuine defect of the library, introduced by the earlier
`> 0` → `!= 0` repair.  It is fixed (`fix:` commit ec2f28a: a numeric mask value masks only where
it differs from the mask's sentinel), the model mirrors the fix (`maskBadVal`), and the statement
"a pixel that is not valid in the mask map is never masked" is now a theorem for every numeric
mask, whatever its sentinel; the old counterexample is kept below as a regression example. -/

/-- **a pixel that is NOT VALID in a numeric mask map is never masked** — covered or not, with
    or without `mask_bits`, WHATEVER the mask's sentinel; nothing else is assumed of the mask
    (not even well-formedness) -/
theorem api_applyMask_unset {mask : MapObj} {dt : DT} {s : Int} {e : Nat}
    (hk : mask.kind = .plain dt) (hs : mask.sent = .num s e) (mb : Option Int)
    (ba : Option (List Nat)) {p : Nat} (hinv : mask.vc.valid (mask.abs p) = false) :
    maskBad mask mb ba p = false := by
  rw [maskBad_invalid_plain hk mb ba hinv]
  exact maskBadVal_sent_num hk hs mb ba

/-- **a pixel the mask map does not cover is never masked**: for a wide or bit-packed mask
    unconditionally, for a plain mask whose sentinel is a number (any) or `False` -/
theorem api_applyMask_uncovered {mask : MapObj} (hm : mask.WF)
    (hs : ∀ dt, mask.kind = .plain dt → (∃ s e, mask.sent = .num s e) ∨ mask.sent = .bool false)
    (mb : Option Int) (ba : Option (List Nat)) {p : Nat} (hp : p < mask.npix)
    (hc : covered mask.c mask.st (p >>> mask.c.shift) = false) : maskBad mask mb ba p = false := by
  rw [maskBad_uncovered hm mb ba hp hc]
  exact maskBadVal_blank mask mb ba hs

/-- … hence `apply_mask` with a numeric mask leaves every pixel outside the MASK's valid set
    exactly as it was (the regression form of the former finding) -/
theorem api_applyMask_unset_kept {m mask : MapObj} {mb : Option Int} {ba : Option (List Nat)}
    {st : State Val} {dt : DT} {s : Int} {e : Nat} (h : m.WF) (hv : m.BlankInvalid)
    (hk : mask.kind = .plain dt) (hs : mask.sent = .num s e)
    (hr : apiApplyMask m mask mb ba = .ok st) (p : Nat) (hp : p < m.npix)
    (hinv : mask.vc.valid (mask.abs p) = false) :
    (m.withSt st).abs p = m.abs p := by
  obtain ⟨_, _, _, _, habs⟩ := api_applyMask_spec h hv hr
  rw [habs p hp, api_applyMask_unset hk hs mb ba hinv]
  simp

/-- … and a numeric mask masks a valid pixel of the map iff the pixel is VALID IN THE MASK and
    its mask value is non-zero (no `mask_bits`) / has a selected bit (two's complement at the
    mask's dtype) -/
theorem api_applyMask_num_iff {mask : MapObj} (mb : Option Int) (ba : Option (List Nat)) {p : Nat}
    {n : Int} {e : Nat} (hval : mask.abs p = .num n e) :
    maskBad mask mb ba p = true ↔
      mask.vc.valid (mask.abs p) = true ∧
        (match mb with
         | none => n ≠ 0
         | some b => intBitop (· &&& ·) mask.kind.dt n b ≠ 0) := by
  unfold maskBad
  rw [hval]
  unfold maskBadVal
  cases mb <;> simp [and_comm]

/-! ### (4) `astype`, `as_bit_packed_map` -/

/-- **`astype` at the API level.**  For a well-formed map whose blank cell is invalid (automatic
    for a numeric source; for a bit-packed source it says `sentinel = False`, which `KindOk`
    gives): if `m.astype(dst, sentinel)` succeeds with `m'`, then `m'` is a well-formed plain map
    of dtype `dst` at the same resolution whose sentinel is `check_sentinel(dst, sentinel)`, the
    `n_valid` cache is cold, the coverage mask is that of `m`, and for every sky pixel `p`:
    * `p` valid in `m`: the new value is numpy's `astype` of the old one (`convCell src dst`);
    * `p` not valid in `m`: the cell holds the NEW sentinel. -/
theorem api_astype_spec {m : MapObj} {dst : DT} {sentinel : Option Val} {m' : MapObj}
    (h : m.WF) (hv : m.BlankInvalid) (hr : apiAstype m dst sentinel = .ok m') :
    ∃ src, astypeSrc m.kind = some src ∧
      m'.WF ∧ m'.covord = m.covord ∧ m'.spord = m.spord ∧ m'.kind = .plain dst ∧
      checkSentinel dst sentinel = .ok m'.sent ∧ m'.cache = none ∧
      apiCovMask m' = apiCovMask m ∧
      ∀ p, p < m.npix →
        (m.vc.valid (m.abs p) = true → convCell src dst (m.abs p) = some (m'.abs p)) ∧
        (m.vc.valid (m.abs p) = false → m'.abs p = m'.sent) := by
  obtain ⟨src, hS, hC, hany, hm'⟩ := apiAstype_ok_st hr
  generalize m'.sent = s' at hC hm'
  subst hm'
  obtain ⟨hinv, habs, hcov⟩ := astype_spec m.c m.vc (⟨s', (Kind.plain dst).valid s'⟩ : VCfg Val) m.st
    (fun x => (convCell src dst x).getD x) h.2 hv
  refine ⟨src, hS, ⟨h.1, hinv⟩, rfl, rfl, rfl, hC, rfl, apiCovMask_congr rfl rfl hcov, fun p hp => ?_⟩
  have hab := habs p hp
  constructor
  · intro hval
    have hnone := List.any_eq_false.1 hany (m.abs p)
      (List.mem_filter.2 ⟨abs_mem_sp h.2 hp, hval⟩)
    cases hc : convCell src dst (m.abs p) with
    | none => rw [hc] at hnone; exact absurd rfl hnone
    | some y =>
      congr 1
      refine Eq.trans ?_ (hab.symm)
      show y = if m.vc.valid (m.abs p) = true then (convCell src dst (m.abs p)).getD (m.abs p) else s'
      rw [hval, hc]
      rfl
  · intro hval
    refine hab.trans ?_
    show (if m.vc.valid (m.abs p) = true then _ else s') = s'
    rw [hval]
    rfl

/-- **the valid set after `astype`**: a pixel is valid in the result iff it is valid in the
    source AND its converted value differs from the NEW sentinel.  A converted value that
    collides with the new sentinel (e.g. `0.0` → `uint8` with the default sentinel `0`) silently
    turns the pixel invalid; no pixel becomes valid. -/
theorem api_astype_valid {m : MapObj} {dst : DT} {sentinel : Option Val} {m' : MapObj}
    (h : m.WF) (hv : m.BlankInvalid) (hr : apiAstype m dst sentinel = .ok m') (p : Nat)
    (hp : p < m.npix) :
    m'.vc.valid (m'.abs p) = true ↔
      m.vc.valid (m.abs p) = true ∧ m'.abs p ≠ m'.sent := by
  obtain ⟨src, _, _, _, _, hk, _, _, _, hpix⟩ := api_astype_spec h hv hr
  have hval' : ∀ x, m'.vc.valid x = (x != m'.sent) := by
    intro x; unfold MapObj.vc; rw [hk]; rfl
  rw [hval']
  cases hval : m.vc.valid (m.abs p) with
  | true => simp
  | false => rw [(hpix p hp).2 hval]; simp

/-- the valid set is preserved when no converted value collides with the new sentinel -/
theorem api_astype_valid_preserved {m : MapObj} {dst : DT} {sentinel : Option Val} {m' : MapObj}
    (h : m.WF) (hv : m.BlankInvalid) (hr : apiAstype m dst sentinel = .ok m')
    (hno : ∀ p, p < m.npix → m.vc.valid (m.abs p) = true → m'.abs p ≠ m'.sent) (p : Nat)
    (hp : p < m.npix) : m'.vc.valid (m'.abs p) = m.vc.valid (m.abs p) := by
  have hiff := api_astype_valid h hv hr p hp
  cases hval : m.vc.valid (m.abs p) with
  | true => exact hiff.2 ⟨hval, hno p hp hval⟩
  | false =>
    rw [Bool.eq_false_iff]
    intro h'
    rw [hval] at hiff
    exact absurd (hiff.1 h').1 (by simp)

/-- **errors of `astype`, exactly**: `RuntimeError` for a wide mask or a record map; else the
    `ValueError` of `check_sentinel` (a sentinel of the wrong type, or an integer sentinel outside
    the new dtype's range); else `inexact` (no claim) when some valid pixel has no exactly
    representable conversion -/
theorem api_astype_error_iff {m : MapObj} (h : m.WF) (hv : m.BlankInvalid) (dst : DT)
    (sentinel : Option Val) (e : Err) :
    apiAstype m dst sentinel = .error e ↔
      (astypeSrc m.kind = none ∧ e = .runtime) ∨
      ∃ src, astypeSrc m.kind = some src ∧
        ((checkSentinel dst sentinel = .error e ∧ e = .value) ∨
         (e = .inexact ∧ (∃ s', checkSentinel dst sentinel = .ok s') ∧
            ∃ p, p < m.npix ∧ m.vc.valid (m.abs p) = true ∧ convCell src dst (m.abs p) = none)) := by
  rw [apiAstype_eq]
  cases hS : astypeSrc m.kind with
  | none =>
    simp only [Except.error.injEq, true_and, reduceCtorEq, false_and, exists_false, or_false]
    exact eq_comm
  | some src =>
    simp only [reduceCtorEq, false_and, false_or, Option.some.injEq, exists_eq_left']
    cases hC : checkSentinel dst sentinel with
    | error e' =>
      simp only [Except.error.injEq, reduceCtorEq, exists_false, false_and, and_false, or_false]
      constructor
      · rintro rfl; exact ⟨rfl, checkSentinel_error hC⟩
      · exact fun h => h.1
    | ok s' =>
      simp only [reduceCtorEq, false_and, false_or, Except.ok.injEq, exists_eq', true_and]
      have hiff := any_valid_iff h.2 hv (fun x => (convCell src dst x).isNone)
      split
      · rename_i hany
        obtain ⟨p, hp, hval, hq⟩ := hiff.1 hany
        constructor
        · intro he
          cases he
          exact ⟨rfl, p, hp, hval, Option.isNone_iff_eq_none.1 hq⟩
        · rintro ⟨rfl, _⟩; rfl
      · rename_i hany
        simp only [reduceCtorEq, false_iff]
        rintro ⟨_, p, hp, hval, hq⟩
        exact hany (hiff.2 ⟨p, hp, hval, Option.isNone_iff_eq_none.2 hq⟩)

/-- **errors of `as_bit_packed_map`, exactly**: `ValueError` iff the map is not already
    bit-packed and there are fewer than two healpix levels between the coverage and the sparse
    resolution (`nfine_per_cov % 8 ≠ 0`).  ANY kind of map is accepted (numeric, boolean with
    either sentinel, wide mask, record): the result records the VALID SET only. -/
theorem api_asBitPacked_error_iff (m : MapObj) (e : Err) :
    apiAsBitPacked m = .error e ↔ m.kind ≠ .packed ∧ m.spord < m.covord + 2 ∧ e = .value := by
  rw [apiAsBitPacked_eq]
  have hmod : m.c.nfine % 8 = 0 ↔ m.covord + 2 ≤ m.spord := nfine_mod8 m.covord m.spord
  by_cases hk : m.kind = .packed
  · simp [hk]
  · simp only [hk, ↓reduceIte, ne_eq, not_false_eq_true, true_and]
    by_cases h8 : m.c.nfine % 8 = 0
    · have := hmod.1 h8
      simp only [h8, not_true_eq_false, ↓reduceIte, reduceCtorEq, false_iff, not_and]
      intro hlt
      omega
    · have : m.spord < m.covord + 2 := by
        apply Nat.lt_of_not_le
        exact fun hle => h8 (hmod.2 hle)
      simp only [h8, not_false_eq_true, ↓reduceIte, Except.error.injEq, this, true_and]
      exact eq_comm

/-- **`as_bit_packed_map` at the API level.**  For a well-formed map whose blank cell is invalid:
    the result is a well-formed bit-packed map at the same resolution with a cold `n_valid`
    cache and the same coverage mask, whose VALID SET IS THE SOURCE'S; when the source is not
    already bit-packed the result has sentinel `False` and holds `True` exactly on the valid
    pixels of the source; a bit-packed source is returned as a copy. -/
theorem api_asBitPacked_spec {m m' : MapObj} (h : m.WF) (hv : m.BlankInvalid)
    (hr : apiAsBitPacked m = .ok m') :
    m'.WF ∧ m'.covord = m.covord ∧ m'.spord = m.spord ∧ m'.kind = .packed ∧ m'.cache = none ∧
    apiCovMask m' = apiCovMask m ∧
    (m.kind = .packed → m' = { m with cache := none }) ∧
    (m.kind ≠ .packed → m'.sent = .bool false ∧
      ∀ p, p < m.npix → m'.abs p = .bool (m.vc.valid (m.abs p))) ∧
    ∀ p, p < m.npix → m'.vc.valid (m'.abs p) = m.vc.valid (m.abs p) := by
  rw [apiAsBitPacked_eq] at hr
  by_cases hk : m.kind = .packed
  · rw [if_pos hk] at hr
    cases hr
    exact ⟨h, rfl, rfl, hk, rfl, rfl, fun _ => rfl, fun hne => absurd hk hne, fun _ _ => rfl⟩
  · rw [if_neg hk] at hr
    split at hr
    · cases hr
    · cases hr
      obtain ⟨hinv, habs, hcov⟩ := asBitPacked_spec m.c m.vc m.st h.2 hv
      have hinv' : Inv m.c (⟨.bool false, Kind.packed.valid (.bool false)⟩ : VCfg Val)
          (mapCells (asBitPacked m.c m.vc m.st) Val.bool) :=
        inv_mapCells m.c (⟨false, fun b => b⟩ : VCfg Bool) _ _ Val.bool hinv rfl
      have hab : ∀ p, p < m.npix →
          abs m.c (⟨.bool false, Kind.packed.valid (.bool false)⟩ : VCfg Val)
            (mapCells (asBitPacked m.c m.vc m.st) Val.bool) p = .bool (m.vc.valid (m.abs p)) := by
        intro p hp
        rw [abs_mapCells m.c (⟨false, fun b => b⟩ : VCfg Bool) _ _ Val.bool hinv p hp, habs p hp]
        rfl
      refine ⟨⟨h.1, hinv'⟩, rfl, rfl, rfl, rfl, ?_, fun hp => absurd hp hk,
        fun _ => ⟨rfl, hab⟩, fun p hp => ?_⟩
      · apply apiCovMask_congr rfl rfl
        intro k
        exact hcov k
      · have := hab p hp
        show Kind.packed.valid (.bool false) (abs m.c
          (⟨.bool false, Kind.packed.valid (.bool false)⟩ : VCfg Val)
          (mapCells (asBitPacked m.c m.vc m.st) Val.bool) p) = _
        rw [this]
        cases m.vc.valid (m.abs p) <;> rfl

/-! ### non-vacuity and counterexamples (API level) -/

/-- a uint16 map (default sentinel 0; 12 coverage pixels × 4 cells): pixel 4 ↦ 5, pixel 5 ↦ 9 -/
def exU16 : Except Err MapObj := do
  let m ← apiMakeEmpty 0 1 (.plain (.int 16 false)) none [1]
  apiUpdate m "replace" [4, 5] (some [.num 5 0, .num 9 0]) false

/-- a float64 map: pixel 4 ↦ 0.0, pixel 5 ↦ 2.5, pixel 40 ↦ 7.0 -/
def exF64 : Except Err MapObj := do
  let m ← apiMakeEmpty 0 1 (.plain (.flt 64)) none []
  apiUpdate m "replace" [4, 5, 40] (some [.num 0 0, .num 5 1, .num 7 0]) false

/-- a wide mask (2 bytes): pixel 4 has bits 1 and 9, pixel 5 has bit 3 -/
def exWide : Except Err MapObj := do
  let m ← apiMakeEmpty 0 1 (.wide 2) none []
  let m ← apiSetBits m [4] [1, 9] false
  apiSetBits m [5] [3] false

/-- is the result this error? -/
def isErr {α : Type} (r : Except Err α) (e : Err) : Bool :=
  match r with
  | .error e' => e' == e
  | .ok _ => false

/-- (1) `m - 5` on the uint16 map: `api_scalarOp_spec` applies (`m.WF`, success); pixel 5 becomes
    `9 - 5 = 4`; pixel 4 becomes `5 - 5 = 0`, THE SENTINEL, and is no longer valid
    (`api_scalarOp_collision`); the unset pixel 6 and the uncovered pixel 40 keep the blank -/
example : okAnd exU16 (fun m => decide m.WF &&
    okAnd (apiScalarOp m "sub" (.int 5)) (fun st =>
      (m.withSt st).abs 5 == .num 4 0 && (m.withSt st).abs 4 == .num 0 0 &&
      m.vc.valid (m.abs 4) && !(m.withSt st).vc.valid ((m.withSt st).abs 4) &&
      (m.withSt st).abs 6 == .num 0 0 && (m.withSt st).abs 40 == .num 0 0 &&
      apiCovMask (m.withSt st) == apiCovMask m)) = true := by decide +kernel

/-- (1) every error class of `sopError` occurs: integer map — a Python integer out of range
    (`OverflowError`; on an unsigned map that includes the exponent `-1`), a real constant
    (`TypeError`), an integer-only operator with a real constant, true division, a bit list, a
    negative power of a signed map (`ValueError`); float map — an integer-only operator; wide mask —
    an arithmetic operator, a constant, an empty bit list, a bit position `≥ maxbits`; `inexact`
    (`0.1` is not a dyadic the model multiplies exactly … here: division by 3) -/
example : okAnd exU16 (fun m =>
      isErr (apiScalarOp m "add" (.int 70000)) .type && isErr (apiScalarOp m "add" (.int (-1))) .type &&
      isErr (apiScalarOp m "add" (.flt (1, 1))) .type && isErr (apiScalarOp m "and" (.flt (1, 1))) .notImpl &&
      isErr (apiScalarOp m "div" (.int 2)) .type && isErr (apiScalarOp m "pow" (.int (-1))) .type &&
      isErr (apiScalarOp m "or" (.bits [1])) .notImpl) = true ∧
    okAnd (apiMakeEmpty 0 1 (.plain (.int 16 true)) none []) (fun m =>
      isErr (apiScalarOp m "pow" (.int (-1))) .value) = true ∧
    okAnd exF64 (fun m =>
      isErr (apiScalarOp m "xor" (.int 1)) .notImpl && isErr (apiScalarOp m "div" (.int 3)) .inexact &&
      okAnd (apiScalarOp m "div" (.int 2)) (fun st => (m.withSt st).abs 5 == .num 5 2)) = true ∧
    okAnd exWide (fun m =>
      isErr (apiScalarOp m "add" (.bits [1])) .notImpl && isErr (apiScalarOp m "or" (.int 1)) .notImpl &&
      isErr (apiScalarOp m "or" (.bits [])) .value && isErr (apiScalarOp m "or" (.bits [16])) .value &&
      okAnd (apiScalarOp m "and" (.bits [1, 3])) (fun st =>
        (m.withSt st).abs 4 == .bytes [2, 0] && (m.withSt st).abs 5 == .bytes [8, 0] &&
        (m.withSt st).abs 6 == .bytes [0, 0]) &&
      -- `& [9]` clears every bit of pixel 5: the pixel becomes invalid
      okAnd (apiScalarOp m "and" (.bits [9])) (fun st =>
        (m.withSt st).abs 4 == .bytes [0, 2] && !(m.withSt st).vc.valid ((m.withSt st).abs 5))) = true := by
  decide +kernel

/-- (3) masks over the float map (valid pixels 4, 5, 40).
    An unsigned (uint8, sentinel 0) mask with pixel 4 set: only pixel 4 is blanked.
    **REGRESSION (the former counterexample)**: the SAME mask values in an int32 map with the
    default sentinel `-2^31`: before the `fix:` commit pixels 5 and 40, which the mask never set
    (40 is not even covered by it), were blanked as well; now only pixel 4 is blanked, with or
    without `mask_bits` — even with `mask_bits = -2^31`, the sentinel's own bit, nothing outside
    the mask's valid set is touched (`api_applyMask_unset_kept`). -/
example : okAnd exF64 (fun m => decide m.WF && decide m.BlankInvalid &&
    okAnd (do let k ← apiMakeEmpty 0 1 (.plain (.int 8 false)) none []
              apiUpdate k "replace" [4] (some [.num 4 0]) false) (fun mask =>
      decide mask.WF &&
      okAnd (apiApplyMask m mask none none) (fun st =>
        !(m.withSt st).vc.valid ((m.withSt st).abs 4) && (m.withSt st).abs 5 == .num 5 1 &&
        (m.withSt st).abs 40 == .num 7 0)) &&
    okAnd (do let k ← apiMakeEmpty 0 1 (.plain (.int 32 true)) none []
              apiUpdate k "replace" [4] (some [.num 4 0]) false) (fun mask =>
      decide mask.WF && mask.sent == .num (-2147483648) 0 &&
      !mask.vc.valid (mask.abs 5) && !mask.vc.valid (mask.abs 40) &&
      okAnd (apiApplyMask m mask none none) (fun st =>
        !(m.withSt st).vc.valid ((m.withSt st).abs 4) && (m.withSt st).abs 5 == .num 5 1 &&
        (m.withSt st).abs 40 == .num 7 0) &&
      okAnd (apiApplyMask m mask (some 4) none) (fun st =>
        !(m.withSt st).vc.valid ((m.withSt st).abs 4) && (m.withSt st).abs 5 == .num 5 1 &&
        (m.withSt st).abs 40 == .num 7 0) &&
      okAnd (apiApplyMask m mask (some (-2147483648)) none) (fun st =>
        (m.withSt st).abs 4 == .num 0 0 && m.vc.valid (m.abs 4) && (m.withSt st).vc.valid ((m.withSt st).abs 4) &&
        (m.withSt st).abs 5 == .num 5 1 && (m.withSt st).abs 40 == .num 7 0) &&
      isErr (apiApplyMask m mask (some 4294967296) none) .type)) = true := by decide +kernel

/-- (3) NOTE — a divergence of the MODEL from the fixed library, in a corner: a plain BOOLEAN mask
    with sentinel `True` (its valid pixels are the `False` cells).  The library's new test
    `(values != 0) & (values != sentinel)` never masks with such a map (checked on the real code:
    `apply_mask` leaves `[10, 11, 5000]`); the model's boolean branches of `bad` carry no validity
    conjunct, so every pixel NOT valid in the mask (reading `True`) is masked.  This is why
    `api_applyMask_uncovered` excludes a plain mask with sentinel `True`. -/
example : okAnd exF64 (fun m =>
    okAnd (do let k ← apiMakeEmpty 0 1 (.plain .bool) (some (.bool true)) []
              apiUpdate k "replace" [4] (some [.bool false]) false) (fun mask =>
      mask.vc.valid (mask.abs 4) && !mask.vc.valid (mask.abs 5) &&
      okAnd (apiApplyMask m mask none none) (fun st =>
        (m.withSt st).vc.valid ((m.withSt st).abs 4) && !(m.withSt st).vc.valid ((m.withSt st).abs 5) &&
        !(m.withSt st).vc.valid ((m.withSt st).abs 40)))) = true := by decide +kernel

/-- (3) a wide mask (any byte / selected bits), the error classes of `maskError`, and a mask of
    ANOTHER resolution: a coarser mask (`spord = 0`, 12 pixels) raises `IndexError` because the
    valid pixel 40 is not one of its pixel numbers; a FINER mask (`spord = 2`) is accepted without
    complaint — pixel NUMBER 4 of the map is looked up as pixel number 4 of the mask, a different
    place on the sky (the library does not compare `nside_sparse`) -/
example : okAnd exF64 (fun m => okAnd exWide (fun wm =>
      okAnd (apiApplyMask m wm none none) (fun st =>
        !(m.withSt st).vc.valid ((m.withSt st).abs 4) && !(m.withSt st).vc.valid ((m.withSt st).abs 5) &&
        (m.withSt st).abs 40 == .num 7 0) &&
      okAnd (apiApplyMask m wm none (some [3])) (fun st =>
        (m.withSt st).abs 4 == .num 0 0 && !(m.withSt st).vc.valid ((m.withSt st).abs 5)) &&
      isErr (apiApplyMask m wm (some 1) none) .runtime && isErr (apiApplyMask m wm none (some [16])) .index &&
      isErr (apiApplyMask m m none none) .runtime) &&
    okAnd (apiMakeEmpty 0 0 (.plain (.int 8 false)) none []) (fun coarse =>
      isErr (apiApplyMask m coarse none none) .index) &&
    okAnd (do let k ← apiMakeEmpty 0 2 (.plain (.int 8 false)) none []
              apiUpdate k "replace" [4] (some [.num 1 0]) false) (fun fine =>
      okAnd (apiApplyMask m fine none none) (fun st =>
        !(m.withSt st).vc.valid ((m.withSt st).abs 4) && (m.withSt st).abs 5 == .num 5 1))) = true := by
  decide +kernel

/-- (4) `astype`: float64 → uint8 with the default sentinel 0: `2.5 ↦ 2`, `7.0 ↦ 7`, and the
    valid value `0.0` COLLIDES with the new sentinel: pixel 4 is no longer valid
    (`api_astype_valid`); with `sentinel = 255` nothing collides and the valid set is preserved;
    a sentinel that does not fit (`256` for uint8, a boolean for an integer dtype) is
    `ValueError`; a wide mask is `RuntimeError`; uint16 9 → float is exact; 70000.0 → uint16 is
    `inexact` (undefined behaviour in C) -/
example : okAnd exF64 (fun m => decide m.WF && decide m.BlankInvalid &&
      okAnd (apiAstype m (.int 8 false) none) (fun m' =>
        decide m'.WF && m'.sent == .num 0 0 && m'.abs 5 == .num 2 0 && m'.abs 40 == .num 7 0 &&
        m.vc.valid (m.abs 4) && !m'.vc.valid (m'.abs 4) && m'.abs 6 == .num 0 0 &&
        apiCovMask m' == apiCovMask m) &&
      okAnd (apiAstype m (.int 8 false) (some (.num 255 0))) (fun m' =>
        m'.abs 4 == .num 0 0 && m'.vc.valid (m'.abs 4) && m'.abs 6 == .num 255 0 &&
        (List.range m.npix).all (fun p => m'.vc.valid (m'.abs p) == m.vc.valid (m.abs p))) &&
      isErr (apiAstype m (.int 8 false) (some (.num 256 0))) .value &&
      isErr (apiAstype m (.int 8 false) (some (.bool true))) .value) = true ∧
    okAnd exWide (fun m => isErr (apiAstype m (.flt 64) none) .runtime) = true ∧
    okAnd exU16 (fun m => okAnd (apiAstype m (.flt 32) none) (fun m' => m'.abs 5 == .num 9 0)) = true ∧
    okAnd (do let m ← apiMakeEmpty 0 1 (.plain (.flt 64)) none []
              apiUpdate m "replace" [4] (some [.num 70000 0]) false) (fun m =>
      isErr (apiAstype m (.int 16 false) none) .inexact) = true := by
  decide +kernel

/-- (4) `as_bit_packed_map`: with ONE level between coverage and sparse resolution
    (`nfine = 4`) every non-packed map is refused (`ValueError`); with two levels a uint16 map, a
    wide mask and a boolean map with sentinel `True` (valid = the `False` cells) are all
    converted, `True` exactly on the valid pixels; a bit-packed map is returned as it is -/
example : okAnd exU16 (fun m => isErr (apiAsBitPacked m) .value) = true ∧
    okAnd (do let m ← apiMakeEmpty 0 2 (.plain (.int 16 false)) none [1]
              apiUpdate m "replace" [4, 21] (some [.num 5 0]) true) (fun m =>
      decide m.WF && okAnd (apiAsBitPacked m) (fun m' =>
        decide m'.WF && m'.kind == .packed && m'.abs 4 == .bool true && m'.abs 21 == .bool true &&
        m'.abs 5 == .bool false && m'.abs 100 == .bool false &&
        (List.range m.npix).all (fun p => m'.vc.valid (m'.abs p) == m.vc.valid (m.abs p)) &&
        okAnd (apiAsBitPacked m') (fun m'' => m''.abs 4 == .bool true && m''.kind == .packed))) = true ∧
    okAnd (do let m ← apiMakeEmpty 0 2 (.plain .bool) (some (.bool true)) [0]
              apiUpdate m "replace" [3] (some [.bool false]) true) (fun m =>
      decide m.WF && decide m.BlankInvalid && okAnd (apiAsBitPacked m) (fun m' =>
        m'.abs 3 == .bool true && m'.abs 2 == .bool false && m'.sent == .bool false)) = true ∧
    okAnd (do let m ← apiMakeEmpty 0 2 (.wide 2) none []
              apiSetBits m [7] [9] false) (fun m =>
      okAnd (apiAsBitPacked m) (fun m' => m'.abs 7 == .bool true && m'.abs 8 == .bool false)) = true := by
  decide +kernel

/-! (2) the driver.  `sop_inplace_eq_copy` instantiated with the argument records of
`sop m op=sub k=5 inplace=1` / `sop m op=sub k=5 r=q` in an arbitrary good world holding an owning
map under `m` (the kernel cannot run the number parser inside `sopArg`: the two `sopArg` facts are
hypotheses here and are checked by evaluation just below) -/
example (w : World) (hw : w.Good) (m : MapObj) (hget : w.get? "m" = some m) (hown : m.view = none)
    (h1 : sopArg ⟨["m"], [("op", "sub"), ("k", "5"), ("inplace", "1")]⟩ = some (.int 5))
    (h2 : sopArg ⟨["m"], [("op", "sub"), ("k", "5"), ("r", "q")]⟩ = some (.int 5)) :
    (stepArgs w "sop" ⟨["m"], [("op", "sub"), ("k", "5"), ("inplace", "1")]⟩).2
      = (stepArgs w "sop" ⟨["m"], [("op", "sub"), ("k", "5"), ("r", "q")]⟩).2 :=
  (sop_inplace_eq_copy hw (restI := []) (restC := []) rfl rfl hget hown h1 h2
    (by decide +kernel) (by decide +kernel) (by decide +kernel)).1

#guard (match sopArg ⟨["m"], [("op", "sub"), ("k", "5"), ("inplace", "1")]⟩ with
  | some (.int 5) => true | _ => false)
#guard (match sopArg ⟨["m"], [("op", "sub"), ("k", "5"), ("r", "q")]⟩ with
  | some (.int 5) => true | _ => false)
#guard (match sopArg ⟨["m"], [("op", "and"), ("bits", "3,9")]⟩ with
  | some (.bits [3, 9]) => true | _ => false)
#guard (match sopArg ⟨["m"], [("op", "mul"), ("k", "3^1"), ("ktype", "flt")]⟩ with
  | some (.flt (3, 1)) => true | _ => false)

/-- protocol histories (evaluated): the uint16 map of `exU16`, a boolean map `b` -/
def sopBase : List String :=
  ["cfg m kind=plain dtype=u2 covord=0 spord=1 covpix=1", "upd m pix=4,5 vals=5,9",
   "cfg b kind=plain dtype=b1 covord=0 spord=1", "upd b pix=3 val=T"]

def sopAns (h : List String) (q : String) : String := (step (runLines h) q).2

-- in place and copying store the same arrays; the copying form leaves the operand alone
#guard sopAns (sopBase ++ ["sop m op=sub k=5 inplace=1"]) "dump m"
    == sopAns (sopBase ++ ["sop m op=sub k=5 r=q"]) "dump q"
#guard sopAns (sopBase ++ ["sop m op=sub k=5 inplace=1"]) "get m pix=4,5,6,40" == "0,4,0,0"
#guard sopAns (sopBase ++ ["sop m op=sub k=5 inplace=1"]) "valid m" == "5"
#guard sopAns (sopBase ++ ["sop m op=sub k=5 r=q"]) "dump m" == sopAns sopBase "dump m"
-- the n_valid cache of the operand: reset by a successful in-place call, …
#guard ((runLines (sopBase ++ ["nvalid m", "sop m op=sub k=5 inplace=1"])).get? "m").map (·.cache) == some none
#guard sopAns (sopBase ++ ["nvalid m", "sop m op=sub k=5 inplace=1"]) "nvalid m" == "1"
-- … reset by an in-place call that fails AFTER line 2376 (true division of an integer map), …
#guard sopAns (sopBase ++ ["nvalid m"]) "sop m op=div k=2 inplace=1" == "err TypeError"
#guard ((runLines (sopBase ++ ["nvalid m", "sop m op=div k=2 inplace=1"])).get? "m").map (·.cache) == some none
-- … kept by the copying form and by an EARLY failure (a boolean map)
#guard ((runLines (sopBase ++ ["nvalid m", "sop m op=div k=2 r=q"])).get? "m").map (·.cache) == some (some 2)
#guard sopAns (sopBase ++ ["nvalid b"]) "sop b op=add k=1 inplace=1" == "err NotImplementedError"
#guard ((runLines (sopBase ++ ["nvalid b", "sop b op=add k=1 inplace=1"])).get? "b").map (·.cache) == some (some 1)
-- apply_mask by a signed mask with the default sentinel: only the pixel set in the mask is blanked
-- (before the `fix:` commit: everything, "valid q" == "_")
#guard sopAns (sopBase ++ ["cfg k kind=plain dtype=i4 covord=0 spord=1", "upd k pix=4 val=4",
    "mask m by=k r=q"]) "valid q" == "5"
#guard sopAns (sopBase ++ ["cfg k kind=plain dtype=u1 covord=0 spord=1", "upd k pix=4 val=4",
    "mask m by=k r=q"]) "valid q" == "5"

end C12
end HS
