/-
  C07 — degrading reduces exactly the valid children of each coarse pixel.
  Property theorems only (helpers in HealSparse/Lemmas).  The numeric reductions are
  parameters (`red`); what is proved is which cells each reduction sees, the validity
  rule, the layout of the result, and the below-coverage path.
-/
import HealSparse.Lemmas.Core
import HealSparse.Lemmas.Coverage
import HealSparse.Lemmas.Valid
import HealSparse.Lemmas.Resolution
import HealSparse.Model.Resolution
import HealSparse.Props.C04
import HealSparse.Props.C01
import HealSparse.Props.C02
namespace HS
namespace C07

variable {V W : Type} [DecidableEq V] [DecidableEq W]

/-- **`_degrade`**: the result is a well-formed map at the coarser resolution with the same
    coverage mask; a coarse pixel inside the coverage holds `red` of exactly its `2^g`
    children in NEST order; every coarse pixel outside the coverage holds the sentinel
    (this is the sum/prod clause of the property, and needs the overflow reset). -/
theorem degrade_spec (c : Cfg) (vc : VCfg V) (vcOut : VCfg W) (s : State V) (g : Nat)
    (red : List V → W) (h : Inv c vc s) (hg : g ≤ c.shift) :
    Inv (degCfg c g) vcOut (degradeMap c vc s g red vcOut.sentinel) ∧
    (∀ q, q < (degCfg c g).npix →
        abs (degCfg c g) vcOut (degradeMap c vc s g red vcOut.sentinel) q
          = if covered c s (q >>> (c.shift - g)) then red (childrenVals c vc s g q)
            else vcOut.sentinel) ∧
    (∀ k, k < c.ncov →
        covered (degCfg c g) (degradeMap c vc s g red vcOut.sentinel) k = covered c s k) := by
  exact h.degrade_spec' hg vcOut red

/-- For a reduction that masks by validity and maps "no valid child" to the sentinel (mean,
    median, std, min, max, weighted mean, masked and/or): EVERY coarse pixel — covered or
    not — holds the reduction over exactly its valid children if it has one, else the sentinel. -/
theorem degrade_masked (c : Cfg) (vc : VCfg V) (vcOut : VCfg W) (s : State V) (g : Nat)
    (redV : List V → W) (h : Inv c vc s) (hg : g ≤ c.shift)
    (hv : vc.valid vc.sentinel = false) (hempty : redV [] = vcOut.sentinel)
    (q : Nat) (hq : q < (degCfg c g).npix) :
    abs (degCfg c g) vcOut
        (degradeMap c vc s g (fun l => redV (l.filter vc.valid)) vcOut.sentinel) q
      = if (childrenVals c vc s g q).any vc.valid
        then redV ((childrenVals c vc s g q).filter vc.valid)
        else vcOut.sentinel := by
  exact h.degrade_masked' hg vcOut redV hv hempty hq

/-- the gathered weights, read at the cell of pixel `p`, are the weight map's value at `p`
    for valid `p` and zero for invalid covered `p` (for every block order of the weight map) -/
theorem gatherWeights_spec {X : Type} (c : Cfg) (vc : VCfg V) (s : State V) (wAt : Nat → X) (zero : X)
    (h : Inv c vc s) (hv : vc.valid vc.sentinel = false) :
    ∃ wv, gatherWeights c vc s wAt zero = some wv ∧ wv.size = s.sp.size ∧
      ∀ p, p < c.npix → covered c s (p >>> c.shift) = true →
        rd wv (idxOf c s p) zero = if vc.valid (abs c vc s p) then wAt p else zero := by
  exact h.gatherWeights_spec' hv wAt zero

/-- weighted `_degrade`: as `degrade_spec`, the reduction seeing (value, weight) pairs of the
    children in NEST order, where the weight of child `p` is `wOf p`. -/
theorem degradeW_spec {X : Type} (c : Cfg) (vc : VCfg V) (vcOut : VCfg W) (s : State V) (g : Nat)
    (wv : Array X) (zero : X) (wOf : Nat → X)
    (red : List (V × X) → W) (h : Inv c vc s) (hg : g ≤ c.shift)
    (hw : ∀ p, p < c.npix → covered c s (p >>> c.shift) = true → rd wv (idxOf c s p) zero = wOf p) :
    Inv (degCfg c g) vcOut (degradeMapW c vc s g wv zero red vcOut.sentinel) ∧
    (∀ q, q < (degCfg c g).npix →
        abs (degCfg c g) vcOut (degradeMapW c vc s g wv zero red vcOut.sentinel) q
          = if covered c s (q >>> (c.shift - g))
            then red ((List.range (2 ^ g)).map fun j =>
                   (abs c vc s (q * 2 ^ g + j), wOf (q * 2 ^ g + j)))
            else vcOut.sentinel) := by
  exact h.degradeW_spec' hg vcOut wv zero wOf red hw

/-- **below-coverage path**: re-housing into a map with another coverage resolution (same
    sparse resolution) never raises, yields a well-formed map, keeps the value of every valid
    pixel and keeps every invalid pixel invalid (it reads the sentinel in the re-housed map) —
    so degrading below the coverage resolution equals degrading an equal map built with the
    coarser coverage resolution. -/
theorem rehouse_spec (c cNew : Cfg) (vc : VCfg V) (s : State V) (h : Inv c vc s)
    (hv : vc.valid vc.sentinel = false) (hn : cNew.npix = c.npix) :
    ∃ s', rehouseMap c cNew vc s = some s' ∧ Inv cNew vc s' ∧
      ∀ p, p < c.npix → vc.valid (abs cNew vc s' p) = vc.valid (abs c vc s p) ∧
        (vc.valid (abs c vc s p) = true → abs cNew vc s' p = abs c vc s p) := by
  exact h.rehouse_spec' hv cNew hn

/-- value-equality form of `rehouse_spec`: with the extra hypothesis that every invalid cell value IS the
    sentinel (true for all scalar kinds, where `valid = (· ≠ sentinel)`; false for record cells
    whose cleared records differ from the blank record), re-housing never raises, yields a
    well-formed map and changes no pixel value. -/
theorem rehouse_spec_partial (c cNew : Cfg) (vc : VCfg V) (s : State V) (h : Inv c vc s)
    (hv : vc.valid vc.sentinel = false) (hs : ∀ x, vc.valid x = false → x = vc.sentinel)
    (hn : cNew.npix = c.npix) :
    ∃ s', rehouseMap c cNew vc s = some s' ∧ Inv cNew vc s' ∧
      ∀ p, p < c.npix → abs cNew vc s' p = abs c vc s p := by
  exact h.rehouse_partial' hv hs cNew hn

namespace Witness

/-- The value-equality form of `rehouse_spec` (`abs cNew vc s' p = abs c vc s p` for EVERY
    pixel) is FALSE without the "invalid cells hold the sentinel" hypothesis `hs` of
    `rehouse_spec_partial`: with one pixel, `valid = (· > 0)`, sentinel `-1` and the
    well-formed state `⟨#[1], #[-1, 0]⟩`, pixel 0 reads the invalid non-sentinel value `0`,
    but re-housing copies only valid pixels, so the re-housed map reads `-1` there. -/
theorem rehouse_value_spec_false :
    ¬ (∀ (c cNew : Cfg) (vc : VCfg Int) (s : State Int), Inv c vc s →
        vc.valid vc.sentinel = false → cNew.npix = c.npix →
        ∃ s', rehouseMap c cNew vc s = some s' ∧ Inv cNew vc s' ∧
          ∀ p, p < c.npix → abs cNew vc s' p = abs c vc s p) := by
  intro H
  obtain ⟨s', h1, _, h3⟩ := H rehouseWitnessCfg rehouseWitnessCfg rehouseWitnessVC
    rehouseWitnessState (by decide +kernel) (by decide +kernel) rfl
  have e : (rehouseMap rehouseWitnessCfg rehouseWitnessCfg rehouseWitnessVC
      rehouseWitnessState).map (fun s' => abs rehouseWitnessCfg rehouseWitnessVC s' 0)
      = some (-1) := by decide +kernel
  rw [h1] at e
  have h4 := h3 0 (by decide +kernel)
  have h5 : abs rehouseWitnessCfg rehouseWitnessVC rehouseWitnessState 0 = 0 := by
    decide +kernel
  rw [h5] at h4
  simp only [Option.map_some, h4] at e
  cases e

end Witness

/-- non-vacuity: a map whose coarse pixels have 0, 1 and all children valid, blocks out of order -/
example : (degradeMap (V := Int) (W := Int) ⟨3, 1⟩ ⟨-1, fun x => x != -1⟩ ⟨#[4, -2, -2], #[-1, -1, 7, -1, 3, 9]⟩ 1
    (fun l => (l.filter (· != -1)).foldl (· + ·) 0) (-1)).sp = #[-1, 7, 12] := by decide +kernel

end C07
end HS
