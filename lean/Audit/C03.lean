import HealSparse.Props.C03
#print axioms HS.C03.read_write_id
#print axioms HS.C03.coverage_read
#print axioms HS.C03.sortNat_perm
#print axioms HS.C03.read_partial_spec
#print axioms HS.C03.read_partial_rejects_iff
#print axioms HS.C03.read_back_same
