/-
  C03 — writing a map and reading it back returns the same map (full, partial, coverage).
  Property theorems only (helpers in HealSparse/Lemmas).  Proved: the serialisation logic
  (which blocks a partial read copies, how the index is rebuilt, which requests are
  rejected).  Trusted: astropy's FITS encoding of headers and arrays.  That a map read back
  can be queried, updated and extended like the original follows from C10 (`Same`).
-/
import HealSparse.Lemmas.Core
import HealSparse.Lemmas.Coverage
import HealSparse.Lemmas.Valid
import HealSparse.Lemmas.FitsIO
import HealSparse.Model.FitsIO
import HealSparse.Props.C04
import HealSparse.Props.C10
namespace HS
namespace C03

variable {V : Type} [DecidableEq V]

/-- full read of a written file is the identical representation -/
theorem read_write_id (s : State V) : readFull (writeFits s) = s := by
  cases s; rfl

/-- reading the coverage alone yields the map's coverage mask -/
theorem coverage_read (c : Cfg) (s : State V) :
    readCoverage c (writeFits s) = (List.range c.ncov).map (covered c s) := by
  cases s; rfl

/-- `sortNat` sorts: a permutation, ascending -/
theorem sortNat_perm (l : List Nat) : (sortNat l).Perm l := by
  exact sortNat_perm' l

/-- **partial read**: for any request list (unsorted, with uncovered or out-of-range
    entries), if it is duplicate-free and names at least one covered pixel, the read
    succeeds and yields a well-formed map that is exactly the restriction of the map to the
    requested covered coverage pixels: same values there, sentinel elsewhere, coverage =
    requested ∩ covered. -/
theorem read_partial_spec (c : Cfg) (vc : VCfg V) (s : State V) (pixels : List Nat)
    (h : Inv c vc s) (hnd : pixels.Nodup)
    (hsome : ∃ k ∈ pixels, k < c.ncov ∧ covered c s k = true) :
    ∃ r, readPartial c vc (writeFits s) pixels = some r ∧ Inv c vc r ∧
      (∀ p, p < c.npix → abs c vc r p =
          if decide ((p >>> c.shift) ∈ pixels) && covered c s (p >>> c.shift) then abs c vc s p
          else vc.sentinel) ∧
      (∀ k, k < c.ncov → covered c r k = (decide (k ∈ pixels) && covered c s k)) := by
  have hne : ¬ pixels.eraseDups.length < pixels.length := by
    rw [eraseDups_length_lt_iff]; exact fun hn => hn hnd
  have hpe : ¬ (partialPixels c (writeFits s) pixels).isEmpty = true := by
    rw [partialPixels_isEmpty_iff]; exact fun hn => hn hsome
  have hmem := mem_partialPixels c s pixels
  have hpnd := nodup_partialPixels c s pixels hnd
  have hcov := partialState_covered c vc s _ hpnd
  refine ⟨partialState c vc s (partialPixels c (writeFits s) pixels), ?_, ?_, ?_, ?_⟩
  · rw [readPartial_writeFits, if_neg hne, if_neg hpe]
  · exact inv_partialState c vc s _ h hpnd (fun k hk => ((hmem k).1 hk).2.1)
  · intro p hp
    have hk := covpix_lt c p hp
    by_cases hm : (p >>> c.shift) ∈ partialPixels c (writeFits s) pixels
    · have hm' := (hmem _).1 hm
      rw [partialState_abs_mem c vc s _ hpnd p hp hm hm'.2.2]
      simp [hm'.1, hm'.2.2]
    · have hc : covered c (partialState c vc s (partialPixels c (writeFits s) pixels))
          (p >>> c.shift) = false := by
        rw [hcov _ hk]; simp [hm]
      rw [(inv_partialState c vc s _ h hpnd (fun k hk => ((hmem k).1 hk).2.1)).abs_uncovered hp hc]
      rw [if_neg]
      intro hcond
      simp only [Bool.and_eq_true, decide_eq_true_eq] at hcond
      exact hm ((hmem _).2 ⟨hcond.1, hk, hcond.2⟩)
  · intro k hk
    rw [hcov k hk, Bool.eq_iff_iff]
    simp only [decide_eq_true_eq, Bool.and_eq_true, hmem k]
    exact ⟨fun ⟨a, _, b⟩ => ⟨a, b⟩, fun ⟨a, b⟩ => ⟨a, hk, b⟩⟩

/-- the read is rejected exactly when the request has duplicates or names no covered pixel -/
theorem read_partial_rejects_iff (c : Cfg) (vc : VCfg V) (s : State V) (pixels : List Nat)
    (h : Inv c vc s) :
    readPartial c vc (writeFits s) pixels = none ↔
      (¬ pixels.Nodup ∨ ¬ ∃ k ∈ pixels, k < c.ncov ∧ covered c s k = true) := by
  have _ := h  -- the layout hypothesis is not needed for the rejection criterion
  rw [readPartial_writeFits, ← eraseDups_length_lt_iff, ← partialPixels_isEmpty_iff]
  by_cases h1 : pixels.eraseDups.length < pixels.length
  · simp [h1]
  · rw [if_neg h1]
    by_cases h2 : (partialPixels c (writeFits s) pixels).isEmpty = true
    · simp [h2]
    · simp [h1, h2]

/-- the map read back (fully) is interchangeable with the original for every continuation -/
theorem read_back_same (c : Cfg) (vc : VCfg V) (s : State V) (h : Inv c vc s) :
    C10.Same c vc (readFull (writeFits s)) s := by
  rw [read_write_id]
  exact ⟨h, h, fun _ _ => rfl, fun _ _ => rfl⟩

/-- non-vacuity: partial read of the out-of-order example, requesting [2, 1, 7] -/
example : (readPartial (V := Int) ⟨3, 1⟩ ⟨-1, fun x => x != -1⟩
    (writeFits ⟨#[4, -2, -2], #[-1, -1, 7, -1, -1, 9]⟩) [2, 1, 7]).map (·.sp) = some #[-1, -1, 7, -1] := by
  decide +kernel

end C03
end HS
