/-
  A COVERAGE-AWARE dense layer, and the BOOLEAN family of protocol lines on it (helper lemmas
  for Props/C11Dense.lean).

  The dense interpreter of Lemmas/ApiDense.lean keeps, per map, the header and one value per
  pixel.  That is not enough for the boolean algebra, which is scoped by the COVERAGE MASK of its
  operands (`a op b` is `a` outside `b`'s coverage mask and the pixelwise operation inside it,
  `~a` flips exactly the pixels inside `a`'s coverage mask, `a op k` applies over `a`'s coverage
  mask): a coverage pixel that is allocated but holds no valid pixel changes the outcome.  Here:

  * `DenseMapC` = `DenseMap` + `cov : Nat → Bool` (the coverage mask, one bit per coverage
    pixel); `DenseWorldC`; `CorrC m d` = `Corr m d.toDense` ∧ the coverage masks agree; `RelC`;
  * the plain lines with the coverage mask tracked: `cfg` (the mask is `covpix=`), the write lines
    `upd` / `updr` / `set` (values by `ApiDense.dUpdate` / `dRanges`; the mask grows by `growBy`:
    the coverage pixels of the addressed pixels — on the slice path of `updr`: of the rows'
    coverage ranges —, nothing for a `None`-clear, nothing when the call is refused), `get`, `vals`;
  * the boolean family: `bop` (and / or / xor with a map of either storage kind or a constant,
    in place and copying), `inv` (in place and copying), `pack` (as_bit_packed_map), `covmask`,
    and `copy`; errors decided from the headers and the arguments (`BoolOpOk` on the headers);
  * `rel_stepArgsC` / `rel_stepC` / `rel_runLinesC` / `answers_eq_danswersC`: the refinement.
    One line needs the reachable invariant `World.Good` of the sparse world besides `RelC` (the
    boolean operators and `pack` need typed maps: a boolean map whose sentinel is not a boolean
    has no well-formed inverse); every line preserves `Good` (`Good.step`), so the history-level
    theorems are unconditional;
  * `toDense_stepArgsC`: forgetting the masks, a plain line is the plain line of
    `ApiDense.dstepArgs`.
-/
import HealSparse.Lemmas.ApiDense
import HealSparse.Lemmas.ApiBool
import HealSparse.Lemmas.CacheWorld
import HealSparse.Props.C12
namespace HS
namespace ApiDenseCov

open ApiDense ApiRanges WFApi ApiBool

/-! ### dense maps with a coverage mask -/

/-- a dense map together with its coverage mask (one bit per coverage pixel) -/
structure DenseMapC where
  toDense : DenseMap
  cov : Nat → Bool

/-- the resolution parameters of a dense map (from its header) -/
def DenseMapC.c (d : DenseMapC) : Cfg := d.toDense.hdr.c

/-- the boolean a dense map shows at pixel `p` (`False` for a cell that is not a boolean) -/
def DenseMapC.bval (d : DenseMapC) (p : Nat) : Bool := toB (d.toDense.f p)

/-- the coverage mask as `coverage_mask` lists it -/
def DenseMapC.covMask (d : DenseMapC) : List Bool := (List.range d.c.ncov).map d.cov

/-- a map object and a coverage-aware dense map agree: header and values (`Corr`), and the
    coverage masks -/
structure CorrC (m : MapObj) (d : DenseMapC) : Prop where
  corr : Corr m d.toDense
  cov : ∀ k, k < m.c.ncov → covered m.c m.st k = d.cov k

theorem CorrC.cache {m : MapObj} {d : DenseMapC} (h : CorrC m d) (x : Option Nat) :
    CorrC { m with cache := x } d := ⟨h.corr.cache x, h.cov⟩

theorem CorrC.c_eq {m : MapObj} {d : DenseMapC} (h : CorrC m d) : m.c = d.c :=
  h.corr.hdr_facts.2.2.2.2.2.1

theorem CorrC.npix_eq {m : MapObj} {d : DenseMapC} (h : CorrC m d) : m.npix = d.toDense.npix :=
  h.corr.hdr_facts.2.2.2.2.1

theorem CorrC.bval_eq {m : MapObj} {d : DenseMapC} (h : CorrC m d) {p : Nat} (hp : p < m.npix) :
    m.bval p = d.bval p := by
  unfold MapObj.bval DenseMapC.bval
  rw [h.corr.abs p hp]

theorem CorrC.covd_eq {m : MapObj} {d : DenseMapC} (h : CorrC m d) {k : Nat} (hk : k < m.c.ncov) :
    m.covd k = d.cov k := h.cov k hk

/-- `coverage_mask` of the map is the mask of the dense map -/
theorem CorrC.covMask_eq {m : MapObj} {d : DenseMapC} (h : CorrC m d) : apiCovMask m = d.covMask := by
  unfold apiCovMask DenseMapC.covMask
  rw [← h.c_eq]
  exact List.map_congr_left fun k hk => h.cov k (List.mem_range.1 hk)

/-! ### dense worlds -/

/-- coverage-aware dense maps by name -/
abbrev DenseWorldC := List (String × DenseMapC)

def DenseWorldC.get? (D : DenseWorldC) (n : String) : Option DenseMapC :=
  (D.find? (·.1 == n)).map (·.2)

def DenseWorldC.bind (D : DenseWorldC) (n : String) (d : DenseMapC) : DenseWorldC :=
  (n, d) :: D.filter (·.1 != n)

/-- forgetting the coverage masks -/
def DenseWorldC.toDense (D : DenseWorldC) : DenseWorld := D.map fun e => (e.1, e.2.toDense)

def dWithMapC (D : DenseWorldC) (a : Args) (k : DenseMapC → DenseWorldC × String) :
    DenseWorldC × String :=
  match a.pos with
  | n :: _ => match D.get? n with
    | some d => k d
    | none => (D, "bad-op:no-such-map")
  | [] => (D, "bad-op:no-map-name")

theorem dgetC_bind_self (D : DenseWorldC) (n : String) (d : DenseMapC) :
    (D.bind n d).get? n = some d := by
  simp [DenseWorldC.bind, DenseWorldC.get?]

theorem dgetC_bind_ne (D : DenseWorldC) {n x : String} (h : n ≠ x) (d : DenseMapC) :
    (D.bind n d).get? x = D.get? x := by
  unfold DenseWorldC.bind DenseWorldC.get?
  rw [List.find?_cons]
  have h1 : ((n, d).1 == x) = false := by simpa using h
  rw [h1]
  simp only []
  congr 1
  induction D with
  | nil => rfl
  | cons e D ih =>
    by_cases he : (e.1 != n) = true
    · rw [List.filter_cons_of_pos (p := fun y : String × DenseMapC => y.1 != n) (a := e) (l := D) he,
        List.find?_cons, List.find?_cons]
      split
      · rfl
      · exact ih
    · rw [List.filter_cons_of_neg (p := fun y : String × DenseMapC => y.1 != n) (a := e) (l := D) he,
        ih, List.find?_cons]
      have : (e.1 == x) = false := by
        have : e.1 = n := by simpa using he
        rw [this]; simpa using h
      rw [this]

theorem toDense_get? (D : DenseWorldC) (n : String) :
    D.toDense.get? n = (D.get? n).map (·.toDense) := by
  unfold DenseWorldC.toDense DenseWorld.get? DenseWorldC.get?
  induction D with
  | nil => rfl
  | cons e D ih =>
    rw [List.map_cons, List.find?_cons, List.find?_cons]
    cases h : e.1 == n
    · simp only []; exact ih
    · simp only []; rfl

theorem toDense_bind (D : DenseWorldC) (n : String) (d : DenseMapC) :
    (D.bind n d).toDense = D.toDense.bind n d.toDense := by
  unfold DenseWorldC.toDense DenseWorld.bind DenseWorldC.bind
  rw [List.map_cons, List.filter_map]
  rfl

/-- a world and a coverage-aware dense world agree: every map of the world owns its storage,
    and the two have the same names bound to agreeing maps -/
structure RelC (w : World) (D : DenseWorldC) : Prop where
  owning : ∀ e ∈ w.pool, e.2.view = none
  maps : ∀ x, match w.raw? x, D.get? x with
    | some m, some d => CorrC m d
    | none, none => True
    | _, _ => False

theorem relC_empty : RelC {} [] := ⟨fun _ h => (nomatch h), fun _ => trivial⟩

/-- forgetting the masks gives the relation of Lemmas/ApiDense.lean -/
theorem RelC.toRel {w : World} {D : DenseWorldC} (h : RelC w D) : Rel w D.toDense := by
  refine ⟨h.owning, fun x => ?_⟩
  have := h.maps x
  rw [toDense_get?]
  revert this
  cases w.raw? x <;> cases D.get? x <;> intro this
  · trivial
  · exact this.elim
  · exact this.elim
  · exact this.corr

theorem RelC.get?_eq {w : World} {D : DenseWorldC} (h : RelC w D) (x : String) :
    w.get? x = w.raw? x := h.toRel.get?_eq x

/-- what `World.get?` and `DenseWorldC.get?` answer for one name -/
theorem relC_get {w : World} {D : DenseWorldC} (h : RelC w D) (x : String) :
    match w.get? x, D.get? x with
    | some m, some d => CorrC m d
    | none, none => True
    | _, _ => False := by
  rw [h.get?_eq]; exact h.maps x

/-- binding agreeing maps under the same name on both sides -/
theorem RelC.bind {w : World} {D : DenseWorldC} (h : RelC w D) (n : String) {m : MapObj}
    {d : DenseMapC} (hc : CorrC m d) : RelC (w.bind n m) (D.bind n d) := by
  refine ⟨?_, fun x => ?_⟩
  · intro e he
    rcases List.mem_cons.1 he with rfl | he
    · rfl
    · exact h.owning e (List.mem_filter.1 he).1
  · unfold World.bind
    simp only [raw?_eq]
    by_cases hx : n = x
    · subst hx
      rw [rawL_cons_self, dgetC_bind_self]
      exact ⟨⟨hc.corr.wf, rfl, hc.corr.covord, hc.corr.spord, hc.corr.kind, hc.corr.sent, hc.corr.abs⟩,
        hc.cov⟩
    · rw [rawL_cons_ne hx, dgetC_bind_ne D hx,
        rawL_filter (q := fun s => s != n) (by simpa using Ne.symm hx) w.pool, ← raw?_eq]
      exact h.maps x

/-- storing, on the sparse side only, a map that agrees with what the name is bound to on the
    dense side -/
theorem RelC.bind_left {w : World} {D : DenseWorldC} (h : RelC w D) (n : String) {m : MapObj}
    {d : DenseMapC} (hd : D.get? n = some d) (hc : CorrC m d) : RelC (w.bind n m) D := by
  refine ⟨?_, fun x => ?_⟩
  · intro e he
    rcases List.mem_cons.1 he with rfl | he
    · rfl
    · exact h.owning e (List.mem_filter.1 he).1
  · unfold World.bind
    simp only [raw?_eq]
    by_cases hx : n = x
    · subst hx
      rw [rawL_cons_self, hd]
      exact ⟨⟨hc.corr.wf, rfl, hc.corr.covord, hc.corr.spord, hc.corr.kind, hc.corr.sent, hc.corr.abs⟩,
        hc.cov⟩
    · rw [rawL_cons_ne hx,
        rawL_filter (q := fun s => s != n) (by simpa using Ne.symm hx) w.pool, ← raw?_eq]
      exact h.maps x

theorem RelC.put {w : World} {D : DenseWorldC} (h : RelC w D) (n : String) {m : MapObj}
    {d : DenseMapC} (hc : CorrC m d) : RelC (w.put n m) (D.bind n d) := by
  rw [World.put_eq_bind hc.corr.view]; exact h.bind n hc

theorem RelC.put_left {w : World} {D : DenseWorldC} (h : RelC w D) (n : String) {m : MapObj}
    {d : DenseMapC} (hd : D.get? n = some d) (hc : CorrC m d) : RelC (w.put n m) D := by
  rw [World.put_eq_bind hc.corr.view]; exact h.bind_left n hd hc

/-- the relation looks at the pool only -/
theorem RelC.with_metas {w : World} {D : DenseWorldC} (h : RelC w D)
    (ms : List (String × List (String × String))) : RelC { w with metas := ms } D :=
  ⟨h.owning, h.maps⟩

theorem relC_withMap {w : World} {D : DenseWorldC} {a : Args} {k : MapObj → World × String}
    {k' : DenseMapC → DenseWorldC × String} (h : RelC w D)
    (hk : ∀ m d, w.get? (a.pos.headD "") = some m → D.get? (a.pos.headD "") = some d → CorrC m d →
      RelC (k m).1 (k' d).1 ∧ (k m).2 = (k' d).2) :
    RelC (withMap w a k).1 (dWithMapC D a k').1 ∧ (withMap w a k).2 = (dWithMapC D a k').2 := by
  unfold withMap dWithMapC
  cases hpos : a.pos with
  | nil => exact ⟨h, rfl⟩
  | cons n rest =>
    simp only []
    have hm := h.maps n
    have hg := h.get?_eq n
    rw [hg]
    cases hr : w.raw? n with
    | none =>
      rw [hr] at hm
      cases hd : D.get? n with
      | none => exact ⟨h, rfl⟩
      | some d => rw [hd] at hm; exact hm.elim
    | some m =>
      rw [hr] at hm
      cases hd : D.get? n with
      | none => rw [hd] at hm; exact hm.elim
      | some d =>
        rw [hd] at hm
        have hn : a.pos.headD "" = n := by rw [hpos]; rfl
        exact hk m d (by rw [hn, hg, hr]) (by rw [hn, hd]) hm

/-! ### coverage after `make_empty` and after the write calls -/

/-- the coverage mask of a freshly made map is the list `cov_pixels` -/
theorem makeEmpty_covered {V : Type} (c : Cfg) (vc : VCfg V) (P : List Nat) (hnd : P.Nodup)
    (k : Nat) (hk : k < c.ncov) : covered c (makeEmpty c vc P) k = decide (k ∈ P) := by
  by_cases hm : k ∈ P
  · obtain ⟨t, ht, hget⟩ := List.mem_iff_getElem.1 hm
    have h1 := makeEmpty_blockStart_mem c vc P k t hk hnd (by rw [List.getElem?_eq_getElem ht, hget])
    rw [decide_eq_true hm, covered_eq_true_iff, h1]
    have : c.nfine ≤ (t + 1) * c.nfine := Nat.le_mul_of_pos_left _ (Nat.succ_pos t)
    exact Int.ofNat_le.2 this
  · rw [decide_eq_false hm, covered_eq_false_iff, makeEmpty_blockStart_not_mem c vc P k hk hm]
    exact Int.natCast_pos.2 c.nfine_pos

theorem apiMakeEmpty_covered {co so : Nat} {kind : Kind} {sentinel : Option Val} {P : List Nat}
    {m : MapObj} (h : apiMakeEmpty co so kind sentinel P = .ok m) (k : Nat) (hk : k < m.c.ncov) :
    covered m.c m.st k = P.contains k := by
  obtain ⟨_, h1, h2, _, h4, _, _, _⟩ := apiMakeEmpty_ok h
  have hc : m.c = cfgOf co so := by unfold MapObj.c; rw [h1, h2]
  rw [hc] at hk ⊢
  rw [h4, makeEmpty_covered _ _ _ (nodup_eraseDups P) k hk, List.contains_eq_mem,
    decide_eq_decide, List.mem_eraseDups]

/-- the dense map of a freshly made map: blank everywhere, mask = `cov_pixels` -/
def dEmptyC (m : MapObj) (cp : List Nat) : DenseMapC := ⟨dEmpty m, fun k => cp.contains k⟩

theorem apiMakeEmpty_corrC {co so : Nat} {kind : Kind} {sentinel : Option Val} {P : List Nat}
    {m : MapObj} (h : apiMakeEmpty co so kind sentinel P = .ok m) : CorrC m (dEmptyC m P) :=
  ⟨apiMakeEmpty_corr h, fun k hk => apiMakeEmpty_covered h k hk⟩

theorem zip_any_fst {α β : Type} (P : α → Bool) :
    ∀ (l : List α) (r : List β), l.length ≤ r.length → (l.zip r).any (fun qw => P qw.1) = l.any P
  | [], _, _ => by simp
  | _ :: _, [], h => by simp at h
  | x :: l, y :: r, h => by
    simp only [List.zip_cons_cons, List.any_cons]
    rw [zip_any_fst P l r (by simpa using h)]

/-- what a successful `update_values_pix` knows of its value list: broadcast, or one value per
    pixel -/
theorem apiUpdate_ok_len {m : MapObj} {op : String} {pix : List Nat} {vals : Option (List Val)}
    {single : Bool} {ru : Option Bool} {m' : MapObj}
    (h : apiUpdate m op pix vals single ru = .ok m') :
    pix = [] ∨ (vals.isNone || single || (vals.getD [clearValue m]).length == 1) = true ∨
      (vals.getD [clearValue m]).length = pix.length := by
  rw [apiUpdate_eq] at h
  unfold apiUpdateSpec at h
  simp only [] at h
  cases hfe : frontErr m op vals.isNone with
  | some e => rw [hfe] at h; cases h
  | none =>
    rw [hfe] at h
    simp only [] at h
    rcases WFApi.ite_ok h with ⟨he, _⟩ | ⟨_, h1⟩
    · exact Or.inl (by simpa using he)
    · replace h1 := (WFApi.guard_ok h1).2
      replace h1 := (WFApi.guard_ok h1).2
      have hlen := (WFApi.guard_ok h1).1
      by_cases hsg : (vals.isNone || single || (vals.getD [clearValue m]).length == 1) = true
      · exact Or.inr (Or.inl hsg)
      · right; right
        simpa [hsg] using hlen

/-- the pairs `update_values_pix` scatters address the pixels of the call -/
theorem updPv_any {m : MapObj} {pix : List Nat} {vs : List Val} {single : Bool}
    (h : (single || vs.length == 1) = true ∨ vs.length = pix.length) (P : Nat → Bool) :
    (updPv m pix (some vs) single).any (fun qw => P qw.1) = pix.any P := by
  unfold updPv
  simp only []
  split
  · rw [List.any_map]; rfl
  · rename_i hns
    rcases h with h | h
    · exact absurd h hns
    · exact zip_any_fst P pix vs (Nat.le_of_eq h.symm)

/-- **coverage after `update_values_pix`**: grown by exactly the coverage pixels of the pixels
    of the call; not at all by a `None`-clear -/
theorem apiUpdate_cov {m : MapObj} {op : String} {pix : List Nat} {vals : Option (List Val)}
    {single : Bool} {ru : Option Bool} {m' : MapObj} (hwf : m.WF)
    (h : apiUpdate m op pix vals single ru = .ok m') (k : Nat) (hk : k < m.c.ncov) :
    covered m.c m'.st k =
      (covered m.c m.st k || (vals.isSome && pix.any fun p => p >>> m.c.shift == k)) := by
  have hlen := apiUpdate_ok_len h
  obtain ⟨_, hlt, rfl⟩ := ApiRanges.apiUpdate_ok h
  show covered m.c (updSt m op pix vals single) k = _
  unfold updSt
  rw [updatePix_covered m.c m.vc m.st _ _ _ _ hwf.2
    (fun qw hq => hlt _ (updPv_fst_mem hq)) k hk]
  cases vals with
  | none => simp
  | some vs =>
    congr 1
    simp only [Option.isNone_some, Bool.not_false, Bool.true_and, Option.isSome_some]
    rcases hlen with rfl | hl | hl
    · cases vs <;> simp [updPv]
    · exact updPv_any (Or.inl (by simpa using hl)) (fun p => p >>> m.c.shift == k)
    · exact updPv_any (Or.inr (by simpa using hl)) (fun p => p >>> m.c.shift == k)

/-- the coverage pixels the slice path of the range form reserves for the rows `R`: every
    coverage pixel from the one holding a non-empty row's start to the one holding its EXCLUSIVE
    end (clamped to the last) — one more than the pixels need when a row ends on a block edge -/
def sliceCov (c : Cfg) (R : List (Nat × Nat)) (k : Nat) : Bool :=
  (liveRows R).any fun ab => decide ((covRange c ab).1 ≤ k) && decide (k ≤ (covRange c ab).2)

theorem mem_rangeNewCov_iff (c : Cfg) (s : State Val) (R : List (Nat × Nat)) (k : Nat)
    (hk : k < c.ncov) :
    (covered c s k || decide (k ∈ rangeNewCov c s (liveRows R))) = (covered c s k || sliceCov c R k) := by
  cases hc : covered c s k with
  | true => rfl
  | false =>
    simp only [Bool.false_or]
    rw [Bool.eq_iff_iff, decide_eq_true_eq, mem_rangeNewCov]
    unfold sliceCov
    rw [List.any_eq_true]
    constructor
    · rintro ⟨_, _, ab, hab, h1, h2⟩
      exact ⟨ab, hab, by simp [h1, h2]⟩
    · rintro ⟨ab, hab, h12⟩
      simp only [Bool.and_eq_true, decide_eq_true_eq] at h12
      exact ⟨hk, hc, ab, hab, h12.1, h12.2⟩

/-- **coverage after the range form**, on either path -/
theorem apiRanges_cov {m : MapObj} {op : String} {R : List (Nat × Nat)} {val : Option Val}
    {sl : Bool} {m' : MapObj} (hwf : m.WF) (hv : m.view = none)
    (h : apiUpdateRanges m op R val sl = .ok m') (k : Nat) (hk : k < m.c.ncov) :
    covered m.c m'.st k =
      (covered m.c m.st k || (val.isSome && if sl then sliceCov m.c R k else touchedCov m.c R k)) := by
  cases sl with
  | false =>
    obtain ⟨_, hR, _, rfl⟩ := expand_ok h
    show covered m.c (expandSt m op R val) k = _
    rw [expandSt_covered hwf hR k hk]
    cases val <;> rfl
  | true =>
    obtain ⟨_, hR, rfl⟩ := slice_ok hv h
    show covered m.c (sliceSt m op R val) k = _
    rw [(sliceSt_spec hwf hR).2.1 k hk]
    cases val with
    | none => rfl
    | some v =>
      simp only [Option.isNone_some, Bool.not_false, Bool.true_and, Option.isSome_some, if_true]
      exact mem_rangeNewCov_iff m.c m.st R k hk

/-! ### the plain lines with the mask tracked -/

/-- the coverage pixels an accepted write request allocates (besides those already in the mask) -/
def growBy (c : Cfg) : WReq → Nat → Bool
  | .upd _ pix vals _ => fun k => vals.isSome && pix.any fun p => p >>> c.shift == k
  | .ranges _ R val sl => fun k => val.isSome && if sl then sliceCov c R k else touchedCov c R k
  | _ => fun _ => false

/-- the mask after an accepted write request -/
def grown (d : DenseMapC) (req : WReq) : Nat → Bool := fun k => d.cov k || growBy d.c req k

/-- carrying a write request out on a coverage-aware dense map: the values by `dUpdate` /
    `dRanges`, the mask grown by `growBy`; anything but an accepted call leaves the dense world
    alone -/
def dRunReqC (D : DenseWorldC) (n : String) (d : DenseMapC) : WReq → DenseWorldC × String
  | .bad s => (D, s)
  | .reject => (D, errLine .value)
  | .upd op pix vals single =>
    match dUpdate d.toDense op pix vals single none with
    | .ok d' => (D.bind n ⟨d', grown d (.upd op pix vals single)⟩, "ok")
    | .error e => (D, errLine e)
  | .ranges op R val sl =>
    match dRanges d.toDense op R val sl with
    | .ok d' => (D.bind n ⟨d', grown d (.ranges op R val sl)⟩, "ok")
    | .error e => (D, errLine e)

/-- `cfg`: `make_empty` decides acceptance and the header; the array is blank, the mask is
    `covpix=` -/
def dCfgC (D : DenseWorldC) (a : Args) : DenseWorldC × String :=
  match cfgReq a with
  | some (n, kind, co, so, sent, cp) =>
    (match apiMakeEmpty co so kind sent cp with
     | .ok m => (D.bind n (dEmptyC m cp), "ok")
     | .error e => (D, errLine e))
  | none => (D, "bad-op:cfg")

theorem relC_runReq {w : World} {D : DenseWorldC} (h : RelC w D) {n : String} {m : MapObj}
    {d : DenseMapC} (hd : D.get? n = some d) (hc : CorrC m d) (req : WReq) :
    RelC (runReq w n m req).1 (dRunReqC D n d req).1 ∧
      (runReq w n m req).2 = (dRunReqC D n d req).2 := by
  cases req with
  | bad s => exact ⟨h, rfl⟩
  | reject => exact ⟨h.put_left n hd (hc.cache none), rfl⟩
  | upd op pix vals single =>
    have := apiUpdate_corr hc.corr op pix vals single none
    simp only [runReq, dRunReqC]
    revert this
    cases hA : apiUpdate m op pix vals single <;>
      cases dUpdate d.toDense op pix vals single none <;> intro hr
    · cases hr; exact ⟨h.put_left n hd (hc.cache none), rfl⟩
    · exact hr.elim
    · exact hr.elim
    · rename_i m' d'
      refine ⟨h.put n ⟨hr, fun k hk => ?_⟩, rfl⟩
      have hcm : m'.c = m.c := by rw [(ApiRanges.apiUpdate_ok hA).2.2]; rfl
      rw [hcm] at hk ⊢
      rw [apiUpdate_cov hc.corr.wf hA k hk, hc.cov k hk, hc.c_eq]
      rfl
  | ranges op R val sl =>
    have := apiRanges_corr hc.corr op R val sl
    simp only [runReq, dRunReqC]
    revert this
    cases hA : apiUpdateRanges m op R val sl <;> cases hB : dRanges d.toDense op R val sl <;> intro hr
    · cases hr; exact ⟨h.put_left n hd (hc.cache none), rfl⟩
    · exact hr.elim
    · exact hr.elim
    · rename_i m' d'
      refine ⟨h.put n ⟨hr, fun k hk => ?_⟩, rfl⟩
      have hcm : m'.c = m.c := by
        unfold MapObj.c; rw [hr.covord, hr.spord, hc.corr.covord, hc.corr.spord]
        have := dRanges_ok hB
        rw [this.1, this.2.1]
      rw [hcm] at hk ⊢
      rw [apiRanges_cov hc.corr.wf hc.corr.view hA k hk, hc.cov k hk, hc.c_eq]
      rfl

theorem relC_cfg {w : World} {D : DenseWorldC} (h : RelC w D) (a : Args) :
    RelC (opCfg w a).1 (dCfgC D a).1 ∧ (opCfg w a).2 = (dCfgC D a).2 := by
  rw [opCfg_eq]
  unfold dCfgC
  cases cfgReq a with
  | none => exact ⟨h, rfl⟩
  | some r =>
    obtain ⟨n, kind, co, so, sent, cp⟩ := r
    simp only []
    cases hm : apiMakeEmpty co so kind sent cp with
    | error e => exact ⟨h, rfl⟩
    | ok m => exact ⟨h.bind n (apiMakeEmpty_corrC hm), rfl⟩

/-- the plain lines on a coverage-aware dense world -/
def dPlainC (D : DenseWorldC) (op : String) (a : Args) : DenseWorldC × String :=
  match op with
  | "cfg" => dCfgC D a
  | "upd" => dWithMapC D a fun d =>
      dRunReqC D (a.pos.headD "") d (updReq a d.toDense.kind d.toDense.sent)
  | "updr" => dWithMapC D a fun d => dRunReqC D (a.pos.headD "") d (updrReq a)
  | "set" => dWithMapC D a fun d => dRunReqC D (a.pos.headD "") d (setReq a)
  | "get" => dWithMapC D a fun d =>
      (D, getAnswer a d.toDense.spord d.toDense.npix d.toDense.f (d.toDense.kind.valid d.toDense.sent))
  | "vals" => dWithMapC D a fun d => (D, showVals ((List.range d.toDense.npix).map d.toDense.f))
  | _ => (D, "bad-op:unknown")

/-- **one plain line, masks tracked** -/
theorem relC_plain {w : World} {D : DenseWorldC} (h : RelC w D) {op : String}
    (hp : plainOp op = true) (a : Args) :
    RelC (stepArgs w op a).1 (dPlainC D op a).1 ∧ (stepArgs w op a).2 = (dPlainC D op a).2 := by
  rcases plainOp_cases hp with rfl | rfl | rfl | rfl | rfl | rfl
  · exact relC_cfg h a
  · show RelC (opUpd w a).1 _ ∧ (opUpd w a).2 = _
    rw [opUpd_eq]
    refine relC_withMap h fun m d _ hd hc => ?_
    rw [hc.corr.kind, hc.corr.sent]
    exact relC_runReq h hd hc _
  · show RelC (opUpdr w a).1 _ ∧ (opUpdr w a).2 = _
    rw [opUpdr_eq]
    exact relC_withMap h fun m d _ hd hc => relC_runReq h hd hc _
  · show RelC (opSet w a).1 _ ∧ (opSet w a).2 = _
    rw [opSet_eq]
    exact relC_withMap h fun m d _ hd hc => relC_runReq h hd hc _
  · show RelC (opGet w a).1 _ ∧ (opGet w a).2 = _
    rw [opGet_eq]
    refine relC_withMap h fun m d _ hd hc => ⟨h, ?_⟩
    obtain ⟨e1, e2, e3⟩ := hc.corr.read_facts
    show getAnswer a m.spord m.npix m.abs m.vc.valid = getAnswer a d.toDense.spord d.toDense.npix d.toDense.f _
    rw [e1, e2, e3]
    exact getAnswer_congr a _ _ _ _ _ fun p hp => hc.corr.abs p (by rw [e2]; exact hp)
  · show RelC (opVals w a).1 _ ∧ (opVals w a).2 = _
    rw [opVals_eq]
    refine relC_withMap h fun m d _ hd hc => ⟨h, ?_⟩
    obtain ⟨_, e2, _⟩ := hc.corr.read_facts
    show showVals ((List.range m.npix).map m.abs) = showVals ((List.range d.toDense.npix).map d.toDense.f)
    rw [e2]
    congr 1
    exact List.map_congr_left fun p hp => hc.corr.abs p (by rw [e2]; exact List.mem_range.1 hp)

/-! ### forgetting the masks: the plain lines are those of `ApiDense.dstepArgs` -/

theorem toDense_withMap {D : DenseWorldC} {a : Args} {k : DenseMapC → DenseWorldC × String}
    {k' : DenseMap → DenseWorld × String}
    (hk : ∀ d, D.get? (a.pos.headD "") = some d →
      (k d).1.toDense = (k' d.toDense).1 ∧ (k d).2 = (k' d.toDense).2) :
    (dWithMapC D a k).1.toDense = (dWithMap D.toDense a k').1 ∧
      (dWithMapC D a k).2 = (dWithMap D.toDense a k').2 := by
  unfold dWithMapC dWithMap
  cases hpos : a.pos with
  | nil => exact ⟨rfl, rfl⟩
  | cons n rest =>
    simp only []
    rw [toDense_get?]
    cases hd : D.get? n with
    | none => exact ⟨rfl, rfl⟩
    | some d => exact hk d (by rw [hpos]; exact hd)

theorem toDense_runReq (D : DenseWorldC) (n : String) (d : DenseMapC) (req : WReq) :
    (dRunReqC D n d req).1.toDense = (dRunReq D.toDense n d.toDense req).1 ∧
      (dRunReqC D n d req).2 = (dRunReq D.toDense n d.toDense req).2 := by
  cases req with
  | bad s => exact ⟨rfl, rfl⟩
  | reject => exact ⟨rfl, rfl⟩
  | upd op pix vals single =>
    simp only [dRunReqC, dRunReq]
    cases dUpdate d.toDense op pix vals single none with
    | error e => exact ⟨rfl, rfl⟩
    | ok d' => exact ⟨toDense_bind _ _ _, rfl⟩
  | ranges op R val sl =>
    simp only [dRunReqC, dRunReq]
    cases dRanges d.toDense op R val sl with
    | error e => exact ⟨rfl, rfl⟩
    | ok d' => exact ⟨toDense_bind _ _ _, rfl⟩

/-- **the value part of a plain line is `ApiDense.dstepArgs`**: forgetting the coverage masks
    commutes with every plain line, and the answers are the same -/
theorem toDense_plain (D : DenseWorldC) {op : String} (hp : plainOp op = true) (a : Args) :
    (dPlainC D op a).1.toDense = (dstepArgs D.toDense op a).1 ∧
      (dPlainC D op a).2 = (dstepArgs D.toDense op a).2 := by
  rcases plainOp_cases hp with rfl | rfl | rfl | rfl | rfl | rfl
  · show (dCfgC D a).1.toDense = (dCfg D.toDense a).1 ∧ (dCfgC D a).2 = (dCfg D.toDense a).2
    unfold dCfgC dCfg
    cases cfgReq a with
    | none => exact ⟨rfl, rfl⟩
    | some r =>
      obtain ⟨n, kind, co, so, sent, cp⟩ := r
      simp only []
      cases apiMakeEmpty co so kind sent cp with
      | error e => exact ⟨rfl, rfl⟩
      | ok m => exact ⟨toDense_bind _ _ _, rfl⟩
  · exact toDense_withMap fun d _ => toDense_runReq D _ d _
  · exact toDense_withMap fun d _ => toDense_runReq D _ d _
  · exact toDense_withMap fun d _ => toDense_runReq D _ d _
  · exact toDense_withMap fun d _ => ⟨rfl, rfl⟩
  · exact toDense_withMap fun d _ => ⟨rfl, rfl⟩

/-! ### the boolean operators on coverage-aware dense maps -/

/-- the right operand of a boolean operator, on the dense side -/
inductive DRhs where
  | const (k : Bool) | map (e : DenseMapC)

/-- its header, as the right operand the API function validates -/
def DRhs.hdr : DRhs → BoolRhs
  | .const k => .const k
  | .map e => .map e.toDense.hdr

/-- the values of `a op b`: inside `b`'s coverage mask the pixelwise operation, outside it `a` -/
def bopMapF (d e : DenseMapC) (op : String) : Nat → Val := fun p =>
  .bool (if e.cov (p >>> d.c.shift) then boolFn op (d.bval p) (e.bval p) else d.bval p)

/-- the values of `a op k`: the operation over `a`'s coverage mask -/
def bopConstF (d : DenseMapC) (op : String) (k : Bool) : Nat → Val := fun p =>
  .bool (if d.cov (p >>> d.c.shift) then boolFn op (d.bval p) k else d.bval p)

/-- the values of `~a`: exactly the pixels inside `a`'s coverage mask flipped -/
def invF (d : DenseMapC) : Nat → Val := fun p =>
  .bool (if d.cov (p >>> d.c.shift) then !(d.bval p) else d.bval p)

/-- the result of an accepted boolean operator: header of the LEFT operand; with a map on the
    right the mask is the union, with a constant it is kept -/
def dBopRes (d : DenseMapC) (op : String) : DRhs → DenseMapC
  | .const k => ⟨{ d.toDense with f := bopConstF d op k }, d.cov⟩
  | .map e => ⟨{ d.toDense with f := bopMapF d e op }, fun k => d.cov k || e.cov k⟩

/-- `_apply_boolean_map_operation` on coverage-aware dense maps: refused
    (`NotImplementedError`) unless `BoolOpOk` of the HEADERS — both operands boolean (either
    storage kind), same orders, no `True` sentinel; a constant needs a boolean left operand only -/
def dBop (d : DenseMapC) (op : String) (rhs : DRhs) : Except Err DenseMapC :=
  if BoolOpOk d.toDense.hdr rhs.hdr then .ok (dBopRes d op rhs) else .error .notImpl

/-- `invert` on a coverage-aware dense map -/
def dInv (d : DenseMapC) : Except Err DenseMapC :=
  if d.toDense.kind.isBool = true then .ok ⟨{ d.toDense with f := invF d }, d.cov⟩
  else .error .notImpl

/-- the values of `as_bit_packed_map` of a map that is not bit-packed: `True` exactly on the
    valid pixels -/
def packF (d : DenseMapC) : Nat → Val := fun p =>
  .bool (d.toDense.kind.valid d.toDense.sent (d.toDense.f p))

/-- `as_bit_packed_map`: a bit-packed map is copied; otherwise `ValueError` unless a coverage
    pixel holds a multiple of 8 pixels; else a bit-packed map (sentinel `False`), same mask -/
def dPack (d : DenseMapC) : Except Err DenseMapC :=
  if d.toDense.kind = .packed then .ok d
  else if d.c.nfine % 8 ≠ 0 then .error .value
  else .ok ⟨⟨d.toDense.covord, d.toDense.spord, .packed, .bool false, packF d⟩, d.cov⟩

/-- two right operands agree -/
def RhsRel : BoolRhs → DRhs → Prop
  | .const k, .const k' => k = k'
  | .map b, .map e => CorrC b e
  | _, _ => False

section bool
variable {m : MapObj} {d : DenseMapC}

theorem boolOpOk_hdr (hc : CorrC m d) {rhs : BoolRhs} {rhs' : DRhs} (hr : RhsRel rhs rhs') :
    BoolOpOk m rhs ↔ BoolOpOk d.toDense.hdr rhs'.hdr := by
  cases rhs <;> cases rhs'
  · unfold BoolOpOk BoolRhs.Admissible DRhs.hdr
    rw [hc.corr.kind]; rfl
  · exact hr.elim
  · exact hr.elim
  · rename_i b e
    have hb : CorrC b e := hr
    unfold BoolOpOk BoolRhs.Admissible DRhs.hdr
    simp only []
    rw [hc.corr.kind, hc.corr.spord, hc.corr.covord, hc.corr.sent, hb.corr.kind, hb.corr.spord,
      hb.corr.covord, hb.corr.sent]
    rfl

/-- two outcomes agree, for the API functions that return a new STORAGE for the left operand -/
def OutRelC (m : MapObj) (r : Except Err (State Val)) (r' : Except Err DenseMapC) : Prop :=
  match r, r' with
  | .ok st, .ok d' => CorrC (m.stored st) d'
  | .error e, .error e' => e = e'
  | _, _ => False

/-- **the boolean operators on the map and on the dense map agree** (well-typed left operand) -/
theorem apiBoolOp_corrC (hc : CorrC m d) (hka : m.KindOk) (op : String) {rhs : BoolRhs}
    {rhs' : DRhs} (hr : RhsRel rhs rhs') (ip : Bool) :
    OutRelC m (apiBoolOp m op rhs ip) (dBop d op rhs') := by
  have hiff := boolOpOk_hdr hc hr
  unfold dBop
  cases hA : apiBoolOp m op rhs ip with
  | error e =>
    obtain ⟨rfl, hno⟩ := apiBoolOp_error hA
    rw [if_neg (fun h => hno (hiff.2 h))]
    exact rfl
  | ok st =>
    have hok := (ApiBool.apiBoolOp_ok hA).1
    rw [if_pos (hiff.1 hok)]
    show CorrC (m.stored st) (dBopRes d op rhs')
    cases rhs <;> cases rhs'
    · rename_i k k'
      have hk : k = k' := hr
      subst hk
      obtain ⟨hwf, _, _, hcov, habs⟩ := const_spec hc.corr.wf hka hA
      refine ⟨⟨hwf, hc.corr.view, hc.corr.covord, hc.corr.spord, hc.corr.kind, hc.corr.sent,
        fun p hp => ?_⟩, fun j hj => (hcov j).trans (hc.cov j hj)⟩
      have hp' : p < m.npix := hp
      rw [habs p hp']
      show _ = bopConstF d op k p
      unfold bopConstF
      rw [hc.bval_eq hp', hc.covd_eq (covpix_lt m.c p hp'), hc.c_eq]
    · exact hr.elim
    · exact hr.elim
    · rename_i b e
      have hb : CorrC b e := hr
      obtain ⟨_, _, hcb, _, _, _, _, _, _⟩ := map_facts hc.corr.wf hka hb.corr.wf hA
      obtain ⟨hwf, _, _, hcov, habs⟩ := map_spec hc.corr.wf hka hb.corr.wf hA
      refine ⟨⟨hwf, hc.corr.view, hc.corr.covord, hc.corr.spord, hc.corr.kind, hc.corr.sent,
        fun p hp => ?_⟩, fun j hj => ?_⟩
      · have hp' : p < m.npix := hp
        have hpb : p < b.npix := by unfold MapObj.npix; rw [hcb]; exact hp'
        have hkb : p >>> m.c.shift < b.c.ncov := by rw [hcb]; exact covpix_lt m.c p hp'
        rw [habs p hp']
        show _ = bopMapF d e op p
        unfold bopMapF
        rw [hc.bval_eq hp', hb.bval_eq hpb, hb.covd_eq hkb, hc.c_eq]
      · have hj' : j < m.c.ncov := hj
        have hjb : j < b.c.ncov := by rw [hcb]; exact hj'
        show (m.stored st).covd j = _
        rw [hcov j hj', hc.covd_eq hj', hb.covd_eq hjb]
        rfl

theorem apiInvert_corrC (hc : CorrC m d) (hka : m.KindOk) : OutRelC m (apiInvert m) (dInv d) := by
  unfold dInv
  rw [← hc.corr.kind]
  cases hA : apiInvert m with
  | error e =>
    rw [apiInvert_eq] at hA
    by_cases hk : m.kind.isBool = true
    · rw [if_pos hk] at hA; cases hA
    · rw [if_neg hk] at hA ⊢; cases hA; exact rfl
  | ok st =>
    obtain ⟨hk, _⟩ := apiInvert_ok hA
    rw [if_pos hk]
    obtain ⟨hwf, _, _, hcov, habs⟩ := invert_spec hc.corr.wf hka hA
    refine ⟨⟨hwf, hc.corr.view, hc.corr.covord, hc.corr.spord, hc.corr.kind, hc.corr.sent,
      fun p hp => ?_⟩, fun j hj => (hcov j).trans (hc.cov j hj)⟩
    have hp' : p < m.npix := hp
    rw [habs p hp']
    show _ = invF d p
    unfold invF
    rw [hc.bval_eq hp', hc.covd_eq (covpix_lt m.c p hp'), hc.c_eq]

/-- two outcomes agree, for the API functions that return a new MAP -/
def OutRelM (r : Except Err MapObj) (r' : Except Err DenseMapC) : Prop :=
  match r, r' with
  | .ok m', .ok d' => CorrC m' d'
  | .error e, .error e' => e = e'
  | _, _ => False

theorem apiAsBitPacked_corrC (hc : CorrC m d) (hv : m.BlankInvalid) :
    OutRelM (apiAsBitPacked m) (dPack d) := by
  unfold dPack
  rw [← hc.corr.kind, ← hc.c_eq]
  cases hA : apiAsBitPacked m with
  | error e =>
    rw [ApiScalar.apiAsBitPacked_eq] at hA
    by_cases hk : m.kind = .packed
    · rw [if_pos hk] at hA; cases hA
    · rw [if_neg hk] at hA ⊢
      by_cases h8 : m.c.nfine % 8 ≠ 0
      · rw [if_pos h8] at hA ⊢; cases hA; exact rfl
      · rw [if_neg h8] at hA; cases hA
  | ok m' =>
    obtain ⟨hwf, h1, h2, h3, _, _, hpk, hnp, _⟩ := C12.api_asBitPacked_spec hc.corr.wf hv hA
    by_cases hk : m.kind = .packed
    · rw [if_pos hk, hpk hk]
      exact hc.cache none
    · rw [if_neg hk]
      have h8 : ¬ m.c.nfine % 8 ≠ 0 := by
        intro h8
        rw [ApiScalar.apiAsBitPacked_eq, if_neg hk, if_pos h8] at hA
        cases hA
      rw [if_neg h8]
      obtain ⟨hs, habs⟩ := hnp hk
      have hview : m'.view = none := by
        rw [ApiScalar.apiAsBitPacked_eq, if_neg hk, if_neg h8] at hA
        cases hA
        exact hc.corr.view
      have hst : m'.c = m.c := by unfold MapObj.c; rw [h1, h2]
      have hcovm := (C12.api_asBitPacked_spec hc.corr.wf hv hA).2.2.2.2.2.1
      refine ⟨⟨hwf, hview, h1.trans hc.corr.covord, h2.trans hc.corr.spord, h3, hs, fun p hp => ?_⟩,
        fun j hj => ?_⟩
      · have hp' : p < m.npix := by unfold MapObj.npix at hp ⊢; rw [← hst]; exact hp
        rw [habs p hp']
        show _ = packF d p
        unfold packF
        rw [← hc.corr.read_facts.2.2, hc.corr.abs p hp']
      · rw [hst] at hj ⊢
        have := congrArg (fun l => l[j]?) hcovm
        simp only [apiCovMask, hst, List.getElem?_map, List.getElem?_range hj, Option.map_some,
          Option.some.injEq] at this
        rw [this]
        exact hc.cov j hj

end bool

/-! ### the boolean family on the two worlds -/

/-- the right operand a `bop` line names: `const=T|F`, else the map `rhs=` (looked up by `get`);
    generic in the world (the sparse and the dense interpreter share the selection) -/
def bopSel {ρ β : Type} (const : Bool → ρ) (map : β → ρ) (get : String → Option β) (a : Args) :
    Option ρ :=
  match a.get? "const", a.get? "rhs" with
  | some "T", _ => some (const true)
  | some "F", _ => some (const false)
  | _, some r => (get r).map map
  | _, _ => none

/-- `bop`, with the right operand selected by `bopSel` -/
theorem opBop_eqC (w : World) (a : Args) : opBop w a =
    withMap w a fun m =>
      match bopSel BoolRhs.const BoolRhs.map w.get? a with
      | none => (w, "bad-op:rhs")
      | some rhs =>
        match apiBoolOp m (a.getD "op" "and") rhs (a.flag "inplace") with
        | .ok st =>
          if a.flag "inplace" then (w.put (a.pos.headD "") (m.stored st), "ok")
          else (w.bind (a.getD "r" "tmp") (m.stored st), "ok")
        | .error e =>
          ((if a.flag "inplace" && m.kind.isBool then w.put (a.pos.headD "") { m with cache := none }
            else w), errLine e) := rfl

/-- `bop` on the dense world -/
def dBopOp (D : DenseWorldC) (a : Args) : DenseWorldC × String :=
  dWithMapC D a fun d =>
    match bopSel DRhs.const DRhs.map D.get? a with
    | none => (D, "bad-op:rhs")
    | some rhs =>
      match dBop d (a.getD "op" "and") rhs with
      | .ok d' =>
        if a.flag "inplace" then (D.bind (a.pos.headD "") d', "ok")
        else (D.bind (a.getD "r" "tmp") d', "ok")
      | .error e => (D, errLine e)

/-- two selections agree -/
def SelRel : Option BoolRhs → Option DRhs → Prop
  | some rhs, some rhs' => RhsRel rhs rhs'
  | none, none => True
  | _, _ => False

/-- the two selections agree -/
theorem bopSel_rel {w : World} {D : DenseWorldC} (h : RelC w D) (a : Args) :
    SelRel (bopSel BoolRhs.const BoolRhs.map w.get? a) (bopSel DRhs.const DRhs.map D.get? a) := by
  unfold bopSel
  generalize a.get? "const" = x
  generalize a.get? "rhs" = y
  split
  · exact rfl
  · exact rfl
  · rename_i r _ _
    have hg := relC_get h r
    revert hg
    cases w.get? r <;> cases D.get? r <;> intro hg
    · trivial
    · exact hg.elim
    · exact hg.elim
    · exact hg
  · trivial

theorem relC_bop {w : World} {D : DenseWorldC} (h : RelC w D) (hw : w.Good) (a : Args) :
    RelC (opBop w a).1 (dBopOp D a).1 ∧ (opBop w a).2 = (dBopOp D a).2 := by
  rw [opBop_eqC]
  unfold dBopOp
  refine relC_withMap h fun m d hg hd hc => ?_
  have hka : m.KindOk := (hw.get hg).2.1
  have hsel := bopSel_rel h a
  revert hsel
  cases bopSel BoolRhs.const BoolRhs.map w.get? a <;>
    cases bopSel DRhs.const DRhs.map D.get? a <;> intro hsel
  · exact ⟨h, rfl⟩
  · exact hsel.elim
  · exact hsel.elim
  · rename_i rhs rhs'
    have hr := apiBoolOp_corrC hc hka (a.getD "op" "and") hsel (a.flag "inplace")
    simp only []
    revert hr
    cases apiBoolOp m (a.getD "op" "and") rhs (a.flag "inplace") <;>
      cases dBop d (a.getD "op" "and") rhs' <;> intro hr
    · cases hr
      refine ⟨?_, rfl⟩
      show RelC (if _ then _ else _) D
      split
      · exact h.put_left _ hd (hc.cache none)
      · exact h
    · exact hr.elim
    · exact hr.elim
    · show RelC (if _ then _ else _ : World × String).1 (if _ then _ else _ : DenseWorldC × String).1 ∧
        (if _ then _ else _ : World × String).2 = (if _ then _ else _ : DenseWorldC × String).2
      split
      · exact ⟨h.put _ hr, rfl⟩
      · exact ⟨h.bind _ hr, rfl⟩

/-- `inv` on the dense world -/
def dInvOp (D : DenseWorldC) (a : Args) : DenseWorldC × String :=
  dWithMapC D a fun d =>
    match dInv d with
    | .ok d' =>
      if a.flag "inplace" then (D.bind (a.pos.headD "") d', "ok")
      else (D.bind (a.getD "r" "tmp") d', "ok")
    | .error e => (D, errLine e)

theorem relC_inv {w : World} {D : DenseWorldC} (h : RelC w D) (hw : w.Good) (a : Args) :
    RelC (opInv w a).1 (dInvOp D a).1 ∧ (opInv w a).2 = (dInvOp D a).2 := by
  unfold opInv dInvOp
  refine relC_withMap h fun m d hg hd hc => ?_
  have hr := apiInvert_corrC hc (hw.get hg).2.1
  simp only []
  revert hr
  cases apiInvert m <;> cases dInv d <;> intro hr
  · cases hr; exact ⟨h, rfl⟩
  · exact hr.elim
  · exact hr.elim
  · show RelC (if _ then _ else _ : World × String).1 (if _ then _ else _ : DenseWorldC × String).1 ∧
      (if _ then _ else _ : World × String).2 = (if _ then _ else _ : DenseWorldC × String).2
    split
    · exact ⟨h.put _ hr, rfl⟩
    · exact ⟨h.bind _ hr, rfl⟩

/-- `pack` on the dense world -/
def dPackOp (D : DenseWorldC) (a : Args) : DenseWorldC × String :=
  dWithMapC D a fun d =>
    match dPack d with
    | .ok d' => (D.bind (a.getD "r" "tmp") d', "ok")
    | .error e => (D, errLine e)

theorem relC_pack {w : World} {D : DenseWorldC} (h : RelC w D) (hw : w.Good) (a : Args) :
    RelC (opPack w a).1 (dPackOp D a).1 ∧ (opPack w a).2 = (dPackOp D a).2 := by
  unfold opPack dPackOp
  refine relC_withMap h fun m d hg hd hc => ?_
  have hr := apiAsBitPacked_corrC hc (hw.get hg).2.1.blankInvalid
  simp only []
  revert hr
  cases apiAsBitPacked m <;> cases dPack d <;> intro hr
  · cases hr; exact ⟨h, rfl⟩
  · exact hr.elim
  · exact hr.elim
  · exact ⟨(h.bind _ hr).with_metas _, rfl⟩

/-- `covmask` on the dense world: the mask -/
def dCovmaskOp (D : DenseWorldC) (a : Args) : DenseWorldC × String :=
  dWithMapC D a fun d => (D, showBits d.covMask)

theorem relC_covmask {w : World} {D : DenseWorldC} (h : RelC w D) (a : Args) :
    RelC (opCovmask w a).1 (dCovmaskOp D a).1 ∧ (opCovmask w a).2 = (dCovmaskOp D a).2 := by
  unfold opCovmask dCovmaskOp
  refine relC_withMap h fun m d _ _ hc => ⟨h, ?_⟩
  show showBits (apiCovMask m) = showBits d.covMask
  rw [hc.covMask_eq]

/-- `copy n r=R`: `R` is bound to the same dense map, mask included -/
def dCopyOp (D : DenseWorldC) (a : Args) : DenseWorldC × String :=
  dWithMapC D a fun d => (D.bind (a.getD "r" "tmp") d, "ok")

theorem relC_copy {w : World} {D : DenseWorldC} (h : RelC w D) (a : Args) :
    RelC (opCopy w a).1 (dCopyOp D a).1 ∧ (opCopy w a).2 = (dCopyOp D a).2 := by
  unfold opCopy dCopyOp
  exact relC_withMap h fun m d _ _ hc => ⟨h.bind _ (hc.cache none), rfl⟩

/-! ### the coverage-aware dense interpreter -/

/-- the operations of the boolean family -/
def famOp (op : String) : Bool :=
  op == "bop" || op == "inv" || op == "pack" || op == "covmask" || op == "copy"

/-- **the coverage-aware dense interpreter**: one parsed line (plain or of the boolean family)
    on a coverage-aware dense world -/
def dstepArgsC (D : DenseWorldC) (op : String) (a : Args) : DenseWorldC × String :=
  match op with
  | "bop" => dBopOp D a
  | "inv" => dInvOp D a
  | "pack" => dPackOp D a
  | "covmask" => dCovmaskOp D a
  | "copy" => dCopyOp D a
  | _ => dPlainC D op a

theorem famOp_cases {op : String} (h : famOp op = true) :
    op = "bop" ∨ op = "inv" ∨ op = "pack" ∨ op = "covmask" ∨ op = "copy" := by
  unfold famOp at h
  simp only [Bool.or_eq_true, beq_iff_eq] at h
  rcases h with (((h | h) | h) | h) | h
  · exact Or.inl h
  · exact Or.inr (Or.inl h)
  · exact Or.inr (Or.inr (Or.inl h))
  · exact Or.inr (Or.inr (Or.inr (Or.inl h)))
  · exact Or.inr (Or.inr (Or.inr (Or.inr h)))

/-- on a plain line the interpreter is the plain one with the masks tracked -/
theorem dstepArgsC_plain {op : String} (hp : plainOp op = true) (D : DenseWorldC) (a : Args) :
    dstepArgsC D op a = dPlainC D op a := by
  rcases plainOp_cases hp with rfl | rfl | rfl | rfl | rfl | rfl <;> rfl

/-- **forgetting the masks, a plain line is the plain line of `ApiDense.dstepArgs`** -/
theorem toDense_stepArgsC (D : DenseWorldC) {op : String} (hp : plainOp op = true) (a : Args) :
    (dstepArgsC D op a).1.toDense = (dstepArgs D.toDense op a).1 ∧
      (dstepArgsC D op a).2 = (dstepArgs D.toDense op a).2 := by
  rw [dstepArgsC_plain hp]; exact toDense_plain D hp a

/-- **one parsed line, plain or of the boolean family**: the protocol and the coverage-aware
    dense interpreter stay in agreement and give the same answer -/
theorem rel_stepArgsC {w : World} {D : DenseWorldC} (h : RelC w D) (hw : w.Good) {op : String}
    (a : Args) (hp : plainOp op = true ∨ famOp op = true) :
    RelC (stepArgs w op a).1 (dstepArgsC D op a).1 ∧ (stepArgs w op a).2 = (dstepArgsC D op a).2 := by
  rcases hp with hp | hp
  · rw [dstepArgsC_plain hp]
    exact relC_plain h hp a
  · rcases famOp_cases hp with rfl | rfl | rfl | rfl | rfl
    · exact relC_bop h hw a
    · exact relC_inv h hw a
    · exact relC_pack h hw a
    · exact relC_covmask h a
    · exact relC_copy h a

/-! ### raw lines and histories -/

/-- a raw line of the boolean family -/
def famLine (line : String) : Bool :=
  match lineToks line with
  | [] => false
  | op :: _ => famOp op

/-- the lines the coverage-aware dense interpreter answers: plain lines (`cfg`, `upd`, `updr`,
    `set`, `get`, `vals`, the empty line) and the lines of the boolean family (`bop`, `inv`,
    `pack`, `covmask`, `copy`) -/
def lineOk (line : String) : Bool := plainLine line || famLine line

/-- the coverage-aware dense interpreter on a raw line -/
def dstepC (D : DenseWorldC) (line : String) : DenseWorldC × String :=
  match lineToks line with
  | [] => (D, "bad-op:empty")
  | op :: rest => dstepArgsC D op (parseArgs rest)

/-- … and on a history, from the empty dense world -/
def drunC (lines : List String) : DenseWorldC := lines.foldl (fun D l => (dstepC D l).1) []

theorem famOp_not_packed {op : String} (h : famOp op = true) : op.startsWith "p." = false := by
  rcases famOp_cases h with rfl | rfl | rfl | rfl | rfl <;> decide +kernel

/-- **one raw line**: from related worlds (the sparse one satisfying the reachable invariant
    `Good`), a plain or family line leads to related worlds and is answered alike -/
theorem rel_stepC {w : World} {D : DenseWorldC} (hR : RelC w D) (hw : w.Good) {line : String}
    (hp : lineOk line = true) :
    RelC (step w line).1 (dstepC D line).1 ∧ (step w line).2 = (dstepC D line).2 := by
  have hstep : step w line = match lineToks line with
      | [] => (w, "bad-op:empty")
      | op :: rest =>
        if op.startsWith "p." then
          let (pw, o) := stepPacked w.packed op (parseArgs rest)
          ({ w with packed := pw }, o)
        else stepArgs w op (parseArgs rest) := rfl
  rw [hstep]
  unfold dstepC
  unfold lineOk plainLine famLine at hp
  cases ht : lineToks line with
  | nil => exact ⟨hR, rfl⟩
  | cons op rest =>
    rw [ht] at hp
    simp only [Bool.or_eq_true] at hp
    have hnp : op.startsWith "p." = false := by
      rcases hp with hp | hp
      · exact plainOp_not_packed hp
      · exact famOp_not_packed hp
    simp only [hnp, Bool.false_eq_true, if_false]
    exact rel_stepArgsC hR hw _ hp

theorem rel_foldlC (lines : List String) (w : World) (D : DenseWorldC) (hR : RelC w D) (hw : w.Good)
    (hp : ∀ l ∈ lines, lineOk l = true) :
    RelC (lines.foldl (fun w l => (step w l).1) w) (lines.foldl (fun D l => (dstepC D l).1) D) := by
  induction lines generalizing w D with
  | nil => exact hR
  | cons l ls ih =>
    exact ih _ _ (rel_stepC hR hw (hp l List.mem_cons_self)).1 (Good.step hw l)
      fun l' h' => hp l' (List.mem_cons_of_mem _ h')

/-- **histories**: the world a history of plain and boolean-family lines reaches agrees with the
    coverage-aware dense world the dense interpreter reaches -/
theorem rel_runLinesC (lines : List String) (hp : ∀ l ∈ lines, lineOk l = true) :
    RelC (runLines lines) (drunC lines) :=
  rel_foldlC lines _ _ relC_empty World.good_empty hp

/-- the answers of the coverage-aware dense interpreter along a history -/
def danswersC (lines : List String) : List String :=
  (lines.foldl (fun (Do : DenseWorldC × List String) l => ((dstepC Do.1 l).1, Do.2 ++ [(dstepC Do.1 l).2]))
    ([], [])).2

/-- related worlds, the sparse one satisfying the reachable invariant: the relation one line of
    the plain + boolean family preserves -/
structure RelG (w : World) (D : DenseWorldC) : Prop where
  rel : RelC w D
  good : w.Good

theorem relG_empty : RelG {} [] := ⟨relC_empty, World.good_empty⟩

/-- **one raw line, bundled**: `RelG` is preserved and the line is answered alike -/
theorem relG_step {w : World} {D : DenseWorldC} (h : RelG w D) {line : String}
    (hp : lineOk line = true) :
    RelG (step w line).1 (dstepC D line).1 ∧ (step w line).2 = (dstepC D line).2 :=
  ⟨⟨(rel_stepC h.rel h.good hp).1, Good.step h.good line⟩, (rel_stepC h.rel h.good hp).2⟩

theorem answers_foldlC (lines : List String) (w : World) (D : DenseWorldC) (acc : List String)
    (h : RelG w D) (hp : ∀ l ∈ lines, lineOk l = true) :
    (lines.foldl (fun (wo : World × List String) l => ((step wo.1 l).1, wo.2 ++ [(step wo.1 l).2]))
      (w, acc)).2 =
    (lines.foldl (fun (Do : DenseWorldC × List String) l =>
      ((dstepC Do.1 l).1, Do.2 ++ [(dstepC Do.1 l).2])) (D, acc)).2 := by
  induction lines generalizing w D acc with
  | nil => rfl
  | cons l ls ih =>
    obtain ⟨h', ha⟩ := relG_step h (hp l List.mem_cons_self)
    simp only [List.foldl_cons]
    rw [ha]
    exact ih _ _ _ h' fun l' hl' => hp l' (List.mem_cons_of_mem _ hl')

/-- **the list of all answers** of a history of plain and boolean-family lines is the list of
    answers of the coverage-aware dense interpreter -/
theorem answers_eq_danswersC (lines : List String) (hp : ∀ l ∈ lines, lineOk l = true) :
    answers lines = danswersC lines :=
  answers_foldlC lines _ _ _ relG_empty hp

end ApiDenseCov
end HS
