/-
  Helper lemmas for the MOC writer / reader model (`HealSparse/Model/Moc.lean`), property C17.
  Besides lemmas, this file defines the specification vocabulary used by the theorem statements
  in `Props/C17.lean`: `cnt` (direct count), `levelCount` (count computed level by level),
  `Full` (a cell all of whose descendants are valid), `cellCovers` (pixel in a UNIQ cell),
  `cmLevel` (the hash map after `d` degrade steps), and, for the loop analysis, `isFull`, `lev`,
  `cellU`, `IsCellOf`.  Core Lean only.
-/
import HealSparse.Model.Moc
namespace HS
open Std

/-! ### Specification vocabulary -/

/-- Direct count: number of pixels of `P` whose ancestor `d` levels up is `q`. -/
def cnt (P : List Nat) (d q : Nat) : Nat := P.countP (fun p => p >>> (2 * d) == q)

/-- Cell `q`, `d` levels above the pixel order, is fully valid: all its descendants are in `P`. -/
def Full (P : List Nat) (d q : Nat) : Prop := ∀ x, x >>> (2 * d) = q → x ∈ P

/-- The count as `degrade(sum)` computes it, level by level: 1 for valid pixels, then the sum of
    the four children. -/
def levelCount (P : List Nat) : Nat → Nat → Nat
  | 0, q => if q ∈ P then 1 else 0
  | d + 1, q => levelCount P d (4 * q) + levelCount P d (4 * q + 1) +
      levelCount P d (4 * q + 2) + levelCount P d (4 * q + 3)

/-! ### Arithmetic: powers of four, shifts, UNIQ decoding -/

theorem four_pow (e : Nat) : 4 ^ e = 2 ^ (2 * e) := by
  rw [Nat.pow_mul]

theorem shr_shr (x a b : Nat) : (x >>> a) >>> b = x >>> (a + b) := by
  rw [Nat.shiftRight_add]

/-- `x >>> k = i` iff `x` is one of the `2^k` numbers `(i <<< k) + j`. -/
theorem shr_eq_iff (x k i : Nat) : x >>> k = i ↔ ∃ j, j < 2 ^ k ∧ x = (i <<< k) + j := by
  rw [Nat.shiftRight_eq_div_pow, Nat.shiftLeft_eq]
  have hp : 0 < 2 ^ k := Nat.two_pow_pos k
  constructor
  · intro h
    refine ⟨x % 2 ^ k, Nat.mod_lt _ hp, ?_⟩
    have := Nat.div_add_mod x (2 ^ k)
    rw [h, Nat.mul_comm] at this
    omega
  · rintro ⟨j, hj, rfl⟩
    rw [Nat.mul_comm, Nat.mul_add_div hp, Nat.div_eq_of_lt hj]
    omega

theorem shr_lt_of_lt {p n e : Nat} (h : p < 12 * 4 ^ n) (he : e ≤ n) :
    p >>> (2 * e) < 12 * 4 ^ (n - e) := by
  rw [Nat.shiftRight_eq_div_pow, ← four_pow, Nat.div_lt_iff_lt_mul (Nat.pow_pos (by omega))]
  have : 4 ^ n = 4 ^ (n - e) * 4 ^ e := by rw [← Nat.pow_add]; congr 1; omega
  rw [this, ← Nat.mul_assoc] at h
  exact h

/-- Decoding the order of a UNIQ code. -/
theorem uniqOrder_uniqOf {o p : Nat} (h : p < 12 * 4 ^ o) : uniqOrder (uniqOf o p) = o := by
  unfold uniqOrder uniqOf
  have h1 : (4 * 4 ^ o + p) / 4 = 4 ^ o + p / 4 := by omega
  rw [h1]
  have hpos : 0 < 4 ^ o := Nat.pow_pos (by omega)
  have hne : 4 ^ o + p / 4 ≠ 0 := by omega
  have hlo : 2 * o ≤ (4 ^ o + p / 4).log2 := by
    rw [Nat.le_log2 hne, ← four_pow]; omega
  have hhi : (4 ^ o + p / 4).log2 < 2 * o + 2 := by
    rw [Nat.log2_lt hne, show 2 * o + 2 = 2 * (o + 1) by omega, ← four_pow, Nat.pow_succ]
    omega
  omega

theorem uniqIndex_uniqOf {o p : Nat} (h : p < 12 * 4 ^ o) : uniqIndex (uniqOf o p) = p := by
  unfold uniqIndex
  rw [uniqOrder_uniqOf h]
  unfold uniqOf
  omega

theorem wrap32_four_pow {k : Nat} (h : k ≤ 15) : wrap32 (4 ^ k) = 4 ^ k := by
  unfold wrap32
  apply Nat.mod_eq_of_lt
  calc 4 ^ k ≤ 4 ^ 15 := Nat.pow_le_pow_right (by omega) h
    _ < 2 ^ 32 := by decide

theorem uniqBaseI32_eq {o : Nat} (h : o ≤ 14) : uniqBaseI32 o = 4 * 4 ^ o := by
  unfold uniqBaseI32
  rw [wrap32_four_pow (by omega), ← Nat.pow_succ', wrap32_four_pow (by omega)]

theorem uniqBaseI32_big {o : Nat} (h : 15 ≤ o) : uniqBaseI32 o = 0 := by
  unfold uniqBaseI32 wrap32
  by_cases h15 : o = 15
  · subst h15; decide
  · have : 4 ^ o = 2 ^ 32 * 4 ^ (o - 16) := by
      rw [show (2:Nat) ^ 32 = 4 ^ 16 by decide, ← Nat.pow_add]; congr 1; omega
    rw [this]; simp

/-! ### Counting valid descendants -/

theorem shr_succ (x d : Nat) : x >>> (2 * (d + 1)) = (x >>> (2 * d)) / 4 := by
  rw [show 2 * (d + 1) = 2 * d + 2 by omega, ← shr_shr]
  simp [Nat.shiftRight_eq_div_pow]

theorem cnt_succ (P : List Nat) (d q : Nat) :
    cnt P (d + 1) q = cnt P d (4 * q) + cnt P d (4 * q + 1) + cnt P d (4 * q + 2) +
      cnt P d (4 * q + 3) := by
  unfold cnt
  simp only [shr_succ]
  induction P with
  | nil => simp
  | cons p t ih =>
    simp only [List.countP_cons, ih, beq_iff_eq]
    generalize p >>> (2 * d) = a
    repeat' split
    all_goals omega

theorem cnt_zero {P : List Nat} (h : P.Nodup) (q : Nat) : cnt P 0 q = if q ∈ P then 1 else 0 := by
  unfold cnt
  simp only [Nat.mul_zero, Nat.shiftRight_zero]
  induction P with
  | nil => simp
  | cons p t ih =>
    rw [List.nodup_cons] at h
    simp only [List.countP_cons, ih h.2, beq_iff_eq, List.mem_cons]
    by_cases hq : p = q
    · subst hq; simp [h.1]
    · have : ¬ q = p := fun e => hq e.symm
      simp [hq, this]

theorem levelCount_eq_cnt {P : List Nat} (h : P.Nodup) (d q : Nat) : levelCount P d q = cnt P d q := by
  induction d generalizing q with
  | zero => rw [cnt_zero h]; rfl
  | succ d ih => rw [cnt_succ, levelCount, ih, ih, ih, ih]

theorem cnt_le {P : List Nat} (h : P.Nodup) (d q : Nat) : cnt P d q ≤ 4 ^ d := by
  induction d generalizing q with
  | zero => rw [cnt_zero h]; split <;> simp
  | succ d ih =>
    rw [cnt_succ, Nat.pow_succ]
    have := ih (4 * q); have := ih (4 * q + 1); have := ih (4 * q + 2); have := ih (4 * q + 3)
    omega

theorem full_succ (P : List Nat) (d q : Nat) :
    Full P (d + 1) q ↔ Full P d (4 * q) ∧ Full P d (4 * q + 1) ∧ Full P d (4 * q + 2) ∧
      Full P d (4 * q + 3) := by
  unfold Full
  simp only [shr_succ]
  constructor
  · intro h
    refine ⟨?_, ?_, ?_, ?_⟩ <;> intro x hx <;> apply h <;> omega
  · rintro ⟨h0, h1, h2, h3⟩ x hx
    have : x >>> (2 * d) = 4 * q ∨ x >>> (2 * d) = 4 * q + 1 ∨ x >>> (2 * d) = 4 * q + 2 ∨
        x >>> (2 * d) = 4 * q + 3 := by omega
    rcases this with e | e | e | e
    · exact h0 x e
    · exact h1 x e
    · exact h2 x e
    · exact h3 x e

theorem cnt_eq_iff_full {P : List Nat} (h : P.Nodup) (d q : Nat) :
    cnt P d q = 4 ^ d ↔ Full P d q := by
  induction d generalizing q with
  | zero =>
    rw [cnt_zero h]
    unfold Full
    simp only [Nat.mul_zero, Nat.shiftRight_zero, Nat.pow_zero]
    constructor
    · intro h1 x hx; subst hx; split at h1 <;> simp_all
    · intro h1; simp [h1 q rfl]
  | succ d ih =>
    rw [cnt_succ, full_succ, ← ih, ← ih, ← ih, ← ih, Nat.pow_succ]
    have := cnt_le h d (4 * q); have := cnt_le h d (4 * q + 1)
    have := cnt_le h d (4 * q + 2); have := cnt_le h d (4 * q + 3)
    omega

/-- A full cell has full sub-cells: fullness of the ancestor `e + 1` levels up implies fullness
    of the ancestor `e` levels up. -/
theorem full_down {P : List Nat} {e p : Nat} (h : Full P (e + 1) (p >>> (2 * (e + 1)))) :
    Full P e (p >>> (2 * e)) := by
  intro x hx
  apply h
  rw [shr_succ, shr_succ, hx]

/-! ### The hash map of child counts -/

theorem cmGet_insert (m : CountMap) (k v q : Nat) :
    cmGet (m.insert k v) q = if k = q then v else cmGet m q := by
  simp [cmGet, HashMap.getD_insert]

theorem cmGet_empty (q : Nat) : cmGet (∅ : CountMap) q = 0 := by
  simp [cmGet]

theorem cmGet_foldl_init (P : List Nat) (m0 : CountMap) (q : Nat) :
    cmGet (P.foldl (fun m p => m.insert p 1) m0) q = if q ∈ P then 1 else cmGet m0 q := by
  induction P generalizing m0 with
  | nil => simp
  | cons p t ih =>
    rw [List.foldl_cons, ih, cmGet_insert]
    by_cases h1 : q ∈ t
    · simp [h1]
    · by_cases h2 : p = q
      · subst h2; simp
      · have : ¬ q = p := fun e => h2 e.symm
        simp [h1, h2, this]

theorem cmGet_cmInit (P : List Nat) (q : Nat) : cmGet (cmInit P) q = if q ∈ P then 1 else 0 := by
  rw [cmInit, cmGet_foldl_init, cmGet_empty]

/-- Sum of the values of the entries whose key has parent `q`. -/
def sumKey : List (Nat × Nat) → Nat → Nat
  | [], _ => 0
  | kv :: t, q => (if kv.1 >>> 2 = q then kv.2 else 0) + sumKey t q

/-- Association-list lookup with default 0. -/
def lk : List (Nat × Nat) → Nat → Nat
  | [], _ => 0
  | kv :: t, k => if kv.1 = k then kv.2 else lk t k

theorem cmGet_foldl_degrade (L : List (Nat × Nat)) (acc : CountMap) (q : Nat) :
    cmGet (L.foldl (fun acc b => acc.insert (b.1 >>> 2) (cmGet acc (b.1 >>> 2) + b.2)) acc) q
      = cmGet acc q + sumKey L q := by
  induction L generalizing acc with
  | nil => simp [sumKey]
  | cons kv t ih =>
    rw [List.foldl_cons, ih, cmGet_insert, sumKey]
    split
    · next h => subst h; omega
    · omega

theorem lk_of_not_mem {L : List (Nat × Nat)} {k : Nat} (h : ∀ kv ∈ L, kv.1 ≠ k) : lk L k = 0 := by
  induction L with
  | nil => rfl
  | cons kv t ih =>
    rw [lk, if_neg (h kv (by simp))]
    exact ih fun kv' hkv' => h kv' (by simp [hkv'])

theorem sumKey_eq_lk {L : List (Nat × Nat)} (h : L.Pairwise (fun a b => (a.1 == b.1) = false))
    (q : Nat) :
    sumKey L q = lk L (4 * q) + lk L (4 * q + 1) + lk L (4 * q + 2) + lk L (4 * q + 3) := by
  induction L with
  | nil => simp [sumKey, lk]
  | cons kv t ih =>
    rw [List.pairwise_cons] at h
    have hk : lk t kv.1 = 0 := lk_of_not_mem fun kv' hkv' e => by
      have := h.1 kv' hkv'; simp [e] at this
    rw [sumKey, ih h.2]
    simp only [lk]
    have hs : kv.1 >>> 2 = kv.1 / 4 := by simp [Nat.shiftRight_eq_div_pow]
    rw [hs]
    have hk0 : kv.1 = 4 * q → lk t (4 * q) = 0 := fun e => e ▸ hk
    have hk1 : kv.1 = 4 * q + 1 → lk t (4 * q + 1) = 0 := fun e => e ▸ hk
    have hk2 : kv.1 = 4 * q + 2 → lk t (4 * q + 2) = 0 := fun e => e ▸ hk
    have hk3 : kv.1 = 4 * q + 3 → lk t (4 * q + 3) = 0 := fun e => e ▸ hk
    repeat' split
    all_goals omega

theorem lk_of_mem {L : List (Nat × Nat)} (h : L.Pairwise (fun a b => (a.1 == b.1) = false))
    {k v : Nat} (hm : (k, v) ∈ L) : lk L k = v := by
  induction L with
  | nil => simp at hm
  | cons kv t ih =>
    rw [List.pairwise_cons] at h
    rw [lk]
    rcases List.mem_cons.1 hm with e | hm'
    · subst e; simp
    · have := h.1 _ hm'
      have hne : kv.1 ≠ k := by simpa using this
      rw [if_neg hne]; exact ih h.2 hm'

theorem lk_toList (m : CountMap) (k : Nat) : lk m.toList k = cmGet m k := by
  unfold cmGet
  rw [HashMap.getD_eq_getD_getElem?]
  cases hk : m[k]? with
  | some v =>
    have : (k, v) ∈ m.toList := HashMap.mem_toList_iff_getElem?_eq_some.2 hk
    rw [lk_of_mem HashMap.distinct_keys_toList this]; rfl
  | none =>
    rw [lk_of_not_mem]; · rfl
    intro kv hkv e
    have : (k, kv.2) ∈ m.toList := by rw [← e]; exact hkv
    rw [HashMap.mem_toList_iff_getElem?_eq_some, hk] at this
    cases this

/-- `degrade(sum)` by one level: the count of a cell is the sum of its four children. -/
theorem cmGet_cmDegrade (m : CountMap) (q : Nat) :
    cmGet (cmDegrade m) q =
      cmGet m (4 * q) + cmGet m (4 * q + 1) + cmGet m (4 * q + 2) + cmGet m (4 * q + 3) := by
  rw [cmDegrade, HashMap.fold_eq_foldl_toList, cmGet_foldl_degrade, cmGet_empty,
    sumKey_eq_lk HashMap.distinct_keys_toList]
  simp only [lk_toList]
  omega

/-! ### `np.unique` -/

theorem mem_dedupLoop (acc l : List Nat) (x : Nat) : x ∈ dedupLoop acc l ↔ x ∈ acc ∨ x ∈ l := by
  fun_induction dedupLoop acc l with
  | case1 acc => simp
  | case2 y t ih => rw [ih]; simp
  | case3 y acc y' t h ih =>
    have : y = y' := by simpa using h
    subst this
    rw [ih]; simp only [List.mem_cons]
    constructor
    · rintro (h | h)
      · exact Or.inl h
      · exact Or.inr (Or.inr h)
    · rintro (h | h | h)
      · exact Or.inl h
      · exact Or.inl (Or.inl h)
      · exact Or.inr h
  | case4 y acc x t h ih =>
    rw [ih]; simp only [List.mem_cons]
    constructor
    · rintro ((h | h | h) | h)
      · exact Or.inr (Or.inl h)
      · exact Or.inl (Or.inl h)
      · exact Or.inl (Or.inr h)
      · exact Or.inr (Or.inr h)
    · rintro ((h | h) | h | h)
      · exact Or.inl (Or.inr (Or.inl h))
      · exact Or.inl (Or.inr (Or.inr h))
      · exact Or.inl (Or.inl h)
      · exact Or.inr h

theorem pairwise_dedupLoop (acc l : List Nat) (hacc : acc.Pairwise (· > ·))
    (hl : l.Pairwise (· ≤ ·)) (hx : ∀ a ∈ acc, ∀ b ∈ l, a ≤ b) :
    (dedupLoop acc l).Pairwise (· < ·) := by
  fun_induction dedupLoop acc l with
  | case1 acc => rw [List.pairwise_reverse]; exact hacc
  | case2 y t ih =>
    rw [List.pairwise_cons] at hl
    exact ih (by simp) hl.2 (by simpa using hl.1)
  | case3 y acc y' t h ih =>
    rw [List.pairwise_cons] at hl
    exact ih hacc hl.2 fun a ha b hb => hx a ha b (by simp [hb])
  | case4 y acc x t h ih =>
    rw [List.pairwise_cons] at hl
    have hne : y ≠ x := by simpa using h
    have hyx : y ≤ x := hx y (by simp) x (by simp)
    rw [List.pairwise_cons] at hacc
    apply ih
    · rw [List.pairwise_cons]
      refine ⟨?_, List.pairwise_cons.2 hacc⟩
      intro a ha
      rcases List.mem_cons.1 ha with e | ha'
      · subst e; show x > a; omega
      · have := hacc.1 a ha'; show x > a; omega
    · exact hl.2
    · intro a ha b hb
      rcases List.mem_cons.1 ha with e | ha'
      · subst e; exact hl.1 b hb
      · exact hx a ha' b (by simp [hb])

theorem mem_npUnique (l : List Nat) (x : Nat) : x ∈ npUnique l ↔ x ∈ l := by
  simp [npUnique, mem_dedupLoop]

theorem npUnique_sorted (l : List Nat) : (npUnique l).Pairwise (· < ·) := by
  unfold npUnique
  apply pairwise_dedupLoop
  · simp
  · have := List.pairwise_mergeSort (le := fun a b : Nat => decide (a ≤ b))
      (by intro a b c; simp; omega) (by intro a b; simp; omega) l
    exact this.imp (by simp)
  · simp

/-! ### The writer loop -/

/-- Does the comparator declare the ancestor of `p`, `d` levels up, fully covered? -/
def isFull (full : Nat → Nat → Bool) (P : List Nat) (d p : Nat) : Bool :=
  full (cnt P d (p >>> (2 * d))) (4 ^ d)

/-- Number of levels by which pixel `p` has been merged upwards once the loop has processed
    the levels `1 … D` (mirrors the overwriting `uniq[covered] = …`). -/
def lev (full : Nat → Nat → Bool) (P : List Nat) : Nat → Nat → Nat
  | 0, _ => 0
  | D + 1, p => if isFull full P (D + 1) p then D + 1 else lev full P D p

/-- UNIQ code of the ancestor of `p`, `e` levels above `maxOrd`. -/
def cellU (n e p : Nat) : Nat := uniqOf (n - e) (p >>> (2 * e))

theorem mocLoop_spec (full : Nat → Nat → Bool) (n : Nat) (P : List Nat) :
    ∀ (rem d0 : Nat) (cm : CountMap), d0 + rem ≤ n → (∀ q, cmGet cm q = cnt P d0 q) →
    ∃ D, d0 ≤ D ∧ D ≤ d0 + rem ∧
      mocLoop full n rem (d0 + 1) cm (P.map fun p => (p, cellU n (lev full P d0 p) p))
        = P.map (fun p => (p, cellU n (lev full P D p) p)) ∧
      (D < d0 + rem → P.any (isFull full P (D + 1)) = false) := by
  intro rem
  induction rem with
  | zero => intro d0 cm _ _; exact ⟨d0, Nat.le_refl _, Nat.le_refl _, rfl, fun h => absurd h (by omega)⟩
  | succ rem ih =>
    intro d0 cm hn hcm
    have hsub : n - (n - (d0 + 1)) = d0 + 1 := by omega
    have hcm' : ∀ q, cmGet (cmDegrade cm) q = cnt P (d0 + 1) q := by
      intro q; rw [cmGet_cmDegrade, cnt_succ, hcm, hcm, hcm, hcm]
    rw [mocLoop]
    simp only [hsub, List.any_map, hcm']
    have hany : (P.any ((fun pu : Nat × Nat => full (cnt P (d0 + 1) (pu.1 >>> (2 * (d0 + 1)))) (4 ^ (d0 + 1))) ∘
        fun p => (p, cellU n (lev full P d0 p) p))) = P.any (isFull full P (d0 + 1)) := rfl
    rw [hany]
    by_cases hb : P.any (isFull full P (d0 + 1)) = false
    · rw [if_pos hb]
      exact ⟨d0, Nat.le_refl _, by omega, rfl, fun _ => hb⟩
    · rw [if_neg hb]
      obtain ⟨D, h1, h2, h3, h4⟩ := ih (d0 + 1) (cmDegrade cm) (by omega) hcm'
      refine ⟨D, by omega, by omega, ?_, fun h => h4 (by omega)⟩
      rw [← h3, List.map_map]
      congr 1
      apply List.map_congr_left
      intro p _
      simp only [Function.comp, lev, isFull, cellU, uniqOf]
      split <;> simp [*]

theorem mocWriteWith_spec (full : Nat → Nat → Bool) (n m : Nat) {P : List Nat} (hnd : P.Nodup) :
    ∃ D, D ≤ n - m ∧
      (∀ u, u ∈ mocWriteWith full n m P ↔ ∃ p ∈ P, u = cellU n (lev full P D p) p) ∧
      (D < n - m → P.any (isFull full P (D + 1)) = false) := by
  obtain ⟨D, _, h2, h3, h4⟩ := mocLoop_spec full n P (n - m) 0 (cmInit P) (by omega)
    (fun q => by rw [cmGet_cmInit, cnt_zero hnd])
  refine ⟨D, by omega, ?_, fun h => h4 (by omega)⟩
  intro u
  have h0 : (P.map fun p => (p, 4 * 4 ^ n + p)) = P.map fun p => (p, cellU n (lev full P 0 p) p) := by
    apply List.map_congr_left; intro p _; simp [lev, cellU, uniqOf]
  unfold mocWriteWith
  simp only [mem_npUnique, h0, h3, List.map_map, List.mem_map, Function.comp]
  constructor
  · rintro ⟨p, hp, rfl⟩; exact ⟨p, hp, rfl⟩
  · rintro ⟨p, hp, rfl⟩; exact ⟨p, hp, rfl⟩

theorem lev_le (full : Nat → Nat → Bool) (P : List Nat) (D p : Nat) : lev full P D p ≤ D := by
  induction D with
  | zero => simp [lev]
  | succ D ih => rw [lev]; split <;> omega

theorem lev_mono (full : Nat → Nat → Bool) (P : List Nat) (D p : Nat) :
    lev full P D p ≤ lev full P (D + 1) p := by
  rw [lev.eq_2]; split
  · have := lev_le full P D p; omega
  · omega

/-- Once a level is declared full, the pixel stays merged at least that far. -/
theorem le_lev_of_isFull {full : Nat → Nat → Bool} {P : List Nat} {D p d : Nat} (hd1 : 1 ≤ d)
    (hd : d ≤ D) (hf : isFull full P d p = true) : d ≤ lev full P D p := by
  induction D with
  | zero => omega
  | succ D ih =>
    by_cases h : d = D + 1
    · subst h; rw [lev, if_pos hf]; omega
    · have := ih (by omega); have := lev_mono full P D p; omega

theorem isFull_exactEq {P : List Nat} (hnd : P.Nodup) (d p : Nat) :
    isFull exactEq P d p = true ↔ Full P d (p >>> (2 * d)) := by
  rw [← cnt_eq_iff_full hnd]; simp [isFull, exactEq]

theorem full_zero_of_mem {P : List Nat} {p : Nat} (hp : p ∈ P) : Full P 0 (p >>> (2 * 0)) := by
  intro x hx; simp at hx; rw [hx]; exact hp

theorem lev_full {P : List Nat} (hnd : P.Nodup) {p : Nat} (hp : p ∈ P) (D : Nat) :
    Full P (lev exactEq P D p) (p >>> (2 * lev exactEq P D p)) := by
  induction D with
  | zero => exact full_zero_of_mem hp
  | succ D ih =>
    rw [lev]; split
    · next h => exact (isFull_exactEq hnd _ _).1 h
    · exact ih

theorem lev_max {P : List Nat} (hnd : P.Nodup) {p e D : Nat} (he : e ≤ D)
    (hf : Full P e (p >>> (2 * e))) : e ≤ lev exactEq P D p := by
  by_cases h0 : e = 0
  · omega
  · exact le_lev_of_isFull (by omega) he ((isFull_exactEq hnd _ _).2 hf)

/-- Full cells have full sub-cells, any number of levels down. -/
theorem full_down_le {P : List Nat} {p : Nat} {d e : Nat} (hde : d ≤ e)
    (h : Full P e (p >>> (2 * e))) : Full P d (p >>> (2 * d)) := by
  induction e with
  | zero => have : d = 0 := by omega
            subst this; exact h
  | succ e ih =>
    by_cases hd : d = e + 1
    · subst hd; exact h
    · exact ih (by omega) (full_down h)

/-- Soundness of the early `break`: if no valid pixel has a full ancestor `d` levels up,
    none has a full ancestor further up. -/
theorem no_full_above {P : List Nat} (hnd : P.Nodup) {d : Nat}
    (h : P.any (isFull exactEq P d) = false) {e p : Nat} (hp : p ∈ P) (he : d ≤ e) :
    ¬ Full P e (p >>> (2 * e)) := by
  intro hf
  have := (isFull_exactEq hnd d p).2 (full_down_le he hf)
  rw [List.any_eq_false] at h
  exact h p hp this

/-- `e` is the number of levels by which `p` is merged: the largest `e ≤ R` such that the
    ancestor of `p`, `e` levels up, is fully valid. -/
def IsCellOf (P : List Nat) (R p e : Nat) : Prop :=
  e ≤ R ∧ Full P e (p >>> (2 * e)) ∧ ∀ e', e' ≤ R → Full P e' (p >>> (2 * e')) → e' ≤ e

theorem IsCellOf.unique {P : List Nat} {R p e₁ e₂ : Nat} (h₁ : IsCellOf P R p e₁)
    (h₂ : IsCellOf P R p e₂) : e₁ = e₂ := by
  have := h₁.2.2 e₂ h₂.1 h₂.2.1
  have := h₂.2.2 e₁ h₁.1 h₁.2.1
  omega

/-- Complete characterisation of the UNIQ column written by the exact writer. -/
theorem mem_mocWrite_iff (n m : Nat) {P : List Nat} (hnd : P.Nodup) (u : Nat) :
    u ∈ mocWrite n m P ↔ ∃ p ∈ P, ∃ e, IsCellOf P (n - m) p e ∧ u = cellU n e p := by
  obtain ⟨D, hD, hmem, hbrk⟩ := mocWriteWith_spec exactEq n m hnd
  have hcell : ∀ p ∈ P, IsCellOf P (n - m) p (lev exactEq P D p) := by
    intro p hp
    refine ⟨by have := lev_le exactEq P D p; omega, lev_full hnd hp D, ?_⟩
    intro e' he' hf
    by_cases hle : e' ≤ D
    · exact lev_max hnd hle hf
    · exact absurd hf (no_full_above hnd (hbrk (by omega)) hp (by omega))
  unfold mocWrite
  rw [hmem]
  constructor
  · rintro ⟨p, hp, rfl⟩; exact ⟨p, hp, _, hcell p hp, rfl⟩
  · rintro ⟨p, hp, e, he, rfl⟩
    exact ⟨p, hp, by rw [he.unique (hcell p hp)]⟩

/-! ### Cells and the pixels they cover -/

/-- Pixel `x` (at order `maxOrd`) lies in the cell with UNIQ code `u`: the cell `(o, i)` covers
    `{(i <<< 2*(maxOrd-o)) + j | j < 4^(maxOrd-o)}`. -/
def cellCovers (maxOrd u x : Nat) : Prop :=
  ∃ j, j < 4 ^ (maxOrd - uniqOrder u) ∧
    x = (uniqIndex u <<< (2 * (maxOrd - uniqOrder u))) + j

theorem cellCovers_iff (n u x : Nat) :
    cellCovers n u x ↔ x >>> (2 * (n - uniqOrder u)) = uniqIndex u := by
  unfold cellCovers; rw [shr_eq_iff, four_pow]

theorem uniqOrder_cellU {n e p : Nat} (hp : p < 12 * 4 ^ n) (he : e ≤ n) :
    uniqOrder (cellU n e p) = n - e :=
  uniqOrder_uniqOf (shr_lt_of_lt hp he)

theorem uniqIndex_cellU {n e p : Nat} (hp : p < 12 * 4 ^ n) (he : e ≤ n) :
    uniqIndex (cellU n e p) = p >>> (2 * e) :=
  uniqIndex_uniqOf (shr_lt_of_lt hp he)

theorem cellCovers_cellU {n e p : Nat} (hp : p < 12 * 4 ^ n) (he : e ≤ n) (x : Nat) :
    cellCovers n (cellU n e p) x ↔ x >>> (2 * e) = p >>> (2 * e) := by
  rw [cellCovers_iff, uniqOrder_cellU hp he, uniqIndex_cellU hp he,
    show n - (n - e) = e by omega]

theorem shr_eq_of_le {x p d e : Nat} (hde : d ≤ e) (h : x >>> (2 * d) = p >>> (2 * d)) :
    x >>> (2 * e) = p >>> (2 * e) := by
  rw [show 2 * e = 2 * d + 2 * (e - d) by omega, ← shr_shr, ← shr_shr, h]

/-! ### Reader -/

theorem foldl_max_ge (l : List Nat) (a : Nat) : a ≤ l.foldl max a ∧ ∀ x ∈ l, x ≤ l.foldl max a := by
  induction l generalizing a with
  | nil => simp
  | cons y t ih =>
    rw [List.foldl_cons]
    have := ih (max a y)
    refine ⟨by omega, ?_⟩
    intro x hx
    rcases List.mem_cons.1 hx with e | hx'
    · subst e; omega
    · exact this.2 x hx'

theorem foldl_max_le (l : List Nat) (a b : Nat) (ha : a ≤ b) (h : ∀ x ∈ l, x ≤ b) :
    l.foldl max a ≤ b := by
  induction l generalizing a with
  | nil => simpa
  | cons y t ih =>
    rw [List.foldl_cons]
    exact ih _ (by have := h y (by simp); omega) fun x hx => h x (by simp [hx])

/-- `max_order` of the file (however the powers are evaluated). -/
theorem mocReadWith_fst (base pw : Nat → Nat) (U : List Nat) :
    (mocReadWith base pw U).1 = (U.map uniqOrder).foldl max 0 := by
  simp [mocReadWith, List.map_map, Function.comp_def]

theorem uniqOrder_le_mocReadWith_fst (base pw : Nat → Nat) {U : List Nat} {u : Nat} (hu : u ∈ U) :
    uniqOrder u ≤ (mocReadWith base pw U).1 := by
  rw [mocReadWith_fst]
  exact (foldl_max_ge _ 0).2 _ (List.mem_map_of_mem hu)

theorem mocReadWith_fst_le (base pw : Nat → Nat) {U : List Nat} {b : Nat}
    (h : ∀ u ∈ U, uniqOrder u ≤ b) : (mocReadWith base pw U).1 ≤ b := by
  rw [mocReadWith_fst]
  apply foldl_max_le _ _ _ (Nat.zero_le _)
  intro x hx
  obtain ⟨u, hu, rfl⟩ := List.mem_map.1 hx
  exact h u hu

theorem mocReadWith_snd (base pw : Nat → Nat) (U : List Nat) :
    (mocReadWith base pw U).2 =
      npUnique ((U.map fun u => (uniqOrder u, u - base (uniqOrder u))).flatMap fun c =>
        (List.range (pw ((mocReadWith base pw U).1 - c.1))).map fun j =>
          (c.2 <<< (2 * ((mocReadWith base pw U).1 - c.1))) + j) := rfl

/-- Membership in the pixel list produced by the reader, as the code computes it. -/
theorem mem_mocReadWith_snd_raw (base pw : Nat → Nat) (U : List Nat) (y : Nat) :
    y ∈ (mocReadWith base pw U).2 ↔
      ∃ u ∈ U, ∃ j, j < pw ((mocReadWith base pw U).1 - uniqOrder u) ∧
        y = ((u - base (uniqOrder u)) <<< (2 * ((mocReadWith base pw U).1 - uniqOrder u))) + j := by
  rw [mocReadWith_snd, mem_npUnique]
  simp only [List.mem_flatMap, List.mem_map, List.mem_range]
  constructor
  · rintro ⟨c, ⟨u, hu, rfl⟩, j, hj, rfl⟩; exact ⟨u, hu, j, hj, rfl⟩
  · rintro ⟨u, hu, j, hj, rfl⟩; exact ⟨_, ⟨u, hu, rfl⟩, j, hj, rfl⟩

theorem uniqOrder_le_mocRead_fst {U : List Nat} {u : Nat} (hu : u ∈ U) :
    uniqOrder u ≤ (mocRead U).1 :=
  uniqOrder_le_mocReadWith_fst _ _ hu

theorem mocRead_fst_le {U : List Nat} {b : Nat} (h : ∀ u ∈ U, uniqOrder u ≤ b) :
    (mocRead U).1 ≤ b :=
  mocReadWith_fst_le _ _ h

/-- The valid pixels of the map read from a file: `y` is valid iff it lies in one of the cells
    (expanded to the file's maximum order). -/
theorem mem_mocRead_snd (U : List Nat) (y : Nat) :
    y ∈ (mocRead U).2 ↔
      ∃ u ∈ U, y >>> (2 * ((mocRead U).1 - uniqOrder u)) = uniqIndex u := by
  unfold mocRead
  rw [mem_mocReadWith_snd_raw]
  constructor
  · rintro ⟨u, hu, j, hj, rfl⟩
    refine ⟨u, hu, ?_⟩
    rw [shr_eq_iff]
    exact ⟨j, by rw [← four_pow]; exact hj, rfl⟩
  · rintro ⟨u, hu, h⟩
    rw [shr_eq_iff] at h
    obtain ⟨j, hj, h⟩ := h
    exact ⟨u, hu, j, by rw [four_pow]; exact hj, h⟩

/-- The pre-fix (`int32`) reader agrees with the repaired one on files of maximum order ≤ 14. -/
theorem mem_mocReadI32_snd {U : List Nat} (h14 : (mocReadI32 U).1 ≤ 14) (y : Nat) :
    y ∈ (mocReadI32 U).2 ↔
      ∃ u ∈ U, y >>> (2 * ((mocReadI32 U).1 - uniqOrder u)) = uniqIndex u := by
  unfold mocReadI32 at h14 ⊢
  rw [mem_mocReadWith_snd_raw]
  constructor
  · rintro ⟨u, hu, j, hj, rfl⟩
    refine ⟨u, hu, ?_⟩
    have ho := uniqOrder_le_mocReadWith_fst uniqBaseI32 (fun k => wrap32 (4 ^ k)) hu
    rw [wrap32_four_pow (by omega)] at hj
    rw [shr_eq_iff]
    refine ⟨j, by rw [← four_pow]; exact hj, ?_⟩
    rw [uniqBaseI32_eq (by omega), uniqIndex]
  · rintro ⟨u, hu, h⟩
    have ho := uniqOrder_le_mocReadWith_fst uniqBaseI32 (fun k => wrap32 (4 ^ k)) hu
    rw [shr_eq_iff] at h
    obtain ⟨j, hj, rfl⟩ := h
    refine ⟨u, hu, j, ?_, ?_⟩
    · rw [wrap32_four_pow (by omega), four_pow]; exact hj
    · rw [uniqBaseI32_eq (by omega), uniqIndex]

/-! ### Sloppy comparators -/

/-- Any comparator that declares a cell full although it has fewer than `4^d` valid
    descendants makes the writer emit a cell that contains an invalid pixel — provided the
    loop reaches that level (some cell was declared full at every finer level). -/
theorem mocWriteWith_overcovers (full : Nat → Nat → Bool) (n m : Nat) {P : List Nat}
    (hnd : P.Nodup) {p d : Nat} (hp : p ∈ P) (hd1 : 1 ≤ d) (hd : d ≤ n - m)
    (hreach : ∀ e, 1 ≤ e → e < d → P.any (isFull full P e) = true)
    (hfull : isFull full P d p = true) (hcnt : cnt P d (p >>> (2 * d)) < 4 ^ d) :
    ∃ e, d ≤ e ∧ e ≤ n - m ∧ cellU n e p ∈ mocWriteWith full n m P ∧
      ∃ x, x ∉ P ∧ x >>> (2 * e) = p >>> (2 * e) := by
  obtain ⟨D, hD, hmem, hbrk⟩ := mocWriteWith_spec full n m hnd
  have hdD : d ≤ D := by
    apply Classical.byContradiction; intro hlt
    have hb := hbrk (by omega)
    by_cases hD1 : D + 1 = d
    · rw [hD1, List.any_eq_false] at hb
      exact hb p hp hfull
    · rw [hreach (D + 1) (by omega) (by omega)] at hb; cases hb
  have hle := le_lev_of_isFull hd1 hdD hfull
  have hlD := lev_le full P D p
  refine ⟨lev full P D p, hle, by omega, (hmem _).2 ⟨p, hp, rfl⟩, ?_⟩
  have hnf : ¬ Full P d (p >>> (2 * d)) := by
    rw [← cnt_eq_iff_full hnd]; omega
  unfold Full at hnf
  obtain ⟨x, hx⟩ := Classical.not_forall.1 hnf
  have hx' : x >>> (2 * d) = p >>> (2 * d) ∧ x ∉ P := by
    constructor
    · apply Classical.byContradiction; intro h; exact hx (fun h' => absurd h' h)
    · intro h; exact hx (fun _ => h)
  exact ⟨x, hx'.2, shr_eq_of_le hle hx'.1⟩

theorem iscloseF32_self (t : Nat) : iscloseF32 t t = true := by
  simp [iscloseF32]

/-- The defect of the `np.isclose` comparator, for a single coverage cell of order 0 with
    `4^9 - 1` of its `4^9` order-9 pixels valid: the writer emits the whole order-0 cell
    (UNIQ code 4), which contains the invalid pixel `4^9 - 1`. -/
theorem isclose_writes_whole_cell :
    4 ∈ mocWriteWith iscloseF32 9 0 (List.range (4 ^ 9 - 1)) := by
  have hnd : (List.range (4 ^ 9 - 1)).Nodup := List.nodup_range
  have h0 : 0 ∈ List.range (4 ^ 9 - 1) := by simp
  have hcnt : ∀ e, e < 9 → cnt (List.range (4 ^ 9 - 1)) e (0 >>> (2 * e)) = 4 ^ e := by
    intro e he
    rw [cnt_eq_iff_full hnd]
    intro x hx
    rw [Nat.zero_shiftRight, Nat.shiftRight_eq_div_pow, ← four_pow,
      Nat.div_eq_zero_iff_lt (Nat.pow_pos (by omega))] at hx
    have : 4 ^ e ≤ 4 ^ 8 := Nat.pow_le_pow_right (by omega) (by omega)
    rw [List.mem_range]
    have : (4:Nat) ^ 8 < 4 ^ 9 - 1 := by decide
    omega
  have hcnt9 : cnt (List.range (4 ^ 9 - 1)) 9 (0 >>> (2 * 9)) = 4 ^ 9 - 1 := by
    unfold cnt
    have : List.countP (fun p => p >>> (2 * 9) == 0 >>> (2 * 9)) (List.range (4 ^ 9 - 1))
        = (List.range (4 ^ 9 - 1)).length := by
      rw [List.countP_eq_length]
      intro a ha
      rw [List.mem_range] at ha
      have : a >>> (2 * 9) = 0 := by
        rw [Nat.shiftRight_eq_div_pow]; apply Nat.div_eq_of_lt
        have : (4:Nat) ^ 9 - 1 < 2 ^ (2 * 9) := by decide
        omega
      simp [this]
    rw [this, List.length_range]
  obtain ⟨e, he9, he0, hmem, _⟩ := mocWriteWith_overcovers iscloseF32 9 0 hnd h0
    (d := 9) (by omega) (by omega)
    (fun e _ he => List.any_eq_true.2 ⟨0, h0, by rw [isFull, hcnt e he]; exact iscloseF32_self _⟩)
    (by rw [isFull, hcnt9]; decide)
    (by rw [hcnt9]; decide)
  have : e = 9 := by omega
  subst this
  simpa [cellU, uniqOf] using hmem

/-! ### Main properties (restated in `Props/C17.lean`) -/

/-- The count map after `d` degrade steps, as the loop computes it. -/
def cmLevel (P : List Nat) : Nat → CountMap
  | 0 => cmInit P
  | d + 1 => cmDegrade (cmLevel P d)

theorem cmGet_cmLevel_levelCount (P : List Nat) (d q : Nat) :
    cmGet (cmLevel P d) q = levelCount P d q := by
  induction d generalizing q with
  | zero => rw [cmLevel, cmGet_cmInit]; rfl
  | succ d ih => rw [cmLevel, cmGet_cmDegrade, levelCount, ih, ih, ih, ih]

theorem cmGet_cmLevel {P : List Nat} (hnd : P.Nodup) (d q : Nat) :
    cmGet (cmLevel P d) q = cnt P d q := by
  rw [cmGet_cmLevel_levelCount, levelCount_eq_cnt hnd]

theorem isCellOf_lev {P : List Nat} (hnd : P.Nodup) {p : Nat} (hp : p ∈ P) (R : Nat) :
    IsCellOf P R p (lev exactEq P R p) :=
  ⟨lev_le _ _ _ _, lev_full hnd hp R, fun _ he' hf => lev_max hnd he' hf⟩

section
variable {n m : Nat} {P : List Nat}

theorem moc_cover' (hnd : P.Nodup) (hlt : ∀ p ∈ P, p < 12 * 4 ^ n) (x : Nat) :
    (∃ u ∈ mocWrite n m P, cellCovers n u x) ↔ x ∈ P := by
  constructor
  · rintro ⟨u, hu, hc⟩
    obtain ⟨p, hp, e, he, rfl⟩ := (mem_mocWrite_iff n m hnd u).1 hu
    rw [cellCovers_cellU (hlt p hp) (by have := he.1; omega)] at hc
    exact he.2.1 x hc
  · intro hx
    have he := isCellOf_lev hnd hx (n - m)
    refine ⟨_, (mem_mocWrite_iff n m hnd _).2 ⟨x, hx, _, he, rfl⟩, ?_⟩
    rw [cellCovers_cellU (hlt x hx) (by have := he.1; omega)]

theorem cell_eq_of_overlap {R p₁ e₁ p₂ e₂ x : Nat}
    (h₁ : IsCellOf P R p₁ e₁) (h₂ : IsCellOf P R p₂ e₂)
    (hx₁ : x >>> (2 * e₁) = p₁ >>> (2 * e₁)) (hx₂ : x >>> (2 * e₂) = p₂ >>> (2 * e₂))
    (hle : e₁ ≤ e₂) : cellU n e₁ p₁ = cellU n e₂ p₂ := by
  have h12 : p₁ >>> (2 * e₂) = p₂ >>> (2 * e₂) := by
    rw [← shr_eq_of_le hle hx₁, hx₂]
  have hf : Full P e₂ (p₁ >>> (2 * e₂)) := by rw [h12]; exact h₂.2.1
  have : e₂ ≤ e₁ := h₁.2.2 e₂ h₂.1 hf
  have : e₁ = e₂ := by omega
  subst this
  unfold cellU; rw [h12]

theorem moc_disjoint' (hnd : P.Nodup) (hlt : ∀ p ∈ P, p < 12 * 4 ^ n) {u₁ u₂ x : Nat}
    (h₁ : u₁ ∈ mocWrite n m P) (h₂ : u₂ ∈ mocWrite n m P)
    (hc₁ : cellCovers n u₁ x) (hc₂ : cellCovers n u₂ x) : u₁ = u₂ := by
  obtain ⟨p₁, hp₁, e₁, he₁, rfl⟩ := (mem_mocWrite_iff n m hnd u₁).1 h₁
  obtain ⟨p₂, hp₂, e₂, he₂, rfl⟩ := (mem_mocWrite_iff n m hnd u₂).1 h₂
  rw [cellCovers_cellU (hlt p₁ hp₁) (by have := he₁.1; omega)] at hc₁
  rw [cellCovers_cellU (hlt p₂ hp₂) (by have := he₂.1; omega)] at hc₂
  by_cases hle : e₁ ≤ e₂
  · exact cell_eq_of_overlap he₁ he₂ hc₁ hc₂ hle
  · exact (cell_eq_of_overlap he₂ he₁ hc₂ hc₁ (by omega)).symm

theorem moc_order' (hmn : m ≤ n) (hnd : P.Nodup) (hlt : ∀ p ∈ P, p < 12 * 4 ^ n) {u : Nat}
    (hu : u ∈ mocWrite n m P) : m ≤ uniqOrder u ∧ uniqOrder u ≤ n ∧ uniqIndex u < 12 * 4 ^ uniqOrder u := by
  obtain ⟨p, hp, e, he, rfl⟩ := (mem_mocWrite_iff n m hnd u).1 hu
  have := he.1
  rw [uniqOrder_cellU (hlt p hp) (by omega), uniqIndex_cellU (hlt p hp) (by omega)]
  exact ⟨by omega, by omega, shr_lt_of_lt (hlt p hp) (by omega)⟩

theorem moc_maximal' (hnd : P.Nodup) (hlt : ∀ p ∈ P, p < 12 * 4 ^ n) {u : Nat}
    (hu : u ∈ mocWrite n m P) :
    (∀ x, cellCovers n u x → x ∈ P) ∧
    ∀ o', m ≤ o' → o' < uniqOrder u →
      ¬ ∀ x, x >>> (2 * (n - o')) = uniqIndex u >>> (2 * (uniqOrder u - o')) → x ∈ P := by
  obtain ⟨p, hp, e, he, rfl⟩ := (mem_mocWrite_iff n m hnd u).1 hu
  have hen := he.1
  constructor
  · intro x hc
    rw [cellCovers_cellU (hlt p hp) (by omega)] at hc
    exact he.2.1 x hc
  · rw [uniqOrder_cellU (hlt p hp) (by omega), uniqIndex_cellU (hlt p hp) (by omega)]
    intro o' ho' hlt' hall
    have hf : Full P (n - o') (p >>> (2 * (n - o'))) := by
      intro x hx
      apply hall x
      rw [hx, shr_shr]; congr 1; omega
    have := he.2.2 (n - o') (by omega) hf
    omega

theorem moc_break_sound' (hnd : P.Nodup) {d : Nat}
    (h : ∀ p ∈ P, cnt P d (p >>> (2 * d)) ≠ 4 ^ d) {e p : Nat} (hp : p ∈ P) (he : d ≤ e) :
    cnt P e (p >>> (2 * e)) ≠ 4 ^ e := by
  rw [Ne, cnt_eq_iff_full hnd]
  apply no_full_above hnd _ hp he
  rw [List.any_eq_false]
  intro q hq
  simpa [isFull, exactEq] using h q hq

/-- Write/read round trip for any reader whose valid pixels are the union of the cells. -/
theorem read_write_of_mem {n m : Nat} {P : List Nat} (hnd : P.Nodup)
    (hlt : ∀ p ∈ P, p < 12 * 4 ^ n) (base pw : Nat → Nat)
    (hmem : ∀ y, y ∈ (mocReadWith base pw (mocWrite n m P)).2 ↔
      ∃ u ∈ mocWrite n m P,
        y >>> (2 * ((mocReadWith base pw (mocWrite n m P)).1 - uniqOrder u)) = uniqIndex u) :
    (mocReadWith base pw (mocWrite n m P)).1 ≤ n ∧
    ∀ x, x ∈ P ↔ x >>> (2 * (n - (mocReadWith base pw (mocWrite n m P)).1))
                    ∈ (mocReadWith base pw (mocWrite n m P)).2 := by
  have hord : ∀ u ∈ mocWrite n m P, uniqOrder u ≤ n := by
    intro u hu
    obtain ⟨p, hp, e, he, rfl⟩ := (mem_mocWrite_iff n m hnd u).1 hu
    rw [uniqOrder_cellU (hlt p hp) (by have := he.1; omega)]; omega
  have hM := mocReadWith_fst_le base pw hord
  refine ⟨hM, fun x => ?_⟩
  rw [hmem, ← moc_cover' (m := m) hnd hlt x]
  constructor
  · rintro ⟨u, hu, hc⟩
    refine ⟨u, hu, ?_⟩
    have := uniqOrder_le_mocReadWith_fst base pw hu
    rw [cellCovers_iff] at hc
    rw [shr_shr, ← hc]; congr 1; omega
  · rintro ⟨u, hu, hc⟩
    refine ⟨u, hu, ?_⟩
    have := uniqOrder_le_mocReadWith_fst base pw hu
    rw [cellCovers_iff, ← hc, shr_shr]; congr 1; omega

theorem moc_read_write' {n m : Nat} {P : List Nat} (hnd : P.Nodup)
    (hlt : ∀ p ∈ P, p < 12 * 4 ^ n) :
    (mocRead (mocWrite n m P)).1 ≤ n ∧
    ∀ x, x ∈ P ↔ x >>> (2 * (n - (mocRead (mocWrite n m P)).1)) ∈ (mocRead (mocWrite n m P)).2 :=
  read_write_of_mem hnd hlt _ _ (mem_mocRead_snd _)

/-- The pre-fix reader round-trips as long as the file's maximum order is ≤ 14. -/
theorem moc_read_write_i32' {n m : Nat} {P : List Nat} (hnd : P.Nodup)
    (hlt : ∀ p ∈ P, p < 12 * 4 ^ n) (h14 : (mocReadI32 (mocWrite n m P)).1 ≤ 14) :
    (mocReadI32 (mocWrite n m P)).1 ≤ n ∧
    ∀ x, x ∈ P ↔ x >>> (2 * (n - (mocReadI32 (mocWrite n m P)).1))
                    ∈ (mocReadI32 (mocWrite n m P)).2 :=
  read_write_of_mem hnd hlt _ _ (mem_mocReadI32_snd h14)

end

theorem mocWrite_order15 : mocWrite 15 15 [5] = [4294967301] := by
  simp [mocWrite, mocWriteWith, mocLoop, npUnique, dedupLoop]

/-- The 32-bit overflow in the PRE-FIX reader: a one-pixel map at order 15 read back with the
    UNIQ code itself as the pixel number. -/
theorem mocReadI32_order15 : mocReadI32 (mocWrite 15 15 [5]) = (15, [4294967301]) := by
  rw [mocWrite_order15]
  have ho : uniqOrder 4294967301 = 15 := by decide
  have hb : uniqBaseI32 15 = 0 := uniqBaseI32_big (by omega)
  simp [mocReadI32, mocReadWith, ho, hb, wrap32, npUnique, dedupLoop]

/-- The repaired reader on the same file. -/
theorem mocRead_order15 : mocRead (mocWrite 15 15 [5]) = (15, [5]) := by
  rw [mocWrite_order15]
  have ho : uniqOrder 4294967301 = 15 := by decide
  simp [mocRead, mocReadWith, ho, npUnique, dedupLoop]

end HS
