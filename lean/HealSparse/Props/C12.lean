/-
  C12 — scalar operators, masking and type conversion act on exactly the valid pixels.
  Property theorems only (helpers in HealSparse/Lemmas).
-/
import HealSparse.Lemmas.Core
import HealSparse.Lemmas.Coverage
import HealSparse.Lemmas.Valid
import HealSparse.Model.ScalarOps
import HealSparse.Props.C04
import HealSparse.Props.C02
namespace HS
namespace C12

variable {V : Type} [DecidableEq V]

/-- A scalar operator changes exactly the valid pixels, to `f value`; invalid pixels
    (covered or not) keep their value; the layout and the coverage mask are unchanged.
    Holds for the in-place and the copying form alike (both compute `scalarOp`). -/
theorem scalarOp_spec (c : Cfg) (vc : VCfg V) (s : State V) (f : V → V) (h : Inv c vc s)
    (hv : vc.valid vc.sentinel = false) :
    Inv c vc (scalarOp vc s f) ∧
    (∀ p, p < c.npix → abs c vc (scalarOp vc s f) p
        = if vc.valid (abs c vc s p) then f (abs c vc s p) else abs c vc s p) ∧
    (∀ k, covered c (scalarOp vc s f) k = covered c s k) := by
  sorry

/-- `apply_mask` never raises on a well-formed map, invalidates exactly the valid pixels
    whose mask value is bad, changes nothing else, and keeps layout and coverage. -/
theorem applyMask_spec (c : Cfg) (vc : VCfg V) (s : State V) (bad : Nat → Bool) (h : Inv c vc s)
    (hv : vc.valid vc.sentinel = false) :
    ∃ s', applyMask c vc s bad = some s' ∧ Inv c vc s' ∧
      (∀ p, p < c.npix → abs c vc s' p
          = if vc.valid (abs c vc s p) && bad p then vc.sentinel else abs c vc s p) ∧
      (∀ k, covered c s' k = covered c s k) := by
  sorry

/-- valid set after apply_mask = valid ∧ ¬ bad -/
theorem applyMask_valid (c : Cfg) (vc : VCfg V) (s s' : State V) (bad : Nat → Bool) (h : Inv c vc s)
    (hv : vc.valid vc.sentinel = false) (hs' : applyMask c vc s bad = some s')
    (p : Nat) (hp : p < c.npix) :
    vc.valid (abs c vc s' p) = (vc.valid (abs c vc s p) && !bad p) := by
  sorry

/-- `astype`: values converted on valid pixels, the new sentinel elsewhere; the result is a
    well-formed map over the new cell type with the same coverage. -/
theorem astype_spec {V' : Type} [DecidableEq V'] (c : Cfg) (vc : VCfg V) (vc' : VCfg V') (s : State V)
    (conv : V → V') (h : Inv c vc s) (hv : vc.valid vc.sentinel = false) :
    Inv c vc' (astypeMap vc s conv vc'.sentinel) ∧
    (∀ p, p < c.npix → abs c vc' (astypeMap vc s conv vc'.sentinel) p
        = if vc.valid (abs c vc s p) then conv (abs c vc s p) else vc'.sentinel) ∧
    (∀ k, covered c (astypeMap vc s conv vc'.sentinel) k = covered c s k) := by
  sorry

/-- `astype` preserves the valid set **provided no converted value coincides with the new
    sentinel** (a converted value equal to the new sentinel cannot be represented as valid;
    the hypothesis is necessary and stated, not hidden). -/
theorem astype_valid_preserved {V' : Type} [DecidableEq V'] (c : Cfg) (vc : VCfg V) (vc' : VCfg V')
    (s : State V) (conv : V → V') (h : Inv c vc s) (hv : vc.valid vc.sentinel = false)
    (hv' : vc'.valid vc'.sentinel = false)
    (hconv : ∀ x, vc.valid x = true → vc'.valid (conv x) = true) (p : Nat) (hp : p < c.npix) :
    vc'.valid (abs c vc' (astypeMap vc s conv vc'.sentinel) p) = vc.valid (abs c vc s p) := by
  sorry

/-- `as_bit_packed_map`: a well-formed boolean map, True exactly on the valid pixels, same coverage. -/
theorem asBitPacked_spec (c : Cfg) (vc : VCfg V) (s : State V) (h : Inv c vc s)
    (hv : vc.valid vc.sentinel = false) :
    Inv c (⟨false, fun b => b⟩ : VCfg Bool) (asBitPacked c vc s) ∧
    (∀ p, p < c.npix → abs c (⟨false, fun b => b⟩ : VCfg Bool) (asBitPacked c vc s) p
        = vc.valid (abs c vc s p)) ∧
    (∀ k, covered c (asBitPacked c vc s) k = covered c s k) := by
  sorry

/-- non-vacuity: a map with a valid, an invalid-covered and uncovered pixels -/
example : (scalarOp (V := Int) ⟨-1, fun x => x != -1⟩ ⟨#[2, -2], #[-1, -1, 5, -1]⟩ (· * 3)).sp
    = #[-1, -1, 15, -1] := by decide +kernel

end C12
end HS
