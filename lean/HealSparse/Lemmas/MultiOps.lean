/-
  Helper lemmas for C06 (union / intersection arithmetic over a list of maps):
  * neutrality of the start values of the named operations on the value model (`Val`);
  * the per-map scatter of `multiStep`, the loop invariant of `multiLoop`, and the refinement
    of `multiOp` to the dense specification `denseMulti`.
  Property theorems live in HealSparse/Props/C06.lean.
-/
import HealSparse.Lemmas.Core
import HealSparse.Lemmas.Coverage
import HealSparse.Lemmas.Valid
import HealSparse.Model.MultiOps
import HealSparse.Model.Api
namespace HS

/-! ### value model: neutral start values -/

theorem dyNorm_mul_pow (n : Int) (e k : Nat) : dyNorm (n * 2 ^ k) (e + k) = dyNorm n e := by
  induction k with
  | zero => simp
  | succ k ih =>
    have h1 : (n * 2 ^ (k + 1)) % 2 = 0 := by
      rw [Int.pow_succ, ← Int.mul_assoc]; exact Int.mul_emod_left _ _
    have h2 : (n * 2 ^ (k + 1)) / 2 = n * 2 ^ k := by
      rw [Int.pow_succ, ← Int.mul_assoc]; exact Int.mul_ediv_cancel _ (by decide)
    show dyNorm (n * 2 ^ (k + 1)) ((e + k) + 1) = _
    rw [dyNorm]
    simp [h1, h2, ih]

theorem wrapInt_emod (b : Nat) (sg : Bool) (n : Int) : wrapInt b sg (n % 2 ^ b) = wrapInt b sg n := by
  unfold wrapInt
  simp only [Int.emod_emod_of_dvd _ (Int.dvd_refl _)]

theorem wrapInt_bounds (b : Nat) (hb : 0 < b) (sg : Bool) (n : Int) (h : wrapInt b sg n = n) :
    (if sg then -(2 ^ (b - 1)) else 0) ≤ n ∧ n ≤ (if sg then 2 ^ (b - 1) - 1 else 2 ^ b - 1) := by
  obtain ⟨b', rfl⟩ : ∃ b', b = b' + 1 := ⟨b - 1, by omega⟩
  simp only [Nat.add_sub_cancel]
  unfold wrapInt at h
  have hm : (2 : Int) ^ (b' + 1) = 2 * 2 ^ b' := by rw [Int.pow_succ]; omega
  have hpos : (0 : Int) < 2 ^ b' := Int.pow_pos (by decide)
  rw [hm] at h ⊢
  generalize (2 : Int) ^ b' = H at *
  have h0 := Int.emod_nonneg n (show (2 * H) ≠ 0 by omega)
  have h1 := Int.emod_lt_of_pos n (show 0 < 2 * H by omega)
  have h2 : 2 * H / 2 = H := Int.mul_ediv_cancel_left _ (by decide)
  simp only [h2] at h
  generalize n % (2 * H) = r at *
  cases sg <;> simp at h ⊢ <;> (try split at h) <;> omega

theorem add_zero_int (b : Nat) (sg : Bool) (e0 : Nat) (n : Int) (h : wrapInt b sg n = n) :
    ufuncCell "add" (.int b sg) (.num 0 e0) (.num n 0) = .num n 0 := by
  have := dyNorm_mul_pow n 0 e0
  simp [ufuncCell, Val.add, dyAdd, dyAlign, DT.wrap, Val.ofDy] at this ⊢
  rw [this]; simp [dyNorm, h]

theorem add_zero_flt (bits e0 : Nat) (n : Int) (e : Nat) (h : dyNorm n e = (n, e)) :
    ufuncCell "add" (.flt bits) (.num 0 e0) (.num n e) = .num n e := by
  have := dyNorm_mul_pow n e (max e0 e - e)
  have he : e + (max e0 e - e) = max e0 e := by omega
  rw [he] at this
  simp [ufuncCell, Val.add, dyAdd, dyAlign, DT.wrap, Val.ofDy, this, h]

theorem mul_one_int (b : Nat) (sg : Bool) (n : Int) (h : wrapInt b sg n = n) :
    ufuncCell "multiply" (.int b sg) (.num 1 0) (.num n 0) = .num n 0 := by
  simp [ufuncCell, Val.mul, dyMul, DT.wrap, Val.ofDy, dyNorm, h]

theorem mul_one_flt (bits : Nat) (n : Int) (e : Nat) (h : dyNorm n e = (n, e)) :
    ufuncCell "multiply" (.flt bits) (.num 1 0) (.num n e) = .num n e := by
  simp [ufuncCell, Val.mul, dyMul, DT.wrap, Val.ofDy, h]

theorem emod_toNat_cast (b : Nat) (n : Int) : (((n % 2 ^ b).toNat : Nat) : Int) = n % 2 ^ b :=
  Int.toNat_of_nonneg (Int.emod_nonneg n (Int.ne_of_gt (Int.pow_pos (by decide))))

theorem emod_max_zero (b : Nat) (n : Int) : max (n % 2 ^ b) 0 = n % 2 ^ b :=
  Int.max_eq_left (Int.emod_nonneg n (Int.ne_of_gt (Int.pow_pos (by decide))))

theorem or_zero_int (b : Nat) (sg : Bool) (e0 : Nat) (n : Int) (h : wrapInt b sg n = n) :
    ufuncCell "bitwise_or" (.int b sg) (.num 0 e0) (.num n 0) = .num n 0 := by
  simp [ufuncCell, Val.or, intBitop]
  rw [emod_max_zero, wrapInt_emod, h]

theorem xor_zero_int (b : Nat) (sg : Bool) (e0 : Nat) (n : Int) (h : wrapInt b sg n = n) :
    ufuncCell "bitwise_xor" (.int b sg) (.num 0 e0) (.num n 0) = .num n 0 := by
  simp [ufuncCell, Val.xor, intBitop]
  rw [emod_max_zero, wrapInt_emod, h]

theorem and_ones_int (b : Nat) (sg : Bool) (n : Int) (h : wrapInt b sg n = n) :
    ufuncCell "bitwise_and" (.int b sg) (.num (if sg then -1 else 2 ^ b - 1) 0) (.num n 0) = .num n 0 := by
  have hM : (2 : Int) ^ b = ((2 ^ b : Nat) : Int) := by simp
  have hMpos := Nat.two_pow_pos b
  have hk : ((if sg then (-1 : Int) else 2 ^ b - 1) % 2 ^ b).toNat = 2 ^ b - 1 := by
    rw [hM]
    generalize 2 ^ b = M at *
    have h1 : ((M : Int) - 1) % M = M - 1 := Int.emod_eq_of_lt (by omega) (by omega)
    have h2 : (-1 : Int) % M = M - 1 := by
      rw [← h1, ← Int.add_emod_right (-1) (M : Int)]; congr 1
    cases sg
    · simp only [Bool.false_eq_true, if_false, h1]; omega
    · simp only [if_true, h2]; omega
  have hx : (n % 2 ^ b).toNat < 2 ^ b := by
    rw [hM]
    have := Int.emod_lt_of_pos n (show (0 : Int) < ((2 ^ b : Nat) : Int) by omega)
    have := Int.emod_nonneg n (show (((2 ^ b : Nat) : Int)) ≠ 0 by omega)
    omega
  simp only [ufuncCell, Val.and, intBitop]
  rw [hk, Nat.and_comm, Nat.and_two_pow_sub_one_eq_mod, Nat.mod_eq_of_lt hx, emod_toNat_cast,
    wrapInt_emod, h]

/-- `fmax` / `fmin` store their result in the array of dtype `dt` (`narrow`): the start value
    is neutral on the cells that FIT the integer dtype (`wrapInt b sg n = n`) -/
theorem fmax_min_int (b : Nat) (sg : Bool) (k n : Int) (h : k ≤ n) (hw : wrapInt b sg n = n) :
    ufuncCell "fmax" (.int b sg) (.num k 0) (.num n 0) = .num n 0 := by
  have hm : dyMax (k, 0) (n, 0) = (n, 0) := by
    simp only [dyMax, dyLt, dyAlign]
    simp
    intro h'
    have : k = n := by omega
    simp [this]
  show narrow (.int b sg) (Val.ofDy (dyMax (k, 0) (n, 0))) = _
  rw [hm]
  simp [narrow, Val.ofDy, DT.wrap, hw]

theorem fmin_max_int (b : Nat) (sg : Bool) (k n : Int) (h : n ≤ k) (hw : wrapInt b sg n = n) :
    ufuncCell "fmin" (.int b sg) (.num k 0) (.num n 0) = .num n 0 := by
  have hm : dyMin (k, 0) (n, 0) = (n, 0) := by
    simp only [dyMin, dyLt, dyAlign]
    simp
    intro h'
    have : k = n := by omega
    simp [this]
  show narrow (.int b sg) (Val.ofDy (dyMin (k, 0) (n, 0))) = _
  rw [hm]
  simp [narrow, Val.ofDy, DT.wrap, hw]

/-- on a floating-point array nothing is narrowed -/
theorem narrow_flt (bits : Nat) (v : Val) : narrow (.flt bits) v = v := by
  cases v <;> rfl

theorem fmax_inf (bits : Nat) (x : Val) : ufuncCell "fmax" (.flt bits) (.inf true) x = x := by
  simp [ufuncCell, Val.fmax, narrow_flt]

theorem fmin_inf (bits : Nat) (x : Val) : ufuncCell "fmin" (.flt bits) (.inf false) x = x := by
  simp [ufuncCell, Val.fmin, narrow_flt]


theorem parseDTCode_bits_pos {s : String} {b : Nat} {sg : Bool}
    (h : parseDTCode s = some (.int b sg)) : 0 < b := by
  unfold parseDTCode at h
  split at h <;> simp at h <;> omega

/-! ### the dense specification: `validInputs` -/

section spec
variable {V : Type}

theorem validInputs_nil (c : Cfg) (vc : VCfg V) (p : Nat) : validInputs c vc [] p = [] := rfl

theorem validInputs_cons (c : Cfg) (vc : VCfg V) (m : State V) (ms : List (State V)) (p : Nat) :
    validInputs c vc (m :: ms) p =
      if vc.valid (abs c vc m p) = true then abs c vc m p :: validInputs c vc ms p
      else validInputs c vc ms p := by
  by_cases h : vc.valid (abs c vc m p) = true <;> simp [validInputs, h]

theorem validInputs_length_le (c : Cfg) (vc : VCfg V) (ms : List (State V)) (p : Nat) :
    (validInputs c vc ms p).length ≤ ms.length :=
  List.length_filterMap_le _ _

theorem validInputs_length_eq_iff (c : Cfg) (vc : VCfg V) (ms : List (State V)) (p : Nat) :
    (validInputs c vc ms p).length = ms.length ↔ ∀ m ∈ ms, vc.valid (abs c vc m p) = true := by
  induction ms with
  | nil => simp [validInputs_nil]
  | cons m ms ih =>
    rw [validInputs_cons]
    have hle := validInputs_length_le c vc ms p
    split
    · rename_i hm
      simp only [List.length_cons, List.mem_cons, forall_eq_or_imp, hm, true_and]
      rw [← ih]; omega
    · rename_i hm
      constructor
      · intro h; simp only [List.length_cons] at h; omega
      · intro h; exact absurd (h m List.mem_cons_self) hm

theorem validInputs_eq_nil_iff (c : Cfg) (vc : VCfg V) (ms : List (State V)) (p : Nat) :
    validInputs c vc ms p = [] ↔ ∀ m ∈ ms, vc.valid (abs c vc m p) = false := by
  unfold validInputs
  rw [List.filterMap_eq_nil_iff]
  constructor
  · intro h m hm
    have := h m hm
    cases hval : vc.valid (abs c vc m p) with
    | false => rfl
    | true => simp [hval] at this
  · intro h m hm
    simp [h m hm]

theorem validInputs_valid (c : Cfg) (vc : VCfg V) (ms : List (State V)) (p : Nat) :
    ∀ x ∈ validInputs c vc ms p, vc.valid x = true := by
  intro x hx
  unfold validInputs at hx
  obtain ⟨m, _, hm⟩ := List.mem_filterMap.1 hx
  split at hm
  · rename_i hval
    cases hm
    exact hval
  · cases hm

/-- a fold seeded with a neutral start value is the un-seeded fold -/
theorem foldl_neutral (f : V → V → V) (e : V) (vs : List V) (hne : vs ≠ [])
    (hneutral : ∀ x ∈ vs, f e x = x) :
    vs.foldl f e = (vs.tail).foldl f (vs.headD e) := by
  cases vs with
  | nil => exact absurd rfl hne
  | cons v rest =>
    simp only [List.foldl_cons, List.tail_cons, List.headD_cons]
    rw [hneutral v List.mem_cons_self]

theorem foldl_neutral_match (f : V → V → V) (e s : V) (vs : List V) (hne : vs ≠ [])
    (hneutral : ∀ x ∈ vs, f e x = x) :
    vs.foldl f e = (match (generalizing := false) vs with | [] => s | v :: rest => rest.foldl f v) := by
  cases vs with
  | nil => exact absurd rfl hne
  | cons v rest =>
    simp only [List.foldl_cons]
    rw [hneutral v List.mem_cons_self]

/-- contribution of the maps `ms` (numbered from `i`) to the cell of pixel `p`, as the loop of
    `_apply_operation` computes it -/
def cellFold (c : Cfg) (vc : VCfg V) (f : V → V → V) (fillFirst : Bool) (p : Nat) :
    List (State V) → Nat → V → V
  | [], _, x => x
  | m :: rest, i, x =>
    cellFold c vc f fillFirst p rest (i + 1)
      (if vc.valid (abs c vc m p) = true then
        (if (i == 0 && fillFirst) = true then abs c vc m p else f x (abs c vc m p))
       else x)

theorem cellFold_plain (c : Cfg) (vc : VCfg V) (f : V → V → V) (fillFirst : Bool) (p : Nat)
    (ms : List (State V)) (i : Nat) (x : V) (h : fillFirst = false ∨ 0 < i) :
    cellFold c vc f fillFirst p ms i x = (validInputs c vc ms p).foldl f x := by
  induction ms generalizing i x with
  | nil => rfl
  | cons m ms ih =>
    have hfirst : (i == 0 && fillFirst) = false := by
      rcases h with h | h
      · simp [h]
      · have : (i == 0) = false := by simp; omega
        simp [this]
    rw [cellFold, validInputs_cons, hfirst, ih _ _ (Or.inr (Nat.succ_pos i))]
    split
    · simp
    · rfl

theorem cellFold_first (c : Cfg) (vc : VCfg V) (f : V → V → V) (p : Nat)
    (m : State V) (ms : List (State V)) (x : V) (hm : vc.valid (abs c vc m p) = true) :
    cellFold c vc f true p (m :: ms) 0 x = (validInputs c vc ms p).foldl f (abs c vc m p) := by
  rw [cellFold, cellFold_plain _ _ _ _ _ _ _ _ (Or.inr (Nat.succ_pos 0))]
  simp [hm]

end spec

/-! ### one map: the scatter performed by `multiStep` -/

section step
variable {V : Type}

theorem denseFold_diag (g : V → Nat → V) (L : List Nat) (hnd : L.Nodup) (p : Nat) (x : V) :
    denseFold g (L.map fun q => (q, q)) p x = if p ∈ L then g x p else x := by
  induction L generalizing x with
  | nil => simp [denseFold]
  | cons q qs ih =>
    rw [List.nodup_cons] at hnd
    have hstep : denseFold g ((q :: qs).map fun q => (q, q)) p x =
        denseFold g (qs.map fun q => (q, q)) p (if q = p then g x q else x) := rfl
    rw [hstep, ih hnd.2]
    by_cases hq : q = p
    · subst hq
      simp [hnd.1]
    · have : ¬ p = q := fun h => hq h.symm
      simp [hq, this]

/-- the fold of `multiStep` over a list of (non-negative) pixel numbers, as two scatters -/
theorem multiStep_fold (c : Cfg) (vc : VCfg V) (covOut : Array Int) (f : V → V → V) (first : Bool)
    (m : State V) (cell : Nat → Nat)
    (hcell : ∀ q : Nat, cell q = (((q : Nat) : Int) + rd covOut (q >>> c.shift) 0).toNat)
    (L : List Nat) (acc : MultiAcc V) :
    (L.map fun q => ((q : Nat) : Int)).foldl (fun acc p =>
      let pn := p.toNat
      let idx := ((p : Int) + rd covOut (pn >>> c.shift) 0).toNat
      let v := abs c vc m pn
      ({ sp := acc.sp.modify idx (fun x => if first then v else f x v)
         touch := acc.touch.modify idx (· + 1) } : MultiAcc V)) acc =
    { sp := scatter (fun x q => if first then abs c vc m q else f x (abs c vc m q)) acc.sp
              ((L.map fun q => (q, q)).map fun pw => (cell pw.1, pw.2))
      touch := scatter (fun x (_ : Nat) => x + 1) acc.touch
              ((L.map fun q => (q, q)).map fun pw => (cell pw.1, pw.2)) } := by
  induction L generalizing acc with
  | nil => rfl
  | cons q qs ih =>
    simp only [List.map_cons, List.foldl_cons, scatter]
    rw [ih]
    simp only [Int.toNat_natCast, hcell, scatter]

variable [DecidableEq V] {c : Cfg} {vc : VCfg V}

theorem Inv.idxOf_inj {s : State V} (h : Inv c vc s) {p q : Nat} (hp : p < c.npix)
    (hq : q < c.npix) (hc : covered c s (p >>> c.shift) = true)
    (he : idxOf c s q = idxOf c s p) : q = p := by
  have hi := h.idxOf_covered hp hc
  cases hcq : covered c s (q >>> c.shift) with
  | true =>
    have hiq := h.idxOf_covered hq hcq
    exact (h.lookup_inj hp hq hc (by rw [hi.2.2, hiq.2.2, he])).symm
  | false =>
    have hiq := h.idxOf_uncovered hq hcq
    omega

/-- effect of one map on the accumulator, read at the cell of a pixel inside the combined
    coverage (`E` carries the output index; its storage is irrelevant) -/
theorem multiStep_spec (E : State V) (hE : Inv c vc E) (f : V → V → V) (first : Bool)
    (acc : MultiAcc V) (m : State V) (hm : Inv c vc m) (hv : vc.valid vc.sentinel = false)
    (hsz : acc.sp.size = E.sp.size) (hszt : acc.touch.size = E.sp.size) :
    ∃ acc', multiStep c vc E.cov f first acc m = some acc' ∧
      acc'.sp.size = E.sp.size ∧ acc'.touch.size = E.sp.size ∧
      ∀ p, p < c.npix → covered c E (p >>> c.shift) = true →
        (∀ d, rd acc'.sp (idxOf c E p) d =
          if vc.valid (abs c vc m p) = true then
            (if first = true then abs c vc m p else f (rd acc.sp (idxOf c E p) d) (abs c vc m p))
          else rd acc.sp (idxOf c E p) d) ∧
        rd acc'.touch (idxOf c E p) 0 =
          rd acc.touch (idxOf c E p) 0 + (if vc.valid (abs c vc m p) = true then 1 else 0) := by
  let L := (validCells vc m).map (pixOfCell c m)
  have hfold := multiStep_fold c vc E.cov f first m (idxOf c E) (fun q => rfl) L acc
  refine ⟨{ sp := scatter (fun x q => if first then abs c vc m q else f x (abs c vc m q)) acc.sp
              ((L.map fun q => (q, q)).map fun pw => (idxOf c E pw.1, pw.2))
            touch := scatter (fun x (_ : Nat) => x + 1) acc.touch
              ((L.map fun q => (q, q)).map fun pw => (idxOf c E pw.1, pw.2)) }, ?_, ?_, ?_, ?_⟩
  · unfold multiStep
    rw [hm.validPixels_eq hv, Option.map_some]
    exact congrArg some hfold
  · simp only [scatter_size, hsz]
  · simp only [scatter_size, hszt]
  · intro p hp hc
    have hi := hE.idxOf_covered hp hc
    have hinj : ∀ qw ∈ (L.map fun q => (q, q)), idxOf c E qw.1 = idxOf c E p → qw.1 = p := by
      intro qw hqw he
      obtain ⟨q, hq, rfl⟩ := List.mem_map.1 hqw
      exact hE.idxOf_inj hp ((hm.mem_validCells_map hv q).1 hq).1 hc he
    have hmem : p ∈ L ↔ vc.valid (abs c vc m p) = true := by
      rw [hm.mem_validCells_map hv p]
      exact ⟨fun h => h.2, fun h => ⟨hp, h⟩⟩
    have hnd : L.Nodup := hm.nodup_validCells_map hv
    constructor
    · intro d
      rw [scatter_rd_map _ acc.sp _ (idxOf c E) p d (by rw [hsz]; exact hi.2.1) hinj,
        denseFold_diag _ L hnd]
      simp only [hmem]
    · rw [scatter_rd_map _ acc.touch _ (idxOf c E) p 0 (by rw [hszt]; exact hi.2.1) hinj,
        denseFold_diag _ L hnd]
      simp only [hmem]
      split <;> rfl

/-- loop invariant of `multiLoop` -/
theorem multiLoop_spec (E : State V) (hE : Inv c vc E) (f : V → V → V) (fillFirst : Bool)
    (hv : vc.valid vc.sentinel = false) (ms : List (State V)) (hms : ∀ m ∈ ms, Inv c vc m)
    (i : Nat) (acc : MultiAcc V)
    (hsz : acc.sp.size = E.sp.size) (hszt : acc.touch.size = E.sp.size) :
    ∃ acc', multiLoop c vc E.cov f fillFirst ms i acc = some acc' ∧
      acc'.sp.size = E.sp.size ∧ acc'.touch.size = E.sp.size ∧
      ∀ p, p < c.npix → covered c E (p >>> c.shift) = true →
        (∀ d, rd acc'.sp (idxOf c E p) d =
          cellFold c vc f fillFirst p ms i (rd acc.sp (idxOf c E p) d)) ∧
        rd acc'.touch (idxOf c E p) 0 =
          rd acc.touch (idxOf c E p) 0 + (validInputs c vc ms p).length := by
  induction ms generalizing i acc with
  | nil => exact ⟨acc, rfl, hsz, hszt, fun p _ _ => ⟨fun d => rfl, rfl⟩⟩
  | cons m ms ih =>
    obtain ⟨acc1, h1, hsz1, hszt1, hp1⟩ :=
      multiStep_spec E hE f (i == 0 && fillFirst) acc m (hms m List.mem_cons_self) hv hsz hszt
    obtain ⟨acc2, h2, hsz2, hszt2, hp2⟩ :=
      ih (fun m' h' => hms m' (List.mem_cons_of_mem _ h')) (i + 1) acc1 hsz1 hszt1
    refine ⟨acc2, ?_, hsz2, hszt2, ?_⟩
    · rw [multiLoop, h1]; exact h2
    · intro p hp hc
      obtain ⟨ha, hb⟩ := hp1 p hp hc
      obtain ⟨ha2, hb2⟩ := hp2 p hp hc
      constructor
      · intro d
        rw [ha2 d, ha d, cellFold]
      · rw [hb2, hb, validInputs_cons]
        split <;> simp <;> omega

end step

/-! ### assembling `multiOp` -/

section assemble
variable {V : Type}

/-- the coverage pixels of the result (`np.where(combined_cov_mask)`) -/
def combCov (c : Cfg) (maps : List (State V)) (union : Bool) : List Nat :=
  (List.range c.ncov).filter fun k =>
    if union then maps.any (fun m => covered c m k) else maps.all (fun m => covered c m k)

/-- the write-back of the sentinel and the overflow reset -/
def multiFinish (c : Cfg) (vc : VCfg V) (union : Bool) (n : Nat) (acc : MultiAcc V) : Array V :=
  (acc.sp.mapIdx fun i x =>
      if union then (if rd acc.touch i 0 == 0 then vc.sentinel else x)
      else (if rd acc.touch i 0 != n then vc.sentinel else x)).mapIdx
    fun i x => if i < c.nfine then vc.sentinel else x

theorem multiOp_eq (c : Cfg) (vc : VCfg V) (maps : List (State V)) (f : V → V → V) (filler : V)
    (union fillFirst : Bool) :
    multiOp c vc maps f filler union fillFirst =
      if (combCov c maps union).isEmpty = true then some (makeEmpty c vc [])
      else
        (multiLoop c vc (makeEmpty c vc (combCov c maps union)).cov f fillFirst maps 0
          ⟨Array.replicate (((combCov c maps union).length + 1) * c.nfine) filler,
           Array.replicate (((combCov c maps union).length + 1) * c.nfine) 0⟩).map fun acc =>
          { cov := (makeEmpty c vc (combCov c maps union)).cov
            sp := multiFinish c vc union maps.length acc } := rfl

theorem mem_combCov (c : Cfg) (maps : List (State V)) (union : Bool) (k : Nat) :
    k ∈ combCov c maps union ↔ k < c.ncov ∧
      (if union then maps.any (fun m => covered c m k) else maps.all (fun m => covered c m k)) = true := by
  simp [combCov]

theorem nodup_combCov (c : Cfg) (maps : List (State V)) (union : Bool) :
    (combCov c maps union).Nodup := List.filter_sublist.nodup List.nodup_range

theorem multiFinish_size (c : Cfg) (vc : VCfg V) (union : Bool) (n : Nat) (acc : MultiAcc V) :
    (multiFinish c vc union n acc).size = acc.sp.size := by
  simp [multiFinish]

theorem multiFinish_getElem? (c : Cfg) (vc : VCfg V) (union : Bool) (n : Nat) (acc : MultiAcc V)
    (j : Nat) (hj : j < acc.sp.size) :
    (multiFinish c vc union n acc)[j]? = some (
      if j < c.nfine then vc.sentinel
      else if union then (if rd acc.touch j 0 == 0 then vc.sentinel else acc.sp[j])
      else (if rd acc.touch j 0 != n then vc.sentinel else acc.sp[j])) := by
  simp [multiFinish, hj]

theorem covered_makeEmpty (c : Cfg) (vc : VCfg V) (P : List Nat) (hnd : P.Nodup) (k : Nat)
    (hk : k < c.ncov) : covered c (makeEmpty c vc P) k = decide (k ∈ P) := by
  by_cases hm : k ∈ P
  · obtain ⟨t, ht⟩ := List.getElem?_of_mem hm
    have : covered c (makeEmpty c vc P) k = true := by
      rw [covered_eq_true_iff, makeEmpty_blockStart_mem c vc P k t hk hnd ht]
      exact_mod_cast le_succ_mul _ _
    simp [this, hm]
  · have : covered c (makeEmpty c vc P) k = false := by
      rw [covered_eq_false_iff, makeEmpty_blockStart_not_mem c vc P k hk hm]
      exact_mod_cast c.nfine_pos
    simp [this, hm]

variable [DecidableEq V]

/-- outside the combined coverage the specification prescribes the sentinel -/
theorem denseMulti_uncovered (c : Cfg) (vc : VCfg V) (maps : List (State V)) (f : V → V → V)
    (filler : V) (union fillFirst : Bool) (hInv : ∀ m ∈ maps, Inv c vc m)
    (hv : vc.valid vc.sentinel = false) (p : Nat) (hp : p < c.npix)
    (hnc : (if union then maps.any (fun m => covered c m (p >>> c.shift))
            else maps.all (fun m => covered c m (p >>> c.shift))) = false) :
    denseMulti c vc maps f filler union fillFirst p = vc.sentinel := by
  have hinval : ∀ m ∈ maps, covered c m (p >>> c.shift) = false → vc.valid (abs c vc m p) = false := by
    intro m hm hc
    rw [(hInv m hm).abs_uncovered hp hc]; exact hv
  unfold denseMulti
  cases union with
  | true =>
    simp only [if_true] at hnc ⊢
    have : validInputs c vc maps p = [] := by
      rw [validInputs_eq_nil_iff]
      intro m hm
      apply hinval m hm
      cases hc : covered c m (p >>> c.shift) with
      | false => rfl
      | true =>
        have : maps.any (fun m => covered c m (p >>> c.shift)) = true :=
          List.any_eq_true.2 ⟨m, hm, hc⟩
        rw [this] at hnc; cases hnc
    simp [this]
  | false =>
    simp only [Bool.false_eq_true, if_false] at hnc ⊢
    rw [if_neg]
    rw [validInputs_length_eq_iff]
    intro hall
    have : maps.all (fun m => covered c m (p >>> c.shift)) = true := by
      rw [List.all_eq_true]
      intro m hm
      cases hc : covered c m (p >>> c.shift) with
      | true => rfl
      | false =>
        have := hinval m hm hc
        rw [hall m hm] at this; cases this
    rw [this] at hnc; cases hnc

omit [DecidableEq V] in
/-- the specification in terms of the per-cell loop -/
theorem denseMulti_eq_cellFold (c : Cfg) (vc : VCfg V) (maps : List (State V)) (f : V → V → V)
    (filler : V) (union fillFirst : Bool) (hne : maps ≠ [])
    (hff : fillFirst = true → union = false) (p : Nat) :
    denseMulti c vc maps f filler union fillFirst p =
      if union = true then
        (if ((validInputs c vc maps p).length == 0) = true then vc.sentinel
         else cellFold c vc f fillFirst p maps 0 filler)
      else
        (if ((validInputs c vc maps p).length != maps.length) = true then vc.sentinel
         else cellFold c vc f fillFirst p maps 0 filler) := by
  unfold denseMulti
  cases union with
  | true =>
    have hf : fillFirst = false := by
      cases fillFirst with
      | false => rfl
      | true => exact absurd (hff rfl) (by decide)
    subst hf
    rw [cellFold_plain _ _ _ _ _ _ _ _ (Or.inl rfl)]
    cases validInputs c vc maps p <;> simp
  | false =>
    simp only [Bool.false_eq_true, if_false]
    by_cases hlen : (validInputs c vc maps p).length = maps.length
    · have hne' : ((validInputs c vc maps p).length != maps.length) = false := by simp [hlen]
      rw [if_pos hlen, hne']
      simp only [Bool.false_eq_true, if_false]
      cases fillFirst with
      | false =>
        simp only [Bool.false_eq_true, if_false]
        rw [cellFold_plain _ _ _ _ _ _ _ _ (Or.inl rfl)]
      | true =>
        simp only [if_true]
        cases maps with
        | nil => exact absurd rfl hne
        | cons m ms =>
          have hm : vc.valid (abs c vc m p) = true :=
            (validInputs_length_eq_iff c vc _ p).1 hlen m List.mem_cons_self
          rw [cellFold_first _ _ _ _ _ _ _ hm, validInputs_cons, if_pos hm]
    · have hne' : ((validInputs c vc maps p).length != maps.length) = true := by simp [hlen]
      rw [if_neg hlen, hne']
      simp

/-- **refinement of `_apply_operation`** (statement of `C06.multiOp_spec`) -/
theorem multiOp_spec' (c : Cfg) (vc : VCfg V) (maps : List (State V)) (f : V → V → V) (filler : V)
    (union fillFirst : Bool) (hInv : ∀ m ∈ maps, Inv c vc m) (hv : vc.valid vc.sentinel = false)
    (hne : maps ≠ []) (hff : fillFirst = true → union = false) :
    ∃ r, multiOp c vc maps f filler union fillFirst = some r ∧ Inv c vc r ∧
      (∀ p, p < c.npix → abs c vc r p = denseMulti c vc maps f filler union fillFirst p) ∧
      (∀ k, k < c.ncov → covered c r k =
          if union then maps.any (fun m => covered c m k) else maps.all (fun m => covered c m k)) := by
  rw [multiOp_eq]
  have hnd := nodup_combCov c maps union
  have hlt : ∀ k ∈ combCov c maps union, k < c.ncov := fun k hk => ((mem_combCov c maps union k).1 hk).1
  have hcovE : ∀ k, k < c.ncov → covered c (makeEmpty c vc (combCov c maps union)) k =
      if union then maps.any (fun m => covered c m k) else maps.all (fun m => covered c m k) := by
    intro k hk
    rw [covered_makeEmpty c vc _ hnd k hk, Bool.eq_iff_iff, decide_eq_true_iff, mem_combCov]
    exact ⟨fun h => h.2, fun h => ⟨hk, h⟩⟩
  by_cases hemp : (combCov c maps union).isEmpty = true
  · rw [if_pos hemp]
    have hnil : combCov c maps union = [] := List.isEmpty_iff.1 hemp
    rw [hnil] at hcovE
    refine ⟨_, rfl, inv_makeEmpty' c vc [] List.nodup_nil (by simp), ?_, ?_⟩
    · intro p hp
      rw [makeEmpty_abs']
      symm
      apply denseMulti_uncovered c vc maps f filler union fillFirst hInv hv p hp
      rw [← hcovE _ (covpix_lt c p hp), covered_makeEmpty c vc [] List.nodup_nil _ (covpix_lt c p hp)]
      simp
    · intro k hk
      exact hcovE k hk
  · rw [if_neg hemp]
    generalize hP : combCov c maps union = P at *
    have hE : Inv c vc (makeEmpty c vc P) := inv_makeEmpty' c vc P hnd hlt
    have hEsz : (makeEmpty c vc P).sp.size = (P.length + 1) * c.nfine := by simp [makeEmpty]
    obtain ⟨acc, hloop, hsz, hszt, hcells⟩ := multiLoop_spec (makeEmpty c vc P) hE f fillFirst hv
      maps hInv 0
      ⟨Array.replicate ((P.length + 1) * c.nfine) filler, Array.replicate ((P.length + 1) * c.nfine) 0⟩
      (by simp [hEsz]) (by simp [hEsz])
    have hr : Inv c vc ⟨(makeEmpty c vc P).cov, multiFinish c vc union maps.length acc⟩ := by
      refine inv_of_cov_eq hE rfl (by rw [multiFinish_size, hsz]) ?_
      intro i hi
      have hi' : i < acc.sp.size := by rw [hsz]; exact Nat.lt_of_lt_of_le hi hE.nfine_le_size
      rw [multiFinish_getElem? c vc union _ acc i hi', if_pos hi]
    refine ⟨⟨(makeEmpty c vc P).cov, multiFinish c vc union maps.length acc⟩, ?_, hr, ?_, ?_⟩
    · rw [hloop]; rfl
    · intro p hp
      have hk := covpix_lt c p hp
      cases hc : covered c (makeEmpty c vc P) (p >>> c.shift) with
      | false =>
        rw [hr.abs_uncovered hp hc]
        symm
        apply denseMulti_uncovered c vc maps f filler union fillFirst hInv hv p hp
        rw [← hcovE _ hk, hc]
      | true =>
        obtain ⟨hi1, hi2, _⟩ := hE.idxOf_covered hp hc
        obtain ⟨hsp, htouch⟩ := hcells p hp hc
        have hj : idxOf c (makeEmpty c vc P) p < acc.sp.size := by rw [hsz]; exact hi2
        have habs : abs c vc ⟨(makeEmpty c vc P).cov, multiFinish c vc union maps.length acc⟩ p =
            rd (multiFinish c vc union maps.length acc) (idxOf c (makeEmpty c vc P) p) vc.sentinel := rfl
        rw [habs, denseMulti_eq_cellFold c vc maps f filler union fillFirst hne hff p]
        unfold rd at htouch hsp ⊢
        rw [multiFinish_getElem? c vc union _ acc _ hj, if_neg (by omega)]
        have hsp' := hsp vc.sentinel
        have hinit : (Array.replicate ((P.length + 1) * c.nfine) filler)[idxOf c (makeEmpty c vc P) p]?
            = some filler := by
          rw [Array.getElem?_replicate, if_pos (by rw [← hEsz]; exact hi2)]
        have hinit0 : (Array.replicate ((P.length + 1) * c.nfine) 0)[idxOf c (makeEmpty c vc P) p]?
            = some 0 := by
          rw [Array.getElem?_replicate, if_pos (by rw [← hEsz]; exact hi2)]
        simp only [hinit, hinit0, Option.getD_some, Nat.zero_add] at hsp' htouch
        rw [Array.getElem?_eq_getElem hj, Option.getD_some] at hsp'
        have htouch' : rd acc.touch (idxOf c (makeEmpty c vc P) p) 0 =
            (validInputs c vc maps p).length := htouch
        simp only [Option.getD_some, htouch', hsp']
    · intro k hk
      exact hcovE k hk

end assemble

end HS
