"""C10 — maps with equal content are interchangeable, however they were produced."""
import gen

PID = 'C10'
RULE = ("twin routes: a target content (random pixels/values) is built canonically (make_empty + ascending "
        "assignment) as map x and by a second route as map y — shuffled growth order, cov_pixels pre-allocation plus "
        "clears, copy, astype round trip, scalar-operator identity (+0 / *1), invert twice, get_single_covpix_map of a "
        "one-coverage-pixel content, degrade to the same nside, write + read (full and by pixels), union with an empty map, MOC "
        "round trip for boolean content; then ONE continuation (coverage-growing updates, range updates, "
        "operators, degrade with weights, multi-map operation, queries) runs on both; every observation of x and y "
        "must equal the single Lean model stream (so x and y agree with each other, and raise on the same calls); "
        "non-trivial = the second route is not the canonical one and the continuation grows the coverage")
ASSUMPTIONS = []


def histories(rng, tier):
    n = 350 if tier == 'quick' else 3000
    out = []
    for _ in range(n):
        c = gen.rand_cfg(rng, max_npix=768, name='x', min_delta=0)
        c.covpix = []
        focus = rng.sample(range(c.ncov), min(c.ncov, rng.randint(1, 4)))
        pix = sorted(set(gen.rand_pixels(rng, c, n=rng.choice([3, 6, 10]), focus=focus)))
        if not pix:
            pix = [0]
        vals = [c.val(rng) for _ in pix]
        h = [c.line(), 'upd x op=replace pix=%s vals=%s' % (','.join(map(str, pix)), ','.join(vals))]
        y = gen.MapCfg('y', c.kind, c.covord, c.spord, dtype=c.dtype, sentinel=c.sentinel, maxbits=c.maxbits,
                       fields=c.fields, primary=c.primary)
        routes = ['shuffled', 'prealloc', 'copy', 'emptyblock', 'emptyblock', 'file', 'file', 'file_partial']
        if c.kind == 'wide' or (c.is_int and c.zero_sentinel()):
            routes += ['deg_or_same']
        if c.is_int or c.is_flt:
            routes += ['sop_identity', 'astype_rt', 'union_empty']
        if c.is_bool:
            routes += ['inv_twice']
        if c.kind != 'packed' and c.kind != 'wide':
            routes += ['degsame']
        route = rng.choice(routes)
        if route == 'shuffled':
            order = list(range(len(pix)))
            rng.shuffle(order)
            h.append(y.line())
            for ch in (order[0::2], order[1::2]):
                if ch:
                    h.append('upd y op=replace pix=%s vals=%s' % (','.join(str(pix[i]) for i in ch),
                                                                  ','.join(vals[i] for i in ch)))
        elif route == 'prealloc':
            # pre-allocate exactly the needed coverage pixels in shuffled order, plus a transient pixel then cleared
            need = sorted(set(p // c.nfine for p in pix))
            rng.shuffle(need)
            if rng.random() < 0.35:
                need = need + [rng.choice(need)]        # a coverage pixel named twice: still one block
            y.covpix = need
            h.append(y.line())
            h.append('upd y op=replace pix=%s vals=%s' % (','.join(map(str, pix)), ','.join(vals)))
        elif route == 'emptyblock':
            # same update calls in the same order, but an extra allocated-and-empty coverage pixel (pre-allocated,
            # or filled and then cleared) so that storage layouts differ while listing orders agree
            used = set(p // c.nfine for p in pix)
            free = [k for k in range(c.ncov) if k not in used]
            if free and rng.random() < 0.5:
                y.covpix = [rng.choice(free)]
                h.append(y.line())
            elif free:
                h.append(y.line())
                k = rng.choice(free)
                h.append('upd y op=replace pix=%d val=%s' % (k * c.nfine, c.val(rng)))
                h.append('upd y op=replace none=1 pix=%d' % (k * c.nfine))
            else:
                h.append(y.line())
            h.append('upd y op=replace pix=%s vals=%s' % (','.join(map(str, pix)), ','.join(vals)))
        elif route == 'copy':
            h.append('copy x r=y')
        elif route == 'file':
            # read back from a file: storage that does not own its buffer, on-disk byte order
            h += ['write x f=fx compress=%s' % rng.choice('01'), 'read r=y f=fx']
        elif route == 'file_partial':
            cov = sorted(set(p // c.nfine for p in pix))
            extra = [k for k in rng.sample(range(c.ncov), min(c.ncov, 2)) if k not in cov]
            req = cov + extra
            rng.shuffle(req)
            h += ['write x f=fx compress=%s' % rng.choice('01'), 'read r=y f=fx pixels=%s' % ','.join(map(str, req))]
        elif route == 'deg_or_same':
            # (integer / wide-mask `or` degrade to the same nside keeps the zero sentinel: a ravelled view)
            h += ['deg x r=y ord=%d red=or' % c.spord]
        elif route == 'sop_identity':
            h.append('sop x op=%s k=%s ktype=int r=y' % (rng.choice([('add', '0'), ('mul', '1')])))
            h[-1] = h[-1]  # noqa
        elif route == 'astype_rt':
            wide = 'f8' if c.is_flt else 'i8'
            h += ['astype x r=t dtype=%s sentinel=%s' % (wide, c.sentinel if c.sentinel != 'default' else 'default'),
                  'astype t r=y dtype=%s sentinel=%s' % (c.dtype, c.sentinel)]
        elif route == 'union_empty':
            e = gen.MapCfg('e', c.kind, c.covord, c.spord, dtype=c.dtype, sentinel=c.sentinel)
            h += [e.line(), 'mop r=y name=sum_union maps=x,e']
        elif route == 'inv_twice':
            h += ['inv x r=t', 'inv t r=y']
        elif route == 'degsame':
            h += ['deg x r=y ord=%d red=mean' % c.spord]
        h += ['info x', 'info y', 'vals x', 'vals y', 'covmask x', 'covmask y']
        wc = gen.MapCfg('wc', 'plain', c.covord, c.spord, dtype='f8')
        h += [wc.line(), 'upd wc op=replace pix=%s vals=%s' % (
            ','.join(map(str, pix)), ','.join(rng.choice(['1', '2', '3', '1^1']) for _ in pix))]
        # one continuation on both
        cont = []
        if (c.is_flt or c.is_int) and rng.random() < 0.4:
            cont += ['deg x r=dx ord=%d red=wmean w=wc' % rng.randint(max(0, c.covord - 1), c.spord), 'vals dx']
        for _ in range(rng.randint(2, 6)):
            r = rng.random()
            if r < 0.4:
                cont.append(gen.upd_line(rng, c, focus=rng.sample(range(c.ncov), min(c.ncov, 3))))
            elif r < 0.48:
                # one long row across many coverage pixels on the range path: the result must not depend on the
                # ORDER of the storage blocks it crosses (seeded change C10g)
                k0 = rng.randrange(max(1, c.ncov - 4))
                k1 = min(c.ncov, k0 + rng.randint(3, 6))
                lo = k0 * c.nfine + rng.randrange(c.nfine)
                hi = min(c.npix, (k1 - 1) * c.nfine + rng.randint(1, c.nfine))
                op = rng.choice(c.ops())
                cont.append('updr x op=%s ranges=%d:%d val=%s path=slice' % (op, lo, hi, c.val(rng)))
            elif r < 0.55:
                cont.append(gen.updr_line(rng, c))
            elif r < 0.7 and (c.is_int or c.is_flt or c.kind == 'wide'):
                cont.append(gen.scalar_op_line(rng, c, inplace=True))
            elif r < 0.8 and c.is_bool:
                cont.append('inv x inplace=1')
            elif r < 0.86 and (c.is_flt or c.is_int):
                # weighted degrade: the weight map is derived from the map itself (same valid set)
                if rng.random() < 0.5:
                    cont.append('astype x r=wx dtype=f8')
                    cont.append('deg x r=dx ord=%d red=wmean w=wx' % rng.randint(max(0, c.covord - 1), c.spord))
                else:
                    # the SAME canonical weight map for both twins (valid sets agree while the content is unchanged;
                    # otherwise both calls are rejected alike)
                    cont.append('deg x r=dx ord=%d red=wmean w=wc' % rng.randint(max(0, c.covord - 1), c.spord))
                cont.append('vals dx')
            elif r < 0.9 and c.kind not in ('packed',):
                o = rng.randint(c.covord, c.spord)
                red = 'or' if c.kind == 'wide' else rng.choice(['mean', 'max', 'sum'])
                cont.append('deg x r=dx ord=%d red=%s' % (o, red))
                cont.append('vals dx')
            else:
                cont.append('fracdet x r=dx ord=%d' % rng.randint(c.covord, c.spord))
                cont.append('vals dx')
            cont += ['vals x', 'valid x', 'nvalid x', 'covmap x', 'state x']
        h += cont
        h += [ln.replace(' x ', ' y ', 1).replace('=dx', '=dy').replace(' dx', ' dy').replace('=wx', '=wy')
              if not ln.endswith(' x')
              else ln[:-1] + 'y' for ln in cont]
        out.append(h)
    return out


def nontrivial(h):
    return sum(1 for ln in h if ln.startswith('upd y') or ln.startswith('updr y')) >= 1
