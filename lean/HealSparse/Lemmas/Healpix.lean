/-
  Helper lemmas for the HEALPix interchange (`convertHealpix`, `generateHealpix`,
  `generateHealpixRing`, `reorderRingToNest`, `interpContrib`).  The property theorems in
  HealSparse/Props/C16.lean are thin wrappers.
-/
import HealSparse.Lemmas.Core
import HealSparse.Lemmas.Coverage
import HealSparse.Lemmas.Valid
import HealSparse.Model.Healpix
namespace HS
variable {V W : Type}

/-! ### a fold of point writes at pairwise distinct positions -/

theorem foldl_setAt {α ι : Type} (L : List ι) (pos : ι → Nat) (val : ι → α) (A0 : Array α)
    (hnd : L.Nodup) (hinj : ∀ a ∈ L, ∀ b ∈ L, pos a = pos b → a = b) :
    (L.foldl (fun a p => a.setIfInBounds (pos p) (val p)) A0).size = A0.size ∧
    (∀ a ∈ L, pos a < A0.size →
      (L.foldl (fun a p => a.setIfInBounds (pos p) (val p)) A0)[pos a]? = some (val a)) ∧
    (∀ j, (∀ a ∈ L, pos a ≠ j) →
      (L.foldl (fun a p => a.setIfInBounds (pos p) (val p)) A0)[j]? = A0[j]?) := by
  have e : L.foldl (fun a p => a.setIfInBounds (pos p) (val p)) A0
      = (L.map fun p => (pos p, p)).foldl
          (fun a (kv : Nat × ι) => a.setIfInBounds kv.1 (val kv.2)) A0 := by
    rw [List.foldl_map]
  rw [e]
  refine ⟨foldl_set_size (fun kv : Nat × ι => val kv.2) _ _, ?_, ?_⟩
  · intro a ha hlt
    have hnd' : ((L.map fun p => (pos p, p)).map (·.1)).Nodup := by
      rw [List.map_map]
      exact nodup_map_of_inj_on hnd hinj
    exact foldl_set_of_mem (fun kv : Nat × ι => val kv.2) _ A0 hnd' (pos a, a)
      (List.mem_map.2 ⟨a, ha, rfl⟩) hlt
  · intro j hj
    apply foldl_set_of_not_mem (fun kv : Nat × ι => val kv.2)
    intro kv hkv
    obtain ⟨a, ha, rfl⟩ := List.mem_map.1 hkv
    exact hj a ha

/-! ### from HEALPix -/

/-- the selected pixels of a dense array, ascending -/
def selPix (vc : VCfg V) (hp : Array V) (sel : V → Bool) : List Nat :=
  (List.range hp.size).filter fun p => sel (rd hp p vc.sentinel)

/-- the coverage pixels holding one of `ip`, ascending -/
def selCov (c : Cfg) (ip : List Nat) : List Nat :=
  (List.range c.ncov).filter fun k => ip.any fun p => p >>> c.shift == k

theorem mem_selPix (vc : VCfg V) (hp : Array V) (sel : V → Bool) (p : Nat) :
    p ∈ selPix vc hp sel ↔ p < hp.size ∧ sel (rd hp p vc.sentinel) = true := by
  simp [selPix]

theorem mem_selCov (c : Cfg) (ip : List Nat) (k : Nat) :
    k ∈ selCov c ip ↔ k < c.ncov ∧ ∃ p ∈ ip, p >>> c.shift = k := by
  simp [selCov]

theorem nodup_selCov (c : Cfg) (ip : List Nat) : (selCov c ip).Nodup :=
  List.filter_sublist.nodup List.nodup_range

theorem convertHealpix_eq (c : Cfg) (vc : VCfg V) (hp : Array V) (sel : V → Bool) :
    convertHealpix c vc hp sel =
      withScatter c (makeEmpty c vc (selCov c (selPix vc hp sel))) (fun _ (w : V) => w)
        ((selPix vc hp sel).map fun p => (p, rd hp p vc.sentinel)) := by
  simp only [convertHealpix, withScatter, makeEmpty, selPix, selCov, List.map_map]
  rfl

/-- coverage mask of `makeEmpty` -/
theorem makeEmpty_covered (c : Cfg) (vc : VCfg V) (P : List Nat) (hnd : P.Nodup) (k : Nat)
    (hk : k < c.ncov) : covered c (makeEmpty c vc P) k = decide (k ∈ P) := by
  by_cases hm : k ∈ P
  · obtain ⟨t, ht⟩ := List.getElem?_of_mem hm
    have hb := makeEmpty_blockStart_mem c vc P k t hk hnd ht
    have : covered c (makeEmpty c vc P) k = true := by
      rw [covered_eq_true_iff, hb]
      exact_mod_cast le_succ_mul _ _
    simp [this, hm]
  · have hb := makeEmpty_blockStart_not_mem c vc P k hk hm
    have : covered c (makeEmpty c vc P) k = false := by
      rw [covered_eq_false_iff, hb]
      exact_mod_cast c.nfine_pos
    simp [this, hm]

/-- dense view of a fancy assignment `a[L] = f(L)` -/
theorem denseFold_assign (L : List Nat) (f : Nat → V) (p : Nat) (x : V) :
    denseFold (fun _ (w : V) => w) (L.map fun q => (q, f q)) p x = if p ∈ L then f p else x := by
  unfold denseFold
  induction L generalizing x with
  | nil => simp
  | cons q qs ih =>
    simp only [List.map_cons, List.foldl_cons, List.mem_cons]
    rw [ih]
    by_cases hq : q = p
    · subst hq; simp
    · have : ¬ p = q := fun h => hq h.symm
      simp [hq, this]

section convert
variable [DecidableEq V]

theorem convertHealpix_spec' (c : Cfg) (vc : VCfg V) (hp : Array V) (sel : V → Bool)
    (hsz : hp.size = c.npix) :
    Inv c vc (convertHealpix c vc hp sel) ∧
    (∀ p, p < c.npix → abs c vc (convertHealpix c vc hp sel) p
        = if sel (rd hp p vc.sentinel) then rd hp p vc.sentinel else vc.sentinel) ∧
    (∀ k, k < c.ncov → covered c (convertHealpix c vc hp sel) k
        = (List.range c.npix).any fun p => sel (rd hp p vc.sentinel) && p >>> c.shift == k) := by
  rw [convertHealpix_eq]
  generalize hip : selPix vc hp sel = ip
  have hmem : ∀ p, p ∈ ip ↔ p < c.npix ∧ sel (rd hp p vc.sentinel) = true := by
    intro p; rw [← hip, mem_selPix, hsz]
  have hnd := nodup_selCov c ip
  have hinv0 : Inv c vc (makeEmpty c vc (selCov c ip)) :=
    inv_makeEmpty' c vc _ hnd (fun k hk => ((mem_selCov c ip k).1 hk).1)
  have hM : ∀ qw ∈ ip.map (fun p => (p, rd hp p vc.sentinel)),
      qw.1 < c.npix ∧ covered c (makeEmpty c vc (selCov c ip)) (qw.1 >>> c.shift) = true := by
    intro qw hqw
    obtain ⟨p, hp', rfl⟩ := List.mem_map.1 hqw
    have hlt := ((hmem p).1 hp').1
    refine ⟨hlt, ?_⟩
    rw [makeEmpty_covered c vc _ hnd _ (covpix_lt c p hlt)]
    simp only [decide_eq_true_eq]
    exact (mem_selCov c ip _).2 ⟨covpix_lt c p hlt, p, hp', rfl⟩
  refine ⟨inv_withScatter c vc _ _ _ hinv0 hM, ?_, ?_⟩
  · intro p hp'
    rw [abs_withScatter c vc _ _ _ hinv0 hM p hp', makeEmpty_abs', denseFold_assign]
    by_cases hs : sel (rd hp p vc.sentinel) = true
    · have hin : p ∈ ip := (hmem p).2 ⟨hp', hs⟩
      have hc := (hM _ (List.mem_map.2 ⟨p, hin, rfl⟩)).2
      simp only at hc
      rw [if_pos hc, if_pos hin, if_pos hs]
    · have hin : p ∉ ip := fun h => hs ((hmem p).1 h).2
      rw [if_neg hin, if_neg hs]
      split <;> rfl
  · intro k hk
    rw [withScatter_covered, makeEmpty_covered c vc _ hnd k hk, Bool.eq_iff_iff]
    simp only [decide_eq_true_eq, mem_selCov, List.any_eq_true, List.mem_range, Bool.and_eq_true,
      beq_iff_eq]
    constructor
    · rintro ⟨_, p, hp', rfl⟩
      exact ⟨p, ((hmem p).1 hp').1, ((hmem p).1 hp').2, rfl⟩
    · rintro ⟨p, hlt, hs, rfl⟩
      exact ⟨hk, p, (hmem p).2 ⟨hlt, hs⟩, rfl⟩

end convert

/-! ### to HEALPix -/

section generate
variable [DecidableEq V] {c : Cfg} {vc : VCfg V} {s : State V}

theorem Inv.generateHealpixRing_spec' (h : Inv c vc s) (hv : vc.valid vc.sentinel = false)
    (fill : W) (conv : V → W) (n2r r2n : Nat → Nat)
    (hinv1 : ∀ p, p < c.npix → r2n (n2r p) = p) (hinv2 : ∀ r, r < c.npix → n2r (r2n r) = r)
    (_hr1 : ∀ p, p < c.npix → n2r p < c.npix) (hr2 : ∀ r, r < c.npix → r2n r < c.npix) :
    ∃ a, generateHealpixRing c vc s fill conv n2r r2n = some a ∧ a.size = c.npix ∧
      ∀ r, r < c.npix → rd a r fill
        = if vc.valid (abs c vc s (r2n r)) then conv (abs c vc s (r2n r)) else fill := by
  unfold generateHealpixRing
  rw [h.validPixels_eq hv]
  simp only [Option.map_some]
  generalize hL : (validCells vc s).map (pixOfCell c s) = L
  have hmem : ∀ p, p ∈ L ↔ p < c.npix ∧ vc.valid (abs c vc s p) = true := by
    intro p; rw [← hL]; exact h.mem_validCells_map hv p
  have hnd : L.Nodup := by rw [← hL]; exact h.nodup_validCells_map hv
  have e : (L.map fun p => ((p : Nat) : Int)).foldl
        (fun a p => a.setIfInBounds (n2r p.toNat) (conv (abs c vc s (r2n (n2r p.toNat)))))
        (Array.replicate c.npix fill)
      = L.foldl (fun a p => a.setIfInBounds (n2r p) (conv (abs c vc s (r2n (n2r p)))))
        (Array.replicate c.npix fill) := by
    rw [List.foldl_map]
    simp only [Int.toNat_natCast]
  rw [e]
  have hinj : ∀ a ∈ L, ∀ b ∈ L, n2r a = n2r b → a = b := by
    intro a ha b hb he
    rw [← hinv1 a ((hmem a).1 ha).1, ← hinv1 b ((hmem b).1 hb).1, he]
  obtain ⟨hsz, hin, hout⟩ := foldl_setAt L n2r (fun p => conv (abs c vc s (r2n (n2r p))))
    (Array.replicate c.npix fill) hnd hinj
  refine ⟨_, rfl, by simpa using hsz, ?_⟩
  intro r hr
  cases hval : vc.valid (abs c vc s (r2n r)) with
  | true =>
    have hm : r2n r ∈ L := (hmem _).2 ⟨hr2 r hr, hval⟩
    have := hin _ hm (by simpa [hinv2 r hr] using hr)
    simp only [hinv2 r hr] at this
    unfold rd
    rw [this]
    rfl
  | false =>
    have := hout r (by
      intro a ha he
      have ha' := (hmem a).1 ha
      have : r2n r = a := by rw [← he, hinv1 a ha'.1]
      rw [this, ha'.2] at hval
      exact Bool.noConfusion hval)
    unfold rd
    rw [this, Array.getElem?_replicate, if_pos hr]
    rfl

theorem Inv.generateHealpix_spec' (h : Inv c vc s) (hv : vc.valid vc.sentinel = false)
    (fill : W) (conv : V → W) :
    ∃ a, generateHealpix c vc s fill conv = some a ∧ a.size = c.npix ∧
      ∀ p, p < c.npix → rd a p fill
        = if vc.valid (abs c vc s p) then conv (abs c vc s p) else fill :=
  h.generateHealpixRing_spec' hv fill conv id id (fun _ _ => rfl) (fun _ _ => rfl)
    (fun _ hp => hp) (fun _ hp => hp)

end generate

/-! ### RING import -/

theorem reorderRingToNest_spec (r2n n2r : Nat → Nat) (ring : Array V) (dflt : V)
    (hinv : ∀ i, i < ring.size → n2r (r2n i) = i) (hinv2 : ∀ p, p < ring.size → r2n (n2r p) = p)
    (hn : ∀ p, p < ring.size → n2r p < ring.size)
    (p : Nat) (hp : p < ring.size) :
    rd (reorderRingToNest r2n ring dflt) p dflt = rd ring (n2r p) dflt := by
  unfold reorderRingToNest
  have hinj : ∀ a ∈ List.range ring.size, ∀ b ∈ List.range ring.size, r2n a = r2n b → a = b := by
    intro a ha b hb he
    rw [← hinv a (List.mem_range.1 ha), ← hinv b (List.mem_range.1 hb), he]
  obtain ⟨_, hin, _⟩ := foldl_setAt (List.range ring.size) r2n (fun i => rd ring i dflt)
    (Array.replicate ring.size dflt) List.nodup_range hinj
  have := hin (n2r p) (List.mem_range.2 (hn p hp)) (by simpa [hinv2 p hp] using hp)
  simp only [hinv2 p hp] at this
  unfold rd at this ⊢
  rw [this]
  rfl

/-! ### interpolation validity rule -/

theorem interpContrib_rule (vc : VCfg V) (nbrs : List (V × W)) (allowPartial : Bool) :
    (interpContrib vc nbrs allowPartial = none ↔
      (allowPartial = false ∧ ∃ vw ∈ nbrs, vc.valid vw.1 = false) ∨
      (allowPartial = true ∧ ∀ vw ∈ nbrs, vc.valid vw.1 = false)) ∧
    (∀ l, interpContrib vc nbrs allowPartial = some l → l = nbrs.filter fun vw => vc.valid vw.1) := by
  unfold interpContrib
  cases allowPartial with
  | false =>
    simp only [Bool.false_eq_true, if_false, true_and, false_and, or_false]
    by_cases hall : ∀ vw ∈ nbrs, vc.valid vw.1 = true
    · have hlen : (nbrs.filter fun vw => vc.valid vw.1).length = nbrs.length :=
        List.length_filter_eq_length_iff.2 hall
      rw [if_pos hlen]
      refine ⟨⟨fun h => (by cases h), ?_⟩, ?_⟩
      · rintro ⟨vw, hvw, hf⟩
        rw [hall vw hvw] at hf
        cases hf
      · intro l hl
        cases hl
        exact (List.filter_eq_self.2 hall).symm
    · have hlen : ¬ (nbrs.filter fun vw => vc.valid vw.1).length = nbrs.length :=
        fun h => hall (List.length_filter_eq_length_iff.1 h)
      rw [if_neg hlen]
      refine ⟨⟨fun _ => ?_, fun _ => rfl⟩, fun l hl => by cases hl⟩
      apply Classical.byContradiction
      intro hne
      apply hall
      intro vw hvw
      cases hvv : vc.valid vw.1 with
      | true => rfl
      | false => exact absurd ⟨vw, hvw, hvv⟩ hne
  | true =>
    simp only [if_true, true_and, Bool.true_eq_false, false_and, false_or]
    by_cases hnil : (nbrs.filter fun vw => vc.valid vw.1) = []
    · have hemp : (nbrs.filter fun vw => vc.valid vw.1).isEmpty = true := List.isEmpty_iff.2 hnil
      rw [if_pos hemp]
      refine ⟨⟨fun _ vw hvw => ?_, fun _ => rfl⟩, fun l hl => by cases hl⟩
      have := List.filter_eq_nil_iff.1 hnil vw hvw
      simpa using this
    · have hemp : ¬ (nbrs.filter fun vw => vc.valid vw.1).isEmpty = true :=
        fun h => hnil (List.isEmpty_iff.1 h)
      rw [if_neg hemp]
      refine ⟨⟨fun h => (by cases h), fun hall => ?_⟩, fun l hl => (by cases hl; rfl)⟩
      exfalso
      apply hnil
      rw [List.filter_eq_nil_iff]
      intro vw hvw
      rw [hall vw hvw]
      exact Bool.false_ne_true

end HS
