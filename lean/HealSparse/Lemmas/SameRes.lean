/-
  C10 at the world level, the operations going through `degrade` / `cat` / the HEALPix-format
  writer (`deg`, `genhp`, `dor`, `cat`, `hpxwrite`): content-equal maps and files give the same
  answers — the same errors included.
-/
import HealSparse.Lemmas.SameViews
import HealSparse.Lemmas.ApiDegrade
import HealSparse.Lemmas.ApiDor
import HealSparse.Lemmas.ApiCat
namespace HS

open WFApi WFRes WFFiles

variable {w₁ w₂ : World}

/-! ### `_degrade`: the errors -/

open ApiDegrade

/-- the error of `_degrade` past the weight checks depends on the kind, the reduction and the
    float64 guard only -/
theorem errOf_coreRest {m₁ m₂ : MapObj} (hk : m₂.kind = m₁.kind)
    (hfit : cellsFitF64 m₂.st.sp = cellsFitF64 m₁.st.sp) (ord : Nat) (red : String)
    (v₁ v₂ : Option MapObj) (wv₁ wv₂ : Option (Array Val)) :
    errOf (coreRest m₁ ord red v₁ wv₁) = errOf (coreRest m₂ ord red v₂ wv₂) := by
  unfold coreRest
  rw [hk, hfit]
  simp only []
  split
  · rfl
  · cases m₁.kind with
    | packed => rfl
    | wide n => simp only []; split <;> rfl
    | recd fs pr => simp only []; split <;> rfl
    | plain dt =>
      simp only []
      split
      · rfl
      · split <;> rfl

/-- optional (weight) maps in content-equal worlds -/
def OptSame : Option MapObj → Option MapObj → Prop
  | none, none => True
  | some a, some b => a.SameC b ∧ a.WF ∧ b.WF
  | _, _ => False

theorem errOf_coreWeights {m₁ m₂ : MapObj} (hc : m₁.SameC m₂) (hw1 : m₁.WF) (hw2 : m₂.WF)
    (hv : m₁.BlankInvalid) (red : String) {v₁ v₂ : Option MapObj} (ho : OptSame v₁ v₂) :
    errOf (coreWeights m₁ red v₁) = errOf (coreWeights m₂ red v₂) := by
  cases v₁ with
  | none =>
    cases v₂ with
    | none => rfl
    | some b => exact ho.elim
  | some a =>
    cases v₂ with
    | none => exact ho.elim
    | some b =>
      obtain ⟨hab, wa, wb⟩ := ho
      unfold coreWeights
      simp only []
      by_cases hr : (red != "wmean") = true
      · rw [if_pos hr, if_pos hr]
      · rw [if_neg hr, if_neg hr, hab.kind_eq]
        cases hk : a.kind with
        | packed => rfl
        | wide n => rfl
        | recd fs pr => rfl
        | plain dt =>
          cases dt with
          | bool => rfl
          | int bb sg => rfl
          | flt bb =>
            simp only []
            rw [hab.spord_eq, hab.covord_eq, hc.spord_eq, hc.covord_eq]
            split
            · rfl
            · have hva : a.BlankInvalid := MapObj.blankInvalid_of_plain hk
              obtain ⟨la, lb, ea, eb, _, hs⟩ := hab.obs_valid hva
              obtain ⟨l1, l2, e1, e2, _, hs'⟩ := hc.obs_valid hv
              rw [ea, eb, e1, e2]
              simp only []
              rw [← hs, ← hs']
              split
              · rfl
              · have hv2 : m₂.BlankInvalid := by
                  unfold MapObj.BlankInvalid; rw [hc.vc_eq]; exact hv
                obtain ⟨g1, x1, _⟩ := hw1.2.gatherWeights_spec' hv a.abs (Val.num 0 0)
                obtain ⟨g2, x2, _⟩ := hw2.2.gatherWeights_spec' hv2 b.abs (Val.num 0 0)
                rw [x1, x2]
                rfl

theorem errOf_core {m₁ m₂ : MapObj} (hc : m₁.SameC m₂) (hw1 : m₁.WF) (hw2 : m₂.WF)
    (hv : m₁.BlankInvalid) (ord : Nat) (red : String) {v₁ v₂ : Option MapObj} (ho : OptSame v₁ v₂) :
    errOf (apiDegradeCore m₁ ord red v₁) = errOf (apiDegradeCore m₂ ord red v₂) := by
  rw [apiDegradeCore_eq, apiDegradeCore_eq, errOf_bind, errOf_bind]
  have hw := errOf_coreWeights hc hw1 hw2 hv red ho
  have hfit : cellsFitF64 m₂.st.sp = cellsFitF64 m₁.st.sp := by
    unfold cellsFitF64; exact (sp_all_same hc.same _).symm
  cases h1 : coreWeights m₁ red v₁ with
  | error e =>
    cases h2 : coreWeights m₂ red v₂ with
    | error e' => rw [h1, h2] at hw; exact hw
    | ok b => rw [h1, h2] at hw; cases hw
  | ok a =>
    cases h2 : coreWeights m₂ red v₂ with
    | error e' => rw [h1, h2] at hw; cases hw
    | ok b => exact errOf_coreRest hc.kind_eq hfit ord red v₁ v₂ a b

/-! ### `degrade`: the result's cache -/

theorem coreRest_cache {m b : MapObj} {ord : Nat} {red : String} {w : Option MapObj}
    {wv : Option (Array Val)} (h : coreRest m ord red w wv = .ok b) : b.cache = none := by
  unfold coreRest at h
  simp only [] at h
  repeat' split at h
  all_goals first
    | (cases h; done)
    | (cases h; rfl)

theorem apiDegradeCore_cache {m b : MapObj} {ord : Nat} {red : String} {w : Option MapObj}
    (h : apiDegradeCore m ord red w = .ok b) : b.cache = none := by
  rw [apiDegradeCore_eq] at h
  obtain ⟨wv, _, hr⟩ := except_bind_ok h
  exact coreRest_cache hr

theorem apiDegrade_cache {m b : MapObj} {ord : Nat} {red : String} {w : Option MapObj}
    (h : apiDegrade m ord red w = .ok b) : b.cache = none := by
  rw [apiDegrade_eq] at h
  unfold degradeSpec at h
  split at h
  · cases h
  split at h
  · cases h
  split at h
  · obtain ⟨m1, _, h⟩ := except_bind_ok h
    obtain ⟨w', _, h⟩ := except_bind_ok h
    exact apiDegradeCore_cache h
  split at h
  · cases h; rfl
  · exact apiDegradeCore_cache h

/-! ### `degrade`: content-equal sources give content-equal results -/

theorem twelve_pow_split {a b : Nat} (h : a ≤ b) : 12 * 4 ^ a * 2 ^ (2 * (b - a)) = 12 * 4 ^ b := by
  rw [Nat.pow_mul, Nat.mul_assoc, ← Nat.pow_add]
  congr 2
  omega

theorem shr_lt_cov {q ord co : Nat} (hq : q < 12 * 4 ^ ord) (hle : co ≤ ord) :
    q >>> (2 * (ord - co)) < 12 * 4 ^ co := by
  rw [Nat.shiftRight_eq_div_pow, Nat.div_lt_iff_lt_mul (Nat.two_pow_pos _), twelve_pow_split hle]
  exact hq

theorem childPix_lt' {m : MapObj} {ord q p : Nat} (hwf : m.covord ≤ m.spord) (hle : ord ≤ m.spord)
    (hq : q < 12 * 4 ^ ord) (hp : p ∈ childPix m ord q) : p < m.npix := by
  have := mem_childPix.1 hp
  rw [Nat.shiftRight_eq_div_pow] at this
  rw [← this, Nat.div_lt_iff_lt_mul (Nat.two_pow_pos _), twelve_pow_split hle] at hq
  show p < (cfgOf m.covord m.spord).npix
  rw [ApiDegrade.cfgOf_npix hwf]
  exact hq

theorem isF64_optSame {v₁ v₂ : Option MapObj} (ho : OptSame v₁ v₂) : isF64 v₂ = isF64 v₁ := by
  cases v₁ <;> cases v₂
  · rfl
  · exact ho.elim
  · exact ho.elim
  · unfold isF64; simp only [ho.1.kind_eq]

section congr
variable {m₁ m₂ : MapObj}

theorem live_congr (hc : m₁.SameC m₂) (hwf : m₁.covord ≤ m₁.spord) {ord q : Nat}
    (hle : ord ≤ m₁.spord) (hq : q < 12 * 4 ^ ord) : live m₂ ord q = live m₁ ord q := by
  unfold live
  rw [childPix_spord hc.spord_eq, hc.covord_eq, hc.vc_eq]
  congr 1
  · apply ApiMulti.any_congr_mem
    intro p hp
    rw [hc.abs_eq (childPix_lt' hwf hle hq hp)]
  · by_cases hlo : m₁.covord ≤ ord
    · rw [hc.covered_eq (shr_lt_cov hq hlo)]
    · simp [hlo]

theorem srcAbs_congr (hc : m₁.SameC m₂) (ord : Nat) {p : Nat} (hp : p < m₁.npix) :
    srcAbs m₂ ord p = srcAbs m₁ ord p := by
  unfold srcAbs
  rw [hc.covord_eq, hc.vc_eq, hc.abs_eq hp]

theorem wAt_congr (hc : m₁.SameC m₂) (red : String) {v₁ v₂ : Option MapObj} (ho : OptSame v₁ v₂)
    {p : Nat} (hp : p < m₁.npix)
    (hnp : (red == "wmean") = true → ∀ a, v₁ = some a → a.npix = m₁.npix) :
    wAt m₂ red v₂ p = wAt m₁ red v₁ p := by
  cases v₁ <;> cases v₂
  · rfl
  · exact ho.elim
  · exact ho.elim
  · rename_i a b
    unfold wAt
    simp only []
    rw [hc.vc_eq, hc.abs_eq hp]
    cases hr : (red == "wmean") with
    | false => rfl
    | true =>
      rw [ho.1.abs_eq (by rw [hnp hr a rfl]; exact hp)]

end congr

/-- **`degrade` to a coarser order on content-equal maps (and weights)**: two successful calls
    return content-equal maps -/
theorem degraded_sameC {m₁ m₂ r₁ r₂ : MapObj} (hc : m₁.SameC m₂) (ok1 : m₁.Ok) (ok2 : m₂.Ok)
    {v₁ v₂ : Option MapObj} (ho : OptSame v₁ v₂) {ord : Nat} {red : String} (hlt : ord < m₁.spord)
    (x1 : apiDegrade m₁ ord red v₁ = .ok r₁) (x2 : apiDegrade m₂ ord red v₂ = .ok r₂) :
    r₁.SameC r₂ := by
  have hv1 := ok1.2.1.blankInvalid
  have hv2 := ok2.2.1.blankInvalid
  have D1 := apiDegrade_ok ok1.1 hv1 hlt x1
  have D2 := apiDegrade_ok ok2.1 hv2 (by rw [hc.spord_eq]; exact hlt) x2
  have hf := isF64_optSame ho
  have hco : r₂.covord = r₁.covord := by rw [D1.covord, D2.covord, hc.covord_eq]
  have hso : r₂.spord = r₁.spord := by rw [D1.spord, D2.spord]
  have hk : r₂.kind = r₁.kind := by
    rw [D1.kind, D2.kind, hc.kind_eq]; exact coreOutKind_congr _ _ hf
  have hs : r₂.sent = r₁.sent := by
    rw [D1.sent, D2.sent]
    unfold degradeSent
    rw [hc.kind_eq, hc.covord_eq, hc.sent_eq]
    cases m₁.kind with
    | wide n => rfl
    | plain dt => exact coreOutSent_congr _ _ _ hf
    | recd fs pr => exact coreOutSent_congr _ _ _ hf
    | packed => exact coreOutSent_congr _ _ _ hf
  have hcfg : r₂.c = r₁.c := by unfold MapObj.c; rw [hco, hso]
  have hvc : r₂.vc = r₁.vc := by unfold MapObj.vc; rw [hk, hs]
  have hww1 : WeightsWF m₁ ord red v₁ := by
    intro _ _ wm hwm
    subst hwm
    cases v₂ with
    | none => exact ho.elim
    | some b => exact ho.2.1
  have hww2 : WeightsWF m₂ ord red v₂ := by
    intro _ _ wm hwm
    subst hwm
    cases v₁ with
    | none => exact ho.elim
    | some b => exact ho.2.2
  have hle : ord ≤ m₁.spord := Nat.le_of_lt hlt
  have hmin : min m₁.covord ord ≤ ord := Nat.min_le_right _ _
  have hnp : r₁.c.npix = 12 * 4 ^ ord := by
    unfold MapObj.c; rw [D1.covord, D1.spord]; exact ApiDegrade.cfgOf_npix hmin
  have hwnp : (red == "wmean") = true → ∀ a, v₁ = some a → a.npix = m₁.npix := by
    intro hr a ha
    obtain ⟨wm, b, e, _, hsp, _⟩ := D1.wts hr
    rw [ha] at e; cases e
    have hawf : a.WF := by
      cases v₂ with
      | none => rw [ha] at ho; exact ho.elim
      | some b => rw [ha] at ho; exact ho.2.1
    show (cfgOf a.covord a.spord).npix = (cfgOf m₁.covord m₁.spord).npix
    rw [ApiDegrade.cfgOf_npix hawf.1, ApiDegrade.cfgOf_npix ok1.1.1, hsp]
  refine ⟨hco.symm, hso.symm, hk.symm, hs.symm,
    (apiDegrade_cache x1).trans (apiDegrade_cache x2).symm, ?_, (WF.apiDegrade ok1.1 x1).2, ?_, ?_, ?_⟩
  · rw [D1.view, D2.view, hc.covord_eq, hc.view_eq]
  · have := (WF.apiDegrade ok2.1 x2).2
    rw [hcfg, hvc] at this
    exact this
  · intro q hq
    rw [hnp] at hq
    have a1 := D1.abs hww1 q hq
    have a2 := D2.abs hww2 q hq
    unfold MapObj.abs at a1 a2
    rw [hcfg, hvc] at a2
    rw [a1, a2, live_congr hc ok1.1.1 hle hq, childPix_spord hc.spord_eq]
    split
    · rw [coreRed_congr hc.kind_eq (fun _ => hc.sent_eq) hf]
      congr 1
      apply List.map_congr_left
      intro p hp
      have hpl := childPix_lt' ok1.1.1 hle hq hp
      rw [srcAbs_congr hc ord hpl, wAt_congr hc red ho hpl hwnp]
    · rfl
  · intro k hk'
    have hk2 : k < 12 * 4 ^ (min m₁.covord ord) := by
      have : r₁.c.ncov = 12 * 4 ^ (min m₁.covord ord) := by
        unfold MapObj.c; rw [D1.covord]; rfl
      rw [← this]; exact hk'
    have c1 := D1.cov k hk2
    have c2 := D2.cov k (by rw [hc.covord_eq]; exact hk2)
    rw [hcfg] at c2
    rw [c1, c2, hc.covord_eq, childPix_spord hc.spord_eq, hc.vc_eq]
    split
    · rename_i hb
      apply ApiMulti.any_congr_mem
      intro p hp
      have hkq : k < 12 * 4 ^ ord := by
        rw [Nat.min_eq_right (Nat.le_of_lt hb)] at hk2; exact hk2
      rw [hc.abs_eq (childPix_lt' ok1.1.1 hle hkq hp)]
    · rename_i hb
      have : k < m₁.c.ncov := by
        rw [Nat.min_eq_left (Nat.le_of_not_lt hb)] at hk2; exact hk2
      rw [hc.covered_eq this]

/-! ### re-housing (`degrade` below the coverage resolution) -/

/-- the only error a `replace` of distinct in-range pixels of an owning map can raise: a value
    that does not fit the kind -/
theorem errOf_replace {e : MapObj} {pix : List Nat} {vals : List Val} (hview : e.view = none)
    (hnd : pix.Nodup) (hlen : vals.length = pix.length) (hlt : ∀ p ∈ pix, p < e.npix) :
    errOf (apiUpdate e "replace" pix (some vals) false) =
      if pix.isEmpty then none
      else if !(vals.all (valMatchesKind e.kind)) then some .value else none := by
  rw [ApiRanges.apiUpdate_eq]
  unfold ApiRanges.apiUpdateSpec ApiRanges.frontErr
  have h1 : ¬ pix.eraseDups.length < pix.length := by
    rw [eraseDups_length_lt_iff]; exact fun h => h hnd
  have h2 : (pix.any fun x => decide (x ≥ e.npix)) = false := by
    rw [List.any_eq_false]
    intro p hp
    have := hlt p hp
    simp only [decide_eq_true_eq]
    omega
  simp only [Option.isNone_some, Bool.false_and, Bool.false_eq_true, if_false, bne_self_eq_false,
    Option.getD_some, Bool.false_or, hview, Option.isSome_none, hlen, beq_self_eq_true,
    h1, decide_false, h2, Bool.and_false]
  split
  · rfl
  · split
    · rfl
    · have : ("replace" == "add") = false := by decide +kernel
      simp only [this, Bool.false_and, Bool.false_eq_true, if_false]
      rfl

theorem rehouse_cache {m M : MapObj} {co : Nat} (h : rehouse m co = .ok M) : M.cache = none := by
  unfold rehouse at h
  obtain ⟨e, _, h⟩ := except_bind_ok h
  split at h
  · cases h
  · exact (WFApi.apiUpdate_ok h).2.2.2.2.2.1

theorem errOf_rehouse {m₁ m₂ : MapObj} (hc : m₁.SameC m₂) (hw1 : m₁.WF) (hw2 : m₂.WF)
    (hv : m₁.BlankInvalid) (co : Nat) : errOf (rehouse m₁ co) = errOf (rehouse m₂ co) := by
  have hv2 : m₂.BlankInvalid := by unfold MapObj.BlankInvalid; rw [hc.vc_eq]; exact hv
  unfold rehouse
  rw [hc.spord_eq, hc.kind_eq, hc.sent_eq, errOf_bind, errOf_bind]
  cases he : apiMakeEmpty co m₁.spord m₁.kind (some m₁.sent) [] with
  | error x => rfl
  | ok e =>
    simp only []
    obtain ⟨hle, e1, e2, e3, e4, e5⟩ := WFRes.apiMakeEmpty_ok he
    rw [hw1.2.validPixels_eq hv, hw2.2.validPixels_eq hv2]
    simp only []
    generalize hL1 : (validCells m₁.vc m₁.st).map (pixOfCell m₁.c m₁.st) = L₁
    generalize hL2 : (validCells m₂.vc m₂.st).map (pixOfCell m₂.c m₂.st) = L₂
    have hm1 : ∀ p, p ∈ L₁ ↔ p < m₁.npix ∧ m₁.vc.valid (m₁.abs p) = true := by
      intro p; rw [← hL1]; exact hw1.2.mem_validCells_map hv p
    have hm2 : ∀ p, p ∈ L₂ ↔ p < m₂.npix ∧ m₂.vc.valid (m₂.abs p) = true := by
      intro p; rw [← hL2]; exact hw2.2.mem_validCells_map hv2 p
    have hn1 : L₁.Nodup := by rw [← hL1]; exact hw1.2.nodup_validCells_map hv
    have hn2 : L₂.Nodup := by rw [← hL2]; exact hw2.2.nodup_validCells_map hv2
    have hm12 : ∀ p, p ∈ L₂ ↔ p ∈ L₁ := by
      intro p
      rw [hm1, hm2, hc.npix_eq, hc.vc_eq]
      constructor
      · rintro ⟨a, b⟩; exact ⟨a, by rw [← hc.abs_eq a]; exact b⟩
      · rintro ⟨a, b⟩; exact ⟨a, by rw [hc.abs_eq a]; exact b⟩
    have hcast : ∀ L : List Nat, (L.map fun p => ((p : Nat) : Int)).map Int.toNat = L := by
      intro L
      rw [List.map_map]
      conv => rhs; rw [← List.map_id L]
      apply List.map_congr_left
      intro p _
      simp
    rw [hcast, hcast]
    have hen : e.npix = m₁.npix := by
      show (cfgOf e.covord e.spord).npix = (cfgOf m₁.covord m₁.spord).npix
      rw [e1, e2, ApiDegrade.cfgOf_npix hle, ApiDegrade.cfgOf_npix hw1.1]
    rw [errOf_replace e4 hn1 (by simp) (fun p hp => by rw [hen]; exact ((hm1 p).1 hp).1),
      errOf_replace e4 hn2 (by simp)
        (fun p hp => by rw [hen]; exact ((hm1 p).1 ((hm12 p).1 hp)).1)]
    have hemp : L₂.isEmpty = L₁.isEmpty := by
      cases L₁ with
      | nil =>
        cases L₂ with
        | nil => rfl
        | cons x xs => exact absurd ((hm12 x).1 List.mem_cons_self) (by simp)
      | cons y ys =>
        cases L₂ with
        | nil => exact absurd ((hm12 y).2 List.mem_cons_self) (by simp)
        | cons x xs => rfl
    have hall : (L₂.map m₂.abs).all (valMatchesKind e.kind) = (L₁.map m₁.abs).all (valMatchesKind e.kind) := by
      rw [Bool.eq_iff_iff, List.all_eq_true, List.all_eq_true]
      constructor
      · intro h x hx
        obtain ⟨p, hp, rfl⟩ := List.mem_map.1 hx
        have := h (m₂.abs p) (List.mem_map.2 ⟨p, (hm12 p).2 hp, rfl⟩)
        rw [hc.abs_eq ((hm1 p).1 hp).1] at this
        exact this
      · intro h x hx
        obtain ⟨p, hp, rfl⟩ := List.mem_map.1 hx
        have hp1 := (hm12 p).1 hp
        rw [hc.abs_eq ((hm1 p).1 hp1).1]
        exact h (m₁.abs p) (List.mem_map.2 ⟨p, hp1, rfl⟩)
    rw [hemp, hall]

/-- **re-housing content-equal maps**: the same error, or content-equal results -/
theorem rehouse_same {m₁ m₂ : MapObj} (hc : m₁.SameC m₂) (hw1 : m₁.WF) (hw2 : m₂.WF)
    (hv : m₁.BlankInvalid) (co : Nat) :
    ExR MapObj.SameC (rehouse m₁ co) (rehouse m₂ co) := by
  have hv2 : m₂.BlankInvalid := by unfold MapObj.BlankInvalid; rw [hc.vc_eq]; exact hv
  refine ExR.of_errOf (errOf_rehouse hc hw1 hw2 hv co) fun M₁ M₂ x1 x2 => ?_
  have R1 := rehouse_ok hw1 hv x1
  have R2 := rehouse_ok hw2 hv2 x2
  have hco : M₂.covord = M₁.covord := by rw [R1.covord, R2.covord]
  have hso : M₂.spord = M₁.spord := by rw [R1.spord, R2.spord, hc.spord_eq]
  have hk : M₂.kind = M₁.kind := by rw [R1.kind, R2.kind, hc.kind_eq]
  have hs : M₂.sent = M₁.sent := by
    by_cases hwd : ∃ n, m₁.kind = .wide n
    · obtain ⟨n, hn⟩ := hwd
      rw [R1.sentw n hn, R2.sentw n (by rw [hc.kind_eq]; exact hn)]
    · have h1 : ∀ n, m₁.kind ≠ .wide n := fun n hn => hwd ⟨n, hn⟩
      rw [R1.sent h1, R2.sent (by rw [hc.kind_eq]; exact h1), hc.sent_eq]
  have hcfg : M₂.c = M₁.c := by unfold MapObj.c; rw [hco, hso]
  have hvc : M₂.vc = M₁.vc := by unfold MapObj.vc; rw [hk, hs]
  have hnp : M₁.c.npix = m₁.npix := R1.npix
  refine ⟨hco.symm, hso.symm, hk.symm, hs.symm, (rehouse_cache x1).trans (rehouse_cache x2).symm,
    R1.view.trans R2.view.symm, R1.wf.2, ?_, ?_, ?_⟩
  · have := R2.wf.2
    rw [hcfg, hvc] at this
    exact this
  · intro p hp
    rw [hnp] at hp
    have a1 := R1.abs p hp
    have a2 := R2.abs p (by rw [hc.npix_eq]; exact hp)
    unfold MapObj.abs at a1 a2
    rw [hcfg, hvc] at a2
    have := hc.abs_eq hp
    unfold MapObj.abs at this
    rw [a1, a2, this, hc.vc_eq]
  · intro k hk'
    rw [Bool.eq_iff_iff]
    have c1 := R1.cov k hk'
    have c2 := R2.cov k (by rw [hcfg]; exact hk')
    rw [hcfg] at c2
    rw [c1, c2, hc.npix_eq, hc.vc_eq]
    constructor
    · rintro ⟨p, a, b, c⟩; exact ⟨p, a, by rw [hc.abs_eq a]; exact b, c⟩
    · rintro ⟨p, a, b, c⟩; exact ⟨p, a, by rw [← hc.abs_eq a]; exact b, c⟩

/-! ### `degrade` -/

theorem errOf_apiDegrade {m₁ m₂ : MapObj} (hc : m₁.SameC m₂) (ok1 : m₁.Ok) (ok2 : m₂.Ok)
    {v₁ v₂ : Option MapObj} (ho : OptSame v₁ v₂) (hbv : ∀ a, v₁ = some a → a.BlankInvalid)
    (ord : Nat) (red : String) :
    errOf (apiDegrade m₁ ord red v₁) = errOf (apiDegrade m₂ ord red v₂) := by
  have hv1 := ok1.2.1.blankInvalid
  have hv2 := ok2.2.1.blankInvalid
  rw [apiDegrade_eq, apiDegrade_eq]
  unfold degradeSpec
  rw [hc.spord_eq, hc.kind_eq, hc.covord_eq]
  split
  · rfl
  split
  · rfl
  split
  · rename_i hb
    rw [errOf_bind, errOf_bind]
    rcases (rehouse_same hc ok1.1 ok2.1 hv1 ord).cases with ⟨M₁, M₂, x1, x2, hM⟩ | ⟨e, x1, x2⟩
    · rw [x1, x2]
      simp only []
      have wM1 := WF.rehouse x1
      have wM2 := WF.rehouse x2
      have bM1 := src_blankInvalid (src_rehoused ok1.1 hb (rehouse_ok ok1.1 hv1 x1)) hv1
      rw [errOf_bind, errOf_bind]
      cases v₁ with
      | none =>
        cases v₂ with
        | some b => exact ho.elim
        | none => exact errOf_core hM wM1 wM2 bM1 ord red (v₁ := none) (v₂ := none) trivial
      | some a =>
        cases v₂ with
        | none => exact ho.elim
        | some b =>
          simp only []
          rcases (rehouse_same ho.1 ho.2.1 ho.2.2 (hbv a rfl) ord).cases with
            ⟨W₁, W₂, y1, y2, hW⟩ | ⟨e, y1, y2⟩
          · rw [y1, y2]
            exact errOf_core hM wM1 wM2 bM1 ord red (v₁ := some W₁) (v₂ := some W₂)
              ⟨hW, WF.rehouse y1, WF.rehouse y2⟩
          · rw [y1, y2]; rfl
    · rw [x1, x2]
  split
  · rfl
  · exact errOf_core hc ok1.1 ok2.1 hv1 ord red ho

/-- **`degrade` on content-equal maps (and weight maps)**: the same error, or content-equal
    results -/
theorem apiDegrade_sameC {m₁ m₂ : MapObj} (hc : m₁.SameC m₂) (ok1 : m₁.Ok) (ok2 : m₂.Ok)
    {v₁ v₂ : Option MapObj} (ho : OptSame v₁ v₂) (hbv : ∀ a, v₁ = some a → a.BlankInvalid)
    (ord : Nat) (red : String) :
    ExR MapObj.SameC (apiDegrade m₁ ord red v₁) (apiDegrade m₂ ord red v₂) := by
  refine ExR.of_errOf (errOf_apiDegrade hc ok1 ok2 ho hbv ord red) fun r₁ r₂ x1 x2 => ?_
  by_cases hlt : ord < m₁.spord
  · exact degraded_sameC hc ok1 ok2 ho hlt x1 x2
  · obtain ⟨hle, hk⟩ := apiDegrade_pre x1
    have he : ord = m₁.spord := by omega
    subst he
    rw [apiDegrade_same red v₁ ok1.1.1 hk] at x1
    have hk2 : m₂.kind ≠ .packed := by rw [hc.kind_eq]; exact hk
    rw [← hc.spord_eq, apiDegrade_same red v₂ ok2.1.1 hk2] at x2
    cases x1; cases x2
    exact hc.with_cache none

theorem same_opDeg (h : w₁.SameW w₂) (g₁ : w₁.Good) (g₂ : w₂.Good) (a : Args) :
    SimR (opDeg w₁ a) (opDeg w₂ a) := by
  unfold opDeg
  refine same_withMap h g₁ g₂ fun n m₁ m₂ hn e1 e2 hc ok1 ok2 => ?_
  split
  · exact SimR.same h _
  · rename_i ord _
    have tail : ∀ v₁ v₂ : Option MapObj, OptSame v₁ v₂ → (∀ x, v₁ = some x → x.BlankInvalid) →
        SimR (match apiDegrade m₁ ord (a.getD "red" "mean") v₁ with
          | .ok r => (w₁.bind (a.getD "r" "tmp") r, "ok")
          | .error e => (w₁, errLine e))
        (match apiDegrade m₂ ord (a.getD "red" "mean") v₂ with
          | .ok r => (w₂.bind (a.getD "r" "tmp") r, "ok")
          | .error e => (w₂, errLine e)) := by
      intro v₁ v₂ ho hbv
      rcases (apiDegrade_sameC hc ok1 ok2 ho hbv ord (a.getD "red" "mean")).cases with
        ⟨r₁, r₂, x1, x2, hr⟩ | ⟨e, x1, x2⟩
      · rw [x1, x2]; exact ⟨rfl, h.bind _ hr⟩
      · rw [x1, x2]; exact SimR.same h _
    cases hw : a.get? "w" with
    | none => exact tail none none trivial (fun x hx => nomatch hx)
    | some nm =>
      simp only []
      rcases h.get g₁ g₂ nm with ⟨q1, q2⟩ | ⟨k₁, k₂, q1, q2, hk⟩
      · rw [q1, q2]; exact SimR.same h _
      · rw [q1, q2]
        exact tail (some k₁) (some k₂) ⟨hk, (g₁.get q1).1, (g₂.get q2).1⟩
          (fun x hx => by cases hx; exact (g₁.get q1).2.1.blankInvalid)

/-! ### `generate_healpix_map` (`genhp`) -/

def genSingle (m : MapObj) (key : Option Nat) : Except Err MapObj :=
  match m.kind with
  | .recd _ _ => (match key with | none => .error .value | some i => apiGetSingleCopy m i none)
  | .wide _ => .error .notImpl
  | _ => .ok m

def genTail (m single : MapObj) (ordOut : Option Nat) (red : String)
    (perm : Option (Array Nat × Array Nat)) : Except Err (List Val) := do
  if !cellsFitF64 single.st.sp then throw .inexact
  let o := ordOut.getD m.spord
  let single ← if o < m.spord then apiDegrade single o red none
               else if o > m.spord then throw .value else pure single
  let (fill, conv) : Val × (Val → Val) := match single.kind with
    | .plain (.int _ _) => (unseenOf (.flt 64), id)
    | .plain (.flt b) => (unseenOf (.flt b), id)
    | _ => (single.sent, id)
  let c := single.c
  let res := match perm with
    | none => generateHealpix c single.vc single.st fill conv
    | some (n2r, r2n) =>
      generateHealpixRing c single.vc single.st fill conv (fun p => rd n2r p 0) (fun r => rd r2n r 0)
  match res with
  | some a => pure a.toList
  | none => throw .index

theorem apiGenerateHealpix_eq (m : MapObj) (ordOut : Option Nat) (red : String) (key : Option Nat)
    (perm : Option (Array Nat × Array Nat)) :
    apiGenerateHealpix m ordOut red key perm =
      genSingle m key >>= fun s => genTail m s ordOut red perm := by
  unfold apiGenerateHealpix genSingle
  cases hk : m.kind with
  | recd fs pr =>
    cases key with
    | none => rfl
    | some i => rfl
  | wide n => rfl
  | packed => rfl
  | plain dt => rfl
def genDeg (m single : MapObj) (o : Nat) (red : String) : Except Err MapObj :=
  if o < m.spord then apiDegrade single o red none
  else if o > m.spord then .error .value else .ok single

def genFill (single : MapObj) : Val :=
  match single.kind with
    | .plain (.int _ _) => unseenOf (.flt 64)
    | .plain (.flt b) => unseenOf (.flt b)
    | _ => single.sent

def genOut (single : MapObj) (perm : Option (Array Nat × Array Nat)) : Except Err (List Val) :=
  match (match perm with
    | none => generateHealpix single.c single.vc single.st (genFill single) id
    | some (n2r, r2n) =>
      generateHealpixRing single.c single.vc single.st (genFill single) id (fun p => rd n2r p 0) (fun r => rd r2n r 0)) with
  | some a => .ok a.toList
  | none => .error .index

theorem genTail_eq (m s : MapObj) (ordOut : Option Nat) (red : String)
    (perm : Option (Array Nat × Array Nat)) :
    genTail m s ordOut red perm =
      if !cellsFitF64 s.st.sp then .error .inexact
      else genDeg m s (ordOut.getD m.spord) red >>= fun s' => genOut s' perm := by
  have leaf : ∀ v : MapObj,
      (match
        (match perm with
          | none => generateHealpix v.c v.vc v.st
              (match v.kind with
                | .plain (.int _ _) => (unseenOf (.flt 64), (id : Val → Val))
                | .plain (.flt b) => (unseenOf (.flt b), id)
                | _ => (v.sent, id)).1
              (match v.kind with
                | .plain (.int _ _) => (unseenOf (.flt 64), (id : Val → Val))
                | .plain (.flt b) => (unseenOf (.flt b), id)
                | _ => (v.sent, id)).2
          | some (n2r, r2n) => generateHealpixRing v.c v.vc v.st
              (match v.kind with
                | .plain (.int _ _) => (unseenOf (.flt 64), (id : Val → Val))
                | .plain (.flt b) => (unseenOf (.flt b), id)
                | _ => (v.sent, id)).1
              (match v.kind with
                | .plain (.int _ _) => (unseenOf (.flt 64), (id : Val → Val))
                | .plain (.flt b) => (unseenOf (.flt b), id)
                | _ => (v.sent, id)).2 (fun p => rd n2r p 0) (fun r => rd r2n r 0)) with
        | some a => (pure a.toList : Except Err (List Val))
        | none => throw .index) = genOut v perm := by
    intro v
    unfold genOut genFill
    cases v.kind with
    | plain dt => cases dt <;> rfl
    | _ => rfl
  unfold genTail genDeg
  by_cases hfit : (!cellsFitF64 s.st.sp) = true
  · rw [if_pos hfit, if_pos hfit]; rfl
  · rw [if_neg hfit, if_neg hfit]
    simp only [bind, Except.bind, pure, Except.pure]
    by_cases h1 : ordOut.getD m.spord < m.spord
    · simp only [h1, if_true]
      cases apiDegrade s (ordOut.getD m.spord) red none with
      | error e => rfl
      | ok v => exact leaf v
    · simp only [h1, if_false]
      by_cases h2 : ordOut.getD m.spord > m.spord
      · simp only [h2, if_true]; rfl
      · simp only [h2, if_false]
        exact leaf s
/-- writing `g (pos x)` at position `pos x` for every listed `x`: cell by cell -/
theorem gen_foldl_get {α W : Type} (l : List α) (pos : α → Nat) (g : Nat → W) (a : Array W) (j : Nat) :
    (l.foldl (fun a x => a.setIfInBounds (pos x) (g (pos x))) a)[j]? =
      if l.any (fun x => pos x == j) then (if j < a.size then some (g j) else none) else a[j]? := by
  induction l generalizing a with
  | nil => rfl
  | cons x xs ih =>
    rw [List.foldl_cons, ih, List.any_cons, Array.size_setIfInBounds, Array.getElem?_setIfInBounds]
    by_cases hx : pos x = j
    · subst hx
      simp only [beq_self_eq_true, Bool.true_or, if_true]
      split <;> rfl
    · have : (pos x == j) = false := by simpa using hx
      simp only [this, Bool.false_or, hx, if_false]

theorem gen_foldl_size {α W : Type} (l : List α) (pos : α → Nat) (g : Nat → W) (a : Array W) :
    (l.foldl (fun a x => a.setIfInBounds (pos x) (g (pos x))) a).size = a.size := by
  induction l generalizing a with
  | nil => rfl
  | cons x xs ih => rw [List.foldl_cons, ih, Array.size_setIfInBounds]

/-- the result does not depend on the order of the list, nor on `g` away from the positions -/
theorem gen_foldl_congr {α W : Type} {l₁ l₂ : List α} (hp : l₁.Perm l₂) (pos : α → Nat)
    (g₁ g₂ : Nat → W) (hg : ∀ x ∈ l₁, g₁ (pos x) = g₂ (pos x)) (a : Array W) :
    l₁.foldl (fun a x => a.setIfInBounds (pos x) (g₁ (pos x))) a =
      l₂.foldl (fun a x => a.setIfInBounds (pos x) (g₂ (pos x))) a := by
  apply Array.ext_getElem?
  intro j
  rw [gen_foldl_get, gen_foldl_get, ← perm_any_eq hp]
  split
  · rename_i hany
    obtain ⟨x, hx, hxj⟩ := List.any_eq_true.1 hany
    have : pos x = j := by simpa using hxj
    rw [← this, hg x hx]
  · rfl

/-- the listed valid pixels are pixels of the map -/
theorem validPixels_lt {m : MapObj} (hw : m.WF) (hv : m.BlankInvalid) {l : List Int}
    (h : validPixels m.c m.vc m.st = some l) : ∀ x ∈ l, x.toNat < m.npix := by
  obtain ⟨l', e, hp⟩ := C02.validPixels_spec m.c m.vc m.st hw.2 hv
  rw [h] at e; cases e
  intro x hx
  obtain ⟨p, hp', rfl⟩ := List.mem_map.1 (hp.mem_iff.1 hx)
  have := List.mem_range.1 (List.mem_filter.1 hp').1
  rw [Int.toNat_natCast]
  exact this

/-- **the dense array `generate_healpix_map` builds from content-equal maps is the same** — in
    RING order provided the `ring_to_nest` table only names pixels of the map -/
theorem genOut_sameC {s₁ s₂ : MapObj} (hc : s₁.SameC s₂) (hw1 : s₁.WF) (hv : s₁.BlankInvalid)
    (perm : Option (Array Nat × Array Nat))
    (hperm : ∀ n2r r2n, perm = some (n2r, r2n) → ∀ x, rd r2n x 0 < s₁.npix) :
    genOut s₂ perm = genOut s₁ perm := by
  have hfill : genFill s₂ = genFill s₁ := by unfold genFill; rw [hc.kind_eq, hc.sent_eq]
  obtain ⟨l₁, l₂, e1, e2, hp, _⟩ := hc.obs_valid hv
  have hlt := validPixels_lt hw1 hv e1
  have habs : ∀ q, q < s₁.npix → abs s₁.c s₁.vc s₂.st q = abs s₁.c s₁.vc s₁.st q :=
    fun q hq => (hc.same.2.2.1 q hq).symm
  unfold genOut generateHealpix generateHealpixRing
  rw [hfill, hc.c_eq, hc.vc_eq] at *
  rw [e1, e2]
  cases perm with
  | none =>
    simp only [Option.map_some]
    congr 2
    exact (gen_foldl_congr hp Int.toNat (fun j => id (abs s₁.c s₁.vc s₁.st j))
      (fun j => id (abs s₁.c s₁.vc s₂.st j)) (fun x hx => by
        show abs s₁.c s₁.vc s₁.st x.toNat = abs s₁.c s₁.vc s₂.st x.toNat
        rw [habs _ (hlt x hx)]) _).symm
  | some nr =>
    obtain ⟨n2r, r2n⟩ := nr
    simp only [Option.map_some]
    congr 2
    exact (gen_foldl_congr hp (fun x => rd n2r x.toNat 0)
      (fun j => id (abs s₁.c s₁.vc s₁.st (rd r2n j 0)))
      (fun j => id (abs s₁.c s₁.vc s₂.st (rd r2n j 0))) (fun x hx => by
        show abs s₁.c s₁.vc s₁.st _ = abs s₁.c s₁.vc s₂.st _
        rw [habs _ (hperm n2r r2n rfl _)]) _).symm

theorem genSingle_sameC {m₁ m₂ : MapObj} (hc : m₁.SameC m₂) (ok1 : m₁.Ok) (ok2 : m₂.Ok)
    (key : Option Nat) :
    ExR (fun s₁ s₂ => s₁.SameC s₂ ∧ s₁.Ok ∧ s₂.Ok ∧ s₁.spord = m₁.spord)
      (genSingle m₁ key) (genSingle m₂ key) := by
  have self : ExR (fun s₁ s₂ => s₁.SameC s₂ ∧ s₁.Ok ∧ s₂.Ok ∧ s₁.spord = m₁.spord)
      (.ok m₁) (.ok m₂) := ⟨hc, ok1, ok2, rfl⟩
  unfold genSingle
  rw [hc.kind_eq]
  cases m₁.kind with
  | recd fs pr =>
    cases key with
    | none => exact ExR.err _
    | some i =>
      simp only []
      rcases (apiGetSingleCopy_sameC hc ok1.2.1.blankInvalid i none).cases with
        ⟨r₁, r₂, x1, x2, hr⟩ | ⟨e, x1, x2⟩
      · rw [x1, x2]
        obtain ⟨_, _, _, hsp, _⟩ := WFApi.apiGetSingleCopy_ok x1
        exact ⟨hr, (Ok.apiGetSingleCopy ok1 x1).1, (Ok.apiGetSingleCopy ok2 x2).1, hsp⟩
      · rw [x1, x2]; exact ExR.err _
  | wide n => exact ExR.err _
  | packed => exact self
  | plain dt => exact self

/-- **`generate_healpix_map` on content-equal maps**: the same error or the same array — in
    RING order provided the `ring_to_nest` table only names pixels of the output resolution -/
theorem apiGenerateHealpix_sameC {m₁ m₂ : MapObj} (hc : m₁.SameC m₂) (ok1 : m₁.Ok) (ok2 : m₂.Ok)
    (ordOut : Option Nat) (red : String) (key : Option Nat) (perm : Option (Array Nat × Array Nat))
    (hperm : ∀ n2r r2n, perm = some (n2r, r2n) →
      ∀ x, rd r2n x 0 < 12 * 4 ^ (ordOut.getD m₁.spord)) :
    apiGenerateHealpix m₂ ordOut red key perm = apiGenerateHealpix m₁ ordOut red key perm := by
  rw [apiGenerateHealpix_eq, apiGenerateHealpix_eq]
  rcases (genSingle_sameC hc ok1 ok2 key).cases with ⟨s₁, s₂, x1, x2, hs, o1, o2, hsp⟩ | ⟨e, x1, x2⟩
  · rw [x1, x2]
    show genTail m₂ s₂ ordOut red perm = genTail m₁ s₁ ordOut red perm
    rw [genTail_eq, genTail_eq]
    have hfit : cellsFitF64 s₂.st.sp = cellsFitF64 s₁.st.sp := by
      unfold cellsFitF64; exact (sp_all_same hs.same _).symm
    rw [hfit, hc.spord_eq]
    split
    · rfl
    · unfold genDeg
      rw [hc.spord_eq]
      generalize ho : ordOut.getD m₁.spord = o at hperm
      split
      · rename_i hlt
        rcases (apiDegrade_sameC hs o1 o2 (v₁ := none) (v₂ := none) trivial
          (fun a ha => nomatch ha) o red).cases with ⟨r₁, r₂, y1, y2, hr⟩ | ⟨e, y1, y2⟩
        · rw [y1, y2]
          show genOut r₂ perm = genOut r₁ perm
          obtain ⟨ro, rsp, _⟩ := C07.api_degrade_layout o1 y1
          refine genOut_sameC hr ro.1 ro.2.1.blankInvalid perm fun n2r r2n hp x => ?_
          show rd r2n x 0 < (cfgOf r₁.covord r₁.spord).npix
          rw [ApiDegrade.cfgOf_npix ro.1.1, rsp]
          exact hperm n2r r2n hp x
        · rw [y1, y2]
      · split
        · rfl
        · rename_i h1 h2
          show genOut s₂ perm = genOut s₁ perm
          refine genOut_sameC hs o1.1 o1.2.1.blankInvalid perm fun n2r r2n hp x => ?_
          show rd r2n x 0 < (cfgOf s₁.covord s₁.spord).npix
          rw [ApiDegrade.cfgOf_npix o1.1.1, hsp]
          have : o = m₁.spord := by omega
          rw [← this]
          exact hperm n2r r2n hp x
  · rw [x1, x2]; rfl

/-- the inverse table `opGenhp` builds from an `n2r=` list only names positions of the list -/
theorem r2n_table_lt (t : List Nat) (x : Nat) :
    rd ((List.range t.length).foldl (fun (acc : Array Nat) p => acc.setIfInBounds (rd t.toArray p 0) p)
        (Array.replicate t.length 0)) x 0 = 0 ∨
    rd ((List.range t.length).foldl (fun (acc : Array Nat) p => acc.setIfInBounds (rd t.toArray p 0) p)
        (Array.replicate t.length 0)) x 0 < t.length := by
  have key : ∀ (l : List Nat) (acc : Array Nat), (∀ p ∈ l, p < t.length) →
      (∀ (i v : Nat), acc[i]? = some v → v = 0 ∨ v < t.length) →
      ∀ (i v : Nat), (l.foldl (fun (acc : Array Nat) p => acc.setIfInBounds (rd t.toArray p 0) p) acc)[i]? = some v →
        v = 0 ∨ v < t.length := by
    intro l
    induction l with
    | nil => intro acc _ h; exact h
    | cons p ps ih =>
      intro acc hl h
      rw [List.foldl_cons]
      refine ih (acc.setIfInBounds (rd t.toArray p 0) p) (fun q hq => hl q (List.mem_cons_of_mem _ hq)) ?_
      intro i v hv
      rw [Array.getElem?_setIfInBounds] at hv
      split at hv
      · split at hv
        · cases hv; exact .inr (hl p List.mem_cons_self)
        · cases hv
      · exact h i v hv
  have inv := key (List.range t.length) (Array.replicate t.length 0)
    (fun p hp => List.mem_range.1 hp) (by
      intro i v hv
      rw [Array.getElem?_replicate] at hv
      split at hv
      · cases hv; exact .inl rfl
      · cases hv)
  generalize (List.range t.length).foldl (fun (acc : Array Nat) p => acc.setIfInBounds (rd t.toArray p 0) p)
        (Array.replicate t.length 0) = A at inv ⊢
  show (A[x]?).getD 0 = 0 ∨ (A[x]?).getD 0 < t.length
  cases hx : A[x]? with
  | none => exact .inl rfl
  | some v => exact inv x v hx

/-- `genhp` with `nest=0` and an `n2r=` table LONGER than the output map: the model then reads
    the dense view at pixel numbers past the map, i.e. raw storage (outside the simulation) -/
def genhpLong (w : World) (a : Args) : Bool :=
  a.getD "nest" "1" != "1" &&
  match w.get? (a.pos.headD ""), parseNats (a.getD "n2r" "_") with
  | some m, some t => decide (12 * 4 ^ ((a.nat? "ord").getD m.spord) < t.length)
  | _, _ => false

theorem SimR.ite_same (h : w₁.SameW w₂) {c : Bool} (s : String) {x y : World × String}
    (hxy : SimR x y) : SimR (if c = true then (w₁, s) else x) (if c = true then (w₂, s) else y) := by
  cases c
  · exact hxy
  · exact SimR.same h s

theorem same_opGenhp (h : w₁.SameW w₂) (g₁ : w₁.Good) (g₂ : w₂.Good) (a : Args)
    (hex : genhpLong w₁ a = false) : SimR (opGenhp w₁ a) (opGenhp w₂ a) := by
  unfold opGenhp
  refine same_withMap h g₁ g₂ fun n m₁ m₂ hn e1 e2 hc ok1 ok2 => ?_
  rw [hc.kind_eq]
  refine SimR.ite_same h _ ?_
  · have tail : ∀ perm : Option (Array Nat × Array Nat),
        (∀ n2r r2n, perm = some (n2r, r2n) →
          ∀ x, rd r2n x 0 < 12 * 4 ^ ((a.nat? "ord").getD m₁.spord)) →
        SimR (match apiGenerateHealpix m₁ (a.nat? "ord") (a.getD "red" "mean") (a.nat? "key") perm with
            | .ok l => (w₁, showVals l)
            | .error e => (w₁, errLine e))
          (match apiGenerateHealpix m₂ (a.nat? "ord") (a.getD "red" "mean") (a.nat? "key") perm with
            | .ok l => (w₂, showVals l)
            | .error e => (w₂, errLine e)) := by
      intro perm hperm
      rw [apiGenerateHealpix_sameC hc ok1 ok2 _ _ _ perm hperm]
      cases apiGenerateHealpix m₁ (a.nat? "ord") (a.getD "red" "mean") (a.nat? "key") perm <;>
        exact SimR.same h _
    cases hnest : (a.getD "nest" "1" == "1") with
    | true =>
      simp only [if_true]
      exact tail none (fun _ _ hp => nomatch hp)
    | false =>
      simp only [Bool.false_eq_true, if_false]
      cases hp : parseNats (a.getD "n2r" "_") with
      | none => exact SimR.same h _
      | some t =>
        simp only []
        refine tail _ fun n2r r2n hpr x => ?_
        cases hpr
        have hlen : t.length ≤ 12 * 4 ^ ((a.nat? "ord").getD m₁.spord) := by
          unfold genhpLong at hex
          rw [hn, e1, hp] at hex
          have hne : (a.getD "nest" "1" != "1") = true := by simp [bne, hnest]
          rw [hne, Bool.true_and] at hex
          simp only [decide_eq_false_iff_not] at hex
          omega
        have hpos : 0 < 12 * 4 ^ ((a.nat? "ord").getD m₁.spord) :=
          Nat.mul_pos (by decide) (Nat.pow_pos (by decide))
        have := r2n_table_lt t x
        omega

/-! ### degrade-on-read (`dor`): the blocks of content-equal files read alike -/

section blocks
variable {V : Type} [DecidableEq V] {c : Cfg} {vc : VCfg V}

/-- reading cell `i` of the block of coverage pixel `k` by row range (whatever the default): the
    dense view there — for an uncovered pixel the row range is the overflow block -/
theorem blockRead_abs {s : State V} (h : Inv c vc s) {k i : Nat} (hk : k < c.ncov)
    (hi : i < c.nfine) (d : V) :
    rd s.sp ((blockStart c s k).toNat + i) d = abs c vc s (k * c.nfine + i) := by
  have hsz := h.size_eq
  cases hc : covered c s k with
  | true =>
    obtain ⟨b, hb, hbs⟩ := h.covered_blk hk hc
    rw [abs_block c vc s hbs hi, hbs, Int.toNat_natCast]
    have hlt : (b + 1) * c.nfine + i < s.sp.size := by
      rw [hsz]
      calc (b + 1) * c.nfine + i < (b + 1) * c.nfine + c.nfine := by omega
        _ = (b + 2) * c.nfine := by rw [← Nat.succ_mul]
        _ ≤ (nblk c s + 1) * c.nfine := Nat.mul_le_mul_right _ (by omega)
    unfold rd
    rw [Array.getElem?_eq_getElem hlt]
    rfl
  | false =>
    have hbs : blockStart c s k = 0 := by
      have hlt := (covered_eq_false_iff c s k).1 hc
      rcases h.2.2.2.1 k hk with h0 | ⟨h1, _⟩
      · exact h0
      · omega
    have hp : k * c.nfine + i < c.npix := mul_add_lt_mul hk hi
    rw [h.abs_uncovered hp (by rw [shift_eq_div, (mul_add_div_mod hi).1]; exact hc), hbs,
      Int.toNat_zero, Nat.zero_add]
    unfold rd
    rw [h.2.2.1 i hi]
    rfl

theorem blockRead_same {s₁ s₂ : State V} (hS : C10.Same c vc s₁ s₂) {k i : Nat} (hk : k < c.ncov)
    (hi : i < c.nfine) (d₁ d₂ : V) :
    rd s₁.sp ((blockStart c s₁ k).toNat + i) d₁ = rd s₂.sp ((blockStart c s₂ k).toNat + i) d₂ := by
  rw [blockRead_abs hS.1 hk hi, blockRead_abs hS.2.1 hk hi]
  exact hS.2.2.1 _ (mul_add_lt_mul hk hi)

end blocks

section dorfiles
variable {V W : Type}

theorem dorPixels_cov_congr {c : Cfg} {F₁ F₂ : FitsFile V}
    (hcov : ∀ k, k < c.ncov → covered c (readFull F₁) k = covered c (readFull F₂) k)
    (pixels : Option (List Nat)) : dorPixels c F₁ pixels = dorPixels c F₂ pixels := by
  unfold dorPixels partialPixels
  cases pixels with
  | none =>
    simp only []
    congr 1
    apply List.filter_congr
    intro k hk
    exact hcov k (List.mem_range.1 hk)
  | some l =>
    simp only []
    have : (l.filter fun k => decide (k < c.ncov) && covered c (⟨F₁.cov, F₁.data⟩ : State V) k)
        = l.filter fun k => decide (k < c.ncov) && covered c (⟨F₂.cov, F₂.data⟩ : State V) k := by
      apply List.filter_congr
      intro k _
      by_cases hk : k < c.ncov
      · have := hcov k hk
        unfold readFull at this
        rw [this]
      · simp [hk]
    rw [this]

theorem dorPixels_mem_lt {c : Cfg} {F : FitsFile V} {pixels : Option (List Nat)} {px : List Nat}
    (h : dorPixels c F pixels = some px) : ∀ k ∈ px, k < c.ncov := by
  intro k hk
  cases pixels with
  | none =>
    have e : px = allCovered c (readFull F) := (Option.some.inj h).symm
    rw [e] at hk
    exact ((mem_allCovered _ _ k).1 hk).1
  | some l =>
    have h' : dorPixels c (writeFits (readFull F)) (some l) = some px := h
    rw [dorPixels_some] at h'
    split at h'
    · cases h'
    · split at h'
      · cases h'
      · cases h'
        exact ((mem_partialPixels c (readFull F) l k).1 hk).2.1

theorem flatMap_congr_mem {α β : Type} {l : List α} {f g : α → List β} (h : ∀ a ∈ l, f a = g a) :
    l.flatMap f = l.flatMap g := by
  induction l with
  | nil => rfl
  | cons a as ih =>
    rw [List.flatMap_cons, List.flatMap_cons, h a List.mem_cons_self,
      ih fun x hx => h x (List.mem_cons_of_mem _ hx)]

variable [DecidableEq V]

/-- **degrade-on-read of content-equal files gives the SAME arrays** (the blocks are processed in
    ascending order of the coverage pixels, whatever their order in the file) -/
theorem degradeOnRead_same {c : Cfg} {vc : VCfg V} {F₁ F₂ : FitsFile V} {g : Nat}
    (hS : C10.Same c vc (readFull F₁) (readFull F₂)) (hg : g ≤ c.shift)
    (pixels : Option (List Nat)) (red : List V → W) (sentOut : W) :
    degradeOnRead c vc F₂ pixels g red sentOut = degradeOnRead c vc F₁ pixels g red sentOut := by
  unfold degradeOnRead
  rw [dorPixels_cov_congr (fun k hk => (hS.2.2.2 k hk).symm) pixels]
  cases hpx : dorPixels c F₁ pixels with
  | none => rfl
  | some px =>
    simp only [Option.map_some]
    congr 2
    congr 2
    apply flatMap_congr_mem
    intro k hk
    have hlt := dorPixels_mem_lt hpx k hk
    apply List.map_congr_left
    intro r hr
    congr 1
    apply List.map_congr_left
    intro j hj
    have hi : r * 2 ^ g + j < c.nfine :=
      (child_split c hg (K := k) (List.mem_range.1 hr) (List.mem_range.1 hj)).2
    rw [Nat.add_assoc, Nat.add_assoc]
    exact (blockRead_same hS hlt hi _ _).symm

theorem degradeOnReadW_same {X : Type} [DecidableEq X] {c : Cfg} {vc : VCfg V} {vcX : VCfg X}
    {F₁ F₂ : FitsFile V} {G₁ G₂ : FitsFile X} {g : Nat}
    (hS : C10.Same c vc (readFull F₁) (readFull F₂))
    (hW : C10.Same c vcX (readFull G₁) (readFull G₂)) (hg : g ≤ c.shift) (dflt : X) (prep : X → X)
    (pixels : Option (List Nat)) (red : List (V × X) → W) (sentOut : W) :
    degradeOnReadW c vc F₂ G₂ dflt prep pixels g red sentOut
      = degradeOnReadW c vc F₁ G₁ dflt prep pixels g red sentOut := by
  unfold degradeOnReadW
  rw [dorPixels_cov_congr (fun k hk => (hS.2.2.2 k hk).symm) pixels]
  cases hpx : dorPixels c F₁ pixels with
  | none => rfl
  | some px =>
    simp only [Option.map_some]
    congr 2
    congr 2
    apply flatMap_congr_mem
    intro k hk
    have hlt := dorPixels_mem_lt hpx k hk
    apply List.map_congr_left
    intro r hr
    congr 1
    apply List.map_congr_left
    intro j hj
    have hi : r * 2 ^ g + j < c.nfine :=
      (child_split c hg (K := k) (List.mem_range.1 hr) (List.mem_range.1 hj)).2
    rw [Nat.add_assoc, Nat.add_assoc, Nat.add_assoc, Nat.add_assoc]
    congr 1
    · exact (blockRead_same hS hlt hi _ _).symm
    · congr 1
      exact (blockRead_same hW hlt hi _ _).symm

end dorfiles

/-! ### degrade-on-read: the API function on content-equal files -/

open ApiDor in
/-- the same headers, other arrays -/
def reFile (f : FileObj) (F : FitsFile Val) : FileObj := { f with file := F }

section refile
variable (f : FileObj) (F : FitsFile Val)
@[simp] theorem reFile_covord : (reFile f F).covord = f.covord := rfl
@[simp] theorem reFile_spord : (reFile f F).spord = f.spord := rfl
@[simp] theorem reFile_arrDT : (reFile f F).arrDT = f.arrDT := rfl
@[simp] theorem reFile_sentinel : (reFile f F).sentinel = f.sentinel := rfl
@[simp] theorem reFile_wwidth : (reFile f F).wwidth = f.wwidth := rfl
@[simp] theorem reFile_bitpack : (reFile f F).bitpack = f.bitpack := rfl
@[simp] theorem reFile_mdata : (reFile f F).mdata = f.mdata := rfl
@[simp] theorem reFile_file : (reFile f F).file = F := rfl
@[simp] theorem reFile_fileKind : fileKind (reFile f F) = fileKind f := rfl
end refile

theorem FileObj.SameF.eq_reFile {f g : FileObj} (h : f.SameF g) : g = reFile f g.file := by
  obtain ⟨h1, h2, h3, h4, h5, h6, h7, h8, h9, _⟩ := h
  obtain ⟨a1, a2, a3, a4, a5, a6, a7, a8, a9, a10⟩ := f
  obtain ⟨b1, b2, b3, b4, b5, b6, b7, b8, b9, b10⟩ := g
  simp only at h1 h2 h3 h4 h5 h6 h7 h8 h9
  subst h1 h2 h3 h4 h5 h6 h7 h8 h9
  rfl

open ApiDor in
theorem dorTail_same (f : FileObj) (F₂ : FitsFile Val) (kind : Kind)
    (hS : C10.Same (fCfg f) (fVC f kind) (readFull f.file) (readFull F₂))
    (wf : Option FileObj) (G₂ : FitsFile Val) (useW : Bool) {ord : Nat}
    (hg : 2 * (f.spord - ord) ≤ (fCfg f).shift)
    (hW : ∀ w, wf = some w → useW = true →
      ∃ vcX : VCfg Val, C10.Same (fCfg f) vcX (readFull w.file) (readFull G₂))
    (red : String) (pixels : Option (List Nat)) :
    dorTail (reFile f F₂) ord red pixels (wf.map (reFile · G₂)) useW kind
      = dorTail f ord red pixels wf useW kind := by
  have hU := fun (r : List Val → Val) (so : Val) =>
    degradeOnRead_same (W := Val) hS hg pixels r so
  unfold dorTail dorMk
  simp only [reFile_covord, reFile_spord, reFile_sentinel, reFile_file]
  cases kind with
  | packed => rfl
  | wide n =>
    simp only []
    split
    · rfl
    · rw [hU]
  | recd fs pr =>
    simp only []
    split
    · rfl
    · split
      · rfl
      · cases wf with
        | none => simp only [Option.map_none]; rw [hU]
        | some w =>
          cases useW with
          | false => simp only [Option.map_some]; rw [hU]
          | true =>
            obtain ⟨vcX, hX⟩ := hW w rfl rfl
            simp only [Option.map_some, reFile_sentinel, reFile_file]
            rw [degradeOnReadW_same hS hX hg]
  | plain dt0 =>
    simp only []
    generalize (if (dt0 == DT.bool) = true then DT.int 16 true else dt0) = dt
    split
    · rw [hU]
    · split
      · rfl
      · split
        · rfl
        · cases wf with
          | none => simp only [Option.map_none]; rw [hU]
          | some w =>
            cases useW with
            | false => simp only [Option.map_some]; rw [hU]
            | true =>
              obtain ⟨vcX, hX⟩ := hW w rfl rfl
              simp only [Option.map_some, reFile_sentinel, reFile_file]
              rw [degradeOnReadW_same hS hX hg]

open ApiDor in
theorem dorW1_reFile (f : FileObj) (F : FitsFile Val) (red : String) (wf : Option FileObj)
    (G : FitsFile Val) : dorW1 (reFile f F) red (wf.map (reFile · G)) = dorW1 f red wf := by
  cases wf <;> rfl

open ApiDor in
theorem dorW2_reFile (f : FileObj) (F : FitsFile Val) (useW : Bool) (wf : Option FileObj)
    (G : FitsFile Val) : dorW2 (reFile f F) useW (wf.map (reFile · G)) = dorW2 f useW wf := by
  cases wf <;> rfl

open ApiDor in
theorem dorW1_true {f w : FileObj} {red : String} (h : dorW1 f red (some w) = .ok true) :
    w.covord = f.covord := by
  unfold dorW1 at h
  simp only [] at h
  split at h
  · split at h
    · cases h
    · rename_i hne
      simpa using hne
  · cases h

open ApiDor in
theorem dorW1_none {f : FileObj} {red : String} {u : Bool} (h : dorW1 f red none = .ok u) :
    u = false := by
  cases h; rfl

open ApiDor in
/-- a weight file that passes the type checks is read back as some kind -/
theorem wkind_exists {f w : FileObj} (h : dorW2 f true (some w) = false) :
    w.spord = f.spord ∧ ∃ K, fileKind w = some K := by
  obtain ⟨h1, h2, h3, ⟨b, h4⟩, h5⟩ := (dorW2_false_iff f w).1 h
  refine ⟨h1, ?_⟩
  unfold fileKind
  split
  · exact ⟨_, rfl⟩
  · simp only [h2, Bool.false_eq_true, if_false, h3, h4]
    cases hs : w.sentinel with
    | bool x => rw [hs] at h5; cases h5
    | _ => exact ⟨_, rfl⟩

open ApiDor in
/-- **degrade-on-read of content-equal files (and weight files)**: the same error or the SAME map -/
theorem dorSpec_same (f : FileObj) (F₂ : FitsFile Val) (wf : Option FileObj) (G₂ : FitsFile Val)
    (hcov : ∀ k, k < (fCfg f).ncov →
      covered (fCfg f) (readFull f.file) k = covered (fCfg f) (readFull F₂) k)
    (hS : ∀ kind, fileKind f = some kind →
      C10.Same (fCfg f) (fVC f kind) (readFull f.file) (readFull F₂))
    (hWc : ∀ w, wf = some w → ∀ k, k < (fCfg w).ncov →
      covered (fCfg w) (readFull w.file) k = covered (fCfg w) (readFull G₂) k)
    (hWS : ∀ w, wf = some w → ∀ kind, fileKind w = some kind →
      C10.Same (fCfg w) (fVC w kind) (readFull w.file) (readFull G₂))
    (ord : Nat) (red : String) (pixels : Option (List Nat)) :
    dorSpec (reFile f F₂) ord red pixels (wf.map (reFile · G₂)) = dorSpec f ord red pixels wf := by
  unfold dorSpec
  simp +instances only [reFile_covord, reFile_spord, reFile_bitpack, reFile_file, reFile_fileKind,
    dorW1_reFile, dorW2_reFile]
  rw [← dorPixels_cov_congr hcov pixels]
  cases hpx : dorPixels (cfgOf f.covord f.spord) f.file pixels with
  | none => rfl
  | some px =>
    simp only []
    cases hw1 : dorW1 f red wf with
    | error e => rfl
    | ok useW =>
      simp only []
      split
      · rfl
      rename_i hhi
      split
      · rfl
      split
      · rfl
      rename_i hw2
      by_cases hlo : ord < f.covord
      · simp only [hlo, ↓reduceIte]
      simp only [hlo, ↓reduceIte]
      cases hk : fileKind f with
      | none => rfl
      | some kind =>
        simp only []
        have hSk := hS kind hk
        have hplt := dorPixels_mem_lt hpx
        -- the weight file's configuration and content, when it is used
        have hWuse : ∀ w, wf = some w → useW = true →
            fCfg w = fCfg f ∧ ∃ vcX : VCfg Val, C10.Same (fCfg f) vcX (readFull w.file) (readFull G₂) := by
          intro w hw hu
          subst hw hu
          have hco := dorW1_true hw1
          have hw2' : dorW2 f true (some w) = false := by
            cases hx : dorW2 f true (some w) with
            | false => rfl
            | true => exact absurd hx hw2
          obtain ⟨hso, K, hK⟩ := wkind_exists hw2'
          have hcfg : fCfg w = fCfg f := by unfold fCfg; rw [hco, hso]
          refine ⟨hcfg, fVC w K, ?_⟩
          have := hWS w rfl K hK
          rw [hcfg] at this
          exact this
        have hw3 : dorW3 (reFile f F₂) kind px useW (wf.map (reFile · G₂)) = dorW3 f kind px useW wf := by
          cases wf with
          | none => rfl
          | some w =>
            cases useW with
            | false => rfl
            | true =>
              obtain ⟨hcfg, _⟩ := hWuse w rfl rfl
              unfold dorW3
              simp only [Bool.true_and, Option.map_some, reFile_covord, reFile_spord, reFile_file]
              congr 1
              apply ApiMulti.all_congr_mem
              intro k hk'
              have hlt := hplt k hk'
              congr 1
              · have := hWc w rfl k (by rw [hcfg]; exact hlt)
                exact this.symm
              · congr 1
                unfold observed
                simp only [reFile_covord, reFile_spord, reFile_sentinel, reFile_file]
                apply ApiMulti.any_congr_mem
                intro j hj
                congr 1
                exact (blockRead_same hSk hlt (List.mem_range.1 hj) _ _).symm
        have hfit : cellsFitF64 F₂.data = cellsFitF64 f.file.data := by
          unfold cellsFitF64
          exact (sp_all_same hSk _).symm
        simp only [hw3, hfit]
        by_cases h3 : dorW3 f kind px useW wf = true
        · simp only [h3, ↓reduceIte]
        simp only [h3]
        by_cases h4 : (!(red == "and" || red == "or") && !cellsFitF64 f.file.data) = true
        · simp only [h4, ↓reduceIte]
        simp only [h4]
        have hg : 2 * (f.spord - ord) ≤ (fCfg f).shift := by
          show _ ≤ 2 * (f.spord - f.covord)
          omega
        exact dorTail_same f F₂ kind hSk wf G₂ useW hg
            (fun w hw hu => (hWuse w hw hu).2) red pixels

/-- optional (weight) files in content-equal worlds -/
def OptSameF : Option FileObj → Option FileObj → Prop
  | none, none => True
  | some a, some b => a.SameF b
  | _, _ => False

/-- **`read(…, degrade_nside=…)` on content-equal files (and weight files)**: the same error or
    the same map — array for array -/
theorem apiDegradeOnRead_sameF {f₁ f₂ : FileObj} (hf : f₁.SameF f₂) {wf₁ wf₂ : Option FileObj}
    (hw : OptSameF wf₁ wf₂) (ord : Nat) (red : String) (pixels : Option (List Nat)) :
    apiDegradeOnRead f₂ ord red pixels wf₂ = apiDegradeOnRead f₁ ord red pixels wf₁ := by
  rw [ApiDor.apiDegradeOnRead_eq, ApiDor.apiDegradeOnRead_eq, hf.eq_reFile]
  have hcov := hf.2.2.2.2.2.2.2.2.2.1
  have hS := hf.2.2.2.2.2.2.2.2.2.2
  cases wf₁ with
  | none =>
    cases wf₂ with
    | some b => exact hw.elim
    | none =>
      exact dorSpec_same f₁ f₂.file none f₁.file hcov hS (fun w hw => nomatch hw)
        (fun w hw => nomatch hw) ord red pixels
  | some a =>
    cases wf₂ with
    | none => exact hw.elim
    | some b =>
      have hab : a.SameF b := hw
      rw [hab.eq_reFile]
      exact dorSpec_same f₁ f₂.file (some a) b.file hcov hS
        (fun w hw => by cases hw; exact hab.2.2.2.2.2.2.2.2.2.1)
        (fun w hw => by cases hw; exact hab.2.2.2.2.2.2.2.2.2.2) ord red pixels

/-- the FITS-file branch of `opDor` -/
def opDorFits (w : World) (a : Args) : World × String :=
    match (w.files.find? (·.1 == a.getD "f" "f")).map (·.2), a.nat? "ord" with
    | some fo, some ord =>
      let px? : Option (Option (List Nat)) := match a.get? "pixels" with
        | none => some none
        | some t => (parseNats t).map some
      let wf? : Option (Option FileObj) := match a.get? "wf" with
        | none => some none
        | some n => ((w.files.find? (·.1 == n)).map (·.2)).map some
      (match px?, wf? with
       | some px, some wf =>
         (match apiDegradeOnRead fo ord (a.getD "red" "mean") px wf with
          | .ok m =>
            let r := a.getD "r" "tmp"
            let w := w.bind r m
            ({ w with metas := (r, fo.mdata) :: w.metas.filter (·.1 != r) }, "ok")
          | .error e => (w, errLine e))
       | _, _ => (w, "bad-op:dor"))
    | none, _ => (w, "bad-op:no-such-map")
    | _, _ => (w, "bad-op:dor")

theorem opDor_eq (w : World) (a : Args) :
    opDor w a =
      match (w.hpfiles.find? (·.1 == a.getD "f" "f")).map (·.2), a.nat? "ord", a.nat? "covord" with
      | some hf, some ord, some co =>
        if (a.get? "wf").isSome then (w, errLine .notImpl) else
        (match apiReadHealpix hf co (((a.get? "r2n").bind parseNats).map List.toArray) with
         | .error e => (w, errLine e)
         | .ok m =>
           match apiDegrade m ord (a.getD "red" "mean") none with
           | .ok d => (w.bind (a.getD "r" "tmp") { d with cache := none }, "ok")
           | .error e => (w, errLine e))
      | _, _, _ => opDorFits w a := rfl

theorem same_opDorFits (h : w₁.SameW w₂) (a : Args) : SimR (opDorFits w₁ a) (opDorFits w₂ a) := by
  unfold opDorFits
  rcases h.file (a.getD "f" "f") with ⟨e1, e2⟩ | ⟨f, g, e1, e2, hf⟩
  · rw [e1, e2]
    cases a.nat? "ord" <;> exact SimR.same h _
  · rw [e1, e2]
    cases hord : a.nat? "ord" with
    | none => exact SimR.same h _
    | some ord =>
      simp only []
      have tail : ∀ (px : Option (List Nat)) (x₁ x₂ : Option FileObj), OptSameF x₁ x₂ →
          SimR (match apiDegradeOnRead f ord (a.getD "red" "mean") px x₁ with
            | .ok m =>
              ({ w₁.bind (a.getD "r" "tmp") m with
                  metas := (a.getD "r" "tmp", f.mdata) ::
                    (w₁.bind (a.getD "r" "tmp") m).metas.filter (·.1 != a.getD "r" "tmp") }, "ok")
            | .error e => (w₁, errLine e))
          (match apiDegradeOnRead g ord (a.getD "red" "mean") px x₂ with
            | .ok m =>
              ({ w₂.bind (a.getD "r" "tmp") m with
                  metas := (a.getD "r" "tmp", g.mdata) ::
                    (w₂.bind (a.getD "r" "tmp") m).metas.filter (·.1 != a.getD "r" "tmp") }, "ok")
            | .error e => (w₂, errLine e)) := by
        intro px x₁ x₂ hx
        rw [apiDegradeOnRead_sameF hf hx ord _ px]
        cases hr : apiDegradeOnRead f ord (a.getD "red" "mean") px x₁ with
        | error e => exact SimR.same h _
        | ok m =>
          have hm : m.WF := WF.apiDegradeOnRead' hr
          refine ⟨rfl, (h.bind _ (.refl hm)).with_metas' ?_⟩
          show _ :: List.filter _ w₁.metas = _ :: List.filter _ w₂.metas
          rw [h.2.2.2.2.2, hf.2.2.2.2.2.2.2.2.1]
      have wfpart : ∀ px : Option (List Nat),
          SimR (match (some px : Option (Option (List Nat))),
              (match a.get? "wf" with
                | none => (some none : Option (Option FileObj))
                | some n => ((w₁.files.find? (·.1 == n)).map (·.2)).map some) with
            | some px, some wf =>
              (match apiDegradeOnRead f ord (a.getD "red" "mean") px wf with
              | .ok m =>
                ({ w₁.bind (a.getD "r" "tmp") m with
                    metas := (a.getD "r" "tmp", f.mdata) ::
                      (w₁.bind (a.getD "r" "tmp") m).metas.filter (·.1 != a.getD "r" "tmp") }, "ok")
              | .error e => (w₁, errLine e))
            | _, _ => (w₁, "bad-op:dor"))
          (match (some px : Option (Option (List Nat))),
              (match a.get? "wf" with
                | none => (some none : Option (Option FileObj))
                | some n => ((w₂.files.find? (·.1 == n)).map (·.2)).map some) with
            | some px, some wf =>
              (match apiDegradeOnRead g ord (a.getD "red" "mean") px wf with
              | .ok m =>
                ({ w₂.bind (a.getD "r" "tmp") m with
                    metas := (a.getD "r" "tmp", g.mdata) ::
                      (w₂.bind (a.getD "r" "tmp") m).metas.filter (·.1 != a.getD "r" "tmp") }, "ok")
              | .error e => (w₂, errLine e))
            | _, _ => (w₂, "bad-op:dor")) := by
        intro px
        cases a.get? "wf" with
        | none => exact tail px none none trivial
        | some n =>
          simp only []
          rcases h.file n with ⟨q1, q2⟩ | ⟨x, y, q1, q2, hxy⟩
          · rw [q1, q2]; exact SimR.same h _
          · rw [q1, q2]; exact tail px (some x) (some y) hxy
      cases a.get? "pixels" with
      | none => exact wfpart none
      | some t =>
        simp only []
        cases parseNats t with
        | none => exact SimR.same h _
        | some l => exact wfpart (some l)


theorem same_opDor (h : w₁.SameW w₂) (a : Args) : SimR (opDor w₁ a) (opDor w₂ a) := by
  rw [opDor_eq, opDor_eq]
  rcases h.hpfile (a.getD "f" "f") with ⟨e1, e2⟩ | ⟨f, g, e1, e2, hfg⟩
  · rw [e1, e2]
    exact same_opDorFits h a
  · rw [e1, e2]
    cases a.nat? "ord" with
    | none => exact same_opDorFits h a
    | some ord =>
      cases a.nat? "covord" with
      | none => exact same_opDorFits h a
      | some co =>
        simp only []
        split
        · exact SimR.same h _
        · rcases (apiReadHealpix_hpSame hfg co (((a.get? "r2n").bind parseNats).map List.toArray)).cases with
            ⟨m₁, m₂, x1, x2, hm⟩ | ⟨e, x1, x2⟩
          · rw [x1, x2]
            simp only []
            rcases (apiDegrade_sameC hm (Ok.apiReadHealpix x1).1 (Ok.apiReadHealpix x2).1
              (v₁ := none) (v₂ := none) trivial (fun x hx => nomatch hx) ord
              (a.getD "red" "mean")).cases with ⟨d₁, d₂, y1, y2, hd⟩ | ⟨e, y1, y2⟩
            · rw [y1, y2]; exact ⟨rfl, h.bind _ (hd.with_cache none)⟩
            · rw [y1, y2]; exact SimR.same h _
          · rw [x1, x2]; exact SimR.same h _

/-! ### `cat_healsparse_files` (`cat`): content-equal inputs give the SAME output arrays -/

section catfiles
variable {V : Type} [DecidableEq V] {c : Cfg} {vc : VCfg V}

omit [DecidableEq V] in
theorem partialPixels_cov_congr {F₁ F₂ : FitsFile V}
    (hcov : ∀ k, k < c.ncov → covered c (readFull F₁) k = covered c (readFull F₂) k)
    (l : List Nat) : partialPixels c F₁ l = partialPixels c F₂ l := by
  unfold partialPixels
  congr 1
  apply List.filter_congr
  intro k _
  by_cases hk : k < c.ncov
  · have := hcov k hk
    unfold readFull at this
    rw [this]
  · simp [hk]

omit [DecidableEq V] in
theorem mem_partialPixels_lt {F : FitsFile V} {l : List Nat} {k : Nat}
    (hk : k ∈ partialPixels c F l) : k < c.ncov :=
  ((mem_partialPixels c (readFull F) l k).1 hk).2.1

/-- `_read_partial_sparsemap` of content-equal files: the same arrays -/
theorem catPartial_same {F₁ F₂ : FitsFile V} (hS : C10.Same c vc (readFull F₁) (readFull F₂))
    (pixels : List Nat) : catPartial c vc F₂ pixels = catPartial c vc F₁ pixels := by
  unfold catPartial
  rw [partialPixels_cov_congr (fun k hk => (hS.2.2.2 k hk).symm) pixels]
  simp only []
  congr 2
  congr 1
  · apply List.map_congr_left
    intro j hj
    have hj' := List.mem_range.1 hj
    have h1 := hS.1.2.2.1 j hj'
    have h2 := hS.2.1.2.2.1 j hj'
    unfold rd
    rw [Nat.zero_add]
    show (F₂.data[j]?).getD _ = (F₁.data[j]?).getD _
    rw [show F₁.data[j]? = some vc.sentinel from h1, show F₂.data[j]? = some vc.sentinel from h2]
  · apply flatMap_congr_mem
    intro k hk
    have hlt := mem_partialPixels_lt hk
    apply List.map_congr_left
    intro j hj
    exact (blockRead_same hS hlt (List.mem_range.1 hj) _ _).symm

theorem covered_same_all {s₁ s₂ : State V} (hS : C10.Same c vc s₁ s₂) (k : Nat) :
    covered c s₂ k = covered c s₁ k := by
  by_cases hk : k < c.ncov
  · exact (hS.2.2.2 k hk).symm
  · unfold covered blockStart rd
    have h1 : s₁.cov[k]? = none := by
      rw [Array.getElem?_eq_none_iff, hS.1.1]; omega
    have h2 : s₂.cov[k]? = none := by
      rw [Array.getElem?_eq_none_iff, hS.2.1.1]; omega
    rw [h1, h2]

/-- two inputs of the concatenation: the same configuration, content-equal extensions -/
def InSame (vc : VCfg V) (a b : CatIn V) : Prop := b.c = a.c ∧ C10.Same a.c vc a.state b.state

theorem catSummary_same {cOut : Cfg} {a b : CatIn V} (h : InSame vc a b)
    (hv : vc.valid vc.sentinel = false) (k : Nat) :
    catSummary cOut vc b k = catSummary cOut vc a k := by
  obtain ⟨hc, hS⟩ := h
  unfold catSummary
  rw [hc]
  split
  · exact covered_same_all hS k
  · split
    · obtain ⟨l₁, l₂, e1, e2, hp⟩ := (C10.same_queries a.c vc a.state b.state hS hv).1
      rw [e1, e2]
      exact (perm_any_eq hp _).symm
    · apply ApiMulti.any_congr_mem
      intro ki _
      rw [covered_same_all hS ki]

theorem catContribution_same {cOut : Cfg} {a b : CatIn V} (h : InSame vc a b) (pix : Nat) :
    catContribution cOut vc b pix = catContribution cOut vc a pix := by
  obtain ⟨hc, hS⟩ := h
  have hP : ∀ l, catPartial a.c vc b.f l = catPartial a.c vc a.f l := fun l => catPartial_same hS l
  unfold catContribution
  simp only [hc, hP]

/-- what the concatenation loop uses of an input -/
def catView (cOut : Cfg) (vc : VCfg V) (i : CatIn V) : Nat × (Nat → Bool) × (Nat → List (Nat × V)) :=
  (i.c.shift, catSummary cOut vc i, catContribution cOut vc i)

/-- the loop over the views -/
def catFilesV (cOut : Cfg) (vc : VCfg V) (views : List (Nat × (Nat → Bool) × (Nat → List (Nat × V))))
    (checkOverlap orOk : Bool) (orF : V → V → V) : Option (State V) :=
  let covPix := (List.range cOut.ncov).filter fun k => views.any fun i => i.2.1 k
  covPix.foldl (fun acc pix =>
    views.foldl (fun acc i =>
      match acc with
      | none => none
      | some out =>
        if i.2.1 pix then
          let L := i.2.2 pix
          if cOut.shift < i.1 && L.isEmpty then some out
          else catStep cOut vc checkOverlap orOk orF out L
        else some out) acc) (some (makeEmpty cOut vc []))

omit [DecidableEq V] in
theorem catFiles_eq_views (cOut : Cfg) (vc : VCfg V) (inputs : List (CatIn V)) (co oo : Bool)
    (orF : V → V → V) :
    catFiles cOut vc inputs co oo orF = catFilesV cOut vc (inputs.map (catView cOut vc)) co oo orF := by
  unfold catFiles catFilesV
  simp only [List.any_map, List.foldl_map]
  rfl

end catfiles

/-- two lists of files, pairwise content-equal -/
inductive PwF : List FileObj → List FileObj → Prop
  | nil : PwF [] []
  | cons {a b : FileObj} {l₁ l₂ : List FileObj} : a.SameF b → PwF l₁ l₂ → PwF (a :: l₁) (b :: l₂)

theorem PwF.map_eq {β : Type} {l₁ l₂ : List FileObj} (h : PwF l₁ l₂) (F : FileObj → β)
    (hF : ∀ a b, a ∈ l₁ → a.SameF b → F b = F a) : l₂.map F = l₁.map F := by
  induction h with
  | nil => rfl
  | @cons a b l₁ l₂ hab _ ih =>
    rw [List.map_cons, List.map_cons, hF a b List.mem_cons_self hab,
      ih fun x y hx hxy => hF x y (List.mem_cons_of_mem _ hx) hxy]

/-- every file of the list is read back with the kind and the sentinel of the first one (what
    `cat_healsparse_files` silently assumes) -/
def CatUniform : List FileObj → Prop
  | [] => True
  | f0 :: rest => ∀ f ∈ f0 :: rest, fileKind f = fileKind f0 ∧ f.sentinel = f0.sentinel

/-- **`cat_healsparse_files` on pairwise content-equal files of one kind and sentinel**: the same
    error or the SAME output file -/
theorem apiCat_sameF {fs₁ fs₂ : List FileObj} (hpw : PwF fs₁ fs₂) (huni : CatUniform fs₁)
    (hok : ∀ f ∈ fs₁, f.KindOk) (covordOut : Option Nat) (check or_ : Bool) :
    apiCat fs₂ covordOut check or_ = apiCat fs₁ covordOut check or_ := by
  rw [ApiCat.apiCat_eq_spec, ApiCat.apiCat_eq_spec]
  unfold ApiCat.spec
  split
  · rfl
  cases hpw with
  | nil => rfl
  | @cons f0 g0 r₁ r₂ hfg hrest =>
    have hpw : PwF (f0 :: r₁) (g0 :: r₂) := .cons hfg hrest
    simp only []
    have hsp : g0.spord = f0.spord := hfg.2.1.symm
    have hco : g0.covord = f0.covord := hfg.1.symm
    have hse : g0.sentinel = f0.sentinel := hfg.2.2.2.1.symm
    have hany : ((g0 :: r₂).any fun f => f.spord != g0.spord)
        = ((f0 :: r₁).any fun f => f.spord != f0.spord) := by
      have := hpw.map_eq (fun f => f.spord) (fun a b _ hab => hab.2.1.symm)
      have e : ∀ (l : List FileObj) (n : Nat), (l.any fun f => f.spord != n)
          = ((l.map fun f => f.spord).any fun x => x != n) := by
        intro l n; rw [List.any_map]; rfl
      rw [e, e, this, hsp]
    rw [hany, hfg.fileKind_eq, hco, hsp, hse]
    split
    · rfl
    cases hk : fileKind f0 with
    | none => rfl
    | some kind =>
      simp only []
      split
      · rfl
      have hv := ApiDor.blankInvalid_of_fileKindOk (hok f0 List.mem_cons_self) hk
      have hin : (ApiCat.inputsOf (g0 :: r₂)).map (catView (cfgOf (covordOut.getD f0.covord) f0.spord)
            ⟨kind.blank f0.sentinel, kind.valid f0.sentinel⟩)
          = (ApiCat.inputsOf (f0 :: r₁)).map (catView (cfgOf (covordOut.getD f0.covord) f0.spord)
            ⟨kind.blank f0.sentinel, kind.valid f0.sentinel⟩) := by
        unfold ApiCat.inputsOf
        rw [List.map_map, List.map_map]
        apply hpw.map_eq
        intro a b ha hab
        obtain ⟨hka, hsa⟩ := huni a ha
        have hIn : InSame (⟨kind.blank f0.sentinel, kind.valid f0.sentinel⟩ : VCfg Val)
            (⟨cfgOf a.covord a.spord, a.file⟩ : CatIn Val) ⟨cfgOf b.covord b.spord, b.file⟩ := by
          refine ⟨by rw [← hab.1, ← hab.2.1], ?_⟩
          have := hab.2.2.2.2.2.2.2.2.2.2 kind (by rw [hka]; exact hk)
          rw [hsa] at this
          exact this
        show catView _ _ _ = catView _ _ _
        unfold catView
        refine Prod.ext ?_ (Prod.ext ?_ ?_)
        · show (cfgOf b.covord b.spord).shift = (cfgOf a.covord a.spord).shift
          rw [← hab.1, ← hab.2.1]
        · funext k; exact catSummary_same hIn hv k
        · funext pix; exact catContribution_same hIn pix
      have hcm : ∀ st, ApiCat.catMap (covordOut.getD f0.covord) g0 kind st
          = ApiCat.catMap (covordOut.getD f0.covord) f0 kind st := by
        intro st; unfold ApiCat.catMap; rw [hsp, hse]
      rw [catFiles_eq_views, catFiles_eq_views, hin]
      simp only [hcm]

/-- `cat` of files that are NOT all read back with the kind and sentinel of the first one: the
    loop then reads the other files through the first file's sentinel (outside the simulation) -/
def catMixed (w : World) (a : Args) : Bool :=
  match (splitList (a.getD "files" "_")).mapM (fun n => (w.files.find? (·.1 == n)).map (·.2)) with
  | none => false
  | some [] => false
  | some (f0 :: rest) =>
    !((f0 :: rest).all fun f => decide (fileKind f = fileKind f0) && decide (f.sentinel = f0.sentinel))

theorem mapM_file_pw (h : w₁.SameW w₂) :
    ∀ names : List String,
      (names.mapM (fun n => (w₁.files.find? (·.1 == n)).map (·.2)) = none ∧
        names.mapM (fun n => (w₂.files.find? (·.1 == n)).map (·.2)) = none) ∨
      ∃ l₁ l₂, names.mapM (fun n => (w₁.files.find? (·.1 == n)).map (·.2)) = some l₁ ∧
        names.mapM (fun n => (w₂.files.find? (·.1 == n)).map (·.2)) = some l₂ ∧ PwF l₁ l₂
  | [] => .inr ⟨[], [], rfl, rfl, .nil⟩
  | n :: ns => by
    rw [List.mapM_cons, List.mapM_cons]
    rcases h.file n with ⟨e1, e2⟩ | ⟨f, g, e1, e2, hfg⟩
    · rw [e1, e2]; exact .inl ⟨rfl, rfl⟩
    · rw [e1, e2]
      rcases mapM_file_pw h ns with ⟨q1, q2⟩ | ⟨l₁, l₂, q1, q2, hp⟩
      · rw [q1, q2]; exact .inl ⟨rfl, rfl⟩
      · rw [q1, q2]
        exact .inr ⟨f :: l₁, g :: l₂, rfl, rfl, .cons hfg hp⟩

theorem same_opCat (h : w₁.SameW w₂) (g₁ : w₁.Good) (a : Args) (hex : catMixed w₁ a = false) :
    SimR (opCat w₁ a) (opCat w₂ a) := by
  unfold opCat
  simp only []
  rcases mapM_file_pw h (splitList (a.getD "files" "_")) with ⟨q1, q2⟩ | ⟨l₁, l₂, q1, q2, hp⟩
  · rw [q1, q2]; exact SimR.same h _
  · rw [q1, q2]
    simp only []
    have hgood : ∀ f ∈ l₁, f.WF ∧ f.KindOk := by
      intro f hf
      obtain ⟨n, _, hn⟩ := WFFiles.mem_of_mapM_some _ _ _ q1 f hf
      exact g₁.file_find hn
    have huni : CatUniform l₁ := by
      unfold catMixed at hex
      rw [q1] at hex
      cases l₁ with
      | nil => trivial
      | cons f0 rest =>
        simp only [Bool.not_eq_false', List.all_eq_true, Bool.and_eq_true, decide_eq_true_eq] at hex
        exact hex
    rw [apiCat_sameF hp huni (fun f hf => (hgood f hf).2)]
    cases hc : apiCat l₁ (a.nat? "covord") (a.flag "check") (a.flag "or") with
    | error e => exact SimR.same h _
    | ok fo => exact ⟨rfl, h.files_insert _ (FileObj.SameF.refl (Ok.apiCat hgood hc).1)⟩

theorem catMixed_same (h : w₁.SameW w₂) (a : Args) : catMixed w₁ a = catMixed w₂ a := by
  unfold catMixed
  rcases mapM_file_pw h (splitList (a.getD "files" "_")) with ⟨q1, q2⟩ | ⟨l₁, l₂, q1, q2, hp⟩
  · rw [q1, q2]
  · rw [q1, q2]
    cases hp with
    | nil => rfl
    | @cons f0 g0 r₁ r₂ hfg hrest =>
      have hpw : PwF (f0 :: r₁) (g0 :: r₂) := .cons hfg hrest
      simp only []
      congr 1
      have := hpw.map_eq
        (fun f => decide (fileKind f = fileKind f0) && decide (f.sentinel = f0.sentinel))
        (fun x y _ hxy => by rw [hxy.fileKind_eq, ← hxy.2.2.2.1])
      have e : ∀ (l : List FileObj) (P : FileObj → Bool), l.all P = (l.map P).all id := by
        intro l P; rw [List.all_map]; rfl
      rw [e, e (g0 :: r₂), hfg.fileKind_eq, ← hfg.2.2.2.1, this]

/-! ### `write(format='healpix')` (`hpxwrite`) -/

/-- **the HEALPix-format files written from content-equal maps**: the same error, or explicit
    files with the same header holding the same (pixel, value) pairs — in storage order, hence in
    general NOT the same lists -/
theorem apiWriteHealpix_sameC {m₁ m₂ : MapObj} (hc : m₁.SameC m₂) (hw1 : m₁.WF)
    (hv : m₁.BlankInvalid) : ExR HpSame (apiWriteHealpix m₁) (apiWriteHealpix m₂) := by
  obtain ⟨l₁, l₂, e1, e2, hp, _⟩ := hc.obs_valid hv
  have hlt := validPixels_lt hw1 hv e1
  have key : ∀ dt : DT, HpSame
      (.explicit m₁.spord dt m₁.sent (l₁.map Int.toNat) ((l₁.map Int.toNat).map m₁.abs))
      (.explicit m₂.spord dt m₂.sent (l₂.map Int.toNat) ((l₂.map Int.toNat).map m₂.abs)) := by
    intro dt
    refine .inr ⟨m₁.spord, dt, m₁.sent, _, _, _, _, rfl, by rw [hc.spord_eq, hc.sent_eq],
      by simp, by simp, ?_⟩
    rw [ApiDegrade.zip_map_self, ApiDegrade.zip_map_self]
    have h1 : ((l₂.map Int.toNat).map fun p => (p, m₂.abs p))
        = (l₂.map Int.toNat).map fun p => (p, m₁.abs p) := by
      apply List.map_congr_left
      intro p hpm
      obtain ⟨x, hx, rfl⟩ := List.mem_map.1 hpm
      rw [hc.abs_eq (hlt x (hp.mem_iff.2 hx))]
    rw [h1]
    exact (hp.map _).map _
  unfold apiWriteHealpix
  simp only [bind, Except.bind, pure, Except.pure, throw, throwThe, MonadExceptOf.throw]
  rw [hc.kind_eq, hc.c_eq, hc.vc_eq, e1]
  have e2' : validPixels m₁.c m₁.vc m₂.st = some l₂ := by rw [← hc.c_eq, ← hc.vc_eq]; exact e2
  rw [e2']
  cases m₁.kind with
  | recd fs pr => exact ExR.err _
  | wide n => exact ExR.err _
  | packed => exact key _
  | plain dt => exact key _

theorem same_opHpxwrite (h : w₁.SameW w₂) (g₁ : w₁.Good) (g₂ : w₂.Good) (a : Args) :
    SimR (opHpxwrite w₁ a) (opHpxwrite w₂ a) := by
  unfold opHpxwrite
  refine same_withMap h g₁ g₂ fun n m₁ m₂ hn e1 e2 hc ok1 ok2 => ?_
  rcases (apiWriteHealpix_sameC hc ok1.1 ok1.2.1.blankInvalid).cases with
    ⟨f₁, f₂, x1, x2, hf⟩ | ⟨e, x1, x2⟩
  · rw [x1, x2]; exact ⟨rfl, h.hpfiles_insert _ hf⟩
  · rw [x1, x2]; exact SimR.same h _

end HS
