/-
  C14 (record arrays / `get_single`) against the dense reference interpreter WITH VIEWS
  (Lemmas/ApiDenseViews.lean; continues Props/DenseAll.lean).

  The dense world `DenseWorldV` binds a name to an owning coverage-aware dense map or to a view
  descriptor (parent name, field index, recorded field type and sentinel).  A view shows field `i`
  of the parent's cells over the parent's coverage mask; it is resolved against whatever owning
  record map NOW bears the parent's name.

  HEADLINE `reachable_dense_views`: after a history of lines of `lineOkV` (the record / view family
  `single` `scov` + the plain lines and observers on owning AND view targets + every line of the
  five families of `Dense.reachable_dense_all`) the world of the protocol and the dense world with
  views agree (`RelV`) and every line is answered alike — under the side condition `settledFromV`,
  computed by the dense run alone:

      a line OUTSIDE `viewOp` (= `cfg upd updr set get vals valid nvalid covmap covmask copy scov
      single`) is interpreted only while the pool holds no view descriptor.

  Two corollaries have no side condition: `reachable_dense_record` (histories of `viewOp` lines —
  views, reads and writes through them, copies, `scov`) and `reachable_dense_all_single` (all five
  families + `scov` + `single … copy=1`, i.e. every history that never takes the view form).

  NOT COVERED (and why): with a view descriptor in the pool, the lines of the boolean / scalar /
  bit / multi-map families (`bop inv pack sop mask astype bits chk mop upg deg fracdet`) — their
  refinement proofs (Lemmas/ApiDenseCov / ApiDenseAll, frozen) are stated for `RelC`, which has no
  descriptors; lifting them needs one proof per operation under `RelV` (in-place forms on a VIEW
  target write through `World.put` as `upd` does).  `settledFromV` is false on such histories
  (`exUnsettled`).
-/
import HealSparse.Lemmas.ApiDenseViews
import HealSparse.Props.C14
import HealSparse.Props.DenseAll
namespace HS
namespace C14

open ApiDense ApiDenseCov ApiDenseViews

/-! ### (1) the refinement -/

/-- **the protocol refines the dense interpreter with views**: after a history of `lineOkV` lines
    that is settled, the world the protocol reaches and the dense world agree — the same names;
    owning maps agree in header, values and coverage mask; a view descriptor is bound to the dense
    descriptor with the same parent, field, type and sentinel -/
theorem reachable_dense_views (lines : List String) (h : ∀ l ∈ lines, lineOkV l = true)
    (hs : settledFromV [] lines = true) : RelV (runLines lines) (drunV lines) :=
  rel_runLinesV lines h hs

/-- … hence any further line (settled in the dense world reached) is answered by the protocol as
    by the dense interpreter, errors and refusals included -/
theorem reachable_dense_views_answer (lines : List String) (h : ∀ l ∈ lines, lineOkV l = true)
    (hs : settledFromV [] lines = true) (q : String) (hq : lineOkV q = true)
    (hsq : settledLine (drunV lines) q = true) :
    (step (runLines lines) q).2 = (dstepV (drunV lines) q).2 :=
  (rel_stepV (rel_runLinesV lines h hs) (Good2.runLines lines) hq hsq).2

/-- … and the list of all answers ALONG the history is the list of answers of the interpreter
    (what the `#guard`s below evaluate) -/
theorem reachable_dense_views_all_answers (lines : List String)
    (h : ∀ l ∈ lines, lineOkV l = true) (hs : settledFromV [] lines = true) :
    answers lines = danswersV lines :=
  answers_eq_danswersV lines h hs

/-- **no side condition for the record / view family proper**: any history of `viewOp` lines —
    record maps, views of any field, reads and writes through them, copies, `scov`, rebinding a
    parent's name under its views — malformed and refused lines included -/
theorem reachable_dense_record (lines : List String) (h : ∀ l ∈ lines, lineOkV l = true)
    (hv : ∀ l ∈ lines, viewLine l = true) :
    RelV (runLines lines) (drunV lines) ∧ answers lines = danswersV lines :=
  ⟨rel_runLinesV lines h (settledFromV_of_viewLines [] lines hv),
    answers_eq_danswersV lines h (settledFromV_of_viewLines [] lines hv)⟩

/-- **no side condition without the view form**: every history of the five families of
    `Dense.reachable_dense_all` extended by `scov` and `single … copy=1` -/
theorem reachable_dense_all_single (lines : List String) (h : ∀ l ∈ lines, lineOkV l = true)
    (hc : ∀ l ∈ lines, noViewLine l = true) :
    RelV (runLines lines) (drunV lines) ∧ (drunV lines).noViews = true ∧
      answers lines = danswersV lines := by
  have hs := settledFromV_of_noViews (D := []) rfl lines hc
  refine ⟨rel_runLinesV lines h hs, ?_, answers_eq_danswersV lines h hs⟩
  unfold drunV
  have key : ∀ (ls : List String) (D : DenseWorldV), D.noViews = true →
      (∀ l ∈ ls, noViewLine l = true) →
      (ls.foldl (fun D l => (dstepV D l).1) D).noViews = true := by
    intro ls
    induction ls with
    | nil => exact fun _ hD _ => hD
    | cons l ls ih =>
      exact fun D hD hl => ih _ (noViews_stepV hD (hl l List.mem_cons_self))
        fun l' h' => hl l' (List.mem_cons_of_mem _ h')
  exact key lines [] rfl hc

/-- … in which case the relation is the one of `Dense.reachable_dense_all` (`RelC`) on the owning
    entries: the interpreter with views EXTENDS the one of the five families -/
theorem reachable_dense_all_single_relC (lines : List String) (h : ∀ l ∈ lines, lineOkV l = true)
    (hc : ∀ l ∈ lines, noViewLine l = true) : RelC (runLines lines) (drunV lines).toC :=
  relC_of_relV (reachable_dense_all_single lines h hc).1 (reachable_dense_all_single lines h hc).2.1

/-- every line of the five families is a line of `lineOkV` -/
theorem lineOkAll_lineOkV {line : String} (h : ApiDenseAll.lineOkAll line = true) :
    lineOkV line = true := by
  unfold ApiDenseAll.lineOkAll at h
  unfold lineOkV
  split
  · rfl
  · rename_i op rest ht
    rw [ht] at h
    have h' : ApiDenseAll.opOkAll op (parseArgs rest) = true := h
    unfold opOkV
    rw [h', Bool.or_true, Bool.true_and]
    -- `nvalid … path=str` is not a line of `opOkAll`
    cases hn : (op == "nvalid" && (parseArgs rest).get? "path" == some "str") with
    | false => rfl
    | true =>
      exfalso
      rw [Bool.and_eq_true] at hn
      have hop : op = "nvalid" := by simpa using hn.1
      subst hop
      unfold ApiDenseAll.opOkAll ApiDenseScalar.famArgs at h'
      rw [hn.2] at h'
      revert h'
      decide +kernel

/-! ### (2) what the relation says of one name -/

/-- **reading the relation at a name**: the protocol's lookup and the dense lookup both fail, or
    the map the protocol resolves (a materialised view included) has the header of the dense map,
    reads at every pixel what the dense array holds, has its coverage mask, and is a view of the
    same (parent, field) -/
theorem reachable_dense_views_map (lines : List String) (h : ∀ l ∈ lines, lineOkV l = true)
    (hs : settledFromV [] lines = true) (x : String) :
    match (runLines lines).get? x, (drunV lines).get? x with
    | some m, some dv =>
      m.covord = dv.1.toDense.covord ∧ m.spord = dv.1.toDense.spord ∧
      m.kind = dv.1.toDense.kind ∧ m.sent = dv.1.toDense.sent ∧
      (∀ p, p < m.npix → m.abs p = dv.1.toDense.f p) ∧ apiCovMask m = dv.1.covMask ∧
      m.view = dv.2
    | none, none => True
    | _, _ => False := by
  have hg := relV_get (rel_runLinesV lines h hs) x
  revert hg
  cases (runLines lines).get? x <;> cases (drunV lines).get? x <;> intro hg
  · trivial
  · exact hg.elim
  · exact hg.elim
  · obtain ⟨hc, hv⟩ := hg
    exact ⟨hc.corr.covord, hc.corr.spord, hc.corr.kind, hc.corr.sent, hc.corr.abs,
      hc.covMask_eq, hv⟩

/-! ### (3) pixel by pixel: what a view shows, what a write through it changes -/

/-- **a view shows field `i` of its parent**: a name resolving as a view of `(pn, i)` is bound to
    a descriptor, `pn` to an owning RECORD map `dp` whose field `i` has the recorded non-boolean
    type and whose blank field `i` is the recorded sentinel; the view has `dp`'s resolution and
    coverage mask, kind `plain dt`, and at EVERY pixel the value of field `i` of `dp`'s record —
    valid in `dp` or not -/
theorem dense_view_shows {D : DenseWorldV} {n pn : String} {i : Nat} {d : DenseMapC}
    (h : D.get? n = some (d, some (pn, i))) :
    ∃ dp dt s fs pr, D.raw? n = some (.view pn i dt s) ∧ D.raw? pn = some (.own dp) ∧
      dp.toDense.kind = .recd fs pr ∧ fs[i]? = some dt ∧ dt ≠ .bool ∧
      s = recField i dp.toDense.blank ∧
      d.toDense.covord = dp.toDense.covord ∧ d.toDense.spord = dp.toDense.spord ∧
      d.toDense.kind = .plain dt ∧ d.toDense.sent = s ∧ d.cov = dp.cov ∧
      ∀ q, d.toDense.f q = recField i (dp.toDense.f q) := by
  obtain ⟨dp, dt, s, h1, h2, rfl, h4, h5, fs, pr, h6, h7⟩ := getV_view h
  exact ⟨dp, dt, s, fs, pr, h1, h2, h6, h7, h5, h4, rfl, rfl, rfl, rfl, rfl, fun _ => rfl⟩

/-- … a pixel is valid in the view iff the field value differs from the view's sentinel (the
    parent's validity — its PRIMARY field — does not enter: a whole-record write with the primary
    at the sentinel leaves a pixel the non-primary views count as valid) -/
theorem dense_view_valid (dp : DenseMapC) (i : Nat) (dt : DT) (s : Val) (q : Nat) :
    (viewF dp i dt s).toDense.kind.valid (viewF dp i dt s).toDense.sent
        ((viewF dp i dt s).toDense.f q) = (recField i (dp.toDense.f q) != s) := rfl

/-- … and the view of the PRIMARY field (sentinel = the record map's, a number) is valid at
    exactly the parent's valid pixels -/
theorem dense_primary_view_valid (dp : DenseMapC) {fs : List DT} {i : Nat} {n : Int} {e : Nat}
    (dt : DT) (hk : dp.toDense.kind = .recd fs i) (hs : dp.toDense.sent = .num n e) (q : Nat) :
    (viewF dp i dt dp.toDense.sent).toDense.kind.valid (viewF dp i dt dp.toDense.sent).toDense.sent
        ((viewF dp i dt dp.toDense.sent).toDense.f q)
      = dp.toDense.kind.valid dp.toDense.sent (dp.toDense.f q) := by
  rw [dense_view_valid, hk, hs]
  cases dp.toDense.f q with
  | recd l =>
    show (recField i (Val.recd l) != Val.num n e) = (Kind.recd fs i).valid (Val.num n e) (Val.recd l)
    rw [ApiRecord.valid_recd, ApiRecord.recField_recd]
    show _ = (l.getD i (0, 0) != (n, e))
    generalize l.getD i (0, 0) = x
    obtain ⟨x1, x2⟩ := x
    by_cases hx : (x1, x2) = (n, e)
    · cases hx; simp
    · have : Val.num x1 x2 ≠ Val.num n e := fun h => hx (by cases h; rfl)
      rw [bne_iff_ne.2 this, bne_iff_ne.2 hx]
  | _ => rfl

/-- **an accepted write through a view changes only field `i` of already-valid pixels**: the
    parent `pn` is rebound to a map with the same header and coverage mask; at every pixel every
    field but `i` is kept; a pixel the call does not address is unchanged; every addressed pixel
    was valid in the view before (no pixel becomes valid through a view) -/
theorem dense_view_write {D D' : DenseWorldV} {pn : String} {i : Nat} {dp : DenseMapC} {dt : DT}
    {s : Val} {op : String} {pix : List Nat} {vals : Option (List Val)} {single : Bool}
    (h : dRunReqView D pn i dp (viewF dp i dt s) (.upd op pix vals single) = (D', "ok")) :
    ∃ dp', D' = D.bind pn (.own dp') ∧ dp'.cov = dp.cov ∧
      dp'.toDense.kind = dp.toDense.kind ∧ dp'.toDense.sent = dp.toDense.sent ∧
      (∀ q j, j ≠ i → recField j (dp'.toDense.f q) = recField j (dp.toDense.f q)) ∧
      (∀ q, q ∉ pix → dp'.toDense.f q = dp.toDense.f q) ∧
      (∀ q ∈ pix, q < dp.toDense.npix → recField i (dp.toDense.f q) ≠ s) := by
  obtain ⟨dv', hu, hg, rfl⟩ := dRunReqView_ok h
  obtain ⟨h1, h2, h3, _, h5, h6⟩ := writeBackF_spec dp i dt s hu
  exact ⟨_, rfl, h1, h2, h3, h5, h6, fun q hq hlt => growthD_false hg q hq hlt⟩

/-- **a refused write leaves the dense world unchanged** — on an owning target and through a
    view: the request either answers `ok` or returns the dense world it was given -/
theorem dense_write_refused (D : DenseWorldV) (n : String) (d : DenseMapC)
    (v : Option (String × Nat)) (req : WReq) (h : (dRunReqV D n d v req).2 ≠ "ok") :
    (dRunReqV D n d v req).1 = D :=
  (dRunReqV_refused D n d v req).resolve_right h

/-- a write that would make a pixel valid through a view is refused with `RuntimeError` once the
    pixel list and the values are in order (`dUpdate` accepts or only objects to float exactness) -/
theorem dense_view_growth_refused {d : DenseMap} {op : String} {pix : List Nat}
    {vals : Option (List Val)} {single : Bool} {ru : Option Bool} {d' : DenseMap}
    (hu : dUpdate d op pix vals single ru = .ok d') (hg : growthD d pix = true) :
    dUpdateView d op pix vals single ru = .error .runtime := by
  unfold dUpdateView postView
  rw [hu, hg]
  rfl

/-! ### (4) an example history, answered alike by the protocol and the dense interpreter

A record map `f8, i4, i2` with the NON-FIRST integer field 1 as primary and the custom sentinel
-7; a whole-record update (pixel 6 stored with the primary AT the sentinel: invalid in the map,
valid in the view of field 2); `None`-clear; views of a non-primary and of the primary field;
copies (one with a colliding sentinel override); reads through the views; writes through the
non-primary view (`upd`, `updr` on either path, `set`, `add`), a refused write (pixel 7 is not
valid in the view: `RuntimeError`, nothing changes), the sentinel written through the primary
view (invalidates the pixel), `None` through it; a parent write seen by the views; a copy that
stays independent; `scov` of the map and of a view; sentinel overrides (refused / ignored); a copy
of a view; rebinding the parent's name (view dead / alive again / dead by field type). -/

def exViews : List String := [
  "cfg m kind=rec covord=0 spord=1 fields=f8,i4,i2 primary=1 sentinel=-7",
  "upd m pix=5,6,20 vals=r5^1;3;9,r1;-7;4,r3;8;2",
  "get m pix=5,6,20,7", "valid m", "nvalid m", "covmask m",
  "upd m pix=20 none=1", "get m pix=20", "nvalid m", "covmask m",
  "single m field=2 r=v2", "single m field=1 r=v1",
  "single m field=0 copy=1 r=k0", "single m field=2 copy=1 sentinel=9 r=k2",
  "get v2 pix=5,6,7", "get v2 pix=5,6,7 vm=1", "valid v2", "nvalid v2", "covmap v2",
  "get v1 pix=5,6,7", "valid v1", "nvalid v1",
  "get k0 pix=5,6,7", "get k2 pix=5,6,7", "nvalid k2",
  "upd v2 pix=5 val=11", "get m pix=5", "get k0 pix=5",
  "upd v2 pix=7 val=1", "get m pix=7", "covmask m",
  "updr v2 ranges=5:7 val=12", "get m pix=5,6",
  "updr v2 ranges=5:8 val=12 path=slice", "get m pix=5,6,7",
  "set v2 slice=5:6:1 val=13", "get m pix=5,6",
  "upd v2 pix=5 val=1^1", "upd v2 pix=5 val=2 op=add", "get m pix=5",
  "upd v1 pix=6 val=4", "upd v1 pix=5 none=1", "get m pix=5", "nvalid m", "nvalid v1", "valid v1",
  "nvalid v2", "upd v1 pix=5 none=1",
  "upd m pix=9 vals=r1;2;3", "get v2 pix=9", "nvalid v2", "nvalid v1",
  "upd k0 pix=5 val=7^1", "get m pix=5", "get k0 pix=5",
  "scov m k=1 r=s1", "get s1 pix=5,6,9", "covmask s1", "scov m k=0 r=s0", "covmask s0",
  "scov m k=99 r=s9", "scov v2 k=2 r=s2", "get s2 pix=6,9", "covmask s2",
  "single m field=2 sentinel=3 r=bad", "single m field=1 sentinel=3 r=v1b", "get v1b pix=6,9",
  "single m field=9 r=bad", "single v2 field=0 r=bad", "single m field=0 copy=1 sentinel=T r=bad",
  "copy v2 r=c2", "upd c2 pix=9 val=1", "get m pix=9", "get c2 pix=9",
  "cfg m kind=plain dtype=i4 covord=0 spord=1", "get v2 pix=5", "upd v2 pix=5 val=1",
  "cfg m kind=rec covord=0 spord=1 fields=f8,i4,i2 primary=1 sentinel=-7", "get v2 pix=5", "nvalid v2",
  "cfg m kind=rec covord=0 spord=1 fields=f8,i4,i2 primary=2 sentinel=-7", "get v2 pix=5",
  "cfg m kind=rec covord=0 spord=2 fields=f8,i4,i4 primary=1 sentinel=-7", "get v2 pix=5",
  "single nope field=0", "single m r=x", ""]

/-! the hypotheses of `reachable_dense_record` hold, and its conclusion evaluated -/
#guard exViews.all lineOkV
#guard exViews.all viewLine
#guard settledFromV [] exViews
#guard answers exViews == danswersV exViews

/-! the answers themselves (protocol side), in groups -/
#guard (answers exViews).take 10 ==
  ["ok", "ok", "r5^1;3;9,r1;-7;4,r3;8;2,r-1637499999999999923489519697920;-7;-32768", "5,20", "2",
   "010001000000", "ok", "r-1637499999999999923489519697920;-7;-32768", "1", "010001000000"]
/-! views and copies: pixel 6 (primary at the sentinel) is valid in the view of field 2, hidden by
    the copy; the colliding override `sentinel=9` hides pixel 5 of the copy `k2` -/
#guard ((answers exViews).drop 10).take 15 ==
  ["ok", "ok", "ok", "ok", "9,4,-32768", "110", "5,6", "2", "0,2,0,0,0,0,0,0,0,0,0,0",
   "3,-7,-7", "5", "1",
   "5^1,-1637499999999999923489519697920,-1637499999999999923489519697920", "9,9,9", "0"]
/-! writes through the non-primary view; the refused ones change nothing -/
#guard ((answers exViews).drop 25).take 15 ==
  ["ok", "r5^1;3;11", "5^1", "err RuntimeError", "r-1637499999999999923489519697920;-7;-32768",
   "010001000000", "ok", "r5^1;3;12,r1;-7;12", "err RuntimeError",
   "r5^1;3;12,r1;-7;12,r-1637499999999999923489519697920;-7;-32768",
   "ok", "r5^1;3;13,r1;-7;12", "err ValueError", "ok", "r5^1;3;15"]
/-! through the primary view: making pixel 6 valid is refused, `None` invalidates pixel 5 (other
    fields kept), a second `None` on the now-invalid pixel is refused -/
#guard ((answers exViews).drop 40).take 8 ==
  ["err RuntimeError", "ok", "r5^1;-7;15", "0", "0", "_", "2", "err RuntimeError"]

/-! `via=getitem|get_single` (the path the REAL side takes) is ignored by the model and by the
    dense interpreter alike -/
#guard (let ls := ["cfg m kind=rec covord=0 spord=1 fields=f8,i4 primary=1 sentinel=-7",
    "upd m pix=5 vals=r5^1;3", "single m field=0 via=getitem r=a", "single m field=0 via=get_single r=b",
    "single m field=0 copy=1 via=getitem r=c", "get a pix=5", "get b pix=5", "get c pix=5"]
  ls.all lineOkV && ls.all viewLine && answers ls == danswersV ls &&
    (answers ls).drop 5 == ["5^1", "5^1", "5^1"])

/-! MODEL vs LIBRARY on `exViews` (87 lines through harness/real.py, script .work/d7/real_run.py):
    identical up to `upd m pix=9 …` — the first write that makes the PARENT GROW while views of it
    exist.  The library grows `_sparse_map` with `ndarray.resize(refcheck=False)`: a live
    `get_single(copy=False)` view keeps pointing into the old buffer (it no longer sees the
    parent, writes through it are lost, and it may read freed memory — `n_valid` of the view came
    back as 3 / 4 in two runs), whereas the model resolves a view BY NAME against the parent's
    current storage, so "a view is never stale" (`ApiRecord.get?_view_after_parent_put`) and the
    dense interpreter follows the model.  Further conventional differences: rebinding the parent's
    NAME (`cfg m …`) kills the model's view but not the library's (object reference; documented
    in Lemmas/FrameWorld), and the harness answers `err IndexError` / `nomap` / `err KeyError`
    where the model says `err ValueError` / `err TypeError` / `bad-op:*` on malformed lines. -/

/-! ### (5) the fallback and its limit -/

/-- the five families together with `scov` and `single … copy=1` (no view is ever registered) -/
def exNoViews : List String := [
  "cfg r kind=rec covord=0 spord=1 fields=i4,f8 primary=0 sentinel=-5",
  "upd r pix=5,6,9 vals=r3;5^1,r-5;15^1,r4;1",
  "single r field=1 copy=1 r=a", "single r field=0 copy=1 r=b",
  "sop a op=add k=1 r=a2", "get a2 pix=5,6,9", "mop a a2 op=sum r=s", "get s pix=5,6,9",
  "scov s k=1 r=s1", "vals s1", "covmask s1", "deg a ord=0 red=mean r=dg", "vals dg",
  "sop b op=add k=1 inplace=1", "get b pix=5,6,9", "get r pix=5",
  "astype b dtype=f8 r=bf", "get bf pix=5,9", "mask a by=b", "nvalid a"]

#guard exNoViews.all lineOkV
#guard exNoViews.all noViewLine
#guard !(exNoViews.all viewLine)
#guard answers exNoViews == danswersV exNoViews

/-- with a view in the pool a line outside `viewOp` is NOT covered: `settledFromV` is false (the
    dense interpreter answers `not-covered:view-in-pool`); the same line is covered again once no
    descriptor is left (`cfg v` rebinds the view's name to an owning map) -/
def exUnsettled : List String := [
  "cfg r kind=rec covord=0 spord=1 fields=i4,f8 primary=0 sentinel=-5",
  "upd r pix=5 vals=r3;5^1", "single r field=1 r=v",
  "sop v op=add k=1 r=w"]

#guard exUnsettled.all lineOkV
#guard !settledFromV [] exUnsettled
#guard (danswersV exUnsettled).getLast? == some "not-covered:view-in-pool"
#guard settledFromV [] (exUnsettled.take 3 ++
  ["cfg v kind=plain dtype=f8 covord=0 spord=1", "sop v op=add k=1 r=w"])

/-! the four earlier example histories and the mixed one of Props/DenseAll are histories of
    `lineOkV` without the view form: answered alike by the interpreter with views -/
#guard Dense.exAll.all lineOkV && Dense.exAll.all noViewLine &&
  answers Dense.exAll == danswersV Dense.exAll

/-! the record example of Props/C14 (`info` line dropped — inspection is outside every dense
    interpreter) -/
#guard answers C14.exHist == danswersV C14.exHist

end C14
end HS
