/-
  C19 — degrade-on-read equals reading and then degrading.
  Property theorems only (helpers in HealSparse/Lemmas).
-/
import HealSparse.Lemmas.Core
import HealSparse.Lemmas.Coverage
import HealSparse.Lemmas.Valid
import HealSparse.Lemmas.Resolution
import HealSparse.Lemmas.FitsIO
import HealSparse.Lemmas.DegradeOnRead
import HealSparse.Model.DegradeOnRead
import HealSparse.Props.C03
import HealSparse.Props.C07
namespace HS
namespace C19

variable {V W : Type} [DecidableEq V] [DecidableEq W]

/-- reading then degrading in memory (the reference path) -/
def readThenDegrade (c : Cfg) (vc : VCfg V) (f : FitsFile V) (pixels : Option (List Nat)) (g : Nat)
    (red : List V → W) (sentOut : W) : Option (State W) :=
  match pixels with
  | none => some (degradeMap c vc (readFull f) g red sentOut)
  | some l => (readPartial c vc f l).map fun r => degradeMap c vc r g red sentOut

/-- **C19 (unweighted)**: for a file written from any well-formed map (any block order), any
    reduction, any output resolution ≥ the coverage resolution and any pixel request (none,
    or any list incl. uncovered pixels and pixels beyond the last covered one), degrade-on-read
    is rejected exactly when read-then-degrade is, and otherwise both yield well-formed maps
    with the same value at every pixel and the same coverage mask. -/
theorem dor_eq (c : Cfg) (vc : VCfg V) (vcOut : VCfg W) (s : State V) (pixels : Option (List Nat))
    (g : Nat) (red : List V → W) (h : Inv c vc s) (hg : g ≤ c.shift) :
    (degradeOnRead c vc (writeFits s) pixels g red vcOut.sentinel = none ↔
      readThenDegrade c vc (writeFits s) pixels g red vcOut.sentinel = none) ∧
    ∀ a b, degradeOnRead c vc (writeFits s) pixels g red vcOut.sentinel = some a →
      readThenDegrade c vc (writeFits s) pixels g red vcOut.sentinel = some b →
      Inv (degCfg c g) vcOut a ∧ Inv (degCfg c g) vcOut b ∧
      (∀ q, q < (degCfg c g).npix → abs (degCfg c g) vcOut a q = abs (degCfg c g) vcOut b q) ∧
      (∀ k, k < c.ncov → covered (degCfg c g) a k = covered (degCfg c g) b k) := by
  rw [degradeOnRead_writeFits]
  cases pixels with
  | none =>
    rw [dorPixels_none]
    simp only [readThenDegrade, Option.map_some, C03.read_write_id]
    refine ⟨by simp, ?_⟩
    intro a b ha hb
    cases ha
    cases hb
    have hpx : ∀ k ∈ allCovered c s, k < c.ncov ∧ covered c s k = true :=
      fun k hk => (mem_allCovered c s k).1 hk
    obtain ⟨i1, a1, c1⟩ := h.dor_spec hg vcOut red _ (nodup_allCovered c s) hpx
    obtain ⟨i2, a2, c2⟩ := C07.degrade_spec c vc vcOut s g red h hg
    refine ⟨i1, i2, ?_, ?_⟩
    · intro q hq
      rw [a1 q hq, a2 q hq]
      have hk : q >>> (c.shift - g) < c.ncov := covpix_lt (degCfg c g) q hq
      by_cases hc : covered c s (q >>> (c.shift - g)) = true
      · rw [if_pos ((mem_allCovered c s _).2 ⟨hk, hc⟩), if_pos hc]
      · rw [if_neg (fun hm => hc ((mem_allCovered c s _).1 hm).2), if_neg hc]
    · intro k hk
      rw [c1 k hk, c2 k hk, Bool.eq_iff_iff, decide_eq_true_eq, mem_allCovered]
      exact ⟨fun hm => hm.2, fun hc => ⟨hk, hc⟩⟩
  | some l =>
    simp only [readThenDegrade]
    constructor
    · rw [Option.map_eq_none_iff, Option.map_eq_none_iff]
      exact dorPixels_eq_none_iff c vc s l
    · intro a b ha hb
      cases hdp : dorPixels c (writeFits s) (some l) with
      | none => rw [hdp] at ha; cases ha
      | some px =>
        obtain ⟨hnd, epx, hrp⟩ := dorPixels_some_eq_some c vc s l px hdp
        rw [hdp] at ha
        rw [hrp] at hb
        simp only [Option.map_some, Option.some.injEq] at ha hb
        subst ha hb
        have hpnd : px.Nodup := by rw [epx]; exact nodup_partialPixels c s l hnd
        have hpx : ∀ k ∈ px, k < c.ncov ∧ covered c s k = true := by
          intro k hk
          rw [epx] at hk
          exact ((mem_partialPixels c s l k).1 hk).2
        have hr : Inv c vc (partialState c vc s px) :=
          inv_partialState c vc s px h hpnd (fun k hk => (hpx k hk).1)
        obtain ⟨i1, a1, c1⟩ := h.dor_spec hg vcOut red px hpnd hpx
        obtain ⟨i2, a2, c2⟩ := C07.degrade_spec c vc vcOut (partialState c vc s px) g red hr hg
        refine ⟨i1, i2, ?_, ?_⟩
        · intro q hq
          rw [a1 q hq, a2 q hq]
          have hk : q >>> (c.shift - g) < c.ncov := covpix_lt (degCfg c g) q hq
          rw [partialState_covered c vc s px hpnd _ hk]
          by_cases hm : (q >>> (c.shift - g)) ∈ px
          · rw [if_pos hm, if_pos (decide_eq_true hm),
              childrenVals_partialState hg px hpnd hpx hq hm]
          · rw [if_neg hm, if_neg (by simpa using hm)]
        · intro k hk
          rw [c1 k hk, c2 k hk, partialState_covered c vc s px hpnd k hk]

/-- **C19 (whole-file form, spelled out)**: with no pixel request, degrade-on-read of a written
    file equals the in-memory degrade of the map that was written, pixel for pixel. -/
theorem dor_full (c : Cfg) (vc : VCfg V) (vcOut : VCfg W) (s : State V) (g : Nat) (red : List V → W)
    (h : Inv c vc s) (hg : g ≤ c.shift) :
    ∃ a, degradeOnRead c vc (writeFits s) none g red vcOut.sentinel = some a ∧
      Inv (degCfg c g) vcOut a ∧
      (∀ q, q < (degCfg c g).npix → abs (degCfg c g) vcOut a q
          = abs (degCfg c g) vcOut (degradeMap c vc s g red vcOut.sentinel) q) ∧
      (∀ k, k < c.ncov → covered (degCfg c g) a k = covered c s k) := by
  have hpx : ∀ k ∈ allCovered c s, k < c.ncov ∧ covered c s k = true :=
    fun k hk => (mem_allCovered c s k).1 hk
  obtain ⟨i1, a1, c1⟩ := h.dor_spec hg vcOut red _ (nodup_allCovered c s) hpx
  obtain ⟨_, a2, _⟩ := C07.degrade_spec c vc vcOut s g red h hg
  refine ⟨_, by rw [degradeOnRead_writeFits, dorPixels_none]; rfl, i1, ?_, ?_⟩
  · intro q hq
    rw [a1 q hq, a2 q hq]
    have hk : q >>> (c.shift - g) < c.ncov := covpix_lt (degCfg c g) q hq
    by_cases hc : covered c s (q >>> (c.shift - g)) = true
    · rw [if_pos ((mem_allCovered c s _).2 ⟨hk, hc⟩), if_pos hc]
    · rw [if_neg (fun hm => hc ((mem_allCovered c s _).1 hm).2), if_neg hc]
  · intro k hk
    rw [c1 k hk, Bool.eq_iff_iff, decide_eq_true_eq, mem_allCovered]
    exact ⟨fun hm => hm.2, fun hc => ⟨hk, hc⟩⟩

/-- **C19 (weighted)**: with a weight file written from any well-formed weight map `ws` that
    covers every coverage pixel read (its blocks may be in any other order), the weighted
    degrade-on-read holds, at every coarse pixel inside the coverage read, the reduction of the
    (value, prepared weight) pairs of its children in NEST order — the same pairs the in-memory
    weighted degrade sees (`C07.degradeW_spec` with `wOf p = prep (weight map value at p)`). -/
theorem dorW_spec {X : Type} [DecidableEq X] (c : Cfg) (vc : VCfg V) (vcX : VCfg X) (vcOut : VCfg W)
    (s : State V) (ws : State X) (prep : X → X) (g : Nat) (red : List (V × X) → W)
    (h : Inv c vc s) (hw : Inv c vcX ws) (hg : g ≤ c.shift)
    (hcov : ∀ k, k < c.ncov → covered c s k = true → covered c ws k = true) :
    ∃ a, degradeOnReadW c vc (writeFits s) (writeFits ws) vcX.sentinel prep none g red vcOut.sentinel = some a ∧
      Inv (degCfg c g) vcOut a ∧
      (∀ q, q < (degCfg c g).npix →
        abs (degCfg c g) vcOut a q
          = if covered c s (q >>> (c.shift - g))
            then red ((List.range (2 ^ g)).map fun j =>
                   (abs c vc s (q * 2 ^ g + j), prep (abs c vcX ws (q * 2 ^ g + j))))
            else vcOut.sentinel) := by
  have hpx : ∀ k ∈ allCovered c s,
      k < c.ncov ∧ covered c s k = true ∧ covered c ws k = true := by
    intro k hk
    have := (mem_allCovered c s k).1 hk
    exact ⟨this.1, this.2, hcov k this.1 this.2⟩
  obtain ⟨i1, a1⟩ := h.dorW_spec' hw hg vcOut prep red _ (nodup_allCovered c s) hpx
  refine ⟨_, by rw [degradeOnReadW_writeFits, dorPixels_none]; rfl, i1, ?_⟩
  intro q hq
  rw [a1 q hq]
  have hk : q >>> (c.shift - g) < c.ncov := covpix_lt (degCfg c g) q hq
  by_cases hc : covered c s (q >>> (c.shift - g)) = true
  · rw [if_pos ((mem_allCovered c s _).2 ⟨hk, hc⟩), if_pos hc]
  · rw [if_neg (fun hm => hc ((mem_allCovered c s _).1 hm).2), if_neg hc]

/-- non-vacuity: out-of-order blocks, request with an uncovered pixel and one beyond the last covered -/
example : (degradeOnRead (V := Int) (W := Int) ⟨4, 1⟩ ⟨-1, fun x => x != -1⟩
    (writeFits ⟨#[4, -2, -2, -6], #[-1, -1, 7, -1, 3, 9]⟩) (some [3, 2, 1]) 1
    (fun l => (l.filter (· != -1)).foldl (· + ·) 0) (-1)).map (·.sp) = some #[-1, 7] := by
  decide +kernel

end C19
end HS
