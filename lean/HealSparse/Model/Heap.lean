/-
  The heap layer: identity of coverage objects and storage buffers, so that "returns a new
  map" / "shares no mutable state" can be stated.  A map object holds two references.

  Sharing pattern copied from the code:
  * coverage objects are never written after construction: growth goes through
    `append_pixels(copy=True)` and REBINDS the handle (`self._cov_map = new_cov_map`), so a
    coverage object may safely be shared (scalar operators, astype, as_bit_packed_map,
    get_single hand the source's coverage object to the result);
  * every map-producing operation allocates a fresh buffer for its result
    (`_sparse_map.copy()`, `np.zeros`, reductions …), record-field views excepted;
  * every mutator writes only through its own handle's buffer (in place, or resized in place).
-/
import HealSparse.Model.Core
namespace HS

structure HMap where
  cov : Nat        -- index of the coverage object
  buf : Nat        -- index of the storage buffer
deriving Repr, DecidableEq

structure Heap (V : Type) where
  covs : Array (Array Int)
  bufs : Array (Array V)
  maps : Array HMap

variable {V : Type}

/-- the map a handle denotes -/
def Heap.read (h : Heap V) (i : Nat) : State V :=
  match h.maps[i]? with
  | some m => ⟨(h.covs[m.cov]?).getD #[], (h.bufs[m.buf]?).getD #[]⟩
  | none => ⟨#[], #[]⟩

/-- heap well-formedness: references in range, distinct handles own distinct buffers -/
def Heap.Sep (h : Heap V) : Prop :=
  (∀ (i : Nat) (m : HMap), h.maps[i]? = some m → m.cov < h.covs.size ∧ m.buf < h.bufs.size) ∧
  (∀ (i j : Nat) (mi mj : HMap), h.maps[i]? = some mi → h.maps[j]? = some mj → i ≠ j → mi.buf ≠ mj.buf)

/-- a mutator on handle `i` (update_values_pix, in-place operators, invert, apply_mask in
    place, …): the new coverage index becomes a NEW coverage object (copy-on-append) to which
    the handle is rebound; the storage is written through the handle's own buffer. -/
def Heap.mutate (h : Heap V) (i : Nat) (f : State V → State V) : Heap V :=
  match h.maps[i]? with
  | none => h
  | some m =>
    let s' := f (h.read i)
    { covs := h.covs.push s'.cov
      bufs := h.bufs.setIfInBounds m.buf s'.sp
      maps := h.maps.setIfInBounds i ⟨h.covs.size, m.buf⟩ }

/-- a map-producing operation: the result gets a fresh buffer; its coverage object is either
    fresh, or — `shareCov = some j` — the very object of source `j` (the caller guarantees the
    result's index equals that source's, as scalar operators / astype / get_single do). -/
def Heap.produce (h : Heap V) (shareCov : Option Nat) (res : State V) : Heap V :=
  match shareCov.bind (fun j => h.maps[j]?) with
  | some mj =>
    { covs := h.covs, bufs := h.bufs.push res.sp, maps := h.maps.push ⟨mj.cov, h.bufs.size⟩ }
  | none =>
    { covs := h.covs.push res.cov, bufs := h.bufs.push res.sp,
      maps := h.maps.push ⟨h.covs.size, h.bufs.size⟩ }

/-- one step of a history over the heap -/
inductive HStep (V : Type) where
  | mutate (i : Nat) (f : State V → State V)
  | produce (shareCov : Option Nat) (f : (Nat → State V) → State V)

def Heap.step (h : Heap V) : HStep V → Heap V
  | .mutate i f => h.mutate i f
  | .produce sc f => h.produce sc (f h.read)

def Heap.run (h : Heap V) (steps : List (HStep V)) : Heap V := steps.foldl Heap.step h

/-- handles a step may write through -/
def HStep.target : HStep V → Option Nat
  | .mutate i _ => some i
  | .produce _ _ => none

end HS
