"""History runner: real library vs Lean model, comparison, shrinking."""
import os
import subprocess
import hashlib

VERIF = os.path.dirname(os.path.dirname(os.path.abspath(__file__)))
LEAN = os.path.join(VERIF, 'lean')
DRIVER = os.path.join(LEAN, '.lake', 'build', 'bin', 'hsdriver')


def run_real(lines):
    """Run one history on a fresh pool of real maps.
    Returns (observations, model_lines)."""
    import real
    r = real.Real()
    obs, mlines = [], []
    try:
        for ln in lines:
            o, ml = r.step(ln)
            obs.append(o)
            mlines.append(ml)
    finally:
        r.cleanup()
    return obs, mlines


def run_model(histories):
    """Run several histories (lists of model lines) through one driver process."""
    buf = []
    for h in histories:
        buf.append('reset')
        buf.extend(h)
    inp = '\n'.join(buf) + '\n'
    p = subprocess.run([DRIVER], input=inp.encode(), stdout=subprocess.PIPE, stderr=subprocess.PIPE)
    if p.returncode != 0:
        raise RuntimeError("driver failed: " + p.stderr.decode()[-2000:])
    out = p.stdout.decode().split('\n')
    if out and out[-1] == '':
        out.pop()
    if len(out) != len(buf):
        raise RuntimeError("driver output length %d != input %d" % (len(out), len(buf)))
    res, i = [], 0
    for h in histories:
        i += 1
        res.append(out[i:i + len(h)])
        i += len(h)
    return res


DRIFT = '__drift__'
MUST_REJECT = None


def kvs(s):
    d = {}
    for t in s.split():
        if '=' in t:
            k, v = t.split('=', 1)
            d[k] = v
    return d


def compare(line, robs, mobs):
    """None if the two observations agree, else a short reason."""
    if robs == 'inexact' or mobs == 'inexact':
        return None
    if robs == 'nomap' or mobs.startswith('bad-op:no-such-map'):
        if robs == 'nomap' and mobs.startswith('bad-op:no-such-map'):
            return None
        return 'map missing on one side only: real=%s model=%s' % (robs[:40], mobs[:40])
    if mobs.startswith('bad-op'):
        return 'model rejected the line (%s)' % mobs
    if robs.startswith('err') or mobs.startswith('err'):
        if robs.startswith('err') and mobs.startswith('err'):
            return None
        if mobs.startswith('err') and not robs.startswith('err'):
            # the model rejects, the implementation accepts: a violation only where the property itself
            # demands the rejection (MUST_REJECT hook of the property module); otherwise "drift" —
            # an implementation may legitimately accept more than the model does
            if MUST_REJECT is not None and MUST_REJECT(line):
                return 'the property requires this call to be rejected: real=%s model=%s' % (robs[:60], mobs[:60])
            return DRIFT
        return 'real=%s model=%s' % (robs[:60], mobs[:60])
    op = line.split()[0]
    if op == 'interp':
        # weighted means: IEEE result vs exact rational, relative tolerance 2^-20 on every token
        la, lb = robs.split(','), mobs.split(',')
        if len(la) != len(lb):
            return 'interp: lengths differ'
        for i, (x, y) in enumerate(zip(la, lb)):
            if not approx_equal(x, y):
                return 'interp: index %d: real=%s model=%s' % (i, x, y)
        return None
    if op == 'fitsraw':
        m = kvs(mobs)
        if m.get('inv') != 'ok':
            return 'written file violates the layout: clause %s' % m.get('inv')
        if m.get('same') != '1':
            return 'COV / SPARSE extensions of the written file differ from the model file'
        return None
    if op == 'state':
        r, m = kvs(robs), kvs(mobs)
        if m.get('inv') != 'ok':
            return 'layout invariant violated on the real arrays: clause %s' % m.get('inv')
        for k in ('covmask', 'abs'):
            if not vals_equal(r.get(k, ''), m.get(k, '')):
                return 'state.%s differs (real read path vs Lean abs on real arrays): %s' % (
                    k, first_diff(r.get(k, ''), m.get(k, '')))
        return None
    if not vals_equal(robs, mobs):
        return 'observation differs: ' + first_diff(robs, mobs)
    return None


def tok_equal(x, y):
    """x: real token (exact dyadic), y: model token, possibly an exact rational `n/d` or `qn/d`
    (= sqrt(n/d)); the latter two are compared with relative tolerance 2^-20 (the real value went
    through one or a few IEEE roundings that the exact model does not perform)."""
    if x == y:
        return True
    if '/' not in y:
        return False
    from fractions import Fraction
    import math
    try:
        if '^' in x:
            n, e = x.split('^')
            rx = Fraction(int(n), 2 ** int(e))
        else:
            rx = Fraction(int(x))
    except ValueError:
        return False
    if y.startswith('q'):
        n, d = y[1:].split('/')
        ry = math.sqrt(Fraction(int(n), int(d)))
        return abs(float(rx) - ry) <= abs(ry) * 2.0 ** -20
    if y.startswith('r'):
        return False
    n, d = y.split('/')
    ry = Fraction(int(n), int(d))
    # mean / weighted mean: an exact sum divided once.  The library's value must be the CORRECTLY ROUNDED
    # quotient in the precision it works in: float64, float32, or float64 then cast to float32 (numpy divides a
    # float32 sum by an integer count in float64 and casts).  No tolerance.
    global EXACT_RATIONAL_MATCHES, LOOSE_RATIONAL_MATCHES
    if rx in (round_to(ry, 53), round_to(ry, 24), round_to(round_to(ry, 53), 24)):
        EXACT_RATIONAL_MATCHES += 1
        return True
    # ... unless the exact sums themselves cannot have been formed exactly in float64 (numerator or denominator of
    # the reduced quotient beyond 2^50: products of 31-bit values with 31-bit weights): then the library's value
    # went through several roundings and the old relative tolerance 2^-20 applies (found by the thorough tier,
    # seed 5: a map used as its own weight map with values next to the int32 sentinel)
    if (max(abs(ry.numerator), ry.denominator) >= 2 ** 50 or os.environ.get('VERIF_LOOSE_RATIONALS')) \
            and abs(rx - ry) <= abs(ry) * Fraction(1, 2 ** 20):
        LOOSE_RATIONAL_MATCHES += 1
        return True
    return False


EXACT_RATIONAL_MATCHES = 0
LOOSE_RATIONAL_MATCHES = 0


def round_to(q, p):
    """the rational q rounded to p significant bits, ties to even (exponent range ignored: the values
    compared are far from the subnormal / overflow range)"""
    from fractions import Fraction
    if q == 0:
        return q
    sgn = -1 if q < 0 else 1
    a = abs(q)
    # e with 2^(e) <= a < 2^(e+1)
    e = a.numerator.bit_length() - a.denominator.bit_length()
    if Fraction(2) ** e > a:
        e -= 1
    elif Fraction(2) ** (e + 1) <= a:
        e += 1
    scale = Fraction(2) ** (p - 1 - e)
    t = a * scale                      # in [2^(p-1), 2^p)
    fl = t.numerator // t.denominator
    rem = t - fl
    if rem > Fraction(1, 2) or (rem == Fraction(1, 2) and fl % 2 == 1):
        fl += 1
    return sgn * Fraction(fl) / scale


def to_fraction(t):
    from fractions import Fraction
    if '/' in t:
        n, d = t.split('/')
        return Fraction(int(n), int(d))
    if '^' in t:
        n, e = t.split('^')
        return Fraction(int(n), 2 ** int(e))
    return Fraction(int(t))


def approx_equal(x, y):
    if x == y:
        return True
    try:
        fx, fy = to_fraction(x), to_fraction(y)
    except (ValueError, ZeroDivisionError):
        return False
    from fractions import Fraction
    return abs(fx - fy) <= max(abs(fx), abs(fy)) * Fraction(1, 2 ** 20)


def vals_equal(a, b):
    if a == b:
        return True
    if '/' not in b:
        return False
    la, lb = a.split(','), b.split(',')
    return len(la) == len(lb) and all(tok_equal(x, y) for x, y in zip(la, lb))


def first_diff(a, b):
    la, lb = a.split(','), b.split(',')
    if len(la) != len(lb):
        return 'lengths %d vs %d (real=%s model=%s)' % (len(la), len(lb), a[:80], b[:80])
    for i, (x, y) in enumerate(zip(la, lb)):
        if not tok_equal(x, y):
            return 'index %d: real=%s model=%s' % (i, x, y)
    return 'real=%s model=%s' % (a[:80], b[:80])


class Diff(object):
    def __init__(self, hist_index, step, line, reason, robs, mobs):
        self.hist_index, self.step, self.line, self.reason = hist_index, step, line, reason
        self.robs, self.mobs = robs, mobs


def check_histories(histories, stats=None, pair_check=None):
    """Run all histories on both sides. Returns list of Diff (first per history)."""
    reals = [run_real(h) for h in histories]
    models = run_model([ml for (_, ml) in reals])
    diffs = []
    for hi, (h, (robs, mlines), mobs) in enumerate(zip(histories, reals, models)):
        drifted = False
        for si, (ln, ro, mo) in enumerate(zip(h, robs, mobs)):
            if stats is not None:
                stats.count(ln, ro, mo)
            if ro.startswith('err HarnessOracle'):
                # an oracle of the harness on the implementation alone (exact arithmetic): a failure whatever the
                # model says about this line
                diffs.append(Diff(hi, si, ln, 'property oracle on the implementation alone: ' + ro[:300], ro, mo))
                break
            if ro == 'inexact' or mo == 'inexact':
                if stats is not None:
                    stats.discarded += 1
                # the exact model cannot follow from here on; an oracle that compares two routes of the
                # IMPLEMENTATION with each other does not need it and still runs (seeded change C19f: a route
                # that accumulates in another precision differs only on values the model cannot predict)
                if pair_check is not None:
                    why = pair_check(h, robs)
                    if why is not None:
                        diffs.append(Diff(hi, len(h) - 1, h[-1],
                                          'property oracle on the implementation alone: ' + why, robs[-1], mobs[-1]))
                break
            if drifted and ln.split()[0] not in ('state', 'fitsraw'):
                continue          # model state no longer comparable; layout / read-path checks continue
            why = compare(ln, ro, mo)
            if why == DRIFT:
                drifted = True
                if stats is not None:
                    stats.drift += 1
                continue
            if drifted and why is not None and 'lit=' not in mo:
                continue
            if why is not None:
                diffs.append(Diff(hi, si, ln, why, ro, mo))
                break
        else:
            if pair_check is not None:
                why = pair_check(h, robs)
                if why is not None:
                    diffs.append(Diff(hi, len(h) - 1, h[-1], 'property oracle on the implementation alone: ' + why,
                                      robs[-1], mobs[-1]))
    return diffs


PAIR_CHECK = None


def fails(lines):
    """Does this single history still show a difference? Returns Diff or None."""
    try:
        d = check_histories([lines], pair_check=PAIR_CHECK)
    except Exception:
        return None
    if d and (d[0].reason.startswith('model rejected') or d[0].reason.startswith('map missing')):
        return None        # a malformed candidate produced by shrinking, not a failure
    return d[0] if d else None


def shrink(lines, max_rounds=200, budget_s=None):
    """Delta-debug a failing history: drop lines (never the ones that create maps still used).
    Bounded in rounds and in wall time (a failing input may be a hang that costs seconds per try)."""
    import time
    if budget_s is None:
        budget_s = float(os.environ.get('VERIF_SHRINK_S', '90'))
    t_end = time.time() + budget_s
    cur = list(lines)
    d = fails(cur)
    if d is None:
        return cur, None
    cur = cur[:d.step + 1]
    rounds = 0
    changed = True
    while changed and rounds < max_rounds and time.time() < t_end:
        changed = False
        i = len(cur) - 2
        while i >= 0 and rounds < max_rounds and time.time() < t_end:
            cand = cur[:i] + cur[i + 1:]
            rounds += 1
            dd = fails(cand)
            if dd is not None:
                cur = cand[:dd.step + 1]
                d = dd
                changed = True
            i -= 1
            i = min(i, len(cur) - 2)
    # shrink pixel lists of the remaining lines
    for i in range(len(cur)):
        if i >= len(cur):
            break
        toks = cur[i].split()
        if any(t.startswith(('ring=', 'lon=', 'nb=', 'r2n=', 'n2r=')) for t in toks):
            continue
        for j, t in enumerate(toks):
            if t.startswith('pix=') and ',' in t:
                pix = t[4:].split(',')
                vals_j = next((k for k, u in enumerate(toks) if u.startswith('vals=')), None)
                vals = toks[vals_j][5:].split(',') if vals_j is not None else None
                if vals is not None and len(vals) != len(pix):
                    continue
                k = 0
                while k < len(pix) and len(pix) > 1 and rounds < max_rounds * 3 and time.time() < t_end:
                    npix = pix[:k] + pix[k + 1:]
                    ntoks = list(toks)
                    ntoks[j] = 'pix=' + ','.join(npix)
                    if vals is not None:
                        nvals = vals[:k] + vals[k + 1:]
                        ntoks[vals_j] = 'vals=' + ','.join(nvals)
                    cand = cur[:i] + [' '.join(ntoks)] + cur[i + 1:]
                    rounds += 1
                    dd = fails(cand)
                    if dd is not None and dd.step == len(cand) - 1 or (dd is not None and dd.step >= i):
                        cur, d, pix, toks = cand[:dd.step + 1], dd, npix, ntoks
                        if vals is not None:
                            vals = nvals
                    else:
                        k += 1
    return cur, d


def hist_hash(lines):
    return hashlib.sha1('\n'.join(lines).encode()).hexdigest()[:12]
