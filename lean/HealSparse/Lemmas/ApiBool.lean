/-
  C11 at the API level: `apiBoolOp` (`_apply_boolean_map_operation`: `&`, `|`, `^` and their
  in-place forms, with a boolean map or a constant on the right) and `apiInvert`
  (`invert` / `~map`) themselves — argument validation, sentinel rules, storage kinds and
  error behaviour included — for every well-formed, well-typed map object.

  Contents
  * `apiBoolOp_eq`: a TOTAL characterisation: the call fails (always `NotImplementedError`)
    exactly when `¬ BoolOpOk a rhs`, otherwise returns the explicit state `boolOpSt`;
    neither the operator string nor `in_place` takes part in the decision.
  * `apiBoolOp_inplace_eq_copy`: on a well-formed left operand the in-place and the copying
    form return literally the same arrays (hence content-equal results and identical errors).
  * `map_spec` / `const_spec` / `invert_spec`: coverage and per-pixel values of the stored
    result, through the API observers `MapObj.abs` (`get_values_pix`) and `MapObj.covd`
    (`coverage_mask`).
  * typing of cells (`MapObj.BoolCells`): not part of `MapObj.Ok`; established by `make_empty`,
    kept by `update_values_pix` (non-empty value list), produced by every boolean operation;
    observable under the layout (`boolCells_iff_abs`).
  * `opBop_map_ok` / `opInv_ok`: the driver stores exactly `a.stored st`.
  * `nValid_*`: `n_valid` of a result = number of `True` pixels (False sentinel).
-/
import HealSparse.Lemmas.WFApi
import HealSparse.Lemmas.BoolOps
import HealSparse.Lemmas.Valid
namespace HS

open WFApi

/-! ### observers -/

/-- `coverage_mask[k]` -/
def MapObj.covd (m : MapObj) (k : Nat) : Bool := covered m.c m.st k

/-- the boolean a boolean map shows at pixel `p` (`get_values_pix`) -/
def MapObj.bval (m : MapObj) (p : Nat) : Bool := toB (m.abs p)

/-- the object the driver stores for a storage-returning operation (`opBop`, `opInv` of
    Model/Dispatch.lean): every field of the LEFT operand except the arrays; the `n_valid`
    cache reset -/
def MapObj.stored (a : MapObj) (st : State Val) : MapObj := { a with st := st, cache := none }

@[simp] theorem MapObj.stored_kind (a : MapObj) (st : State Val) : (a.stored st).kind = a.kind := rfl
@[simp] theorem MapObj.stored_sent (a : MapObj) (st : State Val) : (a.stored st).sent = a.sent := rfl
@[simp] theorem MapObj.stored_covord (a : MapObj) (st : State Val) : (a.stored st).covord = a.covord := rfl
@[simp] theorem MapObj.stored_spord (a : MapObj) (st : State Val) : (a.stored st).spord = a.spord := rfl
@[simp] theorem MapObj.stored_st (a : MapObj) (st : State Val) : (a.stored st).st = st := rfl
@[simp] theorem MapObj.stored_view (a : MapObj) (st : State Val) : (a.stored st).view = a.view := rfl
@[simp] theorem MapObj.stored_c (a : MapObj) (st : State Val) : (a.stored st).c = a.c := rfl
@[simp] theorem MapObj.stored_vc (a : MapObj) (st : State Val) : (a.stored st).vc = a.vc := rfl
@[simp] theorem MapObj.stored_npix (a : MapObj) (st : State Val) : (a.stored st).npix = a.npix := rfl

/-- every storage cell holds a boolean (numpy: the array dtype is `bool`).  Not part of
    `MapObj.Ok`, which constrains the layout, the sentinel and the kind only. -/
def MapObj.BoolCells (m : MapObj) : Prop :=
  ∀ (i : Nat) (x : Val), m.st.sp[i]? = some x → x.isBoolVal = true

/-! ### total characterisation of `apiBoolOp` -/

/-- the right operand is acceptable for the left operand `a` -/
def BoolRhs.Admissible (a : MapObj) : BoolRhs → Prop
  | .const _ => True
  | .map b => b.kind.isBool = true ∧ a.spord = b.spord ∧ a.covord = b.covord ∧
      a.sent ≠ .bool true ∧ b.sent ≠ .bool true

instance (a : MapObj) (rhs : BoolRhs) : Decidable (rhs.Admissible a) := by
  cases rhs <;> unfold BoolRhs.Admissible <;> infer_instance

/-- the call is accepted: boolean left operand, admissible right operand -/
def BoolOpOk (a : MapObj) (rhs : BoolRhs) : Prop := a.kind.isBool = true ∧ rhs.Admissible a

instance (a : MapObj) (rhs : BoolRhs) : Decidable (BoolOpOk a rhs) := by
  unfold BoolOpOk; infer_instance

/-- the arrays an accepted call returns -/
def boolOpSt (a : MapObj) (op : String) (rhs : BoolRhs) (inPlace : Bool) : State Val :=
  match rhs with
  | .const k => ofBoolState (boolConst a.c (toBoolState a.st) (boolFn op) k)
  | .map b =>
    if inPlace then
      ofBoolState (boolMapInPlace a.c ⟨false, fun b => b⟩ (toBoolState a.st) (toBoolState b.st) (boolFn op))
    else
      ofBoolState (boolMapCopy a.c (toBoolState a.st) (toBoolState b.st) (boolFn op))

namespace ApiBool

/-- **`_apply_boolean_map_operation`, totally**: accepted exactly when `BoolOpOk a rhs`; every
    refusal is `NotImplementedError`; the operator string and `in_place` play no part in the
    decision -/
theorem apiBoolOp_eq (a : MapObj) (op : String) (rhs : BoolRhs) (inPlace : Bool) :
    apiBoolOp a op rhs inPlace =
      if BoolOpOk a rhs then .ok (boolOpSt a op rhs inPlace) else .error .notImpl := by
  unfold apiBoolOp BoolOpOk boolOpSt
  simp only [bind, Except.bind, pure, Except.pure, throw, throwThe, MonadExceptOf.throw]
  cases rhs with
  | const k =>
    by_cases hk : a.kind.isBool = true <;> simp [hk, BoolRhs.Admissible]
  | map b =>
    simp only [BoolRhs.Admissible]
    by_cases hk : a.kind.isBool = true
    · by_cases hkb : b.kind.isBool = true
      · by_cases h1 : a.spord = b.spord
        · by_cases h2 : a.covord = b.covord
          · by_cases h3 : a.sent = .bool true
            · simp [hk, hkb, h1, h2, h3]
            · by_cases h4 : b.sent = .bool true
              · simp [hk, hkb, h1, h2, h3, h4]
              · cases inPlace <;> simp [hk, hkb, h1, h2, h3, h4]
          · simp [hk, hkb, h1, h2]
        · simp [hk, hkb, h1]
      · simp [hk, hkb]
    · simp [hk]


/-- every refusal is `NotImplementedError` -/
theorem apiBoolOp_error {a : MapObj} {op : String} {rhs : BoolRhs} {ip : Bool} {e : Err}
    (h : apiBoolOp a op rhs ip = .error e) : e = .notImpl ∧ ¬ BoolOpOk a rhs := by
  rw [apiBoolOp_eq] at h
  by_cases hok : BoolOpOk a rhs
  · rw [if_pos hok] at h; cases h
  · rw [if_neg hok] at h; cases h; exact ⟨rfl, hok⟩

theorem apiBoolOp_ok {a : MapObj} {op : String} {rhs : BoolRhs} {ip : Bool} {st : State Val}
    (h : apiBoolOp a op rhs ip = .ok st) : BoolOpOk a rhs ∧ st = boolOpSt a op rhs ip := by
  rw [apiBoolOp_eq] at h
  by_cases hok : BoolOpOk a rhs
  · rw [if_pos hok] at h; cases h; exact ⟨hok, rfl⟩
  · rw [if_neg hok] at h; cases h

/-- accepted ⇔ `BoolOpOk` -/
theorem apiBoolOp_ok_iff (a : MapObj) (op : String) (rhs : BoolRhs) (ip : Bool) :
    (∃ st, apiBoolOp a op rhs ip = .ok st) ↔ BoolOpOk a rhs := by
  constructor
  · rintro ⟨st, h⟩; exact (apiBoolOp_ok h).1
  · intro h; exact ⟨_, by rw [apiBoolOp_eq, if_pos h]⟩

/-- the in-place and the copying form, and all operators, fail alike -/
theorem apiBoolOp_error_iff (a : MapObj) (op op' : String) (rhs : BoolRhs) (ip ip' : Bool) (e : Err) :
    apiBoolOp a op rhs ip = .error e ↔ apiBoolOp a op' rhs ip' = .error e := by
  rw [apiBoolOp_eq, apiBoolOp_eq]
  by_cases hok : BoolOpOk a rhs
  · rw [if_pos hok, if_pos hok]; constructor <;> intro h <;> cases h
  · rw [if_neg hok, if_neg hok]

/-- an operator string other than `and` / `or` is `xor` (the real private routine refuses such
    a name; its public callers `__and__`, `__or__`, `__xor__` and the in-place forms never pass
    one) -/
theorem boolFn_cases (op : String) :
    boolFn op = (· && ·) ∨ boolFn op = (· || ·) ∨ boolFn op = (· != ·) := by
  unfold boolFn
  split
  · exact Or.inl rfl
  · exact Or.inr (Or.inl rfl)
  · exact Or.inr (Or.inr rfl)

theorem boolFn_comm (op : String) (x y : Bool) : boolFn op x y = boolFn op y x := by
  rcases boolFn_cases op with h | h | h <;> rw [h] <;> cases x <;> cases y <;> rfl

theorem boolFn_other {op : String} (h1 : op ≠ "and") (h2 : op ≠ "or") : boolFn op = (· != ·) := by
  unfold boolFn
  split
  · exact absurd rfl h1
  · exact absurd rfl h2
  · rfl

theorem apiInvert_eq (a : MapObj) :
    apiInvert a =
      if a.kind.isBool = true then .ok (ofBoolState (invertMap a.c (toBoolState a.st)))
      else .error .notImpl := by
  unfold apiInvert
  simp only [bind, Except.bind, pure, Except.pure, throw, throwThe, MonadExceptOf.throw]
  by_cases hk : a.kind.isBool = true <;> simp [hk]

/-! ### the observers are the API's -/

/-- `coverage_mask` lists `covd` -/
theorem apiCovMask_eq (m : MapObj) : apiCovMask m = (List.range m.c.ncov).map m.covd := rfl

/-- `get_values_pix([p])` answers `abs p` -/
theorem apiGet_single (m : MapObj) {p : Nat} (hp : p < m.npix) : apiGet m [p] = .ok [m.abs p] := by
  unfold apiGet
  simp [Nat.not_le.2 hp]

/-! ### transport between the `Val` storage and its boolean reading -/

/-- cell parameters of the boolean reading (overflow value `x`) -/
abbrev vcb (x : Bool) : VCfg Bool := ⟨x, fun b => b⟩

theorem c_eq {a b : MapObj} (h1 : a.spord = b.spord) (h2 : a.covord = b.covord) : b.c = a.c := by
  unfold MapObj.c; rw [h1, h2]

theorem inv_toBool {m : MapObj} (hm : m.WF) {x : Bool} (hx : toB m.vc.sentinel = x) :
    Inv m.c (vcb x) (toBoolState m.st) := hm.2.toBoolState _ hx.symm

theorem abs_toBool {m : MapObj} (hm : m.WF) (x : Bool) {p : Nat} (hp : p < m.npix) :
    abs m.c (vcb x) (toBoolState m.st) p = m.bval p :=
  abs_mapCells m.c m.vc (vcb x) m.st toB hm.2 p hp

theorem covered_toBool (m : MapObj) (k : Nat) : covered m.c (toBoolState m.st) k = m.covd k := rfl

theorem toBool_ofBool (t : State Bool) : toBoolState (ofBoolState t) = t := by
  cases t with
  | mk cov sp =>
    simp only [toBoolState, ofBoolState, Array.map_map]
    congr 1
    apply Array.ext_getElem?
    intro i
    rw [Array.getElem?_map]
    cases sp[i]? <;> rfl

theorem ofBool_toBool {m : MapObj} (hc : m.BoolCells) : ofBoolState (toBoolState m.st) = m.st := by
  have hc' : ∀ (i : Nat) (x : Val), m.st.sp[i]? = some x → x.isBoolVal = true := hc
  generalize m.st = s at hc'
  cases s with
  | mk cov sp =>
    simp only [toBoolState, ofBoolState, Array.map_map]
    congr 1
    apply Array.ext_getElem?
    intro i
    rw [Array.getElem?_map]
    cases h : sp[i]? with
    | none => rfl
    | some v =>
      obtain ⟨b, rfl⟩ := Val.isBoolVal_iff.1 (hc' i v h)
      rfl

section result
variable {a : MapObj} {t : State Bool} {x : Bool}

theorem stored_wf (hle : a.covord ≤ a.spord) (ht : Inv a.c (vcb x) t)
    (hx : a.vc.sentinel = .bool x) : (a.stored (ofBoolState t)).WF :=
  ⟨hle, ht.ofBoolState _ hx⟩

theorem stored_abs (ht : Inv a.c (vcb x) t) {p : Nat} (hp : p < a.npix) :
    (a.stored (ofBoolState t)).abs p = .bool (abs a.c (vcb x) t p) :=
  abs_mapCells a.c (vcb x) a.vc t Val.bool ht p hp

theorem stored_bval (ht : Inv a.c (vcb x) t) {p : Nat} (hp : p < a.npix) :
    (a.stored (ofBoolState t)).bval p = abs a.c (vcb x) t p := by
  unfold MapObj.bval
  rw [stored_abs ht hp]
  rfl

theorem stored_covd (a : MapObj) (t : State Bool) (k : Nat) :
    (a.stored (ofBoolState t)).covd k = covered a.c t k := rfl

theorem stored_boolCells (a : MapObj) (t : State Bool) : (a.stored (ofBoolState t)).BoolCells := by
  intro i v h
  have h' : (t.sp.map Val.bool)[i]? = some v := h
  rw [Array.getElem?_map] at h'
  cases ht : t.sp[i]? with
  | none => rw [ht] at h'; cases h'
  | some b => rw [ht] at h'; cases h'; rfl

end result

/-! ### typing facts -/

theorem valid_of_isBool {k : Kind} (hk : k.isBool = true) (s v : Val) : k.valid s v = (v != s) := by
  cases k with
  | plain dt => rfl
  | packed => cases v <;> rfl
  | wide n => cases hk
  | recd fs pr => cases hk

theorem blank_of_isBool {m : MapObj} (hk : m.kind.isBool = true) (hka : m.KindOk) :
    m.vc.sentinel = m.sent ∧ ∃ x, m.sent = .bool x := by
  unfold MapObj.KindOk MapObj.kindOk at hka
  unfold MapObj.vc
  cases hkind : m.kind with
  | plain dt =>
    rw [hkind] at hka hk
    cases dt with
    | bool => exact ⟨rfl, Val.isBoolVal_iff.1 hka⟩
    | int b sg => cases hk
    | flt b => cases hk
  | packed =>
    rw [hkind] at hka
    have : m.sent = .bool false := eq_of_beq hka
    exact ⟨this.symm, false, this⟩
  | wide n => rw [hkind] at hk; cases hk
  | recd fs pr => rw [hkind] at hk; cases hk

theorem sent_false {m : MapObj} (hk : m.kind.isBool = true) (hka : m.KindOk)
    (hs : m.sent ≠ .bool true) : m.sent = .bool false := by
  obtain ⟨_, x, hx⟩ := blank_of_isBool hk hka
  cases x with
  | false => exact hx
  | true => exact absurd hx hs

/-- a bit-packed map has a `False` sentinel -/
theorem sent_false_of_packed {m : MapObj} (hk : m.kind = .packed) (hka : m.KindOk) :
    m.sent = .bool false := by
  unfold MapObj.KindOk MapObj.kindOk at hka
  rw [hk] at hka
  exact eq_of_beq hka

/-- a map with boolean cells shows its cells -/
theorem bool_bval {m : MapObj} (hbb : m.BoolBlank) (hc : m.BoolCells) (p : Nat) :
    Val.bool (m.bval p) = m.abs p := by
  unfold MapObj.bval MapObj.abs HS.abs rd
  cases h : m.st.sp[(lookup m.c m.st p).toNat]? with
  | none =>
    obtain ⟨x, hx⟩ := hbb
    simp only [Option.getD_none, hx]
    rfl
  | some v =>
    obtain ⟨b, rfl⟩ := Val.isBoolVal_iff.1 (hc _ v h)
    rfl

/-- outside the coverage a map shows (the boolean reading of) its blank cell -/
theorem bval_uncovered {m : MapObj} (hm : m.WF) {p : Nat} (hp : p < m.npix)
    (hc : m.covd (p >>> m.c.shift) = false) : m.bval p = toB m.vc.sentinel := by
  unfold MapObj.bval MapObj.abs
  rw [hm.2.abs_uncovered hp hc]


/-! ### the specifications -/

/-- what an accepted map–map call knows about its operands -/
theorem map_facts {a b : MapObj} {op : String} {ip : Bool} {st : State Val}
    (ha : a.WF) (hka : a.KindOk) (hb : b.WF)
    (h : apiBoolOp a op (.map b) ip = .ok st) :
    a.kind.isBool = true ∧ b.kind.isBool = true ∧ b.c = a.c ∧
    a.sent = .bool false ∧ a.vc.sentinel = .bool false ∧ toB b.vc.sentinel = false ∧
    Inv a.c (vcb false) (toBoolState a.st) ∧ Inv a.c (vcb false) (toBoolState b.st) ∧
    st = ofBoolState (boolMapInPlace a.c (vcb false) (toBoolState a.st) (toBoolState b.st) (boolFn op)) := by
  obtain ⟨⟨hk, hkb, hsp, hco, hsa, hsb⟩, hst⟩ := apiBoolOp_ok h
  have hcb := c_eq hsp hco
  have hsf := sent_false hk hka hsa
  have hvs : a.vc.sentinel = .bool false := by rw [(blank_of_isBool hk hka).1, hsf]
  have hA : Inv a.c (vcb false) (toBoolState a.st) := inv_toBool ha (by rw [hvs]; rfl)
  have hB : Inv a.c (vcb false) (toBoolState b.st) := by
    rw [← hcb]; exact inv_toBool hb (toB_blank_false hkb hsb)
  refine ⟨hk, hkb, hcb, hsf, hvs, toB_blank_false hkb hsb, hA, hB, ?_⟩
  rw [hst]
  unfold boolOpSt
  cases ip with
  | true => rfl
  | false =>
    simp only [Bool.false_eq_true, if_false]
    rw [boolMapCopy_eq_inPlace a.c (vcb false) rfl _ _ _ hA]

/-- **`a op b`, `a op= b`** for boolean maps (either storage on either side): the stored result
    is well formed, well typed, has boolean cells, the kind / sentinel / orders of the LEFT
    operand; its coverage is the union; inside `b`'s coverage the value is the pointwise
    operation, outside it `a`'s value -/
theorem map_spec {a b : MapObj} {op : String} {ip : Bool} {st : State Val}
    (ha : a.WF) (hka : a.KindOk) (hb : b.WF)
    (h : apiBoolOp a op (.map b) ip = .ok st) :
    (a.stored st).WF ∧ (a.stored st).KindOk ∧ (a.stored st).BoolCells ∧
    (∀ k, k < a.c.ncov → (a.stored st).covd k = (a.covd k || b.covd k)) ∧
    (∀ p, p < a.npix → (a.stored st).abs p =
        .bool (if b.covd (p >>> a.c.shift) = true then boolFn op (a.bval p) (b.bval p)
               else a.bval p)) := by
  obtain ⟨_, _, hcb, _, hvs, _, hA, hB, rfl⟩ := map_facts ha hka hb h
  obtain ⟨hi, habs, hcov⟩ := boolMapInPlace_spec' a.c (vcb false) rfl _ _ (boolFn op) hA hB
  refine ⟨stored_wf ha.1 hi hvs, hka, stored_boolCells _ _, ?_, ?_⟩
  · intro k hk
    rw [stored_covd, hcov k hk]
    show (covered a.c a.st k || covered a.c b.st k) = (covered a.c a.st k || covered b.c b.st k)
    rw [hcb]
  · intro p hp
    rw [stored_abs hi hp, habs p hp]
    unfold denseBoolMap
    have hbv : abs a.c (vcb false) (toBoolState b.st) p = b.bval p := by
      have := abs_toBool hb false (p := p) (by unfold MapObj.npix; rw [hcb]; exact hp)
      rw [hcb] at this
      exact this
    have hcv : covered a.c (toBoolState b.st) (p >>> a.c.shift) = b.covd (p >>> a.c.shift) := by
      show covered a.c b.st _ = covered b.c b.st _
      rw [hcb]
    rw [abs_toBool ha false hp, hbv, hcv]

/-- the common shape of `a op k` and `~a`: `f` applied over `a`'s coverage -/
theorem guard_spec {a : MapObj} (f : Bool → Bool) (ha : a.WF) (hka : a.KindOk)
    (hk : a.kind.isBool = true) :
    (a.stored (ofBoolState (mapGuard a.c (toBoolState a.st) f))).WF ∧
    (a.stored (ofBoolState (mapGuard a.c (toBoolState a.st) f))).BoolCells ∧
    (∀ k, (a.stored (ofBoolState (mapGuard a.c (toBoolState a.st) f))).covd k = a.covd k) ∧
    (∀ p, p < a.npix → (a.stored (ofBoolState (mapGuard a.c (toBoolState a.st) f))).abs p =
        .bool (if a.covd (p >>> a.c.shift) = true then f (a.bval p) else a.bval p)) := by
  obtain ⟨hvs, x, hx⟩ := blank_of_isBool hk hka
  have hvx : a.vc.sentinel = .bool x := by rw [hvs, hx]
  have hA : Inv a.c (vcb x) (toBoolState a.st) := inv_toBool ha (by rw [hvx]; rfl)
  obtain ⟨hi, habs, hcov⟩ := mapGuard_spec a.c (vcb x) _ f hA
  refine ⟨stored_wf ha.1 hi hvx, stored_boolCells _ _, fun k => ?_, fun p hp => ?_⟩
  · rw [stored_covd, hcov k]; rfl
  · rw [stored_abs hi hp, habs p hp, abs_toBool ha x hp]
    rfl

/-- **`a op k`, `a op= k`** (constant `True` / `False`): the operation acts on `a`'s coverage
    only; layout, coverage, kind, sentinel kept; no sentinel restriction -/
theorem const_spec {a : MapObj} {op : String} {k : Bool} {ip : Bool} {st : State Val}
    (ha : a.WF) (hka : a.KindOk) (h : apiBoolOp a op (.const k) ip = .ok st) :
    (a.stored st).WF ∧ (a.stored st).KindOk ∧ (a.stored st).BoolCells ∧
    (∀ j, (a.stored st).covd j = a.covd j) ∧
    (∀ p, p < a.npix → (a.stored st).abs p =
        .bool (if a.covd (p >>> a.c.shift) = true then boolFn op (a.bval p) k else a.bval p)) := by
  obtain ⟨⟨hk, _⟩, rfl⟩ := apiBoolOp_ok h
  obtain ⟨h1, h2, h3, h4⟩ := guard_spec (fun x => boolFn op x k) ha hka hk
  exact ⟨h1, hka, h2, h3, h4⟩

/-- **`~a`, `a.invert()`**: flips exactly the covered pixels; a pixel outside the coverage keeps
    showing the sentinel -/
theorem invert_spec {a : MapObj} {st : State Val} (ha : a.WF) (hka : a.KindOk)
    (h : apiInvert a = .ok st) :
    (a.stored st).WF ∧ (a.stored st).KindOk ∧ (a.stored st).BoolCells ∧
    (∀ j, (a.stored st).covd j = a.covd j) ∧
    (∀ p, p < a.npix → (a.stored st).abs p =
        .bool (if a.covd (p >>> a.c.shift) = true then !(a.bval p) else a.bval p)) := by
  obtain ⟨hk, rfl⟩ := apiInvert_ok h
  obtain ⟨h1, h2, h3, h4⟩ := guard_spec (fun x => !x) ha hka hk
  exact ⟨h1, hka, h2, h3, h4⟩

/-- **the in-place and the copying form return literally the same arrays** (and fail alike) on
    a well-formed left operand -/
theorem apiBoolOp_inplace_eq_copy {a : MapObj} (op : String) (rhs : BoolRhs) (ha : a.WF) :
    apiBoolOp a op rhs true = apiBoolOp a op rhs false := by
  rw [apiBoolOp_eq, apiBoolOp_eq]
  by_cases hok : BoolOpOk a rhs
  · rw [if_pos hok, if_pos hok]
    congr 1
    cases rhs with
    | const k => rfl
    | map b =>
      obtain ⟨hk, _, _, _, hsa, _⟩ := hok
      have hA : Inv a.c (vcb false) (toBoolState a.st) := inv_toBool ha (toB_blank_false hk hsa)
      unfold boolOpSt
      simp only [if_true, Bool.false_eq_true, if_false]
      rw [boolMapCopy_eq_inPlace a.c (vcb false) rfl _ _ _ hA]
  · rw [if_neg hok, if_neg hok]

/-- inversion twice gives back the boolean reading of the storage … -/
theorem invert_invert {a : MapObj} {st st2 : State Val} (h1 : apiInvert a = .ok st)
    (h2 : apiInvert (a.stored st) = .ok st2) : st2 = ofBoolState (toBoolState a.st) := by
  obtain ⟨_, rfl⟩ := apiInvert_ok h1
  obtain ⟨_, rfl⟩ := apiInvert_ok h2
  show ofBoolState (invertMap a.c (toBoolState (ofBoolState _))) = _
  rw [toBool_ofBool, invertMap_invertMap]

/-- … which is the storage itself when the cells are booleans -/
theorem invert_invert_cells {a : MapObj} {st st2 : State Val} (hc : a.BoolCells)
    (h1 : apiInvert a = .ok st) (h2 : apiInvert (a.stored st) = .ok st2) : st2 = a.st := by
  rw [invert_invert h1 h2, ofBool_toBool hc]


/-! ### cells and visible values -/

theorem boolCells_iff (m : MapObj) : m.BoolCells ↔ m.st.sp.all Val.isBoolVal = true := by
  unfold MapObj.BoolCells
  rw [Array.all_eq_true]
  constructor
  · intro h i hi; exact h i _ (Array.getElem?_eq_getElem hi)
  · intro h i x hx
    obtain ⟨hi, rfl⟩ := Array.getElem?_eq_some_iff.1 hx
    exact h i hi

instance (m : MapObj) : Decidable m.BoolCells := decidable_of_iff _ (boolCells_iff m).symm

/-- with boolean cells: outside `b`'s coverage `a op b` shows `a`'s value itself, outside `a`'s
    coverage `a` shows `False` -/
theorem map_spec_cells {a b : MapObj} {op : String} {ip : Bool} {st : State Val}
    (ha : a.WF) (hka : a.KindOk) (hca : a.BoolCells) (hb : b.WF)
    (h : apiBoolOp a op (.map b) ip = .ok st) :
    (∀ p, p < a.npix → b.covd (p >>> a.c.shift) = true →
        (a.stored st).abs p = .bool (boolFn op (a.bval p) (b.bval p))) ∧
    (∀ p, p < a.npix → b.covd (p >>> a.c.shift) = false → (a.stored st).abs p = a.abs p) ∧
    (∀ p, p < a.npix → a.covd (p >>> a.c.shift) = false → a.bval p = false) ∧
    (∀ p, p < a.npix → b.covd (p >>> a.c.shift) = false → b.bval p = false) := by
  obtain ⟨hk, _, hcb, _, hvs, hbs, _, _, _⟩ := map_facts ha hka hb h
  obtain ⟨_, _, _, _, habs⟩ := map_spec ha hka hb h
  refine ⟨fun p hp hc => ?_, fun p hp hc => ?_, fun p hp hc => ?_, fun p hp hc => ?_⟩
  · rw [habs p hp, if_pos hc]
  · rw [habs p hp, if_neg (by rw [hc]; simp), bool_bval (hka.boolBlank hk) hca]
  · rw [bval_uncovered ha hp hc, hvs]; rfl
  · have hp' : p < b.npix := by unfold MapObj.npix; rw [hcb]; exact hp
    rw [bval_uncovered hb hp' (by rw [hcb]; exact hc), hbs]

/-! ### algebraic laws of the API functions -/

/-- the pixel facts the laws are read off from -/
theorem map_pixel {a b : MapObj} {op : String} {ip : Bool} {st : State Val}
    (ha : a.WF) (hka : a.KindOk) (hb : b.WF)
    (h : apiBoolOp a op (.map b) ip = .ok st) {p : Nat} (hp : p < a.npix) :
    (a.stored st).bval p =
        (if b.covd (p >>> a.c.shift) = true then boolFn op (a.bval p) (b.bval p) else a.bval p) ∧
    (a.stored st).covd (p >>> a.c.shift) = (a.covd (p >>> a.c.shift) || b.covd (p >>> a.c.shift)) ∧
    (a.covd (p >>> a.c.shift) = false → a.bval p = false) ∧
    (b.covd (p >>> a.c.shift) = false → b.bval p = false) := by
  obtain ⟨_, _, _, hcov, habs⟩ := map_spec ha hka hb h
  obtain ⟨_, _, _, _, h3, h4⟩ := map_facts ha hka hb h
  obtain ⟨hk, _, hcb, _, hvs, hbs, _, _, _⟩ := map_facts ha hka hb h
  refine ⟨?_, hcov _ (covpix_lt a.c p hp), fun hc => ?_, fun hc => ?_⟩
  · unfold MapObj.bval; rw [habs p hp]; rfl
  · rw [bval_uncovered ha hp hc, hvs]; rfl
  · have hp' : p < b.npix := by unfold MapObj.npix; rw [hcb]; exact hp
    rw [bval_uncovered hb hp' (by rw [hcb]; exact hc), hbs]

theorem invert_pixel {a : MapObj} {st : State Val} (ha : a.WF) (hka : a.KindOk)
    (h : apiInvert a = .ok st) {p : Nat} (hp : p < a.npix) :
    (a.stored st).bval p = (if a.covd (p >>> a.c.shift) = true then !(a.bval p) else a.bval p) ∧
    (a.stored st).covd (p >>> a.c.shift) = a.covd (p >>> a.c.shift) := by
  obtain ⟨_, _, _, hcov, habs⟩ := invert_spec ha hka h
  refine ⟨?_, hcov _⟩
  unfold MapObj.bval; rw [habs p hp]; rfl

/-- two stored results with boolean cells show the same value iff their boolean readings agree -/
theorem stored_abs_eq_iff {a b : MapObj} {s1 s2 : State Val}
    (hb1 : (a.stored s1).BoolBlank) (hb2 : (b.stored s2).BoolBlank)
    (c1 : (a.stored s1).BoolCells) (c2 : (b.stored s2).BoolCells) (p : Nat) :
    (a.stored s1).abs p = (b.stored s2).abs p ↔ (a.stored s1).bval p = (b.stored s2).bval p := by
  rw [← bool_bval hb1 c1, ← bool_bval hb2 c2]
  constructor
  · intro h; exact Val.bool.inj h
  · intro h; rw [h]

/-- **commutativity, exactly**: `a op b` and `b op a` have the same coverage (the union); they
    show different values at pixel `p` iff the operator is `and` and `p` lies in the coverage of
    exactly one operand, which shows `True` there (`a & b` keeps `a`'s value outside `b`'s
    coverage, `b & a` computes `False & a = False` there).  `or`, `xor` commute everywhere. -/
theorem comm_exact {a b : MapObj} {op : String} {ip ip' : Bool} {s1 s2 : State Val}
    (ha : a.WF) (hka : a.KindOk) (hb : b.WF) (hkb : b.KindOk)
    (h1 : apiBoolOp a op (.map b) ip = .ok s1) (h2 : apiBoolOp b op (.map a) ip' = .ok s2) :
    (∀ k, k < a.c.ncov → (a.stored s1).covd k = (b.stored s2).covd k) ∧
    (∀ p, p < a.npix →
      ((a.stored s1).abs p ≠ (b.stored s2).abs p ↔
        op = "and" ∧
          ((a.covd (p >>> a.c.shift) = true ∧ b.covd (p >>> a.c.shift) = false ∧ a.bval p = true) ∨
           (b.covd (p >>> a.c.shift) = true ∧ a.covd (p >>> a.c.shift) = false ∧ b.bval p = true)))) := by
  obtain ⟨hk, hkb', hcb, _, _, _, _, _, _⟩ := map_facts ha hka hb h1
  obtain ⟨_, _, c1, hcov1, _⟩ := map_spec ha hka hb h1
  obtain ⟨_, _, c2, hcov2, _⟩ := map_spec hb hkb ha h2
  constructor
  · intro k hk'
    rw [hcov1 k hk', hcov2 k (by rw [hcb]; exact hk'), Bool.or_comm]
  · intro p hp
    have hp' : p < b.npix := by unfold MapObj.npix; rw [hcb]; exact hp
    obtain ⟨v1, _, ua, ub⟩ := map_pixel ha hka hb h1 hp
    obtain ⟨v2, _, _, _⟩ := map_pixel hb hkb ha h2 hp'
    rw [hcb] at v2
    rw [Ne, stored_abs_eq_iff (hka.boolBlank hk) (hkb.boolBlank hkb') c1 c2, v1, v2]
    generalize a.covd (p >>> a.c.shift) = ca at *
    generalize b.covd (p >>> a.c.shift) = cb at *
    generalize a.bval p = av at *
    generalize b.bval p = bv at *
    by_cases hop : op = "and"
    · subst hop
      simp only [boolFn, true_and]
      revert ua ub
      cases ca <;> cases cb <;> cases av <;> cases bv <;> simp
    · simp only [hop, false_and, iff_false, Decidable.not_not]
      have hf : boolFn op = (· || ·) ∨ boolFn op = (· != ·) := by
        rcases boolFn_cases op with h | h | h
        · exfalso
          unfold boolFn at h
          split at h
          · exact hop rfl
          · exact absurd (congrFun (congrFun h true) false) (by decide)
          · exact absurd (congrFun (congrFun h true) false) (by decide)
        · exact Or.inl h
        · exact Or.inr h
      revert ua ub
      rcases hf with hf | hf <;> rw [hf] <;>
        cases ca <;> cases cb <;> cases av <;> cases bv <;> simp


/-- **De Morgan, exactly**: `~(a & b)` and `~a | ~b` have the same coverage (the union) and the
    same value at every pixel EXCEPT those that only `b` covers and where `b` is `True`: there
    `a & b` is `False & True = False`, inverted to `True`, while `~a` stays `False` outside
    `a`'s coverage and `False | ~True = False`.  In particular the law holds on the whole
    coverage of `a`. -/
theorem de_morgan_exact {a b : MapObj} {ip ip' : Bool} {s1 s2 ia ib s3 : State Val}
    (ha : a.WF) (hka : a.KindOk) (hb : b.WF) (hkb : b.KindOk)
    (h1 : apiBoolOp a "and" (.map b) ip = .ok s1) (h2 : apiInvert (a.stored s1) = .ok s2)
    (h3 : apiInvert a = .ok ia) (h4 : apiInvert b = .ok ib)
    (h5 : apiBoolOp (a.stored ia) "or" (.map (b.stored ib)) ip' = .ok s3) :
    (∀ k, k < a.c.ncov → ((a.stored s1).stored s2).covd k = ((a.stored ia).stored s3).covd k) ∧
    (∀ p, p < a.npix →
      (((a.stored s1).stored s2).abs p ≠ ((a.stored ia).stored s3).abs p ↔
        (b.covd (p >>> a.c.shift) = true ∧ a.covd (p >>> a.c.shift) = false ∧ b.bval p = true))) := by
  obtain ⟨hk, hkb', hcb, _, _, _, _, _, _⟩ := map_facts ha hka hb h1
  obtain ⟨w1, k1, _, hcov1, _⟩ := map_spec ha hka hb h1
  obtain ⟨w2, k2, c2, hcov2, _⟩ := invert_spec w1 k1 h2
  obtain ⟨wa, ka, _, hcova, _⟩ := invert_spec ha hka h3
  obtain ⟨wb, kb, _, hcovb, _⟩ := invert_spec hb hkb h4
  obtain ⟨w3, k3, c3, hcov3, _⟩ := map_spec wa ka wb h5
  constructor
  · intro k hk'
    rw [hcov2 k, hcov1 k hk', hcov3 k hk', hcova k, hcovb k]
  · intro p hp
    have hp' : p < b.npix := by unfold MapObj.npix; rw [hcb]; exact hp
    obtain ⟨v1, cv1, ua, ub⟩ := map_pixel ha hka hb h1 hp
    have v2 : ((a.stored s1).stored s2).bval p =
        (if (a.stored s1).covd (p >>> a.c.shift) = true then !((a.stored s1).bval p)
         else (a.stored s1).bval p) := (invert_pixel w1 k1 h2 (p := p) hp).1
    obtain ⟨va, _⟩ := invert_pixel ha hka h3 hp
    obtain ⟨vb, _⟩ := invert_pixel hb hkb h4 hp'
    have v3 : ((a.stored ia).stored s3).bval p =
        (if (b.stored ib).covd (p >>> a.c.shift) = true then
          boolFn "or" ((a.stored ia).bval p) ((b.stored ib).bval p)
         else (a.stored ia).bval p) := (map_pixel wa ka wb h5 (p := p) hp).1
    rw [hcb] at vb
    rw [Ne, stored_abs_eq_iff (k2.boolBlank hk) (k3.boolBlank hk) c2 c3]
    simp only [v2, v3, cv1, v1, va, vb, hcovb]
    generalize a.covd (p >>> a.c.shift) = ca at *
    generalize b.covd (p >>> a.c.shift) = cb at *
    generalize a.bval p = av at *
    generalize b.bval p = bv at *
    simp only [boolFn]
    revert ua ub
    cases ca <;> cases cb <;> cases av <;> cases bv <;> simp

/-- **the dual De Morgan law, exactly**: `~(a | b)` and `~a & ~b` have the same coverage and
    differ at `p` iff only `b` covers `p` and `b` is `False` there (left: `~(False | False) = True`,
    right: `False & ~False = False`, `~a` being `False` outside `a`'s coverage) -/
theorem de_morgan_or_exact {a b : MapObj} {ip ip' : Bool} {s1 s2 ia ib s3 : State Val}
    (ha : a.WF) (hka : a.KindOk) (hb : b.WF) (hkb : b.KindOk)
    (h1 : apiBoolOp a "or" (.map b) ip = .ok s1) (h2 : apiInvert (a.stored s1) = .ok s2)
    (h3 : apiInvert a = .ok ia) (h4 : apiInvert b = .ok ib)
    (h5 : apiBoolOp (a.stored ia) "and" (.map (b.stored ib)) ip' = .ok s3) :
    (∀ k, k < a.c.ncov → ((a.stored s1).stored s2).covd k = ((a.stored ia).stored s3).covd k) ∧
    (∀ p, p < a.npix →
      (((a.stored s1).stored s2).abs p ≠ ((a.stored ia).stored s3).abs p ↔
        (b.covd (p >>> a.c.shift) = true ∧ a.covd (p >>> a.c.shift) = false ∧ b.bval p = false))) := by
  obtain ⟨hk, hkb', hcb, _, _, _, _, _, _⟩ := map_facts ha hka hb h1
  obtain ⟨w1, k1, _, hcov1, _⟩ := map_spec ha hka hb h1
  obtain ⟨w2, k2, c2, hcov2, _⟩ := invert_spec w1 k1 h2
  obtain ⟨wa, ka, _, hcova, _⟩ := invert_spec ha hka h3
  obtain ⟨wb, kb, _, hcovb, _⟩ := invert_spec hb hkb h4
  obtain ⟨w3, k3, c3, hcov3, _⟩ := map_spec wa ka wb h5
  constructor
  · intro k hk'
    rw [hcov2 k, hcov1 k hk', hcov3 k hk', hcova k, hcovb k]
  · intro p hp
    have hp' : p < b.npix := by unfold MapObj.npix; rw [hcb]; exact hp
    obtain ⟨v1, cv1, ua, ub⟩ := map_pixel ha hka hb h1 hp
    have v2 : ((a.stored s1).stored s2).bval p =
        (if (a.stored s1).covd (p >>> a.c.shift) = true then !((a.stored s1).bval p)
         else (a.stored s1).bval p) := (invert_pixel w1 k1 h2 (p := p) hp).1
    obtain ⟨va, _⟩ := invert_pixel ha hka h3 hp
    obtain ⟨vb, _⟩ := invert_pixel hb hkb h4 hp'
    have v3 : ((a.stored ia).stored s3).bval p =
        (if (b.stored ib).covd (p >>> a.c.shift) = true then
          boolFn "and" ((a.stored ia).bval p) ((b.stored ib).bval p)
         else (a.stored ia).bval p) := (map_pixel wa ka wb h5 (p := p) hp).1
    rw [hcb] at vb
    rw [Ne, stored_abs_eq_iff (k2.boolBlank hk) (k3.boolBlank hk) c2 c3]
    simp only [v2, v3, cv1, v1, va, vb, hcovb]
    generalize a.covd (p >>> a.c.shift) = ca at *
    generalize b.covd (p >>> a.c.shift) = cb at *
    generalize a.bval p = av at *
    generalize b.bval p = bv at *
    simp only [boolFn]
    revert ua ub
    cases ca <;> cases cb <;> cases av <;> cases bv <;> simp

/-- **absorption**: `a | (a & b)` shows `a`'s value at EVERY pixel; its coverage is the union
    (so it is content-equal to `a` iff `b`'s coverage lies inside `a`'s) -/
theorem absorption_exact {a b : MapObj} {ip ip' : Bool} {s1 s2 : State Val}
    (ha : a.WF) (hka : a.KindOk) (hb : b.WF)
    (h1 : apiBoolOp a "and" (.map b) ip = .ok s1)
    (h2 : apiBoolOp a "or" (.map (a.stored s1)) ip' = .ok s2) :
    (∀ k, k < a.c.ncov → (a.stored s2).covd k = (a.covd k || b.covd k)) ∧
    (∀ p, p < a.npix → (a.stored s2).abs p = .bool (a.bval p)) := by
  obtain ⟨w1, _, _, hcov1, _⟩ := map_spec ha hka hb h1
  obtain ⟨_, _, _, hcov2, habs2⟩ := map_spec ha hka w1 h2
  constructor
  · intro k hk
    rw [hcov2 k hk, hcov1 k hk]
    cases a.covd k <;> cases b.covd k <;> rfl
  · intro p hp
    obtain ⟨v1, cv1, ua, _⟩ := map_pixel ha hka hb h1 hp
    rw [habs2 p hp, cv1, v1]
    congr 1
    generalize a.covd (p >>> a.c.shift) = ca at *
    generalize b.covd (p >>> a.c.shift) = cb at *
    generalize a.bval p = av at *
    generalize b.bval p = bv at *
    simp only [boolFn]
    revert ua
    cases ca <;> cases cb <;> cases av <;> cases bv <;> simp

/-- **`a ^ a`**: every pixel `False`, the coverage of `a` retained (not the empty map) -/
theorem xor_self {a : MapObj} {op : String} {ip : Bool} {st : State Val} (ha : a.WF) (hka : a.KindOk)
    (hop : op ≠ "and") (hop' : op ≠ "or")
    (h : apiBoolOp a op (.map a) ip = .ok st) :
    (∀ k, k < a.c.ncov → (a.stored st).covd k = a.covd k) ∧
    (∀ p, p < a.npix → (a.stored st).abs p = .bool false) := by
  obtain ⟨_, _, _, hcov, habs⟩ := map_spec ha hka ha h
  constructor
  · intro k hk; rw [hcov k hk, Bool.or_self]
  · intro p hp
    obtain ⟨_, _, ua, _⟩ := map_pixel ha hka ha h hp
    rw [habs p hp, boolFn_other hop hop']
    congr 1
    generalize a.covd (p >>> a.c.shift) = ca at *
    generalize a.bval p = av at *
    revert ua
    cases ca <;> cases av <;> simp

/-! ### `n_valid` -/

/-- `n_valid` = number of pixels showing a valid value (C02.nValid_eq, restated here because
    Props/C02 is not below this file) -/
theorem nValid_count {V : Type} [DecidableEq V] {c : Cfg} {vc : VCfg V} {s : State V}
    (h : Inv c vc s) (hv : vc.valid vc.sentinel = false) :
    nValid vc s = ((List.range c.npix).filter fun p => vc.valid (abs c vc s p)).length := by
  have hperm : ((validCells vc s).map (pixOfCell c s)).Perm
      ((List.range c.npix).filter fun p => vc.valid (abs c vc s p)) := by
    rw [List.perm_ext_iff_of_nodup (h.nodup_validCells_map hv)
      (List.filter_sublist.nodup List.nodup_range)]
    intro p
    rw [h.mem_validCells_map hv p]
    simp
  have := hperm.length_eq
  simpa [nValid] using this

/-- **`n_valid` of a boolean map = number of pixels that differ from the sentinel**; with the
    `False` sentinel: the number of `True` pixels -/
theorem nValid_bool {m : MapObj} (hm : m.WF) (hk : m.kind.isBool = true) (hka : m.KindOk)
    (hc : m.BoolCells) {x : Bool} (hx : m.sent = .bool x) :
    nValid m.vc m.st = ((List.range m.npix).filter fun p => m.bval p != x).length := by
  have hvs := (blank_of_isBool hk hka).1
  rw [nValid_count hm.2 hka.blankInvalid]
  apply congrArg
  apply List.filter_congr
  intro p _
  show m.kind.valid m.sent (m.abs p) = _
  rw [valid_of_isBool hk, ← bool_bval (hka.boolBlank hk) hc, hx]
  cases m.bval p <;> cases x <;> rfl

theorem nValid_true {m : MapObj} (hm : m.WF) (hk : m.kind.isBool = true) (hka : m.KindOk)
    (hc : m.BoolCells) (hx : m.sent = .bool false) :
    nValid m.vc m.st = ((List.range m.npix).filter m.bval).length := by
  rw [nValid_bool hm hk hka hc hx]
  apply congrArg
  apply List.filter_congr
  intro p _
  cases m.bval p <;> rfl

/-- **`n_valid` of `a op b`** = number of `True` cells of the dense result -/
theorem nValid_map {a b : MapObj} {op : String} {ip : Bool} {st : State Val}
    (ha : a.WF) (hka : a.KindOk) (hb : b.WF)
    (h : apiBoolOp a op (.map b) ip = .ok st) :
    nValid (a.stored st).vc (a.stored st).st =
      ((List.range a.npix).filter fun p =>
        if b.covd (p >>> a.c.shift) = true then boolFn op (a.bval p) (b.bval p) else a.bval p).length := by
  obtain ⟨hk, _, _, hsf, _, _, _, _, _⟩ := map_facts ha hka hb h
  obtain ⟨w, k, c, _, _⟩ := map_spec ha hka hb h
  rw [nValid_true w hk k c hsf]
  apply congrArg
  apply List.filter_congr
  intro p hp
  exact (map_pixel ha hka hb h (List.mem_range.1 hp)).1

/-- `n_valid` of `a ^ a` is 0 -/
theorem nValid_xor_self {a : MapObj} {op : String} {ip : Bool} {st : State Val} (ha : a.WF)
    (hka : a.KindOk) (hop : op ≠ "and") (hop' : op ≠ "or")
    (h : apiBoolOp a op (.map a) ip = .ok st) :
    nValid (a.stored st).vc (a.stored st).st = 0 := by
  obtain ⟨hk, _, _, hsf, _, _, _, _, _⟩ := map_facts ha hka ha h
  obtain ⟨w, k, c, _, _⟩ := map_spec ha hka ha h
  rw [nValid_true w hk k c hsf, List.length_eq_zero_iff, List.filter_eq_nil_iff]
  intro p hp
  unfold MapObj.bval
  rw [(xor_self ha hka hop hop' h).2 p (List.mem_range.1 hp)]
  simp [toB]

/-- `n_valid` of `a op k` / `~a`: pixels that differ from the sentinel (any boolean sentinel) -/
theorem nValid_guard {a : MapObj} (f : Bool → Bool) (ha : a.WF) (hka : a.KindOk)
    (hk : a.kind.isBool = true) {x : Bool} (hx : a.sent = .bool x) :
    nValid a.vc (ofBoolState (mapGuard a.c (toBoolState a.st) f)) =
      ((List.range a.npix).filter fun p =>
        (if a.covd (p >>> a.c.shift) = true then f (a.bval p) else a.bval p) != x).length := by
  obtain ⟨w, c, _, habs⟩ := guard_spec f ha hka hk
  have := nValid_bool w hk hka c (x := x) hx
  simp only [MapObj.stored_vc, MapObj.stored_st, MapObj.stored_npix] at this
  rw [this]
  apply congrArg
  apply List.filter_congr
  intro p hp
  unfold MapObj.bval
  rw [habs p (List.mem_range.1 hp)]
  rfl


/-! ### content equality (`C10.Same`) -/

/-- content equality of two storages at `a`'s configuration: VERBATIM the body of
    `C10.Same a.c a.vc s₁ s₂` (Props/C10 imports Props/C11, so the name cannot be used below it) -/
def SameAt (a : MapObj) (s₁ s₂ : State Val) : Prop :=
  Inv a.c a.vc s₁ ∧ Inv a.c a.vc s₂ ∧
  (∀ p, p < a.c.npix → abs a.c a.vc s₁ p = abs a.c a.vc s₂ p) ∧
  (∀ k, k < a.c.ncov → covered a.c s₁ k = covered a.c s₂ k)

/-- the in-place and the copying form are content-equal (they are in fact equal) -/
theorem inplace_copy_same {a : MapObj} {op : String} {rhs : BoolRhs} {s1 s2 : State Val}
    (ha : a.WF) (hka : a.KindOk) (hrhs : ∀ b, rhs = .map b → b.WF)
    (h1 : apiBoolOp a op rhs true = .ok s1) (h2 : apiBoolOp a op rhs false = .ok s2) :
    s1 = s2 ∧ SameAt a s1 s2 := by
  rw [apiBoolOp_inplace_eq_copy op rhs ha, h2] at h1
  cases h1
  have hw : (a.stored s1).WF := by
    cases rhs with
    | const k => exact (const_spec ha hka h2).1
    | map b => exact (map_spec ha hka (hrhs b rfl) h2).1
  exact ⟨rfl, hw.2, hw.2, fun _ _ => rfl, fun _ _ => rfl⟩

/-- `a | b` ≃ `b | a`, `a ^ b` ≃ `b ^ a` (content equality; any mix of storages and forms) -/
theorem comm_same {a b : MapObj} {op : String} {ip ip' : Bool} {s1 s2 : State Val}
    (ha : a.WF) (hka : a.KindOk) (hb : b.WF) (hkb : b.KindOk) (hop : op ≠ "and")
    (h1 : apiBoolOp a op (.map b) ip = .ok s1) (h2 : apiBoolOp b op (.map a) ip' = .ok s2) :
    SameAt a s1 s2 := by
  obtain ⟨_, _, hcb, _, hvs, _, _, _, _⟩ := map_facts ha hka hb h1
  obtain ⟨_, _, _, _, hvsb, _, _, _, _⟩ := map_facts hb hkb ha h2
  obtain ⟨w1, _, _, _, _⟩ := map_spec ha hka hb h1
  obtain ⟨w2, _, _, _, _⟩ := map_spec hb hkb ha h2
  obtain ⟨hcov, hne⟩ := comm_exact ha hka hb hkb h1 h2
  have hi2 : Inv a.c a.vc s2 := by
    have := w2.2
    simp only [MapObj.stored_c, MapObj.stored_vc, MapObj.stored_st] at this
    rw [hcb] at this
    exact inv_vc_congr this (by rw [hvs, hvsb])
  refine ⟨w1.2, hi2, fun p hp => ?_, fun k hk => ?_⟩
  · have heq : (a.stored s1).abs p = (b.stored s2).abs p :=
      Decidable.not_not.1 fun hn => hop ((hne p hp).1 hn).1
    have e2 : (b.stored s2).abs p = abs a.c a.vc s2 p := by
      show abs b.c b.vc s2 p = _
      unfold HS.abs
      rw [hcb, hvs, hvsb]
    rw [← e2]
    exact heq
  · have := hcov k hk
    unfold MapObj.covd at this
    simp only [MapObj.stored_c, MapObj.stored_st] at this
    rw [hcb] at this
    exact this

/-! ### the storage kind takes no part -/

/-- **bit-packed and ordinary boolean storage are interchangeable on either side**: the outcome
    (arrays or error) depends on the two kinds only through `isBool` -/
theorem apiBoolOp_kind_blind (a b : MapObj) (ka ka' kb kb' : Kind)
    (h1 : ka.isBool = ka'.isBool) (h2 : kb.isBool = kb'.isBool) (op : String) (ip : Bool) :
    apiBoolOp { a with kind := ka } op (.map { b with kind := kb }) ip =
      apiBoolOp { a with kind := ka' } op (.map { b with kind := kb' }) ip := by
  rw [apiBoolOp_eq, apiBoolOp_eq]
  simp only [BoolOpOk, BoolRhs.Admissible, h1, h2]
  rfl

theorem apiBoolOp_const_kind_blind (a : MapObj) (ka ka' : Kind) (h1 : ka.isBool = ka'.isBool)
    (op : String) (k ip : Bool) :
    apiBoolOp { a with kind := ka } op (.const k) ip =
      apiBoolOp { a with kind := ka' } op (.const k) ip := by
  rw [apiBoolOp_eq, apiBoolOp_eq]
  simp only [BoolOpOk, BoolRhs.Admissible, h1]
  rfl

theorem apiInvert_kind_blind (a : MapObj) (ka ka' : Kind) (h1 : ka.isBool = ka'.isBool) :
    apiInvert { a with kind := ka } = apiInvert { a with kind := ka' } := by
  rw [apiInvert_eq, apiInvert_eq]
  simp only [h1]
  rfl

/-! ### boolean cells: what is visible, and where they come from -/

/-- under the layout, "every cell is a boolean" is observable: every pixel shows a boolean -/
theorem boolCells_iff_abs {m : MapObj} (hm : m.WF) (hbb : m.BoolBlank) :
    m.BoolCells ↔ ∀ p, p < m.npix → (m.abs p).isBoolVal = true := by
  constructor
  · intro hc p _
    rw [← bool_bval hbb hc p]
    rfl
  · intro h i v hv
    obtain ⟨hi, rfl⟩ := Array.getElem?_eq_some_iff.1 hv
    by_cases h1 : i < m.c.nfine
    · have := hm.2.2.2.1 i h1
      rw [Array.getElem?_eq_getElem hi] at this
      obtain ⟨x, hx⟩ := hbb
      rw [Option.some.inj this, hx]
      rfl
    · obtain ⟨hlt, _, _, habs, _⟩ := hm.2.pixOfCell_spec (Nat.le_of_not_lt h1) hi
      have := h _ hlt
      unfold MapObj.abs at this
      rw [habs, rd_eq_getElem _ _ _ hi] at this
      exact this

/-- `make_empty` of a boolean kind has boolean cells -/
theorem boolCells_makeEmpty {covord spord : Nat} {kind : Kind} {sentinel : Option Val}
    {covPix : List Nat} {m : MapObj} (hk : kind.isBool = true)
    (h : apiMakeEmpty covord spord kind sentinel covPix = .ok m) : m.BoolCells := by
  have hko := KindOk.apiMakeEmpty h
  obtain ⟨_, _, _, h3, h4, _, _, _⟩ := apiMakeEmpty_ok h
  obtain ⟨x, hx⟩ := hko.boolBlank (by rw [h3]; exact hk)
  intro i v hv
  rw [h4] at hv
  simp only [makeEmpty, Array.getElem?_replicate] at hv
  split at hv
  · cases hv
    have : m.vc.sentinel = kind.blank m.sent := by unfold MapObj.vc; rw [h3]
    rw [← this, hx]
    rfl
  · cases hv


/-! ### `update_values_pix` keeps boolean cells -/

theorem pv_ok {n : Nat} {pix : List Nat} (P : Val → Prop) (c : Prop) [Decidable c] (v : Val)
    (vals : List Val) (h : ¬ (pix.any fun x => decide (x ≥ n)) = true) (hv : P v)
    (hvs : ∀ w ∈ vals, P w) :
    ∀ qw ∈ (if c then pix.map (fun x => (x, v)) else pix.zip vals), qw.1 < n ∧ P qw.2 := by
  intro qw hq
  refine ⟨pv_ite_lt c v vals h qw hq, ?_⟩
  split at hq
  · obtain ⟨x, _, rfl⟩ := List.mem_map.1 hq; exact hv
  · exact hvs _ (List.of_mem_zip (a := qw.1) (b := qw.2) hq).2

theorem headD_mem {vs : List Val} (h : vs ≠ []) (d : Val) : vs.headD d ∈ vs := by
  cases vs with
  | nil => exact absurd rfl h
  | cons v vs => exact List.mem_cons_self

theorem all_of_not_not {vs : List Val} {P : Val → Bool} (h : ¬ (!vs.all P) = true) :
    ∀ w ∈ vs, P w = true := by
  have : vs.all P = true := by simpa using h
  exact List.all_eq_true.1 this

theorem op_of_not {op : String} (h : ¬(op != "or" && op != "and") = true) :
    op = "or" ∨ op = "and" := by
  by_cases h1 : op = "or"
  · exact Or.inl h1
  · exact Or.inr (by simpa [h1] using h)

theorem apiUpdate_bool_ok {m : MapObj} {op : String} {pix : List Nat} {vals : Option (List Val)}
    {single : Bool} {rawUnique : Option Bool} {m' : MapObj} (hk : m.kind.isBool = true)
    (hne : ∀ vs, vals = some vs → vs ≠ [])
    (h : apiUpdate m op pix vals single rawUnique = .ok m') :
    (m'.st = m.st ∨
      ∃ (pv : List (Nat × Val)) (na : Bool),
        (∀ qw ∈ pv, qw.1 < m.npix ∧ (qw.2 = clearValue m ∨ valMatchesKind m.kind qw.2 = true)) ∧
        (op = "replace" ∨ op = "or" ∨ op = "and") ∧
        m'.st = updatePix m.c m.vc m.st (cellOp m op).1 (cellOp m op).2 pv na) := by
  unfold apiUpdate at h
  simp only [bind, Except.bind, pure, Except.pure, throw, throwThe, MonadExceptOf.throw] at h
  repeat' xpeel h
  all_goals (cases h)
  all_goals try (exact Or.inl rfl)
  all_goals try (exact absurd hk ‹¬ m.kind.isBool = true›)
  all_goals refine Or.inr ⟨_, _, ?_, ?_, rfl⟩
  all_goals first
    | exact Or.inl (by simpa using ‹¬(op != "replace") = true›)
    | exact Or.inr (op_of_not ‹¬(op != "or" && op != "and") = true›)
    | exact pv_ok (fun w => w = clearValue m ∨ valMatchesKind m.kind w = true) _ _ _ ‹_› (Or.inl rfl)
        (fun w hw => Or.inr (all_of_not_not ‹_› w hw))
    | exact pv_ok (fun w => w = clearValue m ∨ valMatchesKind m.kind w = true) _ _ _ ‹_›
        (Or.inr (all_of_not_not ‹_› _ (headD_mem (hne _ rfl) _)))
        (fun w hw => Or.inr (all_of_not_not ‹_› w hw))

/-! cells of an update -/

section cells
variable {V W : Type}

def AllCells (P : V → Prop) (a : Array V) : Prop := ∀ (i : Nat) (x : V), a[i]? = some x → P x

theorem allCells_scatter (P : V → Prop) (g : V → W → V) (a : Array V) (upd : List (Nat × W))
    (ha : AllCells P a) (hg : ∀ x, P x → ∀ iw ∈ upd, P (g x iw.2)) : AllCells P (scatter g a upd) := by
  unfold scatter
  induction upd generalizing a with
  | nil => exact ha
  | cons u us ih =>
    rw [List.foldl_cons]
    apply ih
    · intro i x hx
      rw [Array.getElem?_modify] at hx
      split at hx
      · cases hai : a[i]? with
        | none => rw [hai] at hx; cases hx
        | some y =>
          rw [hai] at hx
          cases hx
          exact hg y (ha i y hai) u List.mem_cons_self
      · exact ha i x hx
    · intro x hx iw hiw
      exact hg x hx iw (List.mem_cons_of_mem _ hiw)

theorem allCells_updateCore (P : V → Prop) (c : Cfg) (vc : VCfg V) (s : State V) (g : V → W → V)
    (L : List (Nat × W)) (na : Bool) (hs : AllCells P s.sp) (h0 : P vc.sentinel)
    (hg : ∀ x, P x → ∀ qw ∈ L, P (g x qw.2)) : AllCells P (updateCore c vc s g L na).sp := by
  unfold updateCore
  simp only
  have h1 : AllCells P (scatter g s.sp
      ((L.filter fun pw => covered c s (pw.1 >>> c.shift)).map fun pw => (idxOf c s pw.1, pw.2))) := by
    apply allCells_scatter P g _ _ hs
    intro x hx iw hiw
    obtain ⟨pw, hpw, rfl⟩ := List.mem_map.1 hiw
    exact hg x hx pw (List.mem_filter.1 hpw).1
  split
  · exact h1
  · apply allCells_scatter
    · intro i x hx
      simp only [reserve] at hx
      rw [Array.getElem?_append] at hx
      split at hx
      · exact h1 i x hx
      · rw [Array.getElem?_replicate] at hx
        split at hx
        · cases hx
          unfold rd
          cases h00 : (scatter g s.sp _)[0]? with
          | none => exact h0
          | some y => exact h1 0 y h00
        · cases hx
    · intro x hx iw hiw
      obtain ⟨pw, hpw, rfl⟩ := List.mem_map.1 hiw
      exact hg x hx pw (List.mem_filter.1 hpw).1

end cells

/-- **`update_values_pix` keeps the cells of a boolean map boolean** (for a non-empty value
    list: the model's `apiUpdate m "replace" [p] (some []) true` — a scalar value that is an empty
    array, which numpy cannot express and the driver never issues — writes the number `0`) -/
theorem boolCells_apiUpdate {m : MapObj} {op : String} {pix : List Nat} {vals : Option (List Val)}
    {single : Bool} {rawUnique : Option Bool} {m' : MapObj} (hk : m.kind.isBool = true)
    (hka : m.KindOk) (hc : m.BoolCells) (hne : ∀ vs, vals = some vs → vs ≠ [])
    (h : apiUpdate m op pix vals single rawUnique = .ok m') : m'.BoolCells := by
  obtain ⟨hvs, xs, hxs⟩ := blank_of_isBool hk hka
  rcases apiUpdate_bool_ok hk hne h with hst | ⟨pv, na, hpv, hop, hst⟩
  · unfold MapObj.BoolCells; rw [hst]; exact hc
  · unfold MapObj.BoolCells
    rw [hst]
    unfold updatePix
    have hw : ∀ qw ∈ pv, ∃ b, qw.2 = Val.bool b := by
      intro qw hq
      rcases (hpv qw hq).2 with h1 | h1
      · exact ⟨xs, by rw [h1]; show m.vc.sentinel = _; rw [hvs, hxs]⟩
      · generalize qw.2 = v at h1
        cases hkind : m.kind with
        | plain dt =>
          rw [hkind] at h1 hk
          cases dt with
          | bool => cases v <;> first | exact ⟨_, rfl⟩ | cases h1
          | int b sg => cases hk
          | flt b => cases hk
        | packed =>
          rw [hkind] at h1
          cases v <;> first | exact ⟨_, rfl⟩ | cases h1
        | wide n => rw [hkind] at hk; cases hk
        | recd fs pr => rw [hkind] at hk; cases hk
    have hpre : (cellOp m op).1 = none ∧
        ∀ x b, ∃ b', (cellOp m op).2 (Val.bool x) (Val.bool b) = Val.bool b' := by
      rcases hop with rfl | rfl | rfl
      · exact ⟨rfl, fun x b => ⟨b, rfl⟩⟩
      · exact ⟨rfl, fun x b => ⟨x || b, rfl⟩⟩
      · exact ⟨rfl, fun x b => ⟨x && b, rfl⟩⟩
    rw [hpre.1]
    apply allCells_updateCore (fun v => Val.isBoolVal v = true)
    · exact hc
    · obtain ⟨x, hx⟩ := hka.boolBlank hk
      rw [hx]; rfl
    · intro x hx qw hq
      simp only [stageList, Option.isSome_none, Bool.false_eq_true, if_false, List.nil_append] at hq
      obtain ⟨pw, hpw, rfl⟩ := List.mem_map.1 hq
      obtain ⟨xb, rfl⟩ := Val.isBoolVal_iff.1 hx
      obtain ⟨b, hb⟩ := hw pw hpw
      obtain ⟨b', hb'⟩ := hpre.2 xb b
      show Val.isBoolVal ((cellOp m op).2 (Val.bool xb) pw.2) = true
      rw [hb, hb']
      rfl


/-! ### what the driver stores -/

/-- what the driver does with an accepted `bop` line (map on the right): a copying call binds the
    result name to `m.stored st`, an in-place call puts `m.stored st` back under the name -/
theorem opBop_map_ok {w : World} {a : Args} {n rn : String} {rest : List String} {m b : MapObj}
    {st : State Val} (ha : a.pos = n :: rest) (hget : w.get? n = some m)
    (hc : a.get? "const" = none) (hr : a.get? "rhs" = some rn) (hb : w.get? rn = some b)
    (h : apiBoolOp m (a.getD "op" "and") (.map b) (a.flag "inplace") = .ok st) :
    opBop w a =
      (if a.flag "inplace" then w.put n (m.stored st) else w.bind (a.getD "r" "tmp") (m.stored st),
       "ok") := by
  unfold opBop withMap
  simp only [ha, hget, hc, hr, hb, Option.map_some, h, List.headD_cons]
  cases a.flag "inplace" <;> rfl

theorem opInv_ok {w : World} {a : Args} {n : String} {rest : List String} {m : MapObj}
    {st : State Val} (ha : a.pos = n :: rest) (hget : w.get? n = some m)
    (h : apiInvert m = .ok st) :
    opInv w a =
      (if a.flag "inplace" then w.put n (m.stored st) else w.bind (a.getD "r" "tmp") (m.stored st),
       "ok") := by
  unfold opInv withMap
  simp only [ha, hget, h, List.headD_cons]
  cases a.flag "inplace" <;> rfl

end ApiBool
end HS
