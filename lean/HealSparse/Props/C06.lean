/-
  C06 — union/intersection map arithmetic folds exactly the inputs valid at each pixel.
  Property theorems only (helpers in HealSparse/Lemmas).
-/
import HealSparse.Lemmas.Core
import HealSparse.Lemmas.Coverage
import HealSparse.Lemmas.Valid
import HealSparse.Lemmas.MultiOps
import HealSparse.Model.MultiOps
import HealSparse.Model.Api
import HealSparse.Generated.OpsTable
import HealSparse.Props.C04
import HealSparse.Props.C02
namespace HS
namespace C06

variable {V : Type} [DecidableEq V]

/-- **Refinement** of `_apply_operation`: for any list of well-formed maps of one
    configuration (any block orders, any coverage relations), any operation `f`, any start
    value: it never raises, the result is a well-formed map, its value at every pixel is the
    seeded fold over the inputs valid there under the union / intersection validity rule
    (sentinel otherwise), and its coverage mask is the union / intersection of the inputs'. -/
theorem multiOp_spec (c : Cfg) (vc : VCfg V) (maps : List (State V)) (f : V → V → V) (filler : V)
    (union fillFirst : Bool) (hInv : ∀ m ∈ maps, Inv c vc m) (hv : vc.valid vc.sentinel = false)
    (hne : maps ≠ []) (hff : fillFirst = true → union = false) :
    ∃ r, multiOp c vc maps f filler union fillFirst = some r ∧ Inv c vc r ∧
      (∀ p, p < c.npix → abs c vc r p = denseMulti c vc maps f filler union fillFirst p) ∧
      (∀ k, k < c.ncov → covered c r k =
          if union then maps.any (fun m => covered c m k) else maps.all (fun m => covered c m k)) := by
  exact multiOp_spec' c vc maps f filler union fillFirst hInv hv hne hff

/-- With a neutral start value the seeded fold is the operation folded, in list order, over
    exactly the valid inputs (what the property states for the named operations). -/
theorem fold_neutral (f : V → V → V) (e : V) (vs : List V) (hne : vs ≠ [])
    (hneutral : ∀ x ∈ vs, f e x = x) :
    vs.foldl f e = (vs.tail).foldl f (vs.headD e) := by
  exact foldl_neutral f e vs hne hneutral

/-- Union mode, neutral start: valid-at-some-input pixels hold the plain fold of the valid
    inputs; pixels valid in no input hold the sentinel. -/
theorem union_fold (c : Cfg) (vc : VCfg V) (maps : List (State V)) (f : V → V → V) (e : V)
    (hInv : ∀ m ∈ maps, Inv c vc m) (hv : vc.valid vc.sentinel = false) (hne : maps ≠ [])
    (hneutral : ∀ x, vc.valid x = true → f e x = x)
    (r : State V) (hr : multiOp c vc maps f e true false = some r) (p : Nat) (hp : p < c.npix) :
    abs c vc r p =
      match validInputs c vc maps p with
      | [] => vc.sentinel
      | v :: rest => rest.foldl f v := by
  obtain ⟨r', hr', _, habs, _⟩ :=
    multiOp_spec c vc maps f e true false hInv hv hne (fun h => absurd h (by decide))
  rw [hr] at hr'
  cases hr'
  rw [habs p hp]
  unfold denseMulti
  simp only [if_true]
  by_cases hvs : validInputs c vc maps p = []
  · rw [hvs]; rfl
  · have hemp : (validInputs c vc maps p).isEmpty = false := by
      simpa [List.isEmpty_iff] using hvs
    rw [hemp]
    simp only [Bool.false_eq_true, if_false]
    exact foldl_neutral_match f e vc.sentinel _ hvs
      (fun x hx => hneutral x (validInputs_valid c vc maps p x hx))

/-- Intersection mode (neutral start or `fill_with_first_map`): pixels valid in all inputs
    hold the fold over all of them in list order; all others hold the sentinel. -/
theorem intersection_fold (c : Cfg) (vc : VCfg V) (maps : List (State V)) (f : V → V → V) (e : V)
    (fillFirst : Bool)
    (hInv : ∀ m ∈ maps, Inv c vc m) (hv : vc.valid vc.sentinel = false) (hne : maps ≠ [])
    (hneutral : fillFirst = false → ∀ x, vc.valid x = true → f e x = x)
    (r : State V) (hr : multiOp c vc maps f e false fillFirst = some r) (p : Nat) (hp : p < c.npix) :
    abs c vc r p =
      if (validInputs c vc maps p).length = maps.length then
        (match validInputs c vc maps p with
         | [] => vc.sentinel
         | v :: rest => rest.foldl f v)
      else vc.sentinel := by
  obtain ⟨r', hr', _, habs, _⟩ :=
    multiOp_spec c vc maps f e false fillFirst hInv hv hne (fun _ => rfl)
  rw [hr] at hr'
  cases hr'
  rw [habs p hp]
  unfold denseMulti
  simp only [Bool.false_eq_true, if_false]
  split
  · rename_i hlen
    cases fillFirst with
    | true => rfl
    | false =>
      simp only [Bool.false_eq_true, if_false]
      have hvs : validInputs c vc maps p ≠ [] := by
        intro h0
        rw [h0] at hlen
        exact hne (List.eq_nil_of_length_eq_zero hlen.symm)
      exact foldl_neutral_match f e vc.sentinel _ hvs
        (fun x hx => hneutral rfl x (validInputs_valid c vc maps p x hx))
  · rfl

/-! ### obligations over the operation table extracted from the source -/

/-- membership of a cell in the carrier of dtype code `dt`: integers representable at the
    width of `dt`; floats as *normalised* dyadics `n / 2^e` (the normal form every `Val`
    operation returns — `dyNorm`; without it `0 + x = x` fails syntactically, e.g.
    `add 0 (2/2^1) = 1/2^0`) -/
def inCarrier (dt : String) (x : Val) : Bool :=
  match parseDTCode dt, x with
  | some (.int b sg), .num n 0 => wrapInt b sg n == n
  | some (.flt _), .num n e => dyNorm n e == (n, e)
  | _, _ => false

/-- dtype code of an integer / floating-point dtype -/
def isIntCode (dt : String) : Bool :=
  match parseDTCode dt with
  | some (.int _ _) => true
  | _ => false

def isFltCode (dt : String) : Bool :=
  match parseDTCode dt with
  | some (.flt _) => true
  | _ => false

/-- the row's filler is neutral for its ufunc on the whole carrier of the first map's dtype,
    and adding it does not change the array dtype (decided row by row).  Rows of an
    `int_only` operation over a floating-point dtype are vacuous: `_apply_operation` raises
    `ValueError` before the filler is ever used (`apiMultiOp` throws `.value`). -/
def rowOk (r : OpRow) : Bool :=
  let dtArr := if r.dtypeOut == "" then (if r.dt == "u1w" then "u1" else r.dt) else r.dtypeOut
  r.promoted == dtArr &&
  (r.fillFirst || (r.intOnly && isFltCode r.dt) ||
    match r.ufunc, (if r.dt == "u1w" then "u1" else r.dt), r.filler with
    | "add", _, .num 0 _ => true
    | "multiply", _, .num 1 0 => true
    | "bitwise_or", dt, .num 0 _ => isIntCode dt
    | "bitwise_xor", dt, .num 0 _ => isIntCode dt
    | "bitwise_and", dt, .num k 0 =>
        (match parseDTCode dt with
         | some (.int b sg) => k == (if sg then -1 else 2 ^ b - 1)
         | _ => false)
    | "fmax", dt, fl =>
        (match parseDTCode dt, fl with
         | some (.int b sg), .num k 0 => k == (if sg then -(2 ^ (b - 1)) else 0)
         | some (.flt _), .inf true => true
         | _, _ => false)
    | "fmin", dt, fl =>
        (match parseDTCode dt, fl with
         | some (.int b sg), .num k 0 => k == (if sg then 2 ^ (b - 1) - 1 else 2 ^ b - 1)
         | some (.flt _), .inf false => true
         | _, _ => false)
    | _, _, _ => false)

/-- soundness of the row check: an accepted row's filler is neutral on the carrier.
    `hio`: the front end only lets an `int_only` operation through on integer maps. -/
theorem rowOk_sound (r : OpRow) (h : rowOk r = true) (hf : r.fillFirst = false) (hw : r.dt ≠ "u1w")
    (dt : DT) (hdt : parseDTCode r.dt = some dt) (hio : r.intOnly = true → dt.isInt = true)
    (x : Val) (hx : inCarrier r.dt x = true) :
    ufuncCell r.ufunc dt r.filler x = x := by
  obtain ⟨name, ufunc, dts, filler, promoted, union, intOnly, fillFirst, dtypeOut⟩ := r
  simp only at hf hw hdt hio hx ⊢
  subst hf
  unfold rowOk at h
  simp only [beq_iff_eq, hw, if_false, Bool.false_or, Bool.and_eq_true, Bool.or_eq_true] at h
  obtain ⟨-, h⟩ := h
  unfold inCarrier at hx
  rw [hdt] at hx
  cases dt with
  | bool => simp at hx
  | int b sg =>
    have hb := parseDTCode_bits_pos hdt
    have hnf : isFltCode dts = false := by simp [isFltCode, hdt]
    simp only [hnf, Bool.false_eq_true, and_false, false_or] at h
    cases x with
    | num n e =>
      cases e with
      | succ e => simp at hx
      | zero =>
        simp only [beq_iff_eq] at hx
        have hbd := wrapInt_bounds b hb sg n hx
        split at h
        · exact add_zero_int b sg _ n hx
        · exact mul_one_int b sg n hx
        · exact or_zero_int b sg _ n hx
        · exact xor_zero_int b sg _ n hx
        · rw [hdt] at h
          simp only [beq_iff_eq] at h
          subst h
          exact and_ones_int b sg n hx
        · rw [hdt] at h
          split at h
          · rename_i k heq
            cases heq
            simp only [beq_iff_eq] at h
            subst h
            exact fmax_min_int _ _ n hbd.1
          · simp at *
          · simp at h
        · rw [hdt] at h
          split at h
          · rename_i k heq
            cases heq
            simp only [beq_iff_eq] at h
            subst h
            exact fmin_max_int _ _ n hbd.2
          · simp at *
          · simp at h
        · simp at h
    | _ => simp at hx
  | flt bits =>
    have hnf : isIntCode dts = false := by simp [isIntCode, hdt]
    have hio' : intOnly = false := by
      cases intOnly with
      | false => rfl
      | true => simpa [DT.isInt] using hio rfl
    subst hio'
    simp only [Bool.false_eq_true, false_and, false_or] at h
    cases x with
    | num n e =>
      simp only [beq_iff_eq] at hx
      split at h
      · exact add_zero_flt bits _ n e hx
      · exact mul_one_flt bits n e hx
      · simp [hnf] at h
      · simp [hnf] at h
      · rw [hdt] at h; simp at h
      · rw [hdt] at h
        split at h
        · rename_i heq; cases heq
        · exact fmax_inf _ _
        · simp at h
      · rw [hdt] at h
        split at h
        · rename_i heq; cases heq
        · exact fmin_inf _ _
        · simp at h
      · simp at h
    | _ => simp at hx

/-- **generated obligation**: every row of the table extracted from /repo's operations.py
    passes the check (re-proved on every run; a changed filler breaks this proof) -/
theorem opsTable_ok : opsTable.all rowOk = true := by
  decide

/-- a row of the extracted table computes what the documentation says its function computes -/
def rowSpecOk (r : OpRow) : Bool :=
  match opSpec r.name with
  | some (u, un, io, ff, fo) =>
    r.ufunc == u && r.union == un && r.intOnly == io && r.fillFirst == ff && ((r.dtypeOut == "f8") == fo)
  | none => false

/-- **generated obligation**: every wrapper of /repo's operations.py hands `_apply_operation`
    the ufunc, the union / intersection mode, the integer-only flag, the seeding flag and the
    output type that its documentation prescribes (re-proved on every run; a wrapper that
    folds with another ufunc breaks this proof, and — because the model folds with `opSpec`,
    see `OpRow.withSpec` — also yields a concrete failing input) -/
theorem opsTable_spec : opsTable.all rowSpecOk = true := by
  decide

/-- on the current table the specification changes nothing: the model folds with the very rows
    the code uses -/
theorem opsTable_withSpec : opsTable.all (fun r => r.withSpec == r) = true := by
  decide

/-- the table covers the sixteen named operations for every numeric dtype and wide masks -/
theorem opsTable_complete :
    ∀ nm ∈ ["sum_union", "sum_intersection", "product_union", "product_intersection",
            "or_union", "or_intersection", "and_union", "and_intersection", "xor_union",
            "xor_intersection", "max_union", "max_intersection", "min_union", "min_intersection",
            "divide_intersection", "floor_divide_intersection"],
      ∀ dt ∈ ["i1", "i2", "i4", "i8", "u1", "u2", "u4", "u8", "f4", "f8", "u1w"],
        opsTable.any (fun r => r.name == nm && r.dt == dt) = true := by
  decide

/-- witness: the pre-fix filler of `max_union` (0) is not neutral — all-negative inputs gave 0 -/
example : ufuncCell "fmax" (.int 32 true) (.num 0 0) (.num (-5) 0) ≠ .num (-5) 0 := by decide

/-- non-vacuity: two maps with different block orders and partially overlapping coverage -/
example : Inv (V := Int) ⟨3, 1⟩ ⟨-1, fun x => x != -1⟩ ⟨#[4, -2, -2], #[-1, -1, 7, -1, -1, 9]⟩ ∧
    Inv (V := Int) ⟨3, 1⟩ ⟨-1, fun x => x != -1⟩ ⟨#[2, 2, -4], #[-1, -1, 3, 4, -5, -1]⟩ := by decide

end C06
end HS
