/-
  C18 — concatenating disjoint map files yields their union, pixel for pixel.
  Property theorems only (helpers in HealSparse/Lemmas).
-/
import HealSparse.Lemmas.Core
import HealSparse.Lemmas.Coverage
import HealSparse.Lemmas.Valid
import HealSparse.Lemmas.FitsIO
import HealSparse.Lemmas.Cat
import HealSparse.Model.Cat
import HealSparse.Props.C01
import HealSparse.Props.C02
import HealSparse.Props.C03
import HealSparse.Props.C04
import HealSparse.Lemmas.ApiCat
namespace HS
namespace C18

variable {V : Type} [DecidableEq V]

/-- is pixel `p` valid in input `i` -/
def validIn (vc : VCfg V) (i : CatIn V) (p : Nat) : Bool := vc.valid (abs i.c vc i.state p)

/-- **what one input contributes to one output coverage pixel**: exactly its valid pixels
    inside that coverage pixel, with their values — for matched, coarser and finer input
    coverage alike (this is where the partial-read bookkeeping must be right: a finer input
    may cover only the first, a middle or the last child of the output coverage pixel). -/
theorem contribution_spec (cOut : Cfg) (vc : VCfg V) (i : CatIn V) (pix : Nat)
    (hi : Inv i.c vc i.state) (hv : vc.valid vc.sentinel = false) (hn : i.c.npix = cOut.npix)
    (hrel : (∃ d, i.c.shift = cOut.shift + d ∧ cOut.ncov = i.c.ncov * 2 ^ d) ∨
            (∃ d, cOut.shift = i.c.shift + d ∧ i.c.ncov = cOut.ncov * 2 ^ d))
    (hpix : pix < cOut.ncov) (hsum : catSummary cOut vc i pix = true) (p : Nat) (v : V) :
    (p, v) ∈ catContribution cOut vc i pix ↔
      (p < cOut.npix ∧ p >>> cOut.shift = pix ∧ validIn vc i p = true ∧ v = abs i.c vc i.state p) := by
  have _ := hrel
  have _ := hpix
  have _ := hsum
  exact mem_catContribution cOut vc i pix hi hv hn p v

/-- the contribution lists every such pixel once -/
theorem contribution_nodup (cOut : Cfg) (vc : VCfg V) (i : CatIn V) (pix : Nat)
    (hi : Inv i.c vc i.state) (hv : vc.valid vc.sentinel = false) (hn : i.c.npix = cOut.npix)
    (hrel : (∃ d, i.c.shift = cOut.shift + d ∧ cOut.ncov = i.c.ncov * 2 ^ d) ∨
            (∃ d, cOut.shift = i.c.shift + d ∧ i.c.ncov = cOut.ncov * 2 ^ d))
    (hpix : pix < cOut.ncov) :
    ((catContribution cOut vc i pix).map (·.1)).Nodup := by
  have _ := hn
  have _ := hrel
  have _ := hpix
  exact nodup_catContribution cOut vc i pix hi hv

/-- the summary row says exactly which output coverage pixels hold a valid pixel of the input
    (matched coverage: which are covered — a superset) -/
theorem summary_complete (cOut : Cfg) (vc : VCfg V) (i : CatIn V)
    (hi : Inv i.c vc i.state) (hv : vc.valid vc.sentinel = false) (hn : i.c.npix = cOut.npix)
    (hrel : (∃ d, i.c.shift = cOut.shift + d ∧ cOut.ncov = i.c.ncov * 2 ^ d) ∨
            (∃ d, cOut.shift = i.c.shift + d ∧ i.c.ncov = cOut.ncov * 2 ^ d))
    (p : Nat) (hp : p < cOut.npix) (hval : validIn vc i p = true) :
    catSummary cOut vc i (p >>> cOut.shift) = true := by
  have _ := hrel
  exact catSummary_complete cOut vc i hi hv hn p hp hval

/-- **C18**: for inputs whose valid sets are pairwise disjoint, with or without overlap
    checking, the concatenation succeeds, is a well-formed map, and holds at every pixel the
    value of the unique input valid there, the sentinel where none is. -/
theorem cat_union (cOut : Cfg) (vc : VCfg V) (inputs : List (CatIn V)) (checkOverlap orOk : Bool)
    (orF : V → V → V)
    (hin : ∀ i ∈ inputs, Inv i.c vc i.state ∧ i.c.npix = cOut.npix ∧
      ((∃ d, i.c.shift = cOut.shift + d ∧ cOut.ncov = i.c.ncov * 2 ^ d) ∨
       (∃ d, cOut.shift = i.c.shift + d ∧ i.c.ncov = cOut.ncov * 2 ^ d)))
    (hv : vc.valid vc.sentinel = false)
    (hdisj : ∀ a b, a < inputs.length → b < inputs.length → a ≠ b → ∀ p, p < cOut.npix →
      ¬ (validIn vc (inputs.getD a ⟨cOut, ⟨#[], #[]⟩⟩) p = true ∧
         validIn vc (inputs.getD b ⟨cOut, ⟨#[], #[]⟩⟩) p = true)) :
    ∃ out, catFiles cOut vc inputs checkOverlap orOk orF = some out ∧ Inv cOut vc out ∧
      ∀ p, p < cOut.npix →
        abs cOut vc out p =
          match inputs.find? (fun i => validIn vc i p) with
          | some i => abs i.c vc i.state p
          | none => vc.sentinel := by
  have hin' : ∀ i ∈ inputs, Inv i.c vc i.state ∧ i.c.npix = cOut.npix :=
    fun i hi => ⟨(hin i hi).1, (hin i hi).2.1⟩
  have hpw : inputs.Pairwise fun a b => ∀ p, p < cOut.npix →
      ¬ (vc.valid (abs a.c vc a.state p) = true ∧ vc.valid (abs b.c vc b.state p) = true) := by
    rw [List.pairwise_iff_getElem]
    intro a b ha hb hab p hp
    have := hdisj a b ha hb (Nat.ne_of_lt hab) p hp
    rw [getD_eq_getElem inputs _ a ha, getD_eq_getElem inputs _ b hb] at this
    exact this
  obtain ⟨out, h1, h2, h3⟩ := catFiles_union cOut vc inputs checkOverlap orOk orF hin' hv hpw
  refine ⟨out, h1, h2, ?_⟩
  intro p hp
  split
  · rename_i i hf
    exact (h3 p hp).1 i hf
  · rename_i hf
    exact (h3 p hp).2 hf

/-- with overlap checking (and no or-combination) an error is raised iff two inputs share a
    valid pixel -/
theorem cat_overlap_raises_iff (cOut : Cfg) (vc : VCfg V) (inputs : List (CatIn V)) (orF : V → V → V)
    (hin : ∀ i ∈ inputs, Inv i.c vc i.state ∧ i.c.npix = cOut.npix ∧
      ((∃ d, i.c.shift = cOut.shift + d ∧ cOut.ncov = i.c.ncov * 2 ^ d) ∨
       (∃ d, cOut.shift = i.c.shift + d ∧ i.c.ncov = cOut.ncov * 2 ^ d)))
    (hv : vc.valid vc.sentinel = false) :
    catFiles cOut vc inputs true false orF = none ↔
      ∃ a b, a < b ∧ b < inputs.length ∧ ∃ p, p < cOut.npix ∧
        validIn vc (inputs.getD a ⟨cOut, ⟨#[], #[]⟩⟩) p = true ∧
        validIn vc (inputs.getD b ⟨cOut, ⟨#[], #[]⟩⟩) p = true := by
  have hin' : ∀ i ∈ inputs, Inv i.c vc i.state ∧ i.c.npix = cOut.npix :=
    fun i hi => ⟨(hin i hi).1, (hin i hi).2.1⟩
  constructor
  · intro hnone
    apply Classical.byContradiction
    intro hno
    have hdisj : ∀ a b, a < inputs.length → b < inputs.length → a ≠ b → ∀ p, p < cOut.npix →
        ¬ (validIn vc (inputs.getD a ⟨cOut, ⟨#[], #[]⟩⟩) p = true ∧
           validIn vc (inputs.getD b ⟨cOut, ⟨#[], #[]⟩⟩) p = true) := by
      intro a b ha hb hab p hp hboth
      rcases Nat.lt_or_gt_of_ne hab with hlt | hlt
      · exact hno ⟨a, b, hlt, hb, p, hp, hboth.1, hboth.2⟩
      · exact hno ⟨b, a, hlt, ha, p, hp, hboth.2, hboth.1⟩
    obtain ⟨out, h1, _⟩ := cat_union cOut vc inputs true false orF hin hv hdisj
    rw [hnone] at h1
    cases h1
  · rintro ⟨a, b, hab, hb, p, hp, hva, hvb⟩
    have ha := Nat.lt_trans hab hb
    rw [getD_eq_getElem inputs _ a ha] at hva
    rw [getD_eq_getElem inputs _ b hb] at hvb
    exact catFiles_overlap_none cOut vc inputs orF hin' hv a b hab hb p hp hva hvb

/-- non-vacuity: a finer input covering only the LAST child of the output coverage pixel -/
example : catContribution (V := Int) ⟨1, 2⟩ ⟨-1, fun x => x != -1⟩
    ⟨⟨2, 1⟩, ⟨#[0, 0], #[-1, -1, 5, 6]⟩⟩ 0 = [(2, 5), (3, 6)] := by decide +kernel

/-- non-vacuity: a finer input covering only a MIDDLE child of the output coverage pixel -/
example : catContribution (V := Int) ⟨1, 3⟩ ⟨-1, fun x => x != -1⟩
    ⟨⟨4, 1⟩, ⟨#[0, 0, -4, -6], #[-1, -1, 5, 6]⟩⟩ 0 = [(2, 5), (3, 6)] := by decide +kernel

/-- non-vacuity: a finer and a coarser input with disjoint valid sets concatenate to their union -/
example : (catFiles (V := Int) ⟨2, 1⟩ ⟨-1, fun x => x != -1⟩
    [⟨⟨4, 0⟩, ⟨#[1, -1, -2, -3], #[-1, 5]⟩⟩, ⟨⟨1, 2⟩, ⟨#[4], #[-1, -1, -1, -1, -1, -1, 7, -1]⟩⟩]
    true false (fun a _ => a)).map (fun s => (List.range 4).map (abs ⟨2, 1⟩ ⟨-1, fun x => x != -1⟩ s))
    = some [5, -1, 7, -1] := by decide +kernel

/-- non-vacuity: the same inputs sharing valid pixel 0 raise under overlap checking -/
example : (catFiles (V := Int) ⟨2, 1⟩ ⟨-1, fun x => x != -1⟩
    [⟨⟨4, 0⟩, ⟨#[1, -1, -2, -3], #[-1, 5]⟩⟩, ⟨⟨1, 2⟩, ⟨#[4], #[-1, -1, -1, -1, 8, -1, 7, -1]⟩⟩]
    true false (fun a _ => a)).isNone = true := by decide +kernel

/-! ## API level: `apiCat` on files written by `apiWrite` -/

section api
open ApiCat WFApi WFFiles

/-! Scope notes (evaluated against the library, in-memory path):
  * the claims below are about files written from numeric plain maps, record arrays and wide
    masks — the kinds the C18 generators draw.  For BOOLEAN plain maps the library's output is
    an `int16` map with sentinel 0 (the stub dtype of the first file is the stored `int16`),
    while the model's `fileKind` recovers `bool`; for BIT-PACKED maps the library raises
    ValueError (`could not broadcast input array …`), the model concatenates.  Both lie
    outside what the harness compares; the model is frozen.
  * `inF50` below: known finding F50, the one region of the compared kinds where model and
    library differ. -/

/-- **C18, the general meaning of the loop** (generic cell type; arbitrary, possibly
    OVERLAPPING inputs; every flag combination) — `ApiCat.catFiles_gen`: the loop fails only
    under `check ∧ ¬ or`; on success the result obeys the layout, holds at every pixel the
    left fold of the values of the inputs valid there, in list order, under
    `stepV acc v = if check ∧ valid acc then orF v acc else v`, and is covered exactly at the
    output coverage pixels that contain a valid pixel of some input -/
theorem cat_general {V : Type} [DecidableEq V] (cOut : Cfg) (vc : VCfg V) (inputs : List (CatIn V))
    (co oo : Bool) (orF : V → V → V)
    (hin : ∀ i ∈ inputs, Inv i.c vc i.state ∧ i.c.npix = cOut.npix)
    (hv : vc.valid vc.sentinel = false) :
    (catFiles cOut vc inputs co oo orF = none ∧ co = true ∧ oo = false) ∨
    ∃ out, catFiles cOut vc inputs co oo orF = some out ∧ Inv cOut vc out ∧
      (∀ p, p < cOut.npix →
        abs cOut vc out p = (inVals vc inputs p).foldl (stepV vc co orF) vc.sentinel) ∧
      (∀ k, k < cOut.ncov → (covered cOut out k = true ↔
        ∃ i ∈ inputs, ∃ p, p < cOut.npix ∧ p >>> cOut.shift = k ∧
          vc.valid (abs i.c vc i.state p) = true)) :=
  catFiles_gen cOut vc inputs co oo orF hin hv

/-- under pairwise disjointness at most one map is valid at a pixel: the list of valid values
    is the value of the map `find?` finds -/
theorem vals_of_disjoint {so : Nat} {ins : Ins} (hd : ApiCat.Disjoint so ins) (p : Nat)
    (hp : p < 12 * 4 ^ so) :
    vals ins p = match ins.find? (fun x => x.1.vc.valid (x.1.abs p)) with
      | some x => [x.1.abs p]
      | none => [] := by
  induction ins with
  | nil => rfl
  | cons x xs ih =>
    unfold ApiCat.Disjoint at hd
    rw [List.pairwise_cons] at hd
    have ih' := ih hd.2
    unfold vals at ih' ⊢
    rw [List.filterMap_cons, List.find?_cons]
    cases hv : x.1.vc.valid (x.1.abs p) with
    | true =>
      simp only [if_true]
      congr 1
      rw [List.filterMap_eq_nil_iff]
      intro y hy
      have := hd.1 y hy p hp
      cases hvy : y.1.vc.valid (y.1.abs p) with
      | false => simp
      | true => exact absurd ⟨hv, hvy⟩ this
    | false =>
      simp only [Bool.false_eq_true, if_false]
      exact ih'


/-- **the region of known finding F50** (recorded, not repaired): wide-mask inputs, output
    coverage COARSER than the first file's, and a first file with fewer storage rows than one
    output block.  The library reads the dtype stub of the first file with the OUTPUT block
    size (`row_range=[0, nfine_out·width]`) and `np.reshape` raises ValueError; the model's
    `apiCat` has no such check and succeeds (`inF50_model_succeeds`).  The union theorem is
    therefore claimed outside this region only. -/
def inF50 (files : List FileObj) (covordOut : Option Nat) : Prop :=
  match files with
  | [] => False
  | f0 :: _ =>
    f0.wwidth.isSome = true ∧ covordOut.getD f0.covord < f0.covord ∧
    f0.file.data.size < (cfgOf (covordOut.getD f0.covord) f0.spord).nfine

instance (files : List FileObj) (covordOut : Option Nat) : Decidable (inF50 files covordOut) := by
  unfold inF50; split <;> infer_instance

variable {kind : Kind} {sent : Val} {so : Nat} {m₀ : MapObj} {md₀ : List (String × String)}
  {rest : Ins}

/-- **C18 (API), errors — any files**: re-export of `ApiCat.apiCat_error_iff` (source order:
    `or_overlap` without `check_overlap`; empty list; another `nside_sparse`; unknown kind of the
    FIRST file; output coverage finer than `nside_sparse`; the overlap error).  Kinds, dtypes and
    sentinels of the other files are NOT compared — see `api_cat_mismatch_accepted`. -/
theorem api_cat_error_iff (files : List FileObj) (covordOut : Option Nat) (check or_ : Bool) (e : Err) :
    apiCat files covordOut check or_ = .error e ↔
      (or_ = true ∧ check = false ∧ e = .runtime) ∨
      (¬ (or_ = true ∧ check = false) ∧
        ((files = [] ∧ e = .index) ∨
         ∃ f0 rest, files = f0 :: rest ∧
          (((∃ f ∈ files, f.spord ≠ f0.spord) ∧ e = .runtime) ∨
           ((∀ f ∈ files, f.spord = f0.spord) ∧
            ((fileKind f0 = none ∧ e = .runtime) ∨
             ∃ kind, fileKind f0 = some kind ∧
              ((covordOut.getD f0.covord > f0.spord ∧ e = .value) ∨
               (covordOut.getD f0.covord ≤ f0.spord ∧ e = .runtime ∧
                catFiles (cfgOf (covordOut.getD f0.covord) f0.spord)
                  ⟨kind.blank f0.sentinel, kind.valid f0.sentinel⟩ (inputsOf files) check
                  (or_ && kind.isIntegerMap) (fun a b => Val.or kind.dt a b) = none))))))) :=
  apiCat_error_iff files covordOut check or_ e

/-- **C18 (API), errors — files written from maps of one kind, sentinel and `nside_sparse`**
    (any `nside_coverage` each): the call raises exactly
    * RuntimeError(Warning) for `or_overlap` without `check_overlap`;
    * ValueError for an output coverage order above the sparse order;
    * RuntimeError when `check_overlap` is on, the `or` combination is not available
      (`or_overlap` off, or the kind is not an integer kind: float and record maps) and two of
      the maps are valid at a common pixel.
    `or_overlap` asks nothing of the sentinel. -/
theorem api_cat_written_error_iff (h : Uniform kind sent so ((m₀, md₀) :: rest)) (hft : m₀.FileTyped)
    (covordOut : Option Nat) (check or_ : Bool) (e : Err) :
    apiCat (filesOf ((m₀, md₀) :: rest)) covordOut check or_ = .error e ↔
      (or_ = true ∧ check = false ∧ e = .runtime) ∨
      (¬ (or_ = true ∧ check = false) ∧ covordOut.getD m₀.covord > so ∧ e = .value) ∨
      (¬ (or_ = true ∧ check = false) ∧ covordOut.getD m₀.covord ≤ so ∧ check = true ∧
        (or_ && kind.isIntegerMap) = false ∧ ¬ ApiCat.Disjoint so ((m₀, md₀) :: rest) ∧
        e = .runtime) := by
  by_cases h1 : or_ = true ∧ check = false
  · rw [apiCat_written h hft, if_pos (by simp [h1.1, h1.2])]
    constructor
    · intro he; cases he; exact Or.inl ⟨h1.1, h1.2, rfl⟩
    · rintro (⟨_, _, rfl⟩ | ⟨hn, _⟩ | ⟨hn, _⟩)
      · rfl
      · exact absurd h1 hn
      · exact absurd h1 hn
  · by_cases h2 : covordOut.getD m₀.covord > so
    · rw [apiCat_written h hft, if_neg (by simpa using h1), if_pos h2]
      constructor
      · intro he; cases he; exact Or.inr (Or.inl ⟨h1, h2, rfl⟩)
      · rintro (⟨a, b, _⟩ | ⟨_, _, rfl⟩ | ⟨_, hle, _⟩)
        · exact absurd ⟨a, b⟩ h1
        · rfl
        · exact absurd h2 (Nat.not_lt.2 hle)
    · have hle := Nat.not_lt.1 h2
      rcases apiCat_sem h hft covordOut check or_ h1 hle with ⟨he, hc, ho, hnd⟩ | ⟨st, hok, hdis, _⟩
      · rw [he]
        constructor
        · intro h'; cases h'; exact Or.inr (Or.inr ⟨h1, hle, hc, ho, hnd, rfl⟩)
        · rintro (⟨a, b, _⟩ | ⟨_, hgt, _⟩ | ⟨_, _, _, _, _, rfl⟩)
          · exact absurd ⟨a, b⟩ h1
          · exact absurd hgt h2
          · rfl
      · rw [hok]
        constructor
        · intro h'; cases h'
        · rintro (⟨a, b, _⟩ | ⟨_, hgt, _⟩ | ⟨_, _, hc, ho, hnd, _⟩)
          · exact absurd ⟨a, b⟩ h1
          · exact absurd hgt h2
          · exact absurd (hdis hc ho) hnd

/-- **C18 (API), success condition** on such files -/
theorem api_cat_ok_iff (h : Uniform kind sent so ((m₀, md₀) :: rest)) (hft : m₀.FileTyped)
    (covordOut : Option Nat) (check or_ : Bool) :
    (∃ F, apiCat (filesOf ((m₀, md₀) :: rest)) covordOut check or_ = .ok F) ↔
      ¬ (or_ = true ∧ check = false) ∧ covordOut.getD m₀.covord ≤ so ∧
      (check = true → (or_ && kind.isIntegerMap) = false →
        ApiCat.Disjoint so ((m₀, md₀) :: rest)) := by
  constructor
  · rintro ⟨F, hF⟩
    have hne : ∀ e, apiCat (filesOf ((m₀, md₀) :: rest)) covordOut check or_ ≠ .error e := by
      intro e he; rw [hF] at he; cases he
    have key := fun e => (api_cat_written_error_iff h hft covordOut check or_ e).2
    have h1 : ¬ (or_ = true ∧ check = false) :=
      fun hc => hne .runtime (key .runtime (Or.inl ⟨hc.1, hc.2, rfl⟩))
    have h2 : covordOut.getD m₀.covord ≤ so := by
      apply Nat.not_lt.1
      intro hgt
      exact hne .value (key .value (Or.inr (Or.inl ⟨h1, hgt, rfl⟩)))
    refine ⟨h1, h2, fun hc ho => ?_⟩
    apply Classical.byContradiction
    intro hnd
    exact hne .runtime (key .runtime (Or.inr (Or.inr ⟨h1, h2, hc, ho, hnd, rfl⟩)))
  · rintro ⟨h1, h2, h3⟩
    rcases apiCat_sem h hft covordOut check or_ h1 h2 with ⟨_, hc, ho, hnd⟩ | ⟨st, hok, _⟩
    · exact absurd (h3 hc ho) hnd
    · exact ⟨_, hok⟩

/-- **C18 (API), the value in general** (overlapping inputs allowed, every accepted flag
    combination): the result file reads back as a well-formed map `r` of the output coverage
    order, the common `nside_sparse`, kind and sentinel, holding at EVERY pixel the `stepV`-fold
    of the values of the maps valid there, in list order, and covered exactly at the output
    coverage pixels that contain a valid pixel of some input (NOT at every covered input
    block: an allocated but empty block of an input leaves no trace) -/
theorem api_cat_value (h : Uniform kind sent so ((m₀, md₀) :: rest)) (hft : m₀.FileTyped)
    (covordOut : Option Nat) (check or_ : Bool) {F : FileObj}
    (hF : apiCat (filesOf ((m₀, md₀) :: rest)) covordOut check or_ = .ok F) :
    ∃ r, apiRead F none = .ok r ∧ r.covord = covordOut.getD m₀.covord ∧ r.spord = so ∧
      r.kind = kind ∧ r.sent = sent ∧ r.cache = none ∧ r.view = none ∧ r.WF ∧
      (∀ p, p < r.npix → r.abs p =
        (vals ((m₀, md₀) :: rest) p).foldl
          (stepV r.vc check (fun a b => Val.or kind.dt a b)) r.vc.sentinel) ∧
      (∀ k, k < r.c.ncov → (covered r.c r.st k = true ↔
        ∃ x ∈ (m₀, md₀) :: rest, ∃ p, p < r.npix ∧ p >>> r.c.shift = k ∧
          x.1.vc.valid (x.1.abs p) = true)) := by
  obtain ⟨h1, h2, _⟩ := (api_cat_ok_iff h hft covordOut check or_).1 ⟨F, hF⟩
  rcases apiCat_sem h hft covordOut check or_ h1 h2 with ⟨he, _⟩ | ⟨st, hok, _, hread, hwf, habs, hcov⟩
  · rw [he] at hF; cases hF
  · rw [hok] at hF
    cases hF
    refine ⟨_, hread, rfl, rfl, rfl, rfl, rfl, rfl, hwf, ?_, ?_⟩
    · intro p hp
      have hp' : p < 12 * 4 ^ so := by
        have : (outMap (covordOut.getD m₀.covord) so kind sent st).npix = 12 * 4 ^ so :=
          WFFiles.cfgOf_npix h2
        rw [← this]; exact hp
      exact habs p hp'
    · intro k hk
      have hnp : (outMap (covordOut.getD m₀.covord) so kind sent st).npix = 12 * 4 ^ so :=
        WFFiles.cfgOf_npix h2
      rw [hnp]
      exact hcov k hk


/-- **C18 (API), the union theorem**: files written from pairwise disjoint maps (no pixel
    valid in two of them) of one kind / sentinel / `nside_sparse` and ARBITRARY, differing
    coverage orders, any accepted flag combination, any output coverage order `≤ nside_sparse`
    (default: the first file's), outside the region of known finding F50 (`hF50`, not used by
    the proof: the model does not mirror that library error — see `inF50`): the call succeeds,
    and the file reads back as a well-formed map `r` with the output coverage order and the
    inputs' `nside_sparse`, kind and sentinel, such that at EVERY pixel `r` holds the value of
    the unique map valid there and the blank cell where none is; `r`'s valid set is the union
    of the valid sets; `r` is covered exactly at the output coverage pixels containing a valid
    pixel of some input -/
theorem api_cat_union (h : Uniform kind sent so ((m₀, md₀) :: rest)) (hft : m₀.FileTyped)
    (covordOut : Option Nat) (check or_ : Bool)
    (hflags : ¬ (or_ = true ∧ check = false)) (hco : covordOut.getD m₀.covord ≤ so)
    (hdis : ApiCat.Disjoint so ((m₀, md₀) :: rest))
    (hF50 : ¬ inF50 (filesOf ((m₀, md₀) :: rest)) covordOut) :
    ∃ F r, apiCat (filesOf ((m₀, md₀) :: rest)) covordOut check or_ = .ok F ∧
      apiRead F none = .ok r ∧ r.covord = covordOut.getD m₀.covord ∧ r.spord = so ∧
      r.kind = kind ∧ r.sent = sent ∧ r.WF ∧
      (∀ p, p < r.npix →
        (r.abs p = match ((m₀, md₀) :: rest).find? (fun x => x.1.vc.valid (x.1.abs p)) with
          | some x => x.1.abs p
          | none => r.vc.sentinel) ∧
        (r.vc.valid (r.abs p) = true ↔
          ∃ x ∈ (m₀, md₀) :: rest, x.1.vc.valid (x.1.abs p) = true)) ∧
      (∀ k, k < r.c.ncov → (covered r.c r.st k = true ↔
        ∃ x ∈ (m₀, md₀) :: rest, ∃ p, p < r.npix ∧ p >>> r.c.shift = k ∧
          x.1.vc.valid (x.1.abs p) = true)) := by
  have _ := hF50
  obtain ⟨F, hF⟩ := (api_cat_ok_iff h hft covordOut check or_).2 ⟨hflags, hco, fun _ _ => hdis⟩
  obtain ⟨r, hread, h1, h2, h3, h4, _, _, hwf, habs, hcov⟩ := api_cat_value h hft covordOut check or_ hF
  refine ⟨F, r, hF, hread, h1, h2, h3, h4, hwf, ?_, hcov⟩
  intro p hp
  have hnp : r.npix = 12 * 4 ^ so := by
    show (cfgOf r.covord r.spord).npix = _
    rw [h1, h2]; exact WFFiles.cfgOf_npix hco
  have hvc : r.vc = vcOf kind sent := by unfold MapObj.vc vcOf; rw [h3, h4]
  have h0 : (m₀, md₀) ∈ (m₀, md₀) :: rest := List.mem_cons_self
  have hv : r.vc.valid r.vc.sentinel = false := by
    rw [hvc, ← h.vc_eq h0]; exact (h.ok _ h0).2.1.blankInvalid
  have hval := habs p hp
  rw [vals_of_disjoint hdis p (hnp ▸ hp)] at hval
  cases hfind : ((m₀, md₀) :: rest).find? (fun x => x.1.vc.valid (x.1.abs p)) with
  | none =>
    rw [hfind] at hval
    simp only [List.foldl_nil] at hval
    refine ⟨hval, ?_⟩
    rw [hval, hv]
    constructor
    · intro hc; cases hc
    · rintro ⟨x, hx, hxv⟩
      have := List.find?_eq_none.1 hfind x hx
      exact absurd hxv this
  | some x =>
    rw [hfind] at hval
    simp only [] at hval
    rw [List.foldl_cons, List.foldl_nil, stepV_blank _ _ _ hv] at hval
    refine ⟨hval, ?_⟩
    have hxm := List.mem_of_find?_eq_some hfind
    have hxv : x.1.vc.valid (x.1.abs p) = true := by
      have := List.find?_some hfind
      exact this
    rw [hval, hvc, ← h.vc_eq hxm, hxv]
    exact ⟨fun _ => ⟨x, hxm, hxv⟩, fun _ => rfl⟩

/-- **C18 (API), overlapping inputs WITHOUT `check_overlap`**: the call succeeds and the LAST
    file (in list order) that is valid at a pixel wins there — within one output coverage
    pixel the files are written one after the other, each replacing what is there -/
theorem api_cat_last_wins (h : Uniform kind sent so ((m₀, md₀) :: rest)) (hft : m₀.FileTyped)
    (covordOut : Option Nat) (hco : covordOut.getD m₀.covord ≤ so) :
    ∃ F r, apiCat (filesOf ((m₀, md₀) :: rest)) covordOut false false = .ok F ∧
      apiRead F none = .ok r ∧ r.WF ∧
      ∀ p, p < r.npix → r.abs p = ((vals ((m₀, md₀) :: rest) p).getLast?).getD r.vc.sentinel := by
  obtain ⟨F, hF⟩ := (api_cat_ok_iff h hft covordOut false false).2
    ⟨(fun hc => by cases hc.1), hco, (fun hc => by cases hc)⟩
  obtain ⟨r, hread, _, _, _, _, _, _, hwf, habs, _⟩ := api_cat_value h hft covordOut false false hF
  refine ⟨F, r, hF, hread, hwf, fun p hp => ?_⟩
  rw [habs p hp, foldl_stepV_nocheck]

/-- **C18 (API), `or_overlap`** (with `check_overlap`, integer kinds: integer and boolean
    plain maps, bit-packed maps, wide masks): the call always succeeds; at every pixel the
    values of the maps valid there are combined from the left by bitwise or — precisely: a
    map's value is or-ed into the running value if that reads as valid, and REPLACES it
    otherwise (the start, and a running or that happens to equal the sentinel) -/
theorem api_cat_or (h : Uniform kind sent so ((m₀, md₀) :: rest)) (hft : m₀.FileTyped)
    (covordOut : Option Nat) (hco : covordOut.getD m₀.covord ≤ so)
    (hint : kind.isIntegerMap = true) :
    ∃ F r, apiCat (filesOf ((m₀, md₀) :: rest)) covordOut true true = .ok F ∧
      apiRead F none = .ok r ∧ r.WF ∧
      ∀ p, p < r.npix → r.abs p =
        (vals ((m₀, md₀) :: rest) p).foldl
          (fun acc v => if r.vc.valid acc then Val.or kind.dt v acc else v) r.vc.sentinel := by
  obtain ⟨F, hF⟩ := (api_cat_ok_iff h hft covordOut true true).2
    ⟨(fun hc => by cases hc.2), hco, (fun _ ho => by rw [hint] at ho; cases ho)⟩
  obtain ⟨r, hread, _, _, _, _, _, _, hwf, habs, _⟩ := api_cat_value h hft covordOut true true hF
  refine ⟨F, r, hF, hread, hwf, fun p hp => ?_⟩
  rw [habs p hp]
  rfl

/-- … while on a NON-integer kind (float maps, record maps) `or_overlap` is ignored: the call
    behaves as with `check_overlap` alone (error iff two maps share a valid pixel) -/
theorem api_cat_or_ignored (h : Uniform kind sent so ((m₀, md₀) :: rest)) (hft : m₀.FileTyped)
    (covordOut : Option Nat) (hint : kind.isIntegerMap = false) :
    apiCat (filesOf ((m₀, md₀) :: rest)) covordOut true true =
      apiCat (filesOf ((m₀, md₀) :: rest)) covordOut true false := by
  rw [apiCat_written h hft, apiCat_written h hft, hint]
  rfl


/-- **C18 (API), the result file is well formed and typed** (no uniformity needed; cites
    `WF.apiCat'`, Lemmas/WFFiles.lean, and `Typed.apiCat`, Lemmas/TypedWorld.lean) -/
theorem api_cat_wf_typed {ins : Ins} (hok : ∀ x ∈ ins, x.1.Ok) (hty : ∀ x ∈ ins, x.1.Typed)
    {covordOut : Option Nat} {check or_ : Bool} {F : FileObj}
    (hF : apiCat (filesOf ins) covordOut check or_ = .ok F) : F.WF ∧ F.Typed := by
  constructor
  · apply WF.apiCat' _ hF
    intro f hf
    obtain ⟨x, hx, rfl⟩ := List.mem_map.1 hf
    exact (hok x hx).1.1
  · apply Typed.apiCat _ hF
    intro f hf
    obtain ⟨x, hx, rfl⟩ := List.mem_map.1 hf
    exact Typed.apiWrite x.2 (hty x hx)

theorem stepArgs_cat (w : World) (a : Args) : stepArgs w "cat" a = opCat w a := by rfl

/-- what a successful `cat` does to the world: the result file is stored under the `f=` name -/
theorem opCat_eq (w : World) (a : Args) (files : List FileObj) (F : FileObj)
    (hfiles : (splitList (a.getD "files" "_")).mapM
      (fun n => (w.files.find? (·.1 == n)).map (·.2)) = some files)
    (hcat : apiCat files (a.nat? "covord") (a.flag "check") (a.flag "or") = .ok F) :
    opCat w a = ({ w with files := (a.getD "f" "f", F) :: w.files.filter (·.1 != a.getD "f" "f") },
      "ok") := by
  unfold opCat
  simp only [hfiles, hcat]

/-- **C18 (driver level), `cat` then `read`**: if the stored files named by `files=` are
    `files`, the concatenation succeeds with `F` and `F` reads as `r`, then both protocol steps
    answer `ok` and the `r=` name is bound to `r` (owning its storage) -/
theorem cat_read_world (w : World) (aC aR : Args) (files : List FileObj) (F : FileObj) (r : MapObj)
    (hfiles : (splitList (aC.getD "files" "_")).mapM
      (fun n => (w.files.find? (·.1 == n)).map (·.2)) = some files)
    (hcat : apiCat files (aC.nat? "covord") (aC.flag "check") (aC.flag "or") = .ok F)
    (hf : aR.getD "f" "f" = aC.getD "f" "f") (hpx : aR.get? "pixels" = none)
    (hread : apiRead F none = .ok r) :
    (stepArgs w "cat" aC).2 = "ok" ∧
    (stepArgs (stepArgs w "cat" aC).1 "read" aR).2 = "ok" ∧
    (stepArgs (stepArgs w "cat" aC).1 "read" aR).1.get? (aR.getD "r" "tmp")
      = some { r with view := none } := by
  rw [stepArgs_cat, opCat_eq w aC files F hfiles hcat]
  simp only
  rw [stepArgs_read,
    opRead_eq _ aR F none r (by rw [hf]; exact files_find_cons_self _ _ _) (Or.inl ⟨hpx, rfl⟩) hread]
  refine ⟨by first | rfl | trivial, by first | rfl | trivial, ?_⟩
  exact World.get?_bind_self _ _ _

/-- **C18 (driver level), the union round trip**: `cat f=out files=…` of files written from
    pairwise disjoint uniform maps, then `read r=R f=out`, binds `R` to the union map -/
theorem cat_read_world_union (w : World) (aC aR : Args)
    (h : Uniform kind sent so ((m₀, md₀) :: rest)) (hft : m₀.FileTyped)
    (hfiles : (splitList (aC.getD "files" "_")).mapM
      (fun n => (w.files.find? (·.1 == n)).map (·.2)) = some (filesOf ((m₀, md₀) :: rest)))
    (hflags : ¬ (aC.flag "or" = true ∧ aC.flag "check" = false))
    (hco : (aC.nat? "covord").getD m₀.covord ≤ so)
    (hdis : ApiCat.Disjoint so ((m₀, md₀) :: rest))
    (hF50 : ¬ inF50 (filesOf ((m₀, md₀) :: rest)) (aC.nat? "covord"))
    (hf : aR.getD "f" "f" = aC.getD "f" "f") (hpx : aR.get? "pixels" = none) :
    (stepArgs w "cat" aC).2 = "ok" ∧
    (stepArgs (stepArgs w "cat" aC).1 "read" aR).2 = "ok" ∧
    ∃ r, (stepArgs (stepArgs w "cat" aC).1 "read" aR).1.get? (aR.getD "r" "tmp") = some r ∧
      r.covord = (aC.nat? "covord").getD m₀.covord ∧ r.spord = so ∧ r.kind = kind ∧
      r.sent = sent ∧ r.WF ∧
      ∀ p, p < r.npix →
        r.abs p = match ((m₀, md₀) :: rest).find? (fun x => x.1.vc.valid (x.1.abs p)) with
          | some x => x.1.abs p
          | none => r.vc.sentinel := by
  obtain ⟨F, r, hF, hread, h1, h2, h3, h4, hwf, habs, _⟩ :=
    api_cat_union h hft (aC.nat? "covord") (aC.flag "check") (aC.flag "or") hflags hco hdis hF50
  obtain ⟨a, b, c⟩ := cat_read_world w aC aR _ F r hfiles hF hf hpx hread
  exact ⟨a, b, { r with view := none }, c, h1, h2, h3, h4, hwf, fun p hp => (habs p hp).1⟩


/-! ### non-vacuity, the carve-out, and what is NOT refused -/

/-- an `int32` map, `nside_sparse = 2` (48 pixels), coverage order `co` (0: 12 blocks of 4;
    1: 48 blocks of 1) -/
def exI4 (co : Nat) (sent : Option Val) (pix : List Nat) (vs : List Int) : Except Err MapObj := do
  let m ← apiMakeEmpty co 1 (.plain (.int 32 true)) sent []
  apiUpdate m "replace" pix (some (vs.map (Val.num · 0))) false

/-- a two-byte wide mask, coverage order `co`, `nside_sparse = 2` -/
def exWide (co : Nat) (pix : List Nat) (row : List Nat) : Except Err MapObj := do
  let m ← apiMakeEmpty co 1 (.wide 2) none []
  apiUpdate m "replace" pix (some [.bytes row]) true

/-- **the union**: two disjoint `int32` maps with DIFFERENT coverage orders (0 and 1), output
    coverage order 0 (default = the first file's) and 1, with `check_overlap`: hypotheses of
    `api_cat_union` hold (`Ok`, `FileTyped`, one kind / sentinel / sparse order, disjoint, not in
    F50), the file reads back with the inputs' values at pixels 1, 2, 20, 30, blank elsewhere,
    covered exactly at the output coverage pixels holding a valid pixel (0, 5, 7 of 12; resp.
    1, 2, 20, 30 of 48) -/
example : WFApi.okAnd (do
      let a ← exI4 0 none [1, 2] [5, 6]
      let b ← exI4 1 none [20, 30] [7, 8]
      let F ← apiCat (filesOf [(a, []), (b, [("k", "v")])]) none true false
      let r ← apiRead F none
      let F1 ← apiCat (filesOf [(a, []), (b, [])]) (some 1) true false
      let r1 ← apiRead F1 none
      pure (a, b, F, r, r1))
    (fun (a, b, _, r, r1) => decide a.Ok && decide b.Ok && decide a.FileTyped &&
      (a.kind == b.kind) && (a.sent == b.sent) && (a.covord != b.covord) &&
      decide (ApiCat.Disjoint 1 [(a, []), (b, [])]) &&
      decide (¬ inF50 (filesOf [(a, []), (b, [])]) none) &&
      decide r.WF && (r.covord == 0) && (r.spord == 1) && (r.kind == a.kind) &&
      (r.sent == a.sent) &&
      ((List.range 48).map r.abs == (List.range 48).map fun p =>
        if p == 1 then .num 5 0 else if p == 2 then .num 6 0 else if p == 20 then .num 7 0
        else if p == 30 then .num 8 0 else a.sent) &&
      (((List.range 12).filter (covered r.c r.st)) == [0, 5, 7]) &&
      decide r1.WF && (r1.covord == 1) &&
      ((List.range 48).map r1.abs == (List.range 48).map r.abs) &&
      (((List.range 48).filter (covered r1.c r1.st)) == [1, 2, 20, 30])) = true := by
  decide +kernel

/-- **overlapping inputs** (pixel 2 valid in both, 7 and 9): without `check_overlap` the LAST
    file wins (9, resp. 7 in the other order); with `check_overlap` RuntimeError; with
    `or_overlap` the bitwise or (15); `or_overlap` without `check_overlap` RuntimeError -/
example : WFApi.okAnd (do
      let a ← exI4 0 none [1, 2] [5, 7]
      let e ← exI4 1 none [2, 3] [9, 11]
      let r ← (apiCat (filesOf [(a, []), (e, [])]) none false false) >>= (apiRead · none)
      let r' ← (apiCat (filesOf [(e, []), (a, [])]) none false false) >>= (apiRead · none)
      let ro ← (apiCat (filesOf [(a, []), (e, [])]) none true true) >>= (apiRead · none)
      pure (a, e, r, r', ro))
    (fun (a, e, r, r', ro) => decide a.Ok && decide e.Ok &&
      decide (¬ ApiCat.Disjoint 1 [(a, []), (e, [])]) &&
      (vals [(a, []), (e, [])] 2 == [.num 7 0, .num 9 0]) &&
      (r.abs 2 == .num 9 0) && (r'.abs 2 == .num 7 0) && (ro.abs 2 == .num 15 0) &&
      (r.abs 1 == .num 5 0) && (r.abs 3 == .num 11 0) && (r'.covord == 1) &&
      (match apiCat (filesOf [(a, []), (e, [])]) none true false with
        | .error .runtime => true | _ => false) &&
      (match apiCat (filesOf [(a, []), (e, [])]) none false true with
        | .error .runtime => true | _ => false) &&
      (match apiCat (filesOf [(a, []), (e, [])]) (some 2) false false with
        | .error .value => true | _ => false) &&
      (match apiCat [] none false false with | .error .index => true | _ => false)) = true := by
  decide +kernel

/-- `or_overlap` on a float kind is ignored: overlapping `float64` maps raise as with
    `check_overlap` alone -/
example : WFApi.okAnd (do
      let a ← apiMakeEmpty 0 1 (.plain (.flt 64)) none [] >>= (apiUpdate · "replace" [2] (some [.num 1 1]) false)
      let b ← apiMakeEmpty 0 1 (.plain (.flt 64)) none [] >>= (apiUpdate · "replace" [2] (some [.num 3 0]) false)
      pure (a, b))
    (fun (a, b) => decide a.Ok && decide a.FileTyped && !a.kind.isIntegerMap &&
      (match apiCat (filesOf [(a, []), (b, [])]) none true true with
        | .error .runtime => true | _ => false)) = true := by
  decide +kernel

/-- **known finding F50, evaluated**: two two-byte wide masks with coverage order 1 (one row
    per block), the first with 2 storage rows, concatenated to the COARSER coverage order 0
    (4 rows per block): the input is in `inF50`; the MODEL succeeds and returns the union; the
    LIBRARY raises `ValueError: cannot reshape array of size … into shape (4,2)` (the dtype
    stub of the first file is read with the output block size) -/
theorem inF50_model_succeeds : WFApi.okAnd (do
      let a ← exWide 1 [1] [1, 0]
      let b ← exWide 1 [20] [0, 2]
      let r ← (apiCat (filesOf [(a, []), (b, [])]) (some 0) true false) >>= (apiRead · none)
      pure (a, b, r))
    (fun (a, b, r) => decide a.Ok && decide b.Ok && decide a.FileTyped &&
      decide (ApiCat.Disjoint 1 [(a, []), (b, [])]) &&
      decide (inF50 (filesOf [(a, []), (b, [])]) (some 0)) &&
      (r.abs 1 == .bytes [1, 0]) && (r.abs 20 == .bytes [0, 2]) && (r.covord == 0)) = true := by
  decide +kernel

/-- **what is NOT refused**: files of different SENTINELS (default and 7) are concatenated
    without any error; every file is read with the FIRST file's sentinel, so the unset cells of
    the second map (holding 7) come out as VALID pixels with value 7 (pixels 21-23 of its
    block) — as in the library (`sentinel=` of the first header is passed to every partial
    read).  The union theorem needs `Uniform`. -/
theorem api_cat_mismatch_accepted : WFApi.okAnd (do
      let a ← exI4 0 none [1, 2] [5, 6]
      let b ← exI4 0 (some (.num 7 0)) [20] [9]
      let r ← (apiCat (filesOf [(a, []), (b, [])]) none true false) >>= (apiRead · none)
      pure (a, b, r))
    (fun (a, b, r) => decide a.Ok && decide b.Ok && (a.sent != b.sent) &&
      (r.sent == a.sent) && (r.abs 20 == .num 9 0) && !b.vc.valid (b.abs 21) &&
      (r.abs 21 == .num 7 0) && r.vc.valid (r.abs 21)) = true := by
  decide +kernel

/-! the union round trip through the protocol driver: `cat` then `read` binds `R` to the union -/
#guard ((runLines [
    "cfg a kind=plain dtype=i4 covord=0 spord=1",
    "cfg b kind=plain dtype=i4 covord=1 spord=1",
    "upd a pix=1,2 vals=5,6",
    "upd b pix=20,30 vals=7,8",
    "write a f=A", "write b f=B",
    "cat files=A,B f=out covord=0 check=1",
    "read f=out r=R"]).get? "R").map (fun r => (r.covord, [1, 2, 20, 30, 0].map r.abs)) ==
  some (0, [.num 5 0, .num 6 0, .num 7 0, .num 8 0, .num (-2147483648) 0])

end api
end C18
end HS
