import json, sys
props = {json.loads(l)['id']: json.loads(l) for l in open('/verif/properties.jsonl')}
pid, tag = sys.argv[1], sys.argv[2]
p = props[pid]
wt = '/tmp/mut/%s%s' % (pid, tag)
print(f"""You are helping to evaluate a verification tool by producing a realistic, subtle DEFECT in an open-source Python library. You have your own scratch git worktree of the library LSSTDESC/healsparse at {wt} (a pure-Python sparse HEALPix map library: coverage index + sparse storage, bit-packed boolean arrays, map arithmetic, degrade/upgrade, FITS/MOC I/O). Work ONLY inside {wt}; never touch /repo or /verif (do not even read /verif). Python: /venv/bin/python (numpy, astropy, hpgeom, pytest installed; no fitsio/pyarrow/healpy). When you run Python from inside {wt}, `import healsparse` imports YOUR worktree copy (check `healsparse.__file__` once).

The property that your change must BREAK (this is all you are told about what the tool checks):

  Title: {p['title']}
  Statement: {p['statement']}
  Quantifier: {p['quantifier']['text']}

Task: make ONE small change to the library source under {wt}/healsparse/ (a few lines; it may touch two cooperating sites that each look fine alone) such that
 1. the library still imports, and the ENTIRE existing test suite still passes: `cd {wt} && /venv/bin/python -m pytest -q -p no:cacheprovider -n 8` must report the same number of passed tests as before your change (run it before and after; it takes about 1-3 minutes);
 2. the property above is violated for SOME inputs, but NOT in a way that ordinary use would expose at once: the failure must need something specific to manifest — a particular sequence of operations, an unusual but legal input (specific alignment, dtype, sentinel, block order, boundary pixel, repeated pixels, empty set, coverage relationship…), a failure at a particular point, or the interplay of two sites;
 3. it is the kind of mistake a maintainer could plausibly make in a refactor or "optimisation" (no random garbage, no `if x == 12345` special-casing of a magic input, no deleting whole features).
Then write a demonstration script {wt}/demo_{pid}{tag}.py: a small self-contained program using only the public API (and numpy) that exits 0 on the ORIGINAL code and exits 1 (printing what went wrong) on your modified code. Verify both: run it with your change applied (must exit 1), then revert the library change with `git -C {wt} diff -- healsparse > /tmp/{pid}{tag}.patch && git -C {wt} apply -R /tmp/{pid}{tag}.patch` (do NOT use `git stash`: the stash is shared between worktrees and other agents are working concurrently), run it again (must exit 0), then re-apply with `git -C {wt} apply /tmp/{pid}{tag}.patch`.
Finally produce the patch: `git -C {wt} diff -- healsparse > {wt}/patch_{pid}{tag}.diff` and leave the worktree with the change applied.

Be creative about WHERE to put the defect: read the code paths relevant to the property first (healsparse/healSparseMap.py, healSparseCoverage.py, packedBoolArray.py, operations.py, io_map_fits.py, fits_shim.py, cat_healsparse_files.py, healSparseRandoms.py, geom.py, utils.py as relevant) and prefer a site the test suite exercises only on easy inputs. {sys.argv[3] if len(sys.argv) > 3 else ''}

Report at the end: the file/function changed and why it breaks the property, exactly what is needed for the failure to manifest, the paths of the patch and the demo, and the pytest pass counts before/after.""")
