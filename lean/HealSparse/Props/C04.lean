/-
  C04 — every reachable map obeys the published storage layout.
  Property theorems only (helpers in HealSparse/Lemmas).
-/
import HealSparse.Lemmas.Core
import HealSparse.Model.FitsIO
import HealSparse.Lemmas.Coverage
import HealSparse.Lemmas.WFWorld
namespace HS
namespace C04

variable {V : Type} [DecidableEq V]

/-- The executable checker decides exactly the layout invariant. -/
theorem checkInv_iff (c : Cfg) (vc : VCfg V) (s : State V) :
    checkInv c vc s = true ↔ Inv c vc s := by
  simp [checkInv]

/-- `make_empty(cov_pixels=P)` yields a well-formed map, for any duplicate-free in-range `P`
    in any order. -/
theorem inv_makeEmpty (c : Cfg) (vc : VCfg V) (P : List Nat)
    (hnd : P.Nodup) (hlt : ∀ k ∈ P, k < c.ncov) : Inv c vc (makeEmpty c vc P) := by
  exact inv_makeEmpty' c vc P hnd hlt

/-- `_reserve_cov_pix` preserves the layout. -/
theorem inv_reserve (c : Cfg) (vc : VCfg V) (s : State V) (new : List Nat)
    (h : Inv c vc s) (hnd : new.Nodup)
    (hnew : ∀ k ∈ new, k < c.ncov ∧ covered c s k = false) :
    Inv c vc (reserve c vc s new) := by
  exact inv_reserve' c vc s new h hnd hnew

/-- `update_values_pix` preserves the layout, for every operation, operand list
    (duplicates allowed), and in either append mode. -/
theorem inv_updateCore {W : Type} (c : Cfg) (vc : VCfg V) (s : State V) (g : V → W → V)
    (L : List (Nat × W)) (na : Bool)
    (h : Inv c vc s) (hL : ∀ qw ∈ L, qw.1 < c.npix) :
    Inv c vc (updateCore c vc s g L na) := by
  exact inv_updateCore' c vc s g L na h hL

/-- Distinct sky pixels never share a storage cell (within covered coverage pixels). -/
theorem lookup_inj (c : Cfg) (vc : VCfg V) (s : State V) (h : Inv c vc s) (p q : Nat)
    (hp : p < c.npix) (hq : q < c.npix) (hc : covered c s (p >>> c.shift) = true)
    (he : lookup c s p = lookup c s q) : p = q := by
  exact h.lookup_inj hp hq hc he

/-- Every pixel of an uncovered coverage pixel lands in the overflow block and reads as the sentinel. -/
theorem uncovered_reads_sentinel (c : Cfg) (vc : VCfg V) (s : State V) (h : Inv c vc s) (p : Nat)
    (hp : p < c.npix) (hc : covered c s (p >>> c.shift) = false) :
    0 ≤ lookup c s p ∧ lookup c s p < ((c.nfine : Nat) : Int) ∧ abs c vc s p = vc.sentinel := by
  have hl := h.lookup_uncovered hp hc
  have hr := Nat.mod_lt p c.nfine_pos
  refine ⟨by omega, by omega, h.abs_uncovered hp hc⟩

/-- Pixels of covered coverage pixels are stored inside the storage, beyond the overflow block. -/
theorem covered_in_range (c : Cfg) (vc : VCfg V) (s : State V) (h : Inv c vc s) (p : Nat)
    (hp : p < c.npix) (hc : covered c s (p >>> c.shift) = true) :
    ((c.nfine : Nat) : Int) ≤ lookup c s p ∧ lookup c s p < ((s.sp.size : Nat) : Int) := by
  have hi := h.idxOf_covered hp hc
  rw [hi.2.2]
  exact ⟨by exact_mod_cast hi.1, by exact_mod_cast hi.2.1⟩

/-- every file written from a well-formed map conforms to the published layout: its COV and
    SPARSE extensions ARE the coverage index and the storage (and a full read gives them back) -/
theorem file_layout (c : Cfg) (vc : VCfg V) (s : State V) (h : Inv c vc s) :
    Inv c vc (⟨(writeFits s).cov, (writeFits s).data⟩ : State V) ∧ readFull (writeFits s) = s := by
  cases s
  exact ⟨h, rfl⟩

/-- non-vacuity: a concrete non-trivial state (two blocks allocated out of order) satisfies `Inv`. -/
example : Inv (V := Nat) ⟨3, 1⟩ ⟨0, fun x => x != 0⟩
    ⟨#[4, -2, -2], #[0, 0, 7, 0, 0, 9]⟩ := by decide

/-! ### the global invariant: every protocol history

`runLines lines` is the world the driver reaches from the empty world by the protocol history
`lines` (any list of strings: unknown or malformed lines answer `bad-op` and change nothing).
The proof (HealSparse/Lemmas/WFWorld.lean) is an induction over the history with the stronger
invariant `World.Good` — owning entries well formed, well typed (`KindOk`) and sentinel
compatible (`SentOK`), view descriptors of non-record kind, files well formed with a well-typed
recovered kind — preserved by each of the 51 operations of Model/Dispatch.lean. -/

/-- every map object that owns its storage, and every file, in the world reached by ANY protocol history obeys the published layout -/
theorem reachable_wf (lines : List String) : (runLines lines).WF :=
  (Good.runLines lines).wf

/-- what a protocol `state`/read sees: every map a history can look up (views included, resolved against their parents) obeys the layout -/
theorem reachable_get_wf (lines : List String) (n : String) (m : MapObj)
    (h : (runLines lines).get? n = some m) : m.WF :=
  ((Good.runLines lines).get h).1

/-- the executable check agrees: `checkInv` is true of every reachable owning map -/
theorem reachable_checkInv (lines : List String) :
    ∀ e ∈ (runLines lines).pool, e.2.view = none → checkInv e.2.c e.2.vc e.2.st = true := by
  intro e he hv
  exact decide_eq_true ((reachable_wf lines).1 e he hv).2

/-- … and of every map a history can look up -/
theorem reachable_get_checkInv (lines : List String) (n : String) (m : MapObj)
    (h : (runLines lines).get? n = some m) : checkInv m.c m.vc m.st = true :=
  decide_eq_true (reachable_get_wf lines n m h).2

/-- the full invariant: what is looked up is also well typed and sentinel compatible, so the
    hypotheses of every API-level theorem of Lemmas/WFApi, WFRes, WFFiles are met along any history -/
theorem reachable_get_ok (lines : List String) (n : String) (m : MapObj)
    (h : (runLines lines).get? n = some m) : m.WF ∧ m.KindOk ∧ m.SentOK :=
  (Good.runLines lines).get h

/-- every stored file is well formed: what the reader recovers from it obeys the layout -/
theorem reachable_file_wf (lines : List String) : ∀ e ∈ (runLines lines).files, e.2.WF :=
  (reachable_wf lines).2

/-- non-vacuity: a history that makes a map with pre-allocated (repeated) coverage pixels, grows
    it by an update, makes a record map, takes a field view, writes and scales through the view,
    writes a file, reads part of it back and degrades — every line answers `ok`, the world holds
    four owning maps, one view and one file, and the theorems above apply to it.  (Evaluated by
    the compiler: the kernel cannot run the string parser.) -/
def exHistory : List String := [
  "cfg m kind=plain dtype=i4 covord=0 spord=2 covpix=3,3",
  "upd m pix=5,100 vals=3,4",
  "cfg p kind=rec covord=0 spord=1 fields=i2,f8 primary=0 sentinel=7",
  "upd p pix=5 vals=r3;2",
  "single p field=1 r=v",
  "upd v pix=5 val=9",
  "sop v op=mul k=2 inplace=1",
  "write m f=f1",
  "read f=f1 r=m2 pixels=0,6",
  "deg m ord=1 red=sum r=d"]

#guard (exHistory.foldl (fun (wo : World × List String) l => ((step wo.1 l).1, wo.2 ++ [(step wo.1 l).2]))
    ({}, [])).2.all (· == "ok")
#guard (runLines exHistory).pool.map (fun e => (e.1, e.2.view.isSome, e.2.st.sp.size)) ==
  [("d", false, 16), ("m2", false, 48), ("v", true, 0), ("p", false, 8), ("m", false, 64)]
#guard (runLines exHistory).pool.all fun e => e.2.view.isSome || checkInv e.2.c e.2.vc e.2.st
#guard ((runLines exHistory).get? "p").map (fun m => showVal (m.abs 5)) == some "r3;18"
#guard ((runLines exHistory).get? "v").map (fun m => (showVal (m.abs 5), checkInv m.c m.vc m.st)) == some ("18", true)
#guard (runLines exHistory).files.map (·.1) == ["f1"]

example : (runLines exHistory).WF ∧
    (∀ m, (runLines exHistory).get? "v" = some m → m.WF) ∧
    (∀ e ∈ (runLines exHistory).pool, e.2.view = none → checkInv e.2.c e.2.vc e.2.st = true) :=
  ⟨reachable_wf _, fun m h => reachable_get_wf _ _ m h, reachable_checkInv _⟩

end C04
end HS
