/-
  Helper lemmas for the packed-array model (Model/Packed.lean; /repo after the repairs of
  2026-09-26): bytes, heap updates,
  the first/middle/last decomposition, bit-level characterisation of every mutating method.
  Property theorems are in Props/C05.lean.
-/
import HealSparse.Model.Packed
namespace HS
namespace Packed

deriving instance DecidableEq for Except

theorem unpack_length (b : Byte) : (unpack b).length = 8 := by simp [unpack]

theorem unpack_getElem? (b : Byte) (t : Nat) :
    (unpack b)[t]? = if t < 8 then some (b.getLsbD t) else none := by
  unfold unpack
  by_cases h : t < 8 <;> simp [h]

theorem unpack_getD (b : Byte) (t : Nat) : (unpack b).getD t false = b.getLsbD t := by
  rw [List.getD_eq_getElem?_getD, unpack_getElem?]
  by_cases h : t < 8
  · simp [h]
  · simp only [h, if_false, Option.getD_none]
    exact (BitVec.getLsbD_of_ge b t (by omega)).symm

theorem pack_getLsbD (l : List Bool) (t : Nat) :
    (pack l).getLsbD t = (decide (t < 8) && l.getD t false) := by
  simp [pack, BitVec.getLsbD_setWidth]

theorem setRange_length (l : List Bool) (lo hi : Nat) (f) : (setRange l lo hi f).length = l.length := by
  simp [setRange]

theorem setRange_getD (l : List Bool) (lo hi : Nat) (f : Nat → Bool → Bool) (t : Nat) (ht : t < l.length) :
    (setRange l lo hi f).getD t false =
      if lo ≤ t ∧ t < hi then f t (l.getD t false) else l.getD t false := by
  simp only [setRange, List.getD_eq_getElem?_getD, List.getElem?_mapIdx, List.getElem?_eq_getElem ht]
  simp only [Option.map_some, Option.getD_some]

theorem byteMod_getLsbD (b : Byte) (lo hi : Nat) (f : Nat → Bool → Bool) (t : Nat) (ht : t < 8) :
    (pack (setRange (unpack b) lo hi f)).getLsbD t =
      if lo ≤ t ∧ t < hi then f t (b.getLsbD t) else b.getLsbD t := by
  rw [pack_getLsbD, setRange_getD _ _ _ _ _ (by simp [unpack_length, ht]), unpack_getD]
  simp [ht]

theorem pack_unpack (b : Byte) : pack (unpack b) = b := by
  apply BitVec.eq_of_getLsbD_eq
  intro i hi
  rw [pack_getLsbD, unpack_getD]; simp [hi]

/-! heap -/
theorem wr_size (h : Heap) (i : Nat) (b : Byte) : (wr h i b).size = h.size := by simp [wr]

theorem rdB_wr (h : Heap) (i : Nat) (b : Byte) (j : Nat) :
    rdB (wr h i b) j = if j = i ∧ i < h.size then b else rdB h j := by
  simp only [rdB, wr, Array.getD_eq_getD_getElem?, Array.getElem?_setIfInBounds]
  by_cases h1 : i = j
  · subst h1; by_cases h2 : i < h.size <;> simp [h2]
  · have : ¬ j = i := fun e => h1 e.symm
    simp [h1, this]

theorem mapRange_size (h : Heap) (a b : Nat) (g) : (mapRange h a b g).size = h.size := by simp [mapRange]

theorem rdB_mapRange (h : Heap) (a b : Nat) (g : Nat → Byte → Byte) (j : Nat) :
    rdB (mapRange h a b g) j = if a ≤ j ∧ j < b ∧ j < h.size then g (j - a) (rdB h j) else rdB h j := by
  simp only [rdB, mapRange, Array.getD_eq_getD_getElem?, Array.getElem?_mapIdx]
  by_cases hj : j < h.size
  · simp only [Array.getElem?_eq_getElem hj, Option.map_some, Option.getD_some, hj, and_true]
  · simp [hj]

theorem hbit_wr (h : Heap) (i : Nat) (b : Byte) (k : Nat) :
    hbit (wr h i b) k = if k / 8 = i ∧ i < h.size then b.getLsbD (k % 8) else hbit h k := by
  simp only [hbit, rdB_wr]; split <;> rfl

theorem hbit_mapRange (h : Heap) (a b : Nat) (g : Nat → Byte → Byte) (k : Nat) :
    hbit (mapRange h a b g) k =
      if a ≤ k / 8 ∧ k / 8 < b ∧ k / 8 < h.size then (g (k / 8 - a) (rdB h (k / 8))).getLsbD (k % 8)
      else hbit h k := by
  simp only [hbit, rdB_mapRange]; split <;> rfl

theorem flatMap_unpack_getElem? (bs : List Byte) (k : Nat) :
    (bs.flatMap unpack)[k]? = (bs[k / 8]?).map (·.getLsbD (k % 8)) := by
  induction bs generalizing k with
  | nil => simp
  | cons b bs ih =>
    rw [List.flatMap_cons, List.getElem?_append, unpack_length]
    by_cases hk : k < 8
    · have h0 : k / 8 = 0 := by omega
      have h1 : k % 8 = k := by omega
      simp [hk, h0, h1, unpack_getElem?]
    · have h0 : k / 8 = (k - 8) / 8 + 1 := by omega
      have h1 : (k - 8) % 8 = k % 8 := by omega
      simp only [hk, if_false, ih, h0, h1, List.getElem?_cons_succ]

theorem data_getElem? (h : Heap) (p : PBA) (hin : p.off + p.len ≤ h.size) (i : Nat) :
    (p.data h)[i]? = if i < p.len then some (rdB h (p.off + i)) else none := by
  simp only [PBA.data, Array.getElem?_toList, Array.getElem?_extract, rdB, Array.getD_eq_getD_getElem?]
  rw [Nat.min_eq_left hin]
  by_cases hi : i < p.len
  · have : p.off + i < h.size := by omega
    simp [hi, this]
  · simp [hi]

theorem data_length (h : Heap) (p : PBA) (hin : p.off + p.len ≤ h.size) : (p.data h).length = p.len := by
  simp [PBA.data]; omega

/-- Well-formed view: the constructor invariants (they hold for every object built by the
    constructor, `from_boolean_array`, `copy` and by non-reversed slices) and "inside the heap". -/
structure WF (h : Heap) (p : PBA) : Prop where
  start_lt : p.start < 8
  start_le : (p.start : Int) ≤ p.stop
  stop_ge : 8 * (p.len : Int) - 7 ≤ p.stop
  stop_le : p.stop ≤ 8 * (p.len : Int)
  in_heap : p.off + p.len ≤ h.size

/-- number of elements -/
def PBA.n (p : PBA) : Nat := (p.stop - p.start).toNat
/-- absolute position of element 0 in the heap's bit string -/
def PBA.A (p : PBA) : Nat := 8 * p.off + p.start

theorem toBools_getElem? (h : Heap) (p : PBA) (hwf : WF h p) (i : Nat) :
    (toBools h p)[i]? = if i < p.n then some (hbit h (p.A + i)) else none := by
  obtain ⟨h1, h2, h3, h4, h5⟩ := hwf
  simp only [toBools, List.getElem?_drop, List.getElem?_take, flatMap_unpack_getElem?,
    data_getElem? h p h5, PBA.n, PBA.A, hbit]
  by_cases hi : i < (p.stop - ↑p.start).toNat
  · have a1 : p.start + i < p.stop.toNat := by omega
    have a2 : (p.start + i) / 8 < p.len := by omega
    have a3 : (8 * p.off + p.start + i) / 8 = p.off + (p.start + i) / 8 := by omega
    have a4 : (8 * p.off + p.start + i) % 8 = (p.start + i) % 8 := by omega
    simp [a1, a2, a3, a4]
    omega
  · have a1 : ¬ p.start + i < p.stop.toNat := by omega
    simp [a1]
    omega

theorem toBools_length (h : Heap) (p : PBA) (hwf : WF h p) : (toBools h p).length = p.n := by
  have := toBools_getElem? h p hwf
  apply Nat.le_antisymm
  · apply Nat.le_of_not_lt; intro hc
    have := this p.n; simp at this
    omega
  · apply Nat.le_of_not_lt; intro hc
    have := this (toBools h p).length
    simp [hc] at this

theorem toBools_eq (h : Heap) (p : PBA) (hwf : WF h p) :
    toBools h p = (List.range p.n).map fun i => hbit h (p.A + i) := by
  apply List.ext_getElem?
  intro i
  rw [toBools_getElem? h p hwf]
  by_cases hi : i < p.n <;> simp [hi]


theorem hbit_wr_mod (h' : Heap) (i lo hi : Nat) (g : Nat → Bool → Bool) (b : Byte)
    (hb : rdB h' i = b) (hi' : i < h'.size) (k : Nat) :
    hbit (wr h' i (pack (setRange (unpack b) lo hi g))) k =
      if k / 8 = i ∧ lo ≤ k % 8 ∧ k % 8 < hi then g (k % 8) (hbit h' k) else hbit h' k := by
  have ht : k % 8 < 8 := Nat.mod_lt _ (by omega)
  rw [hbit_wr]
  by_cases c : k / 8 = i
  · subst hb
    rw [if_pos ⟨c, hi'⟩, byteMod_getLsbD _ _ _ _ _ ht]
    simp only [c, true_and, hbit]
  · rw [if_neg (fun hh => c hh.1), if_neg (fun hh => c hh.1)]

theorem hbit_mid (h2 : Heap) (off a b : Nat) (hab : off + b ≤ h2.size)
    (midF : Nat → Byte → Byte) (F : Nat → Bool → Bool)
    (hm : ∀ i x t, i < b - a → t < 8 → (midF i x).getLsbD t = F (8 * (off + a + i) + t) (x.getLsbD t))
    (k : Nat) :
    hbit (mapRange h2 (off + a) (off + b) midF) k =
      if 8 * (off + a) ≤ k ∧ k < 8 * (off + b) then F k (hbit h2 k) else hbit h2 k := by
  have hk := Nat.div_add_mod k 8
  have ht : k % 8 < 8 := Nat.mod_lt _ (by omega)
  rw [hbit_mapRange]
  by_cases c1 : off + a ≤ k / 8 ∧ k / 8 < off + b ∧ k / 8 < h2.size
  · have hr : 8 * (off + a) ≤ k ∧ k < 8 * (off + b) := by omega
    rw [if_pos c1, hm _ _ _ (by omega) ht, if_pos hr]
    have : 8 * (off + a + (k / 8 - (off + a))) + k % 8 = k := by omega
    rw [this]; rfl
  · have hr : ¬ (8 * (off + a) ≤ k ∧ k < 8 * (off + b)) := by omega
    rw [if_neg c1, if_neg hr]

theorem applyParts_hbit_raw (h : Heap) (off len start e : Nat)
    (h1 : start < 8) (h2 : start ≤ e) (h3 : 8 * len ≤ e + 7) (h4 : e ≤ 8 * len) (h5 : off + len ≤ h.size)
    (f : FML) (hf : fml (fun i => rdB h (off + i)) len start (e : Int) false = .ok f)
    (firstF lastF : Nat → Bool → Bool) (midF : Heap → Nat → Byte → Byte) (F : Nat → Bool → Bool)
    (hfirst : ∀ t x, t < 8 → firstF t x = F (8 * off + t) x)
    (hlast : ∀ t x, t < 8 → lastF t x = F (8 * (off + len - 1) + t) x)
    (hmid : ∀ hc : Heap, hc.size = h.size → (∀ j, (j < off ∨ off + len ≤ j) → rdB hc j = rdB h j) →
      ∀ a b, f.mid = some (a, b) → ∀ i x t, i < b - a → t < 8 →
        (midF hc i x).getLsbD t = F (8 * (off + a + i) + t) (x.getLsbD t))
    (k : Nat) :
    hbit (applyParts h off len f firstF lastF midF) k =
      if 8 * off + start ≤ k ∧ k < 8 * off + e then F k (hbit h k) else hbit h k := by
  have hk := Nat.div_add_mod k 8
  have ht : k % 8 < 8 := Nat.mod_lt _ (by omega)
  have hF1 := hfirst (k % 8) (hbit h k) ht
  have hF2 := hlast (k % 8) (hbit h k) ht
  unfold fml at hf
  simp only [Bool.and_eq_true, beq_iff_eq, Bool.false_eq_true, if_false] at hf
  split at hf
  · -- fully aligned
    cases hf
    rename_i hc
    obtain ⟨rfl, hc⟩ := hc
    simp only [applyParts, Part.absent, hbit_mapRange]
    have hm := hmid h rfl (fun _ _ => rfl) 0 len rfl (k / 8 - (off + 0)) (rdB h (k / 8)) (k % 8)
    by_cases c1 : off + 0 ≤ k / 8 ∧ k / 8 < off + len ∧ k / 8 < h.size
    · have hr : 8 * off + 0 ≤ k ∧ k < 8 * off + e := by omega
      rw [if_pos c1, hm (by omega) ht, if_pos hr]
      have : 8 * (off + 0 + (k / 8 - (off + 0))) + k % 8 = k := by omega
      rw [this]; rfl
    · have hr : ¬ (8 * off + 0 ≤ k ∧ k < 8 * off + e) := by omega
      rw [if_neg c1, if_neg hr]
  · split at hf
    · -- aligned at 0
      rename_i hn hs
      subst hs
      split at hf
      · cases hf
      · rename_i hl
        have hsm : ((e : Int) % 8).toNat = e % 8 := by omega
        split at hf
        · -- short
          cases hf
          simp only [applyParts, Part.absent, hsm]
          rw [hbit_wr_mod h _ _ _ _ _ (by congr 1; omega) (by omega)]
          by_cases c1 : k / 8 = off + len - 1 ∧ 0 ≤ k % 8 ∧ k % 8 < e % 8
          · have hr : 8 * off + 0 ≤ k ∧ k < 8 * off + e := by omega
            have : 8 * (off + len - 1) + k % 8 = k := by omega
            rw [if_pos c1, if_pos hr, hF2, this]
          · have hr : ¬ (8 * off + 0 ≤ k ∧ k < 8 * off + e) := by omega
            rw [if_neg c1, if_neg hr]
        · -- longer
          cases hf
          simp only [applyParts, Part.absent, hsm]
          have hb : rdB h (off + len - 1) = rdB h (off + (len - 1)) := by congr 1; omega
          have hs2 := wr_size h (off + len - 1) (pack (setRange (unpack (rdB h (off + (len - 1)))) 0 (e % 8) lastF))
          rw [hbit_mid _ off 0 (len - 1) (by omega) _ F
            (hmid _ hs2 (by intro j hj; rw [rdB_wr, if_neg (by omega)]) 0 (len - 1) rfl)]
          rw [hbit_wr_mod h _ _ _ _ _ hb (by omega)]
          have hF2' : k / 8 = off + len - 1 → lastF (k % 8) (hbit h k) = F k (hbit h k) := by
            intro hh; rw [hF2]; congr 1; omega
          repeat' split
          all_goals first | rfl | omega | (rw [hF2' (by omega)]) | (exfalso; omega)
    · -- not aligned at 0
      rename_i hn hs
      split at hf
      · cases hf
      · rename_i hl
        have hsm : ((e : Int) % 8).toNat = e % 8 := by omega
        have hF1' : k / 8 = off → firstF (k % 8) (hbit h k) = F k (hbit h k) := by
          intro hh; rw [hF1]; congr 1; omega
        have hF2' : k / 8 = off + len - 1 → lastF (k % 8) (hbit h k) = F k (hbit h k) := by
          intro hh; rw [hF2]; congr 1; omega
        have hb0 : rdB h off = rdB h (off + 0) := rfl
        split at hf
        · -- aligned at the end
          rename_i he
          split at hf
          · -- one byte
            cases hf
            simp only [applyParts, Part.absent]
            rw [hbit_wr_mod h _ _ _ _ _ hb0 (by omega)]
            repeat' split
            all_goals first | rfl | omega | (rw [hF1' (by omega)]) | (exfalso; omega)
          · -- longer
            cases hf
            simp only [applyParts, Part.absent]
            have hs2 := wr_size h off (pack (setRange (unpack (rdB h (off + 0))) start 8 firstF))
            rw [hbit_mid _ off 1 len (by omega) _ F
              (hmid _ hs2 (by intro j hj; rw [rdB_wr, if_neg (by omega)]) 1 len rfl)]
            rw [hbit_wr_mod h _ _ _ _ _ hb0 (by omega)]
            repeat' split
            all_goals first | rfl | omega | (rw [hF1' (by omega)]) | (exfalso; omega)
        · rename_i he
          split at hf
          · -- one byte, unaligned at both ends
            cases hf
            simp only [applyParts, Part.absent, Int.toNat_natCast]
            rw [hbit_wr_mod h _ _ _ _ _ hb0 (by omega)]
            repeat' split
            all_goals first | rfl | omega | (rw [hF1' (by omega)]) | (exfalso; omega)
          · -- long, unaligned at both ends
            have hb : rdB (wr h off (pack (setRange (unpack (rdB h (off + 0))) start 8 firstF))) (off + len - 1)
                = rdB h (off + (len - 1)) := by
              rw [rdB_wr, if_neg (by omega)]; congr 1; omega
            have hs1 := wr_size h off (pack (setRange (unpack (rdB h (off + 0))) start 8 firstF))
            split at hf
            · -- no middle
              cases hf
              simp only [applyParts, hsm]
              rw [hbit_wr_mod _ _ _ _ _ _ hb (by omega), hbit_wr_mod h _ _ _ _ _ hb0 (by omega)]
              repeat' split
              all_goals first | rfl | omega | (rw [hF1' (by omega)]) | (rw [hF2' (by omega)]) | (exfalso; omega)
            · cases hf
              simp only [applyParts, hsm]
              rw [hbit_mid _ off 1 (len - 1) (by simp only [wr_size]; omega) _ F
                (hmid _ (by simp only [wr_size]) (by intro j hj; rw [rdB_wr, if_neg (by omega), rdB_wr, if_neg (by omega)]) 1 (len - 1) rfl)]
              rw [hbit_wr_mod _ _ _ _ _ _ hb (by omega), hbit_wr_mod h _ _ _ _ _ hb0 (by omega)]
              repeat' split
              all_goals first | rfl | omega | (rw [hF1' (by omega)]) | (rw [hF2' (by omega)]) | (exfalso; omega)

theorem except_bind_ite {ε α β} (c : Prop) [Decidable c] (e : ε) (v : α) (k : α → Except ε β) :
    Except.bind (if c then Except.error e else Except.ok v) k = if c then Except.error e else k v := by
  split <;> rfl

theorem except_bind_ok {ε α β} (v : α) (k : α → Except ε β) : Except.bind (Except.ok v) k = k v := rfl
theorem except_bind_error {ε α β} (e : ε) (k : α → Except ε β) : Except.bind (Except.error e : Except ε α) k = .error e := rfl



def normHi (n : Int) (hi : Option Int) : Int :=
  match hi with
  | none => n
  | some e => if e < 0 then e + n else e

theorem ite_ov (x : Int) : (if (x % 8 == 0) = true then (0 : Int) else 1) = if x % 8 = 0 then 0 else 1 := by
  simp

/-- What an accepted slice is: a well-formed view of elements `[L, E)`, `E = max(stop, L)`. -/
theorem slice_spec (h : Heap) (p : PBA) (hwf : WF h p) (lo hi : Option Int) (q : PBA)
    (hq : slice p lo hi none = .ok q) (L E : Nat) (hL : lo.getD 0 = (L : Int))
    (hE : max (normHi p.n hi) L = (E : Int)) :
    WF h q ∧ q.A = p.A + L ∧ q.n = E - L ∧ q.own = false ∧ L ≤ E ∧ E ≤ p.n := by
  obtain ⟨off, len, start, stop, own⟩ := p
  obtain ⟨h1, h2, h3, h4, h5⟩ := hwf
  simp only at h1 h2 h3 h4 h5
  obtain ⟨e, rfl⟩ : ∃ e : Nat, stop = e := ⟨stop.toNat, by omega⟩
  simp only [PBA.n, PBA.A]
  have hcast : (((e : Int) - (start : Int)).toNat : Int) = (e : Int) - start := by omega
  cases lo <;> cases hi <;>
    simp only [slice, initData, checkStart, bind, except_bind_ite, except_bind_ok, except_bind_error,
      pure, Except.pure, throw, throwThe,
      MonadExceptOf.throw, normHi, Option.getD_none, Option.getD_some, Bool.or_eq_true, decide_eq_true_eq] at hq hE hL <;>
    simp only [PBA.n, hcast] at hE <;>
    (try generalize hsz : PBA.size ⟨off, len, start, (e : Int), own⟩ = sz at hq) <;>
    (try (have hsz' : sz = (e : Int) - start := by rw [← hsz]; rfl)) <;>
    (try subst hsz')
  · -- [:]
    repeat' (split at hq)
    all_goals (first | cases hq | skip)
    refine ⟨⟨?_, ?_, ?_, ?_, ?_⟩, ?_, ?_, ?_, ?_, ?_⟩ <;> (try simp only []) <;> omega
  · -- [:hi]
    rename_i ke
    generalize (if ke < 0 then ke + ((e : Int) - start) else ke) = E0 at hq hE
    obtain rfl : L = 0 := by omega
    simp only [Int.ofNat_zero] at hE
    simp only [hE, ite_ov] at hq
    generalize hov : (if ((E : Int) - 0 + (start : Int)) % 8 = 0 then (0 : Int) else 1) = ov at hq
    have hov' : (((E : Int) + start) % 8 = 0 → ov = 0) ∧ (((E : Int) + start) % 8 ≠ 0 → ov = 1) := by
      subst hov; constructor <;> intro hh <;> simp [hh]
    repeat' (split at hq)
    all_goals (first | cases hq | skip)
    refine ⟨⟨?_, ?_, ?_, ?_, ?_⟩, ?_, ?_, ?_, ?_, ?_⟩ <;> (try simp only []) <;> omega
  · -- [lo:]
    subst hL
    repeat' (split at hq)
    all_goals (first | cases hq | skip)
    refine ⟨⟨?_, ?_, ?_, ?_, ?_⟩, ?_, ?_, ?_, ?_, ?_⟩ <;> (try simp only []) <;> omega
  · -- [lo:hi]
    rename_i ks ke
    subst hL
    generalize (if ke < 0 then ke + ((e : Int) - start) else ke) = E0 at hq hE
    simp only [hE, ite_ov] at hq
    generalize hov : (if ((E : Int) - L + ((L : Int) + (start : Int)) % 8) % 8 = 0 then (0 : Int) else 1) = ov at hq
    have hov' : (((E : Int) + start) % 8 = 0 → ov = 0) ∧ (((E : Int) + start) % 8 ≠ 0 → ov = 1) := by
      subst hov; constructor <;> intro hh
      · rw [if_pos (by omega)]
      · rw [if_neg (by omega)]
    repeat' (split at hq)
    all_goals (first | cases hq | skip)
    refine ⟨⟨?_, ?_, ?_, ?_, ?_⟩, ?_, ?_, ?_, ?_, ?_⟩ <;> (try simp only []) <;> omega

/-- The exact acceptance condition of `self[lo:hi]` on a well-formed view with `n` elements:
    the start (if given) lies in `[0, n]` and the normalised stop (if given) is at most `n`. -/
def sliceAccepts (n : Int) (lo hi : Option Int) : Prop :=
  (0 ≤ lo.getD 0 ∧ lo.getD 0 ≤ n) ∧ normHi n hi ≤ n

theorem slice_ok_iff (h : Heap) (p : PBA) (hwf : WF h p) (lo hi : Option Int) :
    (∃ q, slice p lo hi none = .ok q) ↔ sliceAccepts p.n lo hi := by
  obtain ⟨off, len, start, stop, own⟩ := p
  obtain ⟨h1, h2, h3, h4, h5⟩ := hwf
  simp only at h1 h2 h3 h4 h5
  obtain ⟨e, rfl⟩ : ∃ e : Nat, stop = e := ⟨stop.toNat, by omega⟩
  have hcast : (((e : Int) - (start : Int)).toNat : Int) = (e : Int) - start := by omega
  cases lo <;> cases hi <;>
    simp only [slice, initData, checkStart, bind, except_bind_ite, except_bind_ok, except_bind_error,
      pure, Except.pure, throw, throwThe, sliceAccepts,
      MonadExceptOf.throw, normHi, Option.getD_none, Option.getD_some, Bool.or_eq_true, decide_eq_true_eq] <;>
    simp only [PBA.n, hcast] <;>
    (try generalize hsz : PBA.size ⟨off, len, start, (e : Int), own⟩ = sz) <;>
    (try (have hsz' : sz = (e : Int) - start := by rw [← hsz]; rfl)) <;>
    (try subst hsz')
  · repeat' split
    all_goals (constructor
               · rintro ⟨q, hq⟩; first | (cases hq; done) | ((repeat' apply And.intro) <;> first | trivial | omega)
               · intro hC; first | exact ⟨_, rfl⟩ | (exfalso; omega))
  · rename_i ke
    generalize (if ke < 0 then ke + ((e : Int) - start) else ke) = E0
    generalize hM : max E0 0 = M
    simp only [ite_ov]
    generalize hov : (if (M - 0 + (start : Int)) % 8 = 0 then (0 : Int) else 1) = ov
    have hov' : ((M + start) % 8 = 0 → ov = 0) ∧ ((M + start) % 8 ≠ 0 → ov = 1) := by
      subst hov; constructor <;> intro hh
      · rw [if_pos (by omega)]
      · rw [if_neg (by omega)]
    repeat' split
    all_goals (constructor
               · rintro ⟨q, hq⟩; first | (cases hq; done) | ((repeat' apply And.intro) <;> first | trivial | omega)
               · intro hC; first | exact ⟨_, rfl⟩ | (exfalso; omega))
  · repeat' split
    all_goals (constructor
               · rintro ⟨q, hq⟩; first | (cases hq; done) | ((repeat' apply And.intro) <;> first | trivial | omega)
               · intro hC; first | exact ⟨_, rfl⟩ | (exfalso; omega))
  · rename_i ks ke
    generalize (if ke < 0 then ke + ((e : Int) - start) else ke) = E0
    generalize hM : max E0 ks = M
    simp only [ite_ov]
    generalize hov : (if (M - ks + (ks + (start : Int)) % 8) % 8 = 0 then (0 : Int) else 1) = ov
    have hov' : ((M + start) % 8 = 0 → ov = 0) ∧ ((M + start) % 8 ≠ 0 → ov = 1) := by
      subst hov; constructor <;> intro hh
      · rw [if_pos (by omega)]
      · rw [if_neg (by omega)]
    repeat' split
    all_goals (constructor
               · rintro ⟨q, hq⟩; first | (cases hq; done) | ((repeat' apply And.intro) <;> first | trivial | omega)
               · intro hC; first | exact ⟨_, rfl⟩ | (exfalso; omega))

theorem fml_ok (rd : Nat → Byte) (len start e : Nat) (mask : Bool)
    (h2 : start ≤ e) (h3 : 8 * len ≤ e + 7) (h4 : e ≤ 8 * len) :
    ∃ f, fml rd len start (e : Int) mask = .ok f := by
  unfold fml
  simp only [Bool.and_eq_true, beq_iff_eq]
  repeat' split
  all_goals first | exact ⟨_, rfl⟩ | (exfalso; omega)

theorem fml_false_shape (rd rd' : Nat → Byte) (len start : Nat) (stop : Int) (f : FML)
    (hf : fml rd len start stop false = .ok f) :
    fml rd' len start stop false = .ok
      ⟨⟨f.first.arr.map (fun _ => unpack (rd' 0)), f.first.lo, f.first.hi⟩, f.mid,
       ⟨f.last.arr.map (fun _ => unpack (rd' (len - 1))), f.last.lo, f.last.hi⟩⟩ := by
  unfold fml at hf ⊢
  simp only [Bool.and_eq_true, beq_iff_eq, Bool.false_eq_true, if_false] at hf ⊢
  repeat' split at hf
  all_goals (cases hf <;> simp_all [Part.absent])

theorem fml_false_arr (rd : Nat → Byte) (len start : Nat) (stop : Int) (f : FML)
    (hf : fml rd len start stop false = .ok f) :
    (∀ a, f.first.arr = some a → a = unpack (rd 0)) ∧
    (∀ a, f.last.arr = some a → a = unpack (rd (len - 1))) := by
  unfold fml at hf
  simp only [Bool.and_eq_true, beq_iff_eq, Bool.false_eq_true, if_false] at hf
  repeat' split at hf
  all_goals (cases hf <;> simp_all [Part.absent])

theorem applyParts_size (h : Heap) (off len : Nat) (f : FML) (a b : Nat → Bool → Bool) (c) :
    (applyParts h off len f a b c).size = h.size := by
  unfold applyParts
  repeat' split
  all_goals simp [wr_size, mapRange_size]

theorem ff_getElem (t : Nat) (ht : t < 8) : (255#8 : BitVec 8)[t] = true := by
  have h : ∀ t : Fin 8, (255#8 : BitVec 8).getLsbD t.val = true := by decide
  rw [← BitVec.getLsbD_eq_getElem]; exact h ⟨t, ht⟩

theorem Op_byte_getLsbD (op : Op) (x : Byte) (o : Bool) (t : Nat) (ht : t < 8) :
    (op.byte x (truefalse o)).getLsbD t = op.bool (x.getLsbD t) o := by
  have h1 : truefalse true = BitVec.allOnes 8 := by decide
  have h0 : truefalse false = 0#8 := by decide
  cases op <;> cases o <;> simp [Op.byte, Op.bool, h1, h0, ht, ff_getElem]

theorem Op_byte_getLsbD' (op : Op) (x y : Byte) (t : Nat) (ht : t < 8) :
    (op.byte x y).getLsbD t = op.bool (x.getLsbD t) (y.getLsbD t) := by
  cases op <;> simp [Op.byte, Op.bool, ht]


theorem WF.stop_eq {h : Heap} {p : PBA} (hwf : WF h p) : p.stop = ((p.start + p.n : Nat) : Int) := by
  obtain ⟨h1, h2, h3, h4, h5⟩ := hwf
  simp only [PBA.n]; omega

/-- What a bulk in-place method does, at bit level: the heap keeps its size, the bits of the
    view `p` are rewritten with `F` (absolute bit position, old value), all other bits are kept. -/
structure Rewrites (h h' : Heap) (p : PBA) (F : Nat → Bool → Bool) : Prop where
  size : h'.size = h.size
  bit : ∀ k, hbit h' k = if p.A ≤ k ∧ k < p.A + p.n then F k (hbit h k) else hbit h k

theorem applyParts_rewrites (h : Heap) (p : PBA) (hwf : WF h p) (f : FML) (hf : p.fml h false = .ok f)
    (firstF lastF : Nat → Bool → Bool) (midF : Heap → Nat → Byte → Byte) (F : Nat → Bool → Bool)
    (hfirst : ∀ t x, t < 8 → firstF t x = F (8 * p.off + t) x)
    (hlast : ∀ t x, t < 8 → lastF t x = F (8 * (p.off + p.len - 1) + t) x)
    (hmid : ∀ hc : Heap, hc.size = h.size → (∀ j, (j < p.off ∨ p.off + p.len ≤ j) → rdB hc j = rdB h j) →
      ∀ a b, f.mid = some (a, b) → ∀ i x t, i < b - a → t < 8 →
        (midF hc i x).getLsbD t = F (8 * (p.off + a + i) + t) (x.getLsbD t)) :
    Rewrites h (applyParts h p.off p.len f firstF lastF midF) p F := by
  have hs := hwf.stop_eq
  obtain ⟨h1, h2, h3, h4, h5⟩ := hwf
  refine ⟨applyParts_size _ _ _ _ _ _ _, fun k => ?_⟩
  unfold PBA.fml at hf
  rw [hs] at hf
  have := applyParts_hbit_raw h p.off p.len p.start (p.start + p.n) h1 (by omega) (by omega) (by omega) h5 f hf
    firstF lastF midF F hfirst hlast hmid k
  rw [this]
  simp only [PBA.A, Nat.add_assoc]

theorem PBA.fml_ok {h : Heap} {p : PBA} (hwf : WF h p) (mask : Bool) : ∃ f, p.fml h mask = .ok f := by
  have hs := hwf.stop_eq
  obtain ⟨h1, h2, h3, h4, h5⟩ := hwf
  unfold PBA.fml
  rw [hs]
  exact Packed.fml_ok _ _ _ _ _ (by omega) (by omega) (by omega)

theorem opBool_spec (h : Heap) (p : PBA) (hwf : WF h p) (op : Op) (o : Bool) :
    ∃ h', opBool h p op o = .ok h' ∧ Rewrites h h' p (fun _ x => op.bool x o) := by
  obtain ⟨f, hf⟩ := PBA.fml_ok hwf false
  have e : opBool h p op o = .ok (applyParts h p.off p.len f (fun _ x => op.bool x o)
      (fun _ x => op.bool x o) (fun _ _ x => op.byte x (truefalse o))) := by
    simp only [opBool, hf, bind, Except.bind, pure, Except.pure]
  refine ⟨_, e, ?_⟩
  exact applyParts_rewrites h p hwf f hf _ _ _ _ (fun _ _ _ => rfl) (fun _ _ _ => rfl)
    (fun _ _ _ _ _ _ _ x t _ ht => Op_byte_getLsbD op x o t ht)

/-- `np.asarray` of a view after a rewrite of that same view. -/
theorem toBools_rewrites {h h' : Heap} {p : PBA} {F} (hwf : WF h p) (R : Rewrites h h' p F) :
    WF h' p ∧ toBools h' p = (List.range p.n).map fun i => F (p.A + i) (hbit h (p.A + i)) := by
  have hwf' : WF h' p := by
    obtain ⟨h1, h2, h3, h4, h5⟩ := hwf
    exact ⟨h1, h2, h3, h4, by rw [R.size]; exact h5⟩
  refine ⟨hwf', ?_⟩
  rw [toBools_eq h' p hwf']
  apply List.map_congr_left
  intro i hi
  rw [R.bit, if_pos ⟨by omega, by have := List.mem_range.mp hi; omega⟩]

theorem fml_bounds (rd : Nat → Byte) (len start : Nat) (stop : Int) (mask : Bool) (f : FML)
    (hf : fml rd len start stop mask = .ok f) :
    (∀ a b, f.mid = some (a, b) → b ≤ len) ∧ (f.first.arr.isSome → 1 ≤ len) ∧ (f.last.arr.isSome → 1 ≤ len) := by
  unfold fml at hf
  simp only [Bool.and_eq_true, beq_iff_eq] at hf
  repeat' split at hf
  all_goals (cases hf <;> simp_all [Part.absent] <;> omega)

theorem applyParts_congr (h : Heap) (off len : Nat) (f : FML) (a a' b b' : Nat → Bool → Bool) (c)
    (ha : f.first.arr.isSome → a = a') (hb : f.last.arr.isSome → b = b') :
    applyParts h off len f a b c = applyParts h off len f a' b' c := by
  unfold applyParts
  cases h1 : f.first.arr <;> cases h2 : f.last.arr <;> simp_all

theorem applyParts_rewrites' (h : Heap) (p : PBA) (hwf : WF h p) (f : FML) (hf : p.fml h false = .ok f)
    (firstF lastF : Nat → Bool → Bool) (midF : Heap → Nat → Byte → Byte) (F : Nat → Bool → Bool)
    (hfirst : f.first.arr.isSome → ∀ t x, t < 8 → firstF t x = F (8 * p.off + t) x)
    (hlast : f.last.arr.isSome → ∀ t x, t < 8 → lastF t x = F (8 * (p.off + p.len - 1) + t) x)
    (hmid : ∀ hc : Heap, hc.size = h.size → (∀ j, (j < p.off ∨ p.off + p.len ≤ j) → rdB hc j = rdB h j) →
      ∀ a b, f.mid = some (a, b) → ∀ i x t, i < b - a → t < 8 →
        (midF hc i x).getLsbD t = F (8 * (p.off + a + i) + t) (x.getLsbD t)) :
    Rewrites h (applyParts h p.off p.len f firstF lastF midF) p F := by
  let firstF' : Nat → Bool → Bool := fun t x => if t < 8 then firstF t x else F (8 * p.off + t) x
  let lastF' : Nat → Bool → Bool := fun t x => if t < 8 then lastF t x else F (8 * (p.off + p.len - 1) + t) x
  by_cases c1 : f.first.arr.isSome <;> by_cases c2 : f.last.arr.isSome
  · exact applyParts_rewrites h p hwf f hf _ _ _ F (hfirst c1) (hlast c2) hmid
  · rw [applyParts_congr h p.off p.len f firstF firstF lastF (fun t x => F (8 * (p.off + p.len - 1) + t) x) midF
      (fun _ => rfl) (fun hh => absurd hh c2)]
    exact applyParts_rewrites h p hwf f hf _ _ _ F (hfirst c1) (fun _ _ _ => rfl) hmid
  · rw [applyParts_congr h p.off p.len f firstF (fun t x => F (8 * p.off + t) x) lastF lastF midF
      (fun hh => absurd hh c1) (fun _ => rfl)]
    exact applyParts_rewrites h p hwf f hf _ _ _ F (fun _ _ _ => rfl) (hlast c2) hmid
  · rw [applyParts_congr h p.off p.len f firstF (fun t x => F (8 * p.off + t) x) lastF
      (fun t x => F (8 * (p.off + p.len - 1) + t) x) midF (fun hh => absurd hh c1) (fun hh => absurd hh c2)]
    exact applyParts_rewrites h p hwf f hf _ _ _ F (fun _ _ _ => rfl) (fun _ _ _ => rfl) hmid

/-- When the operand's parts have the shape of the target's parts, `combineParts` does not raise. -/
theorem combineParts_eq (h : Heap) (p : PBA) (f g : FML) (rdo : Heap → Nat → Byte) (bitF) (byteF)
    (hmid : g.mid = f.mid) (h1 : f.first.arr.isSome → g.first.arr.isSome)
    (h2 : f.last.arr.isSome → g.last.arr.isSome) :
    combineParts h p f g rdo bitF byteF = .ok (applyParts h p.off p.len f
      (fun t x => bitF x ((g.first.arr.getD []).getD t false))
      (fun t x => bitF x ((g.last.arr.getD []).getD t false))
      (fun hc i x => byteF x (rdo hc ((match f.mid with | some (a, _) => a | none => 0) + i)))) := by
  unfold combineParts
  rw [hmid]
  cases hf1 : f.first.arr <;> cases hf2 : f.last.arr <;> cases hg1 : g.first.arr <;> cases hg2 : g.last.arr <;>
    simp_all [bind, Except.bind, pure, Except.pure] <;>
    (cases hm : f.mid <;> simp)

theorem hbit_byte (h : Heap) (j t : Nat) (ht : t < 8) : hbit h (8 * j + t) = (rdB h j).getLsbD t := by
  have h1 : (8 * j + t) / 8 = j := by omega
  have h2 : (8 * j + t) % 8 = t := by omega
  simp only [hbit, h1, h2]

/-- byte ranges of two views do not overlap -/
def Disjoint (p q : PBA) : Prop := p.off + p.len ≤ q.off ∨ q.off + q.len ≤ p.off

/-- the bit of operand `q` that lines up with absolute bit `k` of the aligned target `p` -/
def opnd (h : Heap) (p q : PBA) (k : Nat) : Bool := hbit h (k + 8 * q.off - 8 * p.off)

theorem combinePBA_spec (h : Heap) (p q : PBA) (hp : WF h p) (hq : WF h q)
    (hs : q.start = p.start) (he : q.stop = p.stop) (hd : Disjoint p q)
    (bitF : Bool → Bool → Bool) (byteF : Byte → Byte → Byte)
    (hbb : ∀ x y t, t < 8 → (byteF x y).getLsbD t = bitF (x.getLsbD t) (y.getLsbD t)) :
    ∃ f g h', p.fml h false = .ok f ∧ q.fml h false = .ok g ∧
      combineParts h p f g (fun hc i => rdB hc (q.off + i)) bitF byteF = .ok h' ∧
      Rewrites h h' p (fun k x => bitF x (opnd h p q k)) := by
  obtain ⟨f, hf⟩ := PBA.fml_ok hp false
  have hlen : q.len = p.len := by
    obtain ⟨_, _, a3, a4, _⟩ := hp; obtain ⟨_, _, b3, b4, _⟩ := hq; omega
  have hg := fml_false_shape _ (fun i => rdB h (q.off + i)) _ _ _ f hf
  have hb := fml_bounds _ _ _ _ _ f hf
  have hgq : q.fml h false = fml (fun i => rdB h (q.off + i)) p.len p.start p.stop false := by
    unfold PBA.fml; rw [hs, he, hlen]
  rw [hg] at hgq
  have e := combineParts_eq h p f
    ⟨⟨f.first.arr.map (fun _ => unpack (rdB h (q.off + 0))), f.first.lo, f.first.hi⟩, f.mid,
     ⟨f.last.arr.map (fun _ => unpack (rdB h (q.off + (p.len - 1)))), f.last.lo, f.last.hi⟩⟩
    (fun hc i => rdB hc (q.off + i)) bitF byteF rfl (by simp) (by simp)
  refine ⟨f, _, _, hf, hgq, e, ?_⟩
  apply applyParts_rewrites' h p hp f hf
  · intro c t x ht
    obtain ⟨a, ha⟩ := Option.isSome_iff_exists.mp c
    simp only [ha, Option.map_some, Option.getD_some, unpack_getD, opnd]
    have : 8 * p.off + t + 8 * q.off - 8 * p.off = 8 * (q.off + 0) + t := by omega
    rw [this, hbit_byte _ _ _ ht]
  · intro c t x ht
    obtain ⟨a, ha⟩ := Option.isSome_iff_exists.mp c
    have := hb.2.2 c
    simp only [ha, Option.map_some, Option.getD_some, unpack_getD, opnd]
    have : 8 * (p.off + p.len - 1) + t + 8 * q.off - 8 * p.off = 8 * (q.off + (p.len - 1)) + t := by omega
    rw [this, hbit_byte _ _ _ ht]
  · intro hc hsz hfr a b hm i x t hi ht
    have hb1 := hb.1 a b hm
    simp only [hm, hbb _ _ _ ht, opnd]
    have : 8 * (p.off + a + i) + t + 8 * q.off - 8 * p.off = 8 * (q.off + (a + i)) + t := by omega
    rw [this, hbit_byte _ _ _ ht, hfr]
    unfold Disjoint at hd
    omega

theorem opPBACore_spec (h : Heap) (p q : PBA) (hp : WF h p) (hq : WF h q)
    (hs : q.start = p.start) (he : q.stop = p.stop) (hd : Disjoint p q) (op : Op) :
    ∃ h', opPBACore h p q op = .ok h' ∧ Rewrites h h' p (fun k x => op.bool x (opnd h p q k)) := by
  obtain ⟨f, g, h', hf, hg, e, R⟩ := combinePBA_spec h p q hp hq hs he hd op.bool op.byte
    (fun x y t ht => Op_byte_getLsbD' op x y t ht)
  exact ⟨h', by simp only [opPBACore, hf, hg, bind, Except.bind]; exact e, R⟩

theorem WF.pyLen {h : Heap} {p : PBA} (hwf : WF h p) : p.pyLen = .ok p.n := by
  obtain ⟨h1, h2, h3, h4, h5⟩ := hwf
  unfold PBA.pyLen
  have : ¬ p.size < 0 := by simp only [PBA.size]; omega
  rw [if_neg this]; rfl

theorem Rewrites.refl_empty (h : Heap) (p : PBA) (F) (hn : p.n = 0) : Rewrites h h p F :=
  ⟨rfl, fun k => by rw [if_neg (by omega)]⟩

theorem Rewrites.congr {h h' : Heap} {p : PBA} {F F'} (R : Rewrites h h' p F)
    (hF : ∀ k x, p.A ≤ k → k < p.A + p.n → F k x = F' k x) : Rewrites h h' p F' :=
  ⟨R.size, fun k => by
    rw [R.bit]
    by_cases c : p.A ≤ k ∧ k < p.A + p.n
    · rw [if_pos c, if_pos c, hF k _ c.1 c.2]
    · rw [if_neg c, if_neg c]⟩

theorem truefalse_getLsbD (v : Bool) (t : Nat) (ht : t < 8) : (truefalse v).getLsbD t = v := by
  cases v
  · simp [truefalse]
  · simp only [truefalse, if_true, BitVec.getLsbD_eq_getElem ht]; exact ff_getElem t ht

theorem setSliceBool_spec (h : Heap) (p : PBA) (lo hi : Option Int) (t : PBA)
    (ht : slice p lo hi = .ok t) (hwt : WF h t) (v : Bool) :
    ∃ h', setSliceBool h p lo hi v = .ok h' ∧ Rewrites h h' t (fun _ _ => v) := by
  by_cases hn : t.n = 0
  · exact ⟨h, by simp [setSliceBool, ht, hwt.pyLen, hn, bind, Except.bind, pure, Except.pure],
      Rewrites.refl_empty h t _ hn⟩
  · obtain ⟨f, hf⟩ := PBA.fml_ok hwt false
    refine ⟨_, by simp [setSliceBool, ht, hwt.pyLen, hn, hf, bind, Except.bind, pure, Except.pure]; rfl, ?_⟩
    exact applyParts_rewrites h t hwt f hf _ _ _ _ (fun _ _ _ => rfl) (fun _ _ _ => rfl)
      (fun _ _ _ _ _ _ _ x t _ ht => truefalse_getLsbD v t ht)

theorem packBits_length (l : List Bool) : (packBits l).length = (l.length + 7) / 8 := by simp [packBits]

theorem packBits_getLsbD (l : List Bool) (i t : Nat) (ht : t < 8) :
    ((packBits l).getD i 0).getLsbD t = l.getD (8 * i + t) false := by
  simp only [packBits, List.getD_eq_getElem?_getD, List.getElem?_map]
  by_cases hi : i < (l.length + 7) / 8
  · simp only [List.getElem?_range hi, Option.map_some, Option.getD_some, pack_getLsbD, ht, decide_true,
      Bool.true_and, List.getD_eq_getElem?_getD, List.getElem?_take, List.getElem?_drop, if_true]
  · have h1 : (List.range ((l.length + 7) / 8))[i]? = none := by simp; omega
    have h2 : l[8 * i + t]? = none := by simp; omega
    simp [h1, h2]

theorem fromBoolData_getLsbD (s : Nat) (vals : List Bool) (i t : Nat) (ht : t < 8) :
    ((fromBoolData s vals).getD i 0).getLsbD t = (List.replicate s false ++ vals).getD (8 * i + t) false :=
  packBits_getLsbD _ i t ht

theorem setSliceArr_spec (h : Heap) (p : PBA) (lo hi : Option Int) (t : PBA)
    (ht : slice p lo hi = .ok t) (hwt : WF h t) (vals : List Bool) (hv : vals.length = t.n) :
    ∃ h', setSliceArr h p lo hi vals = .ok h' ∧ Rewrites h h' t (fun k _ => vals.getD (k - t.A) false) := by
  by_cases hn : t.n = 0
  · exact ⟨h, by simp [setSliceArr, ht, hwt.pyLen, hn, bind, Except.bind, pure, Except.pure],
      Rewrites.refl_empty h t _ hn⟩
  · obtain ⟨f, hf⟩ := PBA.fml_ok hwt false
    have hst := hwt.stop_eq
    have hwt' := hwt
    obtain ⟨a1, a2, a3, a4, a5⟩ := hwt
    have hvl : (fromBoolData t.start vals).length = t.len := by
      simp only [fromBoolData, packBits_length, List.length_append, List.length_replicate, hv]; omega
    have hbits := fromBoolData_getLsbD t.start vals
    have hstop : ((t.start : Int) + (t.n : Int)) = t.stop := by rw [hst]; omega
    have hb := fml_bounds _ _ _ _ _ f hf
    simp only [setSliceArr, ht, hwt'.pyLen, bind, Except.bind, pure, Except.pure, hf]
    simp only [hn, beq_iff_eq, if_false, hv, bne_self_eq_false, Bool.false_eq_true]
    generalize fromBoolData t.start vals = vb at hvl hbits ⊢
    have hg := fml_false_shape _ (fun i => vb.getD i 0) _ _ _ f hf
    have e := combineParts_eq h t f
      ⟨⟨f.first.arr.map (fun _ => unpack (vb.getD 0 0)), f.first.lo, f.first.hi⟩, f.mid,
       ⟨f.last.arr.map (fun _ => unpack (vb.getD (t.len - 1) 0)), f.last.lo, f.last.hi⟩⟩
      (fun _ i => vb.getD i 0) (fun _ o => o) (fun _ o => o) rfl (by simp) (by simp)
    have hinit : initData 0 vb.length true (some (t.start : Int)) (some ((t.start : Int) + t.n)) =
        .ok ⟨0, vb.length, t.start, (t.start : Int) + t.n, true⟩ := by
      simp only [initData, checkStart, bind, Except.bind, pure, Except.pure]
      rw [if_neg (by simp; omega)]
      simp only [Int.toNat_natCast]
      rw [if_neg (by simp; omega)]
    rw [hinit]
    simp only [hvl, hstop, hg]
    refine ⟨_, e, ?_⟩
    apply Rewrites.congr (F := fun k _ => (List.replicate t.start false ++ vals).getD (k - 8 * t.off) false)
    · apply applyParts_rewrites' h t hwt' f hf
      · intro c u x hu
        obtain ⟨a, ha⟩ := Option.isSome_iff_exists.mp c
        simp only [ha, Option.map_some, Option.getD_some, unpack_getD, hbits 0 u hu]
        congr 1; omega
      · intro c u x hu
        obtain ⟨a, ha⟩ := Option.isSome_iff_exists.mp c
        have := hb.2.2 c
        simp only [ha, Option.map_some, Option.getD_some, unpack_getD, hbits (t.len - 1) u hu]
        congr 1; omega
      · intro hc hsz hfr a b hm i x u hi hu
        simp only [hm, hbits (a + i) u hu]
        congr 1; omega
    · intro k x h1 h2
      simp only [PBA.A] at h1 h2 ⊢
      simp only [List.getD_eq_getElem?_getD]
      rw [List.getElem?_append_right (by simp; omega)]
      congr 2; simp; omega


theorem foldl_min_le (l : List Int) (acc : Int) : l.foldl min acc ≤ acc ∧ ∀ x ∈ l, l.foldl min acc ≤ x := by
  induction l generalizing acc with
  | nil => simp
  | cons y ys ih =>
    simp only [List.foldl_cons, List.mem_cons]
    have := ih (min acc y)
    refine ⟨by omega, fun x hx => ?_⟩
    rcases hx with rfl | hx
    · omega
    · exact this.2 x hx

theorem foldl_min_ge (l : List Int) (acc a : Int) (h1 : a ≤ acc) (h2 : ∀ x ∈ l, a ≤ x) : a ≤ l.foldl min acc := by
  induction l generalizing acc with
  | nil => simpa
  | cons y ys ih =>
    simp only [List.foldl_cons]
    exact ih _ (by have := h2 y (by simp); omega) (fun x hx => h2 x (by simp [hx]))

theorem foldl_max_ge (l : List Int) (acc : Int) : acc ≤ l.foldl max acc ∧ ∀ x ∈ l, x ≤ l.foldl max acc := by
  induction l generalizing acc with
  | nil => simp
  | cons y ys ih =>
    simp only [List.foldl_cons, List.mem_cons]
    have := ih (max acc y)
    refine ⟨by omega, fun x hx => ?_⟩
    rcases hx with rfl | hx
    · omega
    · exact this.2 x hx

theorem foldl_max_lt (l : List Int) (acc a : Int) (h1 : acc < a) (h2 : ∀ x ∈ l, x < a) : l.foldl max acc < a := by
  induction l generalizing acc with
  | nil => simpa
  | cons y ys ih =>
    simp only [List.foldl_cons]
    exact ih _ (by have := h2 y (by simp); omega) (fun x hx => h2 x (by simp [hx]))

/-- all indices inside `[0, n)` -/
def InRange (n : Nat) (locs : List Int) : Prop := ∀ l ∈ locs, 0 ≤ l ∧ l < n

theorem checkLocs_ok (h : Heap) (p : PBA) (hwf : WF h p) (locs : List Int) (hne : locs ≠ [])
    (hr : InRange p.n locs) :
    checkLocs p locs = .ok (locs.map fun l => (l + (p.start : Int)).toNat) := by
  obtain ⟨a1, a2, a3, a4, a5⟩ := hwf
  cases locs with
  | nil => exact absurd rfl hne
  | cons x xs =>
    have hx := hr x (by simp)
    have h1 : ¬ (minI (x :: xs) < 0) := by
      have := foldl_min_ge (x :: xs) x 0 hx.1 (fun y hy => (hr y hy).1)
      simp only [minI, List.headD_cons]; omega
    have h2 : ¬ (maxI (x :: xs) ≥ p.size) := by
      have := foldl_max_lt (x :: xs) x p.n hx.2 (fun y hy => (hr y hy).2)
      simp only [maxI, List.headD_cons, PBA.size]; simp only [PBA.n] at this; omega
    unfold checkLocs
    rw [if_neg (by simp only [Bool.or_eq_true, decide_eq_true_eq]; exact fun hh => hh.elim h1 h2)]
    rw [if_neg]
    simp only [List.any_eq_true, List.mem_map, decide_eq_true_eq, not_exists, not_and]
    rintro _ ⟨l, hl, rfl⟩
    have := hr l hl
    simp only [PBA.n] at this
    omega

theorem checkLocs_err (p : PBA) (locs : List Int) (l : Int) (hl : l ∈ locs) (hbad : l < 0 ∨ p.size ≤ l) :
    checkLocs p locs = .error .index := by
  unfold checkLocs
  rw [if_pos]
  simp only [Bool.or_eq_true, decide_eq_true_eq]
  cases locs with
  | nil => simp at hl
  | cons x xs =>
    have m1 := (foldl_min_le (x :: xs) x).2 l hl
    have m2 := (foldl_max_ge (x :: xs) x).2 l hl
    simp only [minI, maxI, List.headD_cons]
    omega

theorem or_bit_getLsbD (b : Byte) (t u : Nat) (ht : t < 8) (hu : u < 8) :
    (b ||| ((1 : Byte) <<< t)).getLsbD u = (b.getLsbD u || decide (u = t)) := by
  simp only [BitVec.getLsbD_or, BitVec.getLsbD_shiftLeft, BitVec.ofNat_eq_ofNat, BitVec.getLsbD_one]
  congr 1
  by_cases c : u = t
  · subst c; simp [hu]
  · by_cases c2 : u < t
    · simp [c, c2]
    · have : u - t ≠ 0 := by omega
      simp [c, this]

theorem andnot_bit_getLsbD (b : Byte) (t u : Nat) (ht : t < 8) (hu : u < 8) :
    (b &&& ~~~((1 : Byte) <<< t)).getLsbD u = (b.getLsbD u && !decide (u = t)) := by
  simp only [BitVec.getLsbD_and, BitVec.getLsbD_not, BitVec.getLsbD_shiftLeft, BitVec.ofNat_eq_ofNat, BitVec.getLsbD_one]
  congr 1
  by_cases c : u = t
  · subst c; simp [hu]
  · by_cases c2 : u < t
    · simp [c, c2, hu]
    · have : u - t ≠ 0 := by omega
      simp [c, this, hu]

theorem setFold_hbit (off : Nat) (ls : List Nat) (h : Heap) (hin : ∀ l ∈ ls, off + l / 8 < h.size) (k : Nat) :
    hbit (ls.foldl (fun h l => wr h (off + l / 8) (rdB h (off + l / 8) ||| ((1 : Byte) <<< (l % 8)))) h) k =
      (hbit h k || ls.any fun l => 8 * off + l == k) ∧
    (ls.foldl (fun h l => wr h (off + l / 8) (rdB h (off + l / 8) ||| ((1 : Byte) <<< (l % 8)))) h).size = h.size := by
  induction ls generalizing h with
  | nil => simp
  | cons l ls ih =>
    simp only [List.foldl_cons, List.any_cons]
    have hl := hin l (by simp)
    have := ih (wr h (off + l / 8) (rdB h (off + l / 8) ||| ((1 : Byte) <<< (l % 8))))
      (fun x hx => by rw [wr_size]; exact hin x (by simp [hx]))
    rw [this.1, this.2, wr_size]
    refine ⟨?_, rfl⟩
    rw [hbit_wr, ← Bool.or_assoc]
    congr 1
    have ht : k % 8 < 8 := Nat.mod_lt _ (by omega)
    by_cases c : k / 8 = off + l / 8
    · rw [if_pos ⟨c, hl⟩, or_bit_getLsbD _ _ _ (Nat.mod_lt _ (by omega)) ht]
      simp only [hbit, c]
      congr 1
      by_cases e : 8 * off + l = k
      · have : k % 8 = l % 8 := by omega
        simp [e, this]
      · have : ¬ k % 8 = l % 8 := by omega
        simp [e, this]
    · rw [if_neg (fun hh => c hh.1)]
      have : (8 * off + l == k) = false := by simp only [beq_eq_false_iff_ne, ne_eq]; omega
      simp [this]

theorem clearFold_hbit (off : Nat) (ls : List Nat) (h : Heap) (hin : ∀ l ∈ ls, off + l / 8 < h.size) (k : Nat) :
    hbit (ls.foldl (fun h l => wr h (off + l / 8) (rdB h (off + l / 8) &&& ~~~((1 : Byte) <<< (l % 8)))) h) k =
      (hbit h k && !(ls.any fun l => 8 * off + l == k)) ∧
    (ls.foldl (fun h l => wr h (off + l / 8) (rdB h (off + l / 8) &&& ~~~((1 : Byte) <<< (l % 8)))) h).size = h.size := by
  induction ls generalizing h with
  | nil => simp
  | cons l ls ih =>
    simp only [List.foldl_cons, List.any_cons]
    have hl := hin l (by simp)
    have := ih (wr h (off + l / 8) (rdB h (off + l / 8) &&& ~~~((1 : Byte) <<< (l % 8))))
      (fun x hx => by rw [wr_size]; exact hin x (by simp [hx]))
    rw [this.1, this.2, wr_size]
    refine ⟨?_, rfl⟩
    rw [hbit_wr, Bool.not_or, ← Bool.and_assoc]
    congr 1
    have ht : k % 8 < 8 := Nat.mod_lt _ (by omega)
    by_cases c : k / 8 = off + l / 8
    · rw [if_pos ⟨c, hl⟩, andnot_bit_getLsbD _ _ _ (Nat.mod_lt _ (by omega)) ht]
      simp only [hbit, c]
      congr 2
      by_cases e : 8 * off + l = k
      · have : k % 8 = l % 8 := by omega
        simp [e, this]
      · have : ¬ k % 8 = l % 8 := by omega
        simp [e, this]
    · rw [if_neg (fun hh => c hh.1)]
      have : (8 * off + l == k) = false := by simp only [beq_eq_false_iff_ne, ne_eq]; omega
      simp [this]


/-- does the index list `locs` (relative to view `p`) hit absolute bit `k` -/
def hits (p : PBA) (locs : List Int) (k : Nat) : Bool := locs.any fun l => p.A + l.toNat == k

theorem hits_outside (p : PBA) (locs : List Int) (hr : InRange p.n locs) (k : Nat)
    (hk : ¬ (p.A ≤ k ∧ k < p.A + p.n)) : hits p locs k = false := by
  simp only [hits, List.any_eq_false, beq_iff_eq]
  intro l hl
  have := hr l hl
  omega

theorem locs_in_heap (h : Heap) (p : PBA) (hwf : WF h p) (locs : List Int) (hr : InRange p.n locs) :
    ∀ l ∈ (locs.map fun l => (l + (p.start : Int)).toNat), p.off + l / 8 < h.size := by
  obtain ⟨a1, a2, a3, a4, a5⟩ := hwf
  intro x hx
  obtain ⟨l, hl, rfl⟩ := List.mem_map.mp hx
  have := hr l hl
  simp only [PBA.n] at this
  omega

theorem any_map_locs (p : PBA) (locs : List Int) (hr : InRange p.n locs) (k : Nat) :
    ((locs.map fun l => (l + (p.start : Int)).toNat).any fun l => 8 * p.off + l == k) = hits p locs k := by
  unfold hits
  induction locs with
  | nil => rfl
  | cons x xs ih =>
    simp only [List.map_cons, List.any_cons]
    rw [ih (fun l hl => hr l (by simp [hl]))]
    congr 1
    have := hr x (by simp)
    have e : 8 * p.off + (x + (p.start : Int)).toNat = p.A + x.toNat := by simp only [PBA.A]; omega
    rw [e]

theorem setBits_spec (h : Heap) (p : PBA) (hwf : WF h p) (locs : List Int) (hr : InRange p.n locs) :
    ∃ h', setBits h p locs = .ok h' ∧ Rewrites h h' p (fun k x => x || hits p locs k) := by
  by_cases hne : locs = []
  · subst hne
    exact ⟨h, rfl, rfl, fun k => by simp [hits]⟩
  · have hc := checkLocs_ok h p hwf locs hne hr
    have hf := setFold_hbit p.off _ h (locs_in_heap h p hwf locs hr)
    refine ⟨_, by simp only [setBits, List.isEmpty_iff, hne, if_false, hc, bind, Except.bind, pure, Except.pure],
      (hf 0).2, fun k => ?_⟩
    rw [(hf k).1, any_map_locs p locs hr]
    by_cases c : p.A ≤ k ∧ k < p.A + p.n
    · rw [if_pos c]
    · rw [if_neg c, hits_outside p locs hr k c, Bool.or_false]

theorem clearBits_spec (h : Heap) (p : PBA) (hwf : WF h p) (locs : List Int) (hr : InRange p.n locs) :
    ∃ h', clearBits h p locs = .ok h' ∧ Rewrites h h' p (fun k x => x && !hits p locs k) := by
  by_cases hne : locs = []
  · subst hne
    exact ⟨h, rfl, rfl, fun k => by simp [hits]⟩
  · have hc := checkLocs_ok h p hwf locs hne hr
    have hf := clearFold_hbit p.off _ h (locs_in_heap h p hwf locs hr)
    refine ⟨_, by simp only [clearBits, List.isEmpty_iff, hne, if_false, hc, bind, Except.bind, pure, Except.pure],
      (hf 0).2, fun k => ?_⟩
    rw [(hf k).1, any_map_locs p locs hr]
    by_cases c : p.A ≤ k ∧ k < p.A + p.n
    · rw [if_pos c]
    · rw [if_neg c, hits_outside p locs hr k c]; simp

theorem test_bit (b : Byte) (t : Nat) (ht : t < 8) : ((b &&& ((1 : Byte) <<< t)) != 0) = b.getLsbD t := by
  have h1 : (b &&& ((1 : Byte) <<< t)) = if b.getLsbD t then ((1 : Byte) <<< t) else 0 := by
    apply BitVec.eq_of_getLsbD_eq
    intro u hu
    simp only [BitVec.getLsbD_and, BitVec.getLsbD_shiftLeft, BitVec.ofNat_eq_ofNat, BitVec.getLsbD_one]
    by_cases c : u = t
    · subst c; cases hb : b.getLsbD u <;> simp [hu]
    · have : ¬ (u - t = 0 ∧ ¬ u < t) := by omega
      cases hb : b.getLsbD t <;> by_cases c2 : u < t <;> simp [c2, hu] <;> omega
  rw [h1]
  cases hb : b.getLsbD t
  · simp
  · simp only [if_true, bne_iff_ne, ne_eq]
    intro hz
    have := congrArg (fun x => x.getLsbD t) hz
    simp [ht] at this

theorem testBits_spec (h : Heap) (p : PBA) (hwf : WF h p) (locs : List Int) (hr : InRange p.n locs) :
    testBits h p locs = .ok (locs.map fun l => hbit h (p.A + l.toNat)) := by
  by_cases hne : locs = []
  · subst hne; rfl
  · have hc := checkLocs_ok h p hwf locs hne hr
    simp only [testBits, List.isEmpty_iff, hne, if_false, hc, bind, Except.bind, pure, Except.pure, List.map_map]
    congr 1
    apply List.map_congr_left
    intro l hl
    have := hr l hl
    simp only [Function.comp]
    rw [test_bit _ _ (Nat.mod_lt _ (by omega))]
    have e : p.A + l.toNat = 8 * (p.off + (l + (p.start : Int)).toNat / 8) + (l + (p.start : Int)).toNat % 8 := by
      simp only [PBA.A]; omega
    rw [e, hbit_byte _ _ _ (Nat.mod_lt _ (by omega))]


theorem rdB_append (h : Heap) (d : List Byte) (i : Nat) :
    rdB (h ++ d.toArray) i = if i < h.size then rdB h i else d.getD (i - h.size) 0 := by
  simp only [rdB, Array.getD_eq_getD_getElem?, Array.getElem?_append, List.getD_eq_getElem?_getD]
  split <;> simp

theorem hbit_append_old (h : Heap) (d : List Byte) (k : Nat) (hk : k < 8 * h.size) :
    hbit (h ++ d.toArray) k = hbit h k := by
  simp only [hbit, rdB_append]; rw [if_pos (by omega)]

theorem hbit_append_new (h : Heap) (d : List Byte) (j t : Nat) (ht : t < 8) :
    hbit (h ++ d.toArray) (8 * (h.size + j) + t) = (d.getD j 0).getLsbD t := by
  rw [hbit_byte _ _ _ ht, rdB_append, if_neg (by omega)]
  congr 2; omega

/-- a view survives an allocation at the end of the heap -/
theorem WF.append {h : Heap} {p : PBA} (hwf : WF h p) (d : List Byte) : WF (h ++ d.toArray) p := by
  obtain ⟨a1, a2, a3, a4, a5⟩ := hwf
  exact ⟨a1, a2, a3, a4, by simp; omega⟩

theorem toBools_append {h : Heap} {p : PBA} (hwf : WF h p) (d : List Byte) :
    toBools (h ++ d.toArray) p = toBools h p := by
  rw [toBools_eq _ _ (hwf.append d), toBools_eq _ _ hwf]
  apply List.map_congr_left
  intro i hi
  have := List.mem_range.mp hi
  obtain ⟨a1, a2, a3, a4, a5⟩ := hwf
  apply hbit_append_old
  simp only [PBA.A, PBA.n] at *
  omega

theorem fromBool_spec (h : Heap) (arr : List Bool) (s : Nat) (hs : s < 8) (start : Option Int)
    (hst : start = some (s : Int) ∨ (start = none ∧ s = 0)) :
    ∃ p, fromBool h arr start = .ok (h ++ (fromBoolData s arr).toArray, p) ∧
      WF (h ++ (fromBoolData s arr).toArray) p ∧ p.own = true ∧ p.start = s ∧ p.n = arr.length ∧
      p.off = h.size ∧ toBools (h ++ (fromBoolData s arr).toArray) p = arr := by
  have hl : (fromBoolData s arr).length = (s + arr.length + 7) / 8 := by
    simp [fromBoolData, packBits_length]
  have hwf : WF (h ++ (fromBoolData s arr).toArray) ⟨h.size, (fromBoolData s arr).length, s, (s : Int) + arr.length, true⟩ := by
    refine ⟨hs, ?_, ?_, ?_, ?_⟩ <;> simp [hl] <;> omega
  refine ⟨⟨h.size, (fromBoolData s arr).length, s, (s : Int) + arr.length, true⟩, ?_, hwf, rfl, rfl, ?_, rfl, ?_⟩
  · rcases hst with rfl | ⟨rfl, rfl⟩
    · simp only [fromBool, init, initData, checkStart, bind, Except.bind, pure, Except.pure, Option.isSome_some,
        Option.isSome_none, Bool.false_and, Bool.false_eq_true, if_false, Int.toNat_natCast]
      rw [if_neg (by omega), if_neg (by simp; omega)]
      dsimp only
      rw [if_neg (by simp [hl]; omega)]
    · simp only [fromBool, init, initData, checkStart, bind, Except.bind, pure, Except.pure, Option.isSome_some,
        Option.isSome_none, Bool.false_and, Bool.false_eq_true, if_false]
      rw [if_neg (by simp)]
      have : packBits arr = fromBoolData 0 arr := by simp [fromBoolData]
      simp only [this]
      rw [if_neg (by simp [hl]; omega)]
      simp
  · simp only [PBA.n]; omega
  · rw [toBools_eq _ _ hwf]
    have hn : (⟨h.size, (fromBoolData s arr).length, s, (s : Int) + arr.length, true⟩ : PBA).n = arr.length := by
      simp only [PBA.n]; omega
    rw [hn]
    apply List.ext_getElem?
    intro i
    by_cases hi : i < arr.length
    · simp only [List.getElem?_map, List.getElem?_range hi, Option.map_some, PBA.A]
      have e : 8 * h.size + s + i = 8 * (h.size + (s + i) / 8) + (s + i) % 8 := by omega
      rw [e, hbit_append_new _ _ _ _ (Nat.mod_lt _ (by omega)), fromBoolData_getLsbD _ _ _ _ (Nat.mod_lt _ (by omega))]
      have e2 : 8 * ((s + i) / 8) + (s + i) % 8 = s + i := by omega
      rw [e2, List.getD_eq_getElem?_getD, List.getElem?_append_right (by simp)]
      simp [hi]
    · simp [hi]


theorem getD_set (l : List Byte) (i j : Nat) (b : Byte) :
    (l.set i b).getD j 0 = if i = j ∧ i < l.length then b else l.getD j 0 := by
  simp only [List.getD_eq_getElem?_getD, List.getElem?_set]
  by_cases c : i = j
  · subst c
    by_cases c2 : i < l.length <;> simp [c2]
  · simp [c]

theorem maskFrom_pack_getLsbD (b : Byte) (lo hi t : Nat) (ht : t < 8) :
    (pack (maskFrom (unpack b) lo hi)).getLsbD t = (!decide (lo ≤ t ∧ t < hi) && b.getLsbD t) := by
  unfold maskFrom
  rw [byteMod_getLsbD _ _ _ _ _ ht]
  by_cases c : lo ≤ t ∧ t < hi <;> simp [c]

theorem maskFrom2_pack_getLsbD (b : Byte) (lo hi lo2 hi2 t : Nat) (ht : t < 8) :
    (pack (maskFrom (maskFrom (unpack b) lo hi) lo2 hi2)).getLsbD t =
      (!decide (lo2 ≤ t ∧ t < hi2) && (!decide (lo ≤ t ∧ t < hi) && b.getLsbD t)) := by
  unfold maskFrom
  rw [pack_getLsbD, setRange_getD _ _ _ _ _ (by simp [setRange_length, unpack_length, ht]),
    setRange_getD _ _ _ _ _ (by simp [unpack_length, ht]), unpack_getD]
  by_cases c : lo ≤ t ∧ t < hi <;> by_cases c2 : lo2 ≤ t ∧ t < hi2 <;> simp [c, c2, ht]

theorem copy_bytes_raw (h : Heap) (off len start e : Nat)
    (h1 : start < 8) (h2 : start ≤ e) (h3 : 8 * len ≤ e + 7) (h4 : e ≤ 8 * len)
    (f : FML) (hf : fml (fun i => rdB h (off + i)) len start (e : Int) true = .ok f)
    (dl : List Byte) (hdl : dl.length = len) (hd : ∀ j, j < len → dl.getD j 0 = rdB h (off + j)) :
    ∀ j t, j < len → t < 8 →
      ((maskedBuffer f dl).getD j 0).getLsbD t =
      (decide (start ≤ 8 * j + t ∧ 8 * j + t < e) && (rdB h (off + j)).getLsbD t) := by
  intro j t hj ht
  have hsm : ((e : Int) % 8).toNat = e % 8 := by omega
  unfold fml at hf
  simp only [Bool.and_eq_true, beq_iff_eq, if_true] at hf
  repeat' split at hf
  all_goals (cases hf)
  all_goals simp only [maskedBuffer, Part.absent, setLast, getD_set, List.length_set, hdl, hsm, Int.toNat_natCast]
  all_goals (repeat' split)
  all_goals (try (rename_i hc; obtain ⟨hc1, hc2⟩ := hc; subst hc1))
  all_goals (try rw [maskFrom2_pack_getLsbD _ _ _ _ _ _ ht])
  all_goals (try rw [maskFrom_pack_getLsbD _ _ _ _ ht])
  all_goals (try rw [hd _ hj])
  all_goals (generalize BitVec.getLsbD (rdB h _) t = x; cases x <;> simp <;> (try omega))
  all_goals (apply Bool.eq_iff_iff.mpr; simp only [Bool.or_eq_true, Bool.and_eq_true, Bool.not_eq_eq_eq_not,
    Bool.not_true, decide_eq_true_eq, decide_eq_false_iff_not]; omega)

theorem copy_len_raw (f : FML) (dl : List Byte) :
    (maskedBuffer f dl).length = dl.length := by
  unfold maskedBuffer
  cases f.first.arr <;> cases f.last.arr <;> simp [setLast]

theorem copy_spec (h : Heap) (p : PBA) (hwf : WF h p) :
    ∃ d : List Byte, copy h p = .ok (h ++ d.toArray, ⟨h.size, p.len, p.start, p.stop, true⟩) ∧ d.length = p.len ∧
      ∀ j t, j < p.len → t < 8 → (d.getD j 0).getLsbD t =
        (decide (p.start ≤ 8 * j + t ∧ 8 * j + t < p.start + p.n) && hbit h (8 * (p.off + j) + t)) := by
  obtain ⟨f, hf⟩ := PBA.fml_ok hwf true
  have hs := hwf.stop_eq
  have hwf' := hwf
  obtain ⟨a1, a2, a3, a4, a5⟩ := hwf
  have hdl := data_length h p a5
  have hd : ∀ j, j < p.len → (p.data h).getD j 0 = rdB h (p.off + j) := by
    intro j hj
    rw [List.getD_eq_getElem?_getD, data_getElem? h p a5, if_pos hj]; rfl
  have hlen := copy_len_raw f (p.data h)
  have hfr := hf
  unfold PBA.fml at hfr
  rw [hs] at hfr
  have hb := copy_bytes_raw h p.off p.len p.start (p.start + p.n) a1 (by omega) (by omega) (by omega) f hfr
    (p.data h) hdl hd
  refine ⟨_, ?_, hlen.trans hdl, ?_⟩
  · simp only [copy, hf, bind, Except.bind, pure, Except.pure, initData, checkStart]
    rw [if_neg (by simp; omega)]
    dsimp only
    rw [hlen, hdl, if_neg (by simp; omega)]
    simp
  · intro j t hj ht
    rw [hb j t hj ht, hbit_byte _ _ _ ht]


theorem bitCount_table :
    (List.range 256).all (fun n => (bitCount (BitVec.ofNat 8 n)).toNat == (unpack (BitVec.ofNat 8 n)).count true) = true := by
  decide +kernel

/-- The lookup-table formula of `_bit_count` gives the number of set bits, for all 256 bytes. -/
theorem bitCount_popcount (b : Byte) : (bitCount b).toNat = (unpack b).count true := by
  have h := List.all_eq_true.mp bitCount_table b.toNat (List.mem_range.mpr b.isLt)
  simp only [BitVec.ofNat_toNat, BitVec.setWidth_eq, beq_iff_eq] at h
  exact h

/-- number of set bits of the heap in the absolute bit range `[a, b)` -/
def cnt (h : Heap) (a b : Nat) : Nat := ((List.range (b - a)).map fun i => hbit h (a + i)).count true

theorem cnt_empty (h : Heap) (a b : Nat) (hab : b ≤ a) : cnt h a b = 0 := by
  have : b - a = 0 := by omega
  simp [cnt, this]

theorem cnt_split (h : Heap) (a m b : Nat) (h1 : a ≤ m) (h2 : m ≤ b) : cnt h a b = cnt h a m + cnt h m b := by
  have : b - a = (m - a) + (b - m) := by omega
  simp only [cnt, this, List.range_add, List.map_append, List.count_append, List.map_map]
  congr 2
  apply List.map_congr_left
  intro i _
  simp only [Function.comp]
  congr 1; omega

theorem cnt_byte (h : Heap) (j : Nat) : cnt h (8 * j) (8 * j + 8) = (bitCount (rdB h j)).toNat := by
  rw [bitCount_popcount]
  have : 8 * j + 8 - 8 * j = 8 := by omega
  simp only [cnt, this, unpack]
  congr 1
  apply List.map_congr_left
  intro i hi
  exact hbit_byte h j i (List.mem_range.mp hi)

theorem cnt_bytes (h : Heap) (j0 m : Nat) :
    ((List.range m).map fun i => (bitCount (rdB h (j0 + i))).toNat).sum = cnt h (8 * j0) (8 * (j0 + m)) := by
  induction m with
  | zero => simp [cnt]
  | succ m ih =>
    rw [List.range_succ, List.map_append, List.sum_append, ih]
    rw [cnt_split h (8 * j0) (8 * (j0 + m)) (8 * (j0 + (m + 1))) (by omega) (by omega)]
    congr 1
    simp only [List.map_cons, List.map_nil, List.sum_cons, List.sum_nil, Nat.add_zero]
    have : 8 * (j0 + (m + 1)) = 8 * (j0 + m) + 8 := by omega
    rw [this, cnt_byte]

/-- an unpacked byte of which only the bits `[lo, hi)` were kept -/
theorem cnt_part (h : Heap) (j lo hi : Nat) (arr : List Bool) (hlen : arr.length = 8) (hlh : lo ≤ hi) (hh : hi ≤ 8)
    (harr : ∀ t, t < 8 → arr.getD t false = (decide (lo ≤ t ∧ t < hi) && (rdB h j).getLsbD t)) :
    countTrue arr = cnt h (8 * j + lo) (8 * j + hi) := by
  have e : arr = (List.range 8).map fun t => arr.getD t false := by
    apply List.ext_getElem?
    intro i
    by_cases hi8 : i < 8
    · simp [hi8, hlen, List.getD_eq_getElem?_getD]
    · simp [hi8, hlen]
  have h8 : 8 = lo + ((hi - lo) + (8 - hi)) := by omega
  rw [countTrue, e]
  conv => lhs; rw [h8]
  simp only [List.range_add, List.map_append, List.count_append, List.map_map]
  have z1 : ((List.range lo).map fun t => arr.getD t false).count true = 0 := by
    rw [List.count_eq_zero]
    simp only [List.mem_map, List.mem_range, not_exists, not_and]
    intro t ht
    rw [harr t (by omega)]; simp; omega
  have z3 : (List.map ((fun t => arr.getD t false) ∘ (fun x => lo + x) ∘ fun x => hi - lo + x) (List.range (8 - hi))).count true = 0 := by
    rw [List.count_eq_zero]
    simp only [List.mem_map, List.mem_range, not_exists, not_and, Function.comp]
    intro t ht
    rw [harr _ (by omega)]; simp; omega
  rw [z1, z3, Nat.zero_add, Nat.add_zero]
  have : 8 * j + hi - (8 * j + lo) = hi - lo := by omega
  simp only [cnt, this]
  congr 1
  apply List.map_congr_left
  intro i hi'
  have := List.mem_range.mp hi'
  simp only [Function.comp]
  rw [harr _ (by omega)]
  have e2 : 8 * j + lo + i = 8 * j + (lo + i) := by omega
  rw [e2, hbit_byte _ _ _ (by omega)]
  simp; omega

theorem maskFrom_length (l : List Bool) (lo hi : Nat) : (maskFrom l lo hi).length = l.length := by
  simp [maskFrom, setRange_length]

theorem maskFrom_getD (l : List Bool) (lo hi t : Nat) (ht : t < l.length) :
    (maskFrom l lo hi).getD t false = (!decide (lo ≤ t ∧ t < hi) && l.getD t false) := by
  unfold maskFrom
  rw [setRange_getD _ _ _ _ _ ht]
  by_cases c : lo ≤ t ∧ t < hi <;> simp [c]

theorem cnt_last (h : Heap) (j sm : Nat) (hsm : sm ≤ 8) :
    countTrue (maskFrom (unpack (rdB h j)) sm 8) = cnt h (8 * j) (8 * j + sm) := by
  have := cnt_part h j 0 sm (maskFrom (unpack (rdB h j)) sm 8) (by simp [maskFrom_length, unpack_length])
    (by omega) hsm (by
      intro t ht
      rw [maskFrom_getD _ _ _ _ (by simp [unpack_length, ht]), unpack_getD]
      congr 1
      apply Bool.eq_iff_iff.mpr; simp; omega)
  simpa using this

theorem cnt_first (h : Heap) (j start : Nat) (hs : start ≤ 8) :
    countTrue (maskFrom (unpack (rdB h j)) 0 start) = cnt h (8 * j + start) (8 * j + 8) := by
  exact cnt_part h j start 8 (maskFrom (unpack (rdB h j)) 0 start) (by simp [maskFrom_length, unpack_length])
    hs (by omega) (by
      intro t ht
      rw [maskFrom_getD _ _ _ _ (by simp [unpack_length, ht]), unpack_getD]
      congr 1
      apply Bool.eq_iff_iff.mpr; simp; omega)

theorem cnt_first2 (h : Heap) (j start e : Nat) (hs : start ≤ e) (he : e ≤ 8) :
    countTrue (maskFrom (maskFrom (unpack (rdB h j)) 0 start) e 8) = cnt h (8 * j + start) (8 * j + e) := by
  exact cnt_part h j start e _ (by simp [maskFrom_length, unpack_length])
    hs he (by
      intro t ht
      rw [maskFrom_getD _ _ _ _ (by simp [maskFrom_length, unpack_length, ht]),
        maskFrom_getD _ _ _ _ (by simp [unpack_length, ht]), unpack_getD, ← Bool.and_assoc]
      congr 1
      apply Bool.eq_iff_iff.mpr; simp; omega)

theorem sum_raw (h : Heap) (off len start e : Nat)
    (h1 : start < 8) (h2 : start ≤ e) (h3 : 8 * len ≤ e + 7) (h4 : e ≤ 8 * len)
    (f : FML) (hf : fml (fun i => rdB h (off + i)) len start (e : Int) true = .ok f) :
    sumParts h off f = cnt h (8 * off + start) (8 * off + e) := by
  have hsm : ((e : Int) % 8).toNat = e % 8 := by omega
  unfold fml at hf
  simp only [Bool.and_eq_true, beq_iff_eq, if_true] at hf
  repeat' split at hf
  all_goals (cases hf)
  all_goals simp only [sumParts, Part.absent, hsm, Int.toNat_natCast, Nat.zero_add, Nat.add_zero]
  · -- fully aligned
    rw [cnt_bytes]; congr 1 <;> omega
  · -- aligned at 0, short
    rw [cnt_last _ _ _ (by omega)]; congr 1 <;> omega
  · -- aligned at 0, longer
    rw [cnt_last _ _ _ (by omega), cnt_bytes, Nat.add_comm,
      cnt_split h (8 * off + start) (8 * (off + (len - 1))) (8 * off + e) (by omega) (by omega)]
    congr 1 <;> congr 1 <;> omega
  · -- unaligned start, aligned end, one byte
    rw [cnt_first _ _ _ (by omega)]; congr 1; omega
  · -- unaligned start, aligned end, longer
    rw [cnt_first _ _ _ (by omega), cnt_bytes,
      cnt_split h (8 * off + start) (8 * off + 8) (8 * off + e) (by omega) (by omega)]
    congr 1; congr 1 <;> omega
  · -- one byte, unaligned at both ends
    rw [cnt_first2 _ _ _ _ (by omega) (by omega)]
  · -- two bytes, unaligned at both ends
    rw [cnt_first _ _ _ (by omega), cnt_last _ _ _ (by omega),
      cnt_split h (8 * off + start) (8 * off + 8) (8 * off + e) (by omega) (by omega)]
    congr 1; congr 1 <;> omega
  · -- long, unaligned at both ends
    rw [cnt_first _ _ _ (by omega), cnt_last _ _ _ (by omega), cnt_bytes, Nat.add_right_comm,
      cnt_split h (8 * off + start) (8 * (off + (len - 1))) (8 * off + e) (by omega) (by omega),
      cnt_split h (8 * off + start) (8 * off + 8) (8 * (off + (len - 1))) (by omega) (by omega)]
    congr 1
    · congr 1; congr 1 <;> omega
    · congr 1 <;> omega

theorem toBools_count (h : Heap) (p : PBA) (hwf : WF h p) :
    (toBools h p).count true = cnt h p.A (p.A + p.n) := by
  rw [toBools_eq h p hwf, cnt]
  have : p.A + p.n - p.A = p.n := by omega
  rw [this]

theorem sum_spec (h : Heap) (p : PBA) (hwf : WF h p) : sum h p = .ok ((toBools h p).count true) := by
  obtain ⟨f, hf⟩ := PBA.fml_ok hwf true
  have hs := hwf.stop_eq
  have hwf' := hwf
  obtain ⟨a1, a2, a3, a4, a5⟩ := hwf
  have hfr := hf
  unfold PBA.fml at hfr
  rw [hs] at hfr
  have := sum_raw h p.off p.len p.start (p.start + p.n) a1 (by omega) (by omega) (by omega) f hfr
  simp only [sum, hf, bind, Except.bind, pure, Except.pure, this, toBools_count h p hwf', PBA.A, Nat.add_assoc]


/-- the padding bits after the last element, inside the view's own bytes, are zero -/
def PadZero (h : Heap) (p : PBA) : Prop := ∀ k, p.A + p.n ≤ k → k < 8 * (p.off + p.len) → hbit h k = false

/-- how many of the three parts contain bit `k` (counted from bit 0 of `self._data[0]`) -/
def FML.cover (f : FML) (len : Nat) (k : Nat) : Nat :=
  (if f.first.arr.isSome ∧ k / 8 = 0 ∧ f.first.lo ≤ k % 8 ∧ k % 8 < f.first.hi then 1 else 0) +
  (match f.mid with
    | some (a, b) => if a ≤ k / 8 ∧ k / 8 < b then 1 else 0
    | none => 0) +
  (if f.last.arr.isSome ∧ k / 8 = len - 1 ∧ f.last.lo ≤ k % 8 ∧ k % 8 < f.last.hi then 1 else 0)

theorem fml_cover_raw (rd : Nat → Byte) (len start e : Nat) (mask : Bool)
    (h1 : start < 8) (h3 : 8 * len ≤ e + 7) (h4 : e ≤ 8 * len)
    (f : FML) (hf : fml rd len start (e : Int) mask = .ok f) (k : Nat) :
    f.cover len k = if start ≤ k ∧ k < e then 1 else 0 := by
  have hsm : ((e : Int) % 8).toNat = e % 8 := by omega
  unfold fml at hf
  simp only [Bool.and_eq_true, beq_iff_eq] at hf
  repeat' split at hf
  all_goals (cases hf)
  all_goals simp only [FML.cover, Part.absent, hsm, Int.toNat_natCast, Option.isSome_some, Option.isSome_none,
    Bool.false_eq_true, false_and, true_and, if_false]
  all_goals (repeat' split)
  all_goals omega


theorem getElem?_set' {α} (l : List α) (i j : Nat) (a : α) :
    (l.set i a)[j]? = if i = j then (l[j]?).map (fun _ => a) else l[j]? := by
  rw [List.getElem?_set]
  by_cases c : i = j
  · subst c
    by_cases c2 : i < l.length
    · simp [c2]
    · simp [c2]
  · simp [c]

/-- numpy `a[idx] = v` (scalar `v`) -/
def npSetIdxBool (l : List Bool) (idx : List Nat) (v : Bool) : List Bool := idx.foldl (fun l i => l.set i v) l

/-- numpy `a[idx] = vals`: sequential assignment, the last occurrence of an index wins -/
def npSetIdx (l : List Bool) (idx : List Nat) (vals : List Bool) : List Bool :=
  (idx.zip vals).foldl (fun l iv => l.set iv.1 iv.2) l

theorem npSetIdxBool_getElem? (idx : List Nat) (v : Bool) (l0 : List Bool) (j : Nat) :
    (npSetIdxBool l0 idx v)[j]? = if j ∈ idx then (l0[j]?).map (fun _ => v) else l0[j]? := by
  unfold npSetIdxBool
  induction idx generalizing l0 with
  | nil => simp
  | cons i rest ih =>
    simp only [List.foldl_cons, ih, getElem?_set', List.mem_cons]
    by_cases c1 : j ∈ rest <;> by_cases c2 : i = j
    · subst c2; cases l0[i]? <;> simp [c1]
    · have : ¬ j = i := fun hh => c2 hh.symm
      simp [c1, c2]
    · subst c2; simp [c1]
    · have : ¬ j = i := fun hh => c2 hh.symm
      simp [c1, c2, this]

/-- all occurrences of an index carry the same value -/
def Consistent (ivs : List (Nat × Bool)) : Prop := ∀ a ∈ ivs, ∀ b ∈ ivs, a.1 = b.1 → a.2 = b.2

theorem foldl_set_pairs_getElem? (ivs : List (Nat × Bool)) (hc : Consistent ivs) (l0 : List Bool) (j : Nat) :
    (ivs.foldl (fun l iv => l.set iv.1 iv.2) l0)[j]? =
      match ivs.find? (fun iv => iv.1 == j) with
      | some iv => (l0[j]?).map (fun _ => iv.2)
      | none => l0[j]? := by
  induction ivs generalizing l0 with
  | nil => simp
  | cons iv rest ih =>
    have hc' : Consistent rest := fun a ha b hb => hc a (by simp [ha]) b (by simp [hb])
    simp only [List.foldl_cons, ih hc', getElem?_set', List.find?_cons]
    by_cases c : iv.1 = j
    · simp only [c, beq_self_eq_true, if_true]
      cases hf : rest.find? (fun iv => iv.1 == j) with
      | none => simp
      | some iv' =>
        have hm := List.mem_of_find?_eq_some hf
        have hj := List.find?_some hf
        simp only [beq_iff_eq] at hj
        have := hc iv (by simp) iv' (by simp [hm]) (by rw [c, hj])
        cases l0[j]? <;> simp [this]
    · have : (iv.1 == j) = false := by simp [c]
      simp only [this, c, if_false]

theorem hits_ofNat (p : PBA) (idx : List Nat) (j : Nat) :
    hits p (idx.map Int.ofNat) (p.A + j) = decide (j ∈ idx) := by
  unfold hits
  induction idx with
  | nil => simp
  | cons i rest ih =>
    simp only [List.map_cons, List.any_cons, ih, List.mem_cons]
    by_cases c : j = i
    · subst c; simp
    · have : ¬ i = j := fun hh => c hh.symm
      simp [c, this]

theorem inRange_ofNat (n : Nat) (idx : List Nat) (h : ∀ i ∈ idx, i < n) : InRange n (idx.map Int.ofNat) := by
  intro l hl
  obtain ⟨i, hi, rfl⟩ := List.mem_map.mp hl
  have := h i hi
  simp; omega


theorem Rewrites.wf {h h' : Heap} {p : PBA} {F} (R : Rewrites h h' p F) {w : PBA} (hw : WF h w) : WF h' w := by
  obtain ⟨a1, a2, a3, a4, a5⟩ := hw
  exact ⟨a1, a2, a3, a4, by rw [R.size]; exact a5⟩

/-- A write through the view `v` (elements `[L, E)` of `p`) seen through `p`. -/
theorem toBools_rewrites_parent {h h' : Heap} {p v : PBA} {F} (hp : WF h p) (hv : WF h v)
    (R : Rewrites h h' v F) (L E : Nat) (hA : v.A = p.A + L) (hn : v.n = E - L) (hLE : L ≤ E) (hE : E ≤ p.n) :
    toBools h' p = (toBools h p).take L ++ toBools h' v ++ (toBools h p).drop E := by
  have hp' := R.wf hp
  have hv' := R.wf hv
  apply List.ext_getElem?
  intro i
  rw [List.append_assoc, List.getElem?_append, List.getElem?_append, List.length_take, toBools_length _ _ hp,
    toBools_length _ _ hv', List.getElem?_take, List.getElem?_drop,
    toBools_getElem? _ _ hp', toBools_getElem? _ _ hv', toBools_getElem? _ _ hp, toBools_getElem? _ _ hp, R.bit]
  have hm : min L p.n = L := by omega
  rw [hm]
  by_cases c1 : i < L
  · simp only [c1, if_true, show i < p.n by omega]
    rw [if_neg (by omega)]
  · by_cases c2 : i < E
    · simp only [c1, if_false, show i - L < v.n by omega, show i < p.n by omega, if_true]
      have e : v.A + (i - L) = p.A + i := by omega
      rw [if_pos (by omega), R.bit, if_pos (by omega), e]
    · simp only [c1, if_false, show ¬ i - L < v.n by omega]
      have e : E + (i - L - v.n) = i := by omega
      rw [e]
      by_cases c3 : i < p.n
      · simp only [c3, if_true]; rw [if_neg (by omega)]
      · simp only [c3, if_false]

/-- A view whose bits are all outside the rewritten range does not change. -/
theorem toBools_rewrites_frame {h h' : Heap} {v w : PBA} {F} (hw : WF h w) (R : Rewrites h h' v F)
    (hd : w.A + w.n ≤ v.A ∨ v.A + v.n ≤ w.A) : toBools h' w = toBools h w := by
  rw [toBools_eq _ _ (R.wf hw), toBools_eq _ _ hw]
  apply List.map_congr_left
  intro i hi
  have := List.mem_range.mp hi
  rw [R.bit, if_neg (by omega)]

theorem getInt_spec (h : Heap) (p : PBA) (hwf : WF h p) (i : Nat) (hi : i < p.n) :
    getInt h p i = .ok ((toBools h p).getD i false) := by
  have := testBits_spec h p hwf [(i : Int)] (by intro l hl; simp at hl; subst hl; omega)
  simp only [getInt, this, bind, Except.bind, pure, Except.pure, List.map_cons, List.map_nil, List.headD_cons,
    Int.toNat_natCast]
  rw [List.getD_eq_getElem?_getD, toBools_getElem? _ _ hwf, if_pos hi]; rfl

theorem getIdx_spec (h : Heap) (p : PBA) (hwf : WF h p) (idx : List Nat) (hr : ∀ i ∈ idx, i < p.n) :
    getIdx h p (idx.map Int.ofNat) = .ok (idx.map fun i => (toBools h p).getD i false) := by
  simp only [getIdx, Bool.false_and, Bool.false_eq_true, if_false,
    testBits_spec h p hwf _ (inRange_ofNat p.n idx hr), List.map_map]
  congr 1
  apply List.map_congr_left
  intro i hi
  simp only [Function.comp, Int.toNat_natCast, Int.ofNat_eq_natCast]
  rw [List.getD_eq_getElem?_getD, toBools_getElem? _ _ hwf, if_pos (hr i hi)]; rfl

theorem dataArray_spec (h : Heap) (p : PBA) :
    dataArray h p = if p.start = 0 then .ok (p.data h) else .error .notImpl := by
  unfold dataArray
  by_cases c : p.start = 0
  · have h1 : (p.start != 0 || p.stop != p.size) = false := by simp [c, PBA.size]
    rw [if_neg (by rw [h1]; simp), if_pos c]
  · have h1 : (p.start != 0 || p.stop != p.size) = true := by simp [c]
    rw [if_pos h1, if_neg c]


/-- a boolean array as 0/1 numbers -/
def bitsNat (l : List Bool) : List Nat := l.map fun b => if b then 1 else 0

theorem count_true_eq_sum (l : List Bool) : l.count true = (bitsNat l).sum := by
  induction l with
  | nil => rfl
  | cons b bs ih => cases b <;> simp [bitsNat] at ih ⊢ <;> omega

theorem prodL_foldl (l : List Nat) (a : Nat) : l.foldl (· * ·) a = a * prodL l := by
  unfold prodL
  induction l generalizing a with
  | nil => simp
  | cons x xs ih => simp only [List.foldl_cons]; rw [ih, ih (1 * x)]; simp [Nat.mul_assoc]

theorem prodL_append_single (l : List Nat) (x : Nat) : prodL (l ++ [x]) = prodL l * x := by
  simp only [prodL, List.foldl_append, List.foldl_cons, List.foldl_nil]

theorem sum_range_add (g : Nat → Nat) (a b : Nat) :
    ((List.range (a + b)).map g).sum = ((List.range a).map g).sum + ((List.range b).map fun i => g (a + i)).sum := by
  simp [List.range_add, List.map_append, List.sum_append, List.map_map, Function.comp_def]

theorem sum_group8 (g : Nat → Nat) (base c : Nat) :
    ((List.range c).map fun a => ((List.range 8).map fun t => g (8 * (base + a) + t)).sum).sum =
      ((List.range (8 * c)).map fun b => g (8 * base + b)).sum := by
  induction c with
  | zero => simp
  | succ c ih =>
    have e : 8 * (c + 1) = 8 * c + 8 := by omega
    rw [e, sum_range_add (fun b => g (8 * base + b)) (8 * c) 8, ← ih,
      show List.range (c + 1) = List.range c ++ [c] from List.range_succ, List.map_append, List.sum_append]
    congr 1
    simp only [List.map_cons, List.map_nil, List.sum_cons, List.sum_nil, Nat.add_zero]
    congr 1
    apply List.map_congr_left
    intro t _
    congr 1; omega

theorem getD_map_range (g : Nat → Nat) (n j : Nat) :
    ((List.range n).map g).getD j 0 = if j < n then g j else 0 := by
  rw [List.getD_eq_getElem?_getD, List.getElem?_map]
  by_cases c : j < n
  · simp [c]
  · simp [c]

/-- `sumAxis` over the last axis: `shape = init ++ [A]`. -/
theorem sumAxis_last (x : List Nat) (init : List Nat) (A : Nat) :
    sumAxis x (init ++ [A]) init.length =
      (List.range (prodL init)).map fun o => ((List.range A).map fun a => x.getD (o * A + a) 0).sum := by
  unfold sumAxis
  have h1 : (init ++ [A]).take init.length = init := by simp
  have h2 : (init ++ [A]).getD init.length 1 = A := by simp [List.getD_eq_getElem?_getD]
  have h3 : (init ++ [A]).drop (init.length + 1) = [] := by simp
  simp only [h1, h2, h3, show prodL [] = 1 from rfl, Nat.mul_one, Nat.div_one, Nat.mod_one, Nat.add_zero]

/-- the per-byte counts of an aligned array against its elements -/
theorem sumAxis_last_packed (x temp : List Nat) (init : List Nat) (c : Nat)
    (ht : ∀ j, temp.getD j 0 = ((List.range 8).map fun t => x.getD (8 * j + t) 0).sum) :
    sumAxis temp (init ++ [c]) init.length = sumAxis x (init ++ [8 * c]) init.length := by
  rw [sumAxis_last, sumAxis_last]
  apply List.map_congr_left
  intro o _
  have := sum_group8 (fun i => x.getD i 0) (o * c) c
  simp only [ht]
  rw [this]
  apply congrArg
  apply List.map_congr_left
  intro b _
  congr 1
  rw [Nat.mul_left_comm]

theorem data_eq_map (h : Heap) (p : PBA) (hin : p.off + p.len ≤ h.size) :
    p.data h = (List.range p.len).map fun i => rdB h (p.off + i) := by
  apply List.ext_getElem?
  intro i
  rw [data_getElem? h p hin]
  by_cases c : i < p.len
  · simp [c]
  · simp [c]

/-- facts shared by the reshaped sums of an aligned array -/
theorem aligned_counts (h : Heap) (p : PBA) (hwf : WF h p) (h0 : p.start = 0) (h8 : p.stop % 8 = 0) :
    p.n = 8 * p.len ∧
    (∀ j, ((p.data h).map fun b => (bitCount b).toNat).getD j 0 =
      ((List.range 8).map fun t => (bitsNat (toBools h p)).getD (8 * j + t) 0).sum) ∧
    ((p.data h).map fun b => (bitCount b).toNat).length = p.len := by
  have hwf' := hwf
  obtain ⟨a1, a2, a3, a4, a5⟩ := hwf
  have hn : p.n = 8 * p.len := by simp only [PBA.n]; omega
  refine ⟨hn, fun j => ?_, by simp [data_length h p a5]⟩
  rw [data_eq_map h p a5, List.map_map, getD_map_range]
  have hx : ∀ i, (bitsNat (toBools h p)).getD i 0 = if i < p.n then (if hbit h (p.A + i) then 1 else 0) else 0 := by
    intro i
    simp only [bitsNat, List.getD_eq_getElem?_getD, List.getElem?_map, toBools_getElem? h p hwf']
    by_cases c : i < p.n <;> simp [c]
  by_cases c : j < p.len
  · simp only [c, if_true, Function.comp, bitCount_popcount, count_true_eq_sum, bitsNat, unpack, List.map_map]
    congr 1
    apply List.map_congr_left
    intro t ht
    have ht8 := List.mem_range.mp ht
    simp only [Function.comp]
    have e : p.A + (8 * j + t) = 8 * (p.off + j) + t := by simp only [PBA.A]; omega
    have hx' := hx (8 * j + t)
    simp only [bitsNat] at hx'
    rw [hx', if_pos (show 8 * j + t < p.n by omega), e, hbit_byte _ _ _ ht8]
  · simp only [c, if_false]
    have : ((List.range 8).map fun t => (bitsNat (toBools h p)).getD (8 * j + t) 0) = (List.range 8).map fun _ => 0 := by
      apply List.map_congr_left
      intro t _
      rw [hx, if_neg (by omega)]
    rw [this]; rfl

/-- element-wise combination with the aligned operand, as lists -/
theorem zipWith_toBools (h : Heap) (p q : PBA) (hp : WF h p) (hq : WF h q) (hs : q.start = p.start)
    (he : q.stop = p.stop) (g : Bool → Bool → Bool) :
    ((List.range p.n).map fun i => g (hbit h (p.A + i)) (opnd h p q (p.A + i))) =
      List.zipWith g (toBools h p) (toBools h q) := by
  have hn : q.n = p.n := by simp only [PBA.n, hs, he]
  apply List.ext_getElem?
  intro i
  rw [List.getElem?_zipWith, toBools_getElem? _ _ hp, toBools_getElem? _ _ hq, hn]
  by_cases c : i < p.n
  · simp only [List.getElem?_map, List.getElem?_range c, Option.map_some, c, if_true, opnd]
    have : p.A + i + 8 * q.off - 8 * p.off = q.A + i := by simp only [PBA.A, hs]; omega
    rw [this]
  · simp [c]



theorem init_sized_spec (h : Heap) (n s : Nat) (hs : s < 8) :
    ∃ p, init h (some (n : Int)) none (some (s : Int)) none =
        .ok (h ++ (List.replicate ((n + s + 7) / 8) (0 : Byte)).toArray, p) ∧
      WF (h ++ (List.replicate ((n + s + 7) / 8) (0 : Byte)).toArray) p ∧ p.own = true ∧ p.start = s ∧ p.n = n ∧
      p.off = h.size ∧
      toBools (h ++ (List.replicate ((n + s + 7) / 8) (0 : Byte)).toArray) p = List.replicate n false := by
  have hlen : (((n : Int) + s) / 8 + if ((n : Int) + s) % 8 = 0 then 0 else 1).toNat = (n + s + 7) / 8 := by
    split <;> omega
  have hpos : ¬ (((n : Int) + s) / 8 + if ((n : Int) + s) % 8 = 0 then 0 else 1) < 0 := by
    split <;> omega
  refine ⟨⟨h.size, (n + s + 7) / 8, s, (n : Int) + s, true⟩, ?_, ?_, rfl, rfl, ?_, rfl, ?_⟩
  · simp only [init, checkStart, bind, Except.bind, pure, Except.pure, Option.isSome_some, Option.isSome_none,
      Bool.and_false, Bool.false_eq_true, if_false, Option.getD_some, beq_iff_eq, Int.toNat_natCast]
    rw [if_neg (by simp; omega)]
    have hneg : ¬ ((n : Int) < 0) := by omega
    simp only [hneg, hpos, if_false, hlen, Array.replicate_eq_toArray_replicate]
  · refine ⟨hs, ?_, ?_, ?_, ?_⟩ <;> simp <;> omega
  · simp [PBA.n]
  · rw [toBools_eq _ _ (by refine ⟨hs, ?_, ?_, ?_, ?_⟩ <;> simp <;> omega)]
    have hn : (⟨h.size, (n + s + 7) / 8, s, (n : Int) + s, true⟩ : PBA).n = n := by simp [PBA.n]
    rw [hn]
    apply List.ext_getElem?
    intro i
    by_cases hi : i < n
    · simp only [List.getElem?_map, List.getElem?_range hi, Option.map_some, List.getElem?_replicate, hi, if_true, PBA.A]
      have e : 8 * h.size + s + i = 8 * (h.size + (s + i) / 8) + (s + i) % 8 := by omega
      rw [e, hbit_append_new _ _ _ _ (Nat.mod_lt _ (by omega))]
      simp [List.getD_eq_getElem?_getD, List.getElem?_replicate]
      split <;> simp
    · simp [hi]


theorem release_size (h : Heap) (n : Nat) (hn : n ≤ h.size) : (release h n).size = n := by
  simp [release]; omega

theorem rdB_release (h : Heap) (n i : Nat) (hn : n ≤ h.size) :
    rdB (release h n) i = if i < n then rdB h i else 0 := by
  simp only [rdB, release, Array.getD_eq_getD_getElem?, Array.getElem?_extract]
  by_cases c : i < n
  · have : i < min n h.size := by omega
    simp [c, this]
  · have : ¬ i < min n h.size := by omega
    simp [c, this]

theorem hbit_oob (h : Heap) (k : Nat) (hk : 8 * h.size ≤ k) : hbit h k = false := by
  have : h.size ≤ k / 8 := by omega
  simp [hbit, rdB, this]

/-- `p.fml` on a larger heap with the same bytes under `p` -/
theorem combinePBA_alias_spec (h : Heap) (p q : PBA) (hp : WF h p) (hq : WF h q)
    (hs : q.start = p.start) (he : q.stop = p.stop)
    (bitF : Bool → Bool → Bool) (byteF : Byte → Byte → Byte)
    (hbb : ∀ x y t, t < 8 → (byteF x y).getLsbD t = bitF (x.getLsbD t) (y.getLsbD t)) :
    ∃ (d : List Byte) (qc : PBA) (f g : FML) (h2 : Heap), copy h q = .ok (h ++ d.toArray, qc) ∧
      p.fml (h ++ d.toArray) false = .ok f ∧ qc.fml (h ++ d.toArray) false = .ok g ∧
      combineParts (h ++ d.toArray) p f g (fun hc i => rdB hc (qc.off + i)) bitF byteF = .ok h2 ∧
      Rewrites h (release h2 h.size) p (fun k x => bitF x (opnd h p q k)) := by
  obtain ⟨d, ec, hdl, hd⟩ := copy_spec h q hq
  have hq' := hq
  have hp' := hp
  obtain ⟨b1, b2, b3, b4, b5⟩ := hq
  obtain ⟨a1, a2, a3, a4, a5⟩ := hp
  have hwc : WF (h ++ d.toArray) ⟨h.size, q.len, q.start, q.stop, true⟩ := ⟨b1, b2, b3, b4, by simp [hdl]⟩
  have hp1 : WF (h ++ d.toArray) p := hp'.append d
  have hdis : Disjoint p ⟨h.size, q.len, q.start, q.stop, true⟩ := Or.inl (by simpa using a5)
  obtain ⟨f, g, h2, hf, hg, e, R⟩ := combinePBA_spec (h ++ d.toArray) p _ hp1 hwc hs he hdis bitF byteF hbb
  have hsz2 : h2.size = h.size + d.length := by rw [R.size]; simp
  refine ⟨d, _, f, g, h2, ec, hf, hg, e, release_size _ _ (by omega), fun k => ?_⟩
  have hn : q.n = p.n := by simp only [PBA.n, hs, he]
  have hlen : q.len = p.len := by omega
  have hkk := Nat.div_add_mod k 8
  simp only [hbit, rdB_release _ _ _ (by omega : h.size ≤ h2.size)]
  by_cases ck : k / 8 < h.size
  · rw [if_pos ck]
    have := R.bit k
    simp only [hbit] at this
    rw [this, rdB_append, if_pos ck]
    by_cases cr : p.A ≤ k ∧ k < p.A + p.n
    · rw [if_pos cr, if_pos cr]
      congr 1
      simp only [opnd, PBA.A] at cr ⊢
      have e1 : k + 8 * h.size - 8 * p.off = 8 * (h.size + (k - 8 * p.off) / 8) + (k - 8 * p.off) % 8 := by omega
      have hst := hq'.stop_eq
      rw [e1, hbit_append_new _ _ _ _ (Nat.mod_lt _ (by omega)),
        hd _ _ (by omega) (Nat.mod_lt _ (by omega))]
      have e2 : 8 * (q.off + (k - 8 * p.off) / 8) + (k - 8 * p.off) % 8 = k + 8 * q.off - 8 * p.off := by omega
      rw [e2]
      have : q.start ≤ 8 * ((k - 8 * p.off) / 8) + (k - 8 * p.off) % 8 ∧
          8 * ((k - 8 * p.off) / 8) + (k - 8 * p.off) % 8 < q.start + q.n := by omega
      simp [this]
    · rw [if_neg cr, if_neg cr]
  · rw [if_neg ck]
    have cr : ¬ (p.A ≤ k ∧ k < p.A + p.n) := by simp only [PBA.A, PBA.n]; omega
    rw [if_neg cr]
    have : h.size ≤ k / 8 := by omega
    simp [rdB, this]

theorem fml_congr (rd rd' : Nat → Byte) (n s : Nat) (e : Int) (m : Bool)
    (h0 : rd 0 = rd' 0) (h1 : rd (n - 1) = rd' (n - 1)) : fml rd n s e m = fml rd' n s e m := by
  unfold fml; rw [h0, h1]

theorem PBA.fml_append (h : Heap) (d : List Byte) (p : PBA) (hwf : WF h p) (m : Bool) :
    p.fml (h ++ d.toArray) m = p.fml h m := by
  obtain ⟨a1, a2, a3, a4, a5⟩ := hwf
  unfold PBA.fml
  by_cases c : p.len = 0
  · unfold Packed.fml; simp [c]
  · apply fml_congr <;> simp only [rdB_append] <;> rw [if_pos (by omega)]

theorem not_shares {p q : PBA} (hlen : q.len = p.len) (hns : sharesMemory p q = false) : Disjoint p q := by
  unfold sharesMemory at hns
  unfold Disjoint
  simp only [Bool.and_eq_false_iff, decide_eq_false_iff_not] at hns
  omega

theorem opPBA_spec (h : Heap) (p q : PBA) (hp : WF h p) (hq : WF h q)
    (hs : q.start = p.start) (he : q.stop = p.stop) (op : Op) :
    ∃ h', opPBA h p q op = .ok h' ∧ Rewrites h h' p (fun k x => op.bool x (opnd h p q k)) := by
  have hlen : q.len = p.len := by
    obtain ⟨_, _, a3, a4, _⟩ := hp; obtain ⟨_, _, b3, b4, _⟩ := hq; omega
  cases hsm : sharesMemory p q
  · obtain ⟨h', e, R⟩ := opPBACore_spec h p q hp hq hs he (not_shares hlen hsm) op
    exact ⟨h', by simp [opPBA, hsm, e], R⟩
  · obtain ⟨h1, qc, f, g, h2, ec, hf, hg, e, R⟩ := combinePBA_alias_spec h p q hp hq hs he op.bool op.byte
      (fun x y t ht => Op_byte_getLsbD' op x y t ht)
    refine ⟨_, ?_, R⟩
    simp [opPBA, hsm, ec, opPBACore, hf, hg, e, bind, Except.bind, pure, Except.pure]

theorem iopPBA_spec (h : Heap) (p q : PBA) (hp : WF h p) (hq : WF h q)
    (hs : q.start = p.start) (he : q.stop = p.stop) (op : Op) :
    ∃ h', iopPBA h p q op = .ok h' ∧ Rewrites h h' p (fun k x => op.bool x (opnd h p q k)) := by
  obtain ⟨h', e, R⟩ := opPBA_spec h p q hp hq hs he op
  refine ⟨h', ?_, R⟩
  have : q.n = p.n := by simp only [PBA.n, hs, he]
  simp [iopPBA, hp.pyLen, hq.pyLen, this, hs, e, bind, Except.bind]

theorem setSlicePBA_spec (h : Heap) (p : PBA) (lo hi : Option Int) (t q : PBA)
    (ht : slice p lo hi = .ok t) (hwt : WF h t) (hq : WF h q)
    (hs : q.start = t.start) (he : q.stop = t.stop) :
    ∃ h', setSlicePBA h p lo hi q = .ok h' ∧ Rewrites h h' t (fun k _ => opnd h t q k) := by
  by_cases hn : t.n = 0
  · exact ⟨h, by simp [setSlicePBA, ht, hwt.pyLen, hn, bind, Except.bind, pure, Except.pure],
      Rewrites.refl_empty h t _ hn⟩
  · have hlen : q.len = t.len := by
      obtain ⟨_, _, a3, a4, _⟩ := hwt; obtain ⟨_, _, b3, b4, _⟩ := hq; omega
    cases hsm : sharesMemory t q
    · obtain ⟨f, g, h', hf, hg, e, R⟩ := combinePBA_spec h t q hwt hq hs he (not_shares hlen hsm)
        (fun _ o => o) (fun _ o => o) (fun _ _ _ _ => rfl)
      refine ⟨h', ?_, R⟩
      simp [setSlicePBA, ht, hwt.pyLen, hn, hf, hg, hs, he, hsm, bind, Except.bind]
      exact e
    · obtain ⟨d, qc, f, g, h2, ec, hf, hg, e, R⟩ := combinePBA_alias_spec h t q hwt hq hs he
        (fun _ o => o) (fun _ o => o) (fun _ _ _ _ => rfl)
      rw [PBA.fml_append h d t hwt] at hf
      refine ⟨_, ?_, R⟩
      simp [setSlicePBA, ht, hwt.pyLen, hn, hf, hg, hs, he, hsm, ec, e, bind, Except.bind, pure, Except.pure]


theorem mem_insSorted (x z : Int) (l : List Int) : z ∈ insSorted x l ↔ z = x ∨ z ∈ l := by
  induction l with
  | nil => simp [insSorted]
  | cons y ys ih =>
    unfold insSorted
    split
    · simp
    · split
      · rename_i hxy; subst hxy; simp
      · simp only [List.mem_cons, ih]
        constructor
        · rintro (h | h | h) <;> simp [h]
        · rintro (h | h | h) <;> simp [h]

theorem mem_sortedUnique (z : Int) (l : List Int) : z ∈ sortedUnique l ↔ z ∈ l := by
  unfold sortedUnique
  induction l with
  | nil => simp
  | cons x xs ih => simp only [List.foldr_cons, mem_insSorted, ih, List.mem_cons]

theorem nodup_insSorted (x : Int) (l : List Int) (h : l.Pairwise (· < ·)) : (insSorted x l).Pairwise (· < ·) := by
  induction l with
  | nil => simp [insSorted]
  | cons y ys ih =>
    unfold insSorted
    have hy := List.pairwise_cons.mp h
    split
    · rename_i hxy
      refine List.pairwise_cons.mpr ⟨fun z hz => ?_, h⟩
      rcases List.mem_cons.mp hz with rfl | hz
      · exact hxy
      · have := hy.1 z hz; omega
    · split
      · exact h
      · rename_i h1 h2
        refine List.pairwise_cons.mpr ⟨fun z hz => ?_, ih hy.2⟩
        rcases (mem_insSorted x z ys).mp hz with rfl | hz
        · omega
        · exact hy.1 z hz

/-- the value at the last occurrence of `j`, if `j` occurs -/
def lastValN (ivs : List (Nat × Bool)) (j : Nat) : Option Bool :=
  (ivs.reverse.find? fun iv => iv.1 == j).map (·.2)

theorem lastVal_ofNat (idx : List Nat) (vals : List Bool) (j : Nat) :
    lastVal ((idx.map Int.ofNat).zip vals) (j : Int) = (lastValN (idx.zip vals) j).getD false := by
  unfold lastVal lastValN
  have e : (idx.map Int.ofNat).zip vals = (idx.zip vals).map (Prod.map Int.ofNat id) := by
    rw [List.zip_map_left]
  rw [e, ← List.map_reverse, List.find?_map]
  have hp : ((fun iv : Int × Bool => iv.1 == (j : Int)) ∘ Prod.map Int.ofNat id) =
      (fun iv : Nat × Bool => iv.1 == j) := by
    funext x
    simp only [Function.comp, Prod.map_fst]
    by_cases c : x.1 = j
    · simp [c]
    · have h1 : ((x.1 : Int) == (j : Int)) = false := by simp; omega
      have h2 : (x.1 == j) = false := by simp [c]
      simp only [Int.ofNat_eq_natCast, h1, h2]
  rw [hp]
  cases (idx.zip vals).reverse.find? (fun iv => iv.1 == j) <;> simp

/-- numpy sequential assignment: the last occurrence wins -/
theorem foldl_set_last (ivs : List (Nat × Bool)) (l0 : List Bool) (j : Nat) :
    (ivs.foldl (fun l iv => l.set iv.1 iv.2) l0)[j]? =
      match lastValN ivs j with
      | some b => (l0[j]?).map (fun _ => b)
      | none => l0[j]? := by
  unfold lastValN
  generalize hr : ivs.reverse = r
  have : ivs = r.reverse := by rw [← hr, List.reverse_reverse]
  subst this
  clear hr
  induction r generalizing l0 with
  | nil => simp
  | cons iv r ih =>
    simp only [List.reverse_cons, List.foldl_append, List.foldl_cons, List.foldl_nil, getElem?_set',
      List.find?_cons] at ih ⊢
    by_cases c : iv.1 = j
    · simp only [c, beq_self_eq_true, if_true, Option.map_some]
      rw [ih]
      cases (r.find? fun iv => iv.1 == j).map (·.2) <;> cases l0[j]? <;> simp
    · have : (iv.1 == j) = false := by simp [c]
      simp only [this, c, if_false]
      exact ih l0

theorem lastValN_isSome (idx : List Nat) (vals : List Bool) (hlen : vals.length = idx.length) (j : Nat) :
    (lastValN (idx.zip vals) j).isSome = decide (j ∈ idx) := by
  unfold lastValN
  rw [Option.isSome_map, Bool.eq_iff_iff]
  simp only [List.find?_isSome, List.mem_reverse, beq_iff_eq, decide_eq_true_eq]
  constructor
  · rintro ⟨iv, hm, rfl⟩; exact (List.of_mem_zip hm).1
  · intro hj
    obtain ⟨k, hk, rfl⟩ := List.getElem_of_mem hj
    exact ⟨(idx[k], vals[k]'(by omega)), by
      apply List.mem_iff_getElem.mpr
      exact ⟨k, by simp; omega, by simp⟩, rfl⟩

theorem range_check_ok (p : PBA) (locs : List Int) (hne : locs ≠ []) (hr : InRange p.n locs)
    (hsz : p.size = (p.n : Int)) :
    (decide (minI locs < 0) || decide (maxI locs ≥ p.size)) = false := by
  cases locs with
  | nil => exact absurd rfl hne
  | cons x xs =>
    have hx := hr x (by simp)
    have h1 : ¬ (minI (x :: xs) < 0) := by
      have := foldl_min_ge (x :: xs) x 0 hx.1 (fun y hy => (hr y hy).1)
      simp only [minI, List.headD_cons]; omega
    have h2 : ¬ (maxI (x :: xs) ≥ p.size) := by
      have := foldl_max_lt (x :: xs) x p.n hx.2 (fun y hy => (hr y hy).2)
      simp only [maxI, List.headD_cons, hsz]; omega
    simp [h1, h2]

theorem hits_keep (p : PBA) (idx : List Nat) (vals : List Bool) (b : Bool) (j : Nat) :
    hits p (((keepLast (idx.map Int.ofNat) vals).filter (fun iv => iv.2 == b)).map (·.1)) (p.A + j) =
      (decide (j ∈ idx) && ((lastValN (idx.zip vals) j).getD false == b)) := by
  unfold hits keepLast
  rw [Bool.eq_iff_iff]
  simp only [List.any_eq_true, List.mem_map, List.mem_filter, beq_iff_eq, Bool.and_eq_true, decide_eq_true_eq,
    mem_sortedUnique]
  constructor
  · rintro ⟨l, ⟨iv, ⟨⟨i, ⟨i0, hi0, rfl⟩, rfl⟩, hb⟩, rfl⟩, hl⟩
    have : i0 = j := by
      have : (Int.ofNat i0).toNat = i0 := by simp
      simp only [this] at hl; omega
    subst this
    have h3 := lastVal_ofNat idx vals i0
    simp only [Int.ofNat_eq_natCast] at h3 hb
    rw [h3] at hb
    exact ⟨hi0, hb⟩
  · rintro ⟨hj, hb⟩
    refine ⟨(j : Int), ⟨((j : Int), lastVal ((idx.map Int.ofNat).zip vals) (j : Int)), ⟨⟨(j : Int), ⟨j, hj, rfl⟩, rfl⟩, ?_⟩, rfl⟩, by simp⟩
    rw [lastVal_ofNat]; exact hb

/-- Index assignment with a value array: every listed element gets the value of its LAST
    occurrence. -/
theorem setIdxArr_spec (h : Heap) (p : PBA) (hwf : WF h p) (idx : List Nat) (vals : List Bool)
    (hlen : vals.length = idx.length) (hr : ∀ i ∈ idx, i < p.n) :
    ∃ h', setIdxArr h p (idx.map Int.ofNat) vals = (h', none) ∧ h'.size = h.size ∧
      ∀ j, j < p.n → hbit h' (p.A + j) =
        if j ∈ idx then (lastValN (idx.zip vals) j).getD false else hbit h (p.A + j) := by
  by_cases hne : idx = []
  · subst hne
    exact ⟨h, rfl, rfl, fun j _ => by simp⟩
  · have hr' := inRange_ofNat p.n idx hr
    have hsub : ∀ (q : Int × Bool → Bool),
        InRange p.n ((((keepLast (idx.map Int.ofNat) vals)).filter q).map (·.1)) := by
      intro q l hl
      obtain ⟨iv, hiv, rfl⟩ := List.mem_map.mp hl
      have hm := (List.mem_filter.mp hiv).1
      unfold keepLast at hm
      obtain ⟨i, hi, rfl⟩ := List.mem_map.mp hm
      exact hr' i ((mem_sortedUnique i _).mp hi)
    obtain ⟨h1, e1, R1⟩ := setBits_spec h p hwf _ (hsub (·.2))
    obtain ⟨h2, e2, R2⟩ := clearBits_spec h1 p (R1.wf hwf) _ (hsub (!·.2))
    have hsz : p.size = (p.n : Int) := by
      obtain ⟨a1, a2, a3, a4, a5⟩ := hwf; simp only [PBA.size, PBA.n]; omega
    have hrc := range_check_ok p (idx.map Int.ofNat) (by simpa using hne) hr' hsz
    refine ⟨h2, ?_, R2.size.trans R1.size, fun j hj => ?_⟩
    · simp only [setIdxArr, Bool.false_and, Bool.false_eq_true, if_false, List.isEmpty_iff, List.map_eq_nil_iff, hne,
        List.length_map, hlen, bne_self_eq_false, hrc, e1, e2]
    · rw [R2.bit, if_pos ⟨by omega, by omega⟩, R1.bit, if_pos ⟨by omega, by omega⟩]
      have e1' : (fun iv : Int × Bool => iv.2 == true) = (·.2) := by funext iv; simp
      have e2' : (fun iv : Int × Bool => iv.2 == false) = (!·.2) := by funext iv; cases iv.2 <;> rfl
      have ht := hits_keep p idx vals true j
      have hf := hits_keep p idx vals false j
      rw [e1'] at ht; rw [e2'] at hf
      rw [ht, hf]
      by_cases c : j ∈ idx
      · simp only [c, decide_true, Bool.true_and, if_true]
        cases (lastValN (idx.zip vals) j).getD false <;> simp
      · simp [c]


theorem lowMask_bits : ∀ sm t : Fin 8, (lowMask sm.val).getLsbD t.val = decide (t.val < sm.val) := by decide

theorem and_lowMask (b : Byte) (sm t : Nat) (hsm : sm < 8) (ht : t < 8) :
    (b &&& lowMask sm).getLsbD t = (decide (t < sm) && b.getLsbD t) := by
  rw [BitVec.getLsbD_and, lowMask_bits ⟨sm, hsm⟩ ⟨t, ht⟩, Bool.and_comm]

/-- bit `k` is a padding bit of `p`: after its last element, inside its own last byte -/
def padBit (p : PBA) (k : Nat) : Prop := p.A + p.n ≤ k ∧ k < 8 * (p.off + p.len)

/-- `if stop % 8 != 0: self._data[-1] &= (1 << stop % 8) - 1` clears exactly the padding bits. -/
theorem maskPad_spec (h : Heap) (p : PBA) (hwf : WF h p) (hs8 : p.stop % 8 ≠ 0) :
    (wr h (p.off + p.len - 1) (rdB h (p.off + p.len - 1) &&& lowMask (p.stop % 8).toNat)).size = h.size ∧
    ∀ k, (padBit p k →
        hbit (wr h (p.off + p.len - 1) (rdB h (p.off + p.len - 1) &&& lowMask (p.stop % 8).toNat)) k = false) ∧
      (¬ padBit p k →
        hbit (wr h (p.off + p.len - 1) (rdB h (p.off + p.len - 1) &&& lowMask (p.stop % 8).toNat)) k = hbit h k) := by
  have hs := hwf.stop_eq
  obtain ⟨a1, a2, a3, a4, a5⟩ := hwf
  refine ⟨wr_size _ _ _, fun k => ?_⟩
  have hk := Nat.div_add_mod k 8
  have ht : k % 8 < 8 := Nat.mod_lt _ (by omega)
  rw [hbit_wr]
  unfold padBit
  simp only [PBA.A, PBA.n]
  by_cases c : k / 8 = p.off + p.len - 1
  · rw [if_pos ⟨c, by omega⟩, and_lowMask _ _ _ (by omega) ht]
    by_cases c2 : k % 8 < (p.stop % 8).toNat
    · refine ⟨fun hh => by omega, fun _ => by simp [c2, hbit, c]⟩
    · refine ⟨fun _ => by simp [c2], fun hh => by omega⟩
  · rw [if_neg (fun hh => c hh.1)]
    exact ⟨fun hh => by omega, fun _ => rfl⟩

theorem padZero_of_aligned (h : Heap) (p : PBA) (hwf : WF h p) (hs8 : p.stop % 8 = 0) : PadZero h p := by
  obtain ⟨a1, a2, a3, a4, a5⟩ := hwf
  intro k h1 h2
  simp only [PBA.A, PBA.n] at h1 h2
  omega

theorem growBuffer_spec (h : Heap) (p : PBA) (hwf : WF h p) (newsize : Nat) (hlt : p.n < newsize)
    (hpad : PadZero h p) (hok : p.own = true ∨ (newsize + p.start + 7) / 8 = p.len) :
    ∃ h' p', growBuffer h p ((newsize + p.start + 7) / 8) ((newsize : Int) + p.start) = ((h', p'), none) ∧
      WF h' p' ∧ p'.n = newsize ∧ p'.own = p.own ∧
      toBools h' p' = toBools h p ++ List.replicate (newsize - p.n) false ∧
      (∀ k, k < 8 * h.size → hbit h' k = hbit h k) ∧ h.size ≤ h'.size := by
  have hs := hwf.stop_eq
  have hwf' := hwf
  obtain ⟨a1, a2, a3, a4, a5⟩ := hwf
  by_cases hsame : (newsize + p.start + 7) / 8 = p.len
  · -- the same number of bytes: only `_stop_index` moves
    have hwn : WF h { p with stop := (newsize : Int) + p.start } := ⟨a1, by simp; omega, by simp; omega, by simp; omega, a5⟩
    refine ⟨h, { p with stop := (newsize : Int) + p.start }, ?_, hwn, by simp [PBA.n], rfl, ?_,
      fun _ _ => rfl, Nat.le_refl _⟩
    · simp [growBuffer, hsame]
    · apply List.ext_getElem?
      intro i
      rw [toBools_getElem? _ _ hwn, List.getElem?_append, toBools_length _ _ hwf', toBools_getElem? _ _ hwf']
      have hn' : ({ p with stop := (newsize : Int) + p.start } : PBA).n = newsize := by simp [PBA.n]
      have hA' : ({ p with stop := (newsize : Int) + p.start } : PBA).A = p.A := rfl
      rw [hn', hA']
      by_cases c1 : i < p.n
      · simp [c1, show i < newsize by omega]
      · by_cases c2 : i < newsize
        · simp only [c1, c2, if_true, if_false, List.getElem?_replicate]
          rw [if_pos (by omega), hpad _ (by omega) (by simp only [PBA.A]; omega)]
        · simp [c1, c2, List.getElem?_replicate]; omega
  · -- reallocation of an owning buffer: it moves to the end of the heap
    have hown : p.own = true := hok.elim id (fun hh => absurd hh hsame)
    have hgt : p.len ≤ (newsize + p.start + 7) / 8 := by omega
    let nd := (newsize + p.start + 7) / 8
    let bytes := ((p.data h).take nd) ++ List.replicate (nd - p.len) (0 : Byte)
    have hdl := data_length h p a5
    have hbl : bytes.length = nd := by simp [bytes, hdl]; omega
    let p' : PBA := ⟨h.size, nd, p.start, (newsize : Int) + p.start, p.own⟩
    have hwn : WF (h ++ bytes.toArray) p' :=
      ⟨a1, by simp [p']; omega, by simp [p', nd]; omega, by simp [p', nd]; omega, by simp [p', hbl]⟩
    refine ⟨h ++ bytes.toArray, p', ?_, hwn, by simp [p', PBA.n], rfl, ?_,
      fun k hk => hbit_append_old h bytes k hk, by simp⟩
    · simp [growBuffer, hsame, hown, p', bytes, nd]
    · apply List.ext_getElem?
      intro i
      rw [toBools_getElem? _ _ hwn, List.getElem?_append, toBools_length _ _ hwf', toBools_getElem? _ _ hwf']
      have hn' : p'.n = newsize := by simp [p', PBA.n]
      have hA' : p'.A = 8 * h.size + p.start := rfl
      rw [hn', hA']
      have hbyte : ∀ j t, t < 8 → (bytes.getD j 0).getLsbD t = if j < p.len then hbit h (8 * (p.off + j) + t) else false := by
        intro j t ht
        simp only [bytes, List.getD_eq_getElem?_getD, List.getElem?_append, List.length_take, hdl]
        by_cases cj : j < p.len
        · have : j < min nd p.len := by omega
          simp only [this, if_true, cj, List.getElem?_take, show j < nd by omega, data_getElem? h p a5,
            Option.getD_some, hbit_byte _ _ _ ht]
        · have : ¬ j < min nd p.len := by omega
          simp only [this, if_false, cj, List.getElem?_replicate]
          split <;> simp
      have e : 8 * h.size + p.start + i = 8 * (h.size + (p.start + i) / 8) + (p.start + i) % 8 := by omega
      rw [e, hbit_append_new _ _ _ _ (Nat.mod_lt _ (by omega)), hbyte _ _ (Nat.mod_lt _ (by omega))]
      by_cases c1 : i < p.n
      · have : (p.start + i) / 8 < p.len := by omega
        simp only [c1, show i < newsize by omega, if_true, this]
        congr 2; simp only [PBA.A]; omega
      · by_cases c2 : i < newsize
        · have c3 : i - p.n < newsize - p.n := by omega
          simp only [c1, c2, c3, if_true, if_false, List.getElem?_replicate]
          by_cases c4 : (p.start + i) / 8 < p.len
          · rw [if_pos c4, hpad _ (by simp only [PBA.A]; omega) (by omega)]
          · rw [if_neg c4]
        · have c3 : ¬ i - p.n < newsize - p.n := by omega
          simp [c1, c2, c3]

theorem resize_nd (newsize start : Nat) :
    (if ((newsize : Int) + start) % 8 != 0 then ((newsize : Int) + start) / 8 + 1
      else ((newsize : Int) + start) / 8).toNat = (newsize + start + 7) / 8 := by
  split <;> rename_i hc <;> simp at hc <;> omega

theorem resize_nd' (newsize start : Nat) :
    (if ¬ ((newsize : Int) + start) % 8 = 0 then ((newsize : Int) + start) / 8 + 1
      else ((newsize : Int) + start) / 8).toNat = (newsize + start + 7) / 8 := by
  split <;> omega

theorem resize_nd'' (newsize start : Nat) :
    (if ((newsize : Int) + start) % 8 = 0 then ((newsize : Int) + start) / 8
      else ((newsize : Int) + start) / 8 + 1).toNat = (newsize + start + 7) / 8 := by
  split <;> omega

theorem toBools_congr_bits (h h1 : Heap) (p : PBA) (hwf : WF h p) (hsz : h1.size = h.size)
    (hb : ∀ k, p.A ≤ k → k < p.A + p.n → hbit h1 k = hbit h k) : WF h1 p ∧ toBools h1 p = toBools h p := by
  have hw1 : WF h1 p := by
    obtain ⟨a1, a2, a3, a4, a5⟩ := hwf
    exact ⟨a1, a2, a3, a4, by omega⟩
  refine ⟨hw1, ?_⟩
  rw [toBools_eq _ _ hw1, toBools_eq _ _ hwf]
  apply List.map_congr_left
  intro i hi
  have := List.mem_range.mp hi
  exact hb _ (by omega) (by omega)

/-- `resize` of an owning array: the elements are kept, the new ones are False whatever the
    padding bits held; only padding bits of `p` change. -/
theorem resize_spec (h : Heap) (p : PBA) (hwf : WF h p) (newsize : Nat) (hge : p.n ≤ newsize)
    (hok : p.own = true ∨ newsize = p.n) :
    ∃ h' p', resize h p newsize = ((h', p'), none) ∧ WF h' p' ∧ p'.n = newsize ∧ p'.own = p.own ∧
      toBools h' p' = toBools h p ++ List.replicate (newsize - p.n) false ∧
      (∀ k, k < 8 * h.size → ¬ padBit p k → hbit h' k = hbit h k) ∧ h.size ≤ h'.size := by
  have hs := hwf.stop_eq
  have hwf' := hwf
  obtain ⟨a1, a2, a3, a4, a5⟩ := hwf
  have hsize : p.size = (p.n : Int) := by simp only [PBA.size, PBA.n]; omega
  by_cases heq : newsize = p.n
  · subst heq
    refine ⟨h, p, ?_, hwf', rfl, rfl, by simp, fun _ _ _ => rfl, Nat.le_refl _⟩
    unfold resize
    rw [if_neg (by rw [hsize]; omega), if_pos (by rw [hsize]; simp)]
  · have hlt : p.n < newsize := by omega
    have hown : p.own = true := hok.elim id (fun hh => absurd hh heq)
    have hnown : (!p.own) = false := by simp [hown]
    by_cases hs8 : p.stop % 8 = 0
    · obtain ⟨h', p', e, hw', hn', ho', hb', hfr, hsz⟩ :=
        growBuffer_spec h p hwf' newsize hlt (padZero_of_aligned h p hwf' hs8) (Or.inl hown)
      refine ⟨h', p', ?_, hw', hn', ho', hb', fun k hk _ => hfr k hk, hsz⟩
      unfold resize
      rw [if_neg (by rw [hsize]; omega), if_neg (by rw [hsize]; simp; omega)]
      simp only [resize_nd, hs8, bne_self_eq_false, Bool.false_eq_true, if_false, hnown]
      exact e
    · obtain ⟨hsz1, hm⟩ := maskPad_spec h p hwf' hs8
      generalize hh1 : wr h (p.off + p.len - 1) (rdB h (p.off + p.len - 1) &&& lowMask (p.stop % 8).toNat) = h1
        at hsz1 hm
      obtain ⟨hw1, hb1⟩ := toBools_congr_bits h h1 p hwf' hsz1
        (fun k k1 k2 => (hm k).2 (by unfold padBit; omega))
      have hpad1 : PadZero h1 p := fun k k1 k2 => (hm k).1 ⟨k1, k2⟩
      obtain ⟨h', p', e, hw', hn', ho', hb', hfr, hsz⟩ := growBuffer_spec h1 p hw1 newsize hlt hpad1 (Or.inl hown)
      refine ⟨h', p', ?_, hw', hn', ho', by rw [hb', hb1], fun k hk hnp => ?_, by omega⟩
      · unfold resize
        rw [if_neg (by rw [hsize]; omega), if_neg (by rw [hsize]; simp; omega)]
        have hl0 : (p.len == 0) = false := by simp; omega
        simp only [resize_nd', bne_iff_ne, ne_eq, hs8, not_false_eq_true, if_true, hl0, Bool.false_eq_true,
          if_false, hh1, hnown]
        exact e
      · rw [hfr k (by omega), (hm k).2 hnp]

/-- `resize` of a view (a buffer that does not own its memory) to a larger size is refused, as
    numpy refuses to resize a view; neither the heap nor the object changes. -/
theorem resize_view_spec (h : Heap) (p : PBA) (hwf : WF h p) (newsize : Nat) (hlt : p.n < newsize)
    (hown : p.own = false) : resize h p newsize = ((h, p), some .value) := by
  obtain ⟨a1, a2, a3, a4, a5⟩ := hwf
  have hsize : p.size = (p.n : Int) := by simp only [PBA.size, PBA.n]; omega
  unfold resize
  rw [if_neg (by rw [hsize]; omega), if_neg (by rw [hsize]; simp; omega)]
  simp [hown]

theorem sumShaped_none (h : Heap) (p : PBA) (hwf : WF h p) (h0 : p.start = 0) (h8 : p.stop % 8 = 0)
    (init : List Nat) (c : Nat) (hprod : prodL (init ++ [8 * c]) = p.n) :
    sumShaped h p (init ++ [8 * c]) none = .ok ([], [(toBools h p).count true]) := by
  obtain ⟨hn, ht, hl⟩ := aligned_counts h p hwf h0 h8
  have hs := hwf.stop_eq
  have hsize : p.size = (p.n : Int) := by simp only [PBA.size]; omega
  have hnew : (init ++ [8 * c]).set ((init ++ [8 * c]).length - 1) (8 * c / 8) = init ++ [c] := by
    simp
  have hpl : prodL (init ++ [c]) = p.len := by
    rw [prodL_append_single] at hprod ⊢
    have : prodL init * (8 * c) = 8 * (prodL init * c) := by rw [Nat.mul_left_comm]
    omega
  have hsum : ((p.data h).map fun b => (bitCount b).toNat).sum = (toBools h p).count true := by
    rw [data_eq_map h p hwf.in_heap, List.map_map]
    have := cnt_bytes h p.off p.len
    show ((List.range p.len).map fun i => (bitCount (rdB h (p.off + i))).toNat).sum = _
    rw [this, toBools_count h p hwf, hn]
    simp only [PBA.A, h0]; congr 1; omega
  have h8c : 8 * c / 8 = c := by omega
  have h8m : 8 * c % 8 = 0 := by omega
  simp [sumShaped, h0, h8, pure, Except.pure, hprod, hsize, List.getLast?_append,
    hpl, hl, hsum, h8c, h8m]

theorem sumShaped_last (h : Heap) (p : PBA) (hwf : WF h p) (h0 : p.start = 0) (h8 : p.stop % 8 = 0)
    (init : List Nat) (c : Nat) (hprod : prodL (init ++ [8 * c]) = p.n) :
    sumShaped h p (init ++ [8 * c]) (some (init.length : Int)) =
      .ok (init, sumAxis (bitsNat (toBools h p)) (init ++ [8 * c]) init.length) := by
  obtain ⟨hn, ht, hl⟩ := aligned_counts h p hwf h0 h8
  have hs := hwf.stop_eq
  have hsize : p.size = (p.n : Int) := by simp only [PBA.size]; omega
  have hpl : prodL (init ++ [c]) = p.len := by
    rw [prodL_append_single] at hprod ⊢
    have : prodL init * (8 * c) = 8 * (prodL init * c) := by rw [Nat.mul_left_comm]
    omega
  have h8c : 8 * c / 8 = c := by omega
  have h8m : 8 * c % 8 = 0 := by omega
  have hax := sumAxis_last_packed (bitsNat (toBools h p)) ((p.data h).map fun b => (bitCount b).toNat) init c ht
  simp [sumShaped, h0, h8, bind, Except.bind, pure, Except.pure, hprod, hsize, List.getLast?_append,
    hpl, hl, h8c, h8m, hax]
  have e2 : (init ++ [c]).eraseIdx init.length = init := by
    rw [List.eraseIdx_append_of_length_le (Nat.le_refl _)]; simp
  simp [e2]
  omega



/-- every axis other than the last one is refused (an axis ≥ ndim with `ValueError`) -/
theorem sumShaped_other_axis (h : Heap) (p : PBA) (hwf : WF h p) (h0 : p.start = 0) (h8 : p.stop % 8 = 0)
    (init : List Nat) (c : Nat) (hprod : prodL (init ++ [8 * c]) = p.n) (a : Int)
    (ha : a ≠ (init.length : Int)) :
    sumShaped h p (init ++ [8 * c]) (some a) =
      .error (if a ≥ (init.length : Int) + 1 then .value else .notImpl) := by
  have hs := hwf.stop_eq
  have hsize : p.size = (p.n : Int) := by simp only [PBA.size]; omega
  have h8m : 8 * c % 8 = 0 := by omega
  by_cases c1 : a ≥ (init.length : Int) + 1
  · simp [sumShaped, h0, h8, bind, Except.bind, c1, throw, throwThe, MonadExceptOf.throw]
  · have c2 : ¬ ((init.length : Int) + 1 ≤ a) := by omega
    have c3 : ¬ (a = (init.length : Int) + 1 - 1) := by omega
    simp [sumShaped, h0, h8, bind, Except.bind, pure, Except.pure, c1, hprod, hsize, List.getLast?_append, h8m,
      throw, throwThe, MonadExceptOf.throw]
    intro hh; exact absurd hh ha

end Packed
end HS
