/-
  The RECORD / VIEW family on dense arrays (agent D7; continues Lemmas/ApiDenseAll.lean).

  `get_single` (protocol `single`) and `get_single_covpix_map` (`scov`) are not covered by the
  coverage-aware interpreter of Lemmas/ApiDenseAll.lean: its relation `RelC` allows no record-field
  VIEW in the pool.  This file adds

    * the dense world WITH VIEWS `DenseWorldV`: names ↦ an owning coverage-aware dense map
      (`EntV.own`) or a dense view descriptor (`EntV.view`: parent name, field index, recorded
      field dtype and sentinel — exactly what the model's descriptor keeps); the resolution
      `DenseWorldV.get?` mirrors `World.get?` (field `i` of the parent's cells over the parent's
      coverage; refused when the parent's name now bears a map whose blank field is not the
      recorded sentinel or whose field dtype differs);
    * the relation `RelV` (owning entries `CorrC`, descriptors equal field by field) and its
      primitives (`relV_get`, `RelV.bind`, `RelV.register`, `RelV.put_view`);
    * the dense step `dstepArgsV`: `scov`, `single` (copy and view forms, with the sentinel rules
      and refusals), the plain lines `cfg` / `upd` / `updr` / `set` / `get` / `vals` and the
      observers `valid` / `nvalid` / `covmap` / `covmask` on owning AND view targets (a write through a view
      changes field `i` of the parent at already-valid pixels, is refused with `RuntimeError` when
      it would create a valid pixel), `copy`; every other line of the five families falls back to
      `ApiDenseAll.dstepArgsAll` on the owning entries WHILE NO DESCRIPTOR IS IN THE POOL
      (`settledV`);
    * `rel_stepArgsV` / `rel_stepV` / `rel_runLinesV` / `answers_eq_danswersV`.
-/
import HealSparse.Lemmas.ApiDenseAll
import HealSparse.Lemmas.ApiRecord
import HealSparse.Lemmas.FrameWorld
namespace HS
namespace ApiDenseViews

open ApiDense ApiDenseCov

/-! ### `get_single_covpix_map` on a dense map -/

/-- the values of `get_single_covpix_map(k)`: the map inside coverage pixel `k`, blank elsewhere -/
def scovF (d : DenseMapC) (k : Nat) : Nat → Val := fun p =>
  if p >>> d.c.shift = k then d.toDense.f p else d.toDense.blank

/-- `get_single_covpix_map(k)`: same header; coverage pixel `k` alone stays in the mask (if it was
    there) -/
def dScov (d : DenseMapC) (k : Nat) : DenseMapC :=
  ⟨{ d.toDense with f := scovF d k }, fun j => decide (j = k) && d.cov k⟩

theorem scov_corrC {m : MapObj} {d : DenseMapC} (hc : CorrC m d) {k : Nat} (hk : k < m.c.ncov) :
    CorrC { m with st := singleCovpixMap m.c m.vc m.st k, cache := none } (dScov d k) := by
  obtain ⟨_, habs, hcov⟩ := singleCovpixMap_spec' m.c m.vc m.st k hc.corr.wf.2 hk
  refine ⟨⟨WF.singleCovpix hc.corr.wf hk, hc.corr.view, hc.corr.covord, hc.corr.spord,
    hc.corr.kind, hc.corr.sent, fun p hp => ?_⟩, fun j hj => ?_⟩
  · show abs m.c m.vc (singleCovpixMap m.c m.vc m.st k) p = scovF d k p
    rw [habs p hp]
    unfold scovF
    rw [← hc.c_eq, ← hc.corr.hdr_facts.2.2.2.2.2.2]
    split
    · exact hc.corr.abs p hp
    · rfl
  · show covered m.c (singleCovpixMap m.c m.vc m.st k) j = _
    rw [hcov j hj, hc.cov k hk]
    rfl

/-! ### `get_single(copy=True)` on a dense map -/

/-- the values of the copy: field `i` where the record is valid, the new sentinel elsewhere -/
def copyF (d : DenseMap) (i : Nat) (s : Val) : Nat → Val := fun p =>
  if d.kind.valid d.sent (d.f p) then recField i (d.f p) else s

/-- `get_single(key, sentinel, copy=True)`: the header-only `singleSentinel` decides acceptance,
    the field type and the sentinel; the mask is kept -/
def dSingleCopy (d : DenseMapC) (i : Nat) (sentinel : Option Val) : Except Err DenseMapC :=
  match singleSentinel d.toDense.hdr i sentinel with
  | .ok ds =>
    .ok ⟨⟨d.toDense.covord, d.toDense.spord, .plain ds.1, ds.2, copyF d.toDense i ds.2⟩, d.cov⟩
  | .error e => .error e

theorem singleSentinel_hdr {m : MapObj} {d : DenseMap} (h3 : m.kind = d.kind) (h4 : m.sent = d.sent)
    (i : Nat) (s : Option Val) : singleSentinel m i s = singleSentinel d.hdr i s := by
  obtain ⟨co, so, k, se, st, ca, vi⟩ := m
  obtain ⟨co', so', k', se', f⟩ := d
  simp only at h3 h4
  subst h3 h4
  rfl

theorem apiGetSingleCopy_ss (m : MapObj) (i : Nat) (sentinel : Option Val) :
    apiGetSingleCopy m i sentinel =
      match singleSentinel m i sentinel with
      | .ok ds => .ok (ApiRecord.copyOf m i ds.1 ds.2)
      | .error e => .error e := by
  unfold apiGetSingleCopy
  cases singleSentinel m i sentinel with
  | error e => rfl
  | ok ds => obtain ⟨dt, s⟩ := ds; rfl

theorem apiGetSingleCopy_corrC {m : MapObj} {d : DenseMapC} (hc : CorrC m d) (hk : m.KindOk)
    (i : Nat) (sentinel : Option Val) :
    OutRelM (apiGetSingleCopy m i sentinel) (dSingleCopy d i sentinel) := by
  have hA := apiGetSingleCopy_ss m i sentinel
  unfold dSingleCopy
  rw [← singleSentinel_hdr hc.corr.kind hc.corr.sent]
  cases hss : singleSentinel m i sentinel with
  | error e => rw [hss] at hA; rw [hA]; exact rfl
  | ok ds =>
    obtain ⟨dt, s⟩ := ds
    rw [hss] at hA
    simp only [] at hA
    rw [hA]
    obtain ⟨hwf, _, _, _, _, hcv, habs, _, _⟩ := ApiRecord.copy_spec hc.corr.wf hk hA
    refine ⟨⟨hwf, rfl, hc.corr.covord, hc.corr.spord, rfl, rfl, fun p hp => ?_⟩, fun j hj => ?_⟩
    · rw [habs p hp]
      unfold copyF MapObj.validAt MapObj.vc
      rw [hc.corr.abs p hp, hc.corr.kind, hc.corr.sent]
      rfl
    · exact (hcv j).trans (hc.cov j hj)

/-! ### the `single` line as a request -/

def boolField (k : Kind) (i : Nat) : Bool :=
  match k with
  | .recd fs _ => fs[i]? == some DT.bool
  | _ => false

def nonPrimary (k : Kind) (i : Nat) : Bool :=
  match k with
  | .recd _ pr => i != pr
  | _ => false

/-- what a `single` line asks of the looked-up map -/
inductive SReq where
  | bad (s : String)
  | copy (i : Nat) (sent : Option Val)
  | view (i : Nat) (sent : Option Val)

def singleReq (a : Args) (k : Kind) : SReq :=
  match a.nat? "field", optVal a "sentinel" with
  | some i, some sent =>
    if boolField k i then .bad "bad-op:single-of-boolean-field"
    else if a.flag "copy" then .copy i sent else .view i sent
  | _, _ => .bad "bad-op:single"

/-- the view form: field type and sentinel of the view, or the refusal (`TypeError` not a record
    map, `ValueError` field outside the record / override the type does not accept / ANY effective
    re-sentinelling of a non-primary field) — header only -/
def viewSent (m : MapObj) (i : Nat) (sent : Option Val) : Except Err (DT × Val) :=
  match singleSentinel m i sent with
  | .ok ds => if nonPrimary m.kind i && ds.2 != ds.1.defaultSentinel then .error .value else .ok ds
  | .error e => .error e

def runSingle (w : World) (a : Args) (m : MapObj) : SReq → World × String
  | .bad s => (w, s)
  | .copy i sent =>
    match apiGetSingleCopy m i sent with
    | .ok r => (w.bind (a.getD "r" "tmp") r, "ok")
    | .error e => (w, errLine e)
  | .view i sent =>
    match viewSent m i sent with
    | .ok ds => (ApiRecord.register w (a.pos.headD "") (a.getD "r" "tmp") m i ds.1 ds.2, "ok")
    | .error e => (w, errLine e)

theorem opSingle_eq (w : World) (a : Args) :
    opSingle w a = withMap w a fun m => runSingle w a m (singleReq a m.kind) := by
  unfold opSingle
  congr 1
  funext m
  unfold singleReq
  cases a.nat? "field" with
  | none => rfl
  | some i =>
    cases optVal a "sentinel" with
    | none => rfl
    | some sent =>
      simp only []
      show (if boolField m.kind i = true then _ else _) = _
      by_cases hb : boolField m.kind i = true
      · rw [if_pos hb, if_pos hb]; rfl
      · rw [if_neg hb, if_neg hb]
        by_cases hcp : a.flag "copy" = true
        · rw [if_pos hcp, if_pos hcp]; rfl
        · rw [if_neg hcp, if_neg hcp]
          show _ = match viewSent m i sent with
            | .ok ds => (ApiRecord.register w (a.pos.headD "") (a.getD "r" "tmp") m i ds.1 ds.2, "ok")
            | .error e => (w, errLine e)
          unfold viewSent
          cases singleSentinel m i sent with
          | error e => rfl
          | ok ds =>
            obtain ⟨dt, s⟩ := ds
            simp only []
            show (if (nonPrimary m.kind i && s != dt.defaultSentinel) = true then _ else _) = _
            by_cases hn : (nonPrimary m.kind i && s != dt.defaultSentinel) = true
            · rw [if_pos hn, if_pos hn]
            · rw [if_neg hn, if_neg hn]; rfl

theorem viewSent_hdr {m : MapObj} {d : DenseMap} (h3 : m.kind = d.kind) (h4 : m.sent = d.sent)
    (i : Nat) (s : Option Val) : viewSent m i s = viewSent d.hdr i s := by
  unfold viewSent
  rw [singleSentinel_hdr h3 h4, h3]
  rfl

/-! ### dense worlds with views -/

/-- a pool entry of the dense world: an owning coverage-aware dense map, or a view descriptor
    (parent name, field index, recorded field type and sentinel) -/
inductive EntV where
  | own (d : DenseMapC)
  | view (pn : String) (i : Nat) (dt : DT) (s : Val)

abbrev DenseWorldV := List (String × EntV)

def DenseWorldV.raw? (D : DenseWorldV) (n : String) : Option EntV := (D.find? (·.1 == n)).map (·.2)

def DenseWorldV.bind (D : DenseWorldV) (n : String) (e : EntV) : DenseWorldV :=
  (n, e) :: D.filter (·.1 != n)

theorem rawV_bind_self (D : DenseWorldV) (n : String) (e : EntV) : (D.bind n e).raw? n = some e := by
  simp [DenseWorldV.bind, DenseWorldV.raw?]

theorem rawV_bind_ne (D : DenseWorldV) {n x : String} (h : n ≠ x) (e : EntV) :
    (D.bind n e).raw? x = D.raw? x := by
  unfold DenseWorldV.bind DenseWorldV.raw?
  rw [List.find?_cons]
  have h1 : ((n, e).1 == x) = false := by simpa using h
  rw [h1]
  simp only []
  rw [HS.List.find?_filter_ne D x n (Ne.symm h)]

/-- what a view shows: field `i` of the parent's cells, over the parent's coverage -/
def viewF (p : DenseMapC) (i : Nat) (dt : DT) (s : Val) : DenseMapC :=
  ⟨⟨p.toDense.covord, p.toDense.spord, .plain dt, s, fun q => recField i (p.toDense.f q)⟩, p.cov⟩

/-- a descriptor resolved against the owning map `p` that now bears the parent's name: honoured
    only if the recorded sentinel is still the blank field `i` of `p` and `p` is a record map
    whose field `i` has the recorded (non-boolean) type -/
def resolveV (p : DenseMapC) (pn : String) (i : Nat) (dt : DT) (s : Val) :
    Option (DenseMapC × Option (String × Nat)) :=
  if s != recField i p.toDense.blank then none else
  match p.toDense.kind with
  | .recd fs _ =>
    (match fs[i]? with
     | some dt' =>
       if decide (dt' = dt ∧ dt ≠ .bool) then some (viewF p i dt' s, some (pn, i)) else none
     | none => none)
  | _ => none

/-- look a name up: the dense map it shows and — for a view — the (parent, field) it writes to -/
def DenseWorldV.get? (D : DenseWorldV) (n : String) : Option (DenseMapC × Option (String × Nat)) :=
  match D.raw? n with
  | none => none
  | some (.own d) => some (d, none)
  | some (.view pn i dt s) =>
    match D.raw? pn with
    | some (.own p) => resolveV p pn i dt s
    | _ => none

/-! ### the relation -/

/-- a world and a dense world with views agree: the same names; owning entries agree (`CorrC`);
    a descriptor is bound to the dense descriptor with the same parent, field, type and sentinel;
    every descriptor of the pool (shadowed ones included) is known as a descriptor -/
structure RelV (w : World) (D : DenseWorldV) : Prop where
  maps : ∀ x, match w.raw? x, D.raw? x with
    | some m, some (.own d) => CorrC m d
    | some m, some (.view pn i dt s) => m.view = some (pn, i) ∧ m.kind = .plain dt ∧ m.sent = s
    | none, none => True
    | _, _ => False
  descs : ∀ e ∈ w.pool, e.2.view ≠ none → ∃ pn i dt s, D.raw? e.1 = some (.view pn i dt s)

theorem relV_empty : RelV {} [] := ⟨fun _ => trivial, fun _ h => (nomatch h)⟩

/-- the two lookups agree: the resolved map (view flag apart) against the resolved dense map, and
    the view flag itself -/
def GetRel (r : Option MapObj) (r' : Option (DenseMapC × Option (String × Nat))) : Prop :=
  match r, r' with
  | some m, some dv => CorrC { m with view := none } dv.1 ∧ m.view = dv.2
  | none, none => True
  | _, _ => False

theorem corrC_unview {m : MapObj} {d : DenseMapC} (hc : CorrC m d) : CorrC { m with view := none } d :=
  ⟨⟨hc.corr.wf, rfl, hc.corr.covord, hc.corr.spord, hc.corr.kind, hc.corr.sent, hc.corr.abs⟩, hc.cov⟩

open ApiRecord in
/-- a descriptor against an owning parent -/
theorem view_get_corr {w : World} {x pn : String} {i : Nat} {m p : MapObj} {dp : DenseMapC}
    {dt : DT} {s : Val} (hr : w.raw? x = some m) (hv : m.view = some (pn, i))
    (hk : m.kind = .plain dt) (hs : m.sent = s) (hrp : w.raw? pn = some p) (hc : CorrC p dp) :
    GetRel (w.get? x) (resolveV dp pn i dt s) := by
  rw [get?_view hr hv hrp, hs, materializeView_eq]
  unfold resolveV
  have hbl : p.kind.blank p.sent = dp.toDense.blank := hc.corr.hdr_facts.2.2.2.2.2.2
  rw [hbl]
  by_cases h1 : (s != recField i dp.toDense.blank) = true
  · rw [if_pos h1, if_pos h1]; trivial
  · rw [if_neg h1, if_neg h1]
    have hsb : s = viewBlank p i := by
      have : s = recField i dp.toDense.blank := by simpa using h1
      rw [this, ← hbl]; rfl
    rw [hc.corr.kind]
    cases hkd : dp.toDense.kind with
    | recd fs pr =>
      simp only []
      cases hg : fs[i]? with
      | none => trivial
      | some dt' =>
        simp only []
        have hcond : ((viewOf p pn i dt' s m.cache).kind == m.kind && m.kind != .plain .bool)
            = decide (dt' = dt ∧ dt ≠ .bool) := by
          rw [hk]
          show ((Kind.plain dt' == Kind.plain dt) && (Kind.plain dt != Kind.plain .bool)) = _
          by_cases e1 : dt' = dt <;> by_cases e2 : dt = .bool <;> simp [e1, e2]
        rw [hcond]
        by_cases h2 : decide (dt' = dt ∧ dt ≠ .bool) = true
        · rw [if_pos h2, if_pos h2]
          obtain ⟨_, hwf, habs, _, _, _⟩ := view_spec hc.corr.wf pn i dt' s m.cache
          refine ⟨⟨⟨hwf hsb, rfl, hc.corr.covord, hc.corr.spord, rfl, rfl, fun q hq => ?_⟩,
            fun k hk' => hc.cov k hk'⟩, rfl⟩
          exact (habs q hq).trans (congrArg (recField i) (hc.corr.abs q hq))
        · rw [if_neg h2, if_neg h2]; trivial
    | plain _ => trivial
    | packed => trivial
    | wide _ => trivial

/-- **the two resolutions agree** -/
theorem relV_get {w : World} {D : DenseWorldV} (h : RelV w D) (x : String) :
    GetRel (w.get? x) (D.get? x) := by
  have hm := h.maps x
  cases hr : w.raw? x with
  | none =>
    have hg : w.get? x = none := by unfold World.get?; rw [hr]
    rw [hr] at hm
    rw [hg]
    unfold DenseWorldV.get?
    cases hd : D.raw? x with
    | none => trivial
    | some e => rw [hd] at hm; cases e <;> exact hm.elim
  | some m =>
    rw [hr] at hm
    unfold DenseWorldV.get?
    cases hd : D.raw? x with
    | none => rw [hd] at hm; exact hm.elim
    | some e =>
      rw [hd] at hm
      cases e with
      | own d =>
        rw [ApiRecord.get?_of_owning hr hm.corr.view]
        exact ⟨corrC_unview hm, hm.corr.view⟩
      | view pn i dt s =>
        obtain ⟨hv, hk, hs⟩ := hm
        simp only []
        have hp := h.maps pn
        cases hrp : w.raw? pn with
        | none =>
          have hg : w.get? x = none := by unfold World.get?; rw [hr]; simp only [hv, hrp]
          rw [hrp] at hp
          rw [hg]
          cases hdp : D.raw? pn with
          | none => trivial
          | some e => rw [hdp] at hp; cases e <;> exact hp.elim
        | some p =>
          rw [hrp] at hp
          cases hdp : D.raw? pn with
          | none => rw [hdp] at hp; exact hp.elim
          | some e =>
            rw [hdp] at hp
            cases e with
            | own dp => exact view_get_corr hr hv hk hs hrp hp
            | view pn' i' dt' s' =>
              -- the parent's name bears a descriptor: never resolved
              have hg : w.get? x = none := by
                rw [ApiRecord.get?_view hr hv hrp, ApiRecord.materializeView_eq, hp.2.1]
                split <;> rfl
              rw [hg]
              trivial

/-! ### storing -/

theorem RelV.bind {w : World} {D : DenseWorldV} (h : RelV w D) (n : String) {m : MapObj}
    {d : DenseMapC} (hc : CorrC { m with view := none } d) : RelV (w.bind n m) (D.bind n (.own d)) := by
  refine ⟨fun x => ?_, fun e he hev => ?_⟩
  · by_cases hx : x = n
    · subst hx
      rw [World.raw?_bind_self, rawV_bind_self]
      exact hc
    · rw [World.raw?_bind_ne w n m hx, rawV_bind_ne D (Ne.symm hx)]
      exact h.maps x
  · rcases List.mem_cons.1 he with rfl | he
    · exact absurd rfl hev
    · have hne : e.1 ≠ n := by simpa using (List.mem_filter.1 he).2
      rw [rawV_bind_ne D (Ne.symm hne)]
      exact h.descs e (List.mem_filter.1 he).1 hev

/-- storing, on the sparse side only, a map that agrees with what the name is bound to -/
theorem RelV.bind_left {w : World} {D : DenseWorldV} (h : RelV w D) (n : String) {m : MapObj}
    {d : DenseMapC} (hd : D.raw? n = some (.own d)) (hc : CorrC { m with view := none } d) :
    RelV (w.bind n m) D := by
  refine ⟨fun x => ?_, fun e he hev => ?_⟩
  · by_cases hx : x = n
    · subst hx
      rw [World.raw?_bind_self, hd]
      exact hc
    · rw [World.raw?_bind_ne w n m hx]
      exact h.maps x
  · rcases List.mem_cons.1 he with rfl | he
    · exact absurd rfl hev
    · exact h.descs e (List.mem_filter.1 he).1 hev

/-- registering a view descriptor on both sides -/
theorem RelV.register {w : World} {D : DenseWorldV} (h : RelV w D) (n r : String) (m : MapObj)
    (i : Nat) (dt : DT) (s : Val) :
    RelV (ApiRecord.register w n r m i dt s) (D.bind r (.view n i dt s)) := by
  refine ⟨fun x => ?_, fun e he hev => ?_⟩
  · by_cases hx : r = x
    · subst hx
      rw [ApiRecord.raw?_register_self, rawV_bind_self]
      exact ⟨rfl, rfl, rfl⟩
    · rw [ApiRecord.raw?_register_ne w n r m i dt s hx, rawV_bind_ne D hx]
      exact h.maps x
  · rcases List.mem_cons.1 he with rfl | he
    · exact ⟨n, i, dt, s, rawV_bind_self D r _⟩
    · have hne : e.1 ≠ r := by simpa using (List.mem_filter.1 he).2
      rw [rawV_bind_ne D (Ne.symm hne)]
      exact h.descs e (List.mem_filter.1 he).1 hev

/-! ### `update_values_pix` on a view: the call on the owning twin, then the growth guard -/

section viewcall
open ApiRanges

def growthS (m : MapObj) (pix : List Nat) : Bool :=
  pix.any fun p => decide (p < m.npix) && m.abs p == m.sent

def postView {α : Type} (g : Bool) (r : Except Err α) : Except Err α :=
  match r with
  | .ok x => if g then .error .runtime else .ok x
  | .error e => if e = .inexact ∧ g = true then .error .runtime else .error e

theorem postView_error {α : Type} (g : Bool) {e : Err} (he : e ≠ .inexact) :
    postView g (.error e : Except Err α) = .error e := by
  unfold postView
  simp only []
  rw [if_neg (fun h => he h.1)]

theorem frontErr_ne_inexact {m : MapObj} {op : String} {c : Bool} {e : Err}
    (h : frontErr m op c = some e) : e ≠ .inexact := by
  unfold frontErr at h
  repeat' (split at h)
  all_goals first | (cases h; done) | (cases h; exact fun h' => nomatch h')

theorem frontErr_nv (m : MapObj) (op : String) (c : Bool) :
    frontErr { m with view := none } op c = frontErr m op c := rfl
theorem clearValue_nv (m : MapObj) : clearValue { m with view := none } = clearValue m := rfl
theorem npix_nv (m : MapObj) : ({ m with view := none } : MapObj).npix = m.npix := rfl
theorem updSt_nv (m : MapObj) (op : String) (pix : List Nat) (vals : Option (List Val)) (single : Bool) :
    updSt { m with view := none } op pix vals single = updSt m op pix vals single := rfl

theorem growthS_eq {m : MapObj} {pix : List Nat} (h : ¬ (pix.any (· ≥ m.npix)) = true) :
    growthS m pix = pix.any fun p => m.abs p == m.sent := by
  unfold growthS
  have hl := WFApi.lt_of_not_any_ge h
  rw [Bool.eq_iff_iff, List.any_eq_true, List.any_eq_true]
  constructor
  · rintro ⟨p, hp, h2⟩; exact ⟨p, hp, by simpa [hl p hp] using h2⟩
  · rintro ⟨p, hp, h2⟩; exact ⟨p, hp, by simpa [hl p hp] using h2⟩

/-- the result of the call on the owning twin, with the view flag put back -/
def viewRes (mv : Option (String × Nat)) (r : Except Err MapObj) : Except Err MapObj :=
  match r with
  | .ok r => .ok { r with view := mv }
  | .error e => .error e

theorem pv_ite (g : Bool) (mv : Option (String × Nat)) (c : Prop) [Decidable c] {e : Err}
    (he : e ≠ .inexact) {x y : Except Err MapObj} (h : ¬ c → x = postView g (viewRes mv y)) :
    (if c then .error e else x) = postView g (viewRes mv (if c then .error e else y)) := by
  by_cases hc : c
  · rw [if_pos hc, if_pos hc]; exact (postView_error g he).symm
  · rw [if_neg hc, if_neg hc]; exact h hc

theorem pv_last_true (mv : Option (String × Nat)) (c : Prop) [Decidable c] (y : MapObj) :
    (Except.error .runtime : Except Err MapObj)
      = postView true (viewRes mv (if c then .error .inexact else .ok y)) := by
  by_cases hc : c
  · rw [if_pos hc]; rfl
  · rw [if_neg hc]; rfl

theorem pv_last_false (mv : Option (String × Nat)) (c : Prop) [Decidable c] (y y' : MapObj)
    (h : y' = { y with view := mv }) :
    (if c then .error .inexact else .ok y')
      = postView false (viewRes mv (if c then (.error .inexact : Except Err MapObj) else .ok y)) := by
  subst h
  by_cases hc : c
  · rw [if_pos hc, if_pos hc]; rfl
  · rw [if_neg hc, if_neg hc]; rfl

theorem apiUpdate_view (m : MapObj) (hv : m.view.isSome = true) (op : String) (pix : List Nat)
    (vals : Option (List Val)) (single : Bool) (ru : Option Bool) :
    apiUpdate m op pix vals single ru =
      postView (growthS m pix)
        (viewRes m.view (apiUpdate { m with view := none } op pix vals single ru)) := by
  rw [apiUpdate_eq, apiUpdate_eq]
  unfold apiUpdateSpec
  simp only [frontErr_nv, clearValue_nv, npix_nv, updSt_nv, hv, Bool.true_and, Option.isSome_none,
    Bool.false_and, Bool.false_eq_true, if_false]
  cases hfe : frontErr m op vals.isNone with
  | some e => simp only []; exact (postView_error _ (frontErr_ne_inexact hfe)).symm
  | none =>
    simp only []
    by_cases c1 : pix.isEmpty = true
    · have : pix = [] := by simpa using c1
      subst this
      simp only [List.isEmpty_nil, if_true]
      rfl
    · rw [if_neg c1, if_neg c1]
      refine pv_ite _ _ _ (by decide) fun _ => ?_
      refine pv_ite _ _ _ (by decide) fun _ => ?_
      refine pv_ite _ _ _ (by decide) fun _ => ?_
      refine pv_ite _ _ _ (by decide) fun c5 => ?_
      rw [growthS_eq c5]
      by_cases c6 : (pix.any fun p => m.abs p == m.sent) = true
      · rw [if_pos c6, c6]
        exact pv_last_true _ _ _
      · rw [if_neg c6, eq_false_of_ne_true c6]
        exact pv_last_false _ _ _ _ rfl


end viewcall

/-! ### the dense side of a call on a view -/

/-- would the call create a valid pixel: an addressed pixel of the sphere reads as the sentinel -/
def growthD (d : DenseMap) (pix : List Nat) : Bool :=
  pix.any fun p => decide (p < d.npix) && d.f p == d.sent

/-- `update_values_pix` on the dense array a view shows: the validation chain of `dUpdate`, and —
    once pixel list and values are in order — `RuntimeError` if an addressed pixel is not valid
    in the view yet -/
def dUpdateView (d : DenseMap) (op : String) (pix : List Nat) (vals : Option (List Val))
    (single : Bool) (ru : Option Bool) : Except Err DenseMap :=
  postView (growthD d pix) (dUpdate d op pix vals single ru)

/-- two outcomes of a call on a view agree: the same error, or results that agree (view flag
    apart) and keep the flag -/
def OutRelV (mv : Option (String × Nat)) (r : Except Err MapObj) (r' : Except Err DenseMap) : Prop :=
  match r, r' with
  | .ok m', .ok d' => Corr { m' with view := none } d' ∧ m'.view = mv
  | .error e, .error e' => e = e'
  | _, _ => False

theorem corr_unview {m : MapObj} {d : DenseMap} (hc : Corr m d) : Corr { m with view := none } d :=
  ⟨hc.wf, rfl, hc.covord, hc.spord, hc.kind, hc.sent, hc.abs⟩

theorem growth_eq {m : MapObj} {d : DenseMap} (hc : Corr { m with view := none } d) (pix : List Nat) :
    growthS m pix = growthD d pix := by
  unfold growthS growthD
  have hn : m.npix = d.npix := hc.hdr_facts.2.2.2.2.1
  have hs : m.sent = d.sent := hc.sent
  rw [Bool.eq_iff_iff, List.any_eq_true, List.any_eq_true, hn, hs]
  constructor
  · rintro ⟨p, hp, h2⟩
    refine ⟨p, hp, ?_⟩
    rw [Bool.and_eq_true] at h2 ⊢
    have hlt : p < d.npix := by simpa using h2.1
    have ha : m.abs p = d.f p := hc.abs p (by rw [← hn] at hlt; exact hlt)
    rw [← ha]; exact h2
  · rintro ⟨p, hp, h2⟩
    refine ⟨p, hp, ?_⟩
    rw [Bool.and_eq_true] at h2 ⊢
    have hlt : p < d.npix := by simpa using h2.1
    have ha : m.abs p = d.f p := hc.abs p (by rw [← hn] at hlt; exact hlt)
    rw [ha]; exact h2

/-- **`update_values_pix` on a view and on the dense array it shows agree** -/
theorem apiUpdate_view_corr {m : MapObj} {d : DenseMap} (hv : m.view.isSome = true)
    (hc : Corr { m with view := none } d) (op : String) (pix : List Nat)
    (vals : Option (List Val)) (single : Bool) (ru : Option Bool) :
    OutRelV m.view (apiUpdate m op pix vals single ru) (dUpdateView d op pix vals single ru) := by
  rw [apiUpdate_view m hv]
  unfold dUpdateView
  rw [growth_eq hc]
  have := apiUpdate_corr hc op pix vals single ru
  revert this
  cases apiUpdate { m with view := none } op pix vals single ru <;>
    cases dUpdate d op pix vals single ru <;> intro hr
  · cases hr
    unfold postView viewRes
    simp only []
    split <;> exact rfl
  · exact hr.elim
  · exact hr.elim
  · unfold postView viewRes
    simp only []
    cases growthD d pix with
    | true => exact rfl
    | false =>
      have hr' : Corr _ _ := hr
      exact ⟨⟨hr'.wf, rfl, hr'.covord, hr'.spord, hr'.kind, hr'.sent, hr'.abs⟩, rfl⟩

/-- a view always takes the explicit path of the range form -/
theorem apiUpdateRanges_view_eq (m : MapObj) (hv : m.view.isSome = true) (op : String)
    (R : List (Nat × Nat)) (val : Option Val) (sl : Bool) :
    apiUpdateRanges m op R val sl =
      if R.isEmpty then apiUpdate m op [] (val.map fun v => [v]) true none
      else if R.any (fun ab => ab.2 > m.npix) then
        (match apiUpdate m op [0] (val.map fun v => [v]) true (some (ApiRanges.rawOk R)) with
         | .ok _ => .error .index
         | .error e => .error e)
      else apiUpdate m op (expand R) (val.map fun v => [v]) true (some (ApiRanges.rawOk R)) := by
  unfold apiUpdateRanges ApiRanges.rawOk
  simp only [bind, Except.bind, pure, Except.pure, throw, throwThe, MonadExceptOf.throw,
    hv, Bool.or_true, if_true]
  split
  · rfl
  · split
    · split <;> simp_all
    · rfl

/-- the range form on the dense array a view shows -/
def dRangesView (d : DenseMap) (op : String) (R : List (Nat × Nat)) (val : Option Val) :
    Except Err DenseMap :=
  if R.isEmpty then dUpdateView d op [] (val.map fun v => [v]) true none
  else if R.any (fun ab => ab.2 > d.npix) then
    (match dUpdateView d op [0] (val.map fun v => [v]) true (some (ApiRanges.rawOk R)) with
     | .ok _ => .error .index
     | .error e => .error e)
  else dUpdateView d op (expand R) (val.map fun v => [v]) true (some (ApiRanges.rawOk R))

theorem apiRanges_view_corr {m : MapObj} {d : DenseMap} (hv : m.view.isSome = true)
    (hc : Corr { m with view := none } d) (op : String) (R : List (Nat × Nat)) (val : Option Val)
    (sl : Bool) :
    OutRelV m.view (apiUpdateRanges m op R val sl) (dRangesView d op R val) := by
  rw [apiUpdateRanges_view_eq m hv]
  unfold dRangesView
  have hn : m.npix = d.npix := hc.hdr_facts.2.2.2.2.1
  rw [hn]
  split
  · exact apiUpdate_view_corr hv hc ..
  · split
    · have := apiUpdate_view_corr hv hc op [0] (val.map fun v => [v]) true (some (ApiRanges.rawOk R))
      revert this
      cases apiUpdate m op [0] (val.map fun v => [v]) true (some (ApiRanges.rawOk R)) <;>
        cases dUpdateView d op [0] (val.map fun v => [v]) true (some (ApiRanges.rawOk R)) <;>
        intro h <;> first | exact h | exact rfl | exact h.elim
    · exact apiUpdate_view_corr hv hc ..

/-! ### looking a target up in both worlds -/

def dWithMapV (D : DenseWorldV) (a : Args)
    (k : DenseMapC → Option (String × Nat) → DenseWorldV × String) : DenseWorldV × String :=
  match a.pos with
  | n :: _ => match D.get? n with
    | some dv => k dv.1 dv.2
    | none => (D, "bad-op:no-such-map")
  | [] => (D, "bad-op:no-map-name")

theorem relV_withMap {w : World} {D : DenseWorldV} {a : Args} {k : MapObj → World × String}
    {k' : DenseMapC → Option (String × Nat) → DenseWorldV × String} (h : RelV w D)
    (hk : ∀ m d v, w.get? (a.pos.headD "") = some m → D.get? (a.pos.headD "") = some (d, v) →
      CorrC { m with view := none } d → m.view = v →
      RelV (k m).1 (k' d v).1 ∧ (k m).2 = (k' d v).2) :
    RelV (withMap w a k).1 (dWithMapV D a k').1 ∧ (withMap w a k).2 = (dWithMapV D a k').2 := by
  unfold withMap dWithMapV
  cases hpos : a.pos with
  | nil => exact ⟨h, rfl⟩
  | cons n rest =>
    simp only []
    have hg := relV_get h n
    have hn : a.pos.headD "" = n := by rw [hpos]; rfl
    cases hm : w.get? n with
    | none =>
      rw [hm] at hg
      cases hd : D.get? n with
      | none => exact ⟨h, rfl⟩
      | some dv => rw [hd] at hg; exact hg.elim
    | some m =>
      rw [hm] at hg
      cases hd : D.get? n with
      | none => rw [hd] at hg; exact hg.elim
      | some dv =>
        rw [hd] at hg
        obtain ⟨d, v⟩ := dv
        exact hk m d v (by rw [hn]; exact hm) (by rw [hn]; exact hd) hg.1 hg.2

theorem corrC_of_unview {m : MapObj} {d : DenseMapC} (hc : CorrC { m with view := none } d)
    (hv : m.view = none) : CorrC m d :=
  ⟨⟨hc.corr.wf, hv, hc.corr.covord, hc.corr.spord, hc.corr.kind, hc.corr.sent, hc.corr.abs⟩, hc.cov⟩

/-- a name that resolves without the view flag is bound to an owning entry -/
theorem getV_own {D : DenseWorldV} {n : String} {d : DenseMapC} (h : D.get? n = some (d, none)) :
    D.raw? n = some (.own d) := by
  unfold DenseWorldV.get? at h
  split at h
  · cases h
  · rename_i d' hd; cases h; exact hd
  · split at h
    · unfold resolveV at h
      repeat' (split at h)
      all_goals cases h
    · cases h

/-! ### stores on an owning target -/

theorem RelV.put {w : World} {D : DenseWorldV} (h : RelV w D) (n : String) {m : MapObj}
    {d : DenseMapC} (hc : CorrC m d) : RelV (w.put n m) (D.bind n (.own d)) := by
  rw [World.put_eq_bind hc.corr.view]; exact h.bind n (corrC_unview hc)

theorem RelV.put_left {w : World} {D : DenseWorldV} (h : RelV w D) (n : String) {m : MapObj}
    {d : DenseMapC} (hd : D.raw? n = some (.own d)) (hc : CorrC m d) : RelV (w.put n m) D := by
  rw [World.put_eq_bind hc.corr.view]; exact h.bind_left n hd (corrC_unview hc)

/-- a write request on an owning target: `ApiDenseCov.dRunReqC` in the world with views -/
def dRunReqOwn (D : DenseWorldV) (n : String) (d : DenseMapC) : WReq → DenseWorldV × String
  | .bad s => (D, s)
  | .reject => (D, errLine .value)
  | .upd op pix vals single =>
    match dUpdate d.toDense op pix vals single none with
    | .ok d' => (D.bind n (.own ⟨d', grown d (.upd op pix vals single)⟩), "ok")
    | .error e => (D, errLine e)
  | .ranges op R val sl =>
    match dRanges d.toDense op R val sl with
    | .ok d' => (D.bind n (.own ⟨d', grown d (.ranges op R val sl)⟩), "ok")
    | .error e => (D, errLine e)

theorem relV_runReqOwn {w : World} {D : DenseWorldV} (h : RelV w D) {n : String} {m : MapObj}
    {d : DenseMapC} (hd : D.raw? n = some (.own d)) (hc : CorrC m d) (req : WReq) :
    RelV (runReq w n m req).1 (dRunReqOwn D n d req).1 ∧
      (runReq w n m req).2 = (dRunReqOwn D n d req).2 := by
  cases req with
  | bad s => exact ⟨h, rfl⟩
  | reject => exact ⟨h.put_left n hd (hc.cache none), rfl⟩
  | upd op pix vals single =>
    have := apiUpdate_corr hc.corr op pix vals single none
    simp only [runReq, dRunReqOwn]
    revert this
    cases hA : apiUpdate m op pix vals single <;>
      cases dUpdate d.toDense op pix vals single none <;> intro hr
    · cases hr; exact ⟨h.put_left n hd (hc.cache none), rfl⟩
    · exact hr.elim
    · exact hr.elim
    · rename_i m' d'
      refine ⟨h.put n ⟨hr, fun k hk => ?_⟩, rfl⟩
      have hcm : m'.c = m.c := by rw [(ApiRanges.apiUpdate_ok hA).2.2]; rfl
      rw [hcm] at hk ⊢
      rw [apiUpdate_cov hc.corr.wf hA k hk, hc.cov k hk, hc.c_eq]
      rfl
  | ranges op R val sl =>
    have := apiRanges_corr hc.corr op R val sl
    simp only [runReq, dRunReqOwn]
    revert this
    cases hA : apiUpdateRanges m op R val sl <;> cases hB : dRanges d.toDense op R val sl <;> intro hr
    · cases hr; exact ⟨h.put_left n hd (hc.cache none), rfl⟩
    · exact hr.elim
    · exact hr.elim
    · rename_i m' d'
      refine ⟨h.put n ⟨hr, fun k hk => ?_⟩, rfl⟩
      have hcm : m'.c = m.c := by
        unfold MapObj.c; rw [hr.covord, hr.spord, hc.corr.covord, hc.corr.spord]
        have := dRanges_ok hB
        rw [this.1, this.2.1]
      rw [hcm] at hk ⊢
      rw [apiRanges_cov hc.corr.wf hc.corr.view hA k hk, hc.cov k hk, hc.c_eq]
      rfl

/-! ### stores through a view -/

section putview
open ApiRecord

/-- **a store through a view, relation level**: the sparse world after `put` through the view
    `vn` of field `i` of `pn` is related to any dense world that differs from `D` at `pn` only,
    where it holds a dense map agreeing with the written-back parent -/
theorem relV_put_view {w : World} {D D' : DenseWorldV} (h : RelV w D) (hw : w.Good)
    {vn pn : String} {i : Nat} {v v' : MapObj} {dp' : DenseMapC}
    (hget : w.get? vn = some v) (hview : v.view = some (pn, i))
    (hv'v : v'.view = v.view) (hv'k : v'.kind = v.kind) (hv's : v'.sent = v.sent)
    (hD'pn : D'.raw? pn = some (.own dp')) (hD'ne : ∀ x, x ≠ pn → D'.raw? x = D.raw? x)
    (hc' : ∀ p, w.raw? pn = some p → CorrC (writeBackView p i v') dp') :
    RelV (w.put vn v') D' := by
  obtain ⟨d0, p, fs, pr, dt, hd, hdv, hp, hpv, _, _, hk, hg, _, hkd, hds, _, hv, _, hne⟩ :=
    view_resolved hw hget hview
  have hsome : v'.view.isSome = true := by rw [hv'v, hview]; rfl
  obtain ⟨r1, r2, r3⟩ := raw?_put_view hd hdv hp hsome hne
  have hvk : v.kind = .plain dt := by rw [hv]; rfl
  have hDvn : ∃ dt' s', D.raw? vn = some (.view pn i dt' s') ∧ d0.kind = .plain dt' ∧ d0.sent = s' := by
    have hm := h.maps vn
    rw [hd] at hm
    cases hdx : D.raw? vn with
    | none => rw [hdx] at hm; exact hm.elim
    | some e =>
      rw [hdx] at hm
      cases e with
      | own d => exact absurd hm.corr.view (by rw [hdv]; exact fun h => nomatch h)
      | view pn' i' dt' s' =>
        obtain ⟨e1, e2, e3⟩ := hm
        rw [hdv] at e1
        cases e1
        exact ⟨dt', s', rfl, e2, e3⟩
  obtain ⟨dt', s', hDv, hk0, hs0⟩ := hDvn
  refine ⟨fun x => ?_, fun e he hev => ?_⟩
  · by_cases hx1 : x = pn
    · subst hx1; rw [r1, hD'pn]; exact hc' p hp
    · by_cases hx2 : x = vn
      · subst hx2
        rw [r2, hD'ne _ hx1, hDv]
        refine ⟨?_, ?_, ?_⟩
        · show v'.view = _; rw [hv'v, hview]
        · show v'.kind = _; rw [hv'k, hvk, ← hkd, hk0]
        · show v'.sent = _; rw [hv's, ← hds, hs0]
      · rw [r3 x hx2 hx1, hD'ne x hx1]; exact h.maps x
  · rw [put_view hd hdv hp hsome] at he
    rcases List.mem_cons.1 he with rfl | he
    · exact ⟨pn, i, dt', s', by rw [hD'ne vn hne]; exact hDv⟩
    · rcases List.mem_cons.1 he with rfl | he
      · exact absurd (show (writeBackView p i v').view = none from hpv) hev
      · have hmem := List.mem_filter.1 he
        have hne' : e.1 ≠ pn := by
          have := hmem.2
          simp only [Bool.and_eq_true, bne_iff_ne, ne_eq] at this
          exact this.2
        rw [hD'ne _ hne']
        exact h.descs e hmem.1 hev

/-- **a refused store through a view** (the looked-up view stored back with its cache reset):
    the unchanged column is written back, the dense world stays as it is -/
theorem relV_put_view_same {w : World} {D : DenseWorldV} (h : RelV w D) (hw : w.Good)
    {vn pn : String} {i : Nat} {v : MapObj} {dp : DenseMapC}
    (hget : w.get? vn = some v) (hview : v.view = some (pn, i))
    (hdp : D.raw? pn = some (.own dp)) :
    RelV (w.put vn { v with cache := none }) D := by
  obtain ⟨d0, p, fs, pr, dt, hd, hdv, hp, hpv, _, _, hk, hg, _, hkd, hds, _, hv, _, hne⟩ :=
    view_resolved hw hget hview
  have hcp : CorrC p dp := by
    have := h.maps pn
    rw [hp, hdp] at this
    exact this
  refine relV_put_view h hw hget hview rfl rfl rfl hdp (fun _ _ => rfl) fun p0 hp0 => ?_
  rw [hp] at hp0
  cases hp0
  have hst : (writeBackView p i { v with cache := none }).st = p.st :=
    ApiRanges.writeBackView_same i (by show v.st = _; rw [hv]; rfl)
  have e : writeBackView p i { v with cache := none } = { p with cache := none } := by
    unfold writeBackView at hst ⊢
    simp only at hst
    rw [hst]
  rw [e]
  exact hcp.cache none

/-- the parent's cells after a write through the view of field `i`: field `i` replaced by what the
    updated view shows -/
def wbF (dp : DenseMap) (i : Nat) (dv' : DenseMap) : Nat → Val := fun q =>
  recSetField i (dp.f q) (dv'.f q)

/-- the parent after a write through the view of field `i`; header and mask kept -/
def writeBackF (dp : DenseMapC) (i : Nat) (dv' : DenseMap) : DenseMapC :=
  ⟨{ dp.toDense with f := wbF dp.toDense i dv' }, dp.cov⟩

/-- **a library call on a looked-up view, stored back**: accepted → the parent's dense map gets
    field `i` of the updated dense view; refused → the dense world is unchanged; same answer -/
theorem relV_view_write {w : World} {D : DenseWorldV} (h : RelV w D) (hw : w.Good)
    {vn pn : String} {i : Nat} {v : MapObj} {dp : DenseMapC}
    (hget : w.get? vn = some v) (hview : v.view = some (pn, i))
    (hdp : D.raw? pn = some (.own dp))
    {r : Except Err MapObj} {r' : Except Err DenseMap} (hr : OutRelV v.view r r')
    (hupd : ∀ v', r = .ok v' → ∃ op pix vals single ru, apiUpdate v op pix vals single ru = .ok v') :
    RelV (match r with
        | .ok v' => (w.put vn v', "ok")
        | .error e => (w.put vn { v with cache := none }, errLine e)).1
      (match r' with
        | .ok dv' => (D.bind pn (.own (writeBackF dp i dv')), "ok")
        | .error e => (D, errLine e)).1 ∧
    (match r with
        | .ok v' => (w.put vn v', "ok")
        | .error e => (w.put vn { v with cache := none }, errLine e)).2 =
      (match r' with
        | .ok dv' => (D.bind pn (.own (writeBackF dp i dv')), "ok")
        | .error e => (D, errLine e)).2 := by
  cases r with
  | error e =>
    cases r' with
    | error e' => cases hr; exact ⟨relV_put_view_same h hw hget hview hdp, rfl⟩
    | ok _ => exact hr.elim
  | ok v' =>
    cases r' with
    | error _ => exact hr.elim
    | ok dv' =>
      obtain ⟨hcv', hvv⟩ := hr
      obtain ⟨op, pix, vals, single, ru, hu⟩ := hupd v' rfl
      obtain ⟨d0, p, fs, pr, dt, hd, hdv, hp, hpv, hpok, _, hk, hg, _, hkd, hds, _, hv, hs, hne⟩ :=
        view_resolved hw hget hview
      have hcp : CorrC p dp := by
        have := h.maps pn
        rw [hp, hdp] at this
        exact this
      have hv'eq := (ApiRanges.apiUpdate_ok hu).2.2
      have hk' : v'.kind = v.kind := by rw [hv'eq]
      have hs' : v'.sent = v.sent := by rw [hv'eq]
      refine ⟨relV_put_view h hw hget hview hvv hk' hs' (rawV_bind_self D pn _)
        (fun x hx => rawV_bind_ne D (Ne.symm hx) _) fun p0 hp0 => ?_, rfl⟩
      rw [hp] at hp0
      cases hp0
      rw [hv] at hu
      obtain ⟨h1, _, h3, h4, h5, h6, h7, _, h9, h10, _, _⟩ := view_update_spec hpok.1 hk hg hs hu
      refine ⟨⟨h1, h7.trans hpv, h5.trans hcp.corr.covord, h6.trans hcp.corr.spord,
        h3.trans hcp.corr.kind, h4.trans hcp.corr.sent, fun q hq => ?_⟩, fun k hk' => ?_⟩
      · have hq' : q < p.npix := hq
        rw [h10 q hq']
        show _ = wbF dp.toDense i dv' q
        unfold wbF
        rw [hcp.corr.abs q hq']
        congr 1
        have hnp : ({ v' with view := none } : MapObj).npix = p.npix := by
          show v'.npix = _; rw [hv'eq, hv]; rfl
        exact hcv'.abs q (by rw [hnp]; exact hq')
      · have hk'' : k < p.c.ncov := hk'
        exact (h9 k).trans (hcp.cov k hk'')

end putview

/-! ### the write lines on either kind of target -/

/-- a write request on a view target: the call on the dense array the view shows, an accepted
    result written into field `i` of the parent -/
def dRunReqView (D : DenseWorldV) (pn : String) (i : Nat) (dp dv : DenseMapC) :
    WReq → DenseWorldV × String
  | .bad s => (D, s)
  | .reject => (D, errLine .value)
  | .upd op pix vals single =>
    match dUpdateView dv.toDense op pix vals single none with
    | .ok dv' => (D.bind pn (.own (writeBackF dp i dv')), "ok")
    | .error e => (D, errLine e)
  | .ranges op R val _ =>
    match dRangesView dv.toDense op R val with
    | .ok dv' => (D.bind pn (.own (writeBackF dp i dv')), "ok")
    | .error e => (D, errLine e)

/-- a write request on the looked-up target -/
def dRunReqV (D : DenseWorldV) (n : String) (d : DenseMapC) (v : Option (String × Nat))
    (req : WReq) : DenseWorldV × String :=
  match v with
  | none => dRunReqOwn D n d req
  | some (pn, i) =>
    match D.raw? pn with
    | some (.own dp) => dRunReqView D pn i dp d req
    | _ => (D, "bad-op:no-parent")

theorem relV_runReqV {w : World} {D : DenseWorldV} (h : RelV w D) (hw : w.Good) {n : String}
    {m : MapObj} {d : DenseMapC} {v : Option (String × Nat)} (hg : w.get? n = some m)
    (hd : D.get? n = some (d, v)) (hc : CorrC { m with view := none } d) (hmv : m.view = v)
    (req : WReq) :
    RelV (runReq w n m req).1 (dRunReqV D n d v req).1 ∧
      (runReq w n m req).2 = (dRunReqV D n d v req).2 := by
  cases v with
  | none => exact relV_runReqOwn h (getV_own hd) (corrC_of_unview hc hmv) req
  | some pi =>
    obtain ⟨pn, i⟩ := pi
    obtain ⟨d0, p, fs, pr, dt, _, _, hp, hpv, _, _, _, _, _, _, _, _, _, _, _⟩ :=
      ApiRecord.view_resolved hw hg hmv
    have hdp : ∃ dp, D.raw? pn = some (.own dp) := by
      have hm := h.maps pn
      rw [hp] at hm
      cases hdx : D.raw? pn with
      | none => rw [hdx] at hm; exact hm.elim
      | some e =>
        rw [hdx] at hm
        cases e with
        | own dp => exact ⟨dp, rfl⟩
        | view _ _ _ _ => exact absurd hm.1 (by rw [hpv]; exact fun h => nomatch h)
    obtain ⟨dp, hdp⟩ := hdp
    have hsome : m.view.isSome = true := by rw [hmv]; rfl
    simp only [dRunReqV, hdp]
    cases req with
    | bad s => exact ⟨h, rfl⟩
    | reject => exact ⟨relV_put_view_same h hw hg hmv hdp, rfl⟩
    | upd op pix vals single =>
      have hr := apiUpdate_view_corr hsome hc.corr op pix vals single none
      have key := relV_view_write h hw hg hmv hdp hr
        (fun v' hv' => ⟨op, pix, vals, single, none, hv'⟩)
      simp only [runReq, dRunReqView]
      revert key
      cases apiUpdate m op pix vals single none <;>
        cases dUpdateView d.toDense op pix vals single none <;> intro key <;> exact key
    | ranges op R val sl =>
      have hr := apiRanges_view_corr hsome hc.corr op R val sl
      have key := relV_view_write h hw hg hmv hdp hr
        (fun v' hv' => by
          obtain ⟨ru, hu⟩ := ApiRecord.apiUpdateRanges_view_ok hsome hv'
          exact ⟨op, _, _, _, ru, hu⟩)
      simp only [runReq, dRunReqView]
      revert key
      cases apiUpdateRanges m op R val sl <;>
        cases dRangesView d.toDense op R val <;> intro key <;> exact key

/-! ### the lines on a dense world with views -/

def dCfgV (D : DenseWorldV) (a : Args) : DenseWorldV × String :=
  match cfgReq a with
  | some (n, kind, co, so, sent, cp) =>
    (match apiMakeEmpty co so kind sent cp with
     | .ok m => (D.bind n (.own (dEmptyC m cp)), "ok")
     | .error e => (D, errLine e))
  | none => (D, "bad-op:cfg")

def dGetV (D : DenseWorldV) (a : Args) : DenseWorldV × String :=
  dWithMapV D a fun d _ =>
    (D, getAnswer a d.toDense.spord d.toDense.npix d.toDense.f (d.toDense.kind.valid d.toDense.sent))

def dValsV (D : DenseWorldV) (a : Args) : DenseWorldV × String :=
  dWithMapV D a fun d _ => (D, showVals ((List.range d.toDense.npix).map d.toDense.f))

def dValidV (D : DenseWorldV) (a : Args) : DenseWorldV × String :=
  dWithMapV D a fun d _ =>
    (D, showList toString ((ApiDenseScalar.dValidSet d.toDense).map fun p => ((p : Nat) : Int)))

def dNvalidV (D : DenseWorldV) (a : Args) : DenseWorldV × String :=
  dWithMapV D a fun d _ => (D, toString (ApiDenseScalar.dValidSet d.toDense).length)

def dCovmapV (D : DenseWorldV) (a : Args) : DenseWorldV × String :=
  dWithMapV D a fun d _ =>
    (D, showNats ((List.range d.c.ncov).map fun k =>
      ((ApiDenseScalar.dValidSet d.toDense).filter fun p => p >>> d.c.shift == k).length))

def dCovmaskV (D : DenseWorldV) (a : Args) : DenseWorldV × String :=
  dWithMapV D a fun d _ => (D, showBits d.covMask)

/-- `copy`: an independent owning map with what the name shows (a copy of a view owns its data) -/
def dCopyV (D : DenseWorldV) (a : Args) : DenseWorldV × String :=
  dWithMapV D a fun d _ => (D.bind (a.getD "r" "tmp") (.own d), "ok")

def dScovV (D : DenseWorldV) (a : Args) : DenseWorldV × String :=
  dWithMapV D a fun d _ =>
    match a.nat? "k" with
    | none => (D, "bad-op:k")
    | some k =>
      if k ≥ d.c.ncov then (D, errLine .index)
      else (D.bind (a.getD "r" "tmp") (.own (dScov d k)), "ok")

/-- a `single` request on the looked-up dense map: the copy is an owning entry, the view form
    registers a descriptor -/
def dRunSingleV (D : DenseWorldV) (a : Args) (d : DenseMapC) : SReq → DenseWorldV × String
  | .bad s => (D, s)
  | .copy i sent =>
    match dSingleCopy d i sent with
    | .ok r => (D.bind (a.getD "r" "tmp") (.own r), "ok")
    | .error e => (D, errLine e)
  | .view i sent =>
    match viewSent d.toDense.hdr i sent with
    | .ok ds => (D.bind (a.getD "r" "tmp") (.view (a.pos.headD "") i ds.1 ds.2), "ok")
    | .error e => (D, errLine e)

def dSingleV (D : DenseWorldV) (a : Args) : DenseWorldV × String :=
  dWithMapV D a fun d _ => dRunSingleV D a d (singleReq a d.toDense.kind)

section lines
variable {w : World} {D : DenseWorldV}

theorem relV_cfg (h : RelV w D) (a : Args) :
    RelV (opCfg w a).1 (dCfgV D a).1 ∧ (opCfg w a).2 = (dCfgV D a).2 := by
  rw [opCfg_eq]
  unfold dCfgV
  cases cfgReq a with
  | none => exact ⟨h, rfl⟩
  | some r =>
    obtain ⟨n, kind, co, so, sent, cp⟩ := r
    simp only []
    cases hm : apiMakeEmpty co so kind sent cp with
    | error e => exact ⟨h, rfl⟩
    | ok m => exact ⟨h.bind n (corrC_unview (apiMakeEmpty_corrC hm)), rfl⟩

theorem relV_get_line (h : RelV w D) (a : Args) :
    RelV (opGet w a).1 (dGetV D a).1 ∧ (opGet w a).2 = (dGetV D a).2 := by
  rw [opGet_eq]
  unfold dGetV
  refine relV_withMap h fun m d v _ _ hc _ => ⟨h, ?_⟩
  obtain ⟨e1, e2, e3⟩ := hc.corr.read_facts
  have e1' : m.spord = d.toDense.spord := e1
  have e2' : m.npix = d.toDense.npix := e2
  have e3' : m.vc.valid = d.toDense.kind.valid d.toDense.sent := e3
  show getAnswer a m.spord m.npix m.abs m.vc.valid = _
  rw [e1', e2', e3']
  exact getAnswer_congr a _ _ _ _ _ fun p hp => hc.corr.abs p (by rw [e2]; exact hp)

theorem relV_vals (h : RelV w D) (a : Args) :
    RelV (opVals w a).1 (dValsV D a).1 ∧ (opVals w a).2 = (dValsV D a).2 := by
  rw [opVals_eq]
  unfold dValsV
  refine relV_withMap h fun m d v _ _ hc _ => ⟨h, ?_⟩
  have e2 : m.npix = d.toDense.npix := hc.corr.read_facts.2.1
  show showVals ((List.range m.npix).map m.abs) = showVals ((List.range d.toDense.npix).map d.toDense.f)
  rw [e2]
  congr 1
  exact List.map_congr_left fun p hp =>
    hc.corr.abs p (by rw [hc.corr.read_facts.2.1]; exact List.mem_range.1 hp)

theorem relV_valid (h : RelV w D) (hw : w.Good) (a : Args) :
    RelV (opValid w a).1 (dValidV D a).1 ∧ (opValid w a).2 = (dValidV D a).2 := by
  unfold opValid dValidV
  refine relV_withMap h fun m d v hg _ hc _ => ?_
  obtain ⟨_, _, _, l, hl, _, _, hs⟩ := C02.valid_listings (hw.get hg)
  simp only [hl]
  refine ⟨h, ?_⟩
  rw [hs]
  show showList toString ((C02.validSet m.c m.vc m.st).map _) = _
  have := ApiDenseScalar.corr_validSet hc.corr
  have e : C02.validSet m.c m.vc m.st = ApiDenseScalar.dValidSet d.toDense := this
  rw [e]

theorem relV_covmap (h : RelV w D) (hw : w.Good) (a : Args) :
    RelV (opCovmap w a).1 (dCovmapV D a).1 ∧ (opCovmap w a).2 = (dCovmapV D a).2 := by
  unfold opCovmap dCovmapV
  refine relV_withMap h fun m d v hg _ hc _ => ⟨h, ?_⟩
  show showNats (coverageCounts m.c m.vc m.st) = _
  have e0 := ApiDenseScalar.corr_validSet hc.corr
  have e : C02.validSet m.c m.vc m.st = ApiDenseScalar.dValidSet d.toDense := e0
  have ec : m.c = d.c := hc.c_eq
  rw [ApiDenseScalar.coverageCounts_dense (hw.get hg), e, ec]

theorem relV_nvalid (h : RelV w D) (hw : w.Good2) (a : Args) (hpath : a.get? "path" ≠ some "str") :
    RelV (opNvalid w a).1 (dNvalidV D a).1 ∧ (opNvalid w a).2 = (dNvalidV D a).2 := by
  unfold opNvalid dNvalidV
  refine relV_withMap h fun m d v hg hd hc hmv => ?_
  have hok := hw.1.get hg
  have hfresh := hw.2.get hg
  have e0 := ApiDenseScalar.corr_validSet hc.corr
  have e : C02.validSet m.c m.vc m.st = ApiDenseScalar.dValidSet d.toDense := e0
  have hcount : nValid m.vc m.st = (ApiDenseScalar.dValidSet d.toDense).length := by
    rw [C02.nValid_eq m.c m.vc m.st hok.1.2 hok.2.1.blankInvalid, e]
  have hp : (a.get? "path" == some "str") = false := by simpa using hpath
  cases hca : m.cache with
  | some n =>
    simp only []
    refine ⟨h, ?_⟩
    rw [hfresh n hca, hcount]
  | none =>
    cases v with
    | none =>
      have hvs : m.view.isSome = false := by rw [hmv]; rfl
      simp only [hp, Bool.false_and, Bool.false_eq_true, if_false, hvs]
      exact ⟨h.put_left _ (getV_own hd) ((corrC_of_unview hc hmv).cache _), by rw [hcount]⟩
    | some x =>
      have hvs : m.view.isSome = true := by rw [hmv]; rfl
      simp only [hp, Bool.false_and, Bool.false_eq_true, if_false, hvs, if_true]
      exact ⟨h, by rw [hcount]⟩

theorem relV_covmask (h : RelV w D) (a : Args) :
    RelV (opCovmask w a).1 (dCovmaskV D a).1 ∧ (opCovmask w a).2 = (dCovmaskV D a).2 := by
  unfold opCovmask dCovmaskV
  refine relV_withMap h fun m d v _ _ hc _ => ⟨h, ?_⟩
  have e := hc.covMask_eq
  show showBits (apiCovMask m) = showBits d.covMask
  have e' : apiCovMask m = d.covMask := e
  rw [e']

theorem relV_copy (h : RelV w D) (a : Args) :
    RelV (opCopy w a).1 (dCopyV D a).1 ∧ (opCopy w a).2 = (dCopyV D a).2 := by
  unfold opCopy dCopyV
  exact relV_withMap h fun m d v _ _ hc _ => ⟨h.bind _ (hc.cache none), rfl⟩

theorem relV_scov (h : RelV w D) (a : Args) :
    RelV (opScov w a).1 (dScovV D a).1 ∧ (opScov w a).2 = (dScovV D a).2 := by
  unfold opScov dScovV
  refine relV_withMap h fun m d v _ _ hc _ => ?_
  cases a.nat? "k" with
  | none => exact ⟨h, rfl⟩
  | some k =>
    simp only []
    have ec : m.c = d.c := hc.c_eq
    rw [← ec]
    by_cases hk : k ≥ m.c.ncov
    · rw [if_pos hk, if_pos hk]; exact ⟨h, rfl⟩
    · rw [if_neg hk, if_neg hk]
      exact ⟨h.bind _ (scov_corrC hc (Nat.lt_of_not_ge hk)), rfl⟩

theorem relV_single (h : RelV w D) (hw : w.Good) (a : Args) :
    RelV (opSingle w a).1 (dSingleV D a).1 ∧ (opSingle w a).2 = (dSingleV D a).2 := by
  rw [opSingle_eq]
  unfold dSingleV
  refine relV_withMap h fun m d v hg _ hc _ => ?_
  have hk : m.kind = d.toDense.kind := hc.corr.kind
  have hs : m.sent = d.toDense.sent := hc.corr.sent
  rw [hk]
  cases singleReq a d.toDense.kind with
  | bad s => exact ⟨h, rfl⟩
  | copy i sent =>
    have hr := apiGetSingleCopy_corrC hc (hw.get hg).2.1 i sent
    have hr' : OutRelM (apiGetSingleCopy m i sent) (dSingleCopy d i sent) := hr
    simp only [runSingle, dRunSingleV]
    revert hr'
    cases apiGetSingleCopy m i sent <;> cases dSingleCopy d i sent <;> intro hr'
    · cases hr'; exact ⟨h, rfl⟩
    · exact hr'.elim
    · exact hr'.elim
    · exact ⟨h.bind _ (corrC_unview hr'), rfl⟩
  | view i sent =>
    simp only [runSingle, dRunSingleV]
    rw [viewSent_hdr hk hs]
    cases viewSent d.toDense.hdr i sent with
    | error e => exact ⟨h, rfl⟩
    | ok ds => exact ⟨h.register _ _ m i ds.1 ds.2, rfl⟩

end lines

/-! ### falling back to the interpreter of the five families (no descriptor in the pool) -/

/-- the dense map of an owning entry (a placeholder for a descriptor — never looked at when the
    pool holds no descriptor) -/
def EntV.ownD : EntV → DenseMapC
  | .own d => d
  | .view _ _ _ _ => ⟨⟨0, 0, .packed, .bool false, fun _ => .bool false⟩, fun _ => false⟩

def EntV.isOwn : EntV → Bool
  | .own _ => true
  | .view _ _ _ _ => false

/-- no view descriptor in the pool -/
def DenseWorldV.noViews (D : DenseWorldV) : Bool := D.all fun e => e.2.isOwn

/-- the owning entries as a coverage-aware dense world -/
def DenseWorldV.toC (D : DenseWorldV) : DenseWorldC := D.map fun e => (e.1, e.2.ownD)

/-- a coverage-aware dense world as a world with views (none) -/
def liftV (C : DenseWorldC) : DenseWorldV := C.map fun e => (e.1, EntV.own e.2)

theorem toC_get? (D : DenseWorldV) (x : String) : D.toC.get? x = (D.raw? x).map EntV.ownD := by
  unfold DenseWorldV.toC DenseWorldC.get? DenseWorldV.raw?
  induction D with
  | nil => rfl
  | cons e D ih =>
    rw [List.map_cons, List.find?_cons, List.find?_cons]
    cases h : e.1 == x
    · simp only []; exact ih
    · simp only []; rfl

theorem liftV_raw? (C : DenseWorldC) (x : String) : (liftV C).raw? x = (C.get? x).map EntV.own := by
  unfold liftV DenseWorldC.get? DenseWorldV.raw?
  induction C with
  | nil => rfl
  | cons e C ih =>
    rw [List.map_cons, List.find?_cons, List.find?_cons]
    cases h : e.1 == x
    · simp only []; exact ih
    · simp only []; rfl

theorem noViews_raw {D : DenseWorldV} {x : String} {e : EntV} (hD : D.noViews = true)
    (h : D.raw? x = some e) : ∃ d, e = .own d := by
  unfold DenseWorldV.raw? at h
  cases hf : D.find? (·.1 == x) with
  | none => rw [hf] at h; cases h
  | some e' =>
    rw [hf] at h
    cases h
    have hmem := List.mem_of_find?_eq_some hf
    have := (List.all_eq_true.1 hD) e' hmem
    cases hE : e'.2 with
    | own d => exact ⟨d, hE⟩
    | view _ _ _ _ => rw [hE] at this; cases this

theorem noViews_liftV (C : DenseWorldC) : (liftV C).noViews = true := by
  unfold DenseWorldV.noViews liftV
  rw [List.all_eq_true]
  intro e he
  obtain ⟨e', _, rfl⟩ := List.mem_map.1 he
  rfl

theorem relC_of_relV {w : World} {D : DenseWorldV} (h : RelV w D) (hD : D.noViews = true) :
    RelC w D.toC := by
  refine ⟨fun e he => ?_, fun x => ?_⟩
  · cases hview : e.2.view with
    | none => rfl
    | some pi =>
      obtain ⟨pn, i, dt, s, hr⟩ := h.descs e he (by rw [hview]; exact fun h => nomatch h)
      obtain ⟨d, hd⟩ := noViews_raw hD hr
      cases hd
  · rw [toC_get?]
    have hm := h.maps x
    revert hm
    cases w.raw? x <;> cases hr : D.raw? x <;> intro hm
    · trivial
    · rename_i e; cases e <;> exact hm.elim
    · exact hm.elim
    · obtain ⟨d, rfl⟩ := noViews_raw hD hr
      exact hm

theorem relV_of_relC {w : World} {C : DenseWorldC} (h : RelC w C) : RelV w (liftV C) := by
  refine ⟨fun x => ?_, fun e he hv => absurd (h.owning e he) hv⟩
  rw [liftV_raw?]
  have hm := h.maps x
  revert hm
  cases w.raw? x <;> cases C.get? x <;> intro hm <;> exact hm

/-- a line of the five families while the pool holds no descriptor: `ApiDenseAll.dstepArgsAll` on
    the owning entries -/
def dFallback (D : DenseWorldV) (op : String) (a : Args) : DenseWorldV × String :=
  (liftV (ApiDenseAll.dstepArgsAll D.toC op a).1, (ApiDenseAll.dstepArgsAll D.toC op a).2)

theorem relV_fallback {w : World} {D : DenseWorldV} (h : RelV w D) (hw : w.Good2)
    (hD : D.noViews = true) {op : String} (a : Args) (hp : ApiDenseAll.opOkAll op a = true) :
    RelV (stepArgs w op a).1 (dFallback D op a).1 ∧ (stepArgs w op a).2 = (dFallback D op a).2 := by
  obtain ⟨h1, h2⟩ := ApiDenseAll.rel_stepArgsAll (relC_of_relV h hD) hw a hp
  exact ⟨relV_of_relC h1, h2⟩

/-! ### the interpreter -/

/-- the operations interpreted directly on the world with views (owning and view targets) -/
def viewOp (op : String) : Bool :=
  op == "cfg" || op == "upd" || op == "updr" || op == "set" || op == "get" || op == "vals" ||
  op == "valid" || op == "nvalid" || op == "covmap" || op == "copy" || op == "scov" || op == "single" ||
  op == "covmask"

/-- **the dense interpreter with views**: one parsed line -/
def dstepArgsV (D : DenseWorldV) (op : String) (a : Args) : DenseWorldV × String :=
  match op with
  | "cfg" => dCfgV D a
  | "upd" => dWithMapV D a fun d v =>
      dRunReqV D (a.pos.headD "") d v (updReq a d.toDense.kind d.toDense.sent)
  | "updr" => dWithMapV D a fun d v => dRunReqV D (a.pos.headD "") d v (updrReq a)
  | "set" => dWithMapV D a fun d v => dRunReqV D (a.pos.headD "") d v (setReq a)
  | "get" => dGetV D a
  | "vals" => dValsV D a
  | "valid" => dValidV D a
  | "nvalid" => dNvalidV D a
  | "covmap" => dCovmapV D a
  | "copy" => dCopyV D a
  | "scov" => dScovV D a
  | "single" => dSingleV D a
  | "covmask" => dCovmaskV D a
  | _ => if D.noViews then dFallback D op a else (D, "not-covered:view-in-pool")

/-- the parsed lines the interpreter answers: the record / view family and every line of the five
    families of `ApiDenseAll` (`nvalid … path=str` excepted, as there) -/
def opOkV (op : String) (a : Args) : Bool :=
  (viewOp op || ApiDenseAll.opOkAll op a) && !(op == "nvalid" && a.get? "path" == some "str")

/-- the side condition, computed on the dense side: a line outside `viewOp` is interpreted only
    while the pool holds no view descriptor -/
def settledV (D : DenseWorldV) (op : String) : Bool := viewOp op || D.noViews

theorem viewOp_cases {op : String} (h : viewOp op = true) :
    op = "cfg" ∨ op = "upd" ∨ op = "updr" ∨ op = "set" ∨ op = "get" ∨ op = "vals" ∨
    op = "valid" ∨ op = "nvalid" ∨ op = "covmap" ∨ op = "copy" ∨ op = "scov" ∨ op = "single" ∨
    op = "covmask" := by
  unfold viewOp at h
  simp only [Bool.or_eq_true, beq_iff_eq] at h
  rcases h with (((((((((((h | h) | h) | h) | h) | h) | h) | h) | h) | h) | h) | h) | h
  · exact Or.inl h
  · exact Or.inr (Or.inl h)
  · exact Or.inr (Or.inr (Or.inl h))
  · exact Or.inr (Or.inr (Or.inr (Or.inl h)))
  · exact Or.inr (Or.inr (Or.inr (Or.inr (Or.inl h))))
  · exact Or.inr (Or.inr (Or.inr (Or.inr (Or.inr (Or.inl h)))))
  · exact Or.inr (Or.inr (Or.inr (Or.inr (Or.inr (Or.inr (Or.inl h))))))
  · exact Or.inr (Or.inr (Or.inr (Or.inr (Or.inr (Or.inr (Or.inr (Or.inl h)))))))
  · exact Or.inr (Or.inr (Or.inr (Or.inr (Or.inr (Or.inr (Or.inr (Or.inr (Or.inl h))))))))
  · exact Or.inr (Or.inr (Or.inr (Or.inr (Or.inr (Or.inr (Or.inr (Or.inr (Or.inr (Or.inl h)))))))))
  · exact Or.inr (Or.inr (Or.inr (Or.inr (Or.inr (Or.inr (Or.inr (Or.inr (Or.inr (Or.inr (Or.inl h))))))))))
  · exact Or.inr (Or.inr (Or.inr (Or.inr (Or.inr (Or.inr (Or.inr (Or.inr (Or.inr (Or.inr (Or.inr (Or.inl h)))))))))))
  · exact Or.inr (Or.inr (Or.inr (Or.inr (Or.inr (Or.inr (Or.inr (Or.inr (Or.inr (Or.inr (Or.inr (Or.inr h)))))))))))

theorem dstepArgsV_other {op : String} (hv : ¬ viewOp op = true) (D : DenseWorldV) (a : Args) :
    dstepArgsV D op a =
      if D.noViews then dFallback D op a else (D, "not-covered:view-in-pool") := by
  unfold dstepArgsV
  split <;> first | rfl | exact absurd (by decide +kernel) hv

/-- **one parsed line**: the protocol and the dense interpreter with views stay in agreement and
    give the same answer (sparse world: the reachable invariant `Good2`; dense side: `settledV`) -/
theorem rel_stepArgsV {w : World} {D : DenseWorldV} (h : RelV w D) (hw : w.Good2) {op : String}
    (a : Args) (hp : opOkV op a = true) (hs : settledV D op = true) :
    RelV (stepArgs w op a).1 (dstepArgsV D op a).1 ∧
      (stepArgs w op a).2 = (dstepArgsV D op a).2 := by
  unfold opOkV at hp
  rw [Bool.and_eq_true] at hp
  obtain ⟨hp, hnv⟩ := hp
  by_cases hv : viewOp op = true
  · rcases viewOp_cases hv with
      rfl | rfl | rfl | rfl | rfl | rfl | rfl | rfl | rfl | rfl | rfl | rfl | rfl
    · exact relV_cfg h a
    · show RelV (opUpd w a).1 _ ∧ (opUpd w a).2 = _
      rw [opUpd_eq]
      refine relV_withMap h fun m d v hg hd hc hmv => ?_
      rw [show m.kind = d.toDense.kind from hc.corr.kind, show m.sent = d.toDense.sent from hc.corr.sent]
      exact relV_runReqV h hw.1 hg hd hc hmv _
    · show RelV (opUpdr w a).1 _ ∧ (opUpdr w a).2 = _
      rw [opUpdr_eq]
      exact relV_withMap h fun m d v hg hd hc hmv => relV_runReqV h hw.1 hg hd hc hmv _
    · show RelV (opSet w a).1 _ ∧ (opSet w a).2 = _
      rw [opSet_eq]
      exact relV_withMap h fun m d v hg hd hc hmv => relV_runReqV h hw.1 hg hd hc hmv _
    · exact relV_get_line h a
    · exact relV_vals h a
    · exact relV_valid h hw.1 a
    · refine relV_nvalid h hw a ?_
      intro hs'
      rw [hs'] at hnv
      exact absurd hnv (by decide)
    · exact relV_covmap h hw.1 a
    · exact relV_copy h a
    · exact relV_scov h a
    · exact relV_single h hw.1 a
    · exact relV_covmask h a
  · have hD : D.noViews = true := by
      unfold settledV at hs
      rw [Bool.or_eq_true] at hs
      exact hs.resolve_left hv
    have hall : ApiDenseAll.opOkAll op a = true := by
      rw [Bool.or_eq_true] at hp
      exact hp.resolve_left hv
    rw [dstepArgsV_other hv, if_pos hD]
    exact relV_fallback h hw hD a hall

/-! ### raw lines and histories -/

/-- **the lines the interpreter answers** -/
def lineOkV (line : String) : Bool :=
  match lineToks line with
  | [] => true
  | op :: rest => opOkV op (parseArgs rest)

/-- the side condition of one raw line in the dense world `D` -/
def settledLine (D : DenseWorldV) (line : String) : Bool :=
  match lineToks line with
  | [] => true
  | op :: _ => settledV D op

/-- the interpreter on a raw line -/
def dstepV (D : DenseWorldV) (line : String) : DenseWorldV × String :=
  match lineToks line with
  | [] => (D, "bad-op:empty")
  | op :: rest => dstepArgsV D op (parseArgs rest)

/-- … and on a history, from the empty dense world -/
def drunV (lines : List String) : DenseWorldV := lines.foldl (fun D l => (dstepV D l).1) []

/-- the side condition along a history, computed by the dense run alone -/
def settledFromV (D : DenseWorldV) : List String → Bool
  | [] => true
  | l :: ls => settledLine D l && settledFromV (dstepV D l).1 ls

theorem viewOp_not_packed {op : String} (h : viewOp op = true) : op.startsWith "p." = false := by
  rcases viewOp_cases h with
    rfl | rfl | rfl | rfl | rfl | rfl | rfl | rfl | rfl | rfl | rfl | rfl | rfl <;> decide +kernel

theorem opOkV_not_packed {op : String} {a : Args} (h : opOkV op a = true) :
    op.startsWith "p." = false := by
  unfold opOkV at h
  rw [Bool.and_eq_true, Bool.or_eq_true] at h
  rcases h.1 with h | h
  · exact viewOp_not_packed h
  · exact ApiDenseAll.opOkAll_not_packed h

/-- **one raw line** -/
theorem rel_stepV {w : World} {D : DenseWorldV} (hR : RelV w D) (hw : w.Good2) {line : String}
    (hp : lineOkV line = true) (hs : settledLine D line = true) :
    RelV (step w line).1 (dstepV D line).1 ∧ (step w line).2 = (dstepV D line).2 := by
  have hstep : step w line = match lineToks line with
      | [] => (w, "bad-op:empty")
      | op :: rest =>
        if op.startsWith "p." then
          let (pw, o) := stepPacked w.packed op (parseArgs rest)
          ({ w with packed := pw }, o)
        else stepArgs w op (parseArgs rest) := rfl
  rw [hstep]
  unfold dstepV
  unfold lineOkV at hp
  unfold settledLine at hs
  cases ht : lineToks line with
  | nil => exact ⟨hR, rfl⟩
  | cons op rest =>
    rw [ht] at hp hs
    simp only [opOkV_not_packed hp, Bool.false_eq_true, if_false]
    exact rel_stepArgsV hR hw _ hp hs

/-- related worlds, the sparse one satisfying the reachable invariant -/
structure RelVA (w : World) (D : DenseWorldV) : Prop where
  rel : RelV w D
  good : w.Good2

theorem relVA_empty : RelVA {} [] := ⟨relV_empty, World.good_empty, World.cachePool_empty⟩

theorem relVA_step {w : World} {D : DenseWorldV} (h : RelVA w D) {line : String}
    (hp : lineOkV line = true) (hs : settledLine D line = true) :
    RelVA (step w line).1 (dstepV D line).1 ∧ (step w line).2 = (dstepV D line).2 :=
  ⟨⟨(rel_stepV h.rel h.good hp hs).1, Good2.step h.good line⟩, (rel_stepV h.rel h.good hp hs).2⟩

theorem rel_foldlV (lines : List String) (w : World) (D : DenseWorldV) (h : RelVA w D)
    (hp : ∀ l ∈ lines, lineOkV l = true) (hs : settledFromV D lines = true) :
    RelVA (lines.foldl (fun w l => (step w l).1) w) (lines.foldl (fun D l => (dstepV D l).1) D) := by
  induction lines generalizing w D with
  | nil => exact h
  | cons l ls ih =>
    unfold settledFromV at hs
    rw [Bool.and_eq_true] at hs
    exact ih _ _ (relVA_step h (hp l List.mem_cons_self) hs.1).1
      (fun l' h' => hp l' (List.mem_cons_of_mem _ h')) hs.2

/-- **histories**: the world a history reaches agrees with the dense world with views the
    interpreter reaches -/
theorem rel_runLinesV (lines : List String) (hp : ∀ l ∈ lines, lineOkV l = true)
    (hs : settledFromV [] lines = true) : RelV (runLines lines) (drunV lines) :=
  (rel_foldlV lines _ _ relVA_empty hp hs).rel

/-- the answers of the interpreter along a history -/
def danswersV (lines : List String) : List String :=
  (lines.foldl (fun (Do : DenseWorldV × List String) l =>
    ((dstepV Do.1 l).1, Do.2 ++ [(dstepV Do.1 l).2])) ([], [])).2

theorem answers_foldlV (lines : List String) (w : World) (D : DenseWorldV) (acc : List String)
    (h : RelVA w D) (hp : ∀ l ∈ lines, lineOkV l = true) (hs : settledFromV D lines = true) :
    (lines.foldl (fun (wo : World × List String) l => ((step wo.1 l).1, wo.2 ++ [(step wo.1 l).2]))
      (w, acc)).2 =
    (lines.foldl (fun (Do : DenseWorldV × List String) l =>
      ((dstepV Do.1 l).1, Do.2 ++ [(dstepV Do.1 l).2])) (D, acc)).2 := by
  induction lines generalizing w D acc with
  | nil => rfl
  | cons l ls ih =>
    unfold settledFromV at hs
    rw [Bool.and_eq_true] at hs
    obtain ⟨h', ha⟩ := relVA_step h (hp l List.mem_cons_self) hs.1
    simp only [List.foldl_cons]
    rw [ha]
    exact ih _ _ _ h' (fun l' hl' => hp l' (List.mem_cons_of_mem _ hl')) hs.2

/-- **the list of all answers** of a history is the list of answers of the interpreter -/
theorem answers_eq_danswersV (lines : List String) (hp : ∀ l ∈ lines, lineOkV l = true)
    (hs : settledFromV [] lines = true) : answers lines = danswersV lines :=
  answers_foldlV lines _ _ _ relVA_empty hp hs

/-! ### histories that are settled by construction -/

theorem noViews_bind_own {D : DenseWorldV} (h : D.noViews = true) (n : String) (d : DenseMapC) :
    (D.bind n (.own d)).noViews = true := by
  unfold DenseWorldV.noViews DenseWorldV.bind at *
  rw [List.all_cons, Bool.and_eq_true]
  refine ⟨rfl, ?_⟩
  rw [List.all_eq_true] at h ⊢
  exact fun e he => h e (List.mem_filter.1 he).1

theorem noViews_withMap {D : DenseWorldV} (h : D.noViews = true) {a : Args}
    {k : DenseMapC → Option (String × Nat) → DenseWorldV × String}
    (hk : ∀ d v, (k d v).1.noViews = true) : (dWithMapV D a k).1.noViews = true := by
  unfold dWithMapV
  split
  · split
    · exact hk _ _
    · exact h
  · exact h

theorem noViews_runReqV {D : DenseWorldV} (h : D.noViews = true) (n : String) (d : DenseMapC)
    (v : Option (String × Nat)) (req : WReq) : (dRunReqV D n d v req).1.noViews = true := by
  unfold dRunReqV
  split
  · cases req <;> simp only [dRunReqOwn]
    · exact h
    · exact h
    · split
      · exact noViews_bind_own h _ _
      · exact h
    · split
      · exact noViews_bind_own h _ _
      · exact h
  · split
    · cases req <;> simp only [dRunReqView]
      · exact h
      · exact h
      · split
        · exact noViews_bind_own h _ _
        · exact h
      · split
        · exact noViews_bind_own h _ _
        · exact h
    · exact h

/-- a parsed line that registers no view: anything but the view form of `single` -/
def noViewArgs (op : String) (a : Args) : Bool := op != "single" || a.flag "copy"

theorem singleReq_not_view {a : Args} (hc : a.flag "copy" = true) (k : Kind) (i : Nat)
    (s : Option Val) : singleReq a k ≠ .view i s := by
  unfold singleReq
  split
  · split
    · exact fun h => nomatch h
    · exact fun h => nomatch h
  · exact fun h => nomatch h

/-- **a line that is not the view form of `single` keeps the dense pool free of descriptors** -/
theorem noViews_stepArgsV {D : DenseWorldV} (h : D.noViews = true) {op : String} {a : Args}
    (hc : noViewArgs op a = true) : (dstepArgsV D op a).1.noViews = true := by
  unfold dstepArgsV
  split
  · unfold dCfgV
    split
    · split
      · exact noViews_bind_own h _ _
      · exact h
    · exact h
  · exact noViews_withMap h fun d v => noViews_runReqV h _ d v _
  · exact noViews_withMap h fun d v => noViews_runReqV h _ d v _
  · exact noViews_withMap h fun d v => noViews_runReqV h _ d v _
  · exact noViews_withMap h fun _ _ => h
  · exact noViews_withMap h fun _ _ => h
  · exact noViews_withMap h fun _ _ => h
  · exact noViews_withMap h fun _ _ => h
  · exact noViews_withMap h fun _ _ => h
  · exact noViews_withMap h fun _ _ => noViews_bind_own h _ _
  · refine noViews_withMap h fun d _ => ?_
    split
    · exact h
    · split
      · exact h
      · exact noViews_bind_own h _ _
  · refine noViews_withMap h fun d _ => ?_
    have hcp : a.flag "copy" = true := by
      unfold noViewArgs at hc
      rw [Bool.or_eq_true] at hc
      rcases hc with hc | hc
      · exact absurd hc (by decide)
      · exact hc
    cases hreq : singleReq a d.toDense.kind with
    | bad s => exact h
    | copy i sent =>
      simp only [dRunSingleV]
      split
      · exact noViews_bind_own h _ _
      · exact h
    | view i sent => exact absurd hreq (singleReq_not_view hcp _ _ _)
  · exact noViews_withMap h fun _ _ => h
  · rw [if_pos h]
    exact noViews_liftV _

/-- a raw line that registers no view -/
def noViewLine (line : String) : Bool :=
  match lineToks line with
  | [] => true
  | op :: rest => noViewArgs op (parseArgs rest)

theorem noViews_stepV {D : DenseWorldV} (h : D.noViews = true) {line : String}
    (hc : noViewLine line = true) : (dstepV D line).1.noViews = true := by
  unfold dstepV
  unfold noViewLine at hc
  split
  · exact h
  · rename_i op rest ht
    rw [ht] at hc
    exact noViews_stepArgsV h hc

theorem settledLine_of_noViews {D : DenseWorldV} (h : D.noViews = true) (line : String) :
    settledLine D line = true := by
  unfold settledLine settledV
  split
  · rfl
  · rw [h, Bool.or_true]

/-- **histories without the view form of `single` are settled** -/
theorem settledFromV_of_noViews {D : DenseWorldV} (h : D.noViews = true) (lines : List String)
    (hc : ∀ l ∈ lines, noViewLine l = true) : settledFromV D lines = true := by
  induction lines generalizing D with
  | nil => rfl
  | cons l ls ih =>
    unfold settledFromV
    rw [Bool.and_eq_true]
    exact ⟨settledLine_of_noViews h l,
      ih (noViews_stepV h (hc l List.mem_cons_self)) fun l' h' => hc l' (List.mem_cons_of_mem _ h')⟩

/-- a raw line of the record / view family proper (interpreted with views in the pool) -/
def viewLine (line : String) : Bool :=
  match lineToks line with
  | [] => true
  | op :: _ => viewOp op

/-- **histories of `viewOp` lines are settled**, whatever views they register -/
theorem settledFromV_of_viewLines (D : DenseWorldV) (lines : List String)
    (hc : ∀ l ∈ lines, viewLine l = true) : settledFromV D lines = true := by
  induction lines generalizing D with
  | nil => rfl
  | cons l ls ih =>
    unfold settledFromV
    rw [Bool.and_eq_true]
    refine ⟨?_, ih _ fun l' h' => hc l' (List.mem_cons_of_mem _ h')⟩
    have := hc l List.mem_cons_self
    unfold viewLine at this
    unfold settledLine settledV
    split
    · rfl
    · rename_i op rest ht
      rw [ht] at this
      have this' : viewOp op = true := this
      rw [this', Bool.true_or]

/-! ### what the dense world says about views: resolution and write-through, pixel by pixel -/

/-- a name that resolves with the view flag is bound to a descriptor whose parent's name is bound
    to an owning record map; what it shows is `viewF` of that map -/
theorem getV_view {D : DenseWorldV} {n pn : String} {i : Nat} {d : DenseMapC}
    (h : D.get? n = some (d, some (pn, i))) :
    ∃ dp dt s, D.raw? n = some (.view pn i dt s) ∧ D.raw? pn = some (.own dp) ∧
      d = viewF dp i dt s ∧ s = recField i dp.toDense.blank ∧ dt ≠ .bool ∧
      ∃ fs pr, dp.toDense.kind = .recd fs pr ∧ fs[i]? = some dt := by
  unfold DenseWorldV.get? at h
  split at h
  · cases h
  · cases h
  · rename_i pn' i' dt s hn
    split at h
    · rename_i p hp
      unfold resolveV at h
      split at h
      · cases h
      · rename_i hs
        split at h
        · rename_i fs pr hk
          split at h
          · rename_i dt' hg
            split at h
            · rename_i hdt
              cases h
              have hdt' := of_decide_eq_true hdt
              obtain ⟨rfl, hnb⟩ := hdt'
              exact ⟨p, dt', s, hn, hp, rfl, by simpa using hs, hnb, fs, pr, hk, hg⟩
            · cases h
          · cases h
        · cases h
    · cases h

/-- **an accepted write through a view, dense side**: the call on the dense view was accepted by
    `dUpdate`, no addressed pixel read as the view's sentinel (nothing becomes valid), and the
    parent's name is rebound to `writeBackF` -/
theorem dRunReqView_ok {D D' : DenseWorldV} {pn : String} {i : Nat} {dp dv : DenseMapC}
    {op : String} {pix : List Nat} {vals : Option (List Val)} {single : Bool}
    (h : dRunReqView D pn i dp dv (.upd op pix vals single) = (D', "ok")) :
    ∃ dv', dUpdate dv.toDense op pix vals single none = .ok dv' ∧
      growthD dv.toDense pix = false ∧ D' = D.bind pn (.own (writeBackF dp i dv')) := by
  simp only [dRunReqView, dUpdateView] at h
  cases hr : postView (growthD dv.toDense pix) (dUpdate dv.toDense op pix vals single none) with
  | error e =>
    rw [hr] at h
    exact absurd (congrArg Prod.snd h) (ApiRecord.errLine_ne_ok e)
  | ok dv' =>
    rw [hr] at h
    unfold postView at hr
    cases hu : dUpdate dv.toDense op pix vals single none with
    | error e =>
      rw [hu] at hr
      simp only [] at hr
      split at hr <;> cases hr
    | ok d2 =>
      rw [hu] at hr
      simp only [] at hr
      split at hr
      · cases hr
      · rename_i hg
        cases hr
        exact ⟨dv', rfl, by simpa using hg, (congrArg Prod.fst h).symm⟩

/-- the written-back parent: header and mask kept; every field but `i` kept at every pixel; a
    pixel the call did not address is unchanged altogether -/
theorem writeBackF_spec (dp : DenseMapC) (i : Nat) (dt : DT) (s : Val) {dv' : DenseMap}
    {op : String} {pix : List Nat} {vals : Option (List Val)} {single : Bool} {ru : Option Bool}
    (hu : dUpdate (viewF dp i dt s).toDense op pix vals single ru = .ok dv') :
    (writeBackF dp i dv').cov = dp.cov ∧
    (writeBackF dp i dv').toDense.kind = dp.toDense.kind ∧
    (writeBackF dp i dv').toDense.sent = dp.toDense.sent ∧
    (∀ q, (writeBackF dp i dv').toDense.f q = recSetField i (dp.toDense.f q) (dv'.f q)) ∧
    (∀ q j, j ≠ i → recField j ((writeBackF dp i dv').toDense.f q) = recField j (dp.toDense.f q)) ∧
    (∀ q, q ∉ pix → (writeBackF dp i dv').toDense.f q = dp.toDense.f q) := by
  refine ⟨rfl, rfl, rfl, fun _ => rfl, fun q j hj => ?_, fun q hq => ?_⟩
  · exact ApiRecord.recField_recSetField_ne hj _ _
  · show recSetField i (dp.toDense.f q) (dv'.f q) = _
    rw [(dUpdate_ok hu).2.2.2.2 q hq]
    exact WFApi.recSetField_recField i _

/-- an accepted write addressed only pixels already valid in the view -/
theorem growthD_false {d : DenseMap} {pix : List Nat} (h : growthD d pix = false) :
    ∀ p ∈ pix, p < d.npix → d.f p ≠ d.sent := by
  intro p hp hlt he
  unfold growthD at h
  have : (pix.any fun p => decide (p < d.npix) && d.f p == d.sent) = true :=
    List.any_eq_true.2 ⟨p, hp, by simp [hlt, he]⟩
  rw [h] at this
  cases this

/-- **a refused write request leaves the dense world as it is** (on either kind of target) -/
theorem dRunReqV_refused (D : DenseWorldV) (n : String) (d : DenseMapC)
    (v : Option (String × Nat)) (req : WReq) :
    (dRunReqV D n d v req).1 = D ∨ (dRunReqV D n d v req).2 = "ok" := by
  unfold dRunReqV
  split
  · cases req <;> simp only [dRunReqOwn] <;> (try split) <;>
      first | exact Or.inl rfl | exact Or.inl trivial | exact Or.inr rfl | exact Or.inr trivial
  · split
    · cases req <;> simp only [dRunReqView] <;> (try split) <;>
        first | exact Or.inl rfl | exact Or.inl trivial | exact Or.inr rfl | exact Or.inr trivial
    · exact Or.inl rfl

end ApiDenseViews
end HS
