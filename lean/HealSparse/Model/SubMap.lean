/-
  `get_single_covpix_map(k)`: the restriction of a map to one coverage pixel
  (healSparseMap.py 1932-1985): uncovered → an empty map like this one; covered → a
  two-block map: a copy of the overflow block and a copy of the pixel's block.
-/
import HealSparse.Model.Core
import HealSparse.Model.Map
namespace HS

variable {V : Type}

def singleCovpixMap (c : Cfg) (vc : VCfg V) (s : State V) (k : Nat) : State V :=
  if !covered c s k then makeEmpty c vc []
  else
    let st := (blockStart c s k).toNat
    { cov := initializePixels c (emptyCov c) [k]
      sp := ((List.range c.nfine).map fun j => rd s.sp j vc.sentinel).toArray ++
            ((List.range c.nfine).map fun j => rd s.sp (st + j) vc.sentinel).toArray }

end HS
