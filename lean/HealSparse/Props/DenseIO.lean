/-
  The protocol against ONE dense reference interpreter, FILES INCLUDED (Lemmas/ApiDenseIO.lean).

  Props/DenseAll.lean relates the protocol to a coverage-aware dense interpreter on worlds made
  of maps only.  Here the dense world also has files — a healsparse FITS file is the `DenseMapC`
  snapshot that was written plus the user metadata stored with it; a HEALPix-format file is the
  snapshot it was written from (`hpxwrite`) or its column (`hpximplicit`); a MOC file is its UNIQ
  column — and the per-name user metadata of the driver:

      DenseWorldIO = maps + files + hpfiles + mocs + metas            (`ApiDenseIO.DenseWorldIO`)

  HEADLINE `reachable_dense_io`: after ANY history of covered lines (`lineOkIO`) the world of the
  protocol and the dense world agree (`RelIO`): the same maps (headers, every pixel, the coverage
  mask — `RelC`), the same file names, every file of the world being the written form of a typed
  map object that agrees with the dense snapshot (`FileCorr`), every HEALPix-format file being
  the column given or the explicit file written from a map that agrees with the dense snapshot
  (`HpCorr`), the same MOC files and user metadata; and every line is answered alike (`reachable_dense_io_answers`,
  `reachable_dense_io_all_answers`).  No side condition on the history.

  COVERED (`lineOkIO`):
    * the 22 operations of the five families of Props/DenseAll.lean (`lineOkAll`): `cfg` `upd`
      `updr` `set` `get` `vals` / `bop` `inv` `pack` `covmask` `copy` / `sop` `mask` `astype`
      `valid` `nvalid` (not `path=str`) `covmap` / `bits` `chk` / `mop` `upg` `deg` `fracdet`
      — on them the map part of the interpreter IS `ApiDenseAll.dstepArgsAll`
      (`dense_io_extends_all`); `pack` additionally moves the user metadata;
    * inspection / housekeeping: `info`, `vpsc` (valid_pixels_single_covpix), `drop`, `reset`;
    * user metadata: `meta`, `getmeta`;
    * healsparse FITS files: `write` (the compression flag plays no role), `read` — full and with
      `pixels=` (restriction to the requested ∧ covered coverage pixels; RuntimeError for
      duplicates or a request naming no covered pixel; out-of-range entries ignored) —, `covread`;
    * HEALPix interchange: `fromhp` (NEST, or RING with an `r2n=` table); `genhp` without `key=`
      (any `ord=` / `red=`: degrade first) — NEST (`nest=1`), or RING through ANY `n2r=` table
      (permutation or not) that is NO LONGER than the output map, the output order `ord=` being
      then given on the line; `hpxwrite` (explicit file: refused for record maps and wide masks),
      `hpximplicit`, `hpxread` of either (written file: IndexError for an empty map, re-housing at
      the requested coverage order, a bit-packed map coming back as a plain boolean map; implicit
      file: NESTED or RING);
    * MOC files: `moc` (the UNIQ column is a function of the dense valid set), `mocread`.

  NOT COVERED (`lineOkIO` is false; a history containing such a line is outside the theorem from
  that line on):
    * `genhp nest=0` with an `n2r=` table LONGER than the output map (the computed inverse table
      then points outside the sphere, where the model's `abs` reads the last storage block: not a
      function of the dense values — `C10World`'s `genhpLong` artefact), or without `ord=` (the
      length bound must be decidable on the line); `genhp … key=` (single-field export of a
      record map goes through `get_single`);
    * `dor` (degrade-on-read) and `cat` (file concatenation): not attempted;
    * `fitsraw` (raw COV / SPARSE arrays of a file), `state`, `dump` (raw storage of a map);
    * record views and sub-maps (`single`, `scov`), `geom`, `interp`, `rand`, the `p.*` lines;
    * `nvalid … path=str` (depends on the state of the `n_valid` cache: `C12.exNvalidStrCold`).
-/
import HealSparse.Lemmas.ApiDenseIO
import HealSparse.Props.DenseAll
namespace HS
namespace Dense

open ApiDense ApiDenseCov ApiDenseAll ApiDenseIO

/-! ### (1) the refinement -/

/-- **the protocol refines the dense interpreter with files** — UNCONDITIONALLY in the history:
    after any history of covered lines (malformed or refused lines included) the world the
    protocol reaches and the dense world agree: maps (headers, values, coverage masks), files
    (each the written form of a typed map agreeing with the dense snapshot, with the same user
    metadata), HEALPix files, MOC files, user metadata. -/
theorem reachable_dense_io (lines : List String) (h : ∀ l ∈ lines, lineOkIO l = true) :
    RelIO (runLines lines) (drunIO lines) :=
  rel_runLinesIO lines h

/-- … hence any further covered line is answered by the protocol as by the dense interpreter
    (errors and their kind included) -/
theorem reachable_dense_io_answer (lines : List String) (h : ∀ l ∈ lines, lineOkIO l = true)
    (q : String) (hq : lineOkIO q = true) :
    (step (runLines lines) q).2 = (dstepIO (drunIO lines) q).2 :=
  (rel_stepIO (rel_runLinesIO lines h) (Good2.runLines lines) (Typed.runLines lines) hq).2

/-- … and every answer ALONG the history agrees too -/
theorem reachable_dense_io_answers (lines : List String) (h : ∀ l ∈ lines, lineOkIO l = true)
    (k : Nat) (hk : k < lines.length) :
    (step (runLines (lines.take k)) lines[k]).2 = (dstepIO (drunIO (lines.take k)) lines[k]).2 :=
  reachable_dense_io_answer (lines.take k) (fun l hl => h l (List.mem_of_mem_take hl)) lines[k]
    (h _ (List.getElem_mem hk))

/-- … as one equation: the list of all answers of the history is the list of answers of the dense
    interpreter (what the `#guard`s below evaluate on examples) -/
theorem reachable_dense_io_all_answers (lines : List String) (h : ∀ l ∈ lines, lineOkIO l = true) :
    answers lines = danswersIO lines :=
  answers_eq_danswersIO lines h

/-- the map-level reading: a name bound after such a history is bound on the dense side to an
    array with the same header that holds `m.abs p` at every pixel and whose mask is
    `coverage_mask` -/
theorem reachable_dense_io_map (lines : List String) (h : ∀ l ∈ lines, lineOkIO l = true)
    {n : String} {m : MapObj} (hg : (runLines lines).get? n = some m) :
    ∃ d, (drunIO lines).maps.get? n = some d ∧ m.WF ∧ m.view = none ∧
      m.covord = d.toDense.covord ∧ m.spord = d.toDense.spord ∧ m.kind = d.toDense.kind ∧
      m.sent = d.toDense.sent ∧ (∀ p, p < m.npix → m.abs p = d.toDense.f p) ∧
      (∀ k, k < m.c.ncov → covered m.c m.st k = d.cov k) ∧ apiCovMask m = d.covMask := by
  have hm := relC_get (rel_runLinesIO lines h).rel n
  rw [hg] at hm
  cases hd : (drunIO lines).maps.get? n with
  | none => rw [hd] at hm; exact hm.elim
  | some d =>
    rw [hd] at hm
    exact ⟨d, rfl, hm.corr.wf, hm.corr.view, hm.corr.covord, hm.corr.spord, hm.corr.kind,
      hm.corr.sent, hm.corr.abs, hm.cov, hm.covMask_eq⟩

/-- the file-level reading: a file stored after such a history is stored on the dense side as a
    snapshot `df`; its user metadata are `df.mdata`, its coverage extension is the snapshot's
    mask, and WHATEVER `read` is asked (full, or any `pixels=` request) the reader's outcome on
    the file is the dense read of the snapshot — the same refusal, or agreeing maps -/
theorem reachable_dense_io_file (lines : List String) (h : ∀ l ∈ lines, lineOkIO l = true)
    {F : String} {fo : FileObj} (hf : ApiDenseIO.lookup (runLines lines).files F = some fo) :
    ∃ df, ApiDenseIO.lookup (drunIO lines).files F = some df ∧ fo.mdata = df.mdata ∧
      readCoverage (cfgOf fo.covord fo.spord) fo.file = df.snap.covMask ∧
      ∀ px, OutRelM (apiRead fo px) (dReadMap df.snap px) := by
  have hm := (rel_runLinesIO lines h).files F
  rw [hf] at hm
  cases hd : ApiDenseIO.lookup (drunIO lines).files F with
  | none => rw [hd] at hm; exact hm.elim
  | some df =>
    rw [hd] at hm
    obtain ⟨m, hc, ht, rfl⟩ := hm
    exact ⟨df, rfl, rfl, hc.covMask_eq, fun px => apiRead_corrC hc ht df.mdata px⟩

/-- the HEALPix-format files: a stored file is stored on the dense side too — the same columns
    (`hpximplicit`), or the snapshot of a map whose explicit file it is (`hpxwrite`: the rows of
    the file are in storage order, which no dense view shows) — and WHATEVER `hpxread` is asked,
    the reader's outcome on the file is the dense read -/
theorem reachable_dense_io_hpfile (lines : List String) (h : ∀ l ∈ lines, lineOkIO l = true)
    {F : String} {f : HpFile} (hf : ApiDenseIO.lookup (runLines lines).hpfiles F = some f) :
    ∃ df, ApiDenseIO.lookup (drunIO lines).hpfiles F = some df ∧ HpCorr f df ∧
      ∀ co r2n, OutRelM (apiReadHealpix f co r2n) (dReadHpD df co r2n) := by
  have hm := (rel_runLinesIO lines h).hpfiles F
  rw [hf] at hm
  cases hd : ApiDenseIO.lookup (drunIO lines).hpfiles F with
  | none => rw [hd] at hm; exact hm.elim
  | some df =>
    rw [hd] at hm
    exact ⟨df, rfl, hm, fun co r2n => readHpD_corrC hm co r2n⟩

/-- the MOC files and the user metadata are literally the same -/
theorem reachable_dense_io_tables (lines : List String) (h : ∀ l ∈ lines, lineOkIO l = true) :
    (runLines lines).mocs = (drunIO lines).mocs ∧ (runLines lines).metas = (drunIO lines).metas :=
  ⟨(rel_runLinesIO lines h).mocs, (rel_runLinesIO lines h).metas⟩

/-- **the interpreter extends the one of Props/DenseAll.lean**: every line of the five families is
    covered, and on such a line the map part and the answer are those of
    `ApiDenseAll.dstepArgsAll` -/
theorem dense_io_extends_all :
    (∀ line, lineOkAll line = true → lineOkIO line = true) ∧
    (∀ (D : DenseWorldIO) (op : String) (a : Args), opOkAll op a = true →
      (dstepArgsIO D op a).1.maps = (dstepArgsAll D.maps op a).1 ∧
        (dstepArgsIO D op a).2 = (dstepArgsAll D.maps op a).2) :=
  ⟨fun _ h => lineOkIO_of_all h, fun D _ a hp => dstepArgsIO_maps D a hp⟩

/-- hence `Dense.reachable_dense_all` is the special case of histories without a new line -/
theorem reachable_dense_io_of_all (lines : List String) (h : ∀ l ∈ lines, lineOkAll l = true) :
    RelIO (runLines lines) (drunIO lines) ∧ answers lines = danswersIO lines :=
  ⟨rel_runLinesIO lines fun l hl => lineOkIO_of_all (h l hl),
    answers_eq_danswersIO lines fun l hl => lineOkIO_of_all (h l hl)⟩

/-! ### (2) what the interpreter computes on the new lines -/

/-- **full read**: the snapshot, whatever it is -/
theorem dense_read_full (d : DenseMapC) : dReadMap d none = .ok d := rfl

/-- **`read pixels=px`, acceptance**: exactly the duplicate-free requests naming at least one
    covered coverage pixel of the snapshot (entries outside the coverage map are ignored, not
    refused); a refusal is always `RuntimeError` -/
theorem dense_read_pixels_ok_iff (d : DenseMapC) (px : List Nat) :
    ((∃ d', dReadMap d (some px) = .ok d') ↔
      (px.Nodup ∧ ∃ k ∈ px, k < d.c.ncov ∧ d.cov k = true)) ∧
    (∀ e, dReadMap d (some px) = .error e → e = .runtime) := by
  show ((∃ d', (if px.Nodup ∧ DRequested d px then _ else _) = Except.ok d') ↔ _) ∧
    ∀ e, (if px.Nodup ∧ DRequested d px then _ else _) = Except.error e → _
  by_cases h : px.Nodup ∧ DRequested d px
  · rw [if_pos h]
    exact ⟨⟨fun _ => h, fun _ => ⟨_, rfl⟩⟩, fun e he => (nomatch he)⟩
  · rw [if_neg h]
    refine ⟨⟨(fun ⟨_, he⟩ => nomatch he), fun h' => absurd h' h⟩, fun e he => ?_⟩
    cases he
    rfl

/-- **`read pixels=px`, the map returned**: the header of the snapshot; inside a requested ∧
    covered coverage pixel the snapshot's values, everywhere else the blank; the mask is
    "requested ∧ covered" -/
theorem dense_read_pixels {d d' : DenseMapC} {px : List Nat} (h : dReadMap d (some px) = .ok d') :
    d'.toDense.covord = d.toDense.covord ∧ d'.toDense.spord = d.toDense.spord ∧
    d'.toDense.kind = d.toDense.kind ∧ d'.toDense.sent = d.toDense.sent ∧
    (∀ p, d'.toDense.f p =
      if (p >>> d.c.shift) ∈ px ∧ d.cov (p >>> d.c.shift) = true then d.toDense.f p
      else d.toDense.blank) ∧
    (∀ k, d'.cov k = true ↔ (k ∈ px ∧ d.cov k = true)) := by
  have h' : (if px.Nodup ∧ DRequested d px then
      (Except.ok (⟨{ d.toDense with f := readF d px }, readCov d px⟩ : DenseMapC) : Except Err DenseMapC)
      else Except.error Err.runtime) = .ok d' := h
  by_cases hr : px.Nodup ∧ DRequested d px
  · rw [if_pos hr] at h'
    cases h'
    refine ⟨rfl, rfl, rfl, rfl, fun p => ?_, fun k => ?_⟩
    · show readF d px p = _
      unfold readF
      by_cases h1 : (p >>> d.c.shift) ∈ px <;> cases h2 : d.cov (p >>> d.c.shift) <;> simp [h1]
    · show readCov d px k = true ↔ _
      unfold readCov
      simp
  · rw [if_neg hr] at h'
    cases h'

/-- a partial read that names EVERY covered coverage pixel returns the snapshot's values and mask
    (at every pixel of the sphere; provided unallocated coverage pixels read blank, which holds
    for every dense map related to a well-formed map) -/
theorem dense_read_pixels_all {d d' : DenseMapC} {px : List Nat}
    (h : dReadMap d (some px) = .ok d') (hall : ∀ k, d.cov k = true → k ∈ px)
    (hblank : ∀ p, d.cov (p >>> d.c.shift) = false → d.toDense.f p = d.toDense.blank) :
    (∀ p, d'.toDense.f p = d.toDense.f p) ∧ ∀ k, d'.cov k = d.cov k := by
  obtain ⟨_, _, _, _, hf, hcov⟩ := dense_read_pixels h
  refine ⟨fun p => ?_, fun k => ?_⟩
  · rw [hf p]
    cases hc : d.cov (p >>> d.c.shift) with
    | true => rw [if_pos ⟨hall _ hc, rfl⟩]
    | false => rw [if_neg (fun h' => nomatch h'.2), hblank p hc]
  · rw [Bool.eq_iff_iff, hcov k]
    exact ⟨fun h' => h'.2, fun h' => ⟨hall k h', h'⟩⟩

/-- **`write` then `read`, on the dense world**: after `write n f=F`, a full `read f=F r=R` binds
    `R` to the map `n` is bound to, and gives `R` the user metadata of `n` -/
theorem dense_write_read (D : DenseWorldIO) (aW aR : Args) {n : String} {rest : List String}
    {d : DenseMapC} (hpos : aW.pos = n :: rest) (hd : D.maps.get? n = some d)
    (hF : aR.getD "f" "f" = aW.getD "f" "f") (hpx : aR.get? "pixels" = none) :
    (dstepArgsIO D "write" aW).2 = "ok" ∧
    (dstepArgsIO (dstepArgsIO D "write" aW).1 "read" aR).2 = "ok" ∧
    (dstepArgsIO (dstepArgsIO D "write" aW).1 "read" aR).1.maps.get? (aR.getD "r" "tmp") = some d ∧
    metaOfT (dstepArgsIO (dstepArgsIO D "write" aW).1 "read" aR).1.metas (aR.getD "r" "tmp")
      = metaOfT D.metas n := by
  have hw : dstepArgsIO D "write" aW =
      ({ D with files := ApiDenseIO.insert D.files (aW.getD "f" "f") ⟨d, metaOfT D.metas n⟩ }, "ok") := by
    show dWriteOp D aW = _
    unfold dWriteOp dWithMapIO
    simp only [hpos, hd, List.headD_cons]
  have hpx' : readPx aR = some none := by unfold readPx; rw [hpx]
  have hr : dstepArgsIO (dstepArgsIO D "write" aW).1 "read" aR =
      ({ D with files := ApiDenseIO.insert D.files (aW.getD "f" "f") ⟨d, metaOfT D.metas n⟩,
                maps := D.maps.bind (aR.getD "r" "tmp") d,
                metas := ApiDenseIO.insert D.metas (aR.getD "r" "tmp") (metaOfT D.metas n) }, "ok") := by
    rw [hw]
    show dReadOp _ aR = _
    unfold dReadOp
    simp only [hF, lookup_insert_self, hpx']
    rfl
  rw [hr, hw]
  refine ⟨rfl, rfl, dgetC_bind_self _ _ _, ?_⟩
  show (ApiDenseIO.lookup (ApiDenseIO.insert D.metas _ _) _).getD [] = _
  rw [lookup_insert_self]
  rfl

/-- **`fromhp`, the map built**: orders, dtype and sentinel as requested; the array's entry at
    every SELECTED pixel (`hp[p] > UNSEEN`, strict), the map's own sentinel elsewhere; a coverage
    pixel is covered iff it holds a selected pixel -/
theorem dense_fromhp {co so : Nat} {dt : DT} {sentinel : Option Val} {hp : List Val} {py : Bool}
    {d : DenseMapC} (h : dFromHp co so dt sentinel hp py = .ok d) :
    d.toDense.covord = co ∧ d.toDense.spord = so ∧ d.toDense.kind = .plain dt ∧
    checkSentinel dt sentinel = .ok d.toDense.sent ∧ hp.length = (cfgOf co so).npix ∧
    (∀ p (hlt : p < hp.length), d.toDense.f p =
      if ApiHealpixRT.hpSel dt hp[p] = true then hp[p] else d.toDense.sent) ∧
    (∀ k, d.cov k = true ↔
      ∃ p, ∃ hlt : p < hp.length, ApiHealpixRT.hpSel dt hp[p] = true ∧ p >>> (cfgOf co so).shift = k) := by
  unfold dFromHp at h
  split at h
  · cases h
  · split at h
    · cases h
    · rename_i hlen
      split at h
      · cases h
      · split at h
        · cases h
        · split at h
          · cases h
          · rename_i sent hcs
            cases h
            refine ⟨rfl, rfl, rfl, hcs, by simpa using hlen, fun p hlt => ?_, fun k => ?_⟩
            · show (if ApiHealpixRT.hpSel dt (hp[p]?.getD sent) = true then hp[p]?.getD sent else sent) = _
              rw [List.getElem?_eq_getElem hlt, Option.getD_some]
            · show ((List.range hp.length).any fun p =>
                ApiHealpixRT.hpSel dt (hp[p]?.getD sent) && p >>> (cfgOf co so).shift == k) = true ↔ _
              rw [List.any_eq_true]
              constructor
              · rintro ⟨p, hp1, hp2⟩
                have hlt := List.mem_range.1 hp1
                rw [List.getElem?_eq_getElem hlt, Option.getD_some] at hp2
                simp only [Bool.and_eq_true, beq_iff_eq] at hp2
                exact ⟨p, hlt, hp2.1, hp2.2⟩
              · rintro ⟨p, hlt, h5, h6⟩
                refine ⟨p, List.mem_range.2 hlt, ?_⟩
                rw [List.getElem?_eq_getElem hlt, Option.getD_some, h5, h6]
                simp

/-- **`genhp` (NEST), the array exported at the map's own resolution**: one entry per pixel —
    the value at a valid pixel, `UNSEEN` of the output dtype (the sentinel for a boolean map)
    elsewhere; record maps are refused (`ValueError`: no key), wide masks too
    (`NotImplementedError`), and a cell that is not a float64 gives `inexact` -/
theorem dense_genhp_full {d : DenseMapC} {l : List Val} {red : String}
    (h : dGenhp d none red none = .ok l) :
    l.length = d.toDense.npix ∧
    ∀ p (hlt : p < l.length), l[p] =
      if d.toDense.kind.valid d.toDense.sent (d.toDense.f p) = true then d.toDense.f p
      else ApiHealpixRT.genFill d.toDense.hdr := by
  unfold dGenhp at h
  split at h
  · cases h
  · split at h
    · cases h
    · simp only [Option.getD_none, Nat.lt_irrefl, if_false, gt_iff_lt] at h
      cases h
      refine ⟨by simp [dExportP, dExport], fun p hlt => ?_⟩
      simp only [dExportP, dExport, List.getElem_map, List.getElem_range]
      rfl

/-- **`genhp nest=0`, the RING array exported at the map's own resolution** through the tables
    `n2r` / `r2n` — ANY tables: position `r` is written iff `n2r` sends some valid pixel there,
    and then holds what the map reads at `r2n r` (valid or not); for mutually inverse permutation
    tables this is the NEST array permuted -/
theorem dense_genhp_ring {d : DenseMapC} {l : List Val} {red : String} {n2r r2n : Array Nat}
    (h : dGenhp d none red (some (n2r, r2n)) = .ok l) :
    l.length = d.toDense.npix ∧
    ∀ r (hlt : r < l.length), l[r] =
      if (∃ p, p < d.toDense.npix ∧ d.toDense.kind.valid d.toDense.sent (d.toDense.f p) = true ∧
          rd n2r p 0 = r)
      then d.toDense.f (rd r2n r 0) else ApiHealpixRT.genFill d.toDense.hdr := by
  unfold dGenhp at h
  split at h
  · cases h
  · split at h
    · cases h
    · simp only [Option.getD_none, Nat.lt_irrefl, if_false, gt_iff_lt] at h
      cases h
      refine ⟨by simp [dExportP, dExportRing], fun r hlt => ?_⟩
      simp only [dExportP, dExportRing, List.getElem_map, List.getElem_range]
      have hiff : ((ApiDenseScalar.dValidSet d.toDense).any fun p => rd n2r p 0 == r) = true ↔
          ∃ p, p < d.toDense.npix ∧ d.toDense.kind.valid d.toDense.sent (d.toDense.f p) = true ∧
            rd n2r p 0 = r := by
        unfold ApiDenseScalar.dValidSet ApiDenseScalar.dValid
        simp only [List.any_eq_true, List.mem_filter, List.mem_range, beq_iff_eq]
        constructor
        · rintro ⟨p, ⟨h1, h2⟩, h3⟩; exact ⟨p, h1, h2, h3⟩
        · rintro ⟨p, h1, h2, h3⟩; exact ⟨p, ⟨h1, h2⟩, h3⟩
      by_cases hc : ((ApiDenseScalar.dValidSet d.toDense).any fun p => rd n2r p 0 == r) = true
      · rw [if_pos hc, if_pos (hiff.1 hc)]
      · rw [if_neg hc, if_neg (fun h' => hc (hiff.2 h'))]

/-- **`hpxwrite` then `hpxread covord=co`, the map read back**: requested coverage order, the
    snapshot's sparse order and sentinel, a PLAIN kind (`bool` for a bit-packed map); the
    snapshot's value at every valid pixel, the sentinel elsewhere; covered = holds a valid pixel -/
theorem dense_hpx_read_written {d d' : DenseMapC} {co : Nat} (h : dReadWritten d co = .ok d') :
    ∃ dt, ApiHealpixRT.hpxDT d.toDense.kind = some dt ∧
    d'.toDense.covord = co ∧ d'.toDense.spord = d.toDense.spord ∧ d'.toDense.kind = .plain dt ∧
    d'.toDense.sent = d.toDense.sent ∧ ApiDenseScalar.dValidSet d.toDense ≠ [] ∧
    (∀ p, d'.toDense.f p =
      if d.toDense.kind.valid d.toDense.sent (d.toDense.f p) = true then d.toDense.f p
      else d.toDense.sent) ∧
    (∀ k, d'.cov k = true ↔ ∃ p ∈ ApiDenseScalar.dValidSet d.toDense,
      p >>> (cfgOf co d.toDense.spord).shift = k) := by
  unfold dReadWritten at h
  split at h
  · cases h
  · rename_i dt hdt
    split at h
    · cases h
    · rename_i hne
      split at h
      · cases h
      · split at h
        · cases h
        · cases h
          refine ⟨dt, hdt, rfl, rfl, rfl, rfl, hne, fun p => rfl, fun k => ?_⟩
          show ((ApiDenseScalar.dValidSet d.toDense).any
            fun p => p >>> (cfgOf co d.toDense.spord).shift == k) = true ↔ _
          rw [List.any_eq_true]
          constructor
          · rintro ⟨p, hp, hk⟩; exact ⟨p, hp, by simpa using hk⟩
          · rintro ⟨p, hp, hk⟩; exact ⟨p, hp, by simpa using hk⟩

/-- **`moc`**: the UNIQ column stored and printed is a function of the dense valid set (and the
    two orders) alone -/
theorem dense_moc (D : DenseWorldIO) (a : Args) {n : String} {rest : List String} {d : DenseMapC}
    (hpos : a.pos = n :: rest) (hd : D.maps.get? n = some d)
    (hne : ApiDenseScalar.dValidSet d.toDense ≠ []) :
    (dstepArgsIO D "moc" a).2 =
      showNats (mocWrite d.toDense.spord d.toDense.covord (ApiDenseScalar.dValidSet d.toDense)) ∧
    ApiDenseIO.lookup (dstepArgsIO D "moc" a).1.mocs (a.getD "f" "f") =
      some (mocWrite d.toDense.spord d.toDense.covord (ApiDenseScalar.dValidSet d.toDense)) := by
  have e : dstepArgsIO D "moc" a = dMocOp D a := rfl
  rw [e]
  unfold dMocOp dWithMapIO
  simp only [hpos, hd, if_neg hne]
  exact ⟨trivial, lookup_insert_self _ _ _⟩

/-! ### (3) what is NOT covered, on examples -/

/-! `genhp` through a RING table longer than the output map (13 entries for 12 pixels) or without
    `ord=`, `genhp` with a key, `dor`, `cat` and the raw dumps are outside `lineOkIO`;
    `nvalid … path=str` stays excluded -/
#guard lineOkIO "genhp a ord=0 nest=0 n2r=0,1,2,3,4,5,6,7,8,9,10,11"
#guard lineOkIO "genhp a ord=0 nest=0 n2r=3,3,3"
#guard lineOkIO "genhp a ord=0 nest=0 n2r=x"
#guard !lineOkIO "genhp a ord=0 nest=0 n2r=0,1,2,3,4,5,6,7,8,9,10,11,12"
#guard !lineOkIO "genhp a nest=0 n2r=0,1,2,3,4,5,6,7,8,9,10,11"
#guard !lineOkIO "genhp rc key=1"
#guard lineOkIO "hpxwrite a f=H"
#guard !lineOkIO "dor f=F ord=1 red=mean r=x"
#guard !lineOkIO "cat files=F,G f=C"
#guard !lineOkIO "fitsraw f=F cov=0 sp=0"
#guard !lineOkIO "nvalid a path=str"
#guard lineOkIO "genhp a" && lineOkIO "genhp a ord=0 red=sum nest=1"

/-! ### (4) an example history

Maps of several kinds at orders 0 / 1 (48 pixels, 4 per coverage pixel): `int64`, `float64`,
bit-packed, wide mask, record.  Each is written; the files are read back fully and partially
(`pixels=`: restriction; duplicates and a request without covered pixel refused; out-of-range
entries ignored); the read-back maps are extended (`upd`, `sop`) and compared with the originals
(`mop`); user metadata travel `meta` → `write` → `read` → `pack`; `covread`; HEALPix export
(`genhp`, also degraded) and import (`fromhp`, implicit file + `hpxread`, NESTED and RING); MOC
round trip (`moc`, `mocread`, then boolean operations on the map read); `info`, `vpsc`, `drop`,
`reset`; mixed with operations of the five old families; malformed and refused lines. -/

def exIO : List String := [
  "cfg a kind=plain dtype=i8 covord=0 spord=1",
  "upd a pix=3,20,21,40 vals=1,2,3,4",
  "cfg f kind=plain dtype=f8 covord=0 spord=1 covpix=7",
  "upd f pix=0,1,22 vals=1^1,3^2,-5",
  "cfg p kind=packed covord=0 spord=2",
  "upd p pix=20,21,45 val=T",
  "cfg e0 kind=plain dtype=f4 covord=0 spord=1 covpix=2",
  "cfg wm kind=wide maxbits=12 covord=0 spord=1",
  "bits wm mode=set pix=5,30 bits=1,9",
  "cfg rc kind=rec fields=i4,f8 primary=0 covord=0 spord=1",
  "upd rc pix=5 val=r3;2",
  "info a",
  "info f",
  "info p",
  "info wm",
  "info rc",
  "vpsc a k=5",
  "vpsc a k=0",
  "vpsc a k=1",
  "vpsc a k=12",
  "vpsc a",
  "meta a k=AUTHOR v=me",
  "meta a k=RUN v=7",
  "meta a k=AUTHOR v=you",
  "getmeta a k=AUTHOR",
  "getmeta a k=NONE",
  "getmeta f k=AUTHOR",
  -- write every kind; read back fully
  "write a f=A",
  "write f f=F",
  "write p f=P",
  "write wm f=W",
  "write rc f=R",
  "covread f=A",
  "covread f=F",
  "covread f=ZZ",
  "read f=A r=a2",
  "read f=F r=f2",
  "read f=P r=p2",
  "read f=W r=w2",
  "read f=R r=r2",
  "info r2",
  "vals a2",
  "vals f2",
  "covmask f2",
  "vals p2",
  "get w2 pix=5,30,6",
  "get r2 pix=5,6",
  "getmeta a2 k=AUTHOR",
  "getmeta a2 k=RUN",
  "getmeta f2 k=AUTHOR",
  -- the original changes, the file does not
  "upd a pix=47 val=9",
  "read f=A r=a3",
  "get a3 pix=47,40",
  "covmask a3",
  "covmask a",
  -- partial reads
  "read f=A r=ap pixels=5,10",
  "vals ap",
  "covmask ap",
  "read f=A r=ap pixels=5,5",
  "read f=A r=ap pixels=1,2",
  "read f=A r=ap pixels=99,0",
  "covmask ap",
  "read f=A r=ap pixels=x",
  "read f=F r=fp pixels=7",
  "vals fp",
  "covmask fp",
  "nvalid fp",
  "read f=W r=wp pixels=1",
  "chk wp pix=5,30 bits=9",
  "read f=ZZ r=q",
  -- the read-back map is an ordinary map
  "upd ap pix=44 val=8",
  "covmask ap",
  "sop a2 op=mul k=10 inplace=1",
  "mop maps=a,a2 name=sum_union r=s",
  "get s pix=3,20,21,40,47",
  "write s f=A",
  "read f=A r=s2",
  "mop maps=s,s2 name=sum_intersection r=t",
  "get t pix=3,20,21,40,47",
  "getmeta s2 k=AUTHOR",
  "deg s2 ord=0 red=sum r=sd",
  "vals sd",
  -- metadata through pack
  "cfg bo kind=plain dtype=b1 covord=0 spord=2",
  "upd bo pix=5 val=T",
  "meta bo k=MASK v=yes",
  "pack bo r=pq",
  "getmeta pq k=MASK",
  "meta p k=MASK v=yes",
  "pack p r=pp",
  "getmeta pp k=MASK",
  -- HEALPix export / import
  "genhp a",
  "genhp a ord=0 red=sum",
  "genhp a ord=2",
  "genhp f",
  "genhp p",
  "genhp wm",
  "genhp rc",
  "genhp a ord=1 nest=0 n2r=13,5,4,0,15,7,6,1,17,9,8,2,19,11,10,3,28,20,27,12,30,22,21,14,32,24,23,16,34,26,25,18,44,37,36,29,45,39,38,31,46,41,40,33,47,43,42,35",   -- RING export, hpgeom's nest_to_ring at nside 2
  "genhp a ord=0 red=sum nest=0 n2r=1,0,2,3,4,6,5,7,8,9,11,10",   -- … any permutation
  "genhp a ord=0 red=sum nest=0 n2r=5,5,5",                       -- … any shorter table
  "genhp a ord=1 nest=0 n2r=47,46,45",
  "genhp a ord=0 nest=0 n2r=x",
  "fromhp r=h dtype=f4 covord=0 spord=0 sentinel=-1 vals=1,2,-1637499999999999923489519697920,4,5,6,7,8,9,10,11,12",
  "vals h",
  "covmask h",
  "fromhp r=h dtype=i8 covord=0 spord=0 vals=1,2,3,4,5,6,7,8,9,10,11,12",
  "fromhp r=h dtype=f8 covord=0 spord=0 vals=1,2,3",
  "fromhp r=g dtype=f8 covord=0 spord=0 nest=0 r2n=1,0,2,3,4,5,6,7,8,9,10,11 vals=1,2,-1637499999999999923489519697920,4,5,6,7,8,9,10,11,12",
  "vals g",
  "covmask g",
  "mop maps=g,g name=sum_union r=gg",
  "vals gg",
  "hpximplicit f=H dtype=f8 spord=0 vals=1,2,-1637499999999999923489519697920,4,5,6,7,8,9,10,11,12",
  "hpximplicit f=HR dtype=f8 spord=0 ordering=RING vals=1,2,-1637499999999999923489519697920,4,5,6,7,8,9,10,11,12",
  "hpximplicit f=HI dtype=i8 spord=0 vals=1,2,3,4,5,6,7,8,9,10,11,12",
  "hpxread f=H r=hh covord=0",
  "vals hh",
  "hpxread f=HR r=hr covord=0 r2n=1,0,2,3,4,5,6,7,8,9,10,11",
  "vals hr",
  "hpxread f=HR r=hr covord=0",
  "hpxread f=HI r=hi covord=0",
  "hpxread f=H r=hh covord=1",
  "hpxread f=ZZ r=hh covord=0",
  -- explicit files: written from maps (rows in storage order), read back at another coverage order
  "hpxwrite a f=XA",
  "hpxwrite p f=XP",
  "hpxwrite e0 f=XE",
  "hpxwrite wm f=XW",
  "hpxwrite rc f=XR",
  "hpxread f=XA r=xa covord=1",
  "info xa",
  "valid xa",
  "covmask xa",
  "mop maps=a,xa name=sum_intersection r=xs",
  "hpxread f=XA r=xa covord=2",
  "hpxread f=XP r=xp covord=0",
  "info xp",
  "valid xp",
  "hpxread f=XE r=xe covord=0",
  "hpxread f=XW r=xw covord=0",
  -- MOC round trip
  "moc a f=M",
  "moc p f=MP",
  "cfg e kind=plain dtype=i8 covord=0 spord=1",
  "moc e f=ME",
  "mocread f=M r=mm covord=0",
  "info mm",
  "valid mm",
  "valid a",
  "mocread f=MP r=mp covord=1",
  "valid mp",
  "mocread f=M r=mm covord=2",
  "mocread f=ZZ r=mm covord=0",
  "mocread f=M r=m1 covord=1",
  "covmask m1",
  "bop mm op=or rhs=m1 r=mo",
  "bop mm op=or const=T r=mo",
  "valid mo",
  "inv mo inplace=1",
  "nvalid mo",
  -- housekeeping
  "drop a2",
  "vals a2",
  "getmeta a2 k=AUTHOR",
  "read f=A r=a2",
  "nvalid a2",
  "drop",
  "reset",
  "vals a",
  "read f=A r=x",
  "cfg a kind=plain dtype=i8 covord=0 spord=1",
  "getmeta a k=AUTHOR"]

#guard exIO.all lineOkIO
#guard answers exIO == danswersIO exIO

/-! … and the answers are the expected ones -/

-- `info` (every kind), `vpsc` (covered / empty / out of range / malformed)
#guard ((answers exIO).drop 11).take 10 ==
  ["kind=plain:i8 covord=0 spord=1 sentinel=-9223372036854775808", "kind=plain:f8 covord=0 spord=1 sentinel=-1637499999999999923489519697920", "kind=packed covord=0 spord=2 sentinel=F", "kind=wide:2 covord=0 spord=1 sentinel=0", "kind=rec:i4,f8:0 covord=0 spord=1 sentinel=-2147483648", "20,21", "3", "_", "err IndexError", "bad-op:k"]
-- user metadata: the last `meta` wins; unset keys
#guard ((answers exIO).drop 24).take 3 ==
  ["you", "none", "none"]
-- `covread`: the mask of the snapshot (`f` has the allocated, empty coverage pixel 7)
#guard ((answers exIO).drop 32).take 3 ==
  ["100001000010", "100001010000", "bad-op:no-such-map"]
-- wide and record maps come back cell by cell; the metadata travel with the file
#guard ((answers exIO).drop 45).take 5 ==
  ["b2.2,b2.2,b0.0", "r3;2,r-2147483648;-1637499999999999923489519697920", "you", "7", "none"]
-- the file is a snapshot: a later `upd` of the original does not show
#guard ((answers exIO).drop 52).take 3 ==
  ["-9223372036854775808,4", "100001000010", "100001000011"]
-- partial reads: restriction / duplicates refused / nothing covered refused / out-of-range ignored / malformed
#guard ((answers exIO).drop 57).take 6 ==
  ["000001000010", "err RuntimeError", "err RuntimeError", "ok", "100000000000", "bad-op:pixels"]
-- a partial read of an allocated, empty coverage pixel: an empty map with that pixel allocated
#guard ((answers exIO).drop 65).take 2 ==
  ["000000010000", "0"]
-- partial read of a wide mask: pixel 30 (coverage pixel 7) is not read
#guard ((answers exIO).drop 68).take 1 ==
  ["10"]
-- the read-back map (scaled) combined with the original
#guard ((answers exIO).drop 74).take 1 ==
  ["11,22,33,44,9"]
-- … and once more through a file
#guard ((answers exIO).drop 78).take 2 ==
  ["22,44,66,88,18", "none"]
-- metadata through `pack`: kept from a boolean source …
#guard ((answers exIO).drop 86).take 1 ==
  ["yes"]
-- … dropped from a bit-packed one
#guard ((answers exIO).drop 89).take 1 ==
  ["none"]
-- `genhp`: a finer order is refused
#guard ((answers exIO).drop 92).take 1 ==
  ["err ValueError"]
-- `genhp`: wide masks and record maps (no key) are refused
#guard ((answers exIO).drop 95).take 2 ==
  ["err NotImplementedError", "err ValueError"]
-- RING export through a permutation table = the NEST export permuted (hpgeom's table at nside 2,
-- an arbitrary permutation at nside 1)
#guard (let nest := ((answers exIO)[90]?.getD "").splitOn ","
        let ring := ((answers exIO)[97]?.getD "").splitOn ","
        let t := [13,5,4,0,15,7,6,1,17,9,8,2,19,11,10,3,28,20,27,12,30,22,21,14,32,24,23,16,34,26,25,18,
                  44,37,36,29,45,39,38,31,46,41,40,33,47,43,42,35]
        nest.length == 48 && (List.range 48).all fun p => ring[t[p]?.getD 0]? == nest[p]?)
#guard (let nest := ((answers exIO)[91]?.getD "").splitOn ","
        let ring := ((answers exIO)[98]?.getD "").splitOn ","
        let t := [1,0,2,3,4,6,5,7,8,9,11,10]
        nest.length == 12 && (List.range 12).all fun p => ring[t[p]?.getD 0]? == nest[p]?)
-- a malformed table
#guard ((answers exIO).drop 101).take 1 ==
  ["bad-op:n2r"]
-- `fromhp`: the entry equal to UNSEEN is not selected and reads the map's own sentinel; integer array without sentinel, wrong length
#guard ((answers exIO).drop 103).take 4 ==
  ["1,2,-1,4,5,6,7,8,9,10,11,12", "110111111111", "err ValueError", "err ValueError"]
-- `fromhp` of a RING array
#guard ((answers exIO).drop 108).take 2 ==
  ["2,1,-1637499999999999923489519697920,4,5,6,7,8,9,10,11,12", "110111111111"]
-- implicit HEALPix files: NESTED, RING (with / without table), integer column, coverage order too fine, no such file
#guard ((answers exIO).drop 115).take 8 ==
  ["ok", "1,2,-1637499999999999923489519697920,4,5,6,7,8,9,10,11,12", "ok", "2,1,-1637499999999999923489519697920,4,5,6,7,8,9,10,11,12", "err bad-op:r2n", "err ValueError", "err ValueError", "bad-op:no-such-map"]
-- explicit HEALPix files: wide masks / record maps refused; read back at a finer coverage order (re-housed); coverage order too fine; a bit-packed map comes back plain boolean; the file of an empty map cannot be read; no such file
#guard ((answers exIO).drop 123).take 16 ==
  ["ok", "ok", "ok", "err TypeError", "err NotImplementedError", "ok", "kind=plain:i8 covord=1 spord=1 sentinel=-9223372036854775808", "3,20,21,40,47", "000100000000000000001100000000000000000010000001", "err RuntimeError", "err ValueError", "ok", "kind=plain:b1 covord=0 spord=2 sentinel=F", "20,21,45", "err IndexError", "bad-op:no-such-map"]
-- MOC: the UNIQ columns; an empty map is refused; the map read back has the valid set of the map written
#guard ((answers exIO).drop 139).take 12 ==
  ["19,36,37,56,63", "84,85,109", "ok", "err ValueError", "ok", "kind=plain:b1 covord=0 spord=1 sentinel=F", "3,20,21,40,47", "3,20,21,40,47", "ok", "20,21,45", "err ValueError", "bad-op:no-such-map"]
-- the MOC read at a finer coverage order; boolean operations on the maps read
#guard ((answers exIO).drop 152).take 6 ==
  ["000100000000000000001100000000000000000010000001", "err NotImplementedError", "ok", "0,1,2,3,20,21,22,23,40,41,42,43,44,45,46,47", "ok", "0"]
-- housekeeping
#guard ((answers exIO).drop 158).take 11 ==
  ["ok", "bad-op:no-such-map", "bad-op:no-such-map", "ok", "5", "bad-op:drop", "ok", "bad-op:no-such-map", "bad-op:no-such-map", "ok", "none"]

end Dense
end HS
