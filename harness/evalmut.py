"""evalmut.py <mutant id e.g. C04a> <property ids to run, comma separated> — confirm a seeded change and run the checks on it"""
import subprocess, sys, os, json, shutil, time
mid = sys.argv[1]
pids = sys.argv[2].split(',')
src = '/tmp/mut/%s' % mid
pid0 = mid[:3]
patch = os.path.join(src, 'patch_%s.diff' % mid)
demo = os.path.join(src, 'demo_%s.py' % mid)
if '--from-seeded' in sys.argv:          # re-evaluation of a stored change against the current checks
    src = '/verif/seeded/%s' % mid
    patch, demo = os.path.join(src, 'patch.diff'), os.path.join(src, 'demo.py')
wt = '/tmp/mut/eval_%s' % mid
subprocess.run(['git', '-C', '/repo', 'worktree', 'remove', '--force', wt], stdout=subprocess.DEVNULL, stderr=subprocess.DEVNULL)
subprocess.run(['git', '-C', '/repo', 'worktree', 'add', '-q', wt, 'HEAD'], check=True)
def run(cmd, **kw):
    return subprocess.run(cmd, stdout=subprocess.PIPE, stderr=subprocess.STDOUT, **kw)
res = {'id': mid, 'breaks_property': pid0}
# demo on the clean tree
shutil.copy(demo, os.path.join(wt, 'demo.py'))
r0 = run(['/venv/bin/python', 'demo.py'], cwd=wt)
res['demo_exit_without_change'] = r0.returncode
a = run(['git', '-C', wt, 'apply', patch])
res['patch_applies'] = a.returncode == 0
r1 = run(['/venv/bin/python', 'demo.py'], cwd=wt)
res['demo_exit_with_change'] = r1.returncode
res['demo_output_with_change'] = r1.stdout.decode()[-600:]
if '--notests' not in sys.argv:
    t = run(['/venv/bin/python', '-m', 'pytest', '-q', '-p', 'no:cacheprovider', '-n', '8'], cwd=wt)
    tail = t.stdout.decode().strip().split('\n')[-1]
    res['test_suite_with_change'] = tail
os.remove(os.path.join(wt, 'demo.py'))
checks = {}
for pid in pids:
    outs = []
    for seed in ('0', '1', '2'):
        env = dict(os.environ, HS_REPO=wt, VERIF_SEED=seed)
        t0 = time.time()
        r = run(['/verif/check', pid, '--no-lean'] if (pid != 'C06' or '--nolean' in sys.argv) else ['/verif/check', pid], env=env)
        v = [l for l in r.stdout.decode().split('\n') if l.startswith('VIOLATION')]
        outs.append({'seed': int(seed), 'exit': r.returncode, 'violations': len(v), 'wall_s': round(time.time() - t0, 1)})
    checks[pid] = outs
if '--from-seeded' in sys.argv and os.path.exists('/verif/seeded/%s/result.json' % mid):
    # re-evaluation of some checks: keep the stored results of the others
    old = json.load(open('/verif/seeded/%s/result.json' % mid))
    for k in ('demo_exit_without_change', 'demo_exit_with_change', 'test_suite_with_change', 'patch_applies'):
        if k in old and (k not in res or '--notests' in sys.argv and k == 'test_suite_with_change'):
            res[k] = old[k]
    checks = dict(old.get('checks', {}), **checks)
res['checks'] = checks
res['caught_by'] = sorted(p for p, o in checks.items() if any(x['exit'] == 1 for x in o))
res['caught_every_seed_by'] = sorted(p for p, o in checks.items() if all(x['exit'] == 1 for x in o))
subprocess.run(['git', '-C', '/repo', 'worktree', 'remove', '--force', wt])
# C06 regenerates the table from the mutant: restore it from /repo
if '--nolean' not in sys.argv:
    subprocess.run(['/venv/bin/python', '/verif/harness/translate_ops.py'], stdout=subprocess.DEVNULL)
if 'C06' in pids and '--nolean' not in sys.argv:      # ... and rebuild the driver from the restored table
    subprocess.run('cd /verif/lean && lake build hsdriver HealSparse', shell=True, stdout=subprocess.DEVNULL, stderr=subprocess.DEVNULL)
d = '/verif/seeded/%s' % mid
os.makedirs(d, exist_ok=True)
if '--from-seeded' not in sys.argv:
    shutil.copy(patch, os.path.join(d, 'patch.diff'))
    shutil.copy(demo, os.path.join(d, 'demo.py'))
json.dump(res, open(os.path.join(d, 'result.json'), 'w'), indent=1)
print(json.dumps({k: res[k] for k in res if k not in ('checks', 'demo_output_with_change')}, indent=1))
