/-
  Helper lemmas for the concatenation model (`catPartial`, `catSummary`, `catContribution`,
  `catStep`, `catFiles`): the partial map read for one output coverage pixel and its valid
  pixels, the shift arithmetic relating input and output coverage pixels, and the
  invariant of the double loop.  The property theorems in HealSparse/Props/C18.lean are
  thin wrappers.
-/
import HealSparse.Lemmas.Core
import HealSparse.Lemmas.Coverage
import HealSparse.Lemmas.Valid
import HealSparse.Lemmas.FitsIO
import HealSparse.Lemmas.Ranges
import HealSparse.Lemmas.RecArray
import HealSparse.Model.Cat
namespace HS
variable {V : Type}

/-! ### shift arithmetic -/

/-- the children `(pix <<< d) + j`, `j < 2^d`, are exactly the pixels whose `d`-fold parent is `pix` -/
theorem mem_children (pix d k : Nat) :
    k ∈ (List.range (2 ^ d)).map (fun j => (pix <<< d) + j) ↔ k >>> d = pix := by
  rw [List.mem_map, Nat.shiftRight_eq_div_pow, Nat.shiftLeft_eq]
  have hpos : 0 < 2 ^ d := Nat.two_pow_pos d
  constructor
  · rintro ⟨j, hj, rfl⟩
    exact (mul_add_div_mod (List.mem_range.1 hj)).1
  · intro h
    refine ⟨k % 2 ^ d, List.mem_range.2 (Nat.mod_lt _ hpos), ?_⟩
    rw [← h, Nat.mul_comm]
    exact Nat.div_add_mod k (2 ^ d)

theorem nodup_children (pix d : Nat) :
    ((List.range (2 ^ d)).map (fun j => (pix <<< d) + j)).Nodup :=
  nodup_map_of_inj_on List.nodup_range (fun _ _ _ _ h => Nat.add_left_cancel h)

theorem filter_const_true {α : Type} (l : List α) : l.filter (fun _ => true) = l :=
  List.filter_eq_self.2 (fun _ _ => rfl)

theorem getD_eq_getElem {α : Type} (l : List α) (d : α) (n : Nat) (h : n < l.length) :
    l.getD n d = l[n] := by
  simp [h]

theorem nodup_single (a : Nat) : [a].Nodup := by simp

/-- parent of a parent -/
theorem shift_shift (p a b : Nat) (h : a ≤ b) : (p >>> a) >>> (b - a) = p >>> b := by
  rw [← Nat.shiftRight_add]
  congr 1
  omega

/-! ### the partial map -/

/-- `catPartial` builds exactly the state of a partial read -/
theorem catPartial_eq (c : Cfg) (vc : VCfg V) (i : CatIn V) (pixels : List Nat) :
    catPartial c vc i.f pixels =
      partialState c vc i.state (partialPixels c (writeFits i.state) pixels) := rfl

section
variable [DecidableEq V]

/-- the dense view of a partial state: the source inside the kept coverage pixels, blank elsewhere -/
theorem partialState_abs (c : Cfg) (vc : VCfg V) (s : State V) (px : List Nat)
    (h : Inv c vc s) (hnd : px.Nodup)
    (hlt : ∀ k ∈ px, k < c.ncov ∧ covered c s k = true) (p : Nat) (hp : p < c.npix) :
    abs c vc (partialState c vc s px) p =
      if (p >>> c.shift) ∈ px then abs c vc s p else vc.sentinel := by
  by_cases hm : (p >>> c.shift) ∈ px
  · rw [if_pos hm, partialState_abs_mem c vc s px hnd p hp hm (hlt _ hm).2]
  · rw [if_neg hm]
    have hinv := inv_partialState c vc s px h hnd (fun k hk => (hlt k hk).1)
    apply hinv.abs_uncovered hp
    rw [partialState_covered c vc s px hnd _ (covpix_lt c p hp)]
    simp [hm]

theorem inv_catPartial (c : Cfg) (vc : VCfg V) (i : CatIn V) (pixels : List Nat)
    (hi : Inv c vc i.state) (hnd : pixels.Nodup) :
    Inv c vc (catPartial c vc i.f pixels) := by
  rw [catPartial_eq]
  exact inv_partialState c vc i.state _ hi (nodup_partialPixels c i.state pixels hnd)
    (fun k hk => ((mem_partialPixels c i.state pixels k).1 hk).2.1)

/-- the valid pixels of the partial map: the valid pixels of the input inside the requested
    coverage pixels (whether or not those are covered), with the same values -/
theorem catPartial_valid_iff (c : Cfg) (vc : VCfg V) (i : CatIn V) (pixels : List Nat)
    (hi : Inv c vc i.state) (hv : vc.valid vc.sentinel = false) (hnd : pixels.Nodup)
    (p : Nat) (hp : p < c.npix) :
    (vc.valid (abs c vc (catPartial c vc i.f pixels) p) = true ↔
      ((p >>> c.shift) ∈ pixels ∧ vc.valid (abs c vc i.state p) = true)) ∧
    (vc.valid (abs c vc i.state p) = true → (p >>> c.shift) ∈ pixels →
      abs c vc (catPartial c vc i.f pixels) p = abs c vc i.state p) := by
  have hmem := mem_partialPixels c i.state pixels
  have habs := partialState_abs c vc i.state _ hi (nodup_partialPixels c i.state pixels hnd)
    (fun k hk => ((hmem k).1 hk).2) p hp
  rw [← catPartial_eq] at habs
  have hk := covpix_lt c p hp
  constructor
  · constructor
    · intro hval
      by_cases hm : (p >>> c.shift) ∈ partialPixels c (writeFits i.state) pixels
      · rw [habs, if_pos hm] at hval
        exact ⟨((hmem _).1 hm).1, hval⟩
      · rw [habs, if_neg hm, hv] at hval
        cases hval
    · rintro ⟨hin, hval⟩
      have hc := hi.covered_of_valid hv hp hval
      rw [habs, if_pos ((hmem _).2 ⟨hin, hk, hc⟩)]
      exact hval
  · intro hval hin
    have hc := hi.covered_of_valid hv hp hval
    rw [habs, if_pos ((hmem _).2 ⟨hin, hk, hc⟩)]

/-! ### `valid_pixels` as a list of naturals -/

/-- the valid pixels as naturals (storage order) -/
def validNat (c : Cfg) (vc : VCfg V) (s : State V) : List Nat :=
  (validCells vc s).map (pixOfCell c s)

theorem validPixels_getD (c : Cfg) (vc : VCfg V) (s : State V) (h : Inv c vc s)
    (hv : vc.valid vc.sentinel = false) :
    (validPixels c vc s).getD [] = (validNat c vc s).map fun p => ((p : Nat) : Int) := by
  rw [h.validPixels_eq hv]
  rfl

theorem mem_validNat (c : Cfg) (vc : VCfg V) (s : State V) (h : Inv c vc s)
    (hv : vc.valid vc.sentinel = false) (p : Nat) :
    p ∈ validNat c vc s ↔ p < c.npix ∧ vc.valid (abs c vc s p) = true :=
  h.mem_validCells_map hv p

theorem nodup_validNat (c : Cfg) (vc : VCfg V) (s : State V) (h : Inv c vc s)
    (hv : vc.valid vc.sentinel = false) : (validNat c vc s).Nodup :=
  h.nodup_validCells_map hv

/-- the (pixel, value) list built from `valid_pixels`, filtered, over naturals -/
theorem contrib_filter_eq (c : Cfg) (vc : VCfg V) (s : State V) (h : Inv c vc s)
    (hv : vc.valid vc.sentinel = false) (f : Nat → Bool) :
    (((validPixels c vc s).getD []).filter fun q => f q.toNat).map
        (fun q => (q.toNat, abs c vc s q.toNat)) =
      ((validNat c vc s).filter f).map fun p => (p, abs c vc s p) := by
  rw [validPixels_getD c vc s h hv, List.filter_map, List.map_map]
  rfl

theorem contrib_eq (c : Cfg) (vc : VCfg V) (s : State V) (h : Inv c vc s)
    (hv : vc.valid vc.sentinel = false) :
    ((validPixels c vc s).getD []).map (fun q => (q.toNat, abs c vc s q.toNat)) =
      (validNat c vc s).map fun p => (p, abs c vc s p) := by
  rw [validPixels_getD c vc s h hv, List.map_map]
  rfl

/-! ### what one input contributes to one output coverage pixel -/

theorem mem_partialContrib (c : Cfg) (vc : VCfg V) (i : CatIn V) (pixels : List Nat)
    (hi : Inv c vc i.state) (hv : vc.valid vc.sentinel = false) (hnd : pixels.Nodup)
    (f : Nat → Bool) (p : Nat) (v : V) :
    (p, v) ∈ ((validNat c vc (catPartial c vc i.f pixels)).filter f).map
        (fun p => (p, abs c vc (catPartial c vc i.f pixels) p)) ↔
      (p < c.npix ∧ (p >>> c.shift) ∈ pixels ∧ f p = true ∧
        vc.valid (abs c vc i.state p) = true ∧ v = abs c vc i.state p) := by
  have hinv := inv_catPartial c vc i pixels hi hnd
  rw [List.mem_map]
  constructor
  · rintro ⟨q, hq, he⟩
    rw [List.mem_filter, mem_validNat c vc _ hinv hv] at hq
    obtain ⟨⟨hlt, hval⟩, hf⟩ := hq
    obtain ⟨hqp, hv2⟩ := Prod.mk.inj he
    subst hqp
    subst hv2
    have hs := catPartial_valid_iff c vc i pixels hi hv hnd q hlt
    have h2 := hs.1.1 hval
    exact ⟨hlt, h2.1, hf, h2.2, hs.2 h2.2 h2.1⟩
  · rintro ⟨hlt, hin, hf, hval, rfl⟩
    have hs := catPartial_valid_iff c vc i pixels hi hv hnd p hlt
    refine ⟨p, ?_, ?_⟩
    · rw [List.mem_filter, mem_validNat c vc _ hinv hv]
      exact ⟨⟨hlt, hs.1.2 ⟨hin, hval⟩⟩, hf⟩
    · rw [hs.2 hval hin]

/-- `catContribution` over naturals -/
theorem catContribution_eq (cOut : Cfg) (vc : VCfg V) (i : CatIn V) (pix : Nat)
    (hi : Inv i.c vc i.state) (hv : vc.valid vc.sentinel = false) :
    catContribution cOut vc i pix =
      if i.c.shift = cOut.shift then
        ((validNat i.c vc (catPartial i.c vc i.f [pix])).filter fun _ => true).map
          fun p => (p, abs i.c vc (catPartial i.c vc i.f [pix]) p)
      else if cOut.shift < i.c.shift then
        ((validNat i.c vc (catPartial i.c vc i.f [pix >>> (i.c.shift - cOut.shift)])).filter
          fun p => p >>> cOut.shift == pix).map
          fun p => (p, abs i.c vc (catPartial i.c vc i.f [pix >>> (i.c.shift - cOut.shift)]) p)
      else
        ((validNat i.c vc (catPartial i.c vc i.f
            ((List.range (2 ^ (cOut.shift - i.c.shift))).map
              fun j => (pix <<< (cOut.shift - i.c.shift)) + j))).filter fun _ => true).map
          fun p => (p, abs i.c vc (catPartial i.c vc i.f
            ((List.range (2 ^ (cOut.shift - i.c.shift))).map
              fun j => (pix <<< (cOut.shift - i.c.shift)) + j)) p) := by
  unfold catContribution
  simp only
  split
  · rw [contrib_eq i.c vc _ (inv_catPartial i.c vc i _ hi (nodup_single _)) hv,
      filter_const_true]
  · split
    · rw [contrib_filter_eq i.c vc _ (inv_catPartial i.c vc i _ hi (nodup_single _)) hv
        (fun p => p >>> cOut.shift == pix)]
    · rw [contrib_eq i.c vc _ (inv_catPartial i.c vc i _ hi (nodup_children _ _)) hv,
        filter_const_true]

theorem mem_catContribution (cOut : Cfg) (vc : VCfg V) (i : CatIn V) (pix : Nat)
    (hi : Inv i.c vc i.state) (hv : vc.valid vc.sentinel = false) (hn : i.c.npix = cOut.npix)
    (p : Nat) (v : V) :
    (p, v) ∈ catContribution cOut vc i pix ↔
      (p < cOut.npix ∧ p >>> cOut.shift = pix ∧ vc.valid (abs i.c vc i.state p) = true ∧
        v = abs i.c vc i.state p) := by
  rw [catContribution_eq cOut vc i pix hi hv]
  split
  · rename_i h1
    rw [mem_partialContrib i.c vc i _ hi hv (nodup_single _), hn, h1, List.mem_singleton]
    simp
  · split
    · rename_i h1 h2
      rw [mem_partialContrib i.c vc i _ hi hv (nodup_single _), hn, List.mem_singleton]
      constructor
      · rintro ⟨a, _, b, c, d⟩
        exact ⟨a, by simpa using b, c, d⟩
      · rintro ⟨a, b, c, d⟩
        refine ⟨a, ?_, by simpa using b, c, d⟩
        rw [← b, shift_shift p _ _ (Nat.le_of_lt h2)]
    · rename_i h1 h2
      have hle : i.c.shift ≤ cOut.shift := by omega
      rw [mem_partialContrib i.c vc i _ hi hv (nodup_children _ _), hn, mem_children,
        shift_shift p _ _ hle]
      simp

theorem nodup_catContribution (cOut : Cfg) (vc : VCfg V) (i : CatIn V) (pix : Nat)
    (hi : Inv i.c vc i.state) (hv : vc.valid vc.sentinel = false) :
    ((catContribution cOut vc i pix).map (·.1)).Nodup := by
  have key : ∀ (pixels : List Nat) (f : Nat → Bool), pixels.Nodup →
      ((((validNat i.c vc (catPartial i.c vc i.f pixels)).filter f).map
        fun p => (p, abs i.c vc (catPartial i.c vc i.f pixels) p)).map (·.1)).Nodup := by
    intro pixels f hnd
    rw [List.map_map]
    have : ((fun x : Nat × V => x.1) ∘ fun p => (p, abs i.c vc (catPartial i.c vc i.f pixels) p))
        = id := rfl
    rw [this, List.map_id]
    exact List.filter_sublist.nodup
      (nodup_validNat i.c vc _ (inv_catPartial i.c vc i pixels hi hnd) hv)
  rw [catContribution_eq cOut vc i pix hi hv]
  split
  · exact key _ _ (nodup_single _)
  · split
    · exact key _ _ (nodup_single _)
    · exact key _ _ (nodup_children _ _)

/-- every valid pixel of the input lies in an output coverage pixel flagged by the summary -/
theorem catSummary_complete (cOut : Cfg) (vc : VCfg V) (i : CatIn V)
    (hi : Inv i.c vc i.state) (hv : vc.valid vc.sentinel = false) (hn : i.c.npix = cOut.npix)
    (p : Nat) (hp : p < cOut.npix) (hval : vc.valid (abs i.c vc i.state p) = true) :
    catSummary cOut vc i (p >>> cOut.shift) = true := by
  rw [← hn] at hp
  have hc := hi.covered_of_valid hv hp hval
  unfold catSummary
  split
  · rename_i h1
    rw [← h1]; exact hc
  · split
    · rw [hi.validPixels_eq hv]
      simp only [List.any_eq_true]
      refine ⟨((p : Nat) : Int), ?_, by simp⟩
      rw [List.mem_map]
      exact ⟨p, (hi.mem_validCells_map hv p).2 ⟨hp, hval⟩, rfl⟩
    · rename_i h1 h2
      rw [List.any_eq_true]
      refine ⟨p >>> i.c.shift, List.mem_range.2 (covpix_lt i.c p hp), ?_⟩
      rw [hc, shift_shift p _ _ (by omega)]
      simp

end

/-! ### the double loop as a single fold over (output coverage pixel, input) pairs -/

/-- one iteration of the double loop -/
def catIter (cOut : Cfg) (vc : VCfg V) (checkOverlap orOk : Bool) (orF : V → V → V)
    (acc : Option (State V)) (x : Nat × CatIn V) : Option (State V) :=
  match acc with
  | none => none
  | some out =>
    if catSummary cOut vc x.2 x.1 then
      if cOut.shift < x.2.c.shift && (catContribution cOut vc x.2 x.1).isEmpty then some out
      else catStep cOut vc checkOverlap orOk orF out (catContribution cOut vc x.2 x.1)
    else some out

/-- the output coverage pixels visited -/
def catCovPix (cOut : Cfg) (vc : VCfg V) (inputs : List (CatIn V)) : List Nat :=
  (List.range cOut.ncov).filter fun k => inputs.any fun i => catSummary cOut vc i k

/-- the iterations, in order -/
def catPairs (cOut : Cfg) (vc : VCfg V) (inputs : List (CatIn V)) : List (Nat × CatIn V) :=
  (catCovPix cOut vc inputs).flatMap fun pix => inputs.map fun i => (pix, i)

theorem catFiles_eq (cOut : Cfg) (vc : VCfg V) (inputs : List (CatIn V)) (co oo : Bool)
    (orF : V → V → V) :
    catFiles cOut vc inputs co oo orF =
      (catPairs cOut vc inputs).foldl (catIter cOut vc co oo orF) (some (makeEmpty cOut vc [])) := by
  unfold catFiles catPairs catCovPix
  simp only
  rw [List.foldl_flatMap]
  congr 1
  funext acc pix
  rw [List.foldl_map]
  rfl

theorem catIter_none_foldl (cOut : Cfg) (vc : VCfg V) (co oo : Bool) (orF : V → V → V)
    (T : List (Nat × CatIn V)) : T.foldl (catIter cOut vc co oo orF) none = none := by
  induction T with
  | nil => rfl
  | cons x xs ih => exact ih

theorem mem_catPairs (cOut : Cfg) (vc : VCfg V) (inputs : List (CatIn V)) (x : Nat × CatIn V) :
    x ∈ catPairs cOut vc inputs ↔
      (x.1 < cOut.ncov ∧ (∃ i ∈ inputs, catSummary cOut vc i x.1 = true)) ∧ x.2 ∈ inputs := by
  unfold catPairs catCovPix
  rw [List.mem_flatMap]
  constructor
  · rintro ⟨pix, hpix, hx⟩
    obtain ⟨i, hi, rfl⟩ := List.mem_map.1 hx
    rw [List.mem_filter, List.mem_range, List.any_eq_true] at hpix
    exact ⟨hpix, hi⟩
  · rintro ⟨hpix, hi⟩
    refine ⟨x.1, ?_, List.mem_map.2 ⟨x.2, hi, rfl⟩⟩
    rw [List.mem_filter, List.mem_range, List.any_eq_true]
    exact hpix

section
variable [DecidableEq V]

/-- replace with a duplicate-free pixel column: listed pixels get their value, the rest is unchanged -/
theorem catReplace_spec (c : Cfg) (vc : VCfg V) (s : State V) (L : List (Nat × V))
    (h : Inv c vc s) (hL : ∀ qw ∈ L, qw.1 < c.npix) (hnd : (L.map (·.1)).Nodup) :
    Inv c vc (updatePix c vc s none (fun _ (w : V) => w) L false) ∧
    ∀ p, p < c.npix →
      (∀ v, (p, v) ∈ L → abs c vc (updatePix c vc s none (fun _ (w : V) => w) L false) p = v) ∧
      ((∀ v, (p, v) ∉ L) → abs c vc (updatePix c vc s none (fun _ (w : V) => w) L false) p
          = abs c vc s p) := by
  have hL' : ∀ qw ∈ stageList false L, qw.1 < c.npix := by
    intro qw hq
    obtain ⟨pw, hpw, he⟩ := stageList_fst_mem false L qw hq
    rw [← he]; exact hL pw hpw
  have e : updatePix c vc s none (fun _ (w : V) => w) L false =
      updateCore c vc s (stageOp id fun _ (w : V) => w) (stageList false L) false := rfl
  rw [e]
  refine ⟨inv_updateCore' c vc s _ _ false h hL', ?_⟩
  intro p hp
  rw [updateCore_refines' c vc s _ _ false h hL' p hp]
  unfold denseUpdate
  simp only [Bool.false_and, Bool.false_eq_true, if_false]
  constructor
  · intro v hv
    exact denseFold_replace_nodup L hnd p v hv _
  · intro hno
    apply denseFold_none
    intro qw hq he
    obtain ⟨pw, hpw, he'⟩ := stageList_fst_mem false L qw hq
    apply hno pw.2
    have : (p, pw.2) = pw := by rw [← he, ← he']
    rw [this]; exact hpw

/-- the loop invariant: the output holds, at every pixel, the value of the processed input
    valid there (they agree when several are), the sentinel when none is -/
def CatGood (cOut : Cfg) (vc : VCfg V) (T : List (Nat × CatIn V)) (out : State V) : Prop :=
  Inv cOut vc out ∧ ∀ p, p < cOut.npix →
    (∀ x ∈ T, x.1 = p >>> cOut.shift → vc.valid (abs x.2.c vc x.2.state p) = true →
      abs cOut vc out p = abs x.2.c vc x.2.state p) ∧
    ((∀ x ∈ T, x.1 = p >>> cOut.shift → vc.valid (abs x.2.c vc x.2.state p) = false) →
      abs cOut vc out p = vc.sentinel)

theorem catGood_nil (cOut : Cfg) (vc : VCfg V) : CatGood cOut vc [] (makeEmpty cOut vc []) := by
  refine ⟨inv_makeEmpty' cOut vc [] List.nodup_nil (fun _ hk => nomatch hk), ?_⟩
  intro p _
  exact ⟨fun x hx => absurd hx List.not_mem_nil, fun _ => makeEmpty_abs' cOut vc [] p⟩

/-- an iteration that leaves the output alone keeps the invariant when the input already
    agrees with the output on the coverage pixel -/
theorem catGood_snoc_same (cOut : Cfg) (vc : VCfg V) (T : List (Nat × CatIn V)) (out : State V)
    (x : Nat × CatIn V) (hg : CatGood cOut vc T out)
    (hx : ∀ p, p < cOut.npix → p >>> cOut.shift = x.1 →
      vc.valid (abs x.2.c vc x.2.state p) = true → abs cOut vc out p = abs x.2.c vc x.2.state p) :
    CatGood cOut vc (T ++ [x]) out := by
  refine ⟨hg.1, ?_⟩
  intro p hp
  constructor
  · intro y hy h1 h2
    rcases List.mem_append.1 hy with hy | hy
    · exact (hg.2 p hp).1 y hy h1 h2
    · rw [List.mem_singleton] at hy
      subst hy
      exact hx p hp h1.symm h2
  · intro hno
    exact (hg.2 p hp).2 (fun y hy => hno y (List.mem_append_left _ hy))

/-- **one iteration without overlap** -/
theorem catIter_good (cOut : Cfg) (vc : VCfg V) (co oo : Bool) (orF : V → V → V)
    (T : List (Nat × CatIn V)) (out : State V) (x : Nat × CatIn V)
    (hv : vc.valid vc.sentinel = false)
    (hi : Inv x.2.c vc x.2.state) (hn : x.2.c.npix = cOut.npix)
    (hg : CatGood cOut vc T out)
    (hfree : ∀ p, p < cOut.npix → p >>> cOut.shift = x.1 →
      vc.valid (abs x.2.c vc x.2.state p) = true → vc.valid (abs cOut vc out p) = false) :
    ∃ out', catIter cOut vc co oo orF (some out) x = some out' ∧
      CatGood cOut vc (T ++ [x]) out' := by
  have hmem := mem_catContribution cOut vc x.2 x.1 hi hv hn
  unfold catIter
  simp only
  split
  · split
    · rename_i hs hcont
      refine ⟨out, rfl, catGood_snoc_same cOut vc T out x hg ?_⟩
      intro p hp h1 h2
      exfalso
      have : (p, abs x.2.c vc x.2.state p) ∈ catContribution cOut vc x.2 x.1 :=
        (hmem p _).2 ⟨hp, h1, h2, rfl⟩
      simp only [Bool.and_eq_true, List.isEmpty_iff] at hcont
      rw [hcont.2] at this
      cases this
    · -- the update
      have hany : (catContribution cOut vc x.2 x.1).any
          (fun pv => vc.valid (abs cOut vc out pv.1)) = false := by
        rw [List.any_eq_false]
        intro pv hpv
        have := (hmem pv.1 pv.2).1 hpv
        rw [hfree pv.1 this.1 this.2.1 this.2.2.1]
        simp
      have hstep : catStep cOut vc co oo orF out (catContribution cOut vc x.2 x.1) =
          some (updatePix cOut vc out none (fun _ (w : V) => w)
            (catContribution cOut vc x.2 x.1) false) := by
        unfold catStep
        rw [hany, Bool.and_false]
        simp
      refine ⟨_, hstep, ?_⟩
      obtain ⟨hinv', habs'⟩ := catReplace_spec cOut vc out (catContribution cOut vc x.2 x.1) hg.1
        (fun qw hq => ((hmem qw.1 qw.2).1 hq).1) (nodup_catContribution cOut vc x.2 x.1 hi hv)
      refine ⟨hinv', ?_⟩
      intro p hp
      by_cases hin : p >>> cOut.shift = x.1 ∧ vc.valid (abs x.2.c vc x.2.state p) = true
      · -- a contributed pixel
        have hnew := (habs' p hp).1 _ ((hmem p _).2 ⟨hp, hin.1, hin.2, rfl⟩)
        have hold := hfree p hp hin.1 hin.2
        constructor
        · intro y hy h1 h2
          rcases List.mem_append.1 hy with hy | hy
          · have := (hg.2 p hp).1 y hy h1 h2
            rw [this, h2] at hold
            cases hold
          · rw [List.mem_singleton] at hy
            subst hy
            exact hnew
        · intro hno
          have := hno x (List.mem_append_right _ (List.mem_singleton.2 rfl)) hin.1.symm
          rw [hin.2] at this
          cases this
      · have hsame := (habs' p hp).2 (fun v hpv => hin
          ⟨((hmem p v).1 hpv).2.1, ((hmem p v).1 hpv).2.2.1⟩)
        rw [hsame]
        constructor
        · intro y hy h1 h2
          rcases List.mem_append.1 hy with hy | hy
          · exact (hg.2 p hp).1 y hy h1 h2
          · rw [List.mem_singleton] at hy
            subst hy
            exact absurd ⟨h1.symm, h2⟩ hin
        · intro hno
          exact (hg.2 p hp).2 (fun y hy => hno y (List.mem_append_left _ hy))
  · rename_i hs
    refine ⟨out, rfl, catGood_snoc_same cOut vc T out x hg ?_⟩
    intro p hp h1 h2
    exfalso
    have := catSummary_complete cOut vc x.2 hi hv hn p hp h2
    rw [h1] at this
    exact hs this

end

section
variable [DecidableEq V]

/-- two iterations do not clash: same output coverage pixel, no common valid pixel -/
def CatNoClash (cOut : Cfg) (vc : VCfg V) (y x : Nat × CatIn V) : Prop :=
  y.1 = x.1 → ∀ p, p < cOut.npix → p >>> cOut.shift = x.1 →
    ¬ (vc.valid (abs y.2.c vc y.2.state p) = true ∧ vc.valid (abs x.2.c vc x.2.state p) = true)

/-- under the invariant, a valid output pixel stems from a processed input valid there -/
theorem CatGood.valid_out {cOut : Cfg} {vc : VCfg V} {T : List (Nat × CatIn V)} {out : State V}
    (hg : CatGood cOut vc T out) (hv : vc.valid vc.sentinel = false) {p : Nat} (hp : p < cOut.npix)
    (hval : vc.valid (abs cOut vc out p) = true) :
    ∃ y ∈ T, y.1 = p >>> cOut.shift ∧ vc.valid (abs y.2.c vc y.2.state p) = true := by
  apply Classical.byContradiction
  intro hno
  have : abs cOut vc out p = vc.sentinel := by
    apply (hg.2 p hp).2
    intro y hy h1
    cases h2 : vc.valid (abs y.2.c vc y.2.state p) with
    | false => rfl
    | true => exact absurd ⟨y, hy, h1, h2⟩ hno
  rw [this, hv] at hval
  cases hval

/-- **the loop without clashes** succeeds and keeps the invariant -/
theorem catFold_good (cOut : Cfg) (vc : VCfg V) (co oo : Bool) (orF : V → V → V)
    (hv : vc.valid vc.sentinel = false) (Trest : List (Nat × CatIn V)) :
    ∀ (Tdone : List (Nat × CatIn V)) (out : State V),
      (Tdone ++ Trest).Pairwise (CatNoClash cOut vc) →
      (∀ x ∈ Trest, Inv x.2.c vc x.2.state ∧ x.2.c.npix = cOut.npix) →
      CatGood cOut vc Tdone out →
      ∃ out', Trest.foldl (catIter cOut vc co oo orF) (some out) = some out' ∧
        CatGood cOut vc (Tdone ++ Trest) out' := by
  induction Trest with
  | nil => intro Tdone out _ _ hg; exact ⟨out, rfl, by rwa [List.append_nil]⟩
  | cons x xs ih =>
    intro Tdone out hpw hok hg
    have hx := hok x List.mem_cons_self
    have hfree : ∀ p, p < cOut.npix → p >>> cOut.shift = x.1 →
        vc.valid (abs x.2.c vc x.2.state p) = true → vc.valid (abs cOut vc out p) = false := by
      intro p hp h1 h2
      cases h3 : vc.valid (abs cOut vc out p) with
      | false => rfl
      | true =>
        obtain ⟨y, hy, hy1, hy2⟩ := hg.valid_out hv hp h3
        have := (List.pairwise_append.1 hpw).2.2 y hy x List.mem_cons_self
        exact absurd ⟨hy2, h2⟩ (this (hy1.trans h1) p hp h1)
    obtain ⟨out1, h1, hg1⟩ := catIter_good cOut vc co oo orF Tdone out x hv hx.1 hx.2 hg hfree
    have e : Tdone ++ x :: xs = (Tdone ++ [x]) ++ xs := by simp
    rw [List.foldl_cons, h1, e]
    rw [e] at hpw
    exact ih (Tdone ++ [x]) out1 hpw (fun y hy => hok y (List.mem_cons_of_mem _ hy)) hg1

/-- an iteration whose input shares a valid pixel with the output raises (overlap checking on,
    no or-combination) -/
theorem catIter_overlap_none (cOut : Cfg) (vc : VCfg V) (orF : V → V → V) (out : State V)
    (x : Nat × CatIn V) (hv : vc.valid vc.sentinel = false)
    (hi : Inv x.2.c vc x.2.state) (hn : x.2.c.npix = cOut.npix)
    (p : Nat) (hp : p < cOut.npix) (h1 : p >>> cOut.shift = x.1)
    (h2 : vc.valid (abs x.2.c vc x.2.state p) = true) (h3 : vc.valid (abs cOut vc out p) = true) :
    catIter cOut vc true false orF (some out) x = none := by
  have hmem : (p, abs x.2.c vc x.2.state p) ∈ catContribution cOut vc x.2 x.1 :=
    (mem_catContribution cOut vc x.2 x.1 hi hv hn p _).2 ⟨hp, h1, h2, rfl⟩
  have hs : catSummary cOut vc x.2 x.1 = true := by
    rw [← h1]; exact catSummary_complete cOut vc x.2 hi hv hn p hp h2
  have hne : (catContribution cOut vc x.2 x.1).isEmpty = false := by
    cases hL : catContribution cOut vc x.2 x.1 with
    | nil => rw [hL] at hmem; cases hmem
    | cons _ _ => rfl
  have hany : (catContribution cOut vc x.2 x.1).any
      (fun pv => vc.valid (abs cOut vc out pv.1)) = true :=
    List.any_eq_true.2 ⟨_, hmem, h3⟩
  unfold catIter
  simp only [hs, hne, Bool.and_false, if_true]
  unfold catStep
  rw [hany]
  simp

/-- if the checked loop succeeds, no two iterations clashed -/
theorem catFold_some_noClash (cOut : Cfg) (vc : VCfg V) (orF : V → V → V)
    (hv : vc.valid vc.sentinel = false) (Trest : List (Nat × CatIn V)) :
    ∀ (Tdone : List (Nat × CatIn V)) (out out' : State V),
      (∀ x ∈ Trest, Inv x.2.c vc x.2.state ∧ x.2.c.npix = cOut.npix) →
      CatGood cOut vc Tdone out →
      Trest.foldl (catIter cOut vc true false orF) (some out) = some out' →
      (∀ y ∈ Tdone, ∀ x ∈ Trest, CatNoClash cOut vc y x) ∧ Trest.Pairwise (CatNoClash cOut vc) := by
  induction Trest with
  | nil => intro _ _ _ _ _ _; exact ⟨fun _ _ _ hx => absurd hx List.not_mem_nil, List.Pairwise.nil⟩
  | cons x xs ih =>
    intro Tdone out out' hok hg hfold
    have hx := hok x List.mem_cons_self
    by_cases hov : ∃ p, p < cOut.npix ∧ p >>> cOut.shift = x.1 ∧
        vc.valid (abs x.2.c vc x.2.state p) = true ∧ vc.valid (abs cOut vc out p) = true
    · obtain ⟨p, hp, h1, h2, h3⟩ := hov
      rw [List.foldl_cons, catIter_overlap_none cOut vc orF out x hv hx.1 hx.2 p hp h1 h2 h3,
        catIter_none_foldl] at hfold
      cases hfold
    · have hfree : ∀ p, p < cOut.npix → p >>> cOut.shift = x.1 →
          vc.valid (abs x.2.c vc x.2.state p) = true → vc.valid (abs cOut vc out p) = false := by
        intro p hp h1 h2
        cases h3 : vc.valid (abs cOut vc out p) with
        | false => rfl
        | true => exact absurd ⟨p, hp, h1, h2, h3⟩ hov
      obtain ⟨out1, h1, hg1⟩ := catIter_good cOut vc true false orF Tdone out x hv hx.1 hx.2 hg hfree
      rw [List.foldl_cons, h1] at hfold
      obtain ⟨ihA, ihB⟩ := ih (Tdone ++ [x]) out1 out'
        (fun y hy => hok y (List.mem_cons_of_mem _ hy)) hg1 hfold
      constructor
      · intro y hy z hz
        rcases List.mem_cons.1 hz with rfl | hz
        · intro he p hp hp1 hboth
          have := (hg.2 p hp).1 y hy (he.trans hp1.symm) hboth.1
          have h3 := hfree p hp hp1 hboth.2
          rw [this, hboth.1] at h3
          cases h3
        · exact ihA y (List.mem_append_left _ hy) z hz
      · rw [List.pairwise_cons]
        exact ⟨fun z hz => ihA x (List.mem_append_right _ (List.mem_singleton.2 rfl)) z hz, ihB⟩

/-- **union**: inputs with pairwise disjoint valid sets -/
theorem catFiles_union (cOut : Cfg) (vc : VCfg V) (inputs : List (CatIn V)) (co oo : Bool)
    (orF : V → V → V)
    (hin : ∀ i ∈ inputs, Inv i.c vc i.state ∧ i.c.npix = cOut.npix)
    (hv : vc.valid vc.sentinel = false)
    (hdisj : inputs.Pairwise fun a b => ∀ p, p < cOut.npix →
      ¬ (vc.valid (abs a.c vc a.state p) = true ∧ vc.valid (abs b.c vc b.state p) = true)) :
    ∃ out, catFiles cOut vc inputs co oo orF = some out ∧ Inv cOut vc out ∧
      ∀ p, p < cOut.npix →
        (∀ i, inputs.find? (fun i => vc.valid (abs i.c vc i.state p)) = some i →
          abs cOut vc out p = abs i.c vc i.state p) ∧
        (inputs.find? (fun i => vc.valid (abs i.c vc i.state p)) = none →
          abs cOut vc out p = vc.sentinel) := by
  have hpw : (catPairs cOut vc inputs).Pairwise (CatNoClash cOut vc) := by
    unfold catPairs
    rw [List.pairwise_flatMap]
    constructor
    · intro pix _
      rw [List.pairwise_map]
      exact hdisj.imp (fun {a b} h _ p hp _ => h p hp)
    · have hnd : (catCovPix cOut vc inputs).Nodup := List.filter_sublist.nodup List.nodup_range
      refine List.Pairwise.imp ?_ hnd
      intro k1 k2 hne y hy z hz he
      obtain ⟨_, _, rfl⟩ := List.mem_map.1 hy
      obtain ⟨_, _, rfl⟩ := List.mem_map.1 hz
      exact absurd he hne
  have hok : ∀ x ∈ catPairs cOut vc inputs, Inv x.2.c vc x.2.state ∧ x.2.c.npix = cOut.npix :=
    fun x hx => hin x.2 ((mem_catPairs cOut vc inputs x).1 hx).2
  obtain ⟨out, hfold, hg⟩ := catFold_good cOut vc co oo orF hv (catPairs cOut vc inputs) [] _
    (by simpa using hpw) hok (catGood_nil cOut vc)
  rw [List.nil_append] at hg
  refine ⟨out, by rw [catFiles_eq]; exact hfold, hg.1, ?_⟩
  intro p hp
  constructor
  · intro i hf
    have himem := List.mem_of_find?_eq_some hf
    have hval : vc.valid (abs i.c vc i.state p) = true :=
      List.find?_some (p := fun i : CatIn V => vc.valid (abs i.c vc i.state p)) hf
    have hi := hin i himem
    have hT : (p >>> cOut.shift, i) ∈ catPairs cOut vc inputs :=
      (mem_catPairs cOut vc inputs _).2 ⟨⟨covpix_lt cOut p hp, i, himem,
        catSummary_complete cOut vc i hi.1 hv hi.2 p hp hval⟩, himem⟩
    exact (hg.2 p hp).1 _ hT rfl hval
  · intro hf
    rw [List.find?_eq_none] at hf
    apply (hg.2 p hp).2
    intro x hx _
    have := hf x.2 ((mem_catPairs cOut vc inputs x).1 hx).2
    simpa using this

/-- with overlap checking, a pixel valid in two inputs makes the concatenation raise -/
theorem catFiles_overlap_none (cOut : Cfg) (vc : VCfg V) (inputs : List (CatIn V))
    (orF : V → V → V)
    (hin : ∀ i ∈ inputs, Inv i.c vc i.state ∧ i.c.npix = cOut.npix)
    (hv : vc.valid vc.sentinel = false)
    (a b : Nat) (hab : a < b) (hb : b < inputs.length) (p : Nat) (hp : p < cOut.npix)
    (hva : vc.valid (abs (inputs[a]'(Nat.lt_trans hab hb)).c vc
      (inputs[a]'(Nat.lt_trans hab hb)).state p) = true)
    (hvb : vc.valid (abs (inputs[b]'hb).c vc (inputs[b]'hb).state p) = true) :
    catFiles cOut vc inputs true false orF = none := by
  cases hres : catFiles cOut vc inputs true false orF with
  | none => rfl
  | some out' =>
    exfalso
    rw [catFiles_eq] at hres
    have hok : ∀ x ∈ catPairs cOut vc inputs, Inv x.2.c vc x.2.state ∧ x.2.c.npix = cOut.npix :=
      fun x hx => hin x.2 ((mem_catPairs cOut vc inputs x).1 hx).2
    have hpw := (catFold_some_noClash cOut vc orF hv (catPairs cOut vc inputs) [] _ out' hok
      (catGood_nil cOut vc) hres).2
    unfold catPairs at hpw
    rw [List.pairwise_flatMap] at hpw
    have ha := Nat.lt_trans hab hb
    have hia := hin _ (List.getElem_mem ha)
    have hcp : (p >>> cOut.shift) ∈ catCovPix cOut vc inputs := by
      unfold catCovPix
      rw [List.mem_filter, List.mem_range, List.any_eq_true]
      exact ⟨covpix_lt cOut p hp, _, List.getElem_mem ha,
        catSummary_complete cOut vc _ hia.1 hv hia.2 p hp hva⟩
    have h1 := hpw.1 _ hcp
    rw [List.pairwise_map, List.pairwise_iff_getElem] at h1
    exact h1 a b ha hb hab rfl p hp rfl ⟨hva, hvb⟩

end

end HS
