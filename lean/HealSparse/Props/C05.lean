/-
  C05 (array level) — `_PackedBoolArray` behaves like a NumPy boolean array.

  Model: `HealSparse/Model/Packed.lean` (one byte heap for all numpy buffers + one view
  descriptor `PBA` per `_PackedBoolArray` object; every method transcribed from
  `healsparse/packedBoolArray.py`).  Helper lemmas: `HealSparse/Lemmas/Packed.lean`.

  Abstraction: `bits h p` = what `np.asarray(p)` shows (the model of `__array__`).
  Every theorem below has the shape `bits (method …) = <list operation on bits …>`, for ALL
  heaps, offsets, lengths, bit patterns, slice bounds, index lists and operands, under `WF h p`
  ("`p` satisfies the constructor's invariants and lies inside the heap" — proved to hold for
  everything produced by the constructor, `from_boolean_array`, `copy`, `resize` and slices).

  Where the code deviates from NumPy the theorem is named `…_partial`, carries the exact extra
  hypothesis, shows the full NumPy statement in a comment and is followed by a concrete
  `example … := by decide` exhibiting the deviation on the model.
-/
import HealSparse.Lemmas.Packed
namespace HS
namespace C05
open Packed

/-- `bits h p` = `np.asarray(p)`: the model of `__array__` (`Packed.toBools`) -/
local notation "bits" => toBools

/-! ## Bytes -/

/-- "unpack, rewrite bits `[lo,hi)` with `f`, pack" changes exactly those bits. -/
theorem byteMod_getLsbD (b : Byte) (lo hi : Nat) (f : Nat → Bool → Bool) (t : Nat) (ht : t < 8) :
    (pack (setRange (unpack b) lo hi f)).getLsbD t =
      if lo ≤ t ∧ t < hi then f t (b.getLsbD t) else b.getLsbD t :=
  Packed.byteMod_getLsbD b lo hi f t ht

/-- `np.packbits ∘ np.unpackbits = id` on a byte. -/
theorem pack_unpack (b : Byte) : pack (unpack b) = b := Packed.pack_unpack b

/-- The lookup-table formula of `_bit_count` (0x55 / 0x33 / 0x0F, uint8 wrap-around) is the
    number of set bits, for all 256 bytes. -/
theorem bitCount_eq_popcount (b : Byte) : (bitCount b).toNat = (unpack b).count true :=
  bitCount_popcount b

/-! ## The abstraction -/

/-- `np.asarray(p)[i]` is heap bit `8·off + start + i`; its length is `stop − start`. -/
theorem bits_eq (h : Heap) (p : PBA) (hwf : WF h p) :
    bits h p = (List.range p.n).map fun i => hbit h (p.A + i) := toBools_eq h p hwf

/-- `len(p) = len(np.asarray(p))`. -/
theorem len_eq (h : Heap) (p : PBA) (hwf : WF h p) : p.pyLen = .ok (bits h p).length := by
  rw [hwf.pyLen, toBools_length h p hwf]

/-! ## `_extract_first_middle_last` -/

/-- The extraction never fails on a well-formed view. -/
theorem fml_total (h : Heap) (p : PBA) (hwf : WF h p) (mask : Bool) : ∃ f, p.fml h mask = .ok f :=
  PBA.fml_ok hwf mask

/-- First, middle and last part cover the bits `[start, stop)` of the view's bytes exactly
    once, and nothing else (all six cases of the code, with and without masking). -/
theorem fml_partition (h : Heap) (p : PBA) (hwf : WF h p) (mask : Bool) (f : FML)
    (hf : p.fml h mask = .ok f) (k : Nat) :
    f.cover p.len k = if p.start ≤ k ∧ k < p.start + p.n then 1 else 0 := by
  have hs := hwf.stop_eq
  obtain ⟨a1, a2, a3, a4, a5⟩ := hwf
  unfold PBA.fml at hf
  rw [hs] at hf
  exact fml_cover_raw _ p.len p.start (p.start + p.n) mask a1 (by omega) (by omega) f hf k

example : ∃ h p, WF h p ∧ p.start = 3 ∧ p.n = 27 := -- hypotheses satisfiable: `P(size=30)[3:30]`
  ⟨#[0, 0, 0, 0], ⟨0, 4, 3, 30, false⟩, ⟨by decide, by decide, by decide, by decide, by decide⟩, rfl, rfl⟩

/-! ## Construction -/

/-- `_PackedBoolArray(size=n, start_index=s)` is `np.zeros(n, bool)`; the new object is
    well formed, owns its buffer, and older arrays are untouched. -/
theorem new_bits (h : Heap) (n s : Nat) (hs : s < 8) :
    ∃ h' p, init h (some (n : Int)) none (some (s : Int)) none = .ok (h', p) ∧
      WF h' p ∧ p.own = true ∧ p.start = s ∧ bits h' p = List.replicate n false ∧
      ∀ w, WF h w → WF h' w ∧ bits h' w = bits h w := by
  obtain ⟨p, e, hwf, ho, hst, _, _, hb⟩ := init_sized_spec h n s hs
  exact ⟨_, p, e, hwf, ho, hst, hb, fun w hw => ⟨hw.append _, toBools_append hw _⟩⟩

/-- `from_boolean_array(arr, start_index=s)` shows `arr` (the start padding is invisible). -/
theorem fromBool_bits (h : Heap) (arr : List Bool) (s : Nat) (hs : s < 8) :
    ∃ h' p, fromBool h arr (some (s : Int)) = .ok (h', p) ∧
      WF h' p ∧ p.own = true ∧ p.start = s ∧ bits h' p = arr ∧
      ∀ w, WF h w → WF h' w ∧ bits h' w = bits h w := by
  obtain ⟨p, e, hwf, ho, hst, _, _, hb⟩ := fromBool_spec h arr s hs (some s) (Or.inl rfl)
  exact ⟨_, p, e, hwf, ho, hst, hb, fun w hw => ⟨hw.append _, toBools_append hw _⟩⟩

/-- `from_boolean_array(arr)` -/
theorem fromBool_bits_default (h : Heap) (arr : List Bool) :
    ∃ h' p, fromBool h arr none = .ok (h', p) ∧ WF h' p ∧ p.start = 0 ∧ bits h' p = arr := by
  obtain ⟨p, e, hwf, _, hst, _, _, hb⟩ := fromBool_spec h arr 0 (by omega) none (Or.inr ⟨rfl, rfl⟩)
  exact ⟨_, p, e, hwf, hst, hb⟩

/-- deviation: a negative `size` is accepted when the byte count comes out as 0
    (`_PackedBoolArray(size=-3)` has `size = -3`; NumPy: `ValueError`) -/
example : (init #[] (some (-3)) none none none).map (·.2.size) = .ok (-3) := by decide

/-- `start_index` outside `0..7` is rejected. -/
theorem new_rejects_start (h : Heap) (size : Option Int) (s : Int) (hs : s < 0 ∨ 7 < s) :
    init h size none (some s) none = .error .value := by
  have : (decide (s < 0) || decide (s > 7)) = true := by simp; omega
  cases size <;> simp [init, checkStart, this, bind, Except.bind]

/-! ## Slicing -/

/-- `self[lo:hi]` is accepted exactly when: `0 ≤ lo ≤ size` (if given) and, if `hi` is given,
    with `E = hi` (or `hi + size` for negative `hi`): `E ≤ size`, `(lo + start) % 8 ≤ E`
    (the `_stop < start_index` test of line 263, `start` = bit offset of the view) and
    `8·⌊(lo + start)/8⌋ ≤ E + start + 7` (the constructor's `stop_index` check).
    NumPy accepts every slice. -/
theorem slice_total (h : Heap) (p : PBA) (hwf : WF h p) (lo hi : Option Int) :
    (∃ q, slice p lo hi = .ok q) ↔
      (0 ≤ lo.getD 0 ∧ lo.getD 0 ≤ p.n) ∧
      match hi with
      | none => True
      | some _ =>
        normHi p.n hi ≤ p.n ∧ (lo.getD 0 + p.start) % 8 ≤ normHi p.n hi ∧
          (lo.getD 0 + p.start) / 8 * 8 ≤ normHi p.n hi + p.start + 7 :=
  slice_ok_iff h p hwf lo hi

/-- An accepted forward slice `[L, E)` is a well-formed *view* (no copy) showing
    `np.asarray(p)[L:E]`.  Holds for views of views (nested slices): `p` is any
    well-formed view. -/
theorem slice_bits (h : Heap) (p : PBA) (hwf : WF h p) (lo hi : Option Int) (q : PBA)
    (hq : slice p lo hi = .ok q) (L E : Nat) (hL : lo.getD 0 = (L : Int))
    (hE : normHi p.n hi = (E : Int)) (hLE : L ≤ E) :
    WF h q ∧ q.own = false ∧ bits h q = ((bits h p).drop L).take (E - L) := by
  obtain ⟨hwq, hA, hn, ho⟩ := slice_spec h p hwf lo hi q hq L E hL hE hLE
  refine ⟨hwq, ho, ?_⟩
  have hEn : E ≤ p.n := by
    have := (slice_ok_iff h p hwf lo hi).mp ⟨q, hq⟩
    unfold sliceAccepts at this
    cases hi with
    | none => simp only [normHi] at hE; omega
    | some e => have := this.2.1; omega
  apply List.ext_getElem?
  intro i
  rw [List.getElem?_take, List.getElem?_drop, toBools_getElem? _ _ hwq, toBools_getElem? _ _ hwf, hn, hA]
  by_cases c : i < E - L
  · simp only [c, if_true]; rw [if_pos (by omega)]; congr 2; omega
  · simp only [c, if_false]

/-- hypotheses satisfiable: `P(size=30)[3:30]` and the nested `P(size=30)[3:30][5:9]` -/
example : slice ⟨0, 4, 0, 30, true⟩ (some 3) (some 30) = .ok ⟨0, 4, 3, 30, false⟩ ∧
    slice ⟨0, 4, 3, 30, false⟩ (some 5) (some 9) = .ok ⟨1, 1, 0, 4, false⟩ ∧
    slice ⟨0, 4, 3, 30, false⟩ none (some (-2)) = .ok ⟨0, 4, 3, 28, false⟩ := by decide

/-- NumPy: `a[L:E]` is accepted for all `0 ≤ L ≤ E ≤ len(a)`.
    The code needs in addition `(L + start) % 8 ≤ E`, where `start` is the bit offset of the
    view being sliced (0 for a fresh array, so top-level slices are fine). -/
theorem slice_accepts_partial (h : Heap) (p : PBA) (hwf : WF h p) (L E : Nat) (hLE : L ≤ E) (hE : E ≤ p.n)
    (hdefect : (L + p.start) % 8 ≤ E) :
    ∃ q, slice p (some (L : Int)) (some (E : Int)) = .ok q := by
  rw [slice_ok_iff h p hwf]
  simp only [sliceAccepts, Option.getD_some, normHi]
  rw [if_neg (by omega)]
  refine ⟨⟨by omega, by omega⟩, by omega, by omega, by omega⟩

/-- hypotheses satisfiable on a non-trivial instance: `P(size=30)[3:30][5:9]` -/
example : (5 + 3) % 8 ≤ 9 := by decide
/-- the deviation: `P(size=30)[3:30][:2]` is rejected (NumPy: the first two elements) -/
example : (do let v ← slice ⟨0, 4, 0, 30, true⟩ (some 3) (some 30); slice v none (some 2)) = .error .value := by
  decide
/-- … and a reversed slice yields an object of negative size (NumPy: the empty array) -/
example : (slice ⟨0, 4, 0, 30, true⟩ (some 9) (some 8)).map (·.size) = .ok (-1) := by decide

/-! ## Reading elements -/

/-- `p[i]` -/
theorem getInt_bits (h : Heap) (p : PBA) (hwf : WF h p) (i : Nat) (hi : i < (bits h p).length) :
    getInt h p i = .ok ((bits h p).getD i false) :=
  getInt_spec h p hwf i (by rwa [toBools_length h p hwf] at hi)

/-- `p[idx]` for any index list inside the array, incl. empty and repeated indices. -/
theorem getIdx_bits (h : Heap) (p : PBA) (hwf : WF h p) (idx : List Nat) (hr : ∀ i ∈ idx, i < (bits h p).length) :
    getIdx h p (idx.map Int.ofNat) = .ok (idx.map fun i => (bits h p).getD i false) :=
  getIdx_spec h p hwf idx (by rwa [toBools_length h p hwf] at hr)

/-- An index outside `[0, size)` raises `IndexError` (negative indices are not supported). -/
theorem getIdx_rejects (h : Heap) (p : PBA) (idx : List Int) (l : Int) (hl : l ∈ idx) (hbad : l < 0 ∨ p.size ≤ l) :
    getIdx h p idx = .error .index := by
  have hne : idx.isEmpty = false := by cases idx <;> simp_all
  simp [getIdx, testBits, hne, checkLocs_err p idx l hl hbad, bind, Except.bind]

/-! ## In-place logic, inversion -/

/-- `p &= o`, `p |= o`, `p ^= o` with a bool `o`: element-wise on `np.asarray(p)`; the heap keeps
    its size and every bit outside the view keeps its value. -/
theorem iopBool_bits (h : Heap) (p : PBA) (hwf : WF h p) (op : Op) (o : Bool) :
    ∃ h', iopBool h p op o = .ok h' ∧ bits h' p = (bits h p).map (fun x => op.bool x o) ∧
      Rewrites h h' p (fun _ x => op.bool x o) := by
  obtain ⟨h', e, R⟩ := opBool_spec h p hwf op o
  refine ⟨h', e, ?_, R⟩
  rw [(toBools_rewrites hwf R).2, toBools_eq h p hwf, List.map_map]; rfl

/-- `p.invert()` -/
theorem invert_bits (h : Heap) (p : PBA) (hwf : WF h p) :
    ∃ h', invert h p = .ok h' ∧ bits h' p = (bits h p).map (!·) ∧ Rewrites h h' p (fun _ x => !x) := by
  obtain ⟨h', e, R⟩ := opBool_spec h p hwf .invert true
  refine ⟨h', e, ?_, R⟩
  rw [(toBools_rewrites hwf R).2, toBools_eq h p hwf, List.map_map]; rfl

/-- A write through a view `v = p[L:E]` is seen through the parent `p` (numpy view semantics),
    for any method characterised by `Rewrites` (all bulk in-place methods are). -/
theorem view_write_visible {h h' : Heap} {p v : PBA} {F} (hp : WF h p) (hv : WF h v)
    (R : Rewrites h h' v F) (L E : Nat) (hA : v.A = p.A + L) (hn : v.n = E - L) (hLE : L ≤ E) (hE : E ≤ p.n) :
    bits h' p = (bits h p).take L ++ bits h' v ++ (bits h p).drop E :=
  toBools_rewrites_parent hp hv R L E hA hn hLE hE

/-- … and a view that shares no bit with the written one is unchanged. -/
theorem view_write_frame {h h' : Heap} {v w : PBA} {F} (hw : WF h w) (R : Rewrites h h' v F)
    (hd : w.A + w.n ≤ v.A ∨ v.A + v.n ≤ w.A) : WF h' w ∧ bits h' w = bits h w :=
  ⟨R.wf hw, toBools_rewrites_frame hw R hd⟩

/-- NumPy: `p op= q` is `np.asarray(p) op np.asarray(q)` element-wise for every `q` of the same
    length, also when `p` and `q` are overlapping views of one array.
    The code: `q` must have the same bit alignment (documented restriction) and — the extra
    hypothesis — the byte ranges of `p` and `q` must not overlap (`Disjoint`). -/
theorem iopPBA_bits_partial (h : Heap) (p q : PBA) (hp : WF h p) (hq : WF h q)
    (hs : q.start = p.start) (he : q.stop = p.stop) (hd : Disjoint p q) (op : Op) :
    ∃ h', iopPBA h p q op = .ok h' ∧ bits h' p = List.zipWith op.bool (bits h p) (bits h q) ∧
      Rewrites h h' p (fun k x => op.bool x (opnd h p q k)) := by
  obtain ⟨h', e, R⟩ := iopPBA_spec h p q hp hq hs he hd op
  refine ⟨h', e, ?_, R⟩
  rw [(toBools_rewrites hp R).2]
  exact zipWith_toBools h p q hp hq hs he op.bool

/-- hypotheses satisfiable: two separate 12-bit arrays with bit offset 3 -/
example : ∃ h p q, WF h p ∧ WF h q ∧ q.start = p.start ∧ q.stop = p.stop ∧ Disjoint p q ∧ p.n = 12 :=
  ⟨#[0, 0, 0, 0], ⟨0, 2, 3, 15, true⟩, ⟨2, 2, 3, 15, true⟩,
   ⟨by decide, by decide, by decide, by decide, by decide⟩,
   ⟨by decide, by decide, by decide, by decide, by decide⟩, rfl, rfl, Or.inl (by decide), rfl⟩

/-- the deviation: `x = a[1:17]; x |= a[9:25]` on overlapping views.  NumPy reads all of
    `a[9:25]` before writing, so `a[8] = old a[8] | old a[16]`; the code has already written
    `a[16]` (its last byte) when the middle bytes are combined. -/
example :
    let h : Heap := #[0, 0, 0, 1]                           -- a = 32 bits, only a[24] set
    let x : PBA := ⟨0, 3, 1, 17, false⟩                     -- a[1:17]
    let y : PBA := ⟨1, 3, 1, 17, false⟩                     -- a[9:25]
    (iopPBA h x y .or).map (fun h' => hbit h' 8) = .ok true ∧      -- code: a[8] becomes True
    (hbit h 8 || hbit h 16) = false := by                          -- numpy: stays False
  decide

/-! ## Assignment -/

/-- `p[i] = v` -/
theorem setInt_bits (h : Heap) (p : PBA) (hwf : WF h p) (i : Nat) (hi : i < (bits h p).length) (v : Bool) :
    ∃ h', setInt h p i v = .ok h' ∧ bits h' p = (bits h p).set i v ∧ h'.size = h.size := by
  rw [toBools_length h p hwf] at hi
  have hr : InRange p.n [(i : Int)] := by intro l hl; simp at hl; subst hl; omega
  have key : ∀ h' F, Rewrites h h' p F → (∀ k x, F k x = if k = p.A + i then v else x) →
      bits h' p = (bits h p).set i v := by
    intro h' F R hF
    rw [(toBools_rewrites hwf R).2]
    apply List.ext_getElem?
    intro j
    rw [getElem?_set', toBools_getElem? _ _ hwf]
    by_cases c : j < p.n
    · simp only [List.getElem?_map, List.getElem?_range c, Option.map_some, c, if_true, hF]
      by_cases c2 : i = j
      · subst c2; simp
      · rw [if_neg (by omega), if_neg c2]
    · simp [c]
  cases v with
  | true =>
    obtain ⟨h', e, R⟩ := setBits_spec h p hwf _ hr
    refine ⟨h', e, key h' _ R (fun k x => ?_), R.size⟩
    simp only [hits, List.any_cons, List.any_nil, Bool.or_false, Int.toNat_natCast]
    by_cases c : k = p.A + i
    · subst c; simp
    · have : ¬ p.A + i = k := fun hh => c hh.symm
      simp [c, this]
  | false =>
    obtain ⟨h', e, R⟩ := clearBits_spec h p hwf _ hr
    refine ⟨h', e, key h' _ R (fun k x => ?_), R.size⟩
    simp only [hits, List.any_cons, List.any_nil, Bool.or_false, Int.toNat_natCast]
    by_cases c : k = p.A + i
    · subst c; simp
    · have : ¬ p.A + i = k := fun hh => c hh.symm
      simp [c, this]

/-- Common shape of the three slice assignments: what `p[L:E] = …` does to `np.asarray(p)`. -/
theorem setSlice_parent {h h' : Heap} {p t : PBA} {F} (hp : WF h p) (lo hi : Option Int)
    (ht : slice p lo hi = .ok t) (L E : Nat) (hL : lo.getD 0 = (L : Int)) (hE : normHi p.n hi = (E : Int))
    (hLE : L ≤ E) (R : Rewrites h h' t F) :
    bits h' p = (bits h p).take L ++ bits h' t ++ (bits h p).drop E := by
  obtain ⟨hwt, hA, hn, _⟩ := slice_spec h p hp lo hi t ht L E hL hE hLE
  have hEn : E ≤ p.n := by
    have := (slice_ok_iff h p hp lo hi).mp ⟨t, ht⟩
    unfold sliceAccepts at this
    cases hi with
    | none => simp only [normHi] at hE; omega
    | some e => have := this.2.1; omega
  exact toBools_rewrites_parent hp hwt R L E hA hn hLE hEn

/-- `p[L:E] = v` with a bool. -/
theorem setSliceBool_bits (h : Heap) (p : PBA) (hp : WF h p) (lo hi : Option Int) (t : PBA)
    (ht : slice p lo hi = .ok t) (L E : Nat) (hL : lo.getD 0 = (L : Int)) (hE : normHi p.n hi = (E : Int))
    (hLE : L ≤ E) (v : Bool) :
    ∃ h', setSliceBool h p lo hi v = .ok h' ∧ h'.size = h.size ∧
      bits h' p = (bits h p).take L ++ List.replicate (E - L) v ++ (bits h p).drop E := by
  obtain ⟨hwt, hA, hn, _⟩ := slice_spec h p hp lo hi t ht L E hL hE hLE
  obtain ⟨h', e, R⟩ := setSliceBool_spec h p lo hi t ht hwt v
  refine ⟨h', e, R.size, ?_⟩
  rw [setSlice_parent hp lo hi ht L E hL hE hLE R, (toBools_rewrites hwt R).2, hn]
  congr 2
  apply List.ext_getElem?; intro i
  by_cases c : i < E - L <;> simp [c]

/-- `p[L:E] = vals` with a boolean array of the right length. -/
theorem setSliceArr_bits (h : Heap) (p : PBA) (hp : WF h p) (lo hi : Option Int) (t : PBA)
    (ht : slice p lo hi = .ok t) (L E : Nat) (hL : lo.getD 0 = (L : Int)) (hE : normHi p.n hi = (E : Int))
    (hLE : L ≤ E) (vals : List Bool) (hv : vals.length = E - L) :
    ∃ h', setSliceArr h p lo hi vals = .ok h' ∧ h'.size = h.size ∧
      bits h' p = (bits h p).take L ++ vals ++ (bits h p).drop E := by
  obtain ⟨hwt, hA, hn, _⟩ := slice_spec h p hp lo hi t ht L E hL hE hLE
  obtain ⟨h', e, R⟩ := setSliceArr_spec h p lo hi t ht hwt vals (by omega)
  refine ⟨h', e, R.size, ?_⟩
  rw [setSlice_parent hp lo hi ht L E hL hE hLE R, (toBools_rewrites hwt R).2, hn]
  congr 2
  apply List.ext_getElem?; intro i
  by_cases c : i < E - L
  · simp only [List.getElem?_map, List.getElem?_range c, Option.map_some]
    have : t.A + i - t.A = i := by omega
    rw [this, List.getD_eq_getElem?_getD, List.getElem?_eq_getElem (by omega)]; rfl
  · have h0 : (List.range (E - L))[i]? = none := by simp; omega
    simp only [List.getElem?_map, h0, Option.map_none]
    rw [List.getElem?_eq_none (by omega)]

/-- A value array of another length is rejected (no broadcasting), for a non-empty slice. -/
theorem setSliceArr_rejects (h : Heap) (p : PBA) (lo hi : Option Int) (t : PBA) (ht : slice p lo hi = .ok t)
    (hwt : WF h t) (vals : List Bool) (hne : t.n ≠ 0) (hv : vals.length ≠ t.n) :
    setSliceArr h p lo hi vals = .error .value := by
  obtain ⟨f, hf⟩ := PBA.fml_ok hwt false
  simp [setSliceArr, ht, hwt.pyLen, hne, hf, hv, bind, Except.bind, throw, throwThe, MonadExceptOf.throw]

/-- NumPy: `p[L:E] = q` copies `np.asarray(q)` for every `q` of that length, also when `q` is an
    overlapping view of the same array.  The code: same alignment (documented) and — extra
    hypothesis — the byte range of `q` does not overlap the bytes of the target slice. -/
theorem setSlicePBA_bits_partial (h : Heap) (p : PBA) (hp : WF h p) (lo hi : Option Int) (t : PBA)
    (ht : slice p lo hi = .ok t) (L E : Nat) (hL : lo.getD 0 = (L : Int)) (hE : normHi p.n hi = (E : Int))
    (hLE : L ≤ E) (q : PBA) (hq : WF h q) (hs : q.start = t.start) (he : q.stop = t.stop)
    (hd : Disjoint t q) :
    ∃ h', setSlicePBA h p lo hi q = .ok h' ∧ h'.size = h.size ∧
      bits h' p = (bits h p).take L ++ bits h q ++ (bits h p).drop E := by
  obtain ⟨hwt, hA, hn, _⟩ := slice_spec h p hp lo hi t ht L E hL hE hLE
  obtain ⟨h', e, R⟩ := setSlicePBA_spec h p lo hi t q ht hwt hq hs he hd
  refine ⟨h', e, R.size, ?_⟩
  rw [setSlice_parent hp lo hi ht L E hL hE hLE R, (toBools_rewrites hwt R).2]
  congr 2
  have := zipWith_toBools h t q hwt hq hs he (fun _ o => o)
  rw [this]
  have hnq : q.n = t.n := by simp only [PBA.n, hs, he]
  apply List.ext_getElem?; intro i
  rw [List.getElem?_zipWith, toBools_getElem? _ _ hwt, toBools_getElem? _ _ hq, hnq]
  by_cases c : i < t.n <;> simp [c]

/-- the deviation: `a[1:17] = a[9:25]` (overlapping views): NumPy gives `a[8] = old a[16]`,
    the code copies the already overwritten `a[16] = old a[24]`. -/
example :
    let h : Heap := #[0, 0, 0, 1]                           -- a = 32 bits, only a[24] set
    let a : PBA := ⟨0, 4, 0, 32, true⟩
    let y : PBA := ⟨1, 3, 1, 17, false⟩                     -- a[9:25]
    (setSlicePBA h a (some 1) (some 17) y).map (fun h' => hbit h' 8) = .ok true ∧   -- code
    hbit h 16 = false := by                                                          -- numpy
  decide

/-- `p[idx] = v` with a bool: every listed element becomes `v` (duplicates are harmless). -/
theorem setIdxBool_bits (h : Heap) (p : PBA) (hwf : WF h p) (idx : List Nat)
    (hr : ∀ i ∈ idx, i < (bits h p).length) (v : Bool) :
    ∃ h', setIdxBool h p (idx.map Int.ofNat) v = .ok h' ∧ h'.size = h.size ∧
      bits h' p = npSetIdxBool (bits h p) idx v := by
  rw [toBools_length h p hwf] at hr
  have hr' := inRange_ofNat p.n idx hr
  have key : ∀ h' F, Rewrites h h' p F →
      (∀ j x, j < p.n → F (p.A + j) x = if j ∈ idx then v else x) →
      bits h' p = npSetIdxBool (bits h p) idx v := by
    intro h' F R hF
    rw [(toBools_rewrites hwf R).2]
    apply List.ext_getElem?
    intro j
    rw [npSetIdxBool_getElem?, toBools_getElem? _ _ hwf]
    by_cases c : j < p.n
    · simp only [List.getElem?_map, List.getElem?_range c, Option.map_some, c, if_true, hF j _ c]
      by_cases c2 : j ∈ idx <;> simp [c2]
    · simp [c]
  have hemp : ∀ hh : idx = [], setIdxBool h p (idx.map Int.ofNat) v = .ok h := by
    intro hh; subst hh; rfl
  by_cases hne : idx = []
  · refine ⟨h, hemp hne, rfl, ?_⟩
    subst hne; rfl
  · have hne' : (idx.map Int.ofNat).isEmpty = false := by cases idx <;> simp_all
    cases v with
    | true =>
      obtain ⟨h', e, R⟩ := setBits_spec h p hwf _ hr'
      refine ⟨h', by simp [setIdxBool, hne', e], R.size, key h' _ R (fun j x _ => ?_)⟩
      rw [hits_ofNat]; by_cases c : j ∈ idx <;> simp [c]
    | false =>
      obtain ⟨h', e, R⟩ := clearBits_spec h p hwf _ hr'
      refine ⟨h', by simp [setIdxBool, hne', e], R.size, key h' _ R (fun j x _ => ?_)⟩
      rw [hits_ofNat]; by_cases c : j ∈ idx <;> simp [c]

/-- What the code does for `p[idx] = vals`, exactly: an element listed with `False` anywhere
    becomes `False`; otherwise an element listed with `True` becomes `True` ("False wins"). -/
theorem setIdxArr_falseWins (h : Heap) (p : PBA) (hwf : WF h p) (idx : List Nat) (vals : List Bool)
    (hlen : vals.length = idx.length) (hr : ∀ i ∈ idx, i < (bits h p).length) :
    ∃ h', setIdxArr h p (idx.map Int.ofNat) vals = (h', none) ∧ h'.size = h.size ∧
      bits h' p = (List.range p.n).map fun j =>
        if (j, false) ∈ idx.zip vals then false
        else if (j, true) ∈ idx.zip vals then true else (bits h p).getD j false := by
  rw [toBools_length h p hwf] at hr
  obtain ⟨h', e, R⟩ := setIdxArr_spec h p hwf idx vals hlen hr
  refine ⟨h', e, R.size, ?_⟩
  rw [(toBools_rewrites hwf R).2]
  apply List.map_congr_left
  intro j hj
  have hjn := List.mem_range.mp hj
  have hh : ∀ (b : Bool), hits p ((((idx.map Int.ofNat).zip vals).filter (fun iv => iv.2 == b)).map (·.1)) (p.A + j) =
      decide ((j, b) ∈ idx.zip vals) := by
    intro b
    unfold hits
    rw [Bool.eq_iff_iff]
    simp only [List.any_eq_true, List.mem_map, List.mem_filter, beq_iff_eq, decide_eq_true_eq]
    constructor
    · rintro ⟨l, ⟨iv, ⟨hm, hb⟩, rfl⟩, hl⟩
      obtain ⟨i, v⟩ := iv
      rw [List.zip_map_left] at hm
      obtain ⟨⟨i', v'⟩, hm', hiv⟩ := List.mem_map.mp hm
      simp only [Prod.map_apply, id_eq, Prod.mk.injEq] at hiv
      obtain ⟨rfl, rfl⟩ := hiv
      simp only at hb hl
      subst hb
      have : i' = j := by simp at hl; omega
      subst this; exact hm'
    · intro hm
      refine ⟨(j : Int), ⟨((j : Int), b), ⟨?_, rfl⟩, rfl⟩, by simp⟩
      rw [List.zip_map_left]
      exact List.mem_map.mpr ⟨(j, b), hm, rfl⟩
  have ht := hh true
  have hf := hh false
  have e1 : (fun iv : Int × Bool => iv.2 == true) = (·.2) := by funext iv; simp
  have e2 : (fun iv : Int × Bool => iv.2 == false) = (!·.2) := by funext iv; cases iv.2 <;> rfl
  rw [e1] at ht; rw [e2] at hf
  rw [ht, hf, List.getD_eq_getElem?_getD, toBools_getElem? _ _ hwf, if_pos hjn]
  by_cases c1 : (j, false) ∈ idx.zip vals <;> by_cases c2 : (j, true) ∈ idx.zip vals <;> simp [c1, c2]

/-- NumPy: `p[idx] = vals` assigns sequentially, the LAST occurrence of a repeated index wins:
      `bits h' p = npSetIdx (bits h p) idx vals`   for all `idx`, `vals` of equal length.
    The code sets the `True` entries and then clears the `False` entries, so this holds only if no
    index is listed with both values (`Consistent`; in particular for duplicate-free `idx`). -/
theorem setIdxArr_bits_partial (h : Heap) (p : PBA) (hwf : WF h p) (idx : List Nat) (vals : List Bool)
    (hlen : vals.length = idx.length) (hr : ∀ i ∈ idx, i < (bits h p).length)
    (hc : Consistent (idx.zip vals)) :
    ∃ h', setIdxArr h p (idx.map Int.ofNat) vals = (h', none) ∧ h'.size = h.size ∧
      bits h' p = npSetIdx (bits h p) idx vals := by
  obtain ⟨h', e, hs, hb⟩ := setIdxArr_falseWins h p hwf idx vals hlen hr
  refine ⟨h', e, hs, ?_⟩
  rw [hb]
  apply List.ext_getElem?
  intro j
  unfold npSetIdx
  rw [foldl_set_pairs_getElem? _ hc, toBools_getElem? _ _ hwf]
  by_cases c : j < p.n
  · simp only [List.getElem?_map, List.getElem?_range c, Option.map_some, c, if_true]
    cases hf : (idx.zip vals).find? (fun iv => iv.1 == j) with
    | none =>
      have hnone := List.find?_eq_none.mp hf
      have n1 : (j, false) ∉ idx.zip vals := fun hm => by simpa using hnone _ hm
      have n2 : (j, true) ∉ idx.zip vals := fun hm => by simpa using hnone _ hm
      simp only [n1, n2, if_false, List.getD_eq_getElem?_getD, toBools_getElem? _ _ hwf, c, if_true]
      rfl
    | some iv =>
      have hm := List.mem_of_find?_eq_some hf
      have hj := List.find?_some hf
      simp only [beq_iff_eq] at hj
      obtain ⟨i, v⟩ := iv
      simp only at hj; subst hj
      dsimp only
      cases v with
      | false => simp [hm]
      | true =>
        have n1 : (i, false) ∉ idx.zip vals := fun hm' => by
          have := hc _ hm _ hm' rfl; simp at this
        simp [n1, hm]
  · have h0 : (List.range p.n)[j]? = none := by simp; omega
    simp only [List.getElem?_map, h0, Option.map_none, c, if_false]
    cases (idx.zip vals).find? (fun iv => iv.1 == j) <;> rfl

/-- hypotheses satisfiable on a non-trivial instance (a repeated index with equal values) -/
example : Consistent ([1, 5, 1, 2].zip [true, false, true, false]) := by
  intro a ha b hb; revert a b; decide
/-- the deviation: `p[[2, 2]] = [False, True]` on a 10-bit array: NumPy ends with `p[2] = True`
    (last wins), the code with `False`. -/
example :
    let h : Heap := #[0, 0]
    let p : PBA := ⟨0, 2, 0, 10, true⟩
    ((bits (setIdxArr h p [2, 2] [false, true]).1 p).getD 2 false = false) ∧
    ((npSetIdx (bits h p) [2, 2] [false, true]).getD 2 false = true) := by
  decide

/-- further deviation: the two range checks of `p[idx] = vals` are separate, so the `True`
    entries are written before an out-of-range `False` entry raises (NumPy: nothing is written) -/
example : setIdxArr #[0, 0] ⟨0, 2, 0, 10, true⟩ [0, 100] [true, false] = (#[1, 0], some .index) := by decide
/-- further deviation: an empty index / empty slice returns before the length check
    (NumPy: shape-mismatch `ValueError`) -/
example : setIdxArr #[0, 0] ⟨0, 2, 0, 10, true⟩ [] [true, false] = (#[0, 0], none) ∧
    setSliceArr #[0, 0] ⟨0, 2, 0, 10, true⟩ (some 3) (some 3) [true, false] = .ok #[0, 0] := by decide

/-! ## Sum, copy, resize -/

/-- `p.sum()` is the number of `True` elements (the padding at both ends is masked). -/
theorem sum_eq_count (h : Heap) (p : PBA) (hwf : WF h p) : sum h p = .ok ((bits h p).count true) :=
  sum_spec h p hwf

/-- `p.copy()`: a new owning array with the same elements; every bit of the new buffer
    outside `[start, stop)` is zero (`copy_masks_padding`); existing arrays are untouched. -/
theorem copy_bits (h : Heap) (p : PBA) (hwf : WF h p) :
    ∃ h' q, copy h p = .ok (h', q) ∧ WF h' q ∧ q.own = true ∧ q.start = p.start ∧ q.stop = p.stop ∧
      q.off = h.size ∧ bits h' q = bits h p ∧ PadZero h' q ∧
      ∀ w, WF h w → WF h' w ∧ bits h' w = bits h w := by
  obtain ⟨d, e, hdl, hd⟩ := copy_spec h p hwf
  have hs := hwf.stop_eq
  have hwf' := hwf
  obtain ⟨a1, a2, a3, a4, a5⟩ := hwf
  have hwq : WF (h ++ d.toArray) ⟨h.size, p.len, p.start, p.stop, true⟩ :=
    ⟨a1, a2, a3, a4, by simp [hdl]⟩
  have hnq : (⟨h.size, p.len, p.start, p.stop, true⟩ : PBA).n = p.n := rfl
  refine ⟨_, _, e, hwq, rfl, rfl, rfl, rfl, ?_, ?_, fun w hw => ⟨hw.append _, toBools_append hw _⟩⟩
  · rw [toBools_eq _ _ hwq, toBools_eq _ _ hwf', hnq]
    apply List.map_congr_left
    intro i hi
    have hin := List.mem_range.mp hi
    have e1 : (⟨h.size, p.len, p.start, p.stop, true⟩ : PBA).A + i =
        8 * (h.size + (p.start + i) / 8) + (p.start + i) % 8 := by simp only [PBA.A]; omega
    rw [e1, hbit_append_new _ _ _ _ (Nat.mod_lt _ (by omega)), hd _ _ (by omega) (Nat.mod_lt _ (by omega))]
    have e2 : 8 * ((p.start + i) / 8) + (p.start + i) % 8 = p.start + i := by omega
    have e3 : 8 * (p.off + (p.start + i) / 8) + (p.start + i) % 8 = p.A + i := by simp only [PBA.A]; omega
    rw [e2, e3]
    simp [hin]
  · intro k hk1 hk2
    simp only [PBA.A] at hk1 hk2
    rw [hnq] at hk1
    have e1 : k = 8 * (h.size + (k - 8 * h.size) / 8) + (k - 8 * h.size) % 8 := by omega
    rw [e1, hbit_append_new _ _ _ _ (Nat.mod_lt _ (by omega)), hd _ _ (by omega) (Nat.mod_lt _ (by omega))]
    have : ¬ (p.start ≤ 8 * ((k - 8 * h.size) / 8) + (k - 8 * h.size) % 8 ∧
        8 * ((k - 8 * h.size) / 8) + (k - 8 * h.size) % 8 < p.start + p.n) := by omega
    simp [this]

/-- Padding of a copy is masked on BOTH sides: every bit of the new buffer before `start` is
    zero as well. -/
theorem copy_masks_padding (h : Heap) (p : PBA) (hwf : WF h p) :
    ∃ h' q, copy h p = .ok (h', q) ∧
      ∀ k, 8 * q.off ≤ k → k < 8 * (q.off + q.len) → ¬ (q.A ≤ k ∧ k < q.A + q.n) → hbit h' k = false := by
  obtain ⟨d, e, hdl, hd⟩ := copy_spec h p hwf
  refine ⟨_, _, e, fun k hk1 hk2 hk3 => ?_⟩
  simp only [PBA.A] at hk1 hk2 hk3
  have hnq : (⟨h.size, p.len, p.start, p.stop, true⟩ : PBA).n = p.n := rfl
  rw [hnq] at hk3
  have e1 : k = 8 * (h.size + (k - 8 * h.size) / 8) + (k - 8 * h.size) % 8 := by omega
  rw [e1, hbit_append_new _ _ _ _ (Nat.mod_lt _ (by omega)), hd _ _ (by omega) (Nat.mod_lt _ (by omega))]
  have : ¬ (p.start ≤ 8 * ((k - 8 * h.size) / 8) + (k - 8 * h.size) % 8 ∧
      8 * ((k - 8 * h.size) / 8) + (k - 8 * h.size) % 8 < p.start + p.n) := by omega
  simp [this]

/-- NumPy: `a.resize(n)` (n ≥ len) keeps the elements and appends `False` (owning arrays only).
    The code does so whenever the padding bits of `p` (after its last element, inside its own
    last byte) are zero — true for arrays made by the constructor with `size`,
    `from_boolean_array`, `copy` and earlier `resize`s; not for a user-supplied `data_buffer`
    with dirty padding, and not for a slice view (whose "padding" is the parent's data).
    A non-owning `p` is detached (copied) first; no existing array changes. -/
theorem resize_bits (h : Heap) (p : PBA) (hwf : WF h p) (n : Nat)
    (hge : (bits h p).length ≤ n) (hpad : PadZero h p) :
    ∃ h' p', resize h p n = ((h', p'), none) ∧ WF h' p' ∧ (p.own = true → p'.own = true) ∧
      bits h' p' = bits h p ++ List.replicate (n - (bits h p).length) false ∧
      ∀ w, WF h w → WF h' w ∧ bits h' w = bits h w := by
  rw [toBools_length h p hwf] at hge ⊢
  obtain ⟨h', p', e, hw', _, ho, hb, hold, hsz⟩ := resize_spec h p hwf n hge hpad
  refine ⟨h', p', e, hw', fun hh => ho (Or.inl hh), hb, fun w hw => ?_⟩
  have hww : WF h' w := by
    obtain ⟨b1, b2, b3, b4, b5⟩ := hw
    exact ⟨b1, b2, b3, b4, by omega⟩
  refine ⟨hww, ?_⟩
  rw [toBools_eq _ _ hww, toBools_eq _ _ hw]
  apply List.map_congr_left
  intro i hi
  have := List.mem_range.mp hi
  obtain ⟨b1, b2, b3, b4, b5⟩ := hw
  apply hold
  simp only [PBA.A, PBA.n] at *
  omega

/-- hypotheses satisfiable: a 5-bit owning array with clean padding -/
example : WF #[0x1F] ⟨0, 1, 0, 5, true⟩ ∧ PadZero #[0x1F] ⟨0, 1, 0, 5, true⟩ := by
  refine ⟨⟨by decide, by decide, by decide, by decide, by decide⟩, fun k h1 h2 => ?_⟩
  have : k = 5 ∨ k = 6 ∨ k = 7 := by simp [PBA.A, PBA.n] at h1 h2; omega
  rcases this with rfl | rfl | rfl <;> decide

/-- shrinking is rejected -/
theorem resize_rejects (h : Heap) (p : PBA) (n : Int) (hn : n < p.size) :
    resize h p n = ((h, p), some .value) := by
  simp [resize, hn]

/-- the deviation: a buffer given by the user with dirty padding shows it after `resize`.
    `P(data_buffer=[0xFF], stop_index=5).resize(8)`: NumPy `1,1,1,1,1,0,0,0`, code all ones. -/
example :
    let h : Heap := #[0xFF]
    let p : PBA := ⟨0, 1, 0, 5, true⟩
    let r := (resize h p 8).1
    bits r.1 r.2 = List.replicate 8 true ∧
    bits h p ++ List.replicate 3 false = [true, true, true, true, true, false, false, false] := by
  decide

/-- the deviation on a view: `v = P(30 × True)[3:6]; v.resize(5)` is accepted (NumPy refuses to
    resize a view), detaches `v` from its parent, and the two new elements are the parent's
    bits 6 and 7 (`True`), not `False`. -/
example :
    let h : Heap := #[0xFF, 0xFF, 0xFF, 0x3F]
    let v : PBA := ⟨0, 1, 3, 6, false⟩                      -- P(30 × True)[3:6]
    let r := (resize h v 5).1
    (resize h v 5).2 = none ∧ r.2.own = true ∧ r.2.off = 4 ∧ bits r.1 r.2 = List.replicate 5 true := by
  decide

/-- `p.sum(shape=shape)` (no axis) on an aligned array whose size is the product of `shape`
    (last entry a multiple of 8): the total count, as `np.sum(arr.reshape(shape))`. -/
theorem sum_shaped_eq (h : Heap) (p : PBA) (hwf : WF h p) (h0 : p.start = 0) (h8 : p.stop % 8 = 0)
    (init : List Nat) (c : Nat) (hprod : prodL (init ++ [8 * c]) = (bits h p).length) :
    sumShaped h p (init ++ [8 * c]) none = .ok ([], [(bits h p).count true]) := by
  rw [toBools_length h p hwf] at hprod
  exact sumShaped_none h p hwf h0 h8 init c hprod

/-- NumPy: `np.sum(arr.reshape(shape), axis=k)` for every axis `k`.
    The code counts per byte, so this holds for the LAST axis only (`axis = -1` or
    `axis = len(shape) - 1 ≠ 0`; that is how the map code uses it): the result has shape
    `shape[:-1]` and the values `sumAxis` (= reshape-and-sum in C order) of the 0/1 elements. -/
theorem sum_shaped_axis_partial (h : Heap) (p : PBA) (hwf : WF h p) (h0 : p.start = 0) (h8 : p.stop % 8 = 0)
    (init : List Nat) (c : Nat) (hprod : prodL (init ++ [8 * c]) = (bits h p).length) (a : Int)
    (hlast : a = -1 ∨ (a = (init.length : Int) ∧ init ≠ [])) :
    sumShaped h p (init ++ [8 * c]) (some a) =
      .ok (init, sumAxis (bitsNat (bits h p)) (init ++ [8 * c]) init.length) := by
  rw [toBools_length h p hwf] at hprod
  exact sumShaped_last h p hwf h0 h8 init c hprod a hlast

/-- hypotheses satisfiable: 48 bits as shape (3, 16), axis 1 -/
example : WF #[1, 2, 3, 4, 5, 6] ⟨0, 6, 0, 48, true⟩ ∧ prodL ([3] ++ [8 * 2]) = 48 ∧
    ((1 : Int) = -1 ∨ ((1 : Int) = (([3] : List Nat).length : Int) ∧ [3] ≠ [])) ∧
    sumShaped #[1, 2, 3, 4, 5, 6] ⟨0, 6, 0, 48, true⟩ [3, 16] (some 1) = .ok ([3], [2, 3, 4]) :=
  ⟨⟨by decide, by decide, by decide, by decide, by decide⟩, by decide, by decide, by decide⟩
/-- the deviation: 32 bits as shape (2, 2, 8), axis 1 (a middle axis): NumPy's result has shape
    (2, 8) = 16 numbers, the code returns shape (2, 1) = 2 numbers (sums over the bytes). -/
example :
    let h : Heap := #[0xFF, 0x01, 0x00, 0x03]
    let p : PBA := ⟨0, 4, 0, 32, true⟩
    sumShaped h p [2, 2, 8] (some 1) = .ok ([2, 1], [9, 2]) ∧
    (sumAxis (bitsNat (bits h p)) [2, 2, 8] 1).length = 16 := by
  decide

/-- reshaped sums are refused on unaligned arrays, and `axis=0` is not implemented -/
theorem sum_shaped_rejects (h : Heap) (p : PBA) (shape : List Nat) (axis : Option Int)
    (hun : p.start ≠ 0 ∨ p.stop % 8 ≠ 0) : sumShaped h p shape axis = .error .value := by
  have : (p.start != 0 || p.stop % 8 != 0) = true := by
    rcases hun with hh | hh <;> simp [hh]
  simp [sumShaped, this, bind, Except.bind, throw, throwThe, MonadExceptOf.throw]

/-! ## The copying forms `&`, `|`, `^`, `~` -/

/-- `r = p op o` with a bool: a new array with the element-wise result; `p` is unchanged. -/
theorem bopBool_bits (h : Heap) (p : PBA) (hwf : WF h p) (op : Op) (o : Bool) :
    ∃ h' r, bopBool h p op o = .ok (h', r) ∧ WF h' r ∧ r.own = true ∧
      bits h' r = (bits h p).map (fun x => op.bool x o) ∧
      ∀ w, WF h w → WF h' w ∧ bits h' w = bits h w := by
  obtain ⟨h1, r, e1, hw1, ho, hs, he, hoff, hb1, _, hfr1⟩ := copy_bits h p hwf
  obtain ⟨h2, e2, hb2, R⟩ := iopBool_bits h1 r hw1 op o
  refine ⟨h2, r, by simp [bopBool, e1, e2, bind, Except.bind, pure, Except.pure], R.wf hw1, ho,
    by rw [hb2, hb1], fun w hw => ?_⟩
  obtain ⟨hw', hbw⟩ := hfr1 w hw
  refine ⟨R.wf hw', ?_⟩
  rw [toBools_rewrites_frame hw' R (Or.inl ?_), hbw]
  obtain ⟨b1, b2, b3, b4, b5⟩ := hw
  simp only [PBA.A, PBA.n, hoff]; omega

/-- `~p` -/
theorem not_bits (h : Heap) (p : PBA) (hwf : WF h p) :
    ∃ h' r, notCopy h p = .ok (h', r) ∧ WF h' r ∧ bits h' r = (bits h p).map (!·) ∧
      ∀ w, WF h w → WF h' w ∧ bits h' w = bits h w := by
  obtain ⟨h1, r, e1, hw1, ho, hs, he, hoff, hb1, _, hfr1⟩ := copy_bits h p hwf
  obtain ⟨h2, e2, hb2, R⟩ := invert_bits h1 r hw1
  refine ⟨h2, r, by simp [notCopy, e1, e2, bind, Except.bind, pure, Except.pure], R.wf hw1,
    by rw [hb2, hb1], fun w hw => ?_⟩
  obtain ⟨hw', hbw⟩ := hfr1 w hw
  refine ⟨R.wf hw', ?_⟩
  rw [toBools_rewrites_frame hw' R (Or.inl ?_), hbw]
  obtain ⟨b1, b2, b3, b4, b5⟩ := hw
  simp only [PBA.A, PBA.n, hoff]; omega

/-- `r = p op q` with an aligned packed operand of the same size (any operand: the fresh copy
    never overlaps it). -/
theorem bopPBA_bits (h : Heap) (p q : PBA) (hp : WF h p) (hq : WF h q)
    (hs : q.start = p.start) (he : q.stop = p.stop) (op : Op) :
    ∃ h' r, bopPBA h p q op = .ok (h', r) ∧ WF h' r ∧
      bits h' r = List.zipWith op.bool (bits h p) (bits h q) ∧
      ∀ w, WF h w → WF h' w ∧ bits h' w = bits h w := by
  obtain ⟨h1, r, e1, hw1, ho, hs1, he1, hoff, hb1, _, hfr1⟩ := copy_bits h p hp
  obtain ⟨hq1, hbq⟩ := hfr1 q hq
  have hd : Disjoint r q := by
    obtain ⟨b1, b2, b3, b4, b5⟩ := hq
    exact Or.inr (by rw [hoff]; omega)
  obtain ⟨h2, e2, hb2, R⟩ := iopPBA_bits_partial h1 r q hw1 hq1 (by rw [hs, hs1]) (by rw [he, he1]) hd op
  refine ⟨h2, r, by simp [bopPBA, e1, e2, bind, Except.bind, pure, Except.pure], R.wf hw1,
    by rw [hb2, hb1, hbq], fun w hw => ?_⟩
  obtain ⟨hw', hbw⟩ := hfr1 w hw
  refine ⟨R.wf hw', ?_⟩
  rw [toBools_rewrites_frame hw' R (Or.inl ?_), hbw]
  obtain ⟨b1, b2, b3, b4, b5⟩ := hw
  simp only [PBA.A, PBA.n, hoff]; omega

/-- `data_array` -/
theorem dataArray_eq (h : Heap) (p : PBA) :
    dataArray h p = if p.start = 0 then .ok (p.data h) else .error .notImpl :=
  dataArray_spec h p

end C05
end HS
