/-
  C08 — pixel-range updates equal the explicit-pixel update.
  Property theorems only (helpers in HealSparse/Lemmas).
-/
import HealSparse.Lemmas.Core
import HealSparse.Lemmas.Coverage
import HealSparse.Lemmas.Ranges
import HealSparse.Model.Ranges
import HealSparse.Props.C04
import HealSparse.Props.C01
import HealSparse.Lemmas.ApiRanges
namespace HS
namespace C08

variable {V : Type} [DecidableEq V]

/-- well-formed range array: half-open, inside the sphere (any row order, overlaps and
    empty rows allowed, ends may be `npix` in any row) -/
def RangesOk (c : Cfg) (R : List (Nat × Nat)) : Prop := ∀ ab ∈ R, ab.1 ≤ ab.2 ∧ ab.2 ≤ c.npix

/-- `expand` lists exactly the pixels inside the ranges. -/
theorem expand_mem (R : List (Nat × Nat)) (p : Nat) :
    p ∈ expand R ↔ ∃ ab ∈ R, ab.1 ≤ p ∧ p < ab.2 := by
  exact expand_mem' R p

/-- The slice path preserves the storage layout. -/
theorem inv_updateRanges (c : Cfg) (vc : VCfg V) (s : State V) (h : V → V)
    (R : List (Nat × Nat)) (na : Bool) (hs : Inv c vc s) (hR : RangesOk c R) :
    Inv c vc (updateRanges c vc s h R na) := by
  exact (updateRanges_spec c vc s h R na hs hR).1

/-- **Refinement of the slice path**: every pixel gets the cell effect `h` applied once per
    range row containing it, in row order (and nothing when `no_append` and uncovered). -/
theorem updateRanges_refines (c : Cfg) (vc : VCfg V) (s : State V) (h : V → V)
    (R : List (Nat × Nat)) (na : Bool) (hs : Inv c vc s) (hR : RangesOk c R)
    (p : Nat) (hp : p < c.npix) :
    abs c vc (updateRanges c vc s h R na) p
      = denseUpdate c (abs c vc s) (covered c s) (fun x (_ : Unit) => h x)
          ((expand R).map fun q => (q, ())) na p := by
  exact (updateRanges_spec c vc s h R na hs hR).2.2 p hp

/-- **The two paths agree** (operations without pre-pass: replace, or, and, add over a zero
    sentinel, None-clear): updating with ranges gives the same value at every pixel as
    updating with the explicit list of pixels the ranges contain. -/
theorem ranges_eq_explicit {W : Type} (c : Cfg) (vc : VCfg V) (s : State V) (f : V → W → V) (w : W)
    (R : List (Nat × Nat)) (na : Bool) (hs : Inv c vc s) (hR : RangesOk c R)
    (p : Nat) (hp : p < c.npix) :
    abs c vc (updateRanges c vc s (cellEffect none f w) R na) p
      = abs c vc (updatePix c vc s none f ((expand R).map fun q => (q, w)) na) p := by
  rw [updateRanges_refines c vc s _ R na hs hR p hp]
  show _ = abs c vc (updateCore c vc s (stageOp id f)
    (stageList false ((expand R).map fun q => (q, w))) na) p
  rw [C01.updateCore_refines c vc s _ _ na hs (stageList_expand_lt c false R w hR) p hp]
  unfold denseUpdate
  rw [denseFold_stage_none]

/-- The two paths agree for operations with a pre-pass (`add` over a non-zero sentinel)
    when no pixel is addressed twice.  (With overlapping rows the slice path re-applies the
    pre-pass per row while the explicit path applies it once; they differ only if an
    intermediate sum equals the sentinel — the full statement without `Nodup` is false.) -/
theorem ranges_eq_explicit_pre_partial {W : Type} (c : Cfg) (vc : VCfg V) (s : State V)
    (pre : V → V) (f : V → W → V) (w : W)
    (R : List (Nat × Nat)) (na : Bool) (hs : Inv c vc s) (hR : RangesOk c R)
    (hnd : (expand R).Nodup) (p : Nat) (hp : p < c.npix) :
    abs c vc (updateRanges c vc s (cellEffect (some pre) f w) R na) p
      = abs c vc (updatePix c vc s (some pre) f ((expand R).map fun q => (q, w)) na) p := by
  rw [updateRanges_refines c vc s _ R na hs hR p hp]
  show _ = abs c vc (updateCore c vc s (stageOp pre f)
    (stageList true ((expand R).map fun q => (q, w))) na) p
  rw [C01.updateCore_refines c vc s _ _ na hs (stageList_expand_lt c true R w hR) p hp]
  unfold denseUpdate
  rw [denseFold_stage_some pre f w (expand R) hnd]

/-- The coverage after a range update contains the coverage the explicit update needs,
    and is unchanged under `no_append`. -/
theorem ranges_covered_superset (c : Cfg) (vc : VCfg V) (s : State V) (h : V → V)
    (R : List (Nat × Nat)) (na : Bool) (hs : Inv c vc s) (hR : RangesOk c R)
    (k : Nat) (hk : k < c.ncov) :
    (denseCov c (covered c s) ((expand R).map fun q => (q, ())) na k = true →
        covered c (updateRanges c vc s h R na) k = true) ∧
    (na = true → covered c (updateRanges c vc s h R na) k = covered c s k) := by
  have hc := (updateRanges_spec c vc s h R na hs hR).2.1 k hk
  refine ⟨fun hd => ?_, fun hna => ?_⟩
  · rw [hc]
    exact ranges_covered_aux c s R na hR k hk hd
  · rw [hc, hna]
    simp

/-- `hpg.upgrade_pixel_ranges`: shifting both ends left by `g` bits -/
def upgradeRanges (g : Nat) (R : List (Nat × Nat)) : List (Nat × Nat) :=
  R.map fun ab => (ab.1 <<< g, ab.2 <<< g)

/-- A shape with a fixed render resolution covers exactly the children of its rendered pixels. -/
theorem expand_upgrade (g : Nat) (R : List (Nat × Nat)) (p : Nat) :
    p ∈ expand (upgradeRanges g R) ↔ (p >>> g) ∈ expand R := by
  exact expand_upgrade' g R p

/-- non-vacuity: a row ending at the last pixel in a non-final row position, a row on a block edge -/
example : RangesOk ⟨3, 1⟩ [(4, 6), (0, 2), (1, 1)] := by unfold RangesOk; decide
example : (updateRanges (V := Nat) ⟨3, 1⟩ ⟨0, fun x => x != 0⟩ ⟨#[0, -2, -4], #[0, 0]⟩
    (fun _ => 5) [(4, 6), (1, 3)] false).sp = #[0, 0, 0, 5, 5, 0, 5, 5] := by decide +kernel


open ApiRanges

/-! ## The two implementations of a range update at the API level

`apiUpdateRanges m op R val slicePath` (Model/Api.lean): `slicePath = true` is
`_update_values_pixel_ranges` (block by block; empty rows dropped on entry; for `add` over a
non-zero sentinel a reset pass over all rows, then the additions), `false` expands the rows
into a pixel list and runs `update_values_pix`; a record-field view takes the explicit path
whatever `slicePath` says.  Below: `slice` / `expand` for the two calls. -/

/-- rows with start ≤ end (a row with start > end is malformed input, out of scope) -/
def RowsOrdered (R : List (Nat × Nat)) : Prop := ∀ ab ∈ R, ab.1 ≤ ab.2

/-- there is no row at all, or some row holds a pixel -/
def SomePixel (R : List (Nat × Nat)) : Prop := R = [] ∨ expand R ≠ []

/-- no EMPTY row lies beyond the sphere (the model's expansion path tests every row's end
    against `npix`, the slice path only the rows it keeps) -/
def EmptyInside (m : MapObj) (R : List (Nat × Nat)) : Prop :=
  ∀ ab ∈ R, ab.1 = ab.2 → ab.2 ≤ m.npix

/-- every coverage pixel the slice path allocates holds a pixel of some row -/
def Tight (c : Cfg) (s : State Val) (R : List (Nat × Nat)) : Prop :=
  ∀ k ∈ rangeNewCov c s (liveRows R), touchedCov c R k = true

/-- content equality of two states (the body of `C10.Same`, which lives downstream of this file) -/
def SameState (c : Cfg) (vc : VCfg Val) (s₁ s₂ : State Val) : Prop :=
  Inv c vc s₁ ∧ Inv c vc s₂ ∧
  (∀ p, p < c.npix → abs c vc s₁ p = abs c vc s₂ p) ∧
  (∀ k, k < c.ncov → covered c s₁ k = covered c s₂ k)

variable {m : MapObj} {op : String} {R : List (Nat × Nat)} {val : Option Val}

theorem exists_beyond (hin : ¬ ∀ ab ∈ R, ab.2 ≤ m.npix) : ∃ ab ∈ R, ab.2 > m.npix := by
  apply Classical.byContradiction
  intro hc
  apply hin
  intro ab hab
  have : ¬ (ab.2 > m.npix) := fun hx => hc ⟨ab, hab, hx⟩
  omega

/-- **(1) error agreement, partial.**  For a well-formed map and rows with start ≤ end of which
    at least one holds a pixel (or no rows), no empty row beyond the sphere: the slice path
    raises iff the expansion path does.  No condition on views, on repeated pixels or on the
    operation.  Each hypothesis is necessary in the model (counterexamples below). -/
theorem api_ranges_error_iff_partial (h : m.WF) (hord : RowsOrdered R) (hsome : SomePixel R)
    (hemp : EmptyInside m R) :
    (∃ e, apiUpdateRanges m op R val true = .error e) ↔
    (∃ e, apiUpdateRanges m op R val false = .error e) := by
  rcases view_cases m with hv | hv
  · cases hfe : frontErr m op val.isNone with
    | some e => rw [ranges_front_err hfe, ranges_front_err hfe]
    | none =>
      by_cases hne : R = []
      · subst hne
        rw [ranges_nil hfe, ranges_nil hfe]
      · by_cases hin : ∀ ab ∈ R, ab.2 ≤ m.npix
        · have hR : ∀ ab ∈ R, ab.1 ≤ ab.2 ∧ ab.2 ≤ m.npix := fun ab hab => ⟨hord ab hab, hin ab hab⟩
          have hex : expand R ≠ [] := hsome.resolve_left hne
          have hview : (m.view.isSome && (expand R).any fun p => m.abs p == m.sent) = false := by
            rw [hv]; rfl
          rw [slice_regular hv hfe hne (live_of_all hR), expand_regular hfe hin hex hview,
            rangesOutcome_eq, rangesOutcome_eq, slice_expand_fit h hR]
          cases rangesErr m op R val (floatCellsFit m.kind (expandSt m op R val).sp) with
          | some e => exact ⟨fun _ => ⟨e, rfl⟩, fun _ => ⟨e, rfl⟩⟩
          | none => constructor <;> rintro ⟨_, he⟩ <;> cases he
        · obtain ⟨ab, hab, hgt⟩ := exists_beyond hin
          obtain ⟨e', _, he'⟩ := expand_beyond (val := val) hfe ⟨ab, hab, hgt⟩
          have hlive : ab ∈ liveRows R :=
            mem_liveRows.2 ⟨hab, fun he => by have := hemp ab hab he; omega⟩
          rw [slice_irregular hv hfe ⟨ab, hlive, Or.inl hgt⟩, he']
          exact ⟨fun _ => raise3 _ _ _, fun _ => raise3 _ _ _⟩
  · rw [apiUpdateRanges_view m op R val hv]

/-- **(1') error kinds, partial.**  When both paths raise (rows ordered, no empty row beyond the
    sphere) they raise the same error, except for a row beyond the sphere on a float map: there
    the slice path answers IndexError while the expansion path first runs `update_values_pix`
    on pixel 0, whose `inexact` (a model-level marker, not an exception of the library) may
    come first. -/
theorem api_ranges_error_kind_partial (hord : RowsOrdered R) (hemp : EmptyInside m R)
    {e₁ e₂ : Err} (h1 : apiUpdateRanges m op R val true = .error e₁)
    (h2 : apiUpdateRanges m op R val false = .error e₂) :
    e₁ = e₂ ∨ ((∃ ab ∈ R, ab.2 > m.npix) ∧ e₁ = .index ∧ e₂ = .inexact) := by
  rcases view_cases m with hv | hv
  · cases hfe : frontErr m op val.isNone with
    | some e =>
      rw [ranges_front_err hfe] at h1 h2
      cases h1; cases h2
      exact Or.inl rfl
    | none =>
      by_cases hne : R = []
      · subst hne
        rw [ranges_nil hfe] at h1
        cases h1
      · by_cases hin : ∀ ab ∈ R, ab.2 ≤ m.npix
        · have hR : ∀ ab ∈ R, ab.1 ≤ ab.2 ∧ ab.2 ≤ m.npix := fun ab hab => ⟨hord ab hab, hin ab hab⟩
          by_cases hex : expand R = []
          · rw [expand_empty hfe hin hex] at h2
            cases h2
          · left
            have hview : (m.view.isSome && (expand R).any fun p => m.abs p == m.sent) = false := by
              rw [hv]; rfl
            rw [slice_regular hv hfe hne (live_of_all hR)] at h1
            rw [expand_regular hfe hin hex hview] at h2
            exact rangesErr_kind (rangesOutcome_error h1) (rangesOutcome_error h2)
        · obtain ⟨ab, hab, hgt⟩ := exists_beyond hin
          obtain ⟨e', he'1, he'⟩ := expand_beyond (val := val) hfe ⟨ab, hab, hgt⟩
          have hlive : ab ∈ liveRows R :=
            mem_liveRows.2 ⟨hab, fun he => by have := hemp ab hab he; omega⟩
          rw [slice_irregular hv hfe ⟨ab, hlive, Or.inl hgt⟩] at h1
          rw [he'] at h2
          split at h1
          · rw [if_pos ‹_›] at h2
            cases h1; cases h2; exact Or.inl rfl
          · rw [if_neg ‹_›] at h2
            split at h1
            · rw [if_pos ‹_›] at h2
              cases h1; cases h2; exact Or.inl rfl
            · rw [if_neg ‹_›] at h2
              cases h1; cases h2
              rcases he'1 with rfl | ⟨_, hvs⟩ | rfl
              · exact Or.inl rfl
              · rw [hv] at hvs; cases hvs
              · exact Or.inr ⟨⟨ab, hab, hgt⟩, rfl, rfl⟩
  · rw [apiUpdateRanges_view m op R val hv, h2] at h1
    cases h1
    exact Or.inl rfl

/-- **(2) the results agree.**  When both paths succeed on a well-formed map — ANY operation,
    overlapping / touching / repeated rows, any value, views included — : same configuration,
    kind, sentinel, cache (reset) and view flag, both results well formed, the same value at
    every pixel, and the slice path's coverage contains the expansion path's (the needed one). -/
theorem api_ranges_agree {m₁ m₂ : MapObj} (h : m.WF)
    (h1 : apiUpdateRanges m op R val true = .ok m₁)
    (h2 : apiUpdateRanges m op R val false = .ok m₂) :
    m₁.covord = m₂.covord ∧ m₁.spord = m₂.spord ∧ m₁.kind = m₂.kind ∧ m₁.sent = m₂.sent ∧
    m₁.cache = m₂.cache ∧ m₁.view = m₂.view ∧ m₁.WF ∧ m₂.WF ∧
    (∀ p, p < m.npix → m₁.abs p = m₂.abs p) ∧
    (∀ k, k < m.c.ncov → covered m.c m₂.st k = true → covered m.c m₁.st k = true) := by
  have w1 := WF.apiUpdateRanges h h1
  rcases view_cases m with hv | hv
  · have w2 := WF.apiUpdateRanges h h2
    obtain ⟨_, hR', rfl⟩ := slice_ok hv h1
    obtain ⟨_, hin, _, rfl⟩ := expand_ok h2
    have hR : ∀ ab ∈ R, ab.1 ≤ ab.2 ∧ ab.2 ≤ m.npix := by
      intro ab hab
      refine ⟨?_, hin ab hab⟩
      by_cases he : ab.1 = ab.2
      · omega
      · exact (hR' ab (mem_liveRows.2 ⟨hab, he⟩)).1
    refine ⟨rfl, rfl, rfl, rfl, rfl, rfl, w1, w2, fun p hp => slice_expand_abs h hR p hp,
      fun k hk hc => ?_⟩
    show covered m.c (sliceSt m op R val) k = true
    have hc' : covered m.c (expandSt m op R val) k = true := hc
    rw [expandSt_covered h hin k hk] at hc'
    rw [(sliceSt_spec h hR').2.1 k hk]
    cases hck : covered m.c m.st k with
    | true => rfl
    | false =>
      rw [hck] at hc'
      simp only [Bool.false_or, Bool.and_eq_true] at hc' ⊢
      refine ⟨hc'.1, decide_eq_true ?_⟩
      apply touched_sub_rangeCov m.c m.st (liveRows R) hR' k hk hck
      rw [touchedCov_liveRows]
      exact hc'.2
  · rw [apiUpdateRanges_view m op R val hv, h2] at h1
    cases h1
    exact ⟨rfl, rfl, rfl, rfl, rfl, rfl, w1, w1, fun _ _ => rfl, fun _ _ hc => hc⟩

/-- **(2') content equality, partial.**  If moreover the update is a clear, or the map is a view,
    or every coverage pixel the slice path allocates holds a pixel of some row (`Tight`), the
    two results are content-equal states (`C10.Same`).  Without it the slice path may cover
    MORE than needed (a row ending on a block edge), which the property allows. -/
theorem api_ranges_same_partial {m₁ m₂ : MapObj} (h : m.WF)
    (ht : val = none ∨ m.view.isSome = true ∨ Tight m.c m.st R)
    (h1 : apiUpdateRanges m op R val true = .ok m₁)
    (h2 : apiUpdateRanges m op R val false = .ok m₂) :
    SameState m.c m.vc m₁.st m₂.st := by
  obtain ⟨_, _, _, _, _, _, w1, w2, hab, hcov⟩ := api_ranges_agree h h1 h2
  rcases view_cases m with hv | hv
  · obtain ⟨_, hR', rfl⟩ := slice_ok hv h1
    obtain ⟨_, hin, _, rfl⟩ := expand_ok h2
    refine ⟨w1.2, w2.2, hab, fun k hk => ?_⟩
    show covered m.c (sliceSt m op R val) k = covered m.c (expandSt m op R val) k
    rw [(sliceSt_spec h hR').2.1 k hk, expandSt_covered h hin k hk]
    rcases ht with rfl | hvs | ht
    · rfl
    · rw [hv] at hvs; cases hvs
    · cases hck : covered m.c m.st k with
      | true => rfl
      | false =>
        congr 2
        by_cases hm : k ∈ rangeNewCov m.c m.st (liveRows R)
        · rw [ht k hm]; exact decide_eq_true hm
        · rw [decide_eq_false hm]
          symm
          rw [Bool.eq_false_iff]
          intro htc
          apply hm
          apply touched_sub_rangeCov m.c m.st (liveRows R) hR' k hk hck
          rw [touchedCov_liveRows]
          exact htc
  · obtain ⟨g1, g2, g3, g4, _⟩ := WFApi.apiUpdateRanges_ok h2
    have hc : m₂.c = m.c := by unfold MapObj.c; rw [g1, g2]
    have hvc : m₂.vc = m.vc := by unfold MapObj.vc; rw [g3, g4]
    have hi := w2.2
    rw [hc, hvc] at hi
    rw [apiUpdateRanges_view m op R val hv, h2] at h1
    cases h1
    exact ⟨hi, hi, fun _ _ => rfl, fun _ _ => rfl⟩

/-- a sufficient arithmetic condition for `Tight`: every non-empty row ends inside the sphere,
    off a block edge — or exactly at the end of the sphere -/
theorem tight_of_offedge (c : Cfg) (s : State Val) (R : List (Nat × Nat))
    (hR : ∀ ab ∈ R, ab.1 = ab.2 ∨
      (ab.1 < ab.2 ∧ ab.2 ≤ c.npix ∧ (ab.2 % c.nfine ≠ 0 ∨ ab.2 = c.npix))) :
    Tight c s R := by
  intro k hk
  rw [← touchedCov_liveRows]
  refine touched_of_offedge c s (liveRows R) (fun ab hab => ?_) k hk
  obtain ⟨h1, h2⟩ := mem_liveRows.1 hab
  rcases hR ab h1 with he | he
  · exact absurd he h2
  · exact he

/-- **(3a) what the slice path computes.**  On success (map not a view) every pixel holds: the
    reset of `add` over a non-zero sentinel (`pre`, identity otherwise) once per row containing
    it, then the operation with the value once per row containing it — overlapping rows apply
    `add` twice — (nothing under a clear of an uncovered pixel); the coverage grows by every
    coverage pixel between the one holding a non-empty row's start and the one holding its
    exclusive end (`rangeNewCov` of the non-empty rows — one more than needed for a row ending
    on a block edge); none for a clear, none for empty rows. -/
theorem api_ranges_slice_spec {m₁ : MapObj} (h : m.WF) (hv : m.view = none)
    (h1 : apiUpdateRanges m op R val true = .ok m₁) :
    (∀ p, p < m.npix → m₁.abs p =
      if (val.isNone && !covered m.c m.st (p >>> m.c.shift)) = true then m.abs p
      else R.foldl (fun x ab => if ab.1 ≤ p ∧ p < ab.2
              then (cellOp m op).2 x (rangesW m val) else x)
            (R.foldl (fun x ab => if ab.1 ≤ p ∧ p < ab.2
              then ((cellOp m op).1.getD id) x else x) (m.abs p))) ∧
    (∀ k, k < m.c.ncov → covered m.c m₁.st k =
      (covered m.c m.st k || (!val.isNone && decide (k ∈ rangeNewCov m.c m.st (liveRows R))))) := by
  obtain ⟨_, hR', rfl⟩ := slice_ok hv h1
  exact ⟨fun p hp => (sliceSt_spec h hR').2.2 p hp, fun k hk => (sliceSt_spec h hR').2.1 k hk⟩

/-- **(3b) what the expansion path computes.**  On success every pixel holds the dense fold
    of the staged operation (pre-pass over all addressed pixels, then the operation once per
    occurrence) and the coverage grows by exactly the coverage pixels holding a pixel of some
    row (none for a clear). -/
theorem api_ranges_expand_spec {m₂ : MapObj} (h : m.WF)
    (h2 : apiUpdateRanges m op R val false = .ok m₂) :
    (∀ p, p < m.npix → m₂.abs p =
      denseUpdate m.c m.abs (covered m.c m.st)
        (stageOp ((cellOp m op).1.getD id) (cellOp m op).2)
        (stageList (cellOp m op).1.isSome ((expand R).map fun q => (q, rangesW m val)))
        val.isNone p) ∧
    (∀ k, k < m.c.ncov → covered m.c m₂.st k =
      (covered m.c m.st k || (!val.isNone && touchedCov m.c R k))) := by
  obtain ⟨_, hin, _, rfl⟩ := expand_ok h2
  exact ⟨fun p hp => expandSt_abs h hin p hp, fun k hk => expandSt_covered h hin k hk⟩

/-- (3b, row form) for rows with start ≤ end the expansion path computes the same row-by-row
    fold as the slice path -/
theorem api_ranges_expand_rows {m₂ : MapObj} (h : m.WF) (hord : RowsOrdered R)
    (h2 : apiUpdateRanges m op R val false = .ok m₂) (p : Nat) (hp : p < m.npix) :
    m₂.abs p =
      if (val.isNone && !covered m.c m.st (p >>> m.c.shift)) = true then m.abs p
      else R.foldl (fun x ab => if ab.1 ≤ p ∧ p < ab.2
              then (cellOp m op).2 x (rangesW m val) else x)
            (R.foldl (fun x ab => if ab.1 ≤ p ∧ p < ab.2
              then ((cellOp m op).1.getD id) x else x) (m.abs p)) := by
  obtain ⟨_, hin, _, rfl⟩ := expand_ok h2
  exact expandSt_abs_rows h (fun ab hab => ⟨hord ab hab, hin ab hab⟩) p hp

/-- **the two paths are indistinguishable, partial** (the headline, combining (1), (1'), (2),
    (2')): on a well-formed map, for rows with start ≤ end of which one holds a pixel (or no
    rows), no empty row beyond the sphere — either both paths raise (the same error, up to the
    row-beyond-the-sphere case) or both succeed with the same fields, the same value at every
    pixel and a coverage that contains the needed one; content-equal states when the slice
    path allocates nothing extra. -/
theorem api_ranges_indistinguishable_partial (h : m.WF) (hord : RowsOrdered R)
    (hsome : SomePixel R) (hemp : EmptyInside m R) :
    match apiUpdateRanges m op R val true, apiUpdateRanges m op R val false with
    | .ok m₁, .ok m₂ =>
        m₁.covord = m₂.covord ∧ m₁.spord = m₂.spord ∧ m₁.kind = m₂.kind ∧ m₁.sent = m₂.sent ∧
        m₁.cache = m₂.cache ∧ m₁.view = m₂.view ∧ m₁.WF ∧ m₂.WF ∧
        (∀ p, p < m.npix → m₁.abs p = m₂.abs p) ∧
        (∀ k, k < m.c.ncov → covered m.c m₂.st k = true → covered m.c m₁.st k = true) ∧
        ((val = none ∨ m.view.isSome = true ∨ Tight m.c m.st R) → SameState m.c m.vc m₁.st m₂.st)
    | .error e₁, .error e₂ =>
        e₁ = e₂ ∨ ((∃ ab ∈ R, ab.2 > m.npix) ∧ e₁ = .index ∧ e₂ = .inexact)
    | _, _ => False := by
  have hiff := api_ranges_error_iff_partial (op := op) (val := val) h hord hsome hemp
  cases h1 : apiUpdateRanges m op R val true with
  | ok m₁ =>
    cases h2 : apiUpdateRanges m op R val false with
    | ok m₂ =>
      obtain ⟨a1, a2, a3, a4, a5, a6, a7, a8, a9, a10⟩ := api_ranges_agree h h1 h2
      exact ⟨a1, a2, a3, a4, a5, a6, a7, a8, a9, a10,
        fun ht => api_ranges_same_partial h ht h1 h2⟩
    | error e₂ =>
      obtain ⟨e, he⟩ := hiff.2 ⟨e₂, h2⟩
      rw [h1] at he
      cases he
  | error e₁ =>
    cases h2 : apiUpdateRanges m op R val false with
    | ok m₂ =>
      obtain ⟨e, he⟩ := hiff.1 ⟨e₁, h1⟩
      rw [h2] at he
      cases he
    | error e₂ => exact api_ranges_error_kind_partial hord hemp h1 h2

/-! ## `update_values_pix` itself against the dense specification -/

/-- **one call.**  A successful `apiUpdate` on a well-formed map changes the dense view exactly
    as the dense update does: the staged operation `cellOp m op` (for `add` over a non-zero
    sentinel a pre-pass resetting addressed sentinel cells to 0, then the additions) folded over
    the pairs `updPv` = `pix.zip vals` (`pix × {v}` for a single value, `pix × {clear value}`
    with `no_append` for `None`) in call order; the coverage is the dense coverage; everything
    but the storage and the (reset) cache is kept and the result is well formed. -/
theorem api_update_refines {m m' : MapObj} {op : String} {pix : List Nat}
    {vals : Option (List Val)} {single : Bool} {ru : Option Bool} (h : m.WF)
    (hr : apiUpdate m op pix vals single ru = .ok m') :
    m'.WF ∧ m'.covord = m.covord ∧ m'.spord = m.spord ∧ m'.kind = m.kind ∧ m'.sent = m.sent ∧
    m'.view = m.view ∧ m'.cache = none ∧
    (∀ p, p < m.npix → m'.abs p =
      denseUpdate m.c m.abs (covered m.c m.st)
        (stageOp ((cellOp m op).1.getD id) (cellOp m op).2)
        (stageList (cellOp m op).1.isSome (updPv m pix vals single)) vals.isNone p) ∧
    (∀ k, k < m.c.ncov → covered m.c m'.st k =
      denseCov m.c (covered m.c m.st) (updPv m pix vals single) vals.isNone k) := by
  have w' := WF.apiUpdate h hr
  obtain ⟨_, hlt, rfl⟩ := apiUpdate_ok hr
  have hpv : ∀ qw ∈ updPv m pix vals single, qw.1 < m.c.npix :=
    fun qw hq => hlt _ (updPv_fst_mem hq)
  exact ⟨w', rfl, rfl, rfl, rfl, rfl, rfl,
    fun p hp => updatePix_refines m.c m.vc m.st _ _ _ _ h.2 hpv p hp,
    fun k hk => updatePix_covered m.c m.vc m.st _ _ _ _ h.2 hpv k hk⟩

/-- one `update_values_pix` call of a history -/
structure ApiUpd where
  op : String
  pix : List Nat
  vals : Option (List Val)
  single : Bool

/-- run a history of calls, stopping at the first error -/
def apiHist (m : MapObj) : List ApiUpd → Except Err MapObj
  | [] => .ok m
  | u :: us =>
    match apiUpdate m u.op u.pix u.vals u.single with
    | .ok m' => apiHist m' us
    | .error e => .error e

/-- the dense operation a call stands for (it depends on the map only through its kind and
    sentinel, which no call changes) -/
def ApiUpd.toOp (m : MapObj) (u : ApiUpd) : C01.UpdOp Val :=
  ⟨Option Val, stageOp ((cellOp m u.op).1.getD id) (cellOp m u.op).2,
    stageList (cellOp m u.op).1.isSome (updPv m u.pix u.vals u.single), u.vals.isNone⟩

theorem apiHist_ok {m m' : MapObj} {us : List ApiUpd} (hr : apiHist m us = .ok m') :
    m'.covord = m.covord ∧ m'.spord = m.spord ∧ m'.kind = m.kind ∧ m'.sent = m.sent ∧
    m'.st = C01.runHist m.c m.vc m.st (us.map (ApiUpd.toOp m)) ∧
    ∀ o ∈ us.map (ApiUpd.toOp m), o.inRange m.c := by
  induction us generalizing m with
  | nil => cases hr; exact ⟨rfl, rfl, rfl, rfl, rfl, fun _ ho => (nomatch ho)⟩
  | cons u us ih =>
    unfold apiHist at hr
    split at hr
    · rename_i m₁ h1
      obtain ⟨_, hlt, rfl⟩ := apiUpdate_ok h1
      obtain ⟨i1, i2, i3, i4, i5, i6⟩ := ih hr
      refine ⟨i1, i2, i3, i4, i5, ?_⟩
      intro o ho
      rcases List.mem_cons.1 ho with rfl | ho
      · exact stageList_lt _ _ fun qw hq => hlt _ (updPv_fst_mem hq)
      · exact i6 o ho
    · cases hr

/-- **every history of calls.**  After any sequence of successful `apiUpdate` calls on a
    well-formed map the result is well formed, every pixel reads what the dense array holds
    and the coverage mask is the dense coverage (`C01.history_refines` at the API level). -/
theorem api_history_refines {m m' : MapObj} {us : List ApiUpd} (h : m.WF)
    (hr : apiHist m us = .ok m') :
    m'.WF ∧
    (∀ p, p < m.npix → m'.abs p =
      (C01.denseHist m.c (m.abs, covered m.c m.st) (us.map (ApiUpd.toOp m))).1 p) ∧
    (∀ k, k < m.c.ncov → covered m.c m'.st k =
      (C01.denseHist m.c (m.abs, covered m.c m.st) (us.map (ApiUpd.toOp m))).2 k) := by
  obtain ⟨h1, h2, h3, h4, h5, h6⟩ := apiHist_ok hr
  obtain ⟨g1, g2, g3⟩ := C01.history_refines m.c m.vc m.st h.2 _ h6
  have hc : m'.c = m.c := by unfold MapObj.c; rw [h1, h2]
  have hvc : m'.vc = m.vc := by unfold MapObj.vc; rw [h3, h4]
  refine ⟨⟨by rw [h1, h2]; exact h.1, by rw [hc, hvc, h5]; exact g1⟩, fun p hp => ?_, fun k hk => ?_⟩
  · show abs m'.c m'.vc m'.st p = _
    rw [hc, hvc, h5]
    exact g2 p hp
  · rw [h5]
    exact g3 k hk

/-! ## The driver: an update that raises stores nothing -/

/-- **`upd` / `updr` answering anything but `ok`** (`err …`, `inexact`, `bad-op…`) in a world
    reachable by any protocol history: every name — the addressed map, its parent or its views,
    every other map — still resolves, to a map with the same configuration, kind, sentinel,
    arrays (hence the same `abs` at every pixel) and view flag; only the `n_valid` cache of the
    addressed map is reset. -/
theorem upd_error_stores_nothing (lines : List String) (a : Args) (updr : Bool)
    (hne : (if updr then opUpdr (runLines lines) a else opUpd (runLines lines) a).2 ≠ "ok")
    (x : String) :
    ∀ m', (if updr then opUpdr (runLines lines) a else opUpd (runLines lines) a).1.get? x = some m' →
      ∃ m, (runLines lines).get? x = some m ∧ m'.abs = m.abs ∧ m'.st = m.st ∧
        m'.covord = m.covord ∧ m'.spord = m.spord ∧ m'.kind = m.kind ∧ m'.sent = m.sent ∧
        m'.view = m.view := by
  intro m' hm'
  have hw := Good.runLines lines
  have hs : SameMaps (if updr then opUpdr (runLines lines) a else opUpd (runLines lines) a).1
      (runLines lines) := by
    cases updr with
    | true => exact opUpdr_not_ok hw a hne
    | false => exact opUpd_not_ok hw a hne
  have hx := hs x
  rw [hm'] at hx
  cases hg : (runLines lines).get? x with
  | none => rw [hg] at hx; cases hx
  | some m =>
    rw [hg] at hx
    simp only [Option.map_some, Option.some.injEq] at hx
    refine ⟨m, rfl, ?_⟩
    obtain ⟨co, so, k, se, st, ca, vi⟩ := m
    obtain ⟨co', so', k', se', st', ca', vi'⟩ := m'
    simp only [forgetCache, MapObj.mk.injEq] at hx
    obtain ⟨rfl, rfl, rfl, rfl, rfl, _, rfl⟩ := hx
    exact ⟨rfl, rfl, rfl, rfl, rfl, rfl, rfl⟩

/-- and conversely no name appears -/
theorem upd_error_no_new_map (lines : List String) (a : Args)
    (hne : (opUpd (runLines lines) a).2 ≠ "ok") (x : String)
    (h : (runLines lines).get? x = none) : (opUpd (runLines lines) a).1.get? x = none := by
  have hx := opUpd_not_ok (Good.runLines lines) a hne x
  rw [h] at hx
  cases hg : (opUpd (runLines lines) a).1.get? x with
  | none => rfl
  | some m => rw [hg] at hx; cases hx

/-! ## Non-vacuity, regression examples and counterexamples (API level) -/

open WFApi (okAnd)

instance (R : List (Nat × Nat)) : Decidable (RowsOrdered R) := by unfold RowsOrdered; infer_instance
instance (R : List (Nat × Nat)) : Decidable (SomePixel R) := by unfold SomePixel; infer_instance
instance (m : MapObj) (R : List (Nat × Nat)) : Decidable (EmptyInside m R) := by
  unfold EmptyInside; infer_instance
instance (c : Cfg) (s : State Val) (R : List (Nat × Nat)) : Decidable (Tight c s R) := by
  unfold Tight; infer_instance
instance (c : Cfg) (vc : VCfg Val) (s₁ s₂ : State Val) : Decidable (SameState c vc s₁ s₂) := by
  unfold SameState; infer_instance

def isErr {α : Type} : Except Err α → Bool
  | .error _ => true
  | .ok _ => false

def errIs {α : Type} (e : Err) : Except Err α → Bool
  | .error e' => e' == e
  | .ok _ => false

/-- an int64 map (12 coverage pixels × 4 cells, default sentinel -2^63), pixels 1 and 9 set -/
def exMap : Except Err MapObj := do
  let m ← apiMakeEmpty 0 1 (.plain (.int 64 true)) none []
  apiUpdate m "replace" [1, 9] (some [.num 3 0, .num 4 0]) false

/-- the same with sentinel 0 (so that `add` has no pre-pass) -/
def exMap0 : Except Err MapObj := do
  let m ← apiMakeEmpty 0 1 (.plain (.int 64 true)) (some (.num 0 0)) []
  apiUpdate m "replace" [1, 9] (some [.num 3 0, .num 4 0]) false

/-- all hypotheses of (1), (2') hold and both paths succeed with content-equal results:
    shuffled rows, one ending at `npix`, one crossing a block edge, an empty row, the empty row
    `[npix, npix)` (`replace`) -/
example : okAnd exMap (fun m =>
    let R := [(44, 48), (2, 6), (21, 21), (48, 48)]
    decide m.WF && decide (RowsOrdered R) && decide (SomePixel R) && decide (EmptyInside m R) &&
    decide (Tight m.c m.st R) &&
    okAnd (apiUpdateRanges m "replace" R (some (.num 7 0)) true) fun m₁ =>
    okAnd (apiUpdateRanges m "replace" R (some (.num 7 0)) false) fun m₂ =>
      decide (SameState m.c m.vc m₁.st m₂.st) && m₁.abs 5 == .num 7 0 && m₁.abs 1 == .num 3 0 &&
      !covered m.c m₁.st 5) = true := by
  decide +kernel

/-- overlapping and touching rows with `add` over a zero sentinel (no pre-pass): pixel 4 and 5
    receive the value twice on both paths -/
example : okAnd exMap0 (fun m =>
    let R := [(0, 6), (4, 9), (9, 11)]
    decide m.WF && decide (Tight m.c m.st R) &&
    okAnd (apiUpdateRanges m "add" R (some (.num 5 0)) true) fun m₁ =>
    okAnd (apiUpdateRanges m "add" R (some (.num 5 0)) false) fun m₂ =>
      decide (SameState m.c m.vc m₁.st m₂.st) && m₁.abs 4 == .num 10 0 && m₁.abs 1 == .num 8 0 &&
      m₁.abs 9 == .num 9 0 && m₂.abs 5 == .num 10 0) = true := by
  decide +kernel

/-- the same rows with `add` over the default (non-zero) sentinel: unset pixels are reset once,
    pixel 4 ends at 10, pixel 1 at 3 + 5, on both paths -/
example : okAnd exMap (fun m =>
    let R := [(0, 6), (4, 9), (9, 11)]
    okAnd (apiUpdateRanges m "add" R (some (.num 5 0)) true) fun m₁ =>
    okAnd (apiUpdateRanges m "add" R (some (.num 5 0)) false) fun m₂ =>
      decide (SameState m.c m.vc m₁.st m₂.st) && m₁.abs 4 == .num 10 0 && m₁.abs 1 == .num 8 0 &&
      m₁.abs 9 == .num 9 0 && m₁.abs 0 == .num 5 0) = true := by
  decide +kernel

/-- a clear (`None`) over rows reaching into uncovered coverage pixels: nothing is allocated,
    pixel 1 is reset, both paths content-equal -/
example : okAnd exMap (fun m =>
    let R := [(0, 4), (20, 24)]
    okAnd (apiUpdateRanges m "replace" R none true) fun m₁ =>
    okAnd (apiUpdateRanges m "replace" R none false) fun m₂ =>
      decide (SameState m.c m.vc m₁.st m₂.st) && m₁.abs 1 == m.sent && !covered m.c m₁.st 5) = true := by
  decide +kernel

/-- both raise for a row beyond the sphere, a bad operation name, `None` with `add` -/
example : okAnd exMap (fun m =>
    errIs .index (apiUpdateRanges m "replace" [(40, 49)] (some (.num 7 0)) true) &&
    errIs .index (apiUpdateRanges m "replace" [(40, 49)] (some (.num 7 0)) false) &&
    errIs .value (apiUpdateRanges m "xor" [(0, 2)] (some (.num 7 0)) true) &&
    errIs .value (apiUpdateRanges m "xor" [(0, 2)] (some (.num 7 0)) false) &&
    errIs .value (apiUpdateRanges m "add" [(0, 2)] none true) &&
    errIs .value (apiUpdateRanges m "add" [(0, 2)] none false)) = true := by
  decide +kernel

/-- **coverage is a superset, not equal (hypothesis `Tight` of (2'))**: a row ending on a block
    edge, `[12, 16)` with 4 cells per coverage pixel.  Both paths succeed with the same values,
    but the slice path also allocates coverage pixel 4 (no pixel of the row lies in it); the
    expansion path allocates coverage pixel 3 only.  (Allowed by the property.)
    An empty row `[21, 21)` allocates nothing on either path (regression: the range routine
    used to allocate coverage pixel 5 for it). -/
example : okAnd exMap (fun m =>
    okAnd (apiUpdateRanges m "replace" [(12, 16)] (some (.num 7 0)) true) fun m₁ =>
    okAnd (apiUpdateRanges m "replace" [(12, 16)] (some (.num 7 0)) false) fun m₂ =>
      !decide (Tight m.c m.st [(12, 16)]) && !decide (SameState m.c m.vc m₁.st m₂.st) &&
      covered m.c m₁.st 3 && covered m.c m₁.st 4 && covered m.c m₂.st 3 && !covered m.c m₂.st 4) = true ∧
    okAnd exMap (fun m =>
    okAnd (apiUpdateRanges m "replace" [(21, 21), (0, 2)] (some (.num 7 0)) true) fun m₁ =>
    okAnd (apiUpdateRanges m "replace" [(21, 21), (0, 2)] (some (.num 7 0)) false) fun m₂ =>
      decide (SameState m.c m.vc m₁.st m₂.st) && !covered m.c m₁.st 5 && !covered m.c m₂.st 5) = true := by
  decide +kernel

/-- **counterexample to (1) without `RowsOrdered`** (malformed input, model level): a row with
    start > end, `[5, 3)`: the slice path raises IndexError, the expansion path ignores the
    row and succeeds -/
example : okAnd exMap (fun m =>
    errIs .index (apiUpdateRanges m "replace" [(5, 3), (20, 22)] (some (.num 7 0)) true) &&
    okAnd (apiUpdateRanges m "replace" [(5, 3), (20, 22)] (some (.num 7 0)) false) fun m₂ =>
      m₂.abs 20 == .num 7 0) = true := by
  decide +kernel

/-- **counterexamples to (1) without `SomePixel`** (the remaining asymmetry of the model): only
    empty rows.  The expansion path returns at its empty-input test on the EXPANDED pixel list;
    the slice path still validates: a repeated empty row with `replace` (raw-array uniqueness),
    a value of the wrong type -/
example : okAnd exMap (fun m =>
    errIs .value (apiUpdateRanges m "replace" [(3, 3), (3, 3)] (some (.num 7 0)) true) &&
    !isErr (apiUpdateRanges m "replace" [(3, 3), (3, 3)] (some (.num 7 0)) false) &&
    errIs .value (apiUpdateRanges m "replace" [(3, 3)] (some (.bool true)) true) &&
    !isErr (apiUpdateRanges m "replace" [(3, 3)] (some (.bool true)) false)) = true := by
  decide +kernel

/-- **counterexample to (1) without `EmptyInside`** (model level): an empty row beyond the
    sphere, `[50, 50)` with 48 pixels: the slice path drops it and succeeds, the expansion path
    tests every row's end and raises IndexError -/
example : okAnd exMap (fun m =>
    !decide (EmptyInside m [(50, 50), (0, 2)]) &&
    !isErr (apiUpdateRanges m "replace" [(50, 50), (0, 2)] (some (.num 7 0)) true) &&
    errIs .index (apiUpdateRanges m "replace" [(50, 50), (0, 2)] (some (.num 7 0)) false)) = true := by
  decide +kernel

/-- a record map with one valid pixel and the view of its primary field -/
def exViewMap : Except Err MapObj := do
  let p ← apiMakeEmpty 0 1 (.recd [.int 64 true, .flt 64] 0) none []
  let p ← apiUpdate p "replace" [0] (some [.recd [(3, 0), (1, 1)]]) false
  materializeView p "p" 0 p.sent none

/-- **regression (views)**: through a record-field view BOTH calls refuse to make pixel 1 valid
    (RuntimeError; the range routine used to bypass the guard), and both rewrite the valid
    pixel 0 alike -/
example : okAnd exViewMap (fun v =>
    decide v.WF && v.view.isSome &&
    errIs .runtime (apiUpdateRanges v "replace" [(0, 2)] (some (.num 7 0)) false) &&
    errIs .runtime (apiUpdateRanges v "replace" [(0, 2)] (some (.num 7 0)) true) &&
    okAnd (apiUpdateRanges v "replace" [(0, 1)] (some (.num 7 0)) true) fun v₁ =>
    okAnd (apiUpdateRanges v "replace" [(0, 1)] (some (.num 7 0)) false) fun v₂ =>
      decide (SameState v.c v.vc v₁.st v₂.st) && v₁.abs 0 == .num 7 0 && v₁.abs 1 == v.sent) = true := by
  decide +kernel

/-- an int64 map with sentinel 5 -/
def exMap5 : Except Err MapObj := apiMakeEmpty 0 1 (.plain (.int 64 true)) (some (.num 5 0)) []

/-- **regression (repeated pixels under `add` over a non-zero sentinel)**: `add` of 5 over a
    map with sentinel 5, the row `[0, 1)` given twice.  Both paths: reset 5 ↦ 0 once, then
    +5 +5 = 10 (the range routine used to reset per row: 0 + 5 = 5 = sentinel ↦ 0 + 5 = 5). -/
example : okAnd exMap5 (fun m =>
    okAnd (apiUpdateRanges m "add" [(0, 1), (0, 1)] (some (.num 5 0)) true) fun m₁ =>
    okAnd (apiUpdateRanges m "add" [(0, 1), (0, 1)] (some (.num 5 0)) false) fun m₂ =>
      decide (SameState m.c m.vc m₁.st m₂.st) && m₁.abs 0 == .num 10 0 && m₂.abs 0 == .num 10 0) = true := by
  decide +kernel

/-- a float32 map with sentinel 2^24 and pixel 0 = 2^24 - 1 -/
def exMapF : Except Err MapObj := do
  let m ← apiMakeEmpty 0 1 (.plain (.flt 32)) (some (.num 16777216 0)) []
  apiUpdate m "replace" [0] (some [.num 16777215 0]) false

/-- float exactness (model level: `inexact` marks a sum float32 would round): the doubled row
    now reaches 2^24 + 1 on BOTH paths (`inexact` on both — regression, the running sum used to
    be reset at the sentinel on the slice path).  What remains is the error KIND for a row
    beyond the sphere: IndexError (slice) vs `inexact` from pixel 0 (expansion). -/
example : okAnd exMapF (fun m =>
    errIs .inexact (apiUpdateRanges m "add" [(0, 1), (0, 1)] (some (.num 1 0)) true) &&
    errIs .inexact (apiUpdateRanges m "add" [(0, 1), (0, 1)] (some (.num 1 0)) false) &&
    errIs .index (apiUpdateRanges m "add" [(10, 49)] (some (.num 2 0)) true) &&
    errIs .inexact (apiUpdateRanges m "add" [(10, 49)] (some (.num 2 0)) false)) = true := by
  decide +kernel

/-- `api_update_refines`, `api_history_refines`: a two-call history with a repeated pixel -/
example : okAnd exMap0 (fun m =>
    okAnd (apiHist m [⟨"add", [1, 1, 5], some [.num 2 0], true⟩, ⟨"replace", [9], none, true⟩]) fun m' =>
      decide m'.WF && m'.abs 1 == .num 7 0 && m'.abs 5 == .num 2 0 && m'.abs 9 == .num 0 0) = true := by
  decide +kernel

/-- protocol level: the outputs of a history -/
def replay (lines : List String) : List String :=
  (lines.foldl (fun (wo : World × List String) l =>
    let r := step wo.1 l; (r.1, wo.2 ++ [r.2])) ({}, [])).2

/-! protocol histories: the block-edge coverage superset; the start > end difference (model
    level); and the three regressions — a view refuses new pixels on both paths, repeated rows
    under `add` over a non-zero sentinel agree, an empty row allocates nothing -/
#guard replay ["cfg a kind=plain dtype=i8 covord=0 spord=1", "cfg b kind=plain dtype=i8 covord=0 spord=1",
    "updr a ranges=0:4 val=5 path=slice", "updr b ranges=0:4 val=5 path=expand", "covmask a", "covmask b"]
  == ["ok", "ok", "ok", "ok", "110000000000", "100000000000"]
#guard replay ["cfg a kind=plain dtype=i8 covord=0 spord=1", "cfg b kind=plain dtype=i8 covord=0 spord=1",
    "updr a ranges=5:3 val=5 path=slice", "updr b ranges=5:3 val=5 path=expand"]
  == ["ok", "ok", "err IndexError", "ok"]
#guard replay ["cfg m kind=rec fields=i8,f8 primary=0 covord=0 spord=1", "upd m pix=0 val=r3;1",
    "single m field=0 r=v", "updr v ranges=0:2 val=7 path=expand", "get m pix=0,1",
    "updr v ranges=0:2 val=7 path=slice", "get m pix=0,1"]
  == ["ok", "ok", "ok", "err RuntimeError",
      "r3;1,r-9223372036854775808;-1637499999999999923489519697920",
      "err RuntimeError", "r3;1,r-9223372036854775808;-1637499999999999923489519697920"]
#guard replay ["cfg a kind=plain dtype=i8 covord=0 spord=1 sentinel=5", "cfg b kind=plain dtype=i8 covord=0 spord=1 sentinel=5",
    "updr a ranges=0:1,0:1 val=5 op=add path=slice", "updr b ranges=0:1,0:1 val=5 op=add path=expand",
    "get a pix=0", "get b pix=0"]
  == ["ok", "ok", "ok", "ok", "10", "10"]
#guard replay ["cfg a kind=plain dtype=i8 covord=0 spord=1", "cfg b kind=plain dtype=i8 covord=0 spord=1",
    "updr a ranges=5:5,48:48 val=5 path=slice", "updr b ranges=5:5,48:48 val=5 path=expand", "covmask a", "covmask b"]
  == ["ok", "ok", "ok", "ok", "000000000000", "000000000000"]

/-! `upd_error_stores_nothing` is not vacuous: a rejected update in a reachable world -/
#guard replay ["cfg a kind=plain dtype=i8 covord=0 spord=1", "upd a pix=3 val=4", "upd a pix=3,99 val=7",
    "get a pix=3"] == ["ok", "ok", "err IndexError", "4"]

end C08
end HS
