"""C07 — degrading reduces exactly the valid children of each coarse pixel."""
import gen

PID = 'C07'
RULE = ("maps of every degradable kind (float32/64, every integer dtype, bool, record arrays, wide masks) are filled so "
        "that coarse pixels have 0, 1, some or all children valid (values of both signs), in shuffled coverage growth "
        "order, then degraded with every reduction valid for the kind to output orders on both sides of the coverage "
        "order, with and without a weight map (built with the same valid set in a different block order); the result "
        "(dense values as exact rationals, valid set, dtype, sentinel, layout, coverage) is compared with the Lean "
        "model, and the map and the weight map are re-read after the call; "
        "non-trivial = at least one coarse pixel with a strict, non-empty subset of its children valid")
ASSUMPTIONS = ["mean / wmean results are compared as exact rationals against the library's float with relative "
               "tolerance 2^-20, std with the same tolerance (the only tolerances in the harness); all other "
               "reductions exactly",
               "known finding F36 (unmasked integer / wide-mask 'and'): for reduction 'and' the generator only "
               "produces coarse pixels whose children are all valid or all invalid"]
TRUSTED = ["numpy nan-reductions (np.nanmean, …) on dyadic inputs"]

FLOAT_REDS = ['mean', 'median', 'std', 'max', 'min', 'sum', 'prod']


def fill_groups(rng, c, h, ordout, full_only=False):
    """fill whole / partial groups of children of coarse pixels at order `ordout`"""
    g = 4 ** max(0, c.spord - ordout)
    ncoarse = c.npix // g
    focus_cov = rng.sample(range(c.ncov), min(c.ncov, rng.randint(1, 4)))
    coarse_per_cov = max(1, ncoarse // c.ncov) if ordout >= c.covord else 1
    pix = []
    for k in focus_cov:
        for _ in range(rng.randint(1, 3)):
            if ordout >= c.covord:
                q = k * coarse_per_cov + rng.randrange(coarse_per_cov)
                base = q * g
                span = g
            else:
                base = k * c.nfine
                span = c.nfine
            mode = 'all' if full_only else rng.choice(['all', 'one', 'some', 'some'])
            if mode == 'all':
                sel = list(range(span))
            elif mode == 'one':
                sel = [rng.randrange(span)]
            else:
                sel = [j for j in range(span) if rng.random() < 0.5] or [0]
            pix += [base + j for j in sel]
    pix = sorted(set(pix))
    rng.shuffle(pix)
    # several update calls so that coverage grows in shuffled order
    chunks = [pix[i::3] for i in range(3)]
    for ch in chunks:
        if ch:
            h.append("upd %s op=replace pix=%s vals=%s" % (c.name, ','.join(map(str, ch)),
                                                            ','.join(c.val(rng) for _ in ch)))
    return pix


def histories(rng, tier):
    n = 400 if tier == 'quick' else 2500
    out = []
    for hi in range(n):
        forced_big = hi < 16          # a fixed share of every run: std over large-offset values
        kind = rng.choice(['flt', 'flt', 'int', 'int', 'bool', 'rec', 'wide'])
        if forced_big:
            kind = rng.choice(['flt', 'int'])
        c = gen.rand_cfg(rng, kinds=[kind], max_npix=768, name='m', min_delta=1)
        if forced_big:
            c.dtype = 'f8' if kind == 'flt' else rng.choice(['i8', 'i4'])
            if c.sentinel not in ('default', '0'):
                c.sentinel = 'default'

        c.covpix = []
        if c.kind == 'rec' and rng.random() < 0.7:
            # avoid the None-clear / custom sentinels here; C14 covers them
            pass
        ordout = rng.choice(list(range(max(0, c.covord - 1), c.spord + 1)))
        if c.kind == 'wide':
            red = rng.choice(['and', 'or', 'or'])
        elif c.is_int and c.zero_sentinel() and rng.random() < 0.4:
            red = rng.choice(['and', 'or'])
        else:
            red = rng.choice(FLOAT_REDS + ['wmean'])
        if forced_big:
            red = 'std'
        # allocated-but-empty blocks: a pre-allocated coverage pixel that never receives a valid pixel
        # (the weight map below does not have it, or has it elsewhere)
        empty_block = rng.random() < 0.35
        if empty_block:
            c.covpix = [rng.randrange(c.ncov)]
        h = [c.line()]
        pix = fill_groups(rng, c, h, ordout, full_only=(red == 'and'))
        if c.kind == 'plain' and c.dtype in ('f8', 'i8', 'i4', 'u4', 'u8') and (forced_big or rng.random() < 0.3) \
                and red in ('std', 'std', 'mean', 'median', 'max', 'min', 'wmean'):
            # values with a LARGE common offset (their squares are not representable: a one-pass
            # E[x^2] - E[x]^2 variance cancels catastrophically; seeded change C07d), half of the time all
            # EQUAL (std exactly 0 for every group size, 3 of 4 valid children included)
            big = rng.choice([2 ** 27 + 1, 10 ** 9 + 7] + ([] if c.dtype.startswith('u') else [-(2 ** 27 + 1)]))
            spread = rng.choice([0, 0, 3])
            for i, ln in enumerate(h):
                if ln.startswith('upd m op=replace') and ' vals=' in ln:
                    head, vals = ln.rsplit(' vals=', 1)
                    h[i] = head + ' vals=' + ','.join(str(big + rng.randint(0, spread)) for _ in vals.split(','))
        if rng.random() < 0.2 and pix and red != 'and':
            h.append("upd m op=replace none=1 pix=%s" % ','.join(map(str, rng.sample(pix, max(1, len(pix) // 4)))))
        wtxt = ''
        if red == 'wmean' or rng.random() < 0.1:
            w = gen.MapCfg('w', 'plain', c.covord, c.spord, dtype=rng.choice(['f4', 'f8']))
            if empty_block and rng.random() < 0.5:
                w.covpix = [rng.randrange(c.ncov)]
            h.append(w.line())
            h.append('valid m')
            # same valid set; either filled in another order (shuffled blocks) or in the SAME order as m
            # (same listing order, but the empty blocks sit elsewhere / are absent)
            h.append('WFILL_SAME' if rng.random() < 0.5 else 'WFILL')
            wtxt = ' w=w'
        h.append('deg m r=d ord=%d red=%s%s' % (ordout, red, wtxt))
        h += ['info d', 'state d', 'vals d', 'valid d', 'covmask d', 'state m', 'vals m']
        if wtxt:
            h += ['state w', 'vals w', 'valid w']
        # the result is a first-class map: it accepts an update that grows it
        h += [gen.upd_line(rng, gen.MapCfg('m', c.kind, c.covord, c.spord, dtype=c.dtype, sentinel=c.sentinel,
                                           maxbits=c.maxbits, fields=c.fields, primary=c.primary)),
              'state m']
        out.append(expand_wfill(rng, h))
    return out


def expand_wfill(rng, h):
    """replace WFILL by updates giving the weight map the same valid set as m (tracked from the updates),
    in a different order"""
    if 'WFILL' not in h and 'WFILL_SAME' not in h:
        return h
    valid = {}
    for ln in h:
        t = ln.split()
        if t[0] == 'upd' and t[1] == 'm':
            pix = [p for p in next(x for x in t if x.startswith('pix='))[4:].split(',') if p != '_']
            if 'none=1' in t:
                for p in pix:
                    valid.pop(p, None)
            else:
                for p in pix:
                    valid[p] = True
    pix = list(valid.keys())
    rng.shuffle(pix)
    out = []
    for ln in h:
        if ln == 'WFILL_SAME':
            # replay m's own update calls on w with weight values (cleared pixels are cleared too)
            for l2 in h:
                t = l2.split()
                if t[0] == 'upd' and t[1] == 'm':
                    ptok = next(x for x in t if x.startswith('pix='))
                    if ptok == 'pix=_':
                        continue
                    npx = len(ptok[4:].split(','))
                    if 'none=1' in t:
                        out.append('upd w op=replace none=1 %s' % ptok)
                    else:
                        out.append('upd w op=replace %s vals=%s' % (
                            ptok, ','.join(rng.choice(['1', '2', '3', '1^1', '5', '1^2']) for _ in range(npx))))
        elif ln == 'WFILL':
            half = len(pix) // 2
            for ch in (pix[half:], pix[:half]):
                if ch:
                    out.append("upd w op=replace pix=%s vals=%s" % (
                        ','.join(ch), ','.join(rng.choice(['1', '2', '3', '1^1', '5', '1^2']) for _ in ch)))
        else:
            out.append(ln)
    return out


def nontrivial(h):
    return any(ln.startswith('deg ') for ln in h)
