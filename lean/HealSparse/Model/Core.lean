/-
  Core of the healsparse model: configuration, the two-level state
  (coverage index + sparse storage), block arithmetic, the dense view `abs`,
  and the layout invariant `Inv` of docs/filespec.rst.

  Mirrors: healsparse/healSparseCoverage.py, healsparse/healSparseMap.py
  (get_values_pix index arithmetic).  Core Lean only; no Mathlib.
-/
namespace HS

/-- Resolution parameters: `ncov = 12*nside_coverage^2`, `nfine = 2^shift`
    sparse pixels per coverage pixel (`shift = bit_shift`). -/
structure Cfg where
  ncov  : Nat
  shift : Nat
deriving Repr, DecidableEq

def Cfg.nfine (c : Cfg) : Nat := 2 ^ c.shift
def Cfg.npix  (c : Cfg) : Nat := c.ncov * c.nfine

theorem Cfg.nfine_pos (c : Cfg) : 0 < c.nfine := Nat.two_pow_pos _

/-- Cell-type parameters: the sentinel (blank cell) and the validity test. -/
structure VCfg (V : Type) where
  sentinel : V
  valid    : V → Bool

/-- numpy read with an explicit default (only used where the index is in range
    under `Inv`; the driver reports an error otherwise). -/
@[inline] def rd {α : Type} (a : Array α) (i : Nat) (d : α) : α := (a[i]?).getD d

/-- A map: `cov` = `_cov_map._cov_index_map` (int64 offsets, may be negative),
    `sp` = `_sparse_map` (flat storage, blocks of `nfine` cells). -/
structure State (V : Type) where
  cov : Array Int
  sp  : Array V
deriving Repr

variable {V : Type}

/-- `cov_index_map + arange(ncov)*nfine` : start cell of coverage pixel `k`'s block. -/
def blockStart (c : Cfg) (s : State V) (k : Nat) : Int :=
  rd s.cov k 0 + ((k * c.nfine : Nat) : Int)

/-- `coverage_mask[k]`. -/
def covered (c : Cfg) (s : State V) (k : Nat) : Bool :=
  decide (((c.nfine : Nat) : Int) ≤ blockStart c s k)

/-- Storage index of sparse pixel `p`: `p + cov_index_map[p >> bit_shift]`. -/
def lookup (c : Cfg) (s : State V) (p : Nat) : Int :=
  (p : Int) + rd s.cov (p >>> c.shift) 0

/-- The dense view: what `get_values_pix(p)` returns. -/
def abs (c : Cfg) (vc : VCfg V) (s : State V) (p : Nat) : V :=
  rd s.sp (lookup c s p).toNat vc.sentinel

/-- Number of data blocks (storage blocks excluding the overflow block). -/
def nblk (c : Cfg) (s : State V) : Nat := s.sp.size / c.nfine - 1

/-- The published layout (docs/filespec.rst), as a decidable proposition. -/
def Inv [DecidableEq V] (c : Cfg) (vc : VCfg V) (s : State V) : Prop :=
  s.cov.size = c.ncov ∧
  s.sp.size = (nblk c s + 1) * c.nfine ∧
  (∀ i, i < c.nfine → s.sp[i]? = some vc.sentinel) ∧
  (∀ k, k < c.ncov → blockStart c s k = 0 ∨
      (((c.nfine : Nat) : Int) ≤ blockStart c s k ∧
       blockStart c s k % ((c.nfine : Nat) : Int) = 0 ∧
       blockStart c s k < ((s.sp.size : Nat) : Int))) ∧
  (∀ k, k < c.ncov → ∀ k', k' < c.ncov →
      ((c.nfine : Nat) : Int) ≤ blockStart c s k → blockStart c s k = blockStart c s k' → k = k') ∧
  (∀ b, b < nblk c s → ∃ k, k < c.ncov ∧ blockStart c s k = (((b + 1) * c.nfine : Nat) : Int))

instance [DecidableEq V] (c : Cfg) (vc : VCfg V) (s : State V) : Decidable (Inv c vc s) := by
  unfold Inv; infer_instance

/-- Executable layout check, run by the driver on states exported from the real code. -/
def checkInv [DecidableEq V] (c : Cfg) (vc : VCfg V) (s : State V) : Bool := decide (Inv c vc s)

/-- Which clause of `Inv` fails first (diagnostics for replay files). -/
def invFailure [DecidableEq V] (c : Cfg) (vc : VCfg V) (s : State V) : String :=
  if ¬ s.cov.size = c.ncov then "covsz"
  else if ¬ s.sp.size = (nblk c s + 1) * c.nfine then "spsz"
  else if ¬ (∀ i, i < c.nfine → s.sp[i]? = some vc.sentinel) then "overflow"
  else if ¬ (∀ k, k < c.ncov → blockStart c s k = 0 ∨
      (((c.nfine : Nat) : Int) ≤ blockStart c s k ∧
       blockStart c s k % ((c.nfine : Nat) : Int) = 0 ∧
       blockStart c s k < ((s.sp.size : Nat) : Int))) then "blk"
  else if ¬ (∀ k, k < c.ncov → ∀ k', k' < c.ncov →
      ((c.nfine : Nat) : Int) ≤ blockStart c s k → blockStart c s k = blockStart c s k' → k = k') then "inj"
  else if ¬ (∀ b, b < nblk c s → ∃ k, k < c.ncov ∧ blockStart c s k = (((b + 1) * c.nfine : Nat) : Int)) then "onto"
  else "ok"

/-- `_block_to_cov_index`: covered coverage pixels sorted by block number.
    Entry `b` is the coverage pixel whose block is block `b+1`. -/
def blockToCov (c : Cfg) (s : State V) : Array Nat :=
  (Array.range (nblk c s)).map fun b =>
    ((List.range c.ncov).find? fun k =>
        blockStart c s k == (((b + 1) * c.nfine : Nat) : Int)).getD 0

/-- numpy `ufunc.at` / fancy assignment: sequential read-modify-write in list order. -/
def scatter {W : Type} (g : V → W → V) (a : Array V) (upd : List (Nat × W)) : Array V :=
  upd.foldl (fun a iw => a.modify iw.1 (fun x => g x iw.2)) a

end HS
