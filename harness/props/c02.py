"""C02 — all validity accounting interfaces agree, at every point in a map's history."""
import gen

PID = 'C02'
RULE = ("histories over every map kind in which every mutator call is wrapped query-mutate-query: n_valid (cached) "
        "is read before and after each mutation, and after each step a random subset of the eleven accounting "
        "observers (valid_pixels, valid mask, per-coverage-pixel iterators and sub-maps, n_valid / area / __str__, "
        "coverage_map, coverage_mask, fracdet_map at every permitted order, valid_pixels_single_covpix) is compared "
        "with the Lean model; coverage grows in shuffled order and cov_pixels pre-allocation leaves empty blocks; "
        "non-trivial = a mutator executed while the n_valid cache is warm")
ASSUMPTIONS = ["floating coverage fractions are compared as exact integer counts (fraction * nfine)"]


def observers(rng, c, h, all_=False):
    n = c.name
    obs = [
        'valid %s path=list' % n, 'valid %s path=mask' % n, 'valid %s path=iter' % n,
        'valid %s path=covpix_maps' % n, 'valid %s path=pos' % n,
        'nvalid %s path=n_valid' % n, 'nvalid %s path=area' % n, 'nvalid %s path=str' % n,
        'covmap %s' % n, 'covmask %s' % n,
        'vpsc %s k=%d' % (n, rng.randrange(c.ncov)),
    ]
    picks = obs if all_ else rng.sample(obs, rng.randint(2, 5))
    h.extend(picks)
    if all_ or rng.random() < 0.4:
        o = rng.randint(c.covord, c.spord)
        h.append('fracdet r=fd %s ord=%d' % (n, o))
        h.append('vals fd')
        h.append('covmask fd')
        h.append('state fd')


def mutator(rng, c, focus, h):
    """one call of a mutating entry point (appends to h; the caller wraps it query-mutate-query)"""
    n = c.name
    r = rng.random()
    if r < 0.4:
        h.append(gen.upd_line(rng, c, focus=focus))
    elif r < 0.5:
        h.append(gen.updr_line(rng, c, focus=focus))
    elif r < 0.58 and c.kind != 'rec':
        h.append(gen.geom_line(rng, c, mode='ior'))           # geometry operators in place
    elif c.kind == 'wide':
        W = c.nbytes * 8
        pix = gen.rand_pixels(rng, c, unique=False, focus=focus)
        if r < 0.8:
            h.append('bits %s mode=%s pix=%s bits=%s' % (n, rng.choice(['set', 'clear']), ','.join(map(str, pix)) or '_',
                                                          ','.join(str(rng.randrange(W)) for _ in range(2))))
        else:
            h.append(gen.scalar_op_line(rng, c, inplace=True))
    elif c.is_bool:
        if r < 0.7:
            h.append('inv %s inplace=1' % n)
        elif r < 0.8:
            h.append('bop %s op=%s const=%s inplace=1' % (n, rng.choice(['and', 'or', 'xor']), rng.choice('TF')))
        elif r < 0.88 and c.sentinel in ('default', 'F'):
            # the map combined with ITSELF (m ^= m empties it: whatever the operation looks up on its operand
            # after it has reset its own cache must not come back as a stale count — seeded change C02f)
            h.append('bop %s op=%s rhs=%s inplace=1' % (n, rng.choice(['xor', 'xor', 'and', 'or']), n))
        else:
            # operand map built on the fly (same configuration, ordinary boolean storage)
            o = gen.MapCfg('o', 'plain', c.covord, c.spord, dtype='b1')
            h.append(o.line())
            h.append(gen.upd_line(rng, o, focus=focus))
            h.append('bop %s op=%s rhs=o inplace=1' % (n, rng.choice(['and', 'or', 'xor'])))
    elif c.kind == 'rec':
        # write (or clear) through a freshly taken view of the primary field
        f = c.single_field(rng, primary_bias=0.7)
        if f is None:
            h.append(gen.upd_line(rng, c, focus=focus))
            return
        h.append('single %s r=v field=%d' % (n, f))
        pix = gen.rand_pixels(rng, c, n=rng.choice([1, 2, 4]), focus=focus)
        fc = gen.MapCfg('v', 'plain', c.covord, c.spord, dtype=c.fields[f])
        if rng.random() < 0.5:
            h.append('upd v op=replace none=1 pix=%s' % (','.join(map(str, pix)) or '_'))
        else:
            h.append('upd v op=replace pix=%s val=%s' % (','.join(map(str, pix)) or '_', fc.val(rng)))
        if c.covpix and rng.random() < 0.5:
            # the view stays alive while the PARENT is written (inside a pre-allocated coverage pixel, so the
            # shared storage is not reallocated): the view's counts must follow
            k = rng.choice(c.covpix)
            q = sorted(set(k * c.nfine + rng.randrange(c.nfine) for _ in range(rng.choice([1, 2, 3]))))
            h += ['nvalid v', 'upd %s op=replace pix=%s val=%s' % (n, ','.join(map(str, q)), c.val(rng)),
                  'nvalid v', 'valid v path=list', 'nvalid v path=area']
    elif r < 0.8 or (c.kind == 'plain' and c.is_flt and c.sentinel in ('0', '1^1', '-9999') and r < 0.93):
        # (float maps with a reachable sentinel: arithmetic that lands on it changes the valid set)
        h.append(gen.scalar_op_line(rng, c, inplace=True))
    else:
        k = gen.MapCfg('k', 'plain', c.covord, c.spord, dtype=rng.choice(['i2', 'u1', 'i8']), sentinel='0')
        h.append(k.line())
        h.append(gen.upd_line(rng, k, focus=focus))
        h.append('mask %s by=k inplace=1' % n)


def histories(rng, tier):
    n = 350 if tier == 'quick' else 2500
    out = []
    for _ in range(n):
        c = gen.rand_cfg(rng, max_npix=768)
        focus = rng.sample(range(c.ncov), min(c.ncov, rng.randint(2, 5)))
        h = [c.line()]
        observers(rng, c, h)
        for _ in range(rng.randint(3, 10)):
            if rng.random() < 0.04:
                h += gen.roundtrip_lines(rng, c.name)
            if rng.random() < 0.8:
                h.append('nvalid %s' % c.name)          # warm the cache
            mutator(rng, c, focus, h)
            h.append('nvalid %s' % c.name)
            observers(rng, c, h)
        observers(rng, c, h, all_=True)
        out.append(h)
    return out


def nontrivial(h):
    warm = False
    for ln in h:
        t = ln.split()
        if t[0] == 'nvalid':
            warm = True
        elif t[0] in ('upd', 'updr', 'sop', 'bop', 'inv', 'mask', 'bits', 'geom') and warm:
            return True
    return False
