import HealSparse.Props.C02
#print axioms HS.C02.validPixels_spec
#print axioms HS.C02.nValid_eq
#print axioms HS.C02.coverageCounts_eq
#print axioms HS.C02.vpsc_eq
#print axioms HS.C02.coverageMask_complete
#print axioms HS.C02.fracdet_inv
#print axioms HS.C02.fracdet_eq
#print axioms HS.C02.fracdet_covered
#print axioms HS.C02.fracdet_cov_eq_coverageCounts
#print axioms HS.C02.cache_coherent
