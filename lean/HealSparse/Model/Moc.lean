/-
  Executable model of the MOC (multi-order coverage) writer and reader:
  `_write_moc_fits` (healsparse/io_map_fits.py:635-711) and
  `_read_moc_fits`  (healsparse/io_map_fits.py:166-202).

  Core Lean only (this file is linked into the native driver).

  Conventions.  HEALPix NEST numbering: the parent of pixel `p` one level up is `p >>> 2`;
  pixel `p` at order `o` has UNIQ code `4 * 4 ^ o + p`.

  What is modelled, statement by statement:
  * writer: `uniq = 4*4**max_order + pixels`; the `float64` map of child counts
    (`uniq_map[pixels] = 1.0`, then `degrade(..., reduction='sum')` one level per iteration) is a
    hash map `pixel ↦ count` (absent = 0; counts are exact integers far below 2^53);
    `pix_shift`, the `covered` test (the comparator is a parameter: `==` in the code as it is
    now, `np.isclose` before the fix), the early `break`, the replacement `uniq[covered] = …`,
    and the final `np.unique`.
  * reader: `order = floor(log2(uniq // 4)).astype(int64) // 2`,
    `index = uniq - 4*(4**order)`, `max_order = max(order)`, expansion of every cell to
    `max_order`, `map[sort(pixels)] = True`; the observable is `(max_order, valid_pixels)`.
    `order` is an `int64` array in the code as it is now, so `4*(4**order)` and
    `4**(max_order - uniq_order)` are exact for every HEALPix order (≤ 29); `mocRead` uses exact
    arithmetic.  Before the fix ("reading a MOC with cells of order 15 or more") `order` was
    `int32` and numpy evaluated both expressions in 32-bit arithmetic, silently wrapping: for
    `order ≥ 15` (nside ≥ 32768) the subtracted offset was 0 instead of `4*4^order`.  That
    pre-fix reader is kept as `mocReadI32` (used only by the Witness theorems of C17); both are
    instances of `mocReadWith`.

  Not modelled: the FITS container, the `MOCORDER` header, the `TFORM1` patch; `np.log2` on
  float64 is taken to be the exact floor of the binary logarithm (true for `uniq < 2^50`).
  Preconditions of the Python code that the model does not check: `pixels` are distinct
  (they are `valid_pixels`), non-empty (`np.max` of an empty array raises), `uniq ≥ 4`.
-/
import Std.Data.HashMap
namespace HS

/-! ### UNIQ coding -/

/-- UNIQ code of pixel `p` at order `o`. -/
def uniqOf (o p : Nat) : Nat := 4 * 4 ^ o + p

/-- `floor(log2(u // 4)) // 2` — the order of a UNIQ code. -/
def uniqOrder (u : Nat) : Nat := Nat.log2 (u / 4) / 2

/-- The index of a UNIQ code as the MOC standard defines it (exact arithmetic). -/
def uniqIndex (u : Nat) : Nat := u - 4 * 4 ^ uniqOrder u

/-- Result of a numpy `int32` computation whose exact value is `x`, for the values that occur
    in the PRE-FIX reader.  All of them are powers of two `2^k` with `k` even, so the wrapped
    value `x mod 2^32` is never in the negative half `[2^31, 2^32)`: it is `x` itself when
    `x < 2^31` and `0` otherwise. -/
def wrap32 (x : Nat) : Nat := x % 2 ^ 32

/-- `4*(4**order)` as numpy computed it for an `int32` `order` (pre-fix reader). -/
def uniqBaseI32 (o : Nat) : Nat := wrap32 (4 * wrap32 (4 ^ o))

/-- The index of a UNIQ code as the PRE-FIX `_read_moc_fits` computed it. -/
def uniqIndexI32 (u : Nat) : Nat := u - uniqBaseI32 (uniqOrder u)

/-! ### The map of child counts -/

abbrev CountMap := Std.HashMap Nat Nat

/-- Value of the count map at pixel `q` (pixels not stored read 0). -/
@[inline] def cmGet (m : CountMap) (q : Nat) : Nat := m.getD q 0

/-- `uniq_map[pixels] = 1.0` on an empty map. -/
def cmInit (pixels : List Nat) : CountMap :=
  pixels.foldl (fun m p => m.insert p 1) ∅

/-- `uniq_map.degrade(nside/2, reduction='sum')`: every stored pixel adds its count to its
    parent `k >>> 2`, so a parent ends up with the sum of its four children. -/
def cmDegrade (m : CountMap) : CountMap :=
  m.fold (fun acc k v => acc.insert (k >>> 2) (cmGet acc (k >>> 2) + v)) ∅

/-! ### Fullness comparators -/

/-- The test of the code as it is now: `uniq_map[pix_shift] == 4**(max_order - uniq_order)`. -/
def exactEq (count target : Nat) : Bool := count == target

/-- The test of the code before the fix: `np.isclose(count, target)` with the default
    `rtol = 1e-5`, `atol = 1e-8`, i.e. `|count - target| ≤ 1e-8 + 1e-5 * target`, on exact
    integer counts (scaled by `1e8`).  In every reachable state `count ≤ target`, where
    this is `(target - count) * 10^8 ≤ 1 + 1000 * target`. -/
def iscloseF32 (count target : Nat) : Bool :=
  decide (((target - count) + (count - target)) * 100000000 ≤ 1 + 1000 * target)

/-! ### `np.unique` -/

/-- Drop adjacent repetitions of a list, tail-recursively; `acc` is the reversed output. -/
def dedupLoop : List Nat → List Nat → List Nat
  | acc, [] => acc.reverse
  | [], x :: t => dedupLoop [x] t
  | y :: acc, x :: t => if y == x then dedupLoop (y :: acc) t else dedupLoop (x :: y :: acc) t

/-- `np.unique`: sorted ascending, duplicates removed. -/
def npUnique (l : List Nat) : List Nat :=
  dedupLoop [] (l.mergeSort (fun a b => decide (a ≤ b)))

/-! ### Writer -/

/-- The loop `for uniq_order in range(max_order - 1, min_uniq_order - 1, -1)`.
    Arguments: remaining iterations, `d = max_order - uniq_order` of the next iteration,
    the count map one level finer than `uniq_order`, and the parallel arrays
    `pixels`/`uniq` zipped into one list of pairs. -/
def mocLoop (full : Nat → Nat → Bool) (maxOrd : Nat) :
    Nat → Nat → CountMap → List (Nat × Nat) → List (Nat × Nat)
  | 0, _, _, pu => pu
  | rem + 1, d, cm, pu =>
    let uniqOrder := maxOrd - d
    -- uniq_map = uniq_map.degrade(2**uniq_order, reduction='sum')
    let cm' := cmDegrade cm
    -- pix_shift = np.right_shift(pixels, 2*(max_order - uniq_order))
    let sh := 2 * (maxOrd - uniqOrder)
    let target := 4 ^ (maxOrd - uniqOrder)
    -- covered, = (uniq_map[pix_shift] == 4**(max_order - uniq_order)).nonzero()
    let isCov : Nat × Nat → Bool := fun pu => full (cmGet cm' (pu.1 >>> sh)) target
    -- if covered.size == 0: break
    if pu.any isCov = false then pu
    else
      -- uniq[covered] = 4*(4**uniq_order) + pix_shift[covered]
      let base := 4 * 4 ^ uniqOrder
      mocLoop full maxOrd rem (d + 1) cm'
        (pu.map fun x => if isCov x then (x.1, base + (x.1 >>> sh)) else x)

/-- `_write_moc_fits` with the fullness comparator as a parameter: the UNIQ column written. -/
def mocWriteWith (full : Nat → Nat → Bool) (maxOrd minOrd : Nat) (pixels : List Nat) : List Nat :=
  let base := 4 * 4 ^ maxOrd
  -- uniq = 4*(4**max_order) + pixels ; uniq_map[pixels] = 1.0
  let pu := mocLoop full maxOrd (maxOrd - minOrd) 1 (cmInit pixels)
    (pixels.map fun p => (p, base + p))
  -- uniq = np.unique(uniq)
  npUnique (pu.map (·.2))

/-- `_write_moc_fits` as it is in the code (exact comparison). -/
def mocWrite (maxOrd minOrd : Nat) (pixels : List Nat) : List Nat :=
  mocWriteWith exactEq maxOrd minOrd pixels

/-! ### Reader -/

/-- `_read_moc_fits`, parameterised by how `4*(4**order)` (`base`) and
    `4**(max_order - uniq_order)` (`pw`) are evaluated:
    `(max_order, valid pixels of the boolean map, ascending)`. -/
def mocReadWith (base pw : Nat → Nat) (uniq : List Nat) : Nat × List Nat :=
  -- order = floor(log2(uniq//4)).astype(int)//2 ; index = uniq - 4*(4**order)
  let cells := uniq.map fun u => (uniqOrder u, u - base (uniqOrder u))
  -- max_order = np.max(order)
  let maxOrder := (cells.map (·.1)).foldl max 0
  -- left_shift(uniq_index, 2*(max_order - uniq_order)) + arange(4**(max_order - uniq_order))
  let pixels := cells.flatMap fun c =>
    let sh := 2 * (maxOrder - c.1)
    let start := c.2 <<< sh
    (List.range (pw (maxOrder - c.1))).map fun j => start + j
  -- healsparse_map[np.sort(pixels)] = True ; observable: valid_pixels
  (maxOrder, npUnique pixels)

/-- `_read_moc_fits` as it is in the code (`int64` orders: exact arithmetic). -/
def mocRead (uniq : List Nat) : Nat × List Nat :=
  mocReadWith (fun o => 4 * 4 ^ o) (fun k => 4 ^ k) uniq

/-- `_read_moc_fits` before the fix (`int32` orders: 32-bit wrap).  Witness use only. -/
def mocReadI32 (uniq : List Nat) : Nat × List Nat :=
  mocReadWith uniqBaseI32 (fun k => wrap32 (4 ^ k)) uniq

end HS
