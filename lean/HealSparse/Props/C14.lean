/-
  C14 — record-array maps keep all fields under the validity of the primary field.
  Property theorems only (helpers in HealSparse/Lemmas).  Record cells are abstract:
  a cell type `R` with a field lens (`get`, `set`).
-/
import HealSparse.Lemmas.Core
import HealSparse.Lemmas.Coverage
import HealSparse.Lemmas.ScalarOps
import HealSparse.Model.Api
import HealSparse.Props.C04
import HealSparse.Props.C01
import HealSparse.Props.C12
import HealSparse.Lemmas.RecArray
import HealSparse.Lemmas.ApiRecord
import HealSparse.Props.C02
namespace HS
namespace C14

/-- a field of a record cell -/
structure Lens (R F : Type) where
  get : R → F
  set : R → F → R
  get_set : ∀ r x, get (set r x) = x
  set_get : ∀ r, set r (get r) = r
  set_set : ∀ r x y, set (set r x) y = set r y

variable {R F : Type} [DecidableEq R] [DecidableEq F]

/-- the storage a field view sees: the field column, same coverage index (shared buffer) -/
def viewState (l : Lens R F) (s : State R) : State F := ⟨s.cov, s.sp.map l.get⟩

/-- writing a (same-size) field column back into the records -/
def writeBack (l : Lens R F) (s : State R) (col : Array F) : State R :=
  ⟨s.cov, s.sp.mapIdx fun j r => l.set r (rd col j (l.get r))⟩

/-- On the concrete cell type: a record pixel is valid iff its PRIMARY field differs from the sentinel. -/
theorem rec_valid_iff_primary (fs : List DT) (pr : Nat) (sent : Val) (l : List (Int × Nat)) :
    (Kind.recd fs pr).valid sent (.recd l) = (l.getD pr (0, 0) != sent.numD) := by
  rfl

/-- A whole-record read returns every field exactly as last written (replace with distinct
    pixels): the cell written is the cell read, for every block layout and growth order. -/
theorem replace_reads_back (c : Cfg) (vc : VCfg R) (s : State R) (pv : List (Nat × R)) (na : Bool)
    (h : Inv c vc s) (hL : ∀ qw ∈ pv, qw.1 < c.npix) (hnd : (pv.map (·.1)).Nodup)
    (p : Nat) (v : R) (hp : (p, v) ∈ pv) (hc : na = true → covered c s (p >>> c.shift) = true) :
    abs c vc (updatePix c vc s none (fun _ (w : R) => w) pv na) p = v := by
  have hL' : ∀ qw ∈ stageList false pv, qw.1 < c.npix := by
    intro qw hq
    obtain ⟨pw, hpw, he⟩ := stageList_fst_mem false pv qw hq
    rw [← he]; exact hL pw hpw
  have hpl : p < c.npix := hL (p, v) hp
  show abs c vc (updateCore c vc s (stageOp id fun _ (w : R) => w) (stageList false pv) na) p = v
  rw [C01.updateCore_refines c vc s _ _ na h hL' p hpl]
  unfold denseUpdate
  have hg : (na && !covered c s (p >>> c.shift)) = false := by
    cases na with
    | false => rfl
    | true => rw [hc rfl]; rfl
  rw [hg]
  exact denseFold_replace_nodup pv hnd p v hp _

/-- `get_single(field, copy=True)`: the field's values at exactly the parent's valid pixels,
    the field map's sentinel everywhere else; well-formed, same coverage. -/
theorem field_copy_spec (c : Cfg) (vc : VCfg R) (vcF : VCfg F) (l : Lens R F) (s : State R)
    (h : Inv c vc s) (hv : vc.valid vc.sentinel = false) :
    Inv c vcF (astypeMap vc s l.get vcF.sentinel) ∧
    (∀ p, p < c.npix → abs c vcF (astypeMap vc s l.get vcF.sentinel) p
        = if vc.valid (abs c vc s p) then l.get (abs c vc s p) else vcF.sentinel) := by
  have := C12.astype_spec c vc vcF s l.get h hv
  exact ⟨this.1, this.2.1⟩

/-- A field view reads the stored field of every pixel; it is a well-formed map over the
    field type whose sentinel is the blank record's field; pixels holding the blank record
    (never written, or cleared with None) are invalid in the view. -/
theorem field_view_spec (c : Cfg) (vc : VCfg R) (vcF : VCfg F) (l : Lens R F) (s : State R)
    (h : Inv c vc s) (hblank : l.get vc.sentinel = vcF.sentinel) :
    Inv c vcF (viewState l s) ∧
    (∀ p, p < c.npix → abs c vcF (viewState l s) p = l.get (abs c vc s p)) ∧
    (∀ k, covered c (viewState l s) k = covered c s k) := by
  exact ⟨inv_mapCells c vc vcF s l.get h hblank,
    fun p hp => abs_mapCells c vc vcF s l.get h p hp,
    fun k => mapCells_covered c s l.get k⟩

/-- **Writes through a view** (addressed pixels inside the coverage, as the view guard
    ensures): the parent keeps its layout, exactly the viewed field of exactly the addressed
    pixels changes — to the operation folded over the values written — and every other field
    and every other pixel is unchanged. -/
theorem view_write_spec {W : Type} (c : Cfg) (vc : VCfg R) (vcF : VCfg F) (l : Lens R F) (s : State R)
    (g : F → W → F) (L : List (Nat × W)) (na : Bool)
    (h : Inv c vc s) (hblank : l.get vc.sentinel = vcF.sentinel)
    (hL : ∀ qw ∈ L, qw.1 < c.npix ∧ covered c s (qw.1 >>> c.shift) = true) :
    let v' := updateCore c vcF (viewState l s) g L na
    v'.cov = s.cov ∧ v'.sp.size = s.sp.size ∧
    Inv c vc (writeBack l s v'.sp) ∧
    (∀ p, p < c.npix → abs c vc (writeBack l s v'.sp) p
        = l.set (abs c vc s p) (denseFold g L p (l.get (abs c vc s p)))) := by
  exact writeBack_spec l.get l.set l.set_get c vc vcF s g L na h hblank hL

/-- pixels not addressed are untouched in every field -/
theorem view_write_frame {W : Type} (c : Cfg) (vc : VCfg R) (vcF : VCfg F) (l : Lens R F) (s : State R)
    (g : F → W → F) (L : List (Nat × W)) (na : Bool)
    (h : Inv c vc s) (hblank : l.get vc.sentinel = vcF.sentinel)
    (hL : ∀ qw ∈ L, qw.1 < c.npix ∧ covered c s (qw.1 >>> c.shift) = true)
    (p : Nat) (hp : p < c.npix) (hnot : ∀ qw ∈ L, qw.1 ≠ p) :
    abs c vc (writeBack l s (updateCore c vcF (viewState l s) g L na).sp) p = abs c vc s p := by
  rw [(view_write_spec c vc vcF l s g L na h hblank hL).2.2.2 p hp, denseFold_none g L p _ hnot,
    l.set_get]

/-- **The view guard**: a view whose sentinel is the blank record's field value rejects any
    write that addresses a pixel outside the coverage or holding the blank record (so no new
    valid pixel can be created through it); the parent is not touched by a rejected call. -/
theorem view_guard_rejects (m : MapObj) (op : String) (pix : List Nat) (vals : Option (List Val))
    (single : Bool) (hview : m.view.isSome = true)
    (hbad : ∃ p ∈ pix, p < m.npix ∧ m.abs p = m.sent)
    (r : MapObj) : apiUpdate m op pix vals single ≠ .ok r := by
  obtain ⟨p, hp, _, hab⟩ := hbad
  exact apiUpdate_view_rejects m op pix vals single hview p hp hab r

/-- non-vacuity: a two-field record lens on pairs -/
def pairFst : Lens (Int × Int) Int :=
  ⟨Prod.fst, fun r x => (x, r.2), fun _ _ => rfl, fun _ => rfl, fun _ _ _ => rfl⟩

example : Inv ⟨3, 1⟩ (⟨(-1, -9), fun r => r.1 != -1⟩ : VCfg (Int × Int))
    ⟨#[4, -2, -2], #[(-1, -9), (-1, -9), (7, 1), (-1, -9), (-1, -9), (9, 2)]⟩ := by decide

/-! ## C14 at the API level

The theorems above are about the generic core functions over an abstract record cell.  Below:
the same properties of the API functions themselves (`apiUpdate` on record maps,
`apiGetSingleCopy`, `materializeView` / `writeBackView`) and of the protocol driver (`single`,
`upd`, `updr`, `World.get?`, `World.put`), validation and error behaviour included
(Lemmas/ApiRecord.lean).  `m.validAt p` = `p` is a valid pixel of `m`; `m.covd k` =
`coverage_mask[k]`; `recField i v` = field `i` of the record `v` (as a number);
`recSetField i v x` = `v` with field `i` set to `x`. -/

open ApiRecord ApiRanges

/-- **(1) validity**: a pixel of a record map is valid iff the PRIMARY field of its record differs
    from the sentinel -/
theorem api_rec_valid {m : MapObj} {fs : List DT} {pr : Nat} (hk : m.kind = .recd fs pr)
    {p : Nat} {l : List (Int × Nat)} (hl : m.abs p = .recd l) :
    m.validAt p = true ↔ l.getD pr (0, 0) ≠ m.sent.numD := by
  unfold MapObj.validAt MapObj.vc
  rw [hk, hl]
  show (Kind.recd fs pr).valid m.sent (.recd l) = true ↔ _
  rw [valid_recd]
  simp

/-- **(1) whole-record `update_values_pix(pix, values)`**: accepted only for distinct in-range
    pixels; afterwards every addressed pixel shows EXACTLY the record written (every field),
    every other pixel is unchanged, the coverage grows by the coverage pixels addressed;
    kind, sentinel, orders kept -/
theorem api_rec_replace {m m' : MapObj} {pix : List Nat} {vs : List Val} {single : Bool}
    (hm : m.Ok) (hne : pix ≠ []) (h : apiUpdate m "replace" pix (some vs) single = .ok m') :
    m'.Ok ∧ m'.kind = m.kind ∧ m'.sent = m.sent ∧ pix.Nodup ∧ (∀ p ∈ pix, p < m.npix) ∧
    (∀ qw ∈ updPv m pix (some vs) single, m'.abs qw.1 = qw.2) ∧
    (∀ p, p < m.npix → p ∉ pix → m'.abs p = m.abs p) ∧
    (∀ k, k < m.c.ncov → m'.covd k = (m.covd k || pix.any fun p => p >>> m.c.shift == k)) := by
  obtain ⟨_, h2, h3, _, _, h6, h7, h8, h9, h10⟩ := replace_spec hm.1 hne h
  exact ⟨(Ok.apiUpdate hm h).1, h2, h3, h6, h7, h8, h9, h10⟩

/-- … in particular one record `v` written to all of `pix` -/
theorem api_rec_replace_scalar {m m' : MapObj} {pix : List Nat} {v : Val}
    (hm : m.Ok) (h : apiUpdate m "replace" pix (some [v]) true = .ok m') :
    ∀ p ∈ pix, m'.abs p = v := by
  intro p hp
  have hne : pix ≠ [] := by intro he; rw [he] at hp; cases hp
  exact (api_rec_replace hm hne h).2.2.2.2.2.1 (p, v) (List.mem_map.2 ⟨p, hp, rfl⟩)

/-- **(1) a record whose primary IS the sentinel is stored all the same**: the pixel is then
    invalid, yet it shows every field written (a single-field COPY hides them, a VIEW shows them:
    `api_copy_vs_view`) -/
theorem api_rec_replace_invalid_primary {m m' : MapObj} {pix : List Nat} {l : List (Int × Nat)}
    {fs : List DT} {pr : Nat} (hm : m.Ok) (hk : m.kind = .recd fs pr)
    (h : apiUpdate m "replace" pix (some [.recd l]) true = .ok m')
    (hl : l.getD pr (0, 0) = m.sent.numD) :
    ∀ p ∈ pix, m'.abs p = .recd l ∧ m'.validAt p = false := by
  intro p hp
  have hne : pix ≠ [] := by intro he; rw [he] at hp; cases hp
  have habs := api_rec_replace_scalar hm h p hp
  obtain ⟨_, hk', hs', _⟩ := api_rec_replace hm hne h
  refine ⟨habs, ?_⟩
  have hiff := api_rec_valid (m := m') (hk'.trans hk) habs
  rw [hs'] at hiff
  cases hv : m'.validAt p with
  | false => rfl
  | true => exact absurd hl (hiff.1 hv)

/-- **(1) `update_values_pix(pix, None)`** stores the blank record at every addressed pixel —
    field by field: the sentinel in the primary, each other field its type's default sentinel —,
    changes nothing else and allocates no coverage pixel -/
theorem api_rec_clear {m m' : MapObj} {pix : List Nat} {single : Bool} {fs : List DT} {pr : Nat}
    (hm : m.Ok) (hk : m.kind = .recd fs pr) (hne : pix ≠ [])
    (h : apiUpdate m "replace" pix none single = .ok m') :
    m'.Ok ∧ (∀ p ∈ pix, m'.abs p = (Kind.recd fs pr).blank m.sent ∧ m'.validAt p = false) ∧
    (∀ i dt, fs[i]? = some dt → recField i ((Kind.recd fs pr).blank m.sent) =
        if i = pr then .num m.sent.numD.1 m.sent.numD.2
        else .num dt.defaultSentinel.numD.1 dt.defaultSentinel.numD.2) ∧
    (∀ p, p < m.npix → p ∉ pix → m'.abs p = m.abs p) ∧
    (∀ k, k < m.c.ncov → m'.covd k = m.covd k) := by
  obtain ⟨_, h2, h3, _, _, h6, h7, h8⟩ := clear_spec hm.1 hne h
  have hok := (Ok.apiUpdate hm h).1
  refine ⟨hok, fun p hp => ?_, fun i dt hg => recField_blank m.sent hg, h7, h8⟩
  have habs : m'.abs p = (Kind.recd fs pr).blank m.sent := by rw [h6 p hp, hk]
  refine ⟨habs, ?_⟩
  have hbi := hok.2.1.blankInvalid
  unfold MapObj.BlankInvalid at hbi
  unfold MapObj.validAt
  rw [habs]
  have : m'.vc.sentinel = (Kind.recd fs pr).blank m.sent := by
    unfold MapObj.vc; rw [h2, h3, hk]
  rw [← this]
  exact hbi

/-- **(2) `get_single(key, sentinel, copy=True)`, errors exactly**: `TypeError` iff the map is not
    a record map; `ValueError` iff the field index is outside the record, or the field is not the
    primary and `check_sentinel(field type, override)` refuses the override; the primary field
    keeps the map's sentinel whatever override is given -/
theorem api_single_copy_total (m : MapObj) (i : Nat) (sentinel : Option Val) :
    apiGetSingleCopy m i sentinel =
      match m.kind with
      | .recd fs pr =>
        match fs[i]? with
        | none => .error .value
        | some dt =>
          if i = pr then .ok (copyOf m i dt m.sent)
          else match checkSentinel dt sentinel with
            | .ok s => .ok (copyOf m i dt s)
            | .error e => .error e
      | _ => .error .type :=
  apiGetSingleCopy_eq m i sentinel

/-- **(2) `get_single(copy=True)`**: an `Ok` owning map of kind `plain fs[i]` with the orders and
    the coverage of `m`; at the pixels valid in `m` the stored field, the copy's sentinel
    everywhere else.  **The collision, exactly**: `p` is valid in the copy iff it is valid in `m`
    AND the stored field value differs from the copy's sentinel.  For the primary field: valid in
    the copy ⇔ valid in `m`. -/
theorem api_single_copy {m k : MapObj} {i : Nat} {sentinel : Option Val} (hm : m.Ok)
    (h : apiGetSingleCopy m i sentinel = .ok k) :
    k.Ok ∧ k.view = none ∧ k.covord = m.covord ∧ k.spord = m.spord ∧
    (∃ fs pr dt, m.kind = .recd fs pr ∧ fs[i]? = some dt ∧ k.kind = .plain dt ∧
      ((i = pr ∧ k.sent = m.sent) ∨ (i ≠ pr ∧ checkSentinel dt sentinel = .ok k.sent))) ∧
    (∀ j, k.covd j = m.covd j) ∧
    (∀ p, p < m.npix → k.abs p = if m.validAt p = true then recField i (m.abs p) else k.sent) ∧
    (∀ p, p < m.npix → k.validAt p = (m.validAt p && recField i (m.abs p) != k.sent)) ∧
    (∀ fs pr, m.kind = .recd fs pr → i = pr → ∀ p, p < m.npix → k.validAt p = m.validAt p) := by
  obtain ⟨_, h2, h3, h4, _, h6, h7, h8, h9⟩ := copy_spec hm.1 hm.2.1 h
  obtain ⟨fs, pr, dt, hk, hg, hc, hs⟩ := copy_ok h
  exact ⟨(Ok.apiGetSingleCopy hm h).1, h4, h2, h3, ⟨fs, pr, dt, hk, hg, by rw [hc]; rfl, hs⟩,
    h6, h7, h8, h9⟩

/-- **(3) `single m field=i [sentinel=…] r=v`** (view form), exactly when it is refused:
    `TypeError` — not a record map; `ValueError` — field outside the record, an override the field
    type does not accept, or ANY effective re-sentinelling of a non-primary field; `bad-op` — a
    boolean field (not modelled).  Accepted otherwise, registering a view whose sentinel is the
    map's for the primary field (an override is ignored) and the type's default otherwise. -/
theorem api_single_view_total {w : World} {a : Args} {n : String} {rest : List String} {m : MapObj}
    {i : Nat} {sent : Option Val} (ha : a.pos = n :: rest) (hget : w.get? n = some m)
    (hf : a.nat? "field" = some i) (hs : optVal a "sentinel" = some sent)
    (hc : a.flag "copy" = false) :
    stepArgs w "single" a =
      match m.kind with
      | .recd fs pr =>
        match fs[i]? with
        | none => (w, "err ValueError")
        | some dt =>
          if dt = .bool then (w, "bad-op:single-of-boolean-field")
          else if i = pr then (register w n (a.getD "r" "tmp") m i dt m.sent, "ok")
          else match checkSentinel dt sent with
            | .error _ => (w, "err ValueError")
            | .ok s =>
              if s ≠ dt.defaultSentinel then (w, "err ValueError")
              else (register w n (a.getD "r" "tmp") m i dt s, "ok")
      | _ => (w, "err TypeError") :=
  opSingle_view_eq ha hget hf hs hc

/-- **(3) what the registered view is**: under the name `r` (≠ the parent's) `get?` answers the
    view materialised from the parent's CURRENT storage, and the parent is untouched.  The view
    shows field `i` of the parent's record at EVERY pixel (valid in the parent or not), over the
    parent's coverage; it is valid at `p` iff that value differs from its sentinel; the view of
    the primary field is valid exactly where the parent is.  (`s` is the sentinel
    `api_single_view_total` registers: `hs` holds for the primary field when the map's sentinel
    is a number, and for any other non-boolean field: `viewBlank_primary`, `viewBlank_other`.) -/
theorem api_single_view {w : World} (hw : w.Good) {n r : String} {m : MapObj} {i : Nat} {dt : DT}
    {s : Val} {fs : List DT} {pr : Nat} (hget : w.get? n = some m) (hk : m.kind = .recd fs pr)
    (hg : fs[i]? = some dt) (hb : dt ≠ .bool) (hs : s = viewBlank m i) (hrn : r ≠ n) :
    let w' := register w n r m i dt s
    let v := viewOf m n i dt s none
    w'.get? r = some v ∧ w'.get? n = some m ∧ v.WF ∧ v.kind = .plain dt ∧ v.sent = s ∧
    (∀ q, q < m.npix → v.abs q = recField i (m.abs q)) ∧
    (∀ k, v.covd k = m.covd k) ∧
    (∀ q, q < m.npix → v.validAt q = (recField i (m.abs q) != s)) ∧
    (∀ x e, i = pr → m.sent = .num x e → ∀ q, q < m.npix → v.validAt q = m.validAt q) := by
  intro w' v
  have hmok := hw.get hget
  obtain ⟨g1, g2⟩ := get?_register hget hk hg hb hs hrn
  obtain ⟨_, v2, v3, v4, v5, v6⟩ := view_spec hmok.1 n i dt s none
  refine ⟨g1, g2, v2 hs, rfl, rfl, v3, v4, v5, ?_⟩
  intro x e hip hsn q hq
  subst hip
  have hsm : s = m.sent := by rw [hs]; exact viewBlank_primary hk hg hsn
  exact v6 fs x e hk hsn hsm q hq

/-- **(2)+(3) copy versus view of the same field**: they agree wherever the parent is valid;
    where the parent is INVALID the copy shows its sentinel while the view shows whatever the
    storage holds in that field (after a whole-record write with the primary at the sentinel:
    the value written — `ex_copy_vs_view`) -/
theorem api_copy_vs_view {m k : MapObj} {i : Nat} {sentinel : Option Val} {pn : String} {dt : DT}
    {s : Val} {c : Option Nat} (hm : m.Ok) (h : apiGetSingleCopy m i sentinel = .ok k)
    (p : Nat) (hp : p < m.npix) :
    (m.validAt p = true → k.abs p = (viewOf m pn i dt s c).abs p) ∧
    (m.validAt p = false → k.abs p = k.sent ∧ (viewOf m pn i dt s c).abs p = recField i (m.abs p)) := by
  have h7 := (copy_spec hm.1 hm.2.1 h).2.2.2.2.2.2.1 p hp
  have hv := (view_spec hm.1 pn i dt s c).2.2.1 p hp
  constructor
  · intro hval; rw [h7, if_pos hval, hv]
  · intro hval; rw [h7, hval]; exact ⟨by simp, hv⟩

/-- **(4) `upd v pix=… …` through a view, accepted**: the parent's name then resolves to a
    record map `p'` that is `Ok`, has the parent's kind, sentinel, orders and coverage, a reset
    `n_valid` cache, and in which EXACTLY field `i` of EXACTLY the addressed pixels may differ:
    every pixel not addressed is unchanged, every other field of every pixel is unchanged, and
    field `i` is what the updated view shows (`p'.abs q = recSetField i (p.abs q) (v'.abs q)`);
    every name other than the view's and the parent's is untouched -/
theorem api_view_write {w : World} (hw : w.Good) {a : Args} {vn pn : String} {rest : List String}
    {i : Nat} {v : MapObj} (ha : a.pos = vn :: rest) (hget : w.get? vn = some v)
    (hview : v.view = some (pn, i)) (hok : (stepArgs w "upd" a).2 = "ok") :
    ∃ (p p' v' : MapObj) (pix : List Nat), parseNats (a.getD "pix" "_") = some pix ∧
      (∃ vals single, apiUpdate v (a.getD "op" "replace") pix vals single = .ok v') ∧
      w.get? pn = some p ∧ (stepArgs w "upd" a).1.get? pn = some p' ∧
      p'.Ok ∧ p'.kind = p.kind ∧ p'.sent = p.sent ∧ p'.covord = p.covord ∧ p'.spord = p.spord ∧
      p'.cache = none ∧ (∀ k, p'.covd k = p.covd k) ∧
      (∀ q, q < p.npix → p'.abs q = recSetField i (p.abs q) (v'.abs q)) ∧
      (∀ q, q < p.npix → q ∉ pix → p'.abs q = p.abs q) ∧
      (∀ q, q < p.npix → ∀ j, j ≠ i → recField j (p'.abs q) = recField j (p.abs q)) ∧
      (∀ x, x ≠ vn → x ≠ pn → (stepArgs w "upd" a).1.raw? x = w.raw? x) := by
  have hok' : (opUpd w a).2 = "ok" := hok
  obtain ⟨n, rest', m, m', pix, vals, single, hpos, hg, hpix, hu, he⟩ := opUpd_ok hok'
  rw [ha] at hpos
  cases hpos
  rw [hget] at hg
  cases hg
  obtain ⟨p, p', g1, g2, _, g4, g5, g6, g7, g8, g9, g10, g11, g12, g13, g14⟩ :=
    write_through_view hw hget hview hu
  have hst : stepArgs w "upd" a = (w.put vn m', "ok") := he
  rw [hst]
  exact ⟨p, p', m', pix, hpix, ⟨vals, single, hu⟩, g1, g2, g4, g5, g6, g7, g8, g9, g10, g11, g12, g13, g14⟩

/-- **(4) the same for `updr v ranges=… …`** (a view always takes the explicit path, so both
    `path=` settings): the addressed pixels are those of the ranges -/
theorem api_view_write_ranges {w : World} (hw : w.Good) {a : Args} {vn pn : String}
    {rest : List String} {i : Nat} {v : MapObj} (ha : a.pos = vn :: rest)
    (hget : w.get? vn = some v) (hview : v.view = some (pn, i))
    (hok : (stepArgs w "updr" a).2 = "ok") :
    ∃ (p p' v' : MapObj) (R : List (Nat × Nat)), parseRanges (a.getD "ranges" "_") = some R ∧
      (∃ val sp, apiUpdateRanges v (a.getD "op" "replace") R val sp = .ok v') ∧
      w.get? pn = some p ∧ (stepArgs w "updr" a).1.get? pn = some p' ∧
      p'.Ok ∧ p'.kind = p.kind ∧ p'.sent = p.sent ∧ p'.covord = p.covord ∧ p'.spord = p.spord ∧
      p'.cache = none ∧ (∀ k, p'.covd k = p.covd k) ∧
      (∀ q, q < p.npix → p'.abs q = recSetField i (p.abs q) (v'.abs q)) ∧
      (∀ q, q < p.npix → q ∉ expand R → p'.abs q = p.abs q) ∧
      (∀ q, q < p.npix → ∀ j, j ≠ i → recField j (p'.abs q) = recField j (p.abs q)) ∧
      (∀ x, x ≠ vn → x ≠ pn → (stepArgs w "updr" a).1.raw? x = w.raw? x) := by
  have hok' : (opUpdr w a).2 = "ok" := hok
  obtain ⟨n, rest', m, m', R, val, sp, hpos, hg, hR, hu, he⟩ := opUpdr_ok hok'
  rw [ha] at hpos
  cases hpos
  rw [hget] at hg
  cases hg
  obtain ⟨ru, hu'⟩ := apiUpdateRanges_view_ok (by rw [hview]; rfl) hu
  obtain ⟨p, p', g1, g2, _, g4, g5, g6, g7, g8, g9, g10, g11, g12, g13, g14⟩ :=
    write_through_view hw hget hview hu'
  have hst : stepArgs w "updr" a = (w.put vn m', "ok") := he
  rw [hst]
  exact ⟨p, p', m', R, hR, ⟨val, sp, hu⟩, g1, g2, g4, g5, g6, g7, g8, g9, g10, g11, g12, g13, g14⟩

/-- **(4) refused ⇒ nothing changes**: an `upd` / `updr` line that does not answer `ok` (through
    a view: e.g. a pixel that is not valid in the view, "creating new valid pixels" —
    `view_guard_rejects`) leaves every lookup of the world as it was, up to the `n_valid` cache:
    in particular the parent shows the same records over the same coverage -/
theorem api_view_write_refused {w : World} (hw : w.Good) (a : Args) :
    ((stepArgs w "upd" a).2 ≠ "ok" → ∀ x p p', w.get? x = some p →
        (stepArgs w "upd" a).1.get? x = some p' →
        p'.st = p.st ∧ p'.kind = p.kind ∧ p'.sent = p.sent ∧ (∀ q, p'.abs q = p.abs q) ∧
          (∀ k, p'.covd k = p.covd k)) ∧
    ((stepArgs w "updr" a).2 ≠ "ok" → ∀ x p p', w.get? x = some p →
        (stepArgs w "updr" a).1.get? x = some p' →
        p'.st = p.st ∧ p'.kind = p.kind ∧ p'.sent = p.sent ∧ (∀ q, p'.abs q = p.abs q) ∧
          (∀ k, p'.covd k = p.covd k)) := by
  have key : ∀ (w' : World), SameMaps w' w → ∀ x p p', w.get? x = some p → w'.get? x = some p' →
      p'.st = p.st ∧ p'.kind = p.kind ∧ p'.sent = p.sent ∧ (∀ q, p'.abs q = p.abs q) ∧
        (∀ k, p'.covd k = p.covd k) := by
    intro w' hs x p p' h1 h2
    have := hs x
    rw [h1, h2] at this
    have he : forgetCache p' = forgetCache p := Option.some.inj this
    obtain ⟨co, so, k, se, st, ca, vi⟩ := p
    obtain ⟨co', so', k', se', st', ca', vi'⟩ := p'
    simp only [forgetCache, MapObj.mk.injEq] at he
    obtain ⟨rfl, rfl, rfl, rfl, rfl, _, rfl⟩ := he
    exact ⟨rfl, rfl, rfl, fun _ => rfl, fun _ => rfl⟩
  exact ⟨fun h => key _ (opUpd_not_ok hw a h), fun h => key _ (opUpdr_not_ok hw a h)⟩

/-- **(4) `replace` through a view stores exactly the value written** in field `i` of each
    addressed pixel's record -/
theorem api_view_replace_exact {p : MapObj} {pn : String} {i : Nat} {dt : DT} {s : Val}
    {c : Option Nat} {v' : MapObj} {pix : List Nat} {x : Val} {fs : List DT} {pr : Nat}
    (hp : p.Ok) (hk : p.kind = .recd fs pr) (hg : fs[i]? = some dt) (hs : s = viewBlank p i)
    (h : apiUpdate (viewOf p pn i dt s c) "replace" pix (some [x]) true = .ok v') :
    ∀ q ∈ pix, (writeBackView p i v').abs q = recSetField i (p.abs q) x := by
  intro q hq
  exact view_replace_spec hp.1 hk hg hs h (q, x) (List.mem_map.2 ⟨q, hq, rfl⟩)

/-- … so that, when the parent's cell is a record that has field `i` and the value is a number,
    field `i` reads back as written -/
theorem api_view_replace_reads_back {p : MapObj} {pn : String} {i : Nat} {dt : DT} {s : Val}
    {c : Option Nat} {v' : MapObj} {pix : List Nat} {n : Int} {e : Nat} {fs : List DT} {pr : Nat}
    (hp : p.Ok) (hk : p.kind = .recd fs pr) (hg : fs[i]? = some dt) (hs : s = viewBlank p i)
    (h : apiUpdate (viewOf p pn i dt s c) "replace" pix (some [.num n e]) true = .ok v')
    (q : Nat) (hq : q ∈ pix) (l : List (Int × Nat)) (hl : p.abs q = .recd l) (hi : i < l.length) :
    recField i ((writeBackView p i v').abs q) = .num n e := by
  rw [api_view_replace_exact hp hk hg hs h q hq, hl, recField_recSetField_self hi]

/-- **(4) writing the sentinel through the view of the PRIMARY field** invalidates the pixel in
    the parent and keeps every other field of its record -/
theorem api_view_primary_sentinel {p : MapObj} {pn : String} {dt : DT} {c : Option Nat}
    {v' : MapObj} {pix : List Nat} {n : Int} {e : Nat} {fs : List DT} {pr : Nat}
    (hp : p.Ok) (hk : p.kind = .recd fs pr) (hg : fs[pr]? = some dt) (hsn : p.sent = .num n e)
    (h : apiUpdate (viewOf p pn pr dt p.sent c) "replace" pix (some [p.sent]) true = .ok v')
    (q : Nat) (hq : q ∈ pix) (l : List (Int × Nat)) (hl : p.abs q = .recd l) (hi : pr < l.length) :
    (writeBackView p pr v').validAt q = false ∧
    ∀ j, j ≠ pr → recField j ((writeBackView p pr v').abs q) = recField j (p.abs q) := by
  have hs : p.sent = viewBlank p pr := (viewBlank_primary hk hg hsn).symm
  have habs := api_view_replace_exact hp hk hg hs h q hq
  obtain ⟨h1, h2⟩ := primary_sentinel_invalidates (l := l) hk hsn hi
  rw [hl, hsn] at habs
  refine ⟨?_, fun j hj => by rw [habs, hl]; exact h2 j hj⟩
  unfold MapObj.validAt
  rw [habs]
  exact h1

/-- **(5) a view is never stale**: after an accepted `upd` of the PARENT, the view's name resolves
    to the view of the parent's NEW storage — it shows field `i` of the new records at every
    pixel.  (`nvalid v` is never stale either: `C02.reachable_nvalid`, a view does not cache the
    count.) -/
theorem api_view_fresh {w : World} (hw : w.Good) {a : Args} {vn pn : String} {rest : List String}
    {i : Nat} {v : MapObj} (ha : a.pos = pn :: rest) (hget : w.get? vn = some v)
    (hview : v.view = some (pn, i)) (hok : (stepArgs w "upd" a).2 = "ok") :
    ∃ m' v₂, (stepArgs w "upd" a).1.get? pn = some m' ∧ (stepArgs w "upd" a).1.get? vn = some v₂ ∧
      v₂.sent = v.sent ∧ v₂.kind = v.kind ∧ (∀ k, v₂.covd k = m'.covd k) ∧
      ∀ q, q < m'.npix → v₂.abs q = recField i (m'.abs q) := by
  have hok' : (opUpd w a).2 = "ok" := hok
  obtain ⟨n, rest', m, m', pix, vals, single, hpos, hg, _, hu, he⟩ := opUpd_ok hok'
  rw [ha] at hpos
  cases hpos
  have hst : stepArgs w "upd" a = (w.put pn m', "ok") := he
  rw [hst]
  have hsame : ∀ p, w.get? pn = some p → m'.Same p := by
    intro p hp
    rw [hg] at hp
    cases hp
    exact (Ok.apiUpdate (hw.get hg) hu).2
  obtain ⟨dt, hkd, g2, g3⟩ := get?_view_after_parent_put hw hget hview hsame
  have hm'wf : m'.WF := (Ok.apiUpdate (hw.get hg) hu).1.1
  obtain ⟨_, _, v3, v4, _, _⟩ := view_spec hm'wf pn i dt v.sent v.cache
  exact ⟨m', _, g3, g2, rfl, hkd.symm, v4, v3⟩

/-! ### non-vacuity and evaluated examples -/

/-- a record map with fields (i4, f8), primary 0, sentinel -5, orders 0 / 1: pixel 5 valid
    `(3, 2.5)`, pixel 6 written with the primary AT the sentinel `(-5, 7.5)` -/
def exRec : Except Err MapObj := do
  let m ← apiMakeEmpty 0 1 (.recd [.int 32 true, .flt 64] 0) (some (.num (-5) 0)) []
  apiUpdate m "replace" [5, 6] (some [.recd [(3, 0), (5, 1)], .recd [(-5, 0), (15, 1)]]) false

/-- the hypotheses are met; pixel 6 is invalid but shows every field written -/
example : WFApi.okAnd exRec (fun m => decide m.Ok && m.abs 5 == .recd [(3, 0), (5, 1)] &&
    m.abs 6 == .recd [(-5, 0), (15, 1)] && m.validAt 5 && !m.validAt 6 &&
    nValid m.vc m.st == 1) = true := by decide +kernel

/-- **copy versus view of field 1** (`ex_copy_vs_view`): they agree at the valid pixel 5; at
    pixel 6 (primary at the sentinel) the copy shows its sentinel and is invalid, the view shows
    the stored 7.5 and is VALID (`n_valid` 1 vs 2); the sentinel collision: a copy with the
    override sentinel 2.5 loses pixel 5 -/
def exCopyView : Except Err (MapObj × MapObj × MapObj) := do
  let m ← exRec
  let k ← apiGetSingleCopy m 1 none
  let v ← materializeView m "m" 1 (DT.flt 64).defaultSentinel none
  let k2 ← apiGetSingleCopy m 1 (some (.num 5 1))
  pure (k, v, k2)

example : WFApi.okAnd exCopyView (fun r =>
    match r with
    | (k, v, k2) =>
      decide k.Ok && decide v.WF && k.abs 5 == .num 5 1 && v.abs 5 == .num 5 1 &&
      k.abs 6 == k.sent && !k.validAt 6 && v.abs 6 == .num 15 1 && v.validAt 6 &&
      nValid k.vc k.st == 1 && nValid v.vc v.st == 2 &&
      k2.sent == .num 5 1 && !k2.validAt 5 && nValid k2.vc k2.st == 0) = true := by
  decide +kernel

/-- errors of `get_single(copy=True)`: not a record map — `TypeError`; field 7 — `ValueError`;
    an override the field type refuses — `ValueError`; an override on the primary is ignored -/
example :
    (match apiGetSingleCopy (WFApi.blankMap (.plain (.int 32 true)) (.num 0 0)) 0 none with
     | .error .type => true | _ => false) = true ∧
    WFApi.okAnd exRec (fun m =>
      (match apiGetSingleCopy m 7 none with | .error .value => true | _ => false) &&
      (match apiGetSingleCopy m 1 (some (.bool true)) with | .error .value => true | _ => false) &&
      (match apiGetSingleCopy m 0 (some (.num 9 0)) with | .ok k => k.sent == .num (-5) 0 | _ => false))
      = true := by decide +kernel

/-- the answers of a history -/
def replies (lines : List String) : List String :=
  (lines.foldl (fun (wo : World × List String) l => ((step wo.1 l).1, wo.2 ++ [(step wo.1 l).2]))
    ({}, [])).2

/-! through the driver: the same record map; views of both fields; a write through the
    non-primary view at pixel 6 (invalid in the parent, valid in the view) changes field 1 only;
    a refused write (pixel 7 is not valid in the view) changes nothing; writing the sentinel
    through the primary view invalidates pixel 5 but keeps its field 1; a later parent write is
    seen by the view, whose `nvalid` follows; `None` stores the blank record; a sentinel
    override on a non-primary view is refused, on the primary view ignored -/
#guard replies [
  "cfg m kind=rec covord=0 spord=1 fields=i4,f8 primary=0 sentinel=-5",
  "upd m pix=5,6 vals=r3;5^1,r-5;15^1",
  "nvalid m", "get m pix=5,6",
  "single m field=1 r=vb", "single m field=0 r=va", "single m field=1 copy=1 r=kb",
  "get vb pix=5,6,7", "get kb pix=5,6,7", "nvalid vb", "nvalid kb",
  "upd vb pix=6 val=19^1", "get m pix=5,6", "nvalid m",
  "upd vb pix=7 val=3^1", "get m pix=7", "covmask m",
  "upd va pix=5 val=-5", "get m pix=5", "nvalid m", "nvalid va",
  "upd m pix=7 vals=r4;5^2", "get vb pix=7", "nvalid vb", "nvalid va",
  "upd m pix=6 none=1", "get m pix=6",
  "single m field=1 sentinel=3 r=bad", "single m field=0 sentinel=3 r=va2", "info va2",
  "single m field=7 r=bad", "single vb field=0 r=bad"] ==
  ["ok", "ok", "1", "r3;5^1,r-5;15^1",
   "ok", "ok", "ok",
   "5^1,15^1,-1637499999999999923489519697920",
   "5^1,-1637499999999999923489519697920,-1637499999999999923489519697920",
   "2", "1",
   "ok", "r3;5^1,r-5;19^1", "1",
   "err RuntimeError", "r-5;-1637499999999999923489519697920", "010000000000",
   "ok", "r-5;5^1", "0", "0",
   "ok", "5^2", "3", "1",
   "ok", "r-5;-1637499999999999923489519697920",
   "err ValueError", "ok", "kind=plain:i4 covord=0 spord=1 sentinel=-5",
   "err ValueError", "err TypeError"]

/-! the hypotheses of the driver-level theorems are met along a history: `vb` resolves to a view
    of field 1 of `m`, the write through it and the parent write are accepted -/
def exHist : List String := [
  "cfg m kind=rec covord=0 spord=1 fields=i4,f8 primary=0 sentinel=-5",
  "upd m pix=5,6 vals=r3;5^1,r-5;15^1",
  "single m field=1 r=vb"]

#guard ((runLines exHist).get? "vb").map (·.view) == some (some ("m", 1))
#guard (stepArgs (runLines exHist) "upd" ⟨["vb"], [("pix", "6"), ("val", "19^1")]⟩).2 == "ok"
#guard (stepArgs (runLines exHist) "upd" ⟨["m"], [("pix", "7"), ("vals", "r4;5^2")]⟩).2 == "ok"
#guard (stepArgs (runLines exHist) "upd" ⟨["vb"], [("pix", "7"), ("val", "3^1")]⟩).2 == "err RuntimeError"

/-- `api_view_write`, `api_view_fresh` instantiated at a reachable world (its `Good`ness is
    `Good.runLines`) -/
example (v : MapObj) (hget : (runLines exHist).get? "vb" = some v) (hview : v.view = some ("m", 1))
    (hok : (stepArgs (runLines exHist) "upd" ⟨["vb"], [("pix", "6"), ("val", "19^1")]⟩).2 = "ok") :
    ∃ p p' : MapObj, (runLines exHist).get? "m" = some p ∧
      (stepArgs (runLines exHist) "upd" ⟨["vb"], [("pix", "6"), ("val", "19^1")]⟩).1.get? "m" = some p' ∧
      ∀ q, q < p.npix → ∀ j, j ≠ 1 → recField j (p'.abs q) = recField j (p.abs q) := by
  obtain ⟨p, p', _, _, _, _, h1, h2, _, _, _, _, _, _, _, _, _, h3, _⟩ :=
    api_view_write (Good.runLines exHist) (a := ⟨["vb"], [("pix", "6"), ("val", "19^1")]⟩) rfl hget hview hok
  exact ⟨p, p', h1, h2, h3⟩

end C14
end HS
