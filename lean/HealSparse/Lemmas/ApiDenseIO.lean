/-
  Dense refinement, continued: FILES, METADATA, inspection and housekeeping lines.

  Lemmas/ApiDenseAll.lean relates the protocol to a coverage-aware dense interpreter on worlds
  that consist of maps only (`DenseWorldC`).  Here the dense world is extended with what the
  remaining lines of the protocol look at:

    DenseWorldIO = maps    (name ↦ `DenseMapC`: header, one value per pixel, one bit per coverage
                            pixel — as before)
                 + files   (name ↦ `DenseFile`: the `DenseMapC` SNAPSHOT that was written and the
                            user metadata stored with it; no arrays, no block order, no header
                            keywords)
                 + hpfiles (HEALPix-format files: `HpFile` is dense already — an array, or
                            (pixel, value) pairs)
                 + mocs    (MOC files: the UNIQ column)
                 + metas   (user metadata per map name, as the driver keeps it)

  `RelIO w D` extends `RelC`: the maps agree (`RelC`), every file of the world IS the written
  form `apiWrite m md` of a `FileTyped` map object `m` that agrees with the dense snapshot
  (`FileCorr`), and the three tables that are dense already are equal.

  `dstepArgsIO` interprets, on such a world,
    `info` `vpsc` `drop` `reset`                   (inspection / housekeeping)
    `meta` `getmeta`                               (user metadata)
    `write` `read` (full and `pixels=`) `covread`  (healsparse FITS files)
    `pack`                                         (re-stated: it also moves user metadata)
  and falls back to `ApiDenseAll.dstepArgsAll` on every other line of the five families.

  `rel_stepArgsIO` / `rel_stepIO`: one line keeps `RelIO` and is answered alike, from a world
  satisfying the reachable invariants `Good2` (well-formedness, fresh caches) and `Typed` (every
  map is typed the way a file can express — needed for `write`: the reader recovers the kind from
  the header alone).  `rel_runLinesIO`, `answers_eq_danswersIO`: histories, unconditionally.
-/
import HealSparse.Lemmas.ApiDenseAll
import HealSparse.Lemmas.FrameWorld
import HealSparse.Lemmas.TypedWorld
import HealSparse.Props.C02
import HealSparse.Props.C03
namespace HS
namespace ApiDenseIO

open ApiDense ApiDenseCov ApiDenseAll

/-! ### named tables -/

/-- look a name up in a table of named objects (the driver's `find?` … `map (·.2)`) -/
def lookup {α : Type} (t : List (String × α)) (k : String) : Option α :=
  (t.find? (·.1 == k)).map (·.2)

/-- (re)bind a name in a table of named objects -/
def insert {α : Type} (t : List (String × α)) (k : String) (x : α) : List (String × α) :=
  (k, x) :: t.filter (·.1 != k)

theorem lookup_insert_self {α : Type} (t : List (String × α)) (k : String) (x : α) :
    lookup (insert t k x) k = some x := by
  simp [lookup, insert]

theorem lookup_insert_ne {α : Type} (t : List (String × α)) {k y : String} (h : y ≠ k) (x : α) :
    lookup (insert t k x) y = lookup t y := by
  unfold lookup insert
  have h2 : (k == y) = false := by simp; exact fun e => h e.symm
  simp only [List.find?_cons, h2, HS.List.find?_filter_ne _ y k h]

theorem lookup_filter_self {α : Type} (t : List (String × α)) (k : String) :
    lookup (t.filter (·.1 != k)) k = none := by
  unfold lookup
  rw [Option.map_eq_none_iff, List.find?_eq_none]
  intro x hx
  have := (List.mem_filter.1 hx).2
  simpa using this

theorem lookup_filter_ne {α : Type} (t : List (String × α)) {k y : String} (h : y ≠ k) :
    lookup (t.filter (·.1 != k)) y = lookup t y := by
  unfold lookup
  rw [HS.List.find?_filter_ne _ y k h]

/-- two tables with the same names, bound to related objects -/
def TabRel {α β : Type} (R : α → β → Prop) (t : List (String × α)) (t' : List (String × β)) :
    Prop :=
  ∀ x, match lookup t x, lookup t' x with
    | some a, some b => R a b
    | none, none => True
    | _, _ => False

theorem TabRel.nil {α β : Type} (R : α → β → Prop) : TabRel R [] [] := fun _ => trivial

theorem TabRel.insert {α β : Type} {R : α → β → Prop} {t : List (String × α)}
    {t' : List (String × β)} (h : TabRel R t t') (k : String) {a : α} {b : β} (hab : R a b) :
    TabRel R (insert t k a) (insert t' k b) := by
  intro x
  by_cases hx : x = k
  · subst hx
    rw [lookup_insert_self, lookup_insert_self]
    exact hab
  · rw [lookup_insert_ne _ hx, lookup_insert_ne _ hx]
    exact h x

/-! ### the dense world with files -/

/-- a healsparse FITS file, densely: the map that was written (values and coverage mask) and the
    user metadata stored with it -/
structure DenseFile where
  snap : DenseMapC
  mdata : List (String × String)

/-- maps, files, HEALPix-format files, MOC files and user metadata, by name -/
structure DenseWorldIO where
  maps : DenseWorldC := []
  files : List (String × DenseFile) := []
  hpfiles : List (String × HpFile) := []
  mocs : List (String × List Nat) := []
  metas : List (String × List (String × String)) := []

/-- the user metadata kept for a map name -/
def metaOfT (t : List (String × List (String × String))) (n : String) : List (String × String) :=
  (lookup t n).getD []

/-- a file of the world and a dense file agree: the file is what `_write_map_fits` produces for
    a map object that agrees with the dense snapshot and is typed the way a header can express -/
def FileCorr (fo : FileObj) (df : DenseFile) : Prop :=
  ∃ m : MapObj, CorrC m df.snap ∧ m.FileTyped ∧ fo = apiWrite m df.mdata

/-- **the relation**: maps as in `RelC`; files related by `FileCorr`; HEALPix files, MOCs and user
    metadata literally equal -/
structure RelIO (w : World) (D : DenseWorldIO) : Prop where
  rel : RelC w D.maps
  files : TabRel FileCorr w.files D.files
  hpfiles : w.hpfiles = D.hpfiles
  mocs : w.mocs = D.mocs
  metas : w.metas = D.metas

theorem relIO_empty : RelIO {} {} := ⟨relC_empty, TabRel.nil _, rfl, rfl, rfl⟩

/-- a step that changes the maps only -/
theorem RelIO.of_maps {w w' : World} {D : DenseWorldIO} {M : DenseWorldC} (h : RelIO w D)
    (hr : RelC w' M) (h1 : w'.files = w.files) (h2 : w'.hpfiles = w.hpfiles)
    (h3 : w'.mocs = w.mocs) (h4 : w'.metas = w.metas) : RelIO w' { D with maps := M } :=
  ⟨hr, by rw [h1]; exact h.files, by rw [h2]; exact h.hpfiles, by rw [h3]; exact h.mocs,
    by rw [h4]; exact h.metas⟩

/-- `RelC` looks at the pool only -/
theorem relC_of_pool {w w' : World} {M : DenseWorldC} (h : RelC w M) (hp : w'.pool = w.pool) :
    RelC w' M := by
  refine ⟨fun e he => h.owning e (hp ▸ he), fun x => ?_⟩
  have := h.maps x
  unfold World.raw? at this ⊢
  rw [hp]
  exact this

def dWithMapIO (D : DenseWorldIO) (a : Args) (k : DenseMapC → DenseWorldIO × String) :
    DenseWorldIO × String :=
  match a.pos with
  | n :: _ => match D.maps.get? n with
    | some d => k d
    | none => (D, "bad-op:no-such-map")
  | [] => (D, "bad-op:no-map-name")

theorem relIO_withMap {w : World} {D : DenseWorldIO} {a : Args} {k : MapObj → World × String}
    {k' : DenseMapC → DenseWorldIO × String} (h : RelIO w D)
    (hk : ∀ m d, w.get? (a.pos.headD "") = some m → D.maps.get? (a.pos.headD "") = some d →
      CorrC m d → RelIO (k m).1 (k' d).1 ∧ (k m).2 = (k' d).2) :
    RelIO (withMap w a k).1 (dWithMapIO D a k').1 ∧ (withMap w a k).2 = (dWithMapIO D a k').2 := by
  unfold withMap dWithMapIO
  cases hpos : a.pos with
  | nil => exact ⟨h, rfl⟩
  | cons n rest =>
    simp only []
    have hm := h.rel.maps n
    have hg := h.rel.get?_eq n
    rw [hg]
    cases hr : w.raw? n with
    | none =>
      rw [hr] at hm
      cases hd : D.maps.get? n with
      | none => exact ⟨h, rfl⟩
      | some d => rw [hd] at hm; exact hm.elim
    | some m =>
      rw [hr] at hm
      cases hd : D.maps.get? n with
      | none => rw [hd] at hm; exact hm.elim
      | some d =>
        rw [hd] at hm
        have hn : a.pos.headD "" = n := by rw [hpos]; rfl
        exact hk m d (by rw [hn, hg, hr]) (by rw [hn, hd]) hm

/-! ### (1) inspection and housekeeping: `info`, `vpsc`, `drop`, `reset` -/

/-- the line `info` prints, from the header -/
def infoLine (kind : Kind) (co so : Nat) (sent : Val) : String :=
  let dts : DT → String := fun dt => match dt with
    | .int b sg => (if sg then "i" else "u") ++ toString (b / 8)
    | .flt b => "f" ++ toString (b / 8)
    | .bool => "b1"
  let k := match kind with
    | .plain dt => "plain:" ++ dts dt
    | .packed => "packed"
    | .wide n => "wide:" ++ toString n
    | .recd fs pr => "rec:" ++ ",".intercalate (fs.map dts) ++ ":" ++ toString pr
  s!"kind={k} covord={co} spord={so} sentinel={showVal sent}"

theorem opInfo_eq (w : World) (a : Args) :
    opInfo w a = withMap w a fun m => (w, infoLine m.kind m.covord m.spord m.sent) := rfl

/-- `info n`: the header -/
def dInfoOp (D : DenseWorldIO) (a : Args) : DenseWorldIO × String :=
  dWithMapIO D a fun d =>
    (D, infoLine d.toDense.kind d.toDense.covord d.toDense.spord d.toDense.sent)

theorem relIO_info {w : World} {D : DenseWorldIO} (h : RelIO w D) (a : Args) :
    RelIO (opInfo w a).1 (dInfoOp D a).1 ∧ (opInfo w a).2 = (dInfoOp D a).2 := by
  rw [opInfo_eq]
  unfold dInfoOp
  refine relIO_withMap h fun m d _ _ hc => ⟨h, ?_⟩
  show infoLine _ _ _ _ = infoLine _ _ _ _
  rw [hc.corr.kind, hc.corr.covord, hc.corr.spord, hc.corr.sent]

/-- `vpsc n k=K` (valid_pixels_single_covpix): IndexError outside the coverage map, else the
    members of the valid set inside coverage pixel `K`, ascending -/
def dVpscOp (D : DenseWorldIO) (a : Args) : DenseWorldIO × String :=
  dWithMapIO D a fun d =>
    match a.nat? "k" with
    | none => (D, "bad-op:k")
    | some k =>
      if k ≥ d.c.ncov then (D, errLine .index) else
      (D, showList toString
        (((ApiDenseScalar.dValidSet d.toDense).filter fun p => p >>> d.c.shift == k).map
          fun p => ((p : Nat) : Int)))

theorem relIO_vpsc {w : World} {D : DenseWorldIO} (h : RelIO w D) (hw : w.Good) (a : Args) :
    RelIO (opVpsc w a).1 (dVpscOp D a).1 ∧ (opVpsc w a).2 = (dVpscOp D a).2 := by
  unfold opVpsc dVpscOp
  refine relIO_withMap h fun m d hg _ hc => ?_
  have hok := hw.get hg
  have hv := hok.2.1.blankInvalid
  cases a.nat? "k" with
  | none => exact ⟨h, rfl⟩
  | some k =>
    simp only []
    rw [← hc.c_eq]
    by_cases hk : k ≥ m.c.ncov
    · rw [if_pos hk, if_pos hk]; exact ⟨h, rfl⟩
    · rw [if_neg hk, if_neg hk, C02.vpsc_eq m.c m.vc m.st hok.1.2 hv k (by omega)]
      simp only []
      refine ⟨h, ?_⟩
      rw [← ApiDenseScalar.corr_validSet hc.corr,
        ← C02.validIn_eq_filter m.c m.vc m.st (by omega : k < m.c.ncov), List.map_map,
        List.mergeSort_of_pairwise]
      · rfl
      · rw [List.pairwise_map]
        exact (C02.validIn_sorted m.c m.vc m.st k).imp fun h => by
          simp only [decide_eq_true_eq]
          omega

/-- `drop n`: the name is unbound (its user metadata stay, as in the driver) -/
def dDropOp (D : DenseWorldIO) (a : Args) : DenseWorldIO × String :=
  match a.pos with
  | n :: _ => ({ D with maps := D.maps.filter (·.1 != n) }, "ok")
  | [] => (D, "bad-op:drop")

theorem relC_drop {w : World} {M : DenseWorldC} (h : RelC w M) (n : String) :
    RelC { w with pool := w.pool.filter (·.1 != n) } (M.filter (·.1 != n)) := by
  refine ⟨fun e he => h.owning e (List.mem_filter.1 he).1, fun x => ?_⟩
  have hm := h.maps x
  show match lookup (w.pool.filter (·.1 != n)) x, lookup (M.filter (·.1 != n)) x with
    | some m, some d => CorrC m d
    | none, none => True
    | _, _ => False
  by_cases hx : x = n
  · subst hx
    rw [lookup_filter_self, lookup_filter_self]
    trivial
  · rw [lookup_filter_ne _ hx, lookup_filter_ne _ hx]
    exact hm

theorem relIO_drop {w : World} {D : DenseWorldIO} (h : RelIO w D) (a : Args) :
    RelIO (opDrop w a).1 (dDropOp D a).1 ∧ (opDrop w a).2 = (dDropOp D a).2 := by
  unfold opDrop dDropOp
  cases a.pos with
  | nil => exact ⟨h, rfl⟩
  | cons n rest => exact ⟨h.of_maps (relC_drop h.rel n) rfl rfl rfl rfl, rfl⟩

/-- `reset`: the empty world -/
theorem relIO_reset {w : World} {D : DenseWorldIO} (a : Args) :
    RelIO (opReset w a).1 ({} : DenseWorldIO) ∧ (opReset w a).2 = "ok" :=
  ⟨relIO_empty, rfl⟩

/-! ### (2a) user metadata: `meta`, `getmeta` -/

/-- `meta n k=K v=V`: set one key of the name's user metadata -/
def dMetaOp (D : DenseWorldIO) (a : Args) : DenseWorldIO × String :=
  dWithMapIO D a fun _ =>
    ({ D with metas := (insert D.metas (a.pos.headD "")
        ((a.getD "k" "", a.getD "v" "") ::
          (metaOfT D.metas (a.pos.headD "")).filter (·.1 != a.getD "k" ""))) }, "ok")

theorem relIO_meta {w : World} {D : DenseWorldIO} (h : RelIO w D) (a : Args) :
    RelIO (opMeta w a).1 (dMetaOp D a).1 ∧ (opMeta w a).2 = (dMetaOp D a).2 := by
  unfold opMeta dMetaOp
  refine relIO_withMap h fun m d _ _ _ => ⟨?_, rfl⟩
  refine ⟨h.rel.with_metas _, h.files, h.hpfiles, h.mocs, ?_⟩
  show insert w.metas _ (_ :: (metaOfT w.metas _).filter _) = _
  rw [h.metas]

/-- `getmeta n k=K`: the value of one key, `none` if unset -/
def dGetmetaOp (D : DenseWorldIO) (a : Args) : DenseWorldIO × String :=
  dWithMapIO D a fun _ =>
    (D, (lookup (metaOfT D.metas (a.pos.headD "")) (a.getD "k" "")).getD "none")

theorem relIO_getmeta {w : World} {D : DenseWorldIO} (h : RelIO w D) (a : Args) :
    RelIO (opGetmeta w a).1 (dGetmetaOp D a).1 ∧ (opGetmeta w a).2 = (dGetmetaOp D a).2 := by
  unfold opGetmeta dGetmetaOp
  refine relIO_withMap h fun m d _ _ _ => ⟨h, ?_⟩
  show (lookup (metaOfT w.metas _) _).getD "none" = _
  rw [h.metas]

/-- `pack n r=R` on the extended world: the bit-packed copy, and the user metadata of `n` travel
    to `R` (a bit-packed source goes through `copy()`, which drops them) -/
def dPackIO (D : DenseWorldIO) (a : Args) : DenseWorldIO × String :=
  dWithMapIO D a fun d =>
    match dPack d with
    | .ok d' =>
      ({ D with maps := D.maps.bind (a.getD "r" "tmp") d',
                metas := (insert D.metas (a.getD "r" "tmp")
                  (if d.toDense.kind == .packed then [] else metaOfT D.metas (a.pos.headD ""))) },
        "ok")
    | .error e => (D, errLine e)

theorem relIO_pack {w : World} {D : DenseWorldIO} (h : RelIO w D) (hw : w.Good) (a : Args) :
    RelIO (opPack w a).1 (dPackIO D a).1 ∧ (opPack w a).2 = (dPackIO D a).2 := by
  unfold opPack dPackIO
  refine relIO_withMap h fun m d hg hd hc => ?_
  have hr := apiAsBitPacked_corrC hc (hw.get hg).2.1.blankInvalid
  simp only []
  revert hr
  cases apiAsBitPacked m <;> cases dPack d <;> intro hr
  · cases hr; exact ⟨h, rfl⟩
  · exact hr.elim
  · exact hr.elim
  · refine ⟨⟨(h.rel.bind _ hr).with_metas _, h.files, h.hpfiles, h.mocs, ?_⟩, rfl⟩
    show insert w.metas _ (if m.kind == .packed then [] else metaOfT w.metas _) = _
    rw [h.metas, hc.corr.kind]

/-- the map part and the answer of `pack` are those of the five-family interpreter -/
theorem dPackIO_maps (D : DenseWorldIO) (a : Args) :
    (dPackIO D a).1.maps = (dstepArgsAll D.maps "pack" a).1 ∧
      (dPackIO D a).2 = (dstepArgsAll D.maps "pack" a).2 := by
  show _ = (dPackOp D.maps a).1 ∧ _ = (dPackOp D.maps a).2
  unfold dPackIO dPackOp dWithMapIO dWithMapC
  cases a.pos with
  | nil => exact ⟨rfl, rfl⟩
  | cons n rest =>
    simp only []
    cases D.maps.get? n with
    | none => exact ⟨rfl, rfl⟩
    | some d =>
      simp only []
      cases dPack d <;> exact ⟨rfl, rfl⟩

/-! ### (2b) healsparse FITS files: `write`, `read`, `covread` -/

/-- `write n f=F`: the file holds a snapshot of the map and the name's user metadata (the
    compression flag plays no role) -/
def dWriteOp (D : DenseWorldIO) (a : Args) : DenseWorldIO × String :=
  dWithMapIO D a fun d =>
    ({ D with files := insert D.files (a.getD "f" "f") ⟨d, metaOfT D.metas (a.pos.headD "")⟩ },
      "ok")

theorem relIO_write {w : World} {D : DenseWorldIO} (h : RelIO w D) (hw : w.Good) (ht : w.Typed)
    (a : Args) :
    RelIO (opWrite w a).1 (dWriteOp D a).1 ∧ (opWrite w a).2 = (dWriteOp D a).2 := by
  unfold opWrite dWriteOp
  refine relIO_withMap h fun m d hg _ hc => ⟨?_, rfl⟩
  refine ⟨relC_of_pool h.rel rfl, ?_, h.hpfiles, h.mocs, h.metas⟩
  refine TabRel.insert h.files _ ⟨m, hc, (ht.get hw hg).fileTyped, ?_⟩
  show apiWrite m (metaOfT w.metas _) = _
  rw [h.metas]

/-- the request names at least one covered coverage pixel of the dense map -/
def DRequested (d : DenseMapC) (px : List Nat) : Prop :=
  ∃ k ∈ px, k < d.c.ncov ∧ d.cov k = true

instance (d : DenseMapC) (px : List Nat) : Decidable (DRequested d px) := by
  unfold DRequested; infer_instance

/-- the values of a partial read: inside a requested covered coverage pixel the map's, outside
    the blank -/
def readF (d : DenseMapC) (px : List Nat) : Nat → Val := fun p =>
  if decide ((p >>> d.c.shift) ∈ px) && d.cov (p >>> d.c.shift) then d.toDense.f p
  else d.toDense.blank

/-- … and its mask: the requested covered coverage pixels -/
def readCov (d : DenseMapC) (px : List Nat) : Nat → Bool := fun j => decide (j ∈ px) && d.cov j

/-- **`HealSparseMap.read(file, pixels=…)` densely**: the full read returns the snapshot; a
    partial read is refused (RuntimeError) for a request with duplicates or naming no covered
    coverage pixel (out-of-range entries are ignored), and otherwise returns the restriction of
    the snapshot to the requested ∧ covered coverage pixels -/
def dReadMap (d : DenseMapC) : Option (List Nat) → Except Err DenseMapC
  | none => .ok d
  | some px =>
    if px.Nodup ∧ DRequested d px then .ok ⟨{ d.toDense with f := readF d px }, readCov d px⟩
    else .error .runtime

theorem requested_iff {m : MapObj} {d : DenseMapC} (hc : CorrC m d) (px : List Nat) :
    C03.Requested m px ↔ DRequested d px := by
  unfold C03.Requested DRequested
  rw [← hc.c_eq]
  constructor
  · rintro ⟨k, hk, h1, h2⟩
    exact ⟨k, hk, h1, by rw [← hc.cov k h1]; exact h2⟩
  · rintro ⟨k, hk, h1, h2⟩
    exact ⟨k, hk, h1, by rw [hc.cov k h1]; exact h2⟩

/-- **reading back what was written**: the reader's outcome on the written form of a typed map
    that agrees with `d` is the dense read of `d` -/
theorem apiRead_corrC {m : MapObj} {d : DenseMapC} (hc : CorrC m d) (ht : m.FileTyped)
    (md : List (String × String)) (px : Option (List Nat)) :
    OutRelM (apiRead (apiWrite m md) px) (dReadMap d px) := by
  cases px with
  | none =>
    rw [C03.api_read_write_full_partial m md ht]
    show CorrC _ d
    have hv : ({ m with cache := none, view := none } : MapObj) = { m with cache := none } := by
      have := hc.corr.view
      cases m
      simp only at this
      subst this
      rfl
    rw [hv]
    exact hc.cache none
  | some px =>
    show OutRelM _ (if px.Nodup ∧ DRequested d px then
      .ok ⟨{ d.toDense with f := readF d px }, readCov d px⟩ else .error .runtime)
    by_cases hreq : px.Nodup ∧ DRequested d px
    · rw [if_pos hreq]
      obtain ⟨m', hr, he, hwf, _, _, habs, hcov⟩ :=
        C03.api_read_pixels_spec_typed m md px hc.corr.wf ht hreq.1 ((requested_iff hc px).2 hreq.2)
      rw [hr]
      have hcfg : m'.c = m.c := by rw [he]; rfl
      have hnp : m'.npix = m.npix := by rw [he]; rfl
      refine ⟨⟨hwf, by rw [he], ?_, ?_, ?_, ?_, ?_⟩, ?_⟩
      · rw [he]; exact hc.corr.covord
      · rw [he]; exact hc.corr.spord
      · rw [he]; exact hc.corr.kind
      · rw [he]; exact hc.corr.sent
      · intro p hp
        rw [hnp] at hp
        rw [habs p hp]
        show _ = readF d px p
        unfold readF
        rw [← hc.c_eq, ← hc.cov _ (covpix_lt m.c p hp), hc.corr.abs p hp,
          ApiDenseScalar.corr_blank hc.corr]
      · intro j hj
        rw [hcfg] at hj
        rw [hcov j hj]
        show _ = readCov d px j
        unfold readCov
        rw [hc.cov j hj]
    · rw [if_neg hreq]
      have : apiRead (apiWrite m md) (some px) = .error .runtime := by
        rw [C03.api_read_pixels_error_iff_typed m md px ht, requested_iff hc px]
        by_cases h1 : px.Nodup
        · exact Or.inr fun h2 => hreq ⟨h1, h2⟩
        · exact Or.inl h1
      rw [this]
      exact rfl

/-- the `pixels=` argument of a `read` line -/
def readPx (a : Args) : Option (Option (List Nat)) :=
  match a.get? "pixels" with
  | none => some none
  | some t => (parseNats t).map some

theorem opRead_eqIO (w : World) (a : Args) :
    opRead w a =
      match lookup w.files (a.getD "f" "f") with
      | none => (w, "bad-op:no-such-map")
      | some fo =>
        match readPx a with
        | none => (w, "bad-op:pixels")
        | some px =>
          match apiRead fo px with
          | .ok m =>
            ({ (w.bind (a.getD "r" "tmp") m) with
                metas := insert w.metas (a.getD "r" "tmp") fo.mdata }, "ok")
          | .error e => (w, errLine e) := by
  unfold opRead readPx
  cases a.get? "pixels" <;> rfl

/-- `read f=F r=R [pixels=…]`: the (restricted) snapshot is bound to `R`, the file's user
    metadata become the metadata of `R` -/
def dReadOp (D : DenseWorldIO) (a : Args) : DenseWorldIO × String :=
  match lookup D.files (a.getD "f" "f") with
  | none => (D, "bad-op:no-such-map")
  | some df =>
    match readPx a with
    | none => (D, "bad-op:pixels")
    | some px =>
      match dReadMap df.snap px with
      | .ok d =>
        ({ D with maps := D.maps.bind (a.getD "r" "tmp") d,
                  metas := insert D.metas (a.getD "r" "tmp") df.mdata }, "ok")
      | .error e => (D, errLine e)

theorem relIO_read {w : World} {D : DenseWorldIO} (h : RelIO w D) (a : Args) :
    RelIO (opRead w a).1 (dReadOp D a).1 ∧ (opRead w a).2 = (dReadOp D a).2 := by
  rw [opRead_eqIO]
  unfold dReadOp
  have hf := h.files (a.getD "f" "f")
  revert hf
  cases lookup w.files (a.getD "f" "f") <;> cases lookup D.files (a.getD "f" "f") <;> intro hf
  · exact ⟨h, rfl⟩
  · exact hf.elim
  · exact hf.elim
  · rename_i fo df
    obtain ⟨m, hc, ht, rfl⟩ := hf
    simp only []
    cases readPx a with
    | none => exact ⟨h, rfl⟩
    | some px =>
      simp only []
      have hr := apiRead_corrC hc ht df.mdata px
      revert hr
      cases apiRead (apiWrite m df.mdata) px <;> cases dReadMap df.snap px <;> intro hr
      · cases hr; exact ⟨h, rfl⟩
      · exact hr.elim
      · exact hr.elim
      · refine ⟨⟨(h.rel.bind _ hr).with_metas _, h.files, h.hpfiles, h.mocs, ?_⟩, rfl⟩
        show insert w.metas _ df.mdata = _
        rw [h.metas]

/-- `covread f=F` (`HealSparseCoverage.read`): the coverage mask of the snapshot -/
def dCovreadOp (D : DenseWorldIO) (a : Args) : DenseWorldIO × String :=
  match lookup D.files (a.getD "f" "f") with
  | none => (D, "bad-op:no-such-map")
  | some df => (D, showBits df.snap.covMask)

theorem opCovread_eqIO (w : World) (a : Args) :
    opCovread w a =
      match lookup w.files (a.getD "f" "f") with
      | none => (w, "bad-op:no-such-map")
      | some fo => (w, showBits (readCoverage (cfgOf fo.covord fo.spord) fo.file)) := rfl

theorem relIO_covread {w : World} {D : DenseWorldIO} (h : RelIO w D) (a : Args) :
    RelIO (opCovread w a).1 (dCovreadOp D a).1 ∧ (opCovread w a).2 = (dCovreadOp D a).2 := by
  rw [opCovread_eqIO]
  unfold dCovreadOp
  have hf := h.files (a.getD "f" "f")
  revert hf
  cases lookup w.files (a.getD "f" "f") <;> cases lookup D.files (a.getD "f" "f") <;> intro hf
  · exact ⟨h, rfl⟩
  · exact hf.elim
  · exact hf.elim
  · obtain ⟨m, hc, _, rfl⟩ := hf
    refine ⟨h, ?_⟩
    show showBits (apiCovMask m) = _
    rw [hc.covMask_eq]

end ApiDenseIO
end HS
