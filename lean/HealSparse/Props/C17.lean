/-
  C17 — a MOC written from a map covers exactly the map's valid pixels.
  Property theorems only (helpers and the specification vocabulary in HealSparse/Lemmas/Moc.lean).

  Model: `HealSparse/Model/Moc.lean` (`mocWrite`, `mocWriteWith`, `mocRead`), a statement by
  statement transcription of `_write_moc_fits` / `_read_moc_fits` (healsparse/io_map_fits.py).

  Vocabulary (all plain definitions, see Lemmas/Moc.lean):
  * `uniqOf o p = 4 * 4^o + p`, `uniqOrder u = log2 (u / 4) / 2`, `uniqIndex u = u - 4 * 4^(uniqOrder u)`;
  * `cellCovers maxOrd u x` : `∃ j < 4^(maxOrd - o), x = (i <<< 2*(maxOrd - o)) + j`
    for `(o, i) = (uniqOrder u, uniqIndex u)`;
  * `cnt P d q` : number of `p ∈ P` with `p >>> 2*d = q` (the direct count);
  * `Full P d q` : every `x` with `x >>> 2*d = q` is in `P`;
  * `cmLevel P d` : the hash map of child counts after `d` `degrade(sum)` steps.

  Hypotheses.  `P.Nodup` and `∀ p ∈ P, p < 12 * 4^maxOrd` are what `valid_pixels` guarantees.
  Non-emptiness of `P` is never needed by the model (the Python code raises on an empty map,
  `np.max` of an empty array); `minOrd ≤ maxOrd` is needed only for the lower order bound.

  HISTORY (reader, 32-bit overflow — repaired).  Before the commit "fix: reading a MOC with cells
  of order 15 or more", `_read_moc_fits` computed `4*(4**order)` on an `int32` array; for
  `order ≥ 15` (nside ≥ 32768) this wrapped to 0 and every pixel read back as its own UNIQ code
  (`p + 4*4^order`) or raised `IndexError` (reproduced then on the real code: nside_coverage 256,
  nside_sparse 32768, pixels [5, 77] read back as [4294967301, 4294967373]).  `mocRead` models the
  repaired code (exact arithmetic) and `moc_read_write` is proved without any bound on the
  order.  The pre-fix reader is kept as `mocReadI32`, only for the theorems in
  `Witness` (`Witness.uniq_decode_i32_fails_order15`, `Witness.moc_read_write_i32_fails_order15`,
  `Witness.moc_read_write_i32_partial`).
-/
import HealSparse.Lemmas.Moc
import HealSparse.Lemmas.ApiMoc
import HealSparse.Props.C04
namespace HS
namespace C17

variable {maxOrd minOrd : Nat} {P : List Nat}

/-! ### A concrete instance used by the `example`s

Order 2 (192 pixels), given in scrambled order: the order-0 cell 1 (pixels 16 … 31) is full, the
order-1 cell 0 (pixels 0 … 3) is full but its parent is not, pixel 5 sits alone in a partial
order-1 cell, pixel 100 is isolated. -/

def exP : List Nat :=
  [100, 5, 31, 30, 29, 28, 16, 17, 18, 19, 20, 21, 22, 23, 24, 25, 26, 27, 3, 0, 2, 1]

theorem exP_nodup : exP.Nodup := by decide
theorem exP_lt : ∀ p ∈ exP, p < 12 * 4 ^ 2 := by decide

-- What the compiled model writes / reads for it (evaluated, not proved):
#guard mocWrite 2 0 exP == [uniqOf 0 1, uniqOf 1 0, uniqOf 2 5, uniqOf 2 100]
#guard mocWrite 2 0 exP == [5, 16, 69, 164]
#guard mocWrite 2 1 exP == [16, 20, 21, 22, 23, 69, 164]
#guard mocWrite 2 2 exP == (exP.map (uniqOf 2 ·)).mergeSort
#guard mocRead [5, 16, 69, 164] == (2, exP.mergeSort)
#guard mocRead (mocWrite 2 0 (List.range 192)) == (0, List.range 12)

/-! ### Child counts: level by level = direct count -/

/-- One `degrade(sum)` step: the count of a cell is the sum of the counts of its four children. -/
theorem count_level_step (m : CountMap) (q : Nat) :
    cmGet (cmDegrade m) q =
      cmGet m (4 * q) + cmGet m (4 * q + 1) + cmGet m (4 * q + 2) + cmGet m (4 * q + 3) :=
  cmGet_cmDegrade m q

/-- The count map computed level by level (1 for valid pixels, then `d` sum-degrades) holds, at
    every cell `q`, the number of valid pixels below `q`. -/
theorem count_level (hnd : P.Nodup) (d q : Nat) :
    cmGet (cmLevel P d) q = (P.filter fun p => p >>> (2 * d) == q).length := by
  rw [cmGet_cmLevel hnd, cnt, List.countP_eq_length_filter]

example : cmGet (cmLevel exP 2) 1 = 16 := by
  rw [count_level exP_nodup]; decide

/-- The meaning of the code's test `uniq_map[pix_shift] == 4**(max_order - uniq_order)`:
    the count equals `4^d` exactly when every descendant of the cell is valid. -/
theorem full_test_iff (hnd : P.Nodup) (d q : Nat) :
    cnt P d q = 4 ^ d ↔ ∀ x, x >>> (2 * d) = q → x ∈ P :=
  cnt_eq_iff_full hnd d q

example : cnt exP 2 1 = 4 ^ 2 ∧ cnt exP 2 0 ≠ 4 ^ 2 := by decide

/-! ### UNIQ coding -/

/-- Decoding `4 * 4^o + p` gives back `(o, p)`. -/
theorem uniq_decode_encode {o p : Nat} (h : p < 12 * 4 ^ o) :
    uniqOrder (uniqOf o p) = o ∧ uniqIndex (uniqOf o p) = p :=
  ⟨uniqOrder_uniqOf h, uniqIndex_uniqOf h⟩

example : uniqOrder (uniqOf 7 196607) = 7 ∧ uniqIndex (uniqOf 7 196607) = 196607 :=
  uniq_decode_encode (by decide)

/-! ### The cells written -/

/-- The UNIQ column is strictly ascending (sorted, no duplicates), for any comparator. -/
theorem moc_sorted (full : Nat → Nat → Bool) (maxOrd minOrd : Nat) (P : List Nat) :
    (mocWriteWith full maxOrd minOrd P).Pairwise (· < ·) :=
  npUnique_sorted _

/-- The order-`maxOrd` pixels covered by the cells written are exactly the input pixels. -/
theorem moc_cover (hnd : P.Nodup) (hlt : ∀ p ∈ P, p < 12 * 4 ^ maxOrd) (x : Nat) :
    (∃ u ∈ mocWrite maxOrd minOrd P, cellCovers maxOrd u x) ↔ x ∈ P :=
  moc_cover' hnd hlt x

example : ∃ u ∈ mocWrite 2 0 exP, cellCovers 2 u 20 :=
  (moc_cover exP_nodup exP_lt 20).2 (by decide)
example : ¬ ∃ u ∈ mocWrite 2 0 exP, cellCovers 2 u 4 :=
  fun h => absurd ((moc_cover exP_nodup exP_lt 4).1 h) (by decide)

/-- Distinct cells written cover disjoint pixel sets. -/
theorem moc_disjoint (hnd : P.Nodup) (hlt : ∀ p ∈ P, p < 12 * 4 ^ maxOrd) {u₁ u₂ : Nat}
    (h₁ : u₁ ∈ mocWrite maxOrd minOrd P) (h₂ : u₂ ∈ mocWrite maxOrd minOrd P) (hne : u₁ ≠ u₂) :
    ¬ ∃ x, cellCovers maxOrd u₁ x ∧ cellCovers maxOrd u₂ x :=
  fun ⟨_, hc₁, hc₂⟩ => hne (moc_disjoint' hnd hlt h₁ h₂ hc₁ hc₂)

example {u₁ u₂ : Nat} (h₁ : u₁ ∈ mocWrite 2 0 exP) (h₂ : u₂ ∈ mocWrite 2 0 exP) (hne : u₁ ≠ u₂) :
    ¬ ∃ x, cellCovers 2 u₁ x ∧ cellCovers 2 u₂ x :=
  moc_disjoint exP_nodup exP_lt h₁ h₂ hne

/-- Every written cell has an order between the coverage order and the sparse order (and a
    pixel index valid at that order). -/
theorem moc_order_ge_cov (hmo : minOrd ≤ maxOrd) (hnd : P.Nodup)
    (hlt : ∀ p ∈ P, p < 12 * 4 ^ maxOrd) {u : Nat} (hu : u ∈ mocWrite maxOrd minOrd P) :
    minOrd ≤ uniqOrder u ∧ uniqOrder u ≤ maxOrd ∧ uniqIndex u < 12 * 4 ^ uniqOrder u :=
  moc_order' hmo hnd hlt hu

example {u : Nat} (hu : u ∈ mocWrite 2 1 exP) : 1 ≤ uniqOrder u ∧ uniqOrder u ≤ 2 :=
  have h := moc_order_ge_cov (by decide) exP_nodup exP_lt hu
  ⟨h.1, h.2.1⟩

/-- Soundness of the early `break`: if at some level no valid pixel lies in a cell that passes
    the fullness test, the same holds at every coarser level (a full cell has full children), so
    the levels skipped by the `break` would not have changed anything. -/
theorem moc_break_sound (hnd : P.Nodup) {d : Nat}
    (h : ∀ p ∈ P, cnt P d (p >>> (2 * d)) ≠ 4 ^ d) {e p : Nat} (hp : p ∈ P) (he : d ≤ e) :
    cnt P e (p >>> (2 * e)) ≠ 4 ^ e :=
  moc_break_sound' hnd h hp he

example : cnt [0, 1, 2, 7] 2 (7 >>> (2 * 2)) ≠ 4 ^ 2 :=
  moc_break_sound (P := [0, 1, 2, 7]) (d := 1) (by decide) (by decide) (by decide) (by decide)

/-- Maximality.  Every written cell is fully valid, and none of its ancestors of order
    `minOrd ≤ o' < order` is: each cell is the coarsest fully valid ancestor that is not coarser
    than the coverage resolution.  (No side condition for the `break`: by `moc_break_sound` it
    never stops the loop too early.) -/
theorem moc_maximal (hnd : P.Nodup) (hlt : ∀ p ∈ P, p < 12 * 4 ^ maxOrd) {u : Nat}
    (hu : u ∈ mocWrite maxOrd minOrd P) :
    (∀ x, cellCovers maxOrd u x → x ∈ P) ∧
    ∀ o', minOrd ≤ o' → o' < uniqOrder u →
      ¬ ∀ x, x >>> (2 * (maxOrd - o')) = uniqIndex u >>> (2 * (uniqOrder u - o')) → x ∈ P :=
  moc_maximal' hnd hlt hu

/-- Conversely every valid pixel is represented: the complete description of the UNIQ column.
    `u` is written iff it is the code of the ancestor `e` levels above some valid pixel `p`,
    where `e ≤ maxOrd - minOrd` is the largest number of levels such that this ancestor is
    fully valid. -/
theorem moc_mem_iff (hnd : P.Nodup) (u : Nat) :
    u ∈ mocWrite maxOrd minOrd P ↔
      ∃ p ∈ P, ∃ e, e ≤ maxOrd - minOrd ∧ Full P e (p >>> (2 * e)) ∧
        (∀ e', e' ≤ maxOrd - minOrd → Full P e' (p >>> (2 * e')) → e' ≤ e) ∧
        u = uniqOf (maxOrd - e) (p >>> (2 * e)) :=
  (mem_mocWrite_iff maxOrd minOrd hnd u).trans
    ⟨fun ⟨p, hp, e, he, hu⟩ => ⟨p, hp, e, he.1, he.2.1, he.2.2, hu⟩,
     fun ⟨p, hp, e, h1, h2, h3, hu⟩ => ⟨p, hp, e, ⟨h1, h2, h3⟩, hu⟩⟩

example {u : Nat} (hu : u ∈ mocWrite 2 0 exP) : ∀ x, cellCovers 2 u x → x ∈ exP :=
  (moc_maximal exP_nodup exP_lt hu).1
/-- On the instance: the order-0 cell 1 (UNIQ 5) is written, being the ancestor 2 levels above
    pixel 20, fully valid, with no further level allowed (`maxOrd - minOrd = 2`). -/
example : uniqOf 0 1 ∈ mocWrite 2 0 exP :=
  (moc_mem_iff exP_nodup _).2 ⟨20, by decide, 2, by decide,
    (full_test_iff exP_nodup 2 _).1 (by decide), fun _ h _ => h, by decide⟩

/-! ### Write, then read -/

/-- The map read from any UNIQ column: pixel `y` (at the file's maximum order `m`) is valid iff
    it lies in one of the cells, expanded to order `m`. -/
theorem moc_read_mem (U : List Nat) (y : Nat) :
    y ∈ (mocRead U).2 ↔
      ∃ u ∈ U, ∃ j, j < 4 ^ ((mocRead U).1 - uniqOrder u) ∧
        y = (uniqIndex u <<< (2 * ((mocRead U).1 - uniqOrder u))) + j := by
  rw [mem_mocRead_snd]
  constructor
  · rintro ⟨u, hu, h⟩
    obtain ⟨j, hj, hy⟩ := (shr_eq_iff _ _ _).1 h
    exact ⟨u, hu, j, by rw [four_pow]; exact hj, hy⟩
  · rintro ⟨u, hu, j, hj, hy⟩
    exact ⟨u, hu, (shr_eq_iff _ _ _).2 ⟨j, by rw [← four_pow]; exact hj, hy⟩⟩

example : 7 ∈ (mocRead [uniqOf 0 0, uniqOf 1 5]).2 ↔
    ∃ u ∈ [uniqOf 0 0, uniqOf 1 5], ∃ j, j < 4 ^ ((mocRead [uniqOf 0 0, uniqOf 1 5]).1 - uniqOrder u) ∧
      7 = (uniqIndex u <<< (2 * ((mocRead [uniqOf 0 0, uniqOf 1 5]).1 - uniqOrder u))) + j :=
  moc_read_mem _ 7

/-- Reading back what was written: the file's order `m` is at most `maxOrd`, and a pixel `x` of
    order `maxOrd` is in the input iff its ancestor at order `m` is a valid pixel of the map read
    (each pixel read stands for its `4^(maxOrd - m)` descendants).  Holds for every `x`, in range
    or not, and for every order (no bound: the repaired reader uses 64-bit orders; the model's
    arithmetic is exact). -/
theorem moc_read_write (hnd : P.Nodup) (hlt : ∀ p ∈ P, p < 12 * 4 ^ maxOrd) :
    (mocRead (mocWrite maxOrd minOrd P)).1 ≤ maxOrd ∧
    ∀ x, x ∈ P ↔ x >>> (2 * (maxOrd - (mocRead (mocWrite maxOrd minOrd P)).1))
                    ∈ (mocRead (mocWrite maxOrd minOrd P)).2 :=
  moc_read_write' hnd hlt

example : 20 >>> (2 * (2 - (mocRead (mocWrite 2 0 exP)).1)) ∈ (mocRead (mocWrite 2 0 exP)).2 :=
  ((moc_read_write exP_nodup exP_lt).2 20).1 (by decide)
example : ¬ 4 >>> (2 * (2 - (mocRead (mocWrite 2 1 exP)).1)) ∈ (mocRead (mocWrite 2 1 exP)).2 :=
  fun h => absurd (((moc_read_write exP_nodup exP_lt).2 4).2 h) (by decide)
example : (mocRead (mocWrite 2 0 exP)).1 ≤ 2 := (moc_read_write exP_nodup exP_lt).1

/-- The instance on which the pre-fix reader failed (one valid pixel, 5, at order 15) now reads
    back correctly. -/
theorem moc_read_write_order15 : mocRead (mocWrite 15 15 [5]) = (15, [5]) :=
  mocRead_order15

/-! ### Witness: the `np.isclose` comparator (the code before the fix) breaks `moc_cover`

`decide` cannot run the writer on `4^9 - 1` pixels, so the witness is assembled from
(1) the arithmetic fact that `isclose` accepts a count that is one short of `4^9`,
(2) a structural theorem valid for every comparator: a cell declared full although its count is
    below `4^d` makes the writer emit a cell containing an invalid pixel (as soon as the loop
    reaches that level), and
(3) their combination on the concrete input `range (4^9 - 1)` at orders (9, 0), proved by
    reasoning about counts instead of evaluating them.  A two-level analogue with a deliberately
    sloppy comparator is evaluated by `#guard`. -/
namespace Witness

/-- One missing child nine levels down is within the `isclose` tolerance. -/
theorem isclose_accepts_one_missing : iscloseF32 (4 ^ 9 - 1) (4 ^ 9) = true := by decide

/-- Up to eight levels the `isclose` test is exact, which is why shallow tests never saw it. -/
theorem isclose_exact_below_9 {d c : Nat} (hd : d ≤ 8) (hc : c < 4 ^ d) :
    iscloseF32 c (4 ^ d) = false := by
  have : 4 ^ d ≤ 4 ^ 8 := Nat.pow_le_pow_right (by omega) hd
  have : (4 : Nat) ^ 8 = 65536 := by decide
  simp only [iscloseF32, decide_eq_false_iff_not]
  omega

example : iscloseF32 (4 ^ 8 - 1) (4 ^ 8) = false := isclose_exact_below_9 (by decide) (by decide)

/-- Structural part, for an arbitrary comparator `full`. -/
theorem overcovers (full : Nat → Nat → Bool) (hnd : P.Nodup) {p d : Nat} (hp : p ∈ P)
    (hd1 : 1 ≤ d) (hd : d ≤ maxOrd - minOrd)
    (hreach : ∀ e, 1 ≤ e → e < d → ∃ p' ∈ P, full (cnt P e (p' >>> (2 * e))) (4 ^ e) = true)
    (hfull : full (cnt P d (p >>> (2 * d))) (4 ^ d) = true)
    (hcnt : cnt P d (p >>> (2 * d)) < 4 ^ d) :
    ∃ e, d ≤ e ∧ e ≤ maxOrd - minOrd ∧
      uniqOf (maxOrd - e) (p >>> (2 * e)) ∈ mocWriteWith full maxOrd minOrd P ∧
      ∃ x, x ∉ P ∧ x >>> (2 * e) = p >>> (2 * e) :=
  mocWriteWith_overcovers full maxOrd minOrd hnd hp hd1 hd
    (fun e h1 h2 => List.any_eq_true.2 (hreach e h1 h2)) hfull hcnt

example : ∃ e, 1 ≤ e ∧ e ≤ 1 - 0 ∧
    uniqOf (1 - e) (0 >>> (2 * e)) ∈ mocWriteWith (fun c t => decide (t ≤ c + 1)) 1 0 [0, 1, 2] ∧
    ∃ x, x ∉ [0, 1, 2] ∧ x >>> (2 * e) = 0 >>> (2 * e) :=
  overcovers (P := [0, 1, 2]) _ (by decide) (p := 0) (d := 1) (by decide) (by decide) (by decide)
    (fun e h1 h2 => absurd h2 (by omega)) (by decide) (by decide)

#guard mocWriteWith (fun c t => decide (t ≤ c + 1)) 1 0 [0, 1, 2] == [uniqOf 0 0]
#guard mocWrite 1 0 [0, 1, 2] == [uniqOf 1 0, uniqOf 1 1, uniqOf 1 2]

/-- The defect: `4^9 - 1` of the `4^9` order-9 pixels of the order-0 cell 0 are valid, yet the
    `isclose` writer emits the whole order-0 cell (UNIQ code 4), which contains the invalid
    pixel `4^9 - 1 = 262143`. -/
theorem moc_isclose_wrong :
    4 ∈ mocWriteWith iscloseF32 9 0 (List.range (4 ^ 9 - 1)) ∧
    cellCovers 9 4 262143 ∧ 262143 ∉ List.range (4 ^ 9 - 1) :=
  ⟨isclose_writes_whole_cell, ⟨262143, by decide, by decide⟩, by simp⟩

/-- Hence `moc_cover` is false for the `isclose` writer. -/
theorem moc_cover_fails_isclose :
    ¬ ∀ x, (∃ u ∈ mocWriteWith iscloseF32 9 0 (List.range (4 ^ 9 - 1)), cellCovers 9 u x) ↔
        x ∈ List.range (4 ^ 9 - 1) :=
  fun h => moc_isclose_wrong.2.2 ((h 262143).1 ⟨4, moc_isclose_wrong.1, moc_isclose_wrong.2.1⟩)

/-! #### Witness: the PRE-FIX reader (`int32` orders), `mocReadI32`

These three theorems are about the reader as it was BEFORE the commit "fix: reading a MOC with
cells of order 15 or more"; they do not concern the current code (`mocRead`, for which
`moc_read_write` holds without restriction). -/

/-- Pre-fix reader: its index computation `uniq - int32(4*4**order)` decodes correctly up to
    order 14 … -/
theorem uniq_decode_encode_i32_partial {o p : Nat} (h : p < 12 * 4 ^ o) (ho : o ≤ 14) :
    uniqIndexI32 (uniqOf o p) = p := by
  rw [uniqIndexI32, uniqOrder_uniqOf h, uniqBaseI32_eq ho, uniqOf]; omega

example : uniqIndexI32 (uniqOf 14 3221225471) = 3221225471 :=
  uniq_decode_encode_i32_partial (by decide) (by decide)

/-- … and at order 15 returns the UNIQ code itself (the offset wraps to 0). -/
theorem uniq_decode_i32_fails_order15 : uniqIndexI32 (uniqOf 15 5) = uniqOf 15 5 := by
  rw [uniqIndexI32, uniqOrder_uniqOf (by decide), uniqBaseI32_big (by omega)]; rfl

/-- Pre-fix reader: the write/read round trip held exactly when the file's maximum order was
    at most 14. -/
theorem moc_read_write_i32_partial (hnd : P.Nodup) (hlt : ∀ p ∈ P, p < 12 * 4 ^ maxOrd)
    (h14 : (mocReadI32 (mocWrite maxOrd minOrd P)).1 ≤ 14) :
    (mocReadI32 (mocWrite maxOrd minOrd P)).1 ≤ maxOrd ∧
    ∀ x, x ∈ P ↔ x >>> (2 * (maxOrd - (mocReadI32 (mocWrite maxOrd minOrd P)).1))
                    ∈ (mocReadI32 (mocWrite maxOrd minOrd P)).2 :=
  moc_read_write_i32' hnd hlt h14

example : (mocReadI32 (mocWrite 2 0 exP)).1 ≤ 14 := by
  refine Nat.le_trans (mocReadWith_fst_le _ _ fun u hu => ?_) (show 2 ≤ 14 by decide)
  exact (moc_order_ge_cov (by decide) exP_nodup exP_lt hu).2.1

/-- Pre-fix reader, closed counterexample: one valid pixel, 5, at order 15.  The file contains
    the single code `4 * 4^15 + 5`; the pre-fix reader returned order 15 and the "pixel"
    4294967301, so pixel 5 was lost.  (4294967301 < 12 * 4^15, which is why the old code marked
    that wrong pixel valid silently; for pixels ≥ 8 * 4^15 it raised `IndexError` instead.)
    Compare `moc_read_write_order15` for the repaired reader. -/
theorem moc_read_write_i32_fails_order15 :
    mocReadI32 (mocWrite 15 15 [5]) = (15, [4294967301]) ∧
    ¬ (5 ∈ [5] ↔ 5 >>> (2 * (15 - (mocReadI32 (mocWrite 15 15 [5])).1))
                    ∈ (mocReadI32 (mocWrite 15 15 [5])).2) := by
  refine ⟨mocReadI32_order15, ?_⟩
  rw [mocReadI32_order15]; decide

end Witness

/-! ## Driver level: `moc` / `mocread` (Model/Dispatch.lean `opMoc`, `opMocread`)

The theorems above are about `mocWrite` / `mocRead` on a pixel list.  The ones below are about the
two protocol operations, in any world satisfying the global invariant `World.Good` (every
reachable world does: `reachable_moc`, `reachable_moc_ok`), for a map of ANY kind found under a
name.  Helpers: Lemmas/ApiMoc.lean.

  driver_moc_answer        (1a) the answer of `moc`; ValueError (not an empty list) on a map
                                without valid pixels; which column is stored
  driver_moc_cells         (1b) sorted; orders within [covord, spord]; disjoint; EXACT cover of the
                                valid pixels; maximal; no four siblings above the coverage order
  driver_mocread_order, driver_mocread_order_eq_spord
                           (2a) the order the reader chooses: the largest order among the cells
  driver_mocread_answer, driver_mocread_empty
                           (2b) the answer of `mocread`: ValueError exactly for `covord >` that order
  driver_mocread_map       (2c) the boolean map bound
  driver_moc_round_trip    (2d) valid in `m` at `p` ⇔ valid in the map read at the ancestor of `p`
  driver_moc_protocol, driver_moc_same_valid
                           (3)  `moc`, `mocread`, `valid`, `nvalid` as protocol steps
  uniq_coding_exact, uniq_log_argument
                           (4)  every order; where the library's float64 `log2` breaks (NEW finding)

Error kind: for `covord >` the reader's order the model answers ValueError (`apiMakeEmpty`); the
library's `make_empty(nside_coverage > nside_sparse)` has no such check and fails with an
accidental `TypeError` (a fractional array size) — an error in both. -/

section driver
open ApiMoc
open C02 (validSet)

/-- the string the driver answers for a ValueError -/
theorem errLine_value : errLine .value = "err ValueError" := by decide

/-- "valid" is the map kind's own notion (`Kind.valid`, Model/Value.lean): a plain map (numeric
    with any sentinel, boolean) and a bit-packed map — value ≠ sentinel; a wide mask — some byte
    ≠ 0; a record map — primary field ≠ sentinel.  `moc` accepts a map of EVERY kind. -/
theorem valid_is_kind_valid (m : MapObj) : m.vc.valid = m.kind.valid m.sent := rfl

/-- **(1a) what `moc n f=F` answers**, in any good world (every reachable world is one:
    `reachable_moc`), for a map of ANY kind found under `n` (views included): `err ValueError`
    when the map has no valid pixel — NOT an empty list: the library takes `np.max` of an empty
    array — and nothing is stored; otherwise the UNIQ column `mocOf m` is stored under `F`
    (default name `f`; an earlier column of that name is replaced) and printed in ascending order. -/
theorem driver_moc_answer {w : World} (hw : w.Good) {a : Args} {n : String} {rest : List String}
    {m : MapObj} (ha : a.pos = n :: rest) (hg : w.get? n = some m) :
    stepArgs w "moc" a =
      if validSet m.c m.vc m.st = [] then (w, "err ValueError")
      else ({ w with mocs := (a.getD "f" "f", mocOf m) ::
                w.mocs.filter (·.1 != a.getD "f" "f") }, showNats (mocOf m)) := by
  have hok := hw.get hg
  rw [← errLine_value]
  exact opMoc_eq ha hg hok.1 hok.2.1.blankInvalid

/-- **(1b) the cells written** for a map `m` that is `Ok`: the column is strictly ascending;
    every code is `4·4^o + i` of a cell with `covord ≤ o ≤ spord` and `i < 12·4^o`; distinct
    cells are disjoint; a fine pixel lies under a cell EXACTLY when it is a valid pixel of `m`
    (no invalid pixel covered, no valid pixel missed, nothing out of range); every cell is fully
    valid and no ancestor of it down to the coverage order is; above the coverage order no four
    sibling cells are all present; the column is empty exactly for a map without valid pixels
    (which `moc` refuses). -/
theorem driver_moc_cells {m : MapObj} (h : m.Ok) :
    (mocOf m).Pairwise (· < ·) ∧
    (∀ u ∈ mocOf m, m.covord ≤ uniqOrder u ∧ uniqOrder u ≤ m.spord ∧
      uniqIndex u < 12 * 4 ^ uniqOrder u ∧ u = uniqOf (uniqOrder u) (uniqIndex u)) ∧
    (∀ u₁ ∈ mocOf m, ∀ u₂ ∈ mocOf m, u₁ ≠ u₂ →
      ¬ ∃ x, cellCovers m.spord u₁ x ∧ cellCovers m.spord u₂ x) ∧
    (∀ p, (∃ u ∈ mocOf m, cellCovers m.spord u p) ↔ p < m.npix ∧ m.vc.valid (m.abs p) = true) ∧
    (∀ u ∈ mocOf m, (∀ x, cellCovers m.spord u x → m.vc.valid (m.abs x) = true) ∧
      ∀ o', m.covord ≤ o' → o' < uniqOrder u →
        ¬ ∀ x, x >>> (2 * (m.spord - o')) = uniqIndex u >>> (2 * (uniqOrder u - o')) →
          x < m.npix ∧ m.vc.valid (m.abs x) = true) ∧
    (∀ u ∈ mocOf m, m.covord < uniqOrder u →
      ¬ ∀ k, k < 4 → uniqOf (uniqOrder u) (4 * (uniqIndex u / 4) + k) ∈ mocOf m) ∧
    (mocOf m = [] ↔ ∀ p, p < m.npix → m.vc.valid (m.abs p) = false) := by
  have hnd := validSet_nodup m
  have hlt := validSet_lt m h.1
  have hmem : ∀ p, p ∈ validSet m.c m.vc m.st ↔ p < m.npix ∧ m.vc.valid (m.abs p) = true :=
    fun p => mem_validSet
  refine ⟨moc_sorted _ _ _ _, ?_, ?_, ?_, ?_, ?_, ?_⟩
  · intro u hu
    obtain ⟨h1, h2, h3⟩ := moc_order_ge_cov h.1.1 hnd hlt hu
    refine ⟨h1, h2, h3, ?_⟩
    unfold uniqOf uniqIndex
    have : 4 * 4 ^ uniqOrder u ≤ u := by
      obtain ⟨p, hp, e, he, rfl⟩ := (mem_mocWrite_iff _ _ hnd u).1 hu
      have := he.1
      rw [uniqOrder_cellU (hlt p hp) (by omega)]
      unfold cellU uniqOf
      exact Nat.le_add_right _ _
    omega
  · intro u₁ h₁ u₂ h₂ hne
    exact moc_disjoint hnd hlt h₁ h₂ hne
  · intro p
    rw [← hmem]
    exact moc_cover hnd hlt p
  · intro u hu
    obtain ⟨g1, g2⟩ := moc_maximal hnd hlt hu
    refine ⟨fun x hx => ((hmem x).1 (g1 x hx)).2, fun o' h1 h2 hall => g2 o' h1 h2 ?_⟩
    intro x hx
    exact (hmem x).2 (hall x hx)
  · intro u hu ho
    exact moc_no_four_siblings hnd hlt hu ho
  · unfold mocOf
    rw [mocWrite_eq_nil_iff hnd]
    constructor
    · intro hnil p hp
      cases hv : m.vc.valid (m.abs p) with
      | false => rfl
      | true =>
        have := (hmem p).2 ⟨hp, hv⟩
        rw [hnil] at this; cases this
    · intro hall
      apply List.eq_nil_iff_forall_not_mem.2
      intro p hp
      obtain ⟨h1, h2⟩ := (hmem p).1 hp
      rw [hall p h1] at h2; cases h2

/-- **(2a) the order the reader chooses**: the LARGEST order among the cells of the column — not
    the sparse order of the map the column came from, which the file does not record (the model
    has no `MOCORDER`; the library's reader ignores it too).  For the column of a map with a
    valid pixel it lies between the coverage order and the sparse order, and is attained. -/
theorem driver_mocread_order {m : MapObj} (h : m.Ok) (hne : mocOf m ≠ []) :
    m.covord ≤ (mocRead (mocOf m)).1 ∧ (mocRead (mocOf m)).1 ≤ m.spord ∧
    (∃ u ∈ mocOf m, uniqOrder u = (mocRead (mocOf m)).1) ∧
    ∀ u ∈ mocOf m, uniqOrder u ≤ (mocRead (mocOf m)).1 := by
  have hnd := validSet_nodup m
  have hlt := validSet_lt m h.1
  obtain ⟨u, hu, he⟩ := mocRead_fst_attained hne
  have ho := moc_order_ge_cov h.1.1 hnd hlt hu
  exact ⟨by omega, by omega, ⟨u, hu, he⟩, fun u hu => uniqOrder_le_mocRead_fst hu⟩

/-- … it is the sparse order itself exactly when some cell could not be merged at all: there is
    a valid pixel whose three siblings are not all valid, or the map has `covord = spord` -/
theorem driver_mocread_order_eq_spord {m : MapObj} (h : m.Ok) (hne : mocOf m ≠ []) :
    (mocRead (mocOf m)).1 = m.spord ↔
      ∃ p, p < m.npix ∧ m.vc.valid (m.abs p) = true ∧
        (m.covord = m.spord ∨ ∃ x, x >>> 2 = p >>> 2 ∧ ¬ (x < m.npix ∧ m.vc.valid (m.abs x) = true)) := by
  have hnd := validSet_nodup m
  have hlt := validSet_lt m h.1
  have hmem : ∀ p, p ∈ validSet m.c m.vc m.st ↔ p < m.npix ∧ m.vc.valid (m.abs p) = true :=
    fun p => mem_validSet
  obtain ⟨_, hle, ⟨u0, hu0, he0⟩, hall⟩ := driver_mocread_order h hne
  have hcov := h.1.1
  constructor
  · intro heq
    rw [heq] at he0
    obtain ⟨p, hp, e, he, rfl⟩ := (mem_mocWrite_iff _ _ hnd u0).1 hu0
    have hen := he.1
    rw [uniqOrder_cellU (hlt p hp) (by omega)] at he0
    have he00 : e = 0 := by omega
    subst he00
    obtain ⟨hp1, hp2⟩ := (hmem p).1 hp
    refine ⟨p, hp1, hp2, ?_⟩
    by_cases hcs : m.covord = m.spord
    · exact .inl hcs
    · right
      -- one level up is allowed but not full
      have hnf : ¬ Full (validSet m.c m.vc m.st) 1 (p >>> (2 * 1)) := by
        intro hf
        have := he.2.2 1 (by omega) hf
        omega
      unfold Full at hnf
      have : ∃ x, x >>> (2 * 1) = p >>> (2 * 1) ∧ x ∉ validSet m.c m.vc m.st := by
        apply Classical.byContradiction
        intro hno
        apply hnf
        intro x hx
        apply Classical.byContradiction
        intro hx'
        exact hno ⟨x, hx, hx'⟩
      obtain ⟨x, hx1, hx2⟩ := this
      exact ⟨x, hx1, fun hv => hx2 ((hmem x).2 hv)⟩
  · rintro ⟨p, hp1, hp2, hor⟩
    have hp := (hmem p).2 ⟨hp1, hp2⟩
    have hcell := isCellOf_lev hnd hp (m.spord - m.covord)
    have hu := (mem_mocWrite_iff m.spord m.covord hnd _).2 ⟨p, hp, _, hcell, rfl⟩
    have hlev : lev exactEq (validSet m.c m.vc m.st) (m.spord - m.covord) p = 0 := by
      rcases hor with hcs | ⟨x, hx1, hx2⟩
      · have := hcell.1; omega
      · apply Classical.byContradiction
        intro hne0
        have hf := hcell.2.1
        have h1 : Full (validSet m.c m.vc m.st) 1 (p >>> (2 * 1)) :=
          full_down_le (by omega) hf
        exact hx2 ((hmem x).1 (h1 x hx1))
    have := hall _ hu
    rw [hlev, uniqOrder_cellU (hlt p hp) (by omega)] at this
    omega

/-- the cells of a column written by `moc` are cells of the sphere -/
theorem mocOf_cells {m : MapObj} (h : m.Ok) : ∀ u ∈ mocOf m, uniqIndex u < 12 * 4 ^ uniqOrder u :=
  fun u hu => ((driver_moc_cells h).2.1 u hu).2.2.1

/-- **(2b) what `mocread r=R f=F covord=c` answers** when `F` names a stored column `U` whose
    cells are cells of the sphere (every column `moc` stores is one): `err ValueError` exactly when
    `c` exceeds the largest order among the cells (`make_empty` refuses `nside_coverage >
    nside_sparse`), else `ok`, binding `R` (default `tmp`) to `mocMap c U`.  Without such a
    column, or without `covord=`: `bad-op:no-such-map`. -/
theorem driver_mocread_answer {w : World} {a : Args} {U : List Nat} {c : Nat}
    (hf : (w.mocs.find? (·.1 == a.getD "f" "f")).map (·.2) = some U)
    (hc : a.nat? "covord" = some c) (hU : ∀ u ∈ U, uniqIndex u < 12 * 4 ^ uniqOrder u) :
    stepArgs w "mocread" a =
      if (mocRead U).1 < c then (w, "err ValueError")
      else (w.bind (a.getD "r" "tmp") (mocMap c U), "ok") := by
  rw [← errLine_value]
  exact opMocread_eq hf hc hU

/-- … an EMPTY column (the driver never stores one: `moc` refuses a map without valid pixels)
    would be read as a map of sparse order 0 without valid pixels, so only `covord=0` is accepted -/
theorem driver_mocread_empty {w : World} {a : Args} {c : Nat}
    (hf : (w.mocs.find? (·.1 == a.getD "f" "f")).map (·.2) = some [])
    (hc : a.nat? "covord" = some c) :
    stepArgs w "mocread" a =
      if 0 < c then (w, "err ValueError") else (w.bind (a.getD "r" "tmp") (mocMap c []), "ok") := by
  have := driver_mocread_answer hf hc (fun u hu => nomatch hu)
  rw [mocRead_nil] at this
  exact this

/-- **(2c) the map read**, for `c ≤` the largest order `mo` among the cells: `Ok`, plain
    boolean with sentinel `False`, orders `(c, mo)`, owning, no cached count; pixel `y` (at order
    `mo`) is valid exactly when it lies in one of the cells -/
theorem driver_mocread_map {U : List Nat} {c : Nat} (hle : c ≤ (mocRead U).1)
    (hU : ∀ u ∈ U, uniqIndex u < 12 * 4 ^ uniqOrder u) :
    (mocMap c U).Ok ∧ (mocMap c U).covord = c ∧ (mocMap c U).spord = (mocRead U).1 ∧
    (mocMap c U).kind = .plain .bool ∧ (mocMap c U).sent = .bool false ∧
    (mocMap c U).view = none ∧ (mocMap c U).cache = none ∧
    ∀ y, y < 12 * 4 ^ (mocRead U).1 →
      ((mocMap c U).vc.valid ((mocMap c U).abs y) = true ↔
        ∃ u ∈ U, y >>> (2 * ((mocRead U).1 - uniqOrder u)) = uniqIndex u) := by
  obtain ⟨h1, _, h3⟩ := mocMap_spec hle hU
  refine ⟨h1, rfl, rfl, rfl, rfl, rfl, rfl, fun y hy => ?_⟩
  rw [h3 y hy, mem_mocRead_snd]

/-- **(2d) write, then read**: for a map `m` with a valid pixel, reading its column with any
    `c ≤ mo` (in particular with the map's own coverage order: `covord ≤ mo` always) gives a map
    `R` at sparse order `mo ≤ spord` such that a fine pixel `p` is valid in `m` EXACTLY when its
    ancestor at order `mo` is valid in `R`; conversely a pixel of `R` is valid exactly when all —
    equivalently any — of its `4^(spord-mo)` descendants are valid in `m` -/
theorem driver_moc_round_trip {m : MapObj} (h : m.Ok) {c : Nat}
    (hle : c ≤ (mocRead (mocOf m)).1) :
    (∀ p, p < m.npix →
      (m.vc.valid (m.abs p) = true ↔
        (mocMap c (mocOf m)).vc.valid
          ((mocMap c (mocOf m)).abs (p >>> (2 * (m.spord - (mocRead (mocOf m)).1)))) = true)) ∧
    (∀ y, y < 12 * 4 ^ (mocRead (mocOf m)).1 →
      ((mocMap c (mocOf m)).vc.valid ((mocMap c (mocOf m)).abs y) = true ↔
        ∀ x, x >>> (2 * (m.spord - (mocRead (mocOf m)).1)) = y →
          x < m.npix ∧ m.vc.valid (m.abs x) = true)) := by
  have hnd := validSet_nodup m
  have hlt := validSet_lt m h.1
  have hmem : ∀ p, p ∈ validSet m.c m.vc m.st ↔ p < m.npix ∧ m.vc.valid (m.abs p) = true :=
    fun p => mem_validSet
  have hmo : (mocRead (mocOf m)).1 ≤ m.spord := (moc_read_write (minOrd := m.covord) hnd hlt).1
  have hrt : ∀ x, x ∈ validSet m.c m.vc m.st ↔
      x >>> (2 * (m.spord - (mocRead (mocOf m)).1)) ∈ (mocRead (mocOf m)).2 :=
    (moc_read_write (minOrd := m.covord) hnd hlt).2
  obtain ⟨_, _, hv⟩ := mocMap_spec hle (mocOf_cells h)
  have hnp : m.npix = 12 * 4 ^ m.spord := ApiDegrade.cfgOf_npix h.1.1
  have hanc : ∀ p, p < m.npix →
      p >>> (2 * (m.spord - (mocRead (mocOf m)).1)) < 12 * 4 ^ (mocRead (mocOf m)).1 := by
    intro p hp
    rw [hnp] at hp
    have := shr_lt_of_lt hp (Nat.sub_le m.spord (mocRead (mocOf m)).1)
    rw [show m.spord - (m.spord - (mocRead (mocOf m)).1) = (mocRead (mocOf m)).1 from by
      have : (mocRead (mocOf m)).1 ≤ m.spord := hmo
      omega] at this
    exact this
  constructor
  · intro p hp
    rw [hv _ (hanc p hp)]
    constructor
    · intro hval; exact (hrt p).1 ((hmem p).2 ⟨hp, hval⟩)
    · intro hy; exact ((hmem p).1 ((hrt p).2 hy)).2
  · intro y hy
    rw [hv y hy]
    constructor
    · intro hyS x hx
      exact (hmem x).1 ((hrt x).2 (by rw [hx]; exact hyS))
    · intro hall
      -- `y` has a descendant: `y <<< 2d`
      have hx : (y <<< (2 * (m.spord - (mocRead (mocOf m)).1))) >>>
          (2 * (m.spord - (mocRead (mocOf m)).1)) = y := by
        rw [Nat.shiftLeft_shiftRight]
      have := (hrt _).1 ((hmem _).2 (hall _ hx))
      rw [hx] at this
      exact this

/-- **(3a) the round trip as protocol steps**: `moc n f=F`, then `mocread r=R f=F covord=c` with
    `c ≤ mo` answers `ok`, and then `valid R` prints the ascending list of the pixels the reader
    marked and `nvalid R` their number; `valid n` prints the ascending valid pixels of `m`, and
    the two counts are related by the factor `4^(spord - mo)`.  (`a₀ … a₃`: the parsed arguments
    of the four lines.) -/
theorem driver_moc_protocol {w : World} (hw : w.Good) {a₀ a₁ a₂ : Args} {n R : String}
    {rest₀ rest₂ : List String} {m : MapObj} {c : Nat}
    (ha₀ : a₀.pos = n :: rest₀) (hg : w.get? n = some m)
    (hne : validSet m.c m.vc m.st ≠ [])
    (hf : a₁.getD "f" "f" = a₀.getD "f" "f") (hc : a₁.nat? "covord" = some c)
    (hR : a₁.getD "r" "tmp" = R) (hle : c ≤ (mocRead (mocOf m)).1) (ha₂ : a₂.pos = R :: rest₂) :
    let w₁ := (stepArgs w "moc" a₀).1
    let w₂ := (stepArgs w₁ "mocread" a₁).1
    (stepArgs w "moc" a₀).2 = showNats (mocOf m) ∧
    (stepArgs w₁ "mocread" a₁).2 = "ok" ∧
    w₂.get? R = some (mocMap c (mocOf m)) ∧
    (stepArgs w₂ "valid" a₂).2 =
      showList toString ((mocRead (mocOf m)).2.map fun p => ((p : Nat) : Int)) ∧
    (stepArgs w "valid" a₀).2 =
      showList toString ((validSet m.c m.vc m.st).map fun p => ((p : Nat) : Int)) ∧
    (stepArgs w₂ "nvalid" a₂).2 = toString (mocRead (mocOf m)).2.length ∧
    (validSet m.c m.vc m.st).length =
      (mocRead (mocOf m)).2.length * 4 ^ (m.spord - (mocRead (mocOf m)).1) := by
  have hok := hw.get hg
  have hcells := mocOf_cells hok
  intro w₁ w₂
  have e₁ : stepArgs w "moc" a₀ = ({ w with mocs := ((a₀.getD "f" "f", mocOf m) ::
      w.mocs.filter (·.1 != a₀.getD "f" "f")) }, showNats (mocOf m)) := by
    rw [driver_moc_answer hw ha₀ hg, if_neg hne]
  have hw₁ : w₁ = { w with mocs := ((a₀.getD "f" "f", mocOf m) ::
      w.mocs.filter (·.1 != a₀.getD "f" "f")) } := by show (stepArgs w "moc" a₀).1 = _; rw [e₁]
  have hfind : (w₁.mocs.find? (·.1 == a₁.getD "f" "f")).map (·.2) = some (mocOf m) := by
    rw [hw₁, hf]; exact find_mocs_cons _ _ _
  have e₂ : stepArgs w₁ "mocread" a₁ = (w₁.bind R (mocMap c (mocOf m)), "ok") := by
    rw [driver_mocread_answer hfind hc hcells, if_neg (by omega), hR]
  have hw₂ : w₂ = w₁.bind R (mocMap c (mocOf m)) := by
    show (stepArgs w₁ "mocread" a₁).1 = _; rw [e₂]
  have hgR : w₂.get? R = some (mocMap c (mocOf m)) := by
    rw [hw₂]; exact get?_bind_self _ _ _ rfl
  obtain ⟨hRok, _, _⟩ := mocMap_spec hle hcells
  have hvs := validSet_mocMap hle hcells
  refine ⟨by rw [e₁], by rw [e₂], hgR, ?_, ?_, ?_, ?_⟩
  · show (opValid w₂ a₂).2 = _
    rw [opValid_eq ha₂ hgR hRok.1 hRok.2.1.blankInvalid, hvs]
  · show (opValid w a₀).2 = _
    rw [opValid_eq ha₀ hg hok.1 hok.2.1.blankInvalid]
  · show (opNvalid w₂ a₂).2 = _
    rw [opNvalid_eq ha₂ hgR rfl (fun hk => nomatch hk) hRok.1 hRok.2.1.blankInvalid, hvs]
  · exact length_read_write (validSet_nodup m) (validSet_lt m hok.1)

/-- **(3b)** when the reader's order is the sparse order of the map (`driver_mocread_order_eq_spord`
    says when), the map read has EXACTLY the valid pixels of the source: `valid R` and `valid n`
    print the same line, `nvalid` the same number -/
theorem driver_moc_same_valid {m : MapObj} (h : m.Ok)
    (hmo : (mocRead (mocOf m)).1 = m.spord) :
    (mocRead (mocOf m)).2 = validSet m.c m.vc m.st := by
  have hnd := validSet_nodup m
  have hlt := validSet_lt m h.1
  obtain ⟨_, hrt⟩ := moc_read_write (minOrd := m.covord) hnd hlt
  refine sorted_ext_nat (mocRead_snd_sorted _) (validSet_sorted _ _ _) fun x => ?_
  have := hrt x
  unfold mocOf at hmo
  rw [hmo, Nat.sub_self, Nat.mul_zero, Nat.shiftRight_zero] at this
  exact this.symm

/-! ### the same along any protocol history -/

/-- every reachable world is good, so (1a) holds after any history -/
theorem reachable_moc (lines : List String) {a : Args} {n : String} {rest : List String}
    {m : MapObj} (ha : a.pos = n :: rest) (hg : (runLines lines).get? n = some m) :
    stepArgs (runLines lines) "moc" a =
      if validSet m.c m.vc m.st = [] then (runLines lines, "err ValueError")
      else ({ runLines lines with mocs := (a.getD "f" "f", mocOf m) ::
                (runLines lines).mocs.filter (·.1 != a.getD "f" "f") }, showNats (mocOf m)) :=
  driver_moc_answer (Good.runLines lines) ha hg

/-- … and the map found there is `Ok`, so (1b), (2) and (3) apply to it -/
theorem reachable_moc_ok (lines : List String) {n : String} {m : MapObj}
    (hg : (runLines lines).get? n = some m) : m.Ok :=
  C04.reachable_get_ok lines n m hg

/-! ### (4) high orders -/

/-- **the UNIQ coding `4·4^o + i` is injective and decodes correctly for EVERY order**: the
    model computes `uniqOrder` with the exact integer `Nat.log2` on unbounded naturals — no 2^32
    (F44) and no 2^53 limit.  See the note below for what the library does. -/
theorem uniq_coding_exact {o o' p p' : Nat} (h : p < 12 * 4 ^ o) (h' : p' < 12 * 4 ^ o') :
    (uniqOrder (uniqOf o p) = o ∧ uniqIndex (uniqOf o p) = p) ∧
    (uniqOf o p = uniqOf o' p' → o = o' ∧ p = p') :=
  ⟨uniq_decode_encode h, uniqOf_inj h h'⟩

/-- where the exactness of `log2` matters: the argument `uniq // 4` of the logarithm ranges over
    `[4^o, 4^(o+1))`, and for the last pixels of the sphere it is within a few units of the next
    power of two, `2^(2o+2)` (for the very last pixel: one below it) -/
theorem uniq_log_argument {o p : Nat} (h : p < 12 * 4 ^ o) :
    4 ^ o ≤ uniqOf o p / 4 ∧ uniqOf o p / 4 < 2 ^ (2 * o + 2) ∧
    uniqOf o (12 * 4 ^ o - 1) / 4 = 2 ^ (2 * o + 2) - 1 := by
  have e : 2 ^ (2 * o + 2) = 4 * 4 ^ o := by
    rw [Nat.pow_add, ← four_pow]; omega
  have hpos : 0 < 4 ^ o := Nat.pow_pos (by decide)
  unfold uniqOf
  rw [e]
  omega

/-! NOTE (library, NEW finding; the model is exact here and `moc_read_write` holds for every
order).  `_read_moc_fits` evaluates `floor(np.log2(uniq // 4))` in float64.  By
`uniq_log_argument` the argument comes within a few units of `2^(2o+2)`; from order 24 on
(`2o+2 ≥ 50`) the float64 logarithm of such a number rounds UP to exactly `2o+2`, the order is
decoded as `o+1` and the index goes negative.  Reproduced on the library (97 s): nside_coverage
4096, nside_sparse 2^24, the single valid pixel `12·4^24 − 1`; `write_moc` writes the correct
UNIQ 4503599627370495 but `MOCORDER = 25` (the writer's header line uses the same float
logarithm), and reading the file raises `IndexError: index -13510798815002625 is out of bounds`.
Affected pixels (the reader's formula evaluated with numpy): the last 8 pixels of the sphere at
order 24, 44 at 25, 180 at 26, 720 at 27, 2880 at 28, 11520 at order 29; orders ≤ 23 are exact.
Model/Moc.lean states the assumption ("`np.log2` … exact floor … true for uniq < 2^50"). -/

example : uniqOrder (uniqOf 29 (12 * 4 ^ 29 - 1)) = 29 ∧
    uniqIndex (uniqOf 29 (12 * 4 ^ 29 - 1)) = 12 * 4 ^ 29 - 1 :=
  (uniq_coding_exact (o' := 0) (p' := 0) (by decide) (by decide)).1
example : uniqOf 24 (12 * 4 ^ 24 - 1) / 4 = 2 ^ 50 - 1 := (uniq_log_argument (p := 0) (by decide)).2.2

/-! ### non-vacuity: protocol histories (evaluated by the compiler: the kernel runs neither the
string parser nor `Std.HashMap`) -/

/-- the answers of a history -/
def answers (h : List String) : List String :=
  (h.foldl (fun (ws : World × List String) l => ((step ws.1 l).1, ws.2 ++ [(step ws.1 l).2])) ({}, [])).2

-- an int32 map with sentinel 7 at orders (0, 2): the order-1 cell 1 (pixels 16–19) is full, pixel
-- 3 holds the sentinel (invalid), so the order-1 cell 0 is not.  `moc` prints the ascending column
-- (cell (1,4) = 20, then order-2 pixels), `mocread covord=0` gives a boolean map at order 2 with the
-- same `valid` line and the same `nvalid` as the source.
#guard answers ["cfg m kind=plain dtype=i4 covord=0 spord=2 sentinel=7",
    "upd m pix=100,5,16,17,18,19,0,1,2,3 vals=1,1,1,1,1,1,1,1,1,7",
    "moc m f=F", "mocread r=R f=F covord=0", "valid R", "valid m", "nvalid R", "nvalid m", "info R"]
  == ["ok", "ok", "20,64,65,66,69,164", "ok", "0,1,2,5,16,17,18,19,100", "0,1,2,5,16,17,18,19,100",
      "9", "9", "kind=plain:b1 covord=0 spord=2 sentinel=F"]

-- a boolean map whose only valid pixels fill coverage pixel 1: the column is the single order-0
-- cell `4·4^0 + 1 = 5`, the map read has sparse order 0 (< the source's 1), one valid pixel
-- standing for 4, and `covord=1` is refused
#guard answers ["cfg m kind=plain dtype=b1 covord=0 spord=1", "upd m pix=4,5,6,7 val=T",
    "moc m f=F", "mocread r=R f=F covord=0", "valid R", "valid m", "nvalid R", "nvalid m", "info R",
    "mocread r=Q f=F covord=1"]
  == ["ok", "ok", "5", "ok", "1", "4,5,6,7", "1", "4", "kind=plain:b1 covord=0 spord=0 sentinel=F",
      "err ValueError"]

-- the empty map: ValueError, nothing stored
#guard answers ["cfg m kind=plain dtype=f8 covord=1 spord=2", "moc m f=F", "mocread r=R f=F covord=0"]
  == ["ok", "err ValueError", "bad-op:no-such-map"]

-- every kind is accepted: a wide mask (a zero row is invalid), a record map (validity of the
-- primary field), a view of a record field, a bit-packed map
#guard answers ["cfg m kind=wide maxbits=16 covord=0 spord=1", "upd m pix=0,9 vals=b3.1,b0.0",
    "moc m f=F", "valid m"] == ["ok", "ok", "16", "0"]
#guard answers ["cfg m kind=rec covord=0 spord=1 fields=i4,f8 primary=0", "upd m pix=3,9 vals=r4;1,r6;3",
    "moc m f=F", "single m field=1 r=v", "moc v f=G", "mocread r=R f=G covord=1", "valid R"]
  == ["ok", "ok", "19,25", "ok", "19,25", "ok", "3,9"]
#guard answers ["cfg p kind=packed covord=0 spord=2", "upd p pix=4,5,6,7,40 val=T", "moc p f=F",
    "mocread r=R f=F covord=0", "valid R", "valid p", "nvalid R", "nvalid p"]
  == ["ok", "ok", "17,104", "ok", "4,5,6,7,40", "4,5,6,7,40", "5", "5"]

-- the hypotheses of `driver_moc_cells` / `driver_moc_round_trip` are satisfiable
example : WFApi.okAnd (apiMakeEmpty 0 2 (.plain (.int 32 true)) (some (.num 7 0)) [] >>= fun e =>
      apiUpdate e "replace" [100, 5, 16, 17, 18, 19, 3] (some (List.replicate 6 (.num 1 0) ++ [.num 7 0])) false)
    (fun m => decide m.Ok && decide (validSet m.c m.vc m.st = [5, 16, 17, 18, 19, 100])) = true := by
  decide +kernel

end driver
end C17
end HS
