"""Lean side of a check: build, forbidden-token grep, per-theorem axiom audit."""
import os
import re
import subprocess
import time

VERIF = os.path.dirname(os.path.dirname(os.path.abspath(__file__)))
LEAN = os.path.join(VERIF, 'lean')
ALLOWED_AXIOMS = {'propext', 'Classical.choice', 'Quot.sound'}
FORBIDDEN = re.compile(r'\b(sorry|admit|native_decide|bv_decide|implemented_by|unsafe)\b|^\s*axiom\s|maxHeartbeats\s+0\b')


def sh(cmd, cwd=LEAN, timeout=3600):
    p = subprocess.run(cmd, cwd=cwd, shell=True, stdout=subprocess.PIPE, stderr=subprocess.STDOUT, timeout=timeout)
    return p.returncode, p.stdout.decode(errors='replace')


def strip_comments(src):
    # remove block comments (nested not handled beyond one level) and line comments
    src = re.sub(r'/-.*?-/', lambda m: '\n' * m.group(0).count('\n'), src, flags=re.S)
    src = re.sub(r'--.*', '', src)
    return src


def lean_files():
    out = []
    for root, dirs, files in os.walk(os.path.join(LEAN, 'HealSparse')):
        for f in files:
            if f.endswith('.lean'):
                out.append(os.path.join(root, f))
    out.append(os.path.join(LEAN, 'Driver.lean'))
    return sorted(out)


def import_closure(roots):
    """HealSparse modules transitively imported by the given module names (files on disk)."""
    seen, todo = set(), list(roots)
    while todo:
        mod = todo.pop()
        if mod in seen:
            continue
        path = os.path.join(LEAN, *mod.split('.')) + '.lean'
        if not os.path.exists(path):
            continue
        seen.add(mod)
        for line in open(path):
            m = re.match(r'\s*import\s+(HealSparse\.\S+)', line)
            if m:
                todo.append(m.group(1))
    return sorted(os.path.join(LEAN, *m.split('.')) + '.lean' for m in seen)


# property theorems that live in a continuation file (the lemma files they rest on import Props/<pid>.lean)
EXTRA_PROPS = {'C01': ['DenseAll'], 'C10': ['C10World'], 'C04': ['C04Kernels'], 'C13': ['C13Kernels', 'C13Dense'], 'C17': ['C17Kernels'],
               'C12': ['C12Dense'], 'C06': ['C06Dense'], 'C11': ['C11Dense'], 'C03': ['DenseIO'], 'C14': ['C14Dense']}


def prop_modules(pid):
    return ['HealSparse.Props.' + x for x in [pid] + EXTRA_PROPS.get(pid, [])]


def forbidden_tokens(pid=None):
    hits = []
    files = lean_files() if pid is None else import_closure(prop_modules(pid) + ['Driver'])
    for f in files:
        src = strip_comments(open(f).read())
        for i, line in enumerate(src.split('\n'), 1):
            if FORBIDDEN.search(line):
                hits.append("%s:%d: %s" % (os.path.relpath(f, LEAN), i, line.strip()[:100]))
    return hits


def theorem_names(pid):
    """Fully qualified names of the theorems declared in Props/<pid>.lean (and its continuation files)."""
    names = []
    for x in [pid] + EXTRA_PROPS.get(pid, []):
        names += theorem_names_file(os.path.join(LEAN, 'HealSparse', 'Props', x + '.lean'))
    return names


def theorem_names_file(path):
    src = strip_comments(open(path).read())
    names, ns = [], []
    for line in src.split('\n'):
        m = re.match(r'\s*namespace\s+(\S+)', line)
        if m:
            ns.append(m.group(1))
            continue
        m = re.match(r'\s*end\s+(\S+)', line)
        if m and ns and ns[-1] == m.group(1):
            ns.pop()
            continue
        m = re.match(r'\s*(?:@\[[^\]]*\]\s*)?(?:private\s+|protected\s+)?theorem\s+(\S+)', line)
        if m:
            names.append('.'.join(ns + [m.group(1)]))
    return names


def build(targets):
    t = time.time()
    rc, out = sh("lake build " + ' '.join(targets))
    return rc, out, time.time() - t


def audit(pid):
    """Returns dict(theorems=[{name, axioms, ok}], build_ok, log)."""
    names = theorem_names(pid)
    os.makedirs(os.path.join(LEAN, 'Audit'), exist_ok=True)
    apath = os.path.join(LEAN, 'Audit', pid + '.lean')
    with open(apath, 'w') as f:
        for mod in prop_modules(pid):
            f.write("import %s\n" % mod)
        for n in names:
            f.write("#print axioms %s\n" % n)
    rc, out = sh("lake env lean Audit/%s.lean" % pid)
    res = {}
    cur = None
    for line in out.split('\n'):
        # (names may end in primes: 'HS.C02.reachable_nvalid'' depends on …)
        m = re.match(r"'(.+?)' depends on axioms: \[(.*)\]", line)
        m2 = re.match(r"'(.+?)' does not depend on any axioms", line)
        if m:
            res[m.group(1)] = [a.strip() for a in m.group(2).split(',') if a.strip()]
            cur = m.group(1) if not line.rstrip().endswith(']') else None
        elif m2:
            res[m2.group(1)] = []
        else:
            m3 = re.match(r"'(.+?)' depends on axioms: \[(.*)$", line)
            if m3:
                cur = m3.group(1)
                res[cur] = [a.strip() for a in m3.group(2).split(',') if a.strip()]
            elif cur is not None:
                res[cur] += [a.strip().rstrip(']') for a in line.split(',') if a.strip().rstrip(']')]
                if line.rstrip().endswith(']'):
                    cur = None
    ths = []
    for n in names:
        ax = res.get(n)
        ok = ax is not None and set(ax) <= ALLOWED_AXIOMS
        ths.append({'name': n, 'axioms': ax, 'ok': ok})
    return {'theorems': ths, 'rc': rc, 'log': out[-3000:]}
