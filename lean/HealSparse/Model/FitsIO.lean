/-
  The serialisation logic of healsparse FITS files at the level of the
  `(header, array, slice)` interface (the FITS byte encoding itself is trusted).

  Mirrors io_map_fits.py: _write_map_fits (567-632: the COV extension is the coverage
  index, the SPARSE extension the storage), _read_healsparse_fits_file (205-341: full
  read; partial read: requested pixels filtered to covered ones, sorted, overflow block
  and each block copied by row range, index rebuilt with make_from_pixels),
  io_coverage_fits.py _read_coverage_fits.
-/
import HealSparse.Model.Core
import HealSparse.Model.Map
namespace HS

variable {V : Type}

/-- COV and SPARSE extensions -/
structure FitsFile (V : Type) where
  cov  : Array Int
  data : Array V

def writeFits (s : State V) : FitsFile V := ⟨s.cov, s.sp⟩

def readFull (f : FitsFile V) : State V := ⟨f.cov, f.data⟩

/-- `HealSparseCoverage.read(file).coverage_mask` -/
def readCoverage (c : Cfg) (f : FitsFile V) : List Bool :=
  (List.range c.ncov).map fun k => covered c (⟨f.cov, f.data⟩ : State V) k

/-- insertion sort of a list of naturals (`np.sort`) -/
def sortNat (l : List Nat) : List Nat :=
  l.foldl (fun acc x => let (lo, hi) := acc.span (· ≤ x); lo ++ x :: hi) []

/-- the requested pixels that are covered, ascending (`_pixels = np.sort(_pixels[ok])`) -/
def partialPixels (c : Cfg) (f : FitsFile V) (pixels : List Nat) : List Nat :=
  sortNat (pixels.filter fun k => k < c.ncov && covered c (⟨f.cov, f.data⟩ : State V) k)

/-- `read(file, pixels=…)`: `none` = RuntimeError (duplicates, or no requested pixel covered) -/
def readPartial (c : Cfg) (vc : VCfg V) (f : FitsFile V) (pixels : List Nat) : Option (State V) :=
  if pixels.eraseDups.length < pixels.length then none
  else
    let px := partialPixels c f pixels
    if px.isEmpty then none
    else
      let s : State V := ⟨f.cov, f.data⟩
      let block (start : Nat) : List V := (List.range c.nfine).map fun j => rd f.data (start + j) vc.sentinel
      some { cov := initializePixels c (emptyCov c) px
             sp := (block 0 ++ px.flatMap fun k => block (blockStart c s k).toNat).toArray }

end HS
