/-
  The dense refinement of Lemmas/ApiDense.lean extended to the SCALAR family of protocol lines
  (helper lemmas for Props/C12Dense.lean):

    copy      `copy n r=…`
    valid     `valid n`                (every `path=`: one answer, the ascending valid set)
    nvalid    `nvalid n`               (NOT with `path=str`: on a bit-packed map that answer depends
                                        on whether the `n_valid` cache is warm — `famArgs`,
                                        `C12.exNvalidStrCold/Warm`)
    covmap    `covmap n`
    sop       `sop n op=… k=…|bits=… [ktype=flt] [inplace=1] [r=…]`
    mask      `mask n by=… [bits=…] [bitarr=…] [inplace=1] [r=…]`
    astype    `astype n dtype=… [sentinel=…] [r=…]`

  * `dValid`, `dValidSet`: validity and the valid set read off a dense map;
  * `dSop`, `dMask`, `dAstype`: the three API functions on dense maps — errors decided from the
    header, the arguments and the dense values, results pixel by pixel (`sopF`, `maskF`, `astypeF`);
  * `apiScalarOp_corr`, `apiApplyMask_corr`, `apiAstype_corr`: the API functions respect `Corr`;
  * `dstepArgsS` / `dstepS` / `drunS` / `danswersS`: the dense interpreter of plain + family lines
    (every other operation falls back to `ApiDense.dstepArgs`);
  * `rel_stepArgsS`, `rel_stepS`, `rel_runLinesS`, `answers_eq_danswersS`: the refinement.

  The relation is `ApiDense.Rel`.  The refinement of ONE line additionally assumes the reachable
  world invariant `World.Good2` of the sparse world (Lemmas/CacheWorld.lean: typed maps — so that
  the blank cell is invalid, without which `valid_pixels` lists the overflow block — and fresh
  `n_valid` caches); `Rel` alone is not enough (`C12.rel_alone_insufficient`: a stale cache).
  Every protocol line preserves `Good2` (`Good2.step`), so `RelS = Rel ∧ Good2` is preserved by
  every plain or family line (`relS_step`) and the history-level theorems have no such hypothesis.
-/
import HealSparse.Lemmas.ApiDense
import HealSparse.Props.C12
namespace HS
namespace ApiDenseScalar

open ApiDense ApiScalar

/-! ### reading a dense map -/

/-- validity of a cell value under the header of a dense map -/
def dValid (d : DenseMap) (v : Val) : Bool := d.kind.valid d.sent v

/-- the valid set of a dense map, ascending -/
def dValidSet (d : DenseMap) : List Nat := (List.range d.npix).filter fun p => dValid d (d.f p)

section corr
variable {m : MapObj} {d : DenseMap}

theorem corr_valid (hc : Corr m d) : m.vc.valid = dValid d := hc.read_facts.2.2
theorem corr_npix (hc : Corr m d) : m.npix = d.npix := hc.read_facts.2.1
theorem corr_c (hc : Corr m d) : m.c = d.hdr.c := hc.hdr_facts.2.2.2.2.2.1
theorem corr_blank (hc : Corr m d) : m.kind.blank m.sent = d.blank := hc.hdr_facts.2.2.2.2.2.2

/-- the valid set of the map is the valid set of the dense map -/
theorem corr_validSet (hc : Corr m d) : C02.validSet m.c m.vc m.st = dValidSet d := by
  unfold C02.validSet dValidSet
  have hn : m.c.npix = d.npix := corr_npix hc
  rw [hn]
  apply List.filter_congr
  intro p hp
  have hp' : p < m.npix := by rw [corr_npix hc]; exact List.mem_range.1 hp
  show m.vc.valid (m.abs p) = _
  rw [corr_valid hc, hc.abs p hp']

end corr

/-- what `World.get?` and `DenseWorld.get?` answer for one name -/
theorem rel_get {w : World} {D : DenseWorld} (h : Rel w D) (x : String) :
    match w.get? x, D.get? x with
    | some m, some d => Corr m d
    | none, none => True
    | _, _ => False := by
  rw [h.get?_eq]; exact h.maps x

/-! ### `copy` and the accounting observers -/

/-- `copy n r=R`: `R` is bound to the same dense map -/
def dCopy (D : DenseWorld) (a : Args) : DenseWorld × String :=
  dWithMap D a fun d => (D.bind (a.getD "r" "tmp") d, "ok")

/-- `valid n`: the ascending valid set -/
def dValidOp (D : DenseWorld) (a : Args) : DenseWorld × String :=
  dWithMap D a fun d => (D, showList toString ((dValidSet d).map fun p => ((p : Nat) : Int)))

/-- `nvalid n`: the size of the valid set -/
def dNvalid (D : DenseWorld) (a : Args) : DenseWorld × String :=
  dWithMap D a fun d => (D, toString (dValidSet d).length)

/-- `covmap n`: per coverage pixel, the number of members of the valid set inside it -/
def dCovmap (D : DenseWorld) (a : Args) : DenseWorld × String :=
  dWithMap D a fun d =>
    (D, showNats ((List.range d.hdr.c.ncov).map fun k =>
      ((dValidSet d).filter fun p => p >>> d.hdr.c.shift == k).length))

section observers
variable {w : World} {D : DenseWorld}

theorem rel_copy (h : Rel w D) (a : Args) :
    Rel (opCopy w a).1 (dCopy D a).1 ∧ (opCopy w a).2 = (dCopy D a).2 := by
  unfold opCopy dCopy
  exact rel_withMap h fun m d _ _ hc => ⟨h.bind _ (hc.cache none), rfl⟩

theorem rel_valid (h : Rel w D) (hw : w.Good) (a : Args) :
    Rel (opValid w a).1 (dValidOp D a).1 ∧ (opValid w a).2 = (dValidOp D a).2 := by
  unfold opValid dValidOp
  refine rel_withMap h fun m d hg _ hc => ?_
  obtain ⟨_, _, _, l, hl, _, _, hs⟩ := C02.valid_listings (hw.get hg)
  simp only [hl]
  refine ⟨h, ?_⟩
  rw [hs]
  show showList toString ((C02.validSet m.c m.vc m.st).map _) = _
  rw [corr_validSet hc]

theorem coverageCounts_dense {m : MapObj} (hok : m.Ok) :
    coverageCounts m.c m.vc m.st =
      (List.range m.c.ncov).map fun k =>
        ((C02.validSet m.c m.vc m.st).filter fun p => p >>> m.c.shift == k).length := by
  have hv := hok.2.1.blankInvalid
  apply List.ext_getElem?
  intro k
  by_cases hk : k < m.c.ncov
  · rw [C02.coverageCounts_eq m.c m.vc m.st hok.1.2 hv k hk, List.getElem?_map,
      List.getElem?_range hk, Option.map_some, ← C02.validIn_eq_filter m.c m.vc m.st hk,
      List.length_map]
  · have h1 : (coverageCounts m.c m.vc m.st).length = m.c.ncov := by simp [coverageCounts]
    rw [List.getElem?_eq_none (by omega), List.getElem?_eq_none (by simp; omega)]

theorem rel_covmap (h : Rel w D) (hw : w.Good) (a : Args) :
    Rel (opCovmap w a).1 (dCovmap D a).1 ∧ (opCovmap w a).2 = (dCovmap D a).2 := by
  unfold opCovmap dCovmap
  refine rel_withMap h fun m d hg _ hc => ⟨h, ?_⟩
  show showNats (coverageCounts m.c m.vc m.st) = _
  rw [coverageCounts_dense (hw.get hg), corr_validSet hc, corr_c hc]

/-- `nvalid` without the string path: the count, from the cache (which is fresh) or computed (and
    then cached: on the sparse side only, the dense world has no cache) -/
theorem rel_nvalid (h : Rel w D) (hw : w.Good2) (a : Args) (hpath : a.get? "path" ≠ some "str") :
    Rel (opNvalid w a).1 (dNvalid D a).1 ∧ (opNvalid w a).2 = (dNvalid D a).2 := by
  unfold opNvalid dNvalid
  refine rel_withMap h fun m d hg hd hc => ?_
  have hok := hw.1.get hg
  have hfresh := hw.2.get hg
  have hcount : nValid m.vc m.st = (dValidSet d).length := by
    rw [C02.nValid_eq m.c m.vc m.st hok.1.2 hok.2.1.blankInvalid, corr_validSet hc]
  have hp : (a.get? "path" == some "str") = false := by simpa using hpath
  cases hca : m.cache with
  | some n =>
    simp only []
    refine ⟨h, ?_⟩
    rw [hfresh n hca, hcount]
  | none =>
    have hvs : m.view.isSome = false := by rw [hc.view]; rfl
    simp only [hp, Bool.false_and, Bool.false_eq_true, if_false, hvs]
    exact ⟨h.put_left _ hd (hc.cache _), by rw [hcount]⟩

end observers

/-! ### the scalar operators on a dense map -/

/-- two outcomes agree, for the API functions that return a new STORAGE for the operand (`sop`,
    `mask`): the same error, or the operand with the new storage agrees with the dense result -/
def OutRelSt (m : MapObj) (r : Except Err (State Val)) (r' : Except Err DenseMap) : Prop :=
  match r, r' with
  | .ok st, .ok d' => Corr (m.withSt st) d'
  | .error e, .error e' => e = e'
  | _, _ => False

/-- the values after `m <op> k`: every valid pixel gets the operator's result, every other pixel
    keeps its (blank) value -/
def sopF (d : DenseMap) (op : String) (k : Scalar) : Nat → Val := fun p =>
  if dValid d (d.f p) then (sopCell d.kind op k (d.f p)).getD (d.f p) else d.f p

/-- `m <op> k` on a dense map: the validation error `sopError` (a function of the kind, the
    operator and the operand), else `inexact` when some VALID pixel has no exactly representable
    result, else every valid pixel gets the operator's result and every other pixel keeps its
    (blank) value -/
def dSop (d : DenseMap) (op : String) (k : Scalar) : Except Err DenseMap :=
  match sopError d.kind op k with
  | some e => .error e
  | none =>
    if (List.range d.npix).any fun p => dValid d (d.f p) && (sopCell d.kind op k (d.f p)).isNone
    then .error .inexact
    else .ok { d with f := sopF d op k }

/-- a test over the valid storage cells is a test over the valid pixels of the dense map -/
theorem any_valid_dense {m : MapObj} {d : DenseMap} (hc : Corr m d) (hv : m.BlankInvalid)
    (Q : Val → Bool) :
    (m.st.sp.toList.filter m.vc.valid).any Q
      = (List.range d.npix).any fun p => dValid d (d.f p) && Q (d.f p) := by
  rw [Bool.eq_iff_iff, any_valid_iff hc.wf.2 hv Q, List.any_eq_true]
  constructor
  · rintro ⟨p, hp, h1, h2⟩
    have hp' : p < d.npix := by rw [← corr_npix hc]; exact hp
    refine ⟨p, List.mem_range.2 hp', ?_⟩
    rw [← hc.abs p hp, ← corr_valid hc]
    show (m.vc.valid (m.abs p) && Q (m.abs p)) = true
    rw [Bool.and_eq_true]
    exact ⟨h1, h2⟩
  · rintro ⟨p, hp, h12⟩
    have hp' : p < m.npix := by rw [corr_npix hc]; exact List.mem_range.1 hp
    rw [← hc.abs p hp', ← corr_valid hc, Bool.and_eq_true] at h12
    exact ⟨p, hp', h12.1, h12.2⟩

/-- **the scalar operators on the map and on the dense map agree** -/
theorem apiScalarOp_corr {m : MapObj} {d : DenseMap} (hc : Corr m d) (op : String) (k : Scalar) :
    OutRelSt m (apiScalarOp m op k) (dSop d op k) := by
  rw [apiScalarOp_eq]
  unfold dSop
  rw [hc.kind]
  cases hE : sopError d.kind op k with
  | some e => exact rfl
  | none =>
    have hv : m.BlankInvalid := by
      rcases sopError_none_kind hE with ⟨n, hn⟩ | ⟨dt, hd, _⟩
      · exact MapObj.blankInvalid_of_wide (hc.kind.trans hn)
      · exact MapObj.blankInvalid_of_plain (hc.kind.trans hd)
    simp only []
    rw [any_valid_dense hc hv]
    split
    · exact rfl
    · obtain ⟨hinv, habs, _⟩ := C12.scalarOp_spec m.c m.vc m.st
        (fun x => (sopCell d.kind op k x).getD x) hc.wf.2 hv
      refine ⟨⟨hc.wf.1, hinv⟩, hc.view, hc.covord, hc.spord, hc.kind, hc.sent, fun p hp => ?_⟩
      refine (habs p hp).trans ?_
      have e : abs m.c m.vc m.st p = d.f p := hc.abs p hp
      unfold sopF
      rw [corr_valid hc, e]

/-! ### `sop` on the two worlds -/

/-- **`sop`, every branch**, with the operand parsed by `sopArg` -/
theorem opSop_eq2 (w : World) (a : Args) :
    opSop w a = withMap w a fun m =>
      match sopArg a with
      | none => (w, "bad-op:k")
      | some k =>
        match apiScalarOp m (a.getD "op" "add") k with
        | .ok st =>
          if a.flag "inplace" then (w.put (a.pos.headD "") (m.withSt st), "ok")
          else (w.bind (a.getD "r" "tmp") (m.withSt st), "ok")
        | .error e =>
          ((if a.flag "inplace" && !sopEarly m.kind (a.getD "op" "add")
            then w.put (a.pos.headD "") { m with cache := none } else w), errLine e) := by
  unfold opSop
  congr 1
  funext m
  have fin : ∀ k? : Option Scalar, (match k? with
      | none => (w, "bad-op:k")
      | some k =>
        let inPlace := a.flag "inplace"
        let m0 := if inPlace then { m with cache := none } else m
        match apiScalarOp m (a.getD "op" "add") k with
        | .ok st =>
          if inPlace then (w.put (a.pos.headD "") { m0 with st := st }, "ok")
          else (w.bind (a.getD "r" "tmp") { m with st := st, cache := none }, "ok")
        | .error e =>
          let early := (match m.kind with | .recd _ _ => true | _ => false) || m.kind.isBool ||
            (intOnlyOp (a.getD "op" "add") && !m.kind.isIntegerMap) ||
            (!intOnlyOp (a.getD "op" "add") && (match m.kind with | .wide _ => true | _ => false))
          ((if inPlace && !early then w.put (a.pos.headD "") m0 else w), errLine e)) =
      (match k? with
      | none => (w, "bad-op:k")
      | some k =>
        match apiScalarOp m (a.getD "op" "add") k with
        | .ok st =>
          if a.flag "inplace" then (w.put (a.pos.headD "") (m.withSt st), "ok")
          else (w.bind (a.getD "r" "tmp") (m.withSt st), "ok")
        | .error e =>
          ((if a.flag "inplace" && !sopEarly m.kind (a.getD "op" "add")
            then w.put (a.pos.headD "") { m with cache := none } else w), errLine e)) := by
    intro k?
    cases k? with
    | none => rfl
    | some k =>
      simp only
      cases apiScalarOp m (a.getD "op" "add") k with
      | ok st => cases a.flag "inplace" <;> rfl
      | error e => cases a.flag "inplace" <;> rfl
  unfold sopArg
  cases a.get? "bits" <;> cases a.get? "k" <;> simp only [] <;> exact fin _

/-- `sop` on the dense world -/
def dSopOp (D : DenseWorld) (a : Args) : DenseWorld × String :=
  dWithMap D a fun d =>
    match sopArg a with
    | none => (D, "bad-op:k")
    | some k =>
      match dSop d (a.getD "op" "add") k with
      | .ok d' =>
        if a.flag "inplace" then (D.bind (a.pos.headD "") d', "ok")
        else (D.bind (a.getD "r" "tmp") d', "ok")
      | .error e => (D, errLine e)

theorem rel_sop {w : World} {D : DenseWorld} (h : Rel w D) (a : Args) :
    Rel (opSop w a).1 (dSopOp D a).1 ∧ (opSop w a).2 = (dSopOp D a).2 := by
  rw [opSop_eq2]
  unfold dSopOp
  refine rel_withMap h fun m d _ hd hc => ?_
  cases sopArg a with
  | none => exact ⟨h, rfl⟩
  | some k =>
    have hr := apiScalarOp_corr hc (a.getD "op" "add") k
    simp only []
    revert hr
    cases apiScalarOp m (a.getD "op" "add") k <;> cases dSop d (a.getD "op" "add") k <;> intro hr
    · cases hr
      refine ⟨?_, rfl⟩
      show Rel (if _ then _ else _) D
      split
      · exact h.put_left _ hd (hc.cache none)
      · exact h
    · exact hr.elim
    · exact hr.elim
    · show Rel (if _ then _ else _ : World × String).1 (if _ then _ else _ : DenseWorld × String).1 ∧
        (if _ then _ else _ : World × String).2 = (if _ then _ else _ : DenseWorld × String).2
      split
      · exact ⟨h.put _ hr, rfl⟩
      · exact ⟨h.bind _ hr, rfl⟩

/-! ### `apply_mask` on dense maps -/

section mask
variable {mk : MapObj} {dk : DenseMap}

/-- the validation of the mask looks at the mask's kind only -/
theorem maskError_hdr (hk : Corr mk dk) (mb : Option Int) (ba : Option (List Nat)) :
    maskError mk mb ba = maskError dk.hdr mb ba := by
  unfold maskError
  rw [show mk.kind = dk.hdr.kind from hk.kind]

/-- the "bad cell" decision looks at the mask's kind and sentinel only -/
theorem maskBadVal_hdr (hk : Corr mk dk) (mb : Option Int) (ba : Option (List Nat)) (v : Val) :
    maskBadVal mk mb ba v = maskBadVal dk.hdr mb ba v := by
  unfold maskBadVal MapObj.maxbits MapObj.vc
  rw [show mk.kind = dk.hdr.kind from hk.kind, show mk.sent = dk.hdr.sent from hk.sent]

end mask

/-- the values after `apply_mask`: a pixel that is valid in the map and bad in the mask (read at
    the same pixel NUMBER of the mask's dense array) becomes blank, every other pixel is kept -/
def maskF (d dk : DenseMap) (mb : Option Int) (ba : Option (List Nat)) : Nat → Val := fun p =>
  if dValid d (d.f p) && maskBadVal dk.hdr mb ba (dk.f p) then d.blank else d.f p

/-- `apply_mask` on dense maps: the validation error `maskError` of the mask's header, else
    `IndexError` when some valid pixel of the map is not a pixel number of the mask map, else
    `maskF` -/
def dMask (d dk : DenseMap) (mb : Option Int) (ba : Option (List Nat)) : Except Err DenseMap :=
  match maskError dk.hdr mb ba with
  | some e => .error e
  | none =>
    if (List.range d.npix).any fun p => dValid d (d.f p) && decide (dk.npix ≤ p) then .error .index
    else .ok { d with f := maskF d dk mb ba }

/-- **`apply_mask` on the maps and on the dense maps agree** (nothing is assumed of the mask map
    beyond its agreement with its dense map: any kind, any resolution, any coverage) -/
theorem apiApplyMask_corr {m mk : MapObj} {d dk : DenseMap} (hc : Corr m d) (hv : m.BlankInvalid)
    (hk : Corr mk dk) (mb : Option Int) (ba : Option (List Nat)) :
    OutRelSt m (apiApplyMask m mk mb ba) (dMask d dk mb ba) := by
  cases hr : apiApplyMask m mk mb ba with
  | ok st =>
    obtain ⟨hwf, _, hE, hlt, habs⟩ := C12.api_applyMask_spec hc.wf hv hr
    have hE' : maskError dk.hdr mb ba = none := by rw [← maskError_hdr hk]; exact hE
    have hany : ¬ ((List.range d.npix).any fun p => dValid d (d.f p) && decide (dk.npix ≤ p)) = true := by
      rw [List.any_eq_true]
      rintro ⟨p, hp, h12⟩
      have hp' : p < m.npix := by rw [corr_npix hc]; exact List.mem_range.1 hp
      rw [Bool.and_eq_true, decide_eq_true_eq] at h12
      have := hlt p hp' (by rw [corr_valid hc, hc.abs p hp']; exact h12.1)
      rw [corr_npix hk] at this
      omega
    unfold dMask
    rw [hE']
    simp only []
    rw [if_neg hany]
    show Corr (m.withSt st) _
    refine ⟨hwf, hc.view, hc.covord, hc.spord, hc.kind, hc.sent, fun p hp => ?_⟩
    have hp' : p < m.npix := hp
    rw [habs p hp']
    show _ = maskF d dk mb ba p
    unfold maskF
    rw [← corr_valid hc, ← hc.abs p hp', corr_blank hc]
    cases hval : m.vc.valid (m.abs p) with
    | false => rfl
    | true =>
      have hpk : p < mk.npix := hlt p hp' hval
      unfold maskBad
      rw [maskBadVal_hdr hk, hk.abs p hpk]
  | error e =>
    unfold dMask
    rw [← maskError_hdr hk]
    rcases (C12.api_applyMask_error_iff hc.wf hv mk mb ba e).1 hr with h1 | ⟨rfl, hE, p, hp, hval, hle⟩
    · rw [h1]; exact rfl
    · rw [hE]
      simp only []
      rw [if_pos]
      · exact rfl
      · rw [List.any_eq_true]
        refine ⟨p, List.mem_range.2 (by rw [← corr_npix hc]; exact hp), ?_⟩
        rw [← hc.abs p hp, ← corr_valid hc, hval, Bool.true_and, decide_eq_true_eq, ← corr_npix hk]
        exact hle

/-- `mask` on the dense world -/
def dMaskOp (D : DenseWorld) (a : Args) : DenseWorld × String :=
  dWithMap D a fun d =>
    match D.get? (a.getD "by" "") with
    | none => (D, "bad-op:no-such-map")
    | some dk =>
      match dMask d dk ((a.get? "bits").bind String.toInt?) ((a.get? "bitarr").bind parseNats) with
      | .ok d' =>
        if a.flag "inplace" then (D.bind (a.pos.headD "") d', "ok")
        else (D.bind (a.getD "r" "tmp") d', "ok")
      | .error e => (D, errLine e)

theorem rel_mask {w : World} {D : DenseWorld} (h : Rel w D) (hw : w.Good) (a : Args) :
    Rel (opMask w a).1 (dMaskOp D a).1 ∧ (opMask w a).2 = (dMaskOp D a).2 := by
  unfold opMask dMaskOp
  refine rel_withMap h fun m d hg hd hc => ?_
  have hv : m.BlankInvalid := (hw.get hg).2.1.blankInvalid
  have hby := rel_get h (a.getD "by" "")
  simp only []
  revert hby
  cases w.get? (a.getD "by" "") <;> cases D.get? (a.getD "by" "") <;> intro hby
  · exact ⟨h, rfl⟩
  · exact hby.elim
  · exact hby.elim
  · rename_i mk dk
    have hr := apiApplyMask_corr hc hv hby ((a.get? "bits").bind String.toInt?)
      ((a.get? "bitarr").bind parseNats)
    simp only []
    revert hr
    cases apiApplyMask m mk ((a.get? "bits").bind String.toInt?) ((a.get? "bitarr").bind parseNats) <;>
      cases dMask d dk ((a.get? "bits").bind String.toInt?) ((a.get? "bitarr").bind parseNats) <;>
      intro hr
    · cases hr
      exact ⟨h, rfl⟩
    · exact hr.elim
    · exact hr.elim
    · show Rel (if _ then _ else _ : World × String).1 (if _ then _ else _ : DenseWorld × String).1 ∧
        (if _ then _ else _ : World × String).2 = (if _ then _ else _ : DenseWorld × String).2
      split
      · exact ⟨h.put _ hr, rfl⟩
      · exact ⟨h.bind _ hr, rfl⟩

/-! ### `astype` on a dense map -/

/-- the values after `astype`: valid pixels converted, every other pixel holds the NEW sentinel -/
def astypeF (d : DenseMap) (src dst : DT) (s' : Val) : Nat → Val := fun p =>
  if dValid d (d.f p) then (convCell src dst (d.f p)).getD (d.f p) else s'

/-- `astype` on a dense map: `RuntimeError` for wide masks and records, the error of
    `check_sentinel`, `inexact` when some valid pixel has no exactly representable conversion,
    else a plain map of the new dtype and sentinel at the same resolution -/
def dAstype (d : DenseMap) (dst : DT) (sentinel : Option Val) : Except Err DenseMap :=
  match astypeSrc d.kind with
  | none => .error .runtime
  | some src =>
    match checkSentinel dst sentinel with
    | .error e => .error e
    | .ok s' =>
      if (List.range d.npix).any fun p => dValid d (d.f p) && (convCell src dst (d.f p)).isNone
      then .error .inexact
      else .ok ⟨d.covord, d.spord, .plain dst, s', astypeF d src dst s'⟩

/-- **`astype` on the map and on the dense map agree** -/
theorem apiAstype_corr {m : MapObj} {d : DenseMap} (hc : Corr m d) (hv : m.BlankInvalid) (dst : DT)
    (sentinel : Option Val) : OutRel (apiAstype m dst sentinel) (dAstype d dst sentinel) := by
  rw [apiAstype_eq]
  unfold dAstype
  rw [hc.kind]
  cases astypeSrc d.kind with
  | none => exact rfl
  | some src =>
    simp only []
    cases checkSentinel dst sentinel with
    | error e => exact rfl
    | ok s' =>
      simp only []
      rw [any_valid_dense hc hv]
      split
      · exact rfl
      · obtain ⟨hinv, habs, _⟩ := C12.astype_spec m.c m.vc
          (⟨s', (Kind.plain dst).valid s'⟩ : VCfg Val) m.st
          (fun x => (convCell src dst x).getD x) hc.wf.2 hv
        refine ⟨⟨hc.wf.1, hinv⟩, hc.view, hc.covord, hc.spord, rfl, rfl, fun p hp => ?_⟩
        refine (habs p hp).trans ?_
        have e : abs m.c m.vc m.st p = d.f p := hc.abs p hp
        show _ = astypeF d src dst s' p
        unfold astypeF
        rw [corr_valid hc, e]

/-- `astype` on the dense world -/
def dAstypeOp (D : DenseWorld) (a : Args) : DenseWorld × String :=
  dWithMap D a fun d =>
    match (a.get? "dtype").bind parseDT, optVal a "sentinel" with
    | some dt, some sent =>
      (match dAstype d dt sent with
       | .ok d' => (D.bind (a.getD "r" "tmp") d', "ok")
       | .error e => (D, errLine e))
    | _, _ => (D, "bad-op:astype")

theorem rel_astype {w : World} {D : DenseWorld} (h : Rel w D) (hw : w.Good) (a : Args) :
    Rel (opAstype w a).1 (dAstypeOp D a).1 ∧ (opAstype w a).2 = (dAstypeOp D a).2 := by
  unfold opAstype dAstypeOp
  refine rel_withMap h fun m d hg _ hc => ?_
  have hv : m.BlankInvalid := (hw.get hg).2.1.blankInvalid
  cases (a.get? "dtype").bind parseDT <;> cases optVal a "sentinel"
  · exact ⟨h, rfl⟩
  · exact ⟨h, rfl⟩
  · exact ⟨h, rfl⟩
  · rename_i dt sent
    have hr := apiAstype_corr hc hv dt sent
    simp only []
    revert hr
    cases apiAstype m dt sent <;> cases dAstype d dt sent <;> intro hr
    · cases hr
      exact ⟨h, rfl⟩
    · exact hr.elim
    · exact hr.elim
    · exact ⟨h.bind _ hr, rfl⟩

/-! ### the dense interpreter of plain + family lines -/

/-- the operations of the scalar family -/
def famOp (op : String) : Bool :=
  op == "copy" || op == "valid" || op == "nvalid" || op == "covmap" || op == "sop" ||
    op == "mask" || op == "astype"

/-- a parsed family line the dense interpreter answers: every line of the family except `nvalid`
    on the string path (`path=str`), whose answer on a bit-packed map depends on whether the count
    is cached -/
def famArgs (op : String) (a : Args) : Bool :=
  famOp op && !(op == "nvalid" && a.get? "path" == some "str")

/-- **the dense interpreter, scalar family included**: one parsed line on a dense world -/
def dstepArgsS (D : DenseWorld) (op : String) (a : Args) : DenseWorld × String :=
  match op with
  | "copy" => dCopy D a
  | "valid" => dValidOp D a
  | "nvalid" => dNvalid D a
  | "covmap" => dCovmap D a
  | "sop" => dSopOp D a
  | "mask" => dMaskOp D a
  | "astype" => dAstypeOp D a
  | _ => dstepArgs D op a

theorem famOp_cases {op : String} (h : famOp op = true) :
    op = "copy" ∨ op = "valid" ∨ op = "nvalid" ∨ op = "covmap" ∨ op = "sop" ∨ op = "mask" ∨
      op = "astype" := by
  unfold famOp at h
  simp only [Bool.or_eq_true, beq_iff_eq] at h
  rcases h with (((((h | h) | h) | h) | h) | h) | h
  · exact Or.inl h
  · exact Or.inr (Or.inl h)
  · exact Or.inr (Or.inr (Or.inl h))
  · exact Or.inr (Or.inr (Or.inr (Or.inl h)))
  · exact Or.inr (Or.inr (Or.inr (Or.inr (Or.inl h))))
  · exact Or.inr (Or.inr (Or.inr (Or.inr (Or.inr (Or.inl h)))))
  · exact Or.inr (Or.inr (Or.inr (Or.inr (Or.inr (Or.inr h)))))

/-- on a plain line the extended interpreter is the plain one -/
theorem dstepArgsS_plain {op : String} (hp : plainOp op = true) (D : DenseWorld) (a : Args) :
    dstepArgsS D op a = dstepArgs D op a := by
  rcases plainOp_cases hp with rfl | rfl | rfl | rfl | rfl | rfl <;> rfl

/-- **one parsed line, plain or of the scalar family**: the protocol and the dense interpreter stay
    in agreement and give the same answer -/
theorem rel_stepArgsS {w : World} {D : DenseWorld} (h : Rel w D) (hw : w.Good2) {op : String}
    (a : Args) (hp : plainOp op = true ∨ famArgs op a = true) :
    Rel (stepArgs w op a).1 (dstepArgsS D op a).1 ∧ (stepArgs w op a).2 = (dstepArgsS D op a).2 := by
  rcases hp with hp | hp
  · rw [dstepArgsS_plain hp]
    exact rel_stepArgs h hp a
  · unfold famArgs at hp
    rw [Bool.and_eq_true] at hp
    obtain ⟨hf, hnv⟩ := hp
    rcases famOp_cases hf with rfl | rfl | rfl | rfl | rfl | rfl | rfl
    · exact rel_copy h a
    · exact rel_valid h hw.1 a
    · refine rel_nvalid h hw a ?_
      intro hs
      rw [hs] at hnv
      exact absurd hnv (by decide)
    · exact rel_covmap h hw.1 a
    · exact rel_sop h a
    · exact rel_mask h hw.1 a
    · exact rel_astype h hw.1 a

/-! ### raw lines and histories -/

/-- a raw line of the scalar family (with the `nvalid path=str` exception of `famArgs`) -/
def famLine (line : String) : Bool :=
  match lineToks line with
  | [] => false
  | op :: rest => famArgs op (parseArgs rest)

/-- the lines the extended dense interpreter answers: plain lines (`cfg`, `upd`, `updr`, `set`,
    `get`, `vals`, the empty line) and the lines of the scalar family -/
def lineOk (line : String) : Bool := plainLine line || famLine line

/-- the extended dense interpreter on a raw line -/
def dstepS (D : DenseWorld) (line : String) : DenseWorld × String :=
  match lineToks line with
  | [] => (D, "bad-op:empty")
  | op :: rest => dstepArgsS D op (parseArgs rest)

/-- … and on a history, from the empty dense world -/
def drunS (lines : List String) : DenseWorld := lines.foldl (fun D l => (dstepS D l).1) []

theorem famOp_not_packed {op : String} (h : famOp op = true) : op.startsWith "p." = false := by
  rcases famOp_cases h with rfl | rfl | rfl | rfl | rfl | rfl | rfl <;> decide +kernel

/-- **one raw line**: from related worlds (the sparse one satisfying the reachable invariant
    `Good2`), a plain or family line leads to related worlds and is answered alike -/
theorem rel_stepS {w : World} {D : DenseWorld} (hR : Rel w D) (hw : w.Good2) {line : String}
    (hp : lineOk line = true) :
    Rel (step w line).1 (dstepS D line).1 ∧ (step w line).2 = (dstepS D line).2 := by
  have hstep : step w line = match lineToks line with
      | [] => (w, "bad-op:empty")
      | op :: rest =>
        if op.startsWith "p." then
          let (pw, o) := stepPacked w.packed op (parseArgs rest)
          ({ w with packed := pw }, o)
        else stepArgs w op (parseArgs rest) := rfl
  rw [hstep]
  unfold dstepS
  unfold lineOk plainLine famLine at hp
  cases ht : lineToks line with
  | nil => exact ⟨hR, rfl⟩
  | cons op rest =>
    rw [ht] at hp
    simp only [Bool.or_eq_true] at hp
    have hnp : op.startsWith "p." = false := by
      rcases hp with hp | hp
      · exact plainOp_not_packed hp
      · unfold famArgs at hp
        rw [Bool.and_eq_true] at hp
        exact famOp_not_packed hp.1
    simp only [hnp, Bool.false_eq_true, if_false]
    exact rel_stepArgsS hR hw _ hp

/-- the pair (related, reachable invariant) along a history -/
theorem rel_foldlS (lines : List String) (w : World) (D : DenseWorld) (hR : Rel w D) (hw : w.Good2)
    (hp : ∀ l ∈ lines, lineOk l = true) :
    Rel (lines.foldl (fun w l => (step w l).1) w) (lines.foldl (fun D l => (dstepS D l).1) D) := by
  induction lines generalizing w D with
  | nil => exact hR
  | cons l ls ih =>
    exact ih _ _ (rel_stepS hR hw (hp l List.mem_cons_self)).1 (Good2.step hw l)
      fun l' h' => hp l' (List.mem_cons_of_mem _ h')

/-- **histories**: the world a history of plain and family lines reaches agrees with the dense world
    the extended dense interpreter reaches -/
theorem rel_runLinesS (lines : List String) (hp : ∀ l ∈ lines, lineOk l = true) :
    Rel (runLines lines) (drunS lines) :=
  rel_foldlS lines _ _ rel_empty ⟨World.good_empty, World.cachePool_empty⟩ hp

/-! ### what the dense interpreter leaves alone; answers of a history -/

theorem dWithMap_world {D : DenseWorld} {a : Args} {k : DenseMap → DenseWorld × String}
    (h : ∀ d, (k d).1 = D) : (dWithMap D a k).1 = D := by
  unfold dWithMap
  split
  · split
    · exact h _
    · rfl
  · rfl

/-- the observers do not change the dense world (in particular `nvalid` does not: the dense world
    has no `n_valid` cache) -/
theorem dValidOp_world (D : DenseWorld) (a : Args) : (dValidOp D a).1 = D := dWithMap_world fun _ => rfl
theorem dNvalid_world (D : DenseWorld) (a : Args) : (dNvalid D a).1 = D := dWithMap_world fun _ => rfl
theorem dCovmap_world (D : DenseWorld) (a : Args) : (dCovmap D a).1 = D := dWithMap_world fun _ => rfl

/-- the answers of the extended dense interpreter along a history -/
def danswersS (lines : List String) : List String :=
  (lines.foldl (fun (Do : DenseWorld × List String) l => ((dstepS Do.1 l).1, Do.2 ++ [(dstepS Do.1 l).2]))
    ([], [])).2

/-! ### the bundled relation; all the answers of a history -/

/-- related worlds, the sparse one satisfying the reachable invariant: the relation one line of
    the plain + scalar family preserves (`Rel` alone is not enough: `C12.rel_alone_insufficient`) -/
structure RelS (w : World) (D : DenseWorld) : Prop where
  rel : Rel w D
  good : w.Good2

theorem relS_empty : RelS {} [] := ⟨rel_empty, World.good_empty, World.cachePool_empty⟩

/-- **one raw line, bundled**: `RelS` is preserved and the line is answered alike -/
theorem relS_step {w : World} {D : DenseWorld} (h : RelS w D) {line : String}
    (hp : lineOk line = true) :
    RelS (step w line).1 (dstepS D line).1 ∧ (step w line).2 = (dstepS D line).2 :=
  ⟨⟨(rel_stepS h.rel h.good hp).1, Good2.step h.good line⟩, (rel_stepS h.rel h.good hp).2⟩

theorem answers_foldlS (lines : List String) (w : World) (D : DenseWorld) (acc : List String)
    (h : RelS w D) (hp : ∀ l ∈ lines, lineOk l = true) :
    (lines.foldl (fun (wo : World × List String) l => ((step wo.1 l).1, wo.2 ++ [(step wo.1 l).2]))
      (w, acc)).2 =
    (lines.foldl (fun (Do : DenseWorld × List String) l =>
      ((dstepS Do.1 l).1, Do.2 ++ [(dstepS Do.1 l).2])) (D, acc)).2 := by
  induction lines generalizing w D acc with
  | nil => rfl
  | cons l ls ih =>
    obtain ⟨h', ha⟩ := relS_step h (hp l List.mem_cons_self)
    simp only [List.foldl_cons]
    rw [ha]
    exact ih _ _ _ h' fun l' hl' => hp l' (List.mem_cons_of_mem _ hl')

/-- **the list of all answers** of a history of plain and family lines is the list of answers of
    the dense interpreter -/
theorem answers_eq_danswersS (lines : List String) (hp : ∀ l ∈ lines, lineOk l = true) :
    answers lines = danswersS lines :=
  answers_foldlS lines _ _ _ relS_empty hp

end ApiDenseScalar
end HS
