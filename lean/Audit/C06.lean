import HealSparse.Props.C06
#print axioms HS.C06.multiOp_spec
#print axioms HS.C06.fold_neutral
#print axioms HS.C06.union_fold
#print axioms HS.C06.intersection_fold
#print axioms HS.C06.rowOk_sound
#print axioms HS.C06.opsTable_ok
#print axioms HS.C06.opsTable_spec
#print axioms HS.C06.opsTable_withSpec
#print axioms HS.C06.opsTable_complete
