/-
  Helper lemmas for the FITS serialisation model (`writeFits`, `readFull`, `readPartial`):
  duplicate detection via `eraseDups`, the insertion sort `sortNat`, block-wise assembly of
  the storage of a partial read, and the layout / dense view / coverage of its result.
  The property theorems in HealSparse/Props/C03.lean are thin wrappers.
-/
import HealSparse.Lemmas.Core
import HealSparse.Lemmas.Coverage
import HealSparse.Lemmas.Valid
import HealSparse.Model.FitsIO
namespace HS
variable {V : Type}

/-! ### duplicate detection -/

theorem eraseDups_length_spec (l : List Nat) :
    l.eraseDups.length ≤ l.length ∧ (l.eraseDups.length = l.length ↔ l.Nodup) := by
  generalize hn : l.length = n
  induction n using Nat.strongRecOn generalizing l with
  | _ n ih =>
    cases l with
    | nil => subst hn; simp
    | cons a as =>
      rw [List.eraseDups_cons]
      simp only [List.length_cons] at hn ⊢
      subst hn
      have hF := List.length_filter_le (fun b => !b == a) as
      have ihF := ih _ (by omega) (as.filter fun b => !b == a) rfl
      have ihA := ih as.length (by omega) as rfl
      refine ⟨by omega, ?_⟩
      rw [List.nodup_cons]
      constructor
      · intro he
        have h1 : (as.filter fun b => !b == a).length = as.length := by omega
        have h2 : (as.filter fun b => !b == a) = as :=
          List.filter_eq_self.2 (List.length_filter_eq_length_iff.1 h1)
        have h3 : ∀ x ∈ as, (!x == a) = true := List.filter_eq_self.1 h2
        refine ⟨?_, ?_⟩
        · intro hm
          have := h3 a hm
          simp at this
        · rw [← h2]
          exact ihF.2.1 (by omega)
      · rintro ⟨hm, hnd⟩
        have h2 : (as.filter fun b => !b == a) = as := by
          rw [List.filter_eq_self]
          intro x hx
          have : x ≠ a := fun e => hm (e ▸ hx)
          simp [this]
        rw [h2]
        have := ihA.2.2 hnd
        omega

theorem eraseDups_length_lt_iff (l : List Nat) :
    l.eraseDups.length < l.length ↔ ¬ l.Nodup := by
  have := eraseDups_length_spec l
  rw [← this.2]
  omega

/-! ### `sortNat` -/

theorem span_loop_append {α : Type} (p : α → Bool) (as acc : List α) :
    (List.span.loop p as acc).1 ++ (List.span.loop p as acc).2 = acc.reverse ++ as := by
  induction as generalizing acc with
  | nil => simp [List.span.loop]
  | cons a as ih =>
    unfold List.span.loop
    cases p a with
    | true => simp only; rw [ih]; simp
    | false => simp

theorem span_append {α : Type} (p : α → Bool) (as : List α) :
    (as.span p).1 ++ (as.span p).2 = as := by
  have := span_loop_append p as []
  simpa [List.span] using this

/-- one insertion step is a permutation of `x :: acc` -/
theorem sortStep_perm (acc : List Nat) (x : Nat) :
    ((acc.span (· ≤ x)).1 ++ x :: (acc.span (· ≤ x)).2).Perm (x :: acc) := by
  have h := span_append (fun y => decide (y ≤ x)) acc
  refine List.perm_middle.trans ?_
  rw [h]

theorem sortNat_foldl_perm (l acc : List Nat) :
    (l.foldl (fun acc x => let (lo, hi) := acc.span (· ≤ x); lo ++ x :: hi) acc).Perm (l ++ acc) := by
  induction l generalizing acc with
  | nil => exact List.Perm.refl _
  | cons x xs ih =>
    rw [List.foldl_cons]
    refine (ih _).trans ?_
    refine ((sortStep_perm acc x).append_left xs).trans ?_
    simp

theorem sortNat_perm' (l : List Nat) : (sortNat l).Perm l := by
  have := sortNat_foldl_perm l []
  simpa [sortNat] using this

/-! ### the requested covered pixels -/

theorem mem_partialPixels (c : Cfg) (s : State V) (pixels : List Nat) (k : Nat) :
    k ∈ partialPixels c (writeFits s) pixels ↔
      k ∈ pixels ∧ k < c.ncov ∧ covered c s k = true := by
  unfold partialPixels
  rw [(sortNat_perm' _).mem_iff, List.mem_filter]
  simp [writeFits]

theorem nodup_partialPixels (c : Cfg) (s : State V) (pixels : List Nat) (hnd : pixels.Nodup) :
    (partialPixels c (writeFits s) pixels).Nodup := by
  unfold partialPixels
  rw [(sortNat_perm' _).nodup_iff]
  exact List.filter_sublist.nodup hnd

theorem partialPixels_isEmpty_iff (c : Cfg) (s : State V) (pixels : List Nat) :
    (partialPixels c (writeFits s) pixels).isEmpty = true ↔
      ¬ ∃ k ∈ pixels, k < c.ncov ∧ covered c s k = true := by
  rw [List.isEmpty_iff]
  constructor
  · rintro he ⟨k, hk, hlt, hc⟩
    have : k ∈ partialPixels c (writeFits s) pixels := (mem_partialPixels c s pixels k).2 ⟨hk, hlt, hc⟩
    rw [he] at this
    cases this
  · intro hno
    apply List.eq_nil_iff_forall_not_mem.2
    intro k hk
    have := (mem_partialPixels c s pixels k).1 hk
    exact hno ⟨k, this.1, this.2.1, this.2.2⟩

/-! ### block-wise assembled storage -/

theorem flatMap_length_const {α : Type} (g : Nat → List α) (n : Nat) (hg : ∀ k, (g k).length = n)
    (px : List Nat) : (px.flatMap g).length = px.length * n := by
  induction px with
  | nil => simp
  | cons k ks ih =>
    rw [List.flatMap_cons, List.length_append, ih, hg, List.length_cons, Nat.succ_mul]
    omega

theorem flatMap_getElem?_block {α : Type} (g : Nat → List α) (n : Nat)
    (hg : ∀ k, (g k).length = n) (px : List Nat) (t j k : Nat) (ht : px[t]? = some k)
    (hj : j < n) : (px.flatMap g)[t * n + j]? = (g k)[j]? := by
  induction px generalizing t with
  | nil => simp at ht
  | cons k0 ks ih =>
    rw [List.flatMap_cons]
    cases t with
    | zero =>
      simp only [List.getElem?_cons_zero, Option.some.injEq] at ht
      subst ht
      rw [Nat.zero_mul, Nat.zero_add, List.getElem?_append_left (by rw [hg]; exact hj)]
    | succ t =>
      simp only [List.getElem?_cons_succ] at ht
      have hle : (g k0).length ≤ (t + 1) * n + j := by
        rw [hg, Nat.succ_mul]; omega
      rw [List.getElem?_append_right hle, hg]
      have : (t + 1) * n + j - n = t * n + j := by rw [Nat.succ_mul]; omega
      rw [this]
      exact ih t ht

/-- a block of `nfine` cells read from `sp` at `start` -/
def fitsBlock (c : Cfg) (vc : VCfg V) (sp : Array V) (start : Nat) : List V :=
  (List.range c.nfine).map fun j => rd sp (start + j) vc.sentinel

theorem fitsBlock_length (c : Cfg) (vc : VCfg V) (sp : Array V) (start : Nat) :
    (fitsBlock c vc sp start).length = c.nfine := by simp [fitsBlock]

theorem fitsBlock_getElem? (c : Cfg) (vc : VCfg V) (sp : Array V) (start j : Nat)
    (hj : j < c.nfine) : (fitsBlock c vc sp start)[j]? = some (rd sp (start + j) vc.sentinel) := by
  simp [fitsBlock, hj]

/-- the state produced by a successful partial read of `writeFits s` -/
def partialState (c : Cfg) (vc : VCfg V) (s : State V) (px : List Nat) : State V :=
  { cov := initializePixels c (emptyCov c) px
    sp := (fitsBlock c vc s.sp 0 ++
      px.flatMap fun k => fitsBlock c vc s.sp (blockStart c s k).toNat).toArray }

theorem readPartial_writeFits (c : Cfg) (vc : VCfg V) (s : State V) (pixels : List Nat) :
    readPartial c vc (writeFits s) pixels =
      if pixels.eraseDups.length < pixels.length then none
      else if (partialPixels c (writeFits s) pixels).isEmpty then none
      else some (partialState c vc s (partialPixels c (writeFits s) pixels)) := rfl

theorem partialState_sp_size (c : Cfg) (vc : VCfg V) (s : State V) (px : List Nat) :
    (partialState c vc s px).sp.size = (px.length + 1) * c.nfine := by
  simp only [partialState, List.size_toArray, List.length_append, fitsBlock_length]
  rw [flatMap_length_const _ c.nfine (fun k => fitsBlock_length c vc s.sp _), Nat.succ_mul]
  omega

theorem partialState_sp_ovf (c : Cfg) (vc : VCfg V) (s : State V) (px : List Nat) (i : Nat)
    (hi : i < c.nfine) :
    (partialState c vc s px).sp[i]? = some (rd s.sp i vc.sentinel) := by
  simp only [partialState, List.getElem?_toArray]
  rw [List.getElem?_append_left (by rw [fitsBlock_length]; exact hi),
    fitsBlock_getElem? c vc s.sp 0 i hi, Nat.zero_add]

theorem partialState_sp_block (c : Cfg) (vc : VCfg V) (s : State V) (px : List Nat) (t j k : Nat)
    (ht : px[t]? = some k) (hj : j < c.nfine) :
    (partialState c vc s px).sp[(t + 1) * c.nfine + j]? =
      some (rd s.sp ((blockStart c s k).toNat + j) vc.sentinel) := by
  simp only [partialState, List.getElem?_toArray]
  have hle : (fitsBlock c vc s.sp 0).length ≤ (t + 1) * c.nfine + j := by
    rw [fitsBlock_length, Nat.succ_mul]; omega
  rw [List.getElem?_append_right hle, fitsBlock_length]
  have : (t + 1) * c.nfine + j - c.nfine = t * c.nfine + j := by rw [Nat.succ_mul]; omega
  rw [this, flatMap_getElem?_block _ c.nfine (fun k => fitsBlock_length c vc s.sp _) px t j k ht hj,
    fitsBlock_getElem? c vc s.sp _ j hj]

theorem partialState_blockStart (c : Cfg) (vc : VCfg V) (s : State V) (px : List Nat) (k : Nat) :
    blockStart c (partialState c vc s px) k = blockStart c (makeEmpty c vc px) k := rfl

theorem partialState_covered (c : Cfg) (vc : VCfg V) (s : State V) (px : List Nat)
    (hnd : px.Nodup) (k : Nat) (hk : k < c.ncov) :
    covered c (partialState c vc s px) k = decide (k ∈ px) := by
  by_cases hm : k ∈ px
  · obtain ⟨t, ht⟩ := List.getElem?_of_mem hm
    have : covered c (partialState c vc s px) k = true := by
      rw [covered_eq_true_iff, partialState_blockStart,
        makeEmpty_blockStart_mem c vc px k t hk hnd ht]
      exact_mod_cast le_succ_mul _ _
    simp [this, hm]
  · have : covered c (partialState c vc s px) k = false := by
      rw [covered_eq_false_iff, partialState_blockStart,
        makeEmpty_blockStart_not_mem c vc px k hk hm]
      exact_mod_cast c.nfine_pos
    simp [this, hm]

theorem partialState_abs_mem (c : Cfg) (vc : VCfg V) (s : State V) (px : List Nat)
    (hnd : px.Nodup) (p : Nat) (hp : p < c.npix) (hm : (p >>> c.shift) ∈ px)
    (hc : covered c s (p >>> c.shift) = true) :
    abs c vc (partialState c vc s px) p = abs c vc s p := by
  have hk := covpix_lt c p hp
  obtain ⟨t, ht⟩ := List.getElem?_of_mem hm
  have hr := Nat.mod_lt p c.nfine_pos
  have hl : lookup c (partialState c vc s px) p =
      (((t + 1) * c.nfine + p % c.nfine : Nat) : Int) := by
    rw [lookup_eq, partialState_blockStart, makeEmpty_blockStart_mem c vc px _ t hk hnd ht]
    omega
  have hbs := (covered_eq_true_iff c s _).1 hc
  have hn := c.nfine_pos
  have hl' : (lookup c s p).toNat = (blockStart c s (p >>> c.shift)).toNat + p % c.nfine := by
    rw [lookup_eq]
    omega
  unfold abs
  rw [hl, Int.toNat_natCast, hl']
  unfold rd
  rw [partialState_sp_block c vc s px t _ _ ht hr]
  rfl

section
variable [DecidableEq V]

theorem inv_partialState (c : Cfg) (vc : VCfg V) (s : State V) (px : List Nat)
    (h : Inv c vc s) (hnd : px.Nodup) (hlt : ∀ k ∈ px, k < c.ncov) :
    Inv c vc (partialState c vc s px) := by
  have hme := inv_makeEmpty' c vc px hnd hlt
  refine inv_of_cov_eq (s' := partialState c vc s px) (vw := vc) hme rfl ?_ ?_
  · rw [partialState_sp_size]; simp [makeEmpty]
  · intro i hi
    rw [partialState_sp_ovf c vc s px i hi]
    unfold rd
    rw [h.2.2.1 i hi]; rfl

end

end HS
