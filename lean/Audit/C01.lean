import HealSparse.Props.C01
#print axioms HS.C01.reserve_abs
#print axioms HS.C01.reserve_covered
#print axioms HS.C01.updateCore_refines
#print axioms HS.C01.updateCore_covered
#print axioms HS.C01.history_refines
#print axioms HS.C01.makeEmpty_abs
#print axioms HS.C01.never_written_reads_sentinel
#print axioms HS.C01.clear_spec
