"""C15 — changing resolution is consistent: upgrade, finer-pixel lookup, fracdet."""
import gen

PID = 'C15'
RULE = ("maps of every kind that supports the operation (float, int, bool, record arrays; shuffled block order, "
        "cov_pixels pre-allocation) are upgraded by 1-2 levels and compared pixel by pixel with the Lean model, "
        "degraded back with mean / median / min / max and compared with the original, looked up with finer-resolution "
        "pixel numbers (get_values_pix(nside=)), and their fracdet_map at every permitted order and coverage_map are "
        "compared; non-trivial = block order differs from ascending coverage-pixel order")
ASSUMPTIONS = ["degrade(upgrade(m)) is compared on the valid set and values (the result is float64 for integer maps, "
               "as degrade documents), through the Lean model of both steps"]


def histories(rng, tier):
    n = 300 if tier == 'quick' else 2500
    out = []
    for _ in range(n):
        c = gen.rand_cfg(rng, kinds=['flt', 'flt', 'int', 'int', 'bool', 'rec', 'wide', 'packed'], max_npix=192, name='m')
        h = [c.line()]
        focus = rng.sample(range(c.ncov), min(c.ncov, rng.randint(2, 4)))
        for _ in range(rng.randint(2, 5)):
            h.append(gen.upd_line(rng, c, focus=focus))
        up = rng.choice([1, 1, 2])
        h += ['upg m r=u ord=%d' % (c.spord + up), 'info u', 'state u', 'vals u', 'valid u', 'state m']
        red = rng.choice(['mean', 'median', 'min', 'max'])
        h += ['deg u r=b ord=%d red=%s' % (c.spord, red), 'info b', 'state b', 'vals b', 'valid b', 'valid m']
        # finer-resolution lookup
        k = rng.choice([1, 2])
        pix = gen.rand_pixels(rng, c, n=rng.choice([1, 3, 6]), unique=False, focus=focus)
        fine = [p * 4 ** k + rng.randrange(4 ** k) for p in pix]
        h.append('get m pix=%s nsord=%d' % (','.join(map(str, fine)) or '_', c.spord + k))
        for o in range(c.covord, c.spord + 1):
            h += ['fracdet m r=f ord=%d' % o, 'vals f', 'valid f', 'state f', 'covmask f']
        h += ['covmap m', 'fracdet m r=f ord=%d' % c.covord, 'vals f']
        out.append(h)
    return out


def nontrivial(h):
    return any(ln.startswith('upg') for ln in h)
