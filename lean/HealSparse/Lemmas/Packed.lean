/-
  Helper lemmas for the packed-array model (Model/Packed.lean): bytes, heap updates,
  the first/middle/last decomposition, bit-level characterisation of every mutating method.
  Property theorems are in Props/C05.lean.
-/
import HealSparse.Model.Packed
namespace HS
namespace Packed

theorem unpack_length (b : Byte) : (unpack b).length = 8 := by simp [unpack]

theorem unpack_getElem? (b : Byte) (t : Nat) :
    (unpack b)[t]? = if t < 8 then some (b.getLsbD t) else none := by
  unfold unpack
  by_cases h : t < 8 <;> simp [h]

theorem unpack_getD (b : Byte) (t : Nat) : (unpack b).getD t false = b.getLsbD t := by
  rw [List.getD_eq_getElem?_getD, unpack_getElem?]
  by_cases h : t < 8
  · simp [h]
  · simp only [h, if_false, Option.getD_none]
    exact (BitVec.getLsbD_of_ge b t (by omega)).symm

theorem pack_getLsbD (l : List Bool) (t : Nat) :
    (pack l).getLsbD t = (decide (t < 8) && l.getD t false) := by
  simp [pack, BitVec.getLsbD_setWidth]

theorem setRange_length (l : List Bool) (lo hi : Nat) (f) : (setRange l lo hi f).length = l.length := by
  simp [setRange]

theorem setRange_getD (l : List Bool) (lo hi : Nat) (f : Nat → Bool → Bool) (t : Nat) (ht : t < l.length) :
    (setRange l lo hi f).getD t false =
      if lo ≤ t ∧ t < hi then f t (l.getD t false) else l.getD t false := by
  simp only [setRange, List.getD_eq_getElem?_getD, List.getElem?_mapIdx, List.getElem?_eq_getElem ht]
  simp only [Option.map_some, Option.getD_some]

theorem byteMod_getLsbD (b : Byte) (lo hi : Nat) (f : Nat → Bool → Bool) (t : Nat) (ht : t < 8) :
    (pack (setRange (unpack b) lo hi f)).getLsbD t =
      if lo ≤ t ∧ t < hi then f t (b.getLsbD t) else b.getLsbD t := by
  rw [pack_getLsbD, setRange_getD _ _ _ _ _ (by simp [unpack_length, ht]), unpack_getD]
  simp [ht]

theorem pack_unpack (b : Byte) : pack (unpack b) = b := by
  apply BitVec.eq_of_getLsbD_eq
  intro i hi
  rw [pack_getLsbD, unpack_getD]; simp [hi]

/-! heap -/
theorem wr_size (h : Heap) (i : Nat) (b : Byte) : (wr h i b).size = h.size := by simp [wr]

theorem rdB_wr (h : Heap) (i : Nat) (b : Byte) (j : Nat) :
    rdB (wr h i b) j = if j = i ∧ i < h.size then b else rdB h j := by
  simp only [rdB, wr, Array.getD_eq_getD_getElem?, Array.getElem?_setIfInBounds]
  by_cases h1 : i = j
  · subst h1; by_cases h2 : i < h.size <;> simp [h2]
  · have : ¬ j = i := fun e => h1 e.symm
    simp [h1, this]

theorem mapRange_size (h : Heap) (a b : Nat) (g) : (mapRange h a b g).size = h.size := by simp [mapRange]

theorem rdB_mapRange (h : Heap) (a b : Nat) (g : Nat → Byte → Byte) (j : Nat) :
    rdB (mapRange h a b g) j = if a ≤ j ∧ j < b ∧ j < h.size then g (j - a) (rdB h j) else rdB h j := by
  simp only [rdB, mapRange, Array.getD_eq_getD_getElem?, Array.getElem?_mapIdx]
  by_cases hj : j < h.size
  · simp only [Array.getElem?_eq_getElem hj, Option.map_some, Option.getD_some, hj, and_true]
  · simp [hj]

theorem hbit_wr (h : Heap) (i : Nat) (b : Byte) (k : Nat) :
    hbit (wr h i b) k = if k / 8 = i ∧ i < h.size then b.getLsbD (k % 8) else hbit h k := by
  simp only [hbit, rdB_wr]; split <;> rfl

theorem hbit_mapRange (h : Heap) (a b : Nat) (g : Nat → Byte → Byte) (k : Nat) :
    hbit (mapRange h a b g) k =
      if a ≤ k / 8 ∧ k / 8 < b ∧ k / 8 < h.size then (g (k / 8 - a) (rdB h (k / 8))).getLsbD (k % 8)
      else hbit h k := by
  simp only [hbit, rdB_mapRange]; split <;> rfl

theorem flatMap_unpack_getElem? (bs : List Byte) (k : Nat) :
    (bs.flatMap unpack)[k]? = (bs[k / 8]?).map (·.getLsbD (k % 8)) := by
  induction bs generalizing k with
  | nil => simp
  | cons b bs ih =>
    rw [List.flatMap_cons, List.getElem?_append, unpack_length]
    by_cases hk : k < 8
    · have h0 : k / 8 = 0 := by omega
      have h1 : k % 8 = k := by omega
      simp [hk, h0, h1, unpack_getElem?]
    · have h0 : k / 8 = (k - 8) / 8 + 1 := by omega
      have h1 : (k - 8) % 8 = k % 8 := by omega
      simp only [hk, if_false, ih, h0, h1, List.getElem?_cons_succ]

theorem data_getElem? (h : Heap) (p : PBA) (hin : p.off + p.len ≤ h.size) (i : Nat) :
    (p.data h)[i]? = if i < p.len then some (rdB h (p.off + i)) else none := by
  simp only [PBA.data, Array.getElem?_toList, Array.getElem?_extract, rdB, Array.getD_eq_getD_getElem?]
  rw [Nat.min_eq_left hin]
  by_cases hi : i < p.len
  · have : p.off + i < h.size := by omega
    simp [hi, this]
  · simp [hi]

theorem data_length (h : Heap) (p : PBA) (hin : p.off + p.len ≤ h.size) : (p.data h).length = p.len := by
  simp [PBA.data]; omega

/-- Well-formed view: the constructor invariants (they hold for every object built by the
    constructor, `from_boolean_array`, `copy` and by non-reversed slices) and "inside the heap". -/
structure WF (h : Heap) (p : PBA) : Prop where
  start_lt : p.start < 8
  start_le : (p.start : Int) ≤ p.stop
  stop_ge : 8 * (p.len : Int) - 7 ≤ p.stop
  stop_le : p.stop ≤ 8 * (p.len : Int)
  in_heap : p.off + p.len ≤ h.size

/-- number of elements -/
def PBA.n (p : PBA) : Nat := (p.stop - p.start).toNat
/-- absolute position of element 0 in the heap's bit string -/
def PBA.A (p : PBA) : Nat := 8 * p.off + p.start

theorem toBools_getElem? (h : Heap) (p : PBA) (hwf : WF h p) (i : Nat) :
    (toBools h p)[i]? = if i < p.n then some (hbit h (p.A + i)) else none := by
  obtain ⟨h1, h2, h3, h4, h5⟩ := hwf
  simp only [toBools, List.getElem?_drop, List.getElem?_take, flatMap_unpack_getElem?,
    data_getElem? h p h5, PBA.n, PBA.A, hbit]
  by_cases hi : i < (p.stop - ↑p.start).toNat
  · have a1 : p.start + i < p.stop.toNat := by omega
    have a2 : (p.start + i) / 8 < p.len := by omega
    have a3 : (8 * p.off + p.start + i) / 8 = p.off + (p.start + i) / 8 := by omega
    have a4 : (8 * p.off + p.start + i) % 8 = (p.start + i) % 8 := by omega
    simp [a1, a2, a3, a4]
    omega
  · have a1 : ¬ p.start + i < p.stop.toNat := by omega
    simp [a1]
    omega

theorem toBools_length (h : Heap) (p : PBA) (hwf : WF h p) : (toBools h p).length = p.n := by
  have := toBools_getElem? h p hwf
  apply Nat.le_antisymm
  · apply Nat.le_of_not_lt; intro hc
    have := this p.n; simp at this
    omega
  · apply Nat.le_of_not_lt; intro hc
    have := this (toBools h p).length
    simp [hc] at this

theorem toBools_eq (h : Heap) (p : PBA) (hwf : WF h p) :
    toBools h p = (List.range p.n).map fun i => hbit h (p.A + i) := by
  apply List.ext_getElem?
  intro i
  rw [toBools_getElem? h p hwf]
  by_cases hi : i < p.n <;> simp [hi]


end Packed
end HS
