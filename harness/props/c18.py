"""C18 — concatenating disjoint map files yields their union, pixel for pixel."""
import gen

PID = 'C18'
RULE = ("1-4 map files of one kind (float / integer dtypes, record arrays, wide masks) with equal nside_sparse and "
        "arbitrary, differing coverage orders are built from a random partition of a random pixel set (so valid sets "
        "are disjoint but interleaved inside shared coverage pixels; a finer input may cover only the first, a "
        "middle or the last child of an output coverage pixel; block orders shuffled), plus with some probability an "
        "overlapping pixel; they are concatenated in memory with output coverage order finer / equal / coarser than "
        "each input and check_overlap / or_overlap on or off; the output file is read back (and its COV/SPARSE "
        "extensions checked raw) and compared over all pixels with the Lean model; with overlap checking the error "
        "must be raised exactly when the model raises; non-trivial = >= 2 inputs with different coverage orders")
ASSUMPTIONS = ["in_memory=True only (in_memory=False needs fitsio, which is not installed)",
               "boolean and bit-packed inputs are outside the property (plain, record, wide mask)",
               "known finding F50: wide-mask inputs are not concatenated to an output coverage coarser than the first "
               "file's coverage"]


def histories(rng, tier):
    n = 220 if tier == 'quick' else 1200
    out = []
    for _ in range(n):
        kind = rng.choice(['int', 'int', 'flt', 'rec', 'wide'])
        spord = rng.choice([1, 2, 2, 3])
        nfiles = rng.choice([1, 2, 2, 3, 4])
        base = gen.rand_cfg(rng, kinds=[kind], max_npix=100000, name='b')
        cfgs = []
        for i in range(nfiles):
            covord = rng.randint(0, min(spord, 2))
            cfgs.append(gen.MapCfg('m%d' % i, base.kind, covord, spord, dtype=base.dtype, sentinel=base.sentinel,
                                   maxbits=base.maxbits, fields=base.fields, primary=base.primary))
        c0 = cfgs[0]
        npix = 12 * 4 ** spord
        # a random pixel set concentrated in a few coarse cells, partitioned among the files
        cells = rng.sample(range(12), rng.randint(1, 3))
        pool = []
        for cell in cells:
            g = 4 ** spord
            sel = [cell * g + j for j in range(g) if rng.random() < rng.choice([0.1, 0.3, 0.6])]
            pool += sel
        rng.shuffle(pool)
        owner = {p: rng.randrange(nfiles) for p in pool}
        overlap = rng.random() < 0.25 and nfiles >= 2 and pool
        h = [c.line() for c in cfgs]
        zero_ok = (c0.kind == 'wide') or (c0.is_int and c0.zero_sentinel())
        for i, c in enumerate(cfgs):
            mine = [p for p in pool if owner[p] == i]
            if overlap and i == 1:
                mine = mine + [p for p in pool if owner[p] == 0][:2]
            rng.shuffle(mine)
            # several separate calls: coverage blocks are appended per call (sorted within a call), so the
            # file's block order is a merge of 1-4 sorted runs, not the pixel order
            k = rng.choice([1, 2, 2, 3, 4])
            for ch in [mine[j::k] for j in range(k)]:
                if ch:
                    vals = []
                    for _ in ch:
                        v = c.val(rng)
                        vals.append(v)
                    h.append('upd %s op=replace pix=%s vals=%s' % (c.name, ','.join(map(str, ch)), ','.join(vals)))
            h.append('write %s f=f%d compress=%s' % (c.name, i, rng.choice('01')))
        covout = rng.choice([None, 0, 1, 2])
        if covout is not None and covout > spord:
            covout = spord
        if c0.kind == 'wide' and covout is not None and covout < c0.covord:
            covout = c0.covord              # known finding F50 (stub read with the output block size)
        check = rng.random() < 0.5
        orov = check and zero_ok and rng.random() < 0.5
        ln = 'cat f=out files=%s' % ','.join('f%d' % i for i in range(nfiles))
        if covout is not None:
            ln += ' covord=%d' % covout
        if check:
            ln += ' check=1'
        if orov:
            ln += ' or=1'
        h += [ln, 'fitsraw f=out', 'read r=res f=out', 'info res', 'state res', 'vals res', 'valid res']
        out.append(h)
    return [gen.file_variants(rng, h) for h in out]


def nontrivial(h):
    covs = set()
    for ln in h:
        if ln.startswith('cfg '):
            covs.add(next(t for t in ln.split() if t.startswith('covord=')))
    return len(covs) >= 2


def must_reject(line):
    """C18: with overlap checking, overlapping inputs must raise"""
    return line.startswith('cat ') and ' check=1' in line
