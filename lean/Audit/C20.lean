import HealSparse.Props.C20
#print axioms HS.C20.fast_in_parent
#print axioms HS.C20.fast_onto
#print axioms HS.C20.loop_spec
#print axioms HS.C20.loop_valid
#print axioms HS.C20.loop_terminates
#print axioms HS.C20.loop_may_diverge
#print axioms HS.C20.window_covers
#print axioms HS.C20.window_width
#print axioms HS.C20.Witness.window_clip_starves
