/-
  Helper lemmas for degrade-on-read (`Model/DegradeOnRead.lean`), used by Props/C19.
  The output of `degradeOnRead` / `degradeOnReadW` is a state whose index is rebuilt from the
  processed pixel list, with one storage block per processed pixel and a blank overflow block
  (`dorState`); its layout, coverage and dense view are proved once for that shape, then the
  cell arithmetic of the two block functions is added.
-/
import HealSparse.Lemmas.Core
import HealSparse.Lemmas.Coverage
import HealSparse.Lemmas.Valid
import HealSparse.Lemmas.Resolution
import HealSparse.Lemmas.FitsIO
import HealSparse.Model.DegradeOnRead
namespace HS
variable {V W : Type}

/-! ### a state assembled block-wise over a pixel list -/

/-- index rebuilt from `px`, blank overflow block, block `t+1` = `outBlock px[t]` -/
def dorState (cOut : Cfg) (sentOut : W) (px : List Nat) (outBlock : Nat → List W) : State W :=
  { cov := initializePixels cOut (emptyCov cOut) px
    sp := (List.replicate cOut.nfine sentOut ++ px.flatMap outBlock).toArray }

theorem dorState_sp_size (cOut : Cfg) (sentOut : W) (px : List Nat) (outBlock : Nat → List W)
    (hlen : ∀ k, (outBlock k).length = cOut.nfine) :
    (dorState cOut sentOut px outBlock).sp.size = (px.length + 1) * cOut.nfine := by
  simp only [dorState, List.size_toArray, List.length_append, List.length_replicate]
  rw [flatMap_length_const _ cOut.nfine hlen, Nat.succ_mul]
  omega

theorem dorState_sp_ovf (cOut : Cfg) (sentOut : W) (px : List Nat) (outBlock : Nat → List W)
    (i : Nat) (hi : i < cOut.nfine) :
    (dorState cOut sentOut px outBlock).sp[i]? = some sentOut := by
  simp only [dorState, List.getElem?_toArray]
  rw [List.getElem?_append_left (by rw [List.length_replicate]; exact hi)]
  simp [hi]

theorem dorState_sp_block (cOut : Cfg) (sentOut : W) (px : List Nat) (outBlock : Nat → List W)
    (hlen : ∀ k, (outBlock k).length = cOut.nfine) (t j k : Nat) (ht : px[t]? = some k)
    (hj : j < cOut.nfine) :
    (dorState cOut sentOut px outBlock).sp[(t + 1) * cOut.nfine + j]? = (outBlock k)[j]? := by
  simp only [dorState, List.getElem?_toArray]
  have hle : (List.replicate cOut.nfine sentOut).length ≤ (t + 1) * cOut.nfine + j := by
    rw [List.length_replicate, Nat.succ_mul]; omega
  rw [List.getElem?_append_right hle, List.length_replicate]
  have : (t + 1) * cOut.nfine + j - cOut.nfine = t * cOut.nfine + j := by
    rw [Nat.succ_mul]; omega
  rw [this, flatMap_getElem?_block _ cOut.nfine hlen px t j k ht hj]

theorem dorState_blockStart (cOut : Cfg) (vw : VCfg W) (px : List Nat) (outBlock : Nat → List W)
    (k : Nat) :
    blockStart cOut (dorState cOut vw.sentinel px outBlock) k
      = blockStart cOut (makeEmpty cOut vw px) k := rfl

theorem dorState_covered (cOut : Cfg) (vw : VCfg W) (px : List Nat) (outBlock : Nat → List W)
    (hnd : px.Nodup) (k : Nat) (hk : k < cOut.ncov) :
    covered cOut (dorState cOut vw.sentinel px outBlock) k = decide (k ∈ px) := by
  by_cases hm : k ∈ px
  · obtain ⟨t, ht⟩ := List.getElem?_of_mem hm
    have : covered cOut (dorState cOut vw.sentinel px outBlock) k = true := by
      rw [covered_eq_true_iff, dorState_blockStart,
        makeEmpty_blockStart_mem cOut vw px k t hk hnd ht]
      exact_mod_cast le_succ_mul _ _
    simp [this, hm]
  · have : covered cOut (dorState cOut vw.sentinel px outBlock) k = false := by
      rw [covered_eq_false_iff, dorState_blockStart,
        makeEmpty_blockStart_not_mem cOut vw px k hk hm]
      exact_mod_cast cOut.nfine_pos
    simp [this, hm]

theorem inv_dorState [DecidableEq W] (cOut : Cfg) (vw : VCfg W) (px : List Nat)
    (outBlock : Nat → List W) (hnd : px.Nodup) (hlt : ∀ k ∈ px, k < cOut.ncov)
    (hlen : ∀ k, (outBlock k).length = cOut.nfine) :
    Inv cOut vw (dorState cOut vw.sentinel px outBlock) := by
  have hme := inv_makeEmpty' cOut vw px hnd hlt
  refine inv_of_cov_eq (s' := dorState cOut vw.sentinel px outBlock) (vw := vw) hme rfl ?_ ?_
  · rw [dorState_sp_size _ _ _ _ hlen]; simp [makeEmpty]
  · exact fun i hi => dorState_sp_ovf cOut vw.sentinel px outBlock i hi

/-- a pixel of a processed coverage pixel reads the cell of that pixel's output block -/
theorem dorState_abs_mem (cOut : Cfg) (vw : VCfg W) (px : List Nat) (outBlock : Nat → List W)
    (hnd : px.Nodup) (hlen : ∀ k, (outBlock k).length = cOut.nfine) {K r : Nat}
    (hK : K < cOut.ncov) (hr : r < cOut.nfine) (hm : K ∈ px) :
    abs cOut vw (dorState cOut vw.sentinel px outBlock) (K * cOut.nfine + r)
      = ((outBlock K)[r]?).getD vw.sentinel := by
  obtain ⟨t, ht⟩ := List.getElem?_of_mem hm
  have hbs : blockStart cOut (dorState cOut vw.sentinel px outBlock) K
      = (((t + 1) * cOut.nfine : Nat) : Int) := by
    rw [dorState_blockStart, makeEmpty_blockStart_mem cOut vw px K t hK hnd ht]
  rw [abs_block cOut vw _ hbs hr]
  unfold rd
  rw [dorState_sp_block cOut vw.sentinel px outBlock hlen t r K ht hr]

theorem dorState_abs_not_mem [DecidableEq W] (cOut : Cfg) (vw : VCfg W) (px : List Nat)
    (outBlock : Nat → List W) (hnd : px.Nodup) (hlt : ∀ k ∈ px, k < cOut.ncov)
    (hlen : ∀ k, (outBlock k).length = cOut.nfine) {q : Nat} (hq : q < cOut.npix)
    (hm : (q >>> cOut.shift) ∉ px) :
    abs cOut vw (dorState cOut vw.sentinel px outBlock) q = vw.sentinel := by
  refine (inv_dorState cOut vw px outBlock hnd hlt hlen).abs_uncovered hq ?_
  rw [dorState_covered cOut vw px outBlock hnd _ (covpix_lt cOut q hq)]
  simp [hm]

/-! ### the pixels processed -/

/-- all covered coverage pixels, ascending -/
def allCovered (c : Cfg) (s : State V) : List Nat :=
  (List.range c.ncov).filter fun k => covered c s k

theorem mem_allCovered (c : Cfg) (s : State V) (k : Nat) :
    k ∈ allCovered c s ↔ k < c.ncov ∧ covered c s k = true := by
  simp [allCovered, List.mem_range]

theorem nodup_allCovered (c : Cfg) (s : State V) : (allCovered c s).Nodup :=
  List.filter_sublist.nodup List.nodup_range

theorem dorPixels_none (c : Cfg) (s : State V) :
    dorPixels c (writeFits s) none = some (allCovered c s) := rfl

theorem dorPixels_some (c : Cfg) (s : State V) (l : List Nat) :
    dorPixels c (writeFits s) (some l) =
      if l.eraseDups.length < l.length then none
      else if (partialPixels c (writeFits s) l).isEmpty then none
      else some (partialPixels c (writeFits s) l) := rfl

/-- the request is rejected by degrade-on-read exactly when the partial read rejects it -/
theorem dorPixels_eq_none_iff (c : Cfg) (vc : VCfg V) (s : State V) (l : List Nat) :
    dorPixels c (writeFits s) (some l) = none ↔ readPartial c vc (writeFits s) l = none := by
  rw [dorPixels_some, readPartial_writeFits]
  by_cases h1 : l.eraseDups.length < l.length
  · simp [h1]
  · rw [if_neg h1, if_neg h1]
    by_cases h2 : (partialPixels c (writeFits s) l).isEmpty = true
    · simp [h2]
    · simp [h2]

/-- a request that is not rejected: both paths process `partialPixels` -/
theorem dorPixels_some_eq_some (c : Cfg) (vc : VCfg V) (s : State V) (l px : List Nat)
    (h : dorPixels c (writeFits s) (some l) = some px) :
    l.Nodup ∧ px = partialPixels c (writeFits s) l ∧
      readPartial c vc (writeFits s) l = some (partialState c vc s px) := by
  rw [dorPixels_some] at h
  rw [readPartial_writeFits]
  by_cases h1 : l.eraseDups.length < l.length
  · rw [if_pos h1] at h; cases h
  · rw [if_neg h1] at h
    by_cases h2 : (partialPixels c (writeFits s) l).isEmpty = true
    · rw [if_pos h2] at h; cases h
    · rw [if_neg h2] at h
      have e : partialPixels c (writeFits s) l = px := Option.some.inj h
      refine ⟨?_, e.symm, ?_⟩
      · rw [eraseDups_length_lt_iff] at h1
        exact Classical.not_not.1 h1
      · rw [if_neg h1, if_neg h2, e]

/-! ### unweighted degrade-on-read -/

/-- the output block of coverage pixel `k` -/
def dorBlock (c : Cfg) (vc : VCfg V) (s : State V) (g : Nat) (red : List V → W) (k : Nat) :
    List W :=
  (List.range (degCfg c g).nfine).map fun r =>
    red ((List.range (2 ^ g)).map fun j =>
      rd s.sp ((blockStart c s k).toNat + r * 2 ^ g + j) vc.sentinel)

theorem dorBlock_length (c : Cfg) (vc : VCfg V) (s : State V) (g : Nat) (red : List V → W)
    (k : Nat) : (dorBlock c vc s g red k).length = (degCfg c g).nfine := by
  simp [dorBlock]

theorem degradeOnRead_writeFits (c : Cfg) (vc : VCfg V) (s : State V) (pixels : Option (List Nat))
    (g : Nat) (red : List V → W) (sentOut : W) :
    degradeOnRead c vc (writeFits s) pixels g red sentOut =
      (dorPixels c (writeFits s) pixels).map fun px =>
        dorState (degCfg c g) sentOut px (dorBlock c vc s g red) := rfl

section dor
variable [DecidableEq V] {c : Cfg} {vc : VCfg V} {s : State V} {g : Nat}

/-- cell `r` of the output block of a covered pixel `K` is the reduction of the children of
    coarse pixel `K*nfine' + r`, in NEST order -/
theorem Inv.dorBlock_get (h : Inv c vc s) (hg : g ≤ c.shift) (red : List V → W) {K r : Nat}
    (hK : K < c.ncov) (hc : covered c s K = true) (hr : r < (degCfg c g).nfine) :
    (dorBlock c vc s g red K)[r]? =
      some (red (childrenVals c vc s g (K * (degCfg c g).nfine + r))) := by
  obtain ⟨b, _, hbs⟩ := h.covered_blk hK hc
  have e : (dorBlock c vc s g red K)[r]? = some (red ((List.range (2 ^ g)).map fun j =>
      rd s.sp ((blockStart c s K).toNat + r * 2 ^ g + j) vc.sentinel)) := by
    simp [dorBlock, hr]
  rw [e]
  congr 2
  unfold childrenVals
  apply List.map_congr_left
  intro j hj
  obtain ⟨e1, e2⟩ := child_split c hg (K := K) hr (List.mem_range.1 hj)
  rw [e1, abs_block c vc s hbs e2, hbs, Int.toNat_natCast, Nat.add_assoc]

/-- direct specification of the state built by degrade-on-read over a processed pixel list -/
theorem Inv.dor_spec [DecidableEq W] (h : Inv c vc s) (hg : g ≤ c.shift) (vcOut : VCfg W)
    (red : List V → W) (px : List Nat) (hnd : px.Nodup)
    (hpx : ∀ k ∈ px, k < c.ncov ∧ covered c s k = true) :
    Inv (degCfg c g) vcOut (dorState (degCfg c g) vcOut.sentinel px (dorBlock c vc s g red)) ∧
    (∀ q, q < (degCfg c g).npix →
      abs (degCfg c g) vcOut (dorState (degCfg c g) vcOut.sentinel px (dorBlock c vc s g red)) q
        = if (q >>> (c.shift - g)) ∈ px then red (childrenVals c vc s g q)
          else vcOut.sentinel) ∧
    (∀ k, k < c.ncov →
      covered (degCfg c g) (dorState (degCfg c g) vcOut.sentinel px (dorBlock c vc s g red)) k
        = decide (k ∈ px)) := by
  have hlt : ∀ k ∈ px, k < (degCfg c g).ncov := fun k hk => (hpx k hk).1
  have hlen := dorBlock_length c vc s g red
  refine ⟨inv_dorState _ vcOut px _ hnd hlt hlen, ?_,
    fun k hk => dorState_covered _ vcOut px _ hnd k hk⟩
  intro q hq
  split
  · rename_i hm
    obtain ⟨K, r, hK, hr, rfl, hsh⟩ := pix_decomp (degCfg c g) hq
    have hsh' : (K * (degCfg c g).nfine + r) >>> (c.shift - g) = K := hsh
    rw [hsh'] at hm
    rw [dorState_abs_mem _ vcOut px _ hnd hlen hK hr hm,
      h.dorBlock_get hg red hK (hpx K hm).2 hr]
    rfl
  · rename_i hm
    exact dorState_abs_not_mem _ vcOut px _ hnd hlt hlen hq hm

omit [DecidableEq V] in
/-- the children of a coarse pixel inside the coverage read hold the same values in the
    partially-read map as in the map written -/
theorem childrenVals_partialState (hg : g ≤ c.shift) (px : List Nat) (hnd : px.Nodup)
    (hpx : ∀ k ∈ px, k < c.ncov ∧ covered c s k = true) {q : Nat} (hq : q < (degCfg c g).npix)
    (hm : (q >>> (c.shift - g)) ∈ px) :
    childrenVals c vc (partialState c vc s px) g q = childrenVals c vc s g q := by
  unfold childrenVals
  apply List.map_congr_left
  intro j hj
  obtain ⟨h1, h2⟩ := child_facts c hg hq (List.mem_range.1 hj)
  exact partialState_abs_mem c vc s px hnd _ h1 (by rw [h2]; exact hm)
    (by rw [h2]; exact (hpx _ hm).2)

end dor

/-! ### weighted degrade-on-read -/

/-- the output block of coverage pixel `k`, weights read through the weight file's own index -/
def dorBlockW {X : Type} (c : Cfg) (vc : VCfg V) (s : State V) (ws : State X) (dflt : X)
    (prep : X → X) (g : Nat) (red : List (V × X) → W) (k : Nat) : List W :=
  (List.range (degCfg c g).nfine).map fun r =>
    red ((List.range (2 ^ g)).map fun j =>
      (rd s.sp ((blockStart c s k).toNat + r * 2 ^ g + j) vc.sentinel,
        prep (rd ws.sp ((blockStart c ws k).toNat + r * 2 ^ g + j) dflt)))

theorem dorBlockW_length {X : Type} (c : Cfg) (vc : VCfg V) (s : State V) (ws : State X)
    (dflt : X) (prep : X → X) (g : Nat) (red : List (V × X) → W) (k : Nat) :
    (dorBlockW c vc s ws dflt prep g red k).length = (degCfg c g).nfine := by
  simp [dorBlockW]

theorem degradeOnReadW_writeFits {X : Type} (c : Cfg) (vc : VCfg V) (s : State V) (ws : State X)
    (dflt : X) (prep : X → X) (pixels : Option (List Nat)) (g : Nat) (red : List (V × X) → W)
    (sentOut : W) :
    degradeOnReadW c vc (writeFits s) (writeFits ws) dflt prep pixels g red sentOut =
      (dorPixels c (writeFits s) pixels).map fun px =>
        dorState (degCfg c g) sentOut px (dorBlockW c vc s ws dflt prep g red) := rfl

section dorW
variable [DecidableEq V] {X : Type} [DecidableEq X] {c : Cfg} {vc : VCfg V} {vcX : VCfg X}
  {s : State V} {ws : State X} {g : Nat}

theorem Inv.dorBlockW_get (h : Inv c vc s) (hw : Inv c vcX ws) (hg : g ≤ c.shift)
    (prep : X → X) (red : List (V × X) → W) {K r : Nat}
    (hK : K < c.ncov) (hc : covered c s K = true) (hcw : covered c ws K = true)
    (hr : r < (degCfg c g).nfine) :
    (dorBlockW c vc s ws vcX.sentinel prep g red K)[r]? =
      some (red ((List.range (2 ^ g)).map fun j =>
        (abs c vc s ((K * (degCfg c g).nfine + r) * 2 ^ g + j),
          prep (abs c vcX ws ((K * (degCfg c g).nfine + r) * 2 ^ g + j))))) := by
  obtain ⟨b, _, hbs⟩ := h.covered_blk hK hc
  obtain ⟨b', _, hbs'⟩ := hw.covered_blk hK hcw
  have e : (dorBlockW c vc s ws vcX.sentinel prep g red K)[r]? =
      some (red ((List.range (2 ^ g)).map fun j =>
        (rd s.sp ((blockStart c s K).toNat + r * 2 ^ g + j) vc.sentinel,
          prep (rd ws.sp ((blockStart c ws K).toNat + r * 2 ^ g + j) vcX.sentinel)))) := by
    simp [dorBlockW, hr]
  rw [e]
  congr 2
  apply List.map_congr_left
  intro j hj
  obtain ⟨e1, e2⟩ := child_split c hg (K := K) hr (List.mem_range.1 hj)
  rw [e1, abs_block c vc s hbs e2, abs_block c vcX ws hbs' e2, hbs, hbs', Int.toNat_natCast,
    Int.toNat_natCast, Nat.add_assoc, Nat.add_assoc]

/-- direct specification of the weighted degrade-on-read over a processed pixel list -/
theorem Inv.dorW_spec' [DecidableEq W] (h : Inv c vc s) (hw : Inv c vcX ws) (hg : g ≤ c.shift)
    (vcOut : VCfg W) (prep : X → X) (red : List (V × X) → W) (px : List Nat) (hnd : px.Nodup)
    (hpx : ∀ k ∈ px, k < c.ncov ∧ covered c s k = true ∧ covered c ws k = true) :
    Inv (degCfg c g) vcOut
      (dorState (degCfg c g) vcOut.sentinel px (dorBlockW c vc s ws vcX.sentinel prep g red)) ∧
    (∀ q, q < (degCfg c g).npix →
      abs (degCfg c g) vcOut
          (dorState (degCfg c g) vcOut.sentinel px (dorBlockW c vc s ws vcX.sentinel prep g red)) q
        = if (q >>> (c.shift - g)) ∈ px
          then red ((List.range (2 ^ g)).map fun j =>
                 (abs c vc s (q * 2 ^ g + j), prep (abs c vcX ws (q * 2 ^ g + j))))
          else vcOut.sentinel) := by
  have hlt : ∀ k ∈ px, k < (degCfg c g).ncov := fun k hk => (hpx k hk).1
  have hlen := dorBlockW_length c vc s ws vcX.sentinel prep g red
  refine ⟨inv_dorState _ vcOut px _ hnd hlt hlen, ?_⟩
  intro q hq
  split
  · rename_i hm
    obtain ⟨K, r, hK, hr, rfl, hsh⟩ := pix_decomp (degCfg c g) hq
    have hsh' : (K * (degCfg c g).nfine + r) >>> (c.shift - g) = K := hsh
    rw [hsh'] at hm
    rw [dorState_abs_mem _ vcOut px _ hnd hlen hK hr hm,
      h.dorBlockW_get hw hg prep red hK (hpx K hm).2.1 (hpx K hm).2.2 hr]
    rfl
  · rename_i hm
    exact dorState_abs_not_mem _ vcOut px _ hnd hlt hlen hq hm

end dorW

end HS
