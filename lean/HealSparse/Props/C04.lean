/-
  C04 — every reachable map obeys the published storage layout.
  Property theorems only (helpers in HealSparse/Lemmas).
-/
import HealSparse.Lemmas.Core
import HealSparse.Model.FitsIO
import HealSparse.Lemmas.Coverage
namespace HS
namespace C04

variable {V : Type} [DecidableEq V]

/-- The executable checker decides exactly the layout invariant. -/
theorem checkInv_iff (c : Cfg) (vc : VCfg V) (s : State V) :
    checkInv c vc s = true ↔ Inv c vc s := by
  simp [checkInv]

/-- `make_empty(cov_pixels=P)` yields a well-formed map, for any duplicate-free in-range `P`
    in any order. -/
theorem inv_makeEmpty (c : Cfg) (vc : VCfg V) (P : List Nat)
    (hnd : P.Nodup) (hlt : ∀ k ∈ P, k < c.ncov) : Inv c vc (makeEmpty c vc P) := by
  exact inv_makeEmpty' c vc P hnd hlt

/-- `_reserve_cov_pix` preserves the layout. -/
theorem inv_reserve (c : Cfg) (vc : VCfg V) (s : State V) (new : List Nat)
    (h : Inv c vc s) (hnd : new.Nodup)
    (hnew : ∀ k ∈ new, k < c.ncov ∧ covered c s k = false) :
    Inv c vc (reserve c vc s new) := by
  exact inv_reserve' c vc s new h hnd hnew

/-- `update_values_pix` preserves the layout, for every operation, operand list
    (duplicates allowed), and in either append mode. -/
theorem inv_updateCore {W : Type} (c : Cfg) (vc : VCfg V) (s : State V) (g : V → W → V)
    (L : List (Nat × W)) (na : Bool)
    (h : Inv c vc s) (hL : ∀ qw ∈ L, qw.1 < c.npix) :
    Inv c vc (updateCore c vc s g L na) := by
  exact inv_updateCore' c vc s g L na h hL

/-- Distinct sky pixels never share a storage cell (within covered coverage pixels). -/
theorem lookup_inj (c : Cfg) (vc : VCfg V) (s : State V) (h : Inv c vc s) (p q : Nat)
    (hp : p < c.npix) (hq : q < c.npix) (hc : covered c s (p >>> c.shift) = true)
    (he : lookup c s p = lookup c s q) : p = q := by
  exact h.lookup_inj hp hq hc he

/-- Every pixel of an uncovered coverage pixel lands in the overflow block and reads as the sentinel. -/
theorem uncovered_reads_sentinel (c : Cfg) (vc : VCfg V) (s : State V) (h : Inv c vc s) (p : Nat)
    (hp : p < c.npix) (hc : covered c s (p >>> c.shift) = false) :
    0 ≤ lookup c s p ∧ lookup c s p < ((c.nfine : Nat) : Int) ∧ abs c vc s p = vc.sentinel := by
  have hl := h.lookup_uncovered hp hc
  have hr := Nat.mod_lt p c.nfine_pos
  refine ⟨by omega, by omega, h.abs_uncovered hp hc⟩

/-- Pixels of covered coverage pixels are stored inside the storage, beyond the overflow block. -/
theorem covered_in_range (c : Cfg) (vc : VCfg V) (s : State V) (h : Inv c vc s) (p : Nat)
    (hp : p < c.npix) (hc : covered c s (p >>> c.shift) = true) :
    ((c.nfine : Nat) : Int) ≤ lookup c s p ∧ lookup c s p < ((s.sp.size : Nat) : Int) := by
  have hi := h.idxOf_covered hp hc
  rw [hi.2.2]
  exact ⟨by exact_mod_cast hi.1, by exact_mod_cast hi.2.1⟩

/-- every file written from a well-formed map conforms to the published layout: its COV and
    SPARSE extensions ARE the coverage index and the storage (and a full read gives them back) -/
theorem file_layout (c : Cfg) (vc : VCfg V) (s : State V) (h : Inv c vc s) :
    Inv c vc (⟨(writeFits s).cov, (writeFits s).data⟩ : State V) ∧ readFull (writeFits s) = s := by
  cases s
  exact ⟨h, rfl⟩

/-- non-vacuity: a concrete non-trivial state (two blocks allocated out of order) satisfies `Inv`. -/
example : Inv (V := Nat) ⟨3, 1⟩ ⟨0, fun x => x != 0⟩
    ⟨#[4, -2, -2], #[0, 0, 7, 0, 0, 9]⟩ := by decide

end C04
end HS
