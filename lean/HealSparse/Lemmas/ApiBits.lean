/-
  Wide-mask maps at the API level (helper lemmas for the API part of Props/C13):

  * `hasBit`, `isRowVal`, `RowCells`, `WideMap`: the reading of a cell as a set of bit
    positions and the typing of the cells that reading needs (`MapObj.Ok` does not give it);
  * `apiSetBits_wide`, `apiCheckBits_wide`, `apiScalarOp_bits_wide` (and the `_not_wide`
    forms): the `Except` programs as flat decision lists;
  * `setBits_spec`: dense view / coverage / layout of the storage `set_bits_pix` /
    `clear_bits_pix` produce, `denseFold_idem`: a bit-wise idempotent cell operation applied
    once per occurrence of a pixel acts as if applied once;
  * `scalarOp_abs`: the dense view after an operator;
  * the driver: `opBits` answering anything but `ok` returns the world it was given.
-/
import HealSparse.Lemmas.ApiRanges
import HealSparse.Lemmas.WideMask
namespace HS
namespace ApiBits

open ApiRanges

/-! ### cells as sets of bit positions -/

/-- bit `b` of a byte-row cell: byte `b / 8`, bit `b % 8` (little endian); no bit in any other
    kind of cell -/
def hasBit (v : Val) (b : Nat) : Bool :=
  match v with
  | .bytes row => rowTestBit row b
  | _ => false

/-- a cell of a wide-mask map of `n` bytes: a row of `n` numbers below 256 -/
def isRowVal (n : Nat) (v : Val) : Bool :=
  match v with
  | .bytes row => row.length == n && row.all (· < 256)
  | _ => false

theorem isRowVal_iff {n : Nat} {v : Val} :
    isRowVal n v = true ↔ ∃ row, v = .bytes row ∧ row.length = n ∧ ∀ x ∈ row, x < 256 := by
  cases v with
  | bytes row =>
    simp only [isRowVal, Bool.and_eq_true, beq_iff_eq, List.all_eq_true, decide_eq_true_eq]
    exact ⟨fun h => ⟨row, rfl, h.1, h.2⟩, fun ⟨r, hr, h1, h2⟩ => by cases hr; exact ⟨h1, h2⟩⟩
  | _ => simp [isRowVal]

/-- every pixel of the map reads as a row of `n` bytes -/
def RowCells (m : MapObj) (n : Nat) : Prop := ∀ p, p < m.npix → isRowVal n (m.abs p) = true

instance (m : MapObj) (n : Nat) : Decidable (RowCells m n) := by unfold RowCells; infer_instance

/-- a wide-mask map as `make_empty` and the bit API produce it: well formed, kind `wide n`,
    zero sentinel, owning its storage, every cell a row of `n` bytes -/
structure WideMap (m : MapObj) (n : Nat) : Prop where
  wf : m.WF
  kind : m.kind = .wide n
  sent : m.sent.isZero = true
  view : m.view = none
  rows : RowCells m n

instance (m : MapObj) (n : Nat) : Decidable (WideMap m n) :=
  decidable_of_iff (m.WF ∧ m.kind = .wide n ∧ m.sent.isZero = true ∧ m.view = none ∧ RowCells m n)
    ⟨fun ⟨a, b, c, d, e⟩ => ⟨a, b, c, d, e⟩, fun ⟨a, b, c, d, e⟩ => ⟨a, b, c, d, e⟩⟩

theorem maxbits_wide {m : MapObj} {n : Nat} (hk : m.kind = .wide n) : m.maxbits = 8 * n := by
  unfold MapObj.maxbits; rw [hk]

theorem blank_wide {m : MapObj} {n : Nat} (hk : m.kind = .wide n) :
    m.vc.sentinel = .bytes (List.replicate n 0) := by
  unfold MapObj.vc; rw [hk]; rfl

theorem isRowVal_blank (n : Nat) : isRowVal n (.bytes (List.replicate n 0)) = true := by
  simp [isRowVal]

theorem hasBit_blank (n b : Nat) : hasBit (.bytes (List.replicate n 0)) b = false := by
  show ((List.replicate n 0).getD (b / 8) 0).testBit (b % 8) = false
  rw [List.getD_eq_getElem?_getD]
  cases h : (List.replicate n 0)[b / 8]? with
  | none => simp
  | some x =>
    have := List.mem_of_getElem? h
    rw [List.mem_replicate] at this
    rw [this.2]
    simp

/-! ### the bit API as decision lists -/

/-- the value `set_bits_pix` / `clear_bits_pix` hand to `update_values_pix` -/
def bitsValue (n : Nat) (bits : List Nat) (clear : Bool) : Val :=
  .bytes (if clear then complBytes (bitvalsToPacked bits (8 * n)) else bitvalsToPacked bits (8 * n))

/-- the operation they hand over -/
def bitsOp (clear : Bool) : String := if clear then "and" else "or"

/-- the storage they produce -/
def setSt (m : MapObj) (n : Nat) (pix bits : List Nat) (clear : Bool) : State Val :=
  updSt m (bitsOp clear) pix (some [bitsValue n bits clear]) true

theorem apiSetBits_not_wide {m : MapObj} (h : ∀ n, m.kind ≠ .wide n) (pix bits : List Nat)
    (clear : Bool) : apiSetBits m pix bits clear = .error .notImpl := by
  unfold apiSetBits
  cases hk : m.kind with
  | wide n => exact absurd hk (h n)
  | _ => rfl

theorem length_packed (n : Nat) (bits : List Nat) : (bitvalsToPacked bits (8 * n)).length = n := by
  rw [WideMask.length_bitvalsToPacked, Nat.mul_div_cancel_left n (by decide)]

theorem frontErr_bitop {m : MapObj} {n : Nat} (hk : m.kind = .wide n) (hz : m.sent.isZero = true)
    (clear : Bool) : frontErr m (bitsOp clear) false = none := by
  unfold frontErr bitsOp
  cases clear <;> simp [hk, hz, Kind.isBool, Kind.isIntegerMap]

theorem valMatches_bitsValue (n : Nat) (bits : List Nat) (clear : Bool) :
    valMatchesKind (.wide n) (bitsValue n bits clear) = true := by
  unfold bitsValue valMatchesKind
  cases clear <;> simp [length_packed, WideMask.length_complBytes]

theorem bitsOp_ne (clear : Bool) :
    (bitsOp clear == "replace") = false ∧ (bitsOp clear == "add") = false := by
  cases clear <;> exact ⟨by decide, by decide⟩

/-- `set_bits_pix` / `clear_bits_pix` on a wide-mask map with zero sentinel that owns its
    storage: the bit checks, the pixel check, then the `or` / `and` update -/
theorem apiSetBits_wide {m : MapObj} {n : Nat} (hk : m.kind = .wide n) (hz : m.sent.isZero = true)
    (hv : m.view = none) (pix bits : List Nat) (clear : Bool) :
    apiSetBits m pix bits clear =
      if bits.isEmpty then .error .value
      else if bits.any (· ≥ 8 * n) then .error .value
      else if pix.any (· ≥ m.npix) then .error .index
      else .ok { m with cache := none, st := setSt m n pix bits clear } := by
  have hupd : ∀ (cl : Bool),
      apiUpdate m (bitsOp cl) pix (some [bitsValue n bits cl]) true =
        if pix.any (· ≥ m.npix) then .error .index
        else .ok { m with cache := none, st := setSt m n pix bits cl } := by
    intro cl
    rw [apiUpdate_eq]
    unfold apiUpdateSpec
    have hvs : m.view.isSome = false := by rw [hv]; rfl
    simp only [Option.isNone_some, frontErr_bitop hk hz cl, Option.getD_some, List.all_cons,
      List.all_nil, Bool.and_true, hk, valMatches_bitsValue, (bitsOp_ne cl).1, (bitsOp_ne cl).2,
      hvs, Bool.false_and, Bool.not_true, Bool.false_eq_true, if_false, Bool.false_or,
      Bool.true_or]
    by_cases hp : pix = []
    · subst hp
      simp only [List.isEmpty_nil, if_true, List.any_nil, Bool.false_eq_true, if_false]
      unfold setSt
      rw [updSt_nil]
    · have : pix.isEmpty = false := by simpa using hp
      simp only [this, Bool.false_eq_true, if_false]
      rfl
  unfold apiSetBits
  simp only [hk, bind, Except.bind, throw, throwThe, MonadExceptOf.throw, maxbits_wide hk]
  by_cases h1 : bits.isEmpty = true
  · simp only [h1, if_true]
  · simp only [h1, Bool.false_eq_true, if_false]
    by_cases h2 : (bits.any fun x => decide (x ≥ 8 * n)) = true
    · simp only [h2, if_true]
    · simp only [h2, Bool.false_eq_true, if_false]
      cases clear with
      | true =>
        have := hupd true
        simp only [bitsOp, bitsValue, if_true, hk] at this ⊢
        exact this
      | false =>
        have := hupd false
        simp only [bitsOp, bitsValue, Bool.false_eq_true, if_false, hk] at this ⊢
        exact this

/-! ### what `set_bits_pix` / `clear_bits_pix` store -/

/-- the cell operation of set / clear with the packed bit list -/
def bitsCell (m : MapObj) (n : Nat) (bits : List Nat) (clear : Bool) (x : Val) : Val :=
  if clear then Val.and m.kind.dt x (bitsValue n bits clear)
  else Val.or m.kind.dt x (bitsValue n bits clear)

theorem cellOp_bitop (m : MapObj) (clear : Bool) :
    cellOp m (bitsOp clear) = (none, if clear then Val.and m.kind.dt else Val.or m.kind.dt) := by
  cases clear <;> rfl

/-- layout, coverage and dense view of the storage set / clear produce: the coverage grows by
    the coverage pixels of the addressed pixels (in BOTH modes: `clear_bits_pix` of a pixel
    outside the coverage allocates its coverage pixel and leaves the pixel empty); every pixel
    holds the cell operation applied once per occurrence in the pixel list -/
theorem setSt_spec {m : MapObj} (h : m.WF) (n : Nat) {pix : List Nat} (bits : List Nat)
    (clear : Bool) (hlt : ∀ q ∈ pix, q < m.npix) :
    Inv m.c m.vc (setSt m n pix bits clear) ∧
    (∀ k, k < m.c.ncov → covered m.c (setSt m n pix bits clear) k
        = (covered m.c m.st k || pix.any fun q => q >>> m.c.shift == k)) ∧
    (∀ p, p < m.npix → abs m.c m.vc (setSt m n pix bits clear) p
        = denseFold (fun x (_ : Unit) => bitsCell m n bits clear x) (pix.map fun q => (q, ()))
            p (m.abs p)) := by
  have hst : setSt m n pix bits clear
      = updatePix m.c m.vc m.st none (if clear then Val.and m.kind.dt else Val.or m.kind.dt)
          (pix.map fun q => (q, bitsValue n bits clear)) false := by
    unfold setSt updSt updPv
    rw [cellOp_bitop]
    simp
  have hpv : ∀ qw ∈ pix.map (fun q => (q, bitsValue n bits clear)), qw.1 < m.c.npix := by
    intro qw hq
    obtain ⟨q, hq', rfl⟩ := List.mem_map.1 hq
    exact hlt q hq'
  rw [hst]
  refine ⟨inv_updatePix m.c m.vc m.st _ _ _ _ h.2 hpv, fun k hk => ?_, fun p hp => ?_⟩
  · rw [updatePix_covered m.c m.vc m.st _ _ _ _ h.2 hpv k hk, List.any_map]
    rfl
  · rw [updatePix_refines m.c m.vc m.st _ _ _ _ h.2 hpv p hp]
    unfold denseUpdate stageList
    simp only [Bool.false_and, Bool.false_eq_true, if_false, Option.isSome_none, List.nil_append,
      List.map_map]
    refine denseFold_map_congr
      (stageOp (Option.getD none id) (if clear = true then Val.and m.kind.dt else Val.or m.kind.dt))
      (fun x (_ : Unit) => bitsCell m n bits clear x) pix
      ((fun pw => (pw.1, some pw.2)) ∘ fun q => (q, bitsValue n bits clear)) (fun q => (q, ()))
      (fun _ _ => rfl) (fun q _ x => ?_) p _
    unfold bitsCell
    cases clear <;> rfl

/-- a cell operation that acts on every bit through an idempotent function and keeps a
    property of cells: applied once per occurrence of a pixel it acts as if applied once -/
theorem denseFold_idem {I : Val → Prop} {F : Nat → Bool → Bool} (g : Val → Val)
    (hidem : ∀ b y, F b (F b y) = F b y)
    (hg : ∀ x, I x → I (g x) ∧ ∀ b, hasBit (g x) b = F b (hasBit x b))
    (pix : List Nat) (p : Nat) (x : Val) (hx : I x) :
    I (denseFold (fun x (_ : Unit) => g x) (pix.map fun q => (q, ())) p x) ∧
    ∀ b, hasBit (denseFold (fun x (_ : Unit) => g x) (pix.map fun q => (q, ())) p x) b
      = if p ∈ pix then F b (hasBit x b) else hasBit x b := by
  induction pix generalizing x with
  | nil => exact ⟨hx, fun b => by simp [denseFold]⟩
  | cons q pix ih =>
    simp only [List.map_cons, denseFold, List.foldl_cons]
    by_cases hq : q = p
    · subst hq
      simp only [if_true]
      obtain ⟨i1, i2⟩ := ih (g x) (hg x hx).1
      refine ⟨i1, fun b => ?_⟩
      have := i2 b
      simp only [denseFold] at this
      rw [this, (hg x hx).2 b, hidem]
      simp
    · simp only [hq, if_false]
      obtain ⟨i1, i2⟩ := ih x hx
      refine ⟨i1, fun b => ?_⟩
      have := i2 b
      simp only [denseFold] at this
      rw [this]
      have : p ∈ q :: pix ↔ p ∈ pix := by simp [List.mem_cons, Ne.symm hq]
      simp only [this]

/-- a pixel that is not addressed keeps its cell -/
theorem denseFold_not_mem {V W : Type} (g : V → W → V) (L : List (Nat × W)) (p : Nat) (x : V)
    (h : ∀ qw ∈ L, qw.1 ≠ p) : denseFold g L p x = x := by
  induction L generalizing x with
  | nil => rfl
  | cons qw L ih =>
    simp only [denseFold, List.foldl_cons]
    rw [if_neg (h qw List.mem_cons_self)]
    exact ih x fun qw' h' => h qw' (List.mem_cons_of_mem _ h')

/-! ### `check_bits_pix` -/

/-- the answer of `check_bits_pix` for one cell -/
def checkCell (n : Nat) (bits : List Nat) (v : Val) : Bool :=
  match v with
  | .bytes row => (List.zipWith (· &&& ·) row (bitvalsToPacked bits (8 * n))).any (· != 0)
  | _ => false

theorem apiCheckBits_not_wide {m : MapObj} (h : ∀ n, m.kind ≠ .wide n) (pix bits : List Nat) :
    apiCheckBits m pix bits = .error .type := by
  unfold apiCheckBits
  cases hk : m.kind with
  | wide n => exact absurd hk (h n)
  | _ => rfl

/-- `check_bits_pix` on a wide-mask map: the pixel check, THEN the bit check (IndexError
    both), then one answer per listed pixel; an empty bit list is accepted -/
theorem apiCheckBits_wide {m : MapObj} {n : Nat} (hk : m.kind = .wide n) (pix bits : List Nat) :
    apiCheckBits m pix bits =
      if pix.any (· ≥ m.npix) then .error .index
      else if bits.any (· ≥ 8 * n) then .error .index
      else .ok (pix.map fun p => checkCell n bits (m.abs p)) := by
  unfold apiCheckBits apiGet
  simp only [hk, bind, Except.bind, pure, Except.pure, throw, throwThe, MonadExceptOf.throw,
    maxbits_wide hk]
  by_cases h1 : (pix.any fun x => decide (x ≥ m.npix)) = true
  · simp only [h1, if_true]
  · simp only [h1, Bool.false_eq_true, if_false]
    by_cases h2 : (bits.any fun x => decide (x ≥ 8 * n)) = true
    · simp only [h2, if_true]
    · simp only [h2, Bool.false_eq_true, if_false, List.map_map]
      rfl

/-! ### operators with a bit list -/

/-- the cell operation of `map op [bits]` -/
def bitsOpCell (op : String) (n : Nat) (l : List Nat) (x : Val) : Val :=
  match op with
  | "and" => Val.and (.int 8 false) x (.bytes (bitvalsToPacked l (8 * n)))
  | "or"  => Val.or (.int 8 false) x (.bytes (bitvalsToPacked l (8 * n)))
  | _     => Val.xor (.int 8 false) x (.bytes (bitvalsToPacked l (8 * n)))

/-- operators with a bit list on a wide-mask map: only `and` / `or` / `xor`, a non-empty list
    of positions below the width; every VALID cell of the storage is operated on -/
theorem apiScalarOp_bits_wide {m : MapObj} {n : Nat} (hk : m.kind = .wide n) (op : String)
    (l : List Nat) :
    apiScalarOp m op (.bits l) =
      if !intOnlyOp op then .error .notImpl
      else if l.isEmpty then .error .value
      else if l.any (· ≥ 8 * n) then .error .value
      else .ok (scalarOp m.vc m.st (bitsOpCell op n l)) := by
  unfold apiScalarOp
  simp only [hk, bind, Except.bind, pure, Except.pure, throw, throwThe, MonadExceptOf.throw,
    maxbits_wide hk, Kind.isBool, Kind.isIntegerMap, Bool.false_eq_true, if_false, Bool.not_true]
  by_cases h0 : intOnlyOp op = true
  · simp only [h0, if_true, Bool.not_true, Bool.false_eq_true, if_false]
    by_cases h1 : l.isEmpty = true
    · simp only [h1, if_true]
    · simp only [h1, Bool.false_eq_true, if_false]
      by_cases h2 : (l.any fun x => decide (x ≥ 8 * n)) = true
      · simp only [h2, if_true]
      · simp only [h2, Bool.false_eq_true, if_false]
        rfl
  · simp only [h0, Bool.false_eq_true, if_false, Bool.not_false, if_true]

theorem apiScalarOp_bits_not_wide {m : MapObj} (h : ∀ n, m.kind ≠ .wide n) (op : String)
    (l : List Nat) : apiScalarOp m op (.bits l) = .error .notImpl := by
  unfold apiScalarOp
  cases hk : m.kind with
  | wide n => exact absurd hk (h n)
  | recd fs pr => rfl
  | packed => rfl
  | plain dt =>
    simp only [bind, Except.bind, throw, throwThe, MonadExceptOf.throw]
    repeat' split
    all_goals first | rfl | skip

/-- the dense view after an operator: valid cells operated on, invalid cells kept -/
theorem scalarOp_abs {m : MapObj} (h : m.WF) (f : Val → Val) (p : Nat) (hp : p < m.npix) :
    abs m.c m.vc (scalarOp m.vc m.st f) p
      = if m.vc.valid (m.abs p) = true then f (m.abs p) else m.abs p := by
  rw [scalarOp_eq, abs_mapCells m.c m.vc m.vc m.st _ h.2 p hp]
  rfl

/-! ### the driver -/

/-- **`bits` (set_bits_pix / clear_bits_pix) answering anything but `ok` returns the very world
    it was given** — not even a cache is touched -/
theorem opBits_not_ok (w : World) (a : Args) (hne : (opBits w a).2 ≠ "ok") : (opBits w a).1 = w := by
  revert hne
  unfold opBits
  refine withMap_elim (P := fun r => r.2 ≠ "ok" → r.1 = w) (fun s _ => rfl) fun n m hn hget => ?_
  simp only []
  repeat' (first | exact fun _ => rfl | split | simp only [])
  all_goals exact fun h => absurd rfl h

/-- `chk` (check_bits_pix) never changes the world -/
theorem opChk_world (w : World) (a : Args) : (opChk w a).1 = w := by
  unfold opChk
  refine withMap_elim (P := fun r => r.1 = w) (fun s => rfl) fun n m hn hget => ?_
  repeat' (first | rfl | split | simp only [])

/-- an operator (`sop`) answering anything but `ok`: every map reads as before (at most the
    addressed map's `n_valid` cache is reset) -/
theorem opSop_not_ok {w : World} (hw : w.Good) (a : Args) (hne : (opSop w a).2 ≠ "ok") :
    SameMaps (opSop w a).1 w := by
  revert hne
  unfold opSop
  refine withMap_elim (P := fun r => r.2 ≠ "ok" → SameMaps r.1 w) (fun s _ x => rfl)
    fun n m hn hget => ?_
  simp only [hn]
  repeat' (first | exact fun _ _ => rfl | split | simp only [])
  all_goals first
    | exact fun _ x => get?_put_cache hw hget x
    | exact fun h => absurd rfl h
    | (intro _; exfalso; simp_all; done)

end ApiBits
end HS
